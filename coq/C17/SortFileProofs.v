(* C17 -- the sort file as text: print / parse round trip, rejection classes, and the composition with
   first_match_wins (SortProofs.v).  The decimal printer is C16's (DescribeModel.print_dec, with
   NumProofs.print_num_spec: a non-empty digit string whose Horner value is the number). *)
From Coq Require Import List NArith ZArith Bool Lia ZifyBool ZifyN.
From SqfsV Require Import C18.CanonModel C18.CanonProofs C17.GenC17 C17.SortModel C17.SortProofs C17.SortFileModel.
From SqfsV Require C16.DescribeModel C16.NumProofs.
Import ListNotations.
Local Open Scope N_scope.

Local Notation digit10 := (SqfsV.C16.NumProofs.digit_of 10).
Local Notation dstep10 := (SqfsV.C16.NumProofs.dstep 10).
Local Notation print_dec := SqfsV.C16.DescribeModel.print_dec.

(* ------------------------------------------------------------------------- *)
(* parse_digits on a digit string                                              *)
(* ------------------------------------------------------------------------- *)

Definition no_digit_head (s : list N) : Prop :=
  match s with [] => True | c :: _ => isdigit c = false end.

Lemma parse_digits_stop s a : no_digit_head s -> parse_digits s a = POk a s.
Proof. destruct s as [|c r]; [reflexivity|]. cbn [no_digit_head parse_digits]. intros ->. reflexivity. Qed.

Lemma dstep_mono ds : forall a, a <= fold_left dstep10 ds a.
Proof.
  induction ds as [|d r IH]; intro a; [cbn; lia|]. cbn [fold_left].
  specialize (IH (dstep10 a d)). unfold SqfsV.C16.NumProofs.dstep in *. nia.
Qed.

(* in range: every test of the loop passes and the Horner value comes out *)
Lemma parse_digits_ok : forall ds a rest,
  Forall digit10 ds -> no_digit_head rest ->
  fold_left dstep10 ds a < s64lim ->
  parse_digits (ds ++ rest) a = POk (fold_left dstep10 ds a) rest.
Proof.
  induction ds as [|d r IH]; intros a rest Hd Hr Hv.
  - apply parse_digits_stop. exact Hr.
  - inversion Hd as [|? ? [D1 D2] Hd']; subst. cbn [app parse_digits fold_left] in *.
    assert (isdigit d = true) as -> by (unfold isdigit; lia).
    pose proof (dstep_mono r (dstep10 a d)) as M.
    unfold SqfsV.C16.NumProofs.dstep in M, Hv |- *. unfold s64lim in Hv.
    assert (u64max / 10 <=? a = false) as -> by (unfold u64max; lia).
    assert (u64max - (d - 48) <? a * 10 = false) as -> by (unfold u64max; lia).
    cbv zeta. apply IH; assumption.
Qed.

(* out of range: either one of the two tests of the loop fires, or the value that comes out is too big *)
Lemma parse_digits_big : forall ds a rest,
  Forall digit10 ds -> no_digit_head rest ->
  s64lim <= fold_left dstep10 ds a ->
  parse_digits (ds ++ rest) a = POverflow \/
  exists v, parse_digits (ds ++ rest) a = POk v rest /\ s64lim <= v.
Proof.
  induction ds as [|d r IH]; intros a rest Hd Hr Hv.
  - right. exists a. split; [apply parse_digits_stop; exact Hr | exact Hv].
  - inversion Hd as [|? ? [D1 D2] Hd']; subst. cbn [app parse_digits fold_left] in *.
    assert (isdigit d = true) as -> by (unfold isdigit; lia).
    destruct (u64max / 10 <=? a); [left; reflexivity|].
    cbv zeta. destruct (u64max - (d - 48) <? a * 10); [left; reflexivity|].
    apply IH; assumption.
Qed.

Lemma digit_head d r : Forall digit10 (d :: r) -> isdigit d = true /\ d <> ch_minus.
Proof. intro H. inversion H as [|? ? [D1 D2] _]; subst. unfold isdigit, ch_minus. lia. Qed.

Lemma parse_uint_ok ds rest : ds <> [] -> Forall digit10 ds -> no_digit_head rest ->
  fold_left dstep10 ds 0 < s64lim ->
  parse_uint (ds ++ rest) = POk (fold_left dstep10 ds 0) rest.
Proof.
  intros Hne Hd Hr Hv. destruct ds as [|d r]; [congruence|].
  destruct (digit_head _ _ Hd) as [E _]. unfold parse_uint. cbn [app]. rewrite E.
  apply (parse_digits_ok (d :: r)); assumption.
Qed.

Lemma print_dec_spec n :
  let ds := print_dec n in ds <> [] /\ Forall digit10 ds /\ fold_left dstep10 ds 0 = n.
Proof. apply SqfsV.C16.NumProofs.print_num_spec; lia. Qed.

(* parse_int (printf of an int64 ++ rest) *)
Lemma parse_int_print_nat n rest : n < s64lim -> no_digit_head rest ->
  parse_int (print_dec n ++ rest) = IOk (Z.of_N n) rest.
Proof.
  intros Hn Hr. unfold parse_int.
  destruct (print_dec_spec n) as (A & B & C).
  destruct (print_dec n) as [|d r] eqn:E; [congruence|].
  destruct (digit_head _ _ B) as [_ Hm]. cbn [app]. apply N.eqb_neq in Hm. rewrite Hm.
  change (d :: r ++ rest) with ((d :: r) ++ rest).
  rewrite parse_uint_ok.
  - rewrite C. assert (s64lim <=? n = false) as -> by lia. reflexivity.
  - discriminate.
  - exact B.
  - exact Hr.
  - rewrite C. exact Hn.
Qed.

Lemma parse_int_print p rest :
  (- Z.of_N s64lim < p < Z.of_N s64lim)%Z -> no_digit_head rest ->
  parse_int (print_prio p ++ rest) = IOk p rest.
Proof.
  intros Hp Hr. unfold print_prio.
  destruct p as [|q|q].
  - rewrite parse_int_print_nat; [reflexivity| unfold s64lim; cbn; lia | exact Hr].
  - rewrite parse_int_print_nat; [f_equal; lia | lia | exact Hr].
  - unfold parse_int. cbn [app]. change (ch_minus =? ch_minus) with true. cbv iota.
    destruct (print_dec_spec (Npos q)) as (A & B & C).
    rewrite parse_uint_ok; try assumption; [|rewrite C; lia].
    rewrite C. assert (s64lim <=? Npos q = false) as -> by lia.
    reflexivity.
Qed.

(* ------------------------------------------------------------------------- *)
(* the printed pieces                                                          *)
(* ------------------------------------------------------------------------- *)

Lemma escape_name_eq s : escape_name s = escape s.
Proof. induction s as [|c r IH]; [reflexivity|]. cbn [escape_name escape]. rewrite IH. reflexivity. Qed.

Lemma quote_name_eq s : quote_name s = quote s.
Proof. unfold quote_name, quote. rewrite escape_name_eq. reflexivity. Qed.

Lemma join_words_eq l : join_words l = join_comma l.
Proof.
  induction l as [|a r IH]; [reflexivity|]. destruct r as [|b r']; [reflexivity|].
  change (join_words (a :: b :: r')) with (a ++ ch_comma :: join_words (b :: r')).
  rewrite IH. reflexivity.
Qed.

(* the keyword list the printer writes *)
Definition entry_kws (d : directive) : list kw :=
  (if d_glob d then [if d_path d then KGlob else KGlobNoPath] else []) ++
  (if bit_set (d_flags d) c_SQFS_BLK_DONT_FRAGMENT then [KDontFragment] else []) ++
  (if bit_set (d_flags d) c_SQFS_BLK_DONT_COMPRESS then [KDontCompress] else []) ++
  (if bit_set (d_flags d) c_SQFS_BLK_DONT_DEDUPLICATE then [KDontDeduplicate] else []) ++
  (if bit_set (d_flags d) c_SQFS_BLK_IGNORE_SPARSE then [KNoSparse] else []).

Lemma flag_words_kws d : flag_words d = map kw_str (entry_kws d).
Proof.
  unfold flag_words, entry_kws. rewrite !map_app.
  destruct (d_glob d), (d_path d), (bit_set (d_flags d) c_SQFS_BLK_DONT_FRAGMENT),
    (bit_set (d_flags d) c_SQFS_BLK_DONT_COMPRESS), (bit_set (d_flags d) c_SQFS_BLK_DONT_DEDUPLICATE),
    (bit_set (d_flags d) c_SQFS_BLK_IGNORE_SPARSE); reflexivity.
Qed.

Definition entry_ok (d : directive) : Prop :=
  (- Z.of_N s64lim < d_prio d < Z.of_N s64lim)%Z /\
  (d_glob d = false -> d_path d = false) /\
  rebuild_flags (d_flags d) = d_flags d.

Lemma entry_okb_iff d : entry_okb d = true <-> entry_ok d.
Proof.
  unfold entry_okb, entry_ok. rewrite !andb_true_iff, !Z.ltb_lt, N.eqb_eq, orb_true_iff, negb_true_iff.
  split.
  - intros [[[A B] C] D]. repeat split; auto. intros E. destruct C as [C|C]; congruence.
  - intros [[A B] [C D]]. repeat split; auto. destruct (d_glob d); auto.
Qed.

Lemma entry_kws_effect d : entry_ok d ->
  kw_effect (entry_kws d) false false 0 = (d_glob d, d_path d, d_flags d).
Proof.
  intros (_ & Hg & Hf). unfold entry_kws. unfold rebuild_flags in Hf.
  destruct (d_glob d) eqn:G, (d_path d) eqn:P; try (specialize (Hg eq_refl); discriminate);
  destruct (bit_set (d_flags d) c_SQFS_BLK_DONT_FRAGMENT),
    (bit_set (d_flags d) c_SQFS_BLK_DONT_COMPRESS), (bit_set (d_flags d) c_SQFS_BLK_DONT_DEDUPLICATE),
    (bit_set (d_flags d) c_SQFS_BLK_IGNORE_SPARSE);
  cbn [app kw_effect kw_bit]; rewrite <- Hf; reflexivity.
Qed.

Lemma print_flags_cases d :
  (entry_kws d = [] /\ print_flags d = []) \/
  (print_flags d = render_flags (entry_kws d) ++ [ch_space]).
Proof.
  unfold print_flags. rewrite flag_words_kws.
  destruct (entry_kws d) as [|k r] eqn:E; [left; auto|right].
  cbn [map]. rewrite join_words_eq. unfold render_flags. cbn [map app].
  rewrite <- app_assoc. reflexivity.
Qed.

Lemma isspace_space : isspace ch_space = true.
Proof. reflexivity. Qed.

Lemma ltrim_nonspace c r : isspace c = false -> ltrim (c :: r) = c :: r.
Proof. intro H. unfold ltrim. cbn [drop_while]. rewrite H. reflexivity. Qed.

Lemma ltrim_space_nonspace c r : isspace c = false -> ltrim (ch_space :: c :: r) = c :: r.
Proof. intro H. unfold ltrim. cbn [drop_while]. rewrite isspace_space, H. reflexivity. Qed.

(* decode_priority on a printed priority followed by one blank and a non-blank byte *)
Lemma decode_priority_print p c r :
  (- Z.of_N s64lim < p < Z.of_N s64lim)%Z -> isspace c = false ->
  decode_priority (print_prio p ++ ch_space :: c :: r) = Some (p, c :: r).
Proof.
  intros Hp Hc. unfold decode_priority. rewrite parse_int_print; [|exact Hp|reflexivity].
  rewrite isspace_space. rewrite ltrim_space_nonspace by exact Hc. reflexivity.
Qed.

Lemma print_prio_head p : exists c r, print_prio p = c :: r /\ c <> ch_hash /\ isspace c = false.
Proof.
  unfold print_prio. destruct p as [|q|q].
  - destruct (print_dec_spec (Z.to_N 0)) as (A & B & _).
    destruct (print_dec (Z.to_N 0)) as [|c r]; [congruence|]. exists c, r.
    inversion B as [|? ? [D1 D2] _]; subst. unfold ch_hash, isspace. repeat split; lia.
  - destruct (print_dec_spec (Z.to_N (Zpos q))) as (A & B & _).
    destruct (print_dec (Z.to_N (Zpos q))) as [|c r]; [congruence|]. exists c, r.
    inversion B as [|? ? [D1 D2] _]; subst. unfold ch_hash, isspace. repeat split; lia.
  - eexists _, _. split; [reflexivity|]. split; [discriminate|reflexivity].
Qed.

(* the tail of a printed line: flag list (if any) and quoted name, as decode_flags + decode_filename see it *)
Lemma decode_tail_print d : entry_ok d ->
  exists c r, print_flags d ++ quote_name (d_name d) = c :: r /\ isspace c = false /\
  match decode_flags (c :: r) with
  | FOk g pg fl r2 => g = d_glob d /\ pg = d_path d /\ fl = d_flags d /\ r2 = quote (d_name d)
  | _ => False
  end.
Proof.
  intros Hok. rewrite quote_name_eq.
  destruct (print_flags_cases d) as [[Ek Ep]|Ep]; rewrite Ep.
  - exists ch_dquote, (escape (d_name d) ++ [ch_dquote]). split; [reflexivity|]. split; [reflexivity|].
    cbn [decode_flags]. change (ch_dquote =? ch_lbracket) with false. cbv iota.
    pose proof (entry_kws_effect d Hok) as E. rewrite Ek in E. cbn [kw_effect] in E.
    inversion E. auto.
  - exists ch_lbracket, (join_comma (map kw_str (entry_kws d)) ++ [ch_rbracket] ++ [ch_space] ++ quote (d_name d)).
    split; [unfold render_flags; cbn [app]; rewrite <- !app_assoc; reflexivity|]. split; [reflexivity|].
    replace (ch_lbracket :: join_comma (map kw_str (entry_kws d)) ++ [ch_rbracket] ++ [ch_space] ++ quote (d_name d))
      with (render_flags (entry_kws d) ++ ch_space :: quote (d_name d))
      by (unfold render_flags; cbn [app]; rewrite <- !app_assoc; reflexivity).
    rewrite decode_flags_rendered by reflexivity.
    rewrite (entry_kws_effect d Hok). repeat split.
Qed.

(* ------------------------------------------------------------------------- *)
(* round trip of one line                                                      *)
(* ------------------------------------------------------------------------- *)

Lemma parse_print_line_gen d : entry_ok d ->
  parse_line true (print_sort_line d) =
  match canon_result (d_name d) with
  | Some nm => LnDir (set_name d nm)
  | None => LnErr
  end.
Proof.
  intros Hok. unfold print_sort_line.
  destruct (decode_tail_print d Hok) as (c & r & Et & Hc & Hd). rewrite Et.
  destruct (print_prio_head (d_prio d)) as (c0 & r0 & Ep & Hh & _).
  unfold parse_line. rewrite Ep. cbn [app]. apply N.eqb_neq in Hh. rewrite Hh.
  change (c0 :: r0 ++ ch_space :: c :: r) with ((c0 :: r0) ++ ch_space :: c :: r). rewrite <- Ep.
  rewrite decode_priority_print; [|apply Hok|exact Hc].
  destruct (decode_flags (c :: r)) as [g pg fl r2| |]; try contradiction.
  destruct Hd as (-> & -> & -> & ->). rewrite quoted_name_l.
  destruct (canon_result (d_name d)); reflexivity.
Qed.

Lemma set_name_same d : set_name d (d_name d) = d.
Proof. destruct d; reflexivity. Qed.

Lemma parse_print_line d : entry_ok d -> canon_result (d_name d) = Some (d_name d) ->
  parse_line true (print_sort_line d) = LnDir d.
Proof. intros Hok Hc. rewrite parse_print_line_gen by exact Hok. rewrite Hc, set_name_same. reflexivity. Qed.

(* ------------------------------------------------------------------------- *)
(* the printed file, line by line (istream_get_line)                           *)
(* ------------------------------------------------------------------------- *)

Lemma lines_go_line : forall l cur r, ~ In ch_nl l ->
  lines_go cur (l ++ ch_nl :: r) = emit (rev (strip_cr_rev (rev l ++ cur))) ++ lines_go [] r.
Proof.
  induction l as [|c l IH]; intros cur r Hn.
  - cbn [app lines_go rev]. change (ch_nl =? ch_nl) with true. reflexivity.
  - cbn [app lines_go]. destruct (c =? ch_nl) eqn:E.
    + apply N.eqb_eq in E. exfalso. apply Hn. left. auto.
    + rewrite IH by (intro H; apply Hn; right; exact H).
      cbn [rev]. rewrite <- app_assoc. reflexivity.
Qed.

Lemma lines_go_last : forall l cur, ~ In ch_nl l -> lines_go cur l =
  match rev l ++ cur with [] => [] | _ => emit (rev (rev l ++ cur)) end.
Proof.
  induction l as [|c l IH]; intros cur Hn.
  - cbn [lines_go rev app]. destruct cur; reflexivity.
  - cbn [lines_go]. destruct (c =? ch_nl) eqn:E.
    + apply N.eqb_eq in E. exfalso. apply Hn. left. auto.
    + rewrite IH by (intro H; apply Hn; right; exact H).
      cbn [rev]. rewrite <- app_assoc. reflexivity.
Qed.

(* a line that starts and ends with a non-blank byte passes LTRIM|RTRIM|SKIP_EMPTY unchanged *)
Lemma emit_clean c0 r0 body q :
  isspace c0 = false -> isspace q = false -> c0 :: r0 = body ++ [q] ->
  emit (c0 :: r0) = [c0 :: r0].
Proof.
  intros H0 Hq E. unfold emit, trim. rewrite ltrim_nonspace by exact H0.
  unfold rtrim. rewrite E, rev_app_distr. cbn [rev app drop_while]. rewrite Hq.
  change (q :: rev body) with (rev [q] ++ rev body). rewrite <- rev_app_distr, rev_involutive.
  rewrite <- E. reflexivity.
Qed.

Lemma strip_cr_clean body q cur : q <> ch_cr -> strip_cr_rev (rev (body ++ [q]) ++ cur) = rev (body ++ [q]) ++ cur.
Proof.
  intro H. rewrite rev_app_distr. cbn [rev app strip_cr_rev]. apply N.eqb_neq in H. rewrite H. reflexivity.
Qed.

Lemma print_line_shape d :
  exists c0 r0 body, print_sort_line d = c0 :: r0 /\ c0 :: r0 = body ++ [ch_dquote] /\
                     isspace c0 = false /\ c0 <> ch_hash.
Proof.
  destruct (print_prio_head (d_prio d)) as (c0 & r0 & Ep & Hh & Hs).
  exists c0, (r0 ++ ch_space :: print_flags d ++ quote_name (d_name d)),
    (print_prio (d_prio d) ++ ch_space :: print_flags d ++ ch_dquote :: escape_name (d_name d)).
  unfold print_sort_line. rewrite Ep. cbn [app]. repeat split; auto.
  unfold quote_name. rewrite <- !app_assoc. cbn [app]. rewrite <- !app_assoc. reflexivity.
Qed.

Lemma digits_no_nl ds : Forall digit10 ds -> ~ In ch_nl ds.
Proof.
  intros H Hin. rewrite Forall_forall in H. apply H in Hin. destruct Hin as [A B]. unfold ch_nl in A. lia.
Qed.

Lemma print_prio_no_nl p : ~ In ch_nl (print_prio p).
Proof.
  unfold print_prio. destruct p as [|q|q].
  - apply digits_no_nl, print_dec_spec.
  - apply digits_no_nl, print_dec_spec.
  - intros [H|H]; [discriminate|]. revert H. apply digits_no_nl, print_dec_spec.
Qed.

Lemma kw_no_nl k : ~ In ch_nl (kw_str k).
Proof. destruct k; cbn; intuition discriminate. Qed.

Lemma join_no_nl ks : ~ In ch_nl (join_comma (map kw_str ks)).
Proof.
  induction ks as [|k r IH]; [intros []|].
  destruct r as [|k2 r'].
  - cbn [map join_comma]. apply kw_no_nl.
  - change (map kw_str (k :: k2 :: r')) with (kw_str k :: kw_str k2 :: map kw_str r').
    rewrite join_comma_cons. intro H. apply in_app_or in H. destruct H as [H|[H|H]].
    + revert H. apply kw_no_nl.
    + discriminate.
    + apply IH. exact H.
Qed.

Lemma print_flags_no_nl d : ~ In ch_nl (print_flags d).
Proof.
  destruct (print_flags_cases d) as [[_ ->] | ->]; [intros []|].
  unfold render_flags. intro H. cbn [app] in H. destruct H as [H|H]; [discriminate|].
  rewrite <- app_assoc in H. apply in_app_or in H. destruct H as [H|H].
  - revert H. apply join_no_nl.
  - cbn in H. intuition discriminate.
Qed.

Lemma escape_no_nl s : ~ In ch_nl s -> ~ In ch_nl (escape_name s).
Proof.
  induction s as [|c r IH]; intros Hn; [intros []|].
  cbn [escape_name]. assert (Hc : c <> ch_nl) by (intro; apply Hn; left; auto).
  assert (Hr : ~ In ch_nl (escape_name r)) by (apply IH; intro; apply Hn; right; auto).
  destruct ((c =? ch_dquote) || (c =? ch_bslash)); cbn [In]; intuition discriminate.
Qed.

Lemma print_line_no_nl d : ~ In ch_nl (d_name d) -> ~ In ch_nl (print_sort_line d).
Proof.
  intros Hn H. unfold print_sort_line in H. apply in_app_or in H. destruct H as [H|H].
  - revert H. apply print_prio_no_nl.
  - destruct H as [H|H]; [discriminate|]. apply in_app_or in H. destruct H as [H|H].
    + revert H. apply print_flags_no_nl.
    + unfold quote_name in H. destruct H as [H|H]; [discriminate|].
      apply in_app_or in H. destruct H as [H|H].
      * revert H. apply escape_no_nl. exact Hn.
      * cbn in H. intuition discriminate.
Qed.

Lemma printed_line_emit d :
  emit (print_sort_line d) = [print_sort_line d] /\
  emit (rev (strip_cr_rev (rev (print_sort_line d) ++ []))) = [print_sort_line d].
Proof.
  destruct (print_line_shape d) as (c0 & r0 & body & E1 & E2 & Hs & _).
  assert (Hem : emit (print_sort_line d) = [print_sort_line d]).
  { rewrite E1. apply (emit_clean c0 r0 body ch_dquote Hs eq_refl E2). }
  split; [exact Hem|].
  rewrite E1, E2. rewrite strip_cr_clean by discriminate. rewrite app_nil_r, rev_involutive.
  rewrite <- E2, <- E1. exact Hem.
Qed.

(* istream_get_line on the printed file returns exactly the printed lines *)
Lemma get_lines_print_file ds : Forall (fun d => ~ In ch_nl (d_name d)) ds ->
  get_lines (print_sort_file ds) = map print_sort_line ds.
Proof.
  unfold get_lines. induction 1 as [|d r Hd _ IH]; [reflexivity|].
  cbn [print_sort_file map]. rewrite lines_go_line by (apply print_line_no_nl; exact Hd).
  rewrite IH. destruct (printed_line_emit d) as [_ ->]. reflexivity.
Qed.

(* one raw line, with or without line terminator (LF or CRLF) *)
Lemma parse_sort_line_raw d eol : entry_ok d -> ~ In ch_nl (d_name d) ->
  eol = [] \/ eol = [ch_nl] \/ eol = [ch_cr; ch_nl] ->
  parse_sort_line (print_sort_line d ++ eol) =
  match canon_result (d_name d) with
  | Some nm => LnDir (set_name d nm)
  | None => LnErr
  end.
Proof.
  intros Hok Hn He. rewrite <- parse_print_line_gen by exact Hok.
  unfold parse_sort_line, get_lines.
  pose proof (print_line_no_nl d Hn) as Hnl.
  destruct (printed_line_emit d) as [Hem Hem2].
  destruct He as [-> | [-> | ->]].
  - rewrite app_nil_r. rewrite lines_go_last by exact Hnl. rewrite app_nil_r, rev_involutive.
    destruct (rev (print_sort_line d)) eqn:Er.
    + apply (f_equal (@rev N)) in Er. rewrite rev_involutive in Er.
      destruct (print_line_shape d) as (c0 & r0 & body & E1 & _). rewrite Er in E1. discriminate.
    + rewrite Hem. reflexivity.
  - rewrite lines_go_line by exact Hnl. rewrite Hem2. reflexivity.
  - change (print_sort_line d ++ [ch_cr; ch_nl]) with (print_sort_line d ++ [ch_cr] ++ ch_nl :: []).
    rewrite app_assoc. rewrite lines_go_line.
    + rewrite app_nil_r, rev_app_distr. cbn [rev app strip_cr_rev]. change (ch_cr =? ch_cr) with true. cbv iota.
      rewrite app_nil_r, rev_involutive, Hem. reflexivity.
    + intro H. apply in_app_or in H. destruct H as [H|H]; [apply Hnl; exact H|]. cbn in H. intuition discriminate.
Qed.

Lemma parse_lines_all lines : parse_lines lines = parse_all true lines.
Proof. induction lines as [|l r IH]; [reflexivity|]. cbn [parse_lines parse_all]. rewrite IH. reflexivity. Qed.

Definition canonical_name (d : directive) : Prop := canon_result (d_name d) = Some (d_name d).

Lemma parse_lines_printed ds :
  Forall entry_ok ds -> Forall canonical_name ds ->
  parse_lines (map print_sort_line ds) = Some ds.
Proof.
  induction ds as [|d r IH]; intros Hok Hc; [reflexivity|].
  inversion Hok; inversion Hc; subst. cbn [map parse_lines].
  rewrite parse_print_line by assumption. rewrite IH by assumption. reflexivity.
Qed.

Lemma parse_print_file ds :
  Forall entry_ok ds -> Forall canonical_name ds -> Forall (fun d => ~ In ch_nl (d_name d)) ds ->
  parse_sort_file (print_sort_file ds) = Some ds.
Proof.
  intros Hok Hc Hn. unfold parse_sort_file. rewrite get_lines_print_file by exact Hn.
  apply parse_lines_printed; assumption.
Qed.

(* ------------------------------------------------------------------------- *)
(* end to end: from the entries, through the bytes of the sort file, to the    *)
(* priorities / flag words fstree_sort_files assigns                           *)
(* ------------------------------------------------------------------------- *)
Lemma printed_sort_file_assigns fnmatch paths ds :
  Forall (fun p => canon_result p <> None) paths ->
  NoDup (map cpath_of paths) ->
  Forall entry_ok ds -> Forall canonical_name ds -> Forall (fun d => ~ In ch_nl (d_name d)) ds ->
  exists ns,
    sort_files fnmatch true paths (print_sort_file ds) = ROk (sel_sort ns) /\
    Forall2 (fun p n => n_path n = p /\ (n_prio n, n_flags n) = assigned fnmatch ds p) paths ns.
Proof.
  intros Hp Hnd Hok Hc Hn.
  pose proof (first_match_wins_l fnmatch true paths (print_sort_file ds) Hp Hnd) as H.
  pose proof (parse_print_file ds Hok Hc Hn) as E. unfold parse_sort_file in E.
  rewrite parse_lines_all in E. rewrite E in H.
  destruct H as (ns & _ & H1 & H2). exists ns. split; assumption.
Qed.

(* ------------------------------------------------------------------------- *)
(* rejection classes (both variants of decode_filename)                        *)
(* ------------------------------------------------------------------------- *)

(* (1) the line does not start with a number *)
Lemma reject_no_priority_l t c r :
  c <> ch_hash -> isdigit c = false ->
  (c = ch_minus -> match r with d :: _ => isdigit d = false | [] => True end) ->
  parse_line t (c :: r) = LnErr.
Proof.
  intros Hh Hd Hm. unfold parse_line. apply N.eqb_neq in Hh. rewrite Hh.
  unfold decode_priority, parse_int. destruct (c =? ch_minus) eqn:E.
  - apply N.eqb_eq in E. specialize (Hm E). unfold parse_uint.
    destruct r as [|d r']; [reflexivity|]. rewrite Hm. reflexivity.
  - unfold parse_uint. rewrite Hd. reflexivity.
Qed.

(* (2) the number does not fit: |value| >= 2^63 - 1 *)
Lemma parse_int_big sign ds rest :
  sign = [] \/ sign = [ch_minus] -> ds <> [] -> Forall digit10 ds -> no_digit_head rest ->
  s64lim <= fold_left dstep10 ds 0 ->
  parse_int (sign ++ ds ++ rest) = IOverflow.
Proof.
  intros Hs Hne Hd Hr Hv. destruct ds as [|d r']; [congruence|].
  destruct (digit_head _ _ Hd) as [Ed Hm].
  assert (Hu : parse_uint ((d :: r') ++ rest) = POverflow \/
               exists v, parse_uint ((d :: r') ++ rest) = POk v rest /\ s64lim <= v).
  { unfold parse_uint. cbn [app]. rewrite Ed. apply (parse_digits_big (d :: r')); assumption. }
  unfold parse_int. destruct Hs as [-> | ->]; cbn [app].
  - apply N.eqb_neq in Hm. rewrite Hm. change (d :: r' ++ rest) with ((d :: r') ++ rest).
    destruct Hu as [-> | (v & -> & Hv')]; [reflexivity|].
    assert (s64lim <=? v = true) as -> by lia. reflexivity.
  - change (ch_minus =? ch_minus) with true. cbv iota. change (d :: r' ++ rest) with ((d :: r') ++ rest).
    destruct Hu as [-> | (v & -> & Hv')]; [reflexivity|].
    assert (s64lim <=? v = true) as -> by lia. reflexivity.
Qed.

Lemma reject_priority_overflow_l t sign ds rest :
  sign = [] \/ sign = [ch_minus] -> ds <> [] -> Forall digit10 ds -> no_digit_head rest ->
  s64lim <= fold_left dstep10 ds 0 ->
  parse_line t (sign ++ ds ++ rest) = LnErr.
Proof.
  intros Hs Hne Hd Hr Hv.
  pose proof (parse_int_big sign ds rest Hs Hne Hd Hr Hv) as E.
  unfold parse_line. destruct (sign ++ ds ++ rest) as [|c r] eqn:El.
  - destruct Hs as [-> | ->]; destruct ds; cbn in El; congruence.
  - assert (Hc : c <> ch_hash).
    { destruct Hs as [-> | ->]; cbn [app] in El.
      - destruct ds as [|d r']; [congruence|]. cbn [app] in El. inversion El; subst.
        inversion Hd as [|? ? [D1 D2] _]; subst. unfold ch_hash. lia.
      - inversion El; subst. discriminate. }
    apply N.eqb_neq in Hc. rewrite Hc. unfold decode_priority. rewrite E. reflexivity.
Qed.

(* the same for the decimal representation of any number >= 2^63 - 1 *)
Lemma reject_priority_out_of_range_l t sign n rest :
  sign = [] \/ sign = [ch_minus] -> no_digit_head rest -> s64lim <= n ->
  parse_line t (sign ++ print_dec n ++ rest) = LnErr.
Proof.
  intros Hs Hr Hn. destruct (print_dec_spec n) as (A & B & C).
  apply reject_priority_overflow_l; try assumption. rewrite C. exact Hn.
Qed.

(* (3) nothing, or no blank, behind the number *)
Lemma reject_no_blank_after_priority_l t p rest :
  (- Z.of_N s64lim < p < Z.of_N s64lim)%Z ->
  match rest with [] => True | c :: _ => isspace c = false /\ isdigit c = false end ->
  parse_line t (print_prio p ++ rest) = LnErr.
Proof.
  intros Hp Hr. destruct (print_prio_head p) as (c0 & r0 & Ep & Hh & _).
  unfold parse_line. rewrite Ep. cbn [app]. apply N.eqb_neq in Hh. rewrite Hh.
  change (c0 :: r0 ++ rest) with ((c0 :: r0) ++ rest). rewrite <- Ep.
  unfold decode_priority. rewrite parse_int_print; [|exact Hp|destruct rest; [exact I|apply Hr]].
  destruct rest as [|c r]; [reflexivity|]. destruct Hr as [-> _]. reflexivity.
Qed.

(* what is left of a line once the priority is decoded *)
Lemma parse_line_after_prio t p c r :
  (- Z.of_N s64lim < p < Z.of_N s64lim)%Z -> isspace c = false ->
  parse_line t (print_prio p ++ ch_space :: c :: r) =
  match decode_flags (c :: r) with
  | FErr => LnErr
  | FFuel => LnFuel
  | FOk g pg fl r2 =>
    match decode_filename t r2 with
    | None => LnErr
    | Some nm => LnDir (mkdirective p g pg fl nm)
    end
  end.
Proof.
  intros Hp Hc. destruct (print_prio_head p) as (c0 & r0 & Ep & Hh & _).
  unfold parse_line. rewrite Ep. cbn [app]. apply N.eqb_neq in Hh. rewrite Hh.
  change (c0 :: r0 ++ ch_space :: c :: r) with ((c0 :: r0) ++ ch_space :: c :: r). rewrite <- Ep.
  rewrite decode_priority_print by assumption. reflexivity.
Qed.

(* (4) flag list without closing bracket *)
Lemma find_rbracket_none s : ~ In ch_rbracket s -> find_rbracket s = None.
Proof.
  induction s as [|c r IH]; intro H; [reflexivity|]. cbn [find_rbracket].
  destruct (c =? ch_rbracket) eqn:E.
  - apply N.eqb_eq in E. exfalso. apply H. left. auto.
  - rewrite IH; [reflexivity|]. intro; apply H; right; assumption.
Qed.

Lemma reject_missing_rbracket_l t p s :
  (- Z.of_N s64lim < p < Z.of_N s64lim)%Z -> ~ In ch_rbracket s ->
  parse_line t (print_prio p ++ ch_space :: ch_lbracket :: s) = LnErr.
Proof.
  intros Hp Hs. rewrite parse_line_after_prio; [|exact Hp|reflexivity].
  unfold decode_flags. change (ch_lbracket =? ch_lbracket) with true. cbv iota.
  rewrite find_rbracket_none by exact Hs. reflexivity.
Qed.

(* (5) nothing, or no blank, behind the closing bracket *)
Lemma reject_no_blank_after_flags_l t p inner after :
  (- Z.of_N s64lim < p < Z.of_N s64lim)%Z ->
  Forall (fun c => (c =? ch_rbracket) = false) inner ->
  match after with [] => True | c :: _ => isspace c = false end ->
  parse_line t (print_prio p ++ ch_space :: ch_lbracket :: inner ++ ch_rbracket :: after) = LnErr.
Proof.
  intros Hp Hi Ha. rewrite parse_line_after_prio; [|exact Hp|reflexivity].
  unfold decode_flags. change (ch_lbracket =? ch_lbracket) with true. cbv iota.
  rewrite find_rbracket_app by exact Hi.
  pose proof (split_line_total inner) as Ht.
  destruct (split_line_comma inner); [|reflexivity|congruence].
  destruct after as [|c r]; [reflexivity|]. rewrite Ha. reflexivity.
Qed.

(* (6) a word of the flag list is none of the six keywords (a prefix of one, one with a suffix,
       `align` of the manual page, ...) *)
Definition known_kw (w : list N) : bool :=
  list_N_eqb w kw_glob_no_path || list_N_eqb w kw_glob || list_N_eqb w kw_dont_fragment ||
  list_N_eqb w kw_dont_compress || list_N_eqb w kw_dont_deduplicate || list_N_eqb w kw_nosparse.

Lemma apply_kw_unknown : forall args g p fl,
  Exists (fun a => known_kw (trim a) = false) args -> apply_kw args g p fl = None.
Proof.
  induction args as [|a r IH]; intros g p fl H; [inversion H|].
  cbn [apply_kw]. unfold known_kw in H.
  destruct (list_N_eqb (trim a) kw_glob_no_path) eqn:E1.
  { inversion H as [? ? Hx|? ? Hx]; subst; [rewrite E1 in Hx; discriminate | apply IH; exact Hx]. }
  destruct (list_N_eqb (trim a) kw_glob) eqn:E2.
  { inversion H as [? ? Hx|? ? Hx]; subst; [rewrite E1, E2 in Hx; discriminate | apply IH; exact Hx]. }
  destruct (list_N_eqb (trim a) kw_dont_fragment) eqn:E3.
  { inversion H as [? ? Hx|? ? Hx]; subst; [rewrite E1, E2, E3 in Hx; discriminate | apply IH; exact Hx]. }
  destruct (list_N_eqb (trim a) kw_dont_compress) eqn:E4.
  { inversion H as [? ? Hx|? ? Hx]; subst; [rewrite E1, E2, E3, E4 in Hx; discriminate | apply IH; exact Hx]. }
  destruct (list_N_eqb (trim a) kw_dont_deduplicate) eqn:E5.
  { inversion H as [? ? Hx|? ? Hx]; subst; [rewrite E1, E2, E3, E4, E5 in Hx; discriminate | apply IH; exact Hx]. }
  destruct (list_N_eqb (trim a) kw_nosparse) eqn:E6.
  { inversion H as [? ? Hx|? ? Hx]; subst; [rewrite E1, E2, E3, E4, E5, E6 in Hx; discriminate | apply IH; exact Hx]. }
  reflexivity.
Qed.

Lemma join_words_no_rbracket ws :
  Forall (Forall (fun c => (c =? ch_rbracket) = false)) ws ->
  Forall (fun c => (c =? ch_rbracket) = false) (join_comma ws).
Proof.
  induction 1 as [|a r Ha Hr IH]; [constructor|].
  destruct r as [|b r']; [exact Ha|].
  rewrite join_comma_cons. apply Forall_app. split; [exact Ha|]. constructor; [reflexivity|exact IH].
Qed.

Lemma join_words_length ws : Forall plain_tok ws -> (length ws <= length (join_comma ws))%nat.
Proof.
  induction 1 as [|a r Ha Hr IH]; [cbn; lia|].
  destruct Ha as [(c & t & -> & _) _].
  destruct r as [|b r']; [cbn; lia|].
  rewrite join_comma_cons. rewrite app_length. cbn [length] in *. lia.
Qed.

Lemma join_words_head ws : Forall plain_tok ws -> drop_while is_comma (join_comma ws) = join_comma ws.
Proof.
  intros H. destruct ws as [|a [|b r]]; [reflexivity| |]; inversion H; subst.
  - cbn [join_comma]. rewrite <- (app_nil_r a). apply plain_head_not_comma. assumption.
  - rewrite join_comma_cons. apply plain_head_not_comma. assumption.
Qed.

Lemma decode_flags_unknown ws after :
  Forall plain_tok ws -> Forall (Forall (fun c => (c =? ch_rbracket) = false)) ws ->
  Exists (fun w => known_kw (trim w) = false) ws ->
  decode_flags (ch_lbracket :: join_comma ws ++ ch_rbracket :: after) = FErr.
Proof.
  intros Hp Hb Hu. unfold decode_flags. change (ch_lbracket =? ch_lbracket) with true. cbv iota.
  rewrite find_rbracket_app by (apply join_words_no_rbracket; exact Hb).
  unfold split_line_comma. rewrite join_words_head by exact Hp.
  rewrite split_go_join; [|exact Hp|pose proof (join_words_length ws Hp); lia].
  destruct after as [|c r]; [reflexivity|].
  destruct (isspace c); [|reflexivity].
  rewrite apply_kw_unknown by exact Hu. reflexivity.
Qed.

Lemma reject_unknown_flag_l t p ws after :
  (- Z.of_N s64lim < p < Z.of_N s64lim)%Z ->
  Forall plain_tok ws -> Forall (Forall (fun c => (c =? ch_rbracket) = false)) ws ->
  Exists (fun w => known_kw (trim w) = false) ws ->
  parse_line t (print_prio p ++ ch_space :: ch_lbracket :: join_comma ws ++ ch_rbracket :: after) = LnErr.
Proof.
  intros Hp H1 H2 H3. rewrite parse_line_after_prio; [|exact Hp|reflexivity].
  rewrite decode_flags_unknown by assumption. reflexivity.
Qed.

(* the name part behind an (optional) well-formed flag list *)
Definition flag_prefix (o : option (list kw)) : list N :=
  match o with None => [] | Some ks => render_flags ks ++ [ch_space] end.

Definition prefix_effect (o : option (list kw)) : bool * bool * N :=
  match o with None => (false, false, 0) | Some ks => kw_effect ks false false 0 end.

Lemma parse_line_name_part t p o c r :
  (- Z.of_N s64lim < p < Z.of_N s64lim)%Z -> isspace c = false -> c <> ch_lbracket ->
  parse_line t (print_prio p ++ ch_space :: flag_prefix o ++ c :: r) =
  match decode_filename t (c :: r) with
  | None => LnErr
  | Some nm => let '(g, pg, fl) := prefix_effect o in LnDir (mkdirective p g pg fl nm)
  end.
Proof.
  intros Hp Hc Hl. destruct o as [ks|]; cbn [flag_prefix prefix_effect app].
  - unfold render_flags. cbn [app]. rewrite parse_line_after_prio; [|exact Hp|reflexivity].
    replace (ch_lbracket :: ((join_comma (map kw_str ks) ++ [ch_rbracket]) ++ [ch_space]) ++ c :: r)
      with (render_flags ks ++ ch_space :: c :: r)
      by (unfold render_flags; cbn [app]; rewrite <- !app_assoc; reflexivity).
    rewrite decode_flags_rendered by reflexivity.
    destruct (kw_effect ks false false 0) as [[g pg] fl].
    rewrite ltrim_space_nonspace by exact Hc. reflexivity.
  - rewrite parse_line_after_prio by assumption.
    unfold decode_flags. apply N.eqb_neq in Hl. rewrite Hl. reflexivity.
Qed.

(* (7) opening quote without closing quote *)
Lemma unquote_no_quote : forall n s, (length s <= n)%nat -> ~ In ch_dquote s -> unquote s = None.
Proof.
  induction n as [|n IH]; intros s Hl Hq.
  - destruct s; [reflexivity|cbn in Hl; lia].
  - destruct s as [|c r]; [reflexivity|]. cbn [unquote].
    assert (Hc : (c =? ch_dquote) = false) by (apply N.eqb_neq; intro; apply Hq; left; auto).
    rewrite Hc. assert (Hr : ~ In ch_dquote r) by (intro; apply Hq; right; assumption).
    cbn [length] in Hl. destruct (c =? ch_bslash).
    + destruct r as [|e r']; [reflexivity|].
      assert (He : (e =? ch_dquote) = false) by (apply N.eqb_neq; intro; apply Hr; left; auto).
      rewrite He, orb_false_r. destruct (e =? ch_bslash); [|reflexivity].
      rewrite IH; [reflexivity|cbn [length] in Hl; lia|intro; apply Hr; right; assumption].
    + rewrite IH; [reflexivity|lia|exact Hr].
Qed.

Lemma reject_unterminated_quote_l t p o s :
  (- Z.of_N s64lim < p < Z.of_N s64lim)%Z -> ~ In ch_dquote s ->
  parse_line t (print_prio p ++ ch_space :: flag_prefix o ++ ch_dquote :: s) = LnErr.
Proof.
  intros Hp Hs. rewrite parse_line_name_part; [|exact Hp|reflexivity|discriminate].
  unfold decode_filename, unquoted_buffer. change (ch_dquote =? ch_dquote) with true. cbv iota.
  rewrite (unquote_no_quote (length s)) by auto. reflexivity.
Qed.

(* (8) bytes behind the closing quote *)
Lemma reject_trailing_garbage_l t p o s g :
  (- Z.of_N s64lim < p < Z.of_N s64lim)%Z -> g <> [] ->
  parse_line t (print_prio p ++ ch_space :: flag_prefix o ++ quote s ++ g) = LnErr.
Proof.
  intros Hp Hg. unfold quote. cbn [app]. rewrite parse_line_name_part; [|exact Hp|reflexivity|discriminate].
  unfold decode_filename, unquoted_buffer. change (ch_dquote =? ch_dquote) with true. cbv iota.
  rewrite <- app_assoc. cbn [app]. rewrite unquote_escape.
  destruct g as [|c r]; [congruence|]. reflexivity.
Qed.

(* (9) an escape sequence other than backslash-dquote / backslash-backslash inside the quoted name *)
Lemma unquote_escape_app : forall s tail,
  unquote (escape s ++ tail) = match unquote tail with Some (w, a) => Some (s ++ w, a) | None => None end.
Proof.
  induction s as [|c r IH]; intros tail.
  - cbn [escape app]. destruct (unquote tail) as [[w a]|]; reflexivity.
  - cbn [escape]. destruct ((c =? ch_dquote) || (c =? ch_bslash)) eqn:E.
    + cbn [app unquote]. change (ch_bslash =? ch_dquote) with false. change (ch_bslash =? ch_bslash) with true.
      cbv iota. rewrite orb_comm in E. rewrite E. rewrite IH. destruct (unquote tail) as [[w a]|]; reflexivity.
    + cbn [app unquote]. apply orb_false_iff in E. destruct E as [E1 E2]. rewrite E1, E2.
      rewrite IH. destruct (unquote tail) as [[w a]|]; reflexivity.
Qed.

Lemma reject_unknown_escape_l t p o s e r :
  (- Z.of_N s64lim < p < Z.of_N s64lim)%Z -> e <> ch_dquote -> e <> ch_bslash ->
  parse_line t (print_prio p ++ ch_space :: flag_prefix o ++ ch_dquote :: escape s ++ ch_bslash :: e :: r) = LnErr.
Proof.
  intros Hp H1 H2. rewrite parse_line_name_part; [|exact Hp|reflexivity|discriminate].
  unfold decode_filename, unquoted_buffer. change (ch_dquote =? ch_dquote) with true. cbv iota.
  rewrite unquote_escape_app. cbn [unquote].
  change (ch_bslash =? ch_dquote) with false. change (ch_bslash =? ch_bslash) with true. cbv iota.
  apply N.eqb_neq in H1. apply N.eqb_neq in H2. rewrite H1, H2. reflexivity.
Qed.

(* (10) a name canonicalize_name refuses (a `..` component) - quoted or not *)
Lemma reject_uncanonical_name_l p o s :
  (- Z.of_N s64lim < p < Z.of_N s64lim)%Z -> canon_result s = None ->
  parse_line true (print_prio p ++ ch_space :: flag_prefix o ++ quote s) = LnErr.
Proof.
  intros Hp Hs. unfold quote. cbn [app]. rewrite parse_line_name_part; [|exact Hp|reflexivity|discriminate].
  change (ch_dquote :: escape s ++ [ch_dquote]) with (quote s). rewrite quoted_name_l, Hs. reflexivity.
Qed.

(* ------------------------------------------------------------------------- *)
(* the printer covers everything the parser accepts                            *)
(* ------------------------------------------------------------------------- *)
Lemma rebuild_cases fl : rebuild_flags fl = fl ->
  In fl [0; 16; 8; 24; 1; 17; 9; 25; 4; 20; 12; 28; 5; 21; 13; 29].
Proof.
  unfold rebuild_flags.
  destruct (bit_set fl c_SQFS_BLK_DONT_FRAGMENT), (bit_set fl c_SQFS_BLK_DONT_COMPRESS),
    (bit_set fl c_SQFS_BLK_DONT_DEDUPLICATE), (bit_set fl c_SQFS_BLK_IGNORE_SPARSE);
    intro H; rewrite <- H; vm_compute; tauto.
Qed.

Lemma rebuild_lor fl k : is_flag_kw k = true -> rebuild_flags fl = fl ->
  rebuild_flags (N.lor fl (kw_bit k)) = N.lor fl (kw_bit k).
Proof.
  intros Hk H. apply rebuild_cases in H. cbn [In] in H.
  destruct k; try discriminate;
    repeat (destruct H as [<-|H]; [vm_compute; reflexivity|]); contradiction.
Qed.

Definition eff_ok (x : bool * bool * N) : Prop :=
  let '(g, p, fl) := x in (g = false -> p = false) /\ rebuild_flags fl = fl.

Lemma apply_kw_ok : forall args g p fl g' p' fl',
  eff_ok (g, p, fl) -> apply_kw args g p fl = Some (g', p', fl') -> eff_ok (g', p', fl').
Proof.
  induction args as [|a r IH]; intros g p fl g' p' fl' Hok H.
  - cbn in H. inversion H; subst. exact Hok.
  - cbn [apply_kw] in H. destruct Hok as [Hg Hf].
    destruct (list_N_eqb (trim a) kw_glob_no_path); [eapply IH; [|exact H]; split; [reflexivity|exact Hf]|].
    destruct (list_N_eqb (trim a) kw_glob); [eapply IH; [|exact H]; split; [discriminate|exact Hf]|].
    destruct (list_N_eqb (trim a) kw_dont_fragment);
      [eapply IH; [|exact H]; split; [exact Hg|apply (rebuild_lor fl KDontFragment eq_refl Hf)]|].
    destruct (list_N_eqb (trim a) kw_dont_compress);
      [eapply IH; [|exact H]; split; [exact Hg|apply (rebuild_lor fl KDontCompress eq_refl Hf)]|].
    destruct (list_N_eqb (trim a) kw_dont_deduplicate);
      [eapply IH; [|exact H]; split; [exact Hg|apply (rebuild_lor fl KDontDeduplicate eq_refl Hf)]|].
    destruct (list_N_eqb (trim a) kw_nosparse);
      [eapply IH; [|exact H]; split; [exact Hg|apply (rebuild_lor fl KNoSparse eq_refl Hf)]|].
    discriminate.
Qed.

Lemma decode_flags_ok line g p fl rest : decode_flags line = FOk g p fl rest -> eff_ok (g, p, fl).
Proof.
  unfold decode_flags. intro H.
  assert (E0 : eff_ok (false, false, 0)) by (split; [reflexivity|vm_compute; reflexivity]).
  destruct line as [|c r]; [inversion H; subst; exact E0|].
  destruct (c =? ch_lbracket); [|inversion H; subst; exact E0].
  destruct (find_rbracket r) as [[inner after]|]; [|discriminate].
  destruct (split_line_comma inner) as [args| |]; try discriminate.
  destruct after as [|e af]; [discriminate|].
  destruct (isspace e); [|discriminate].
  destruct (apply_kw args false false 0) as [[[g0 p0] fl0]|] eqn:E; [|discriminate].
  inversion H; subst. eapply apply_kw_ok; [exact E0|exact E].
Qed.

Lemma parse_line_entry_ok line d : parse_line true line = LnDir d -> entry_ok d /\ canonical_name d.
Proof.
  unfold parse_line. intro H. destruct line as [|c r]; [discriminate|].
  destruct (c =? ch_hash); [discriminate|].
  destruct (decode_priority (c :: r)) as [[p r1]|] eqn:Ep; [|discriminate].
  destruct (decode_flags r1) as [g pg fl r2| |] eqn:Ef; try discriminate.
  destruct (decode_filename true r2) as [nm|] eqn:En; [|discriminate].
  inversion H; subst. clear H.
  pose proof (decode_flags_ok _ _ _ _ _ Ef) as [Hg Hf].
  split; [split; [|split; [exact Hg|exact Hf]]|].
  - cbn [d_prio]. unfold decode_priority in Ep.
    destruct (parse_int (c :: r)) as [| |v rest] eqn:Ei; try discriminate.
    pose proof (parse_int_range _ _ _ Ei) as Hr.
    destruct rest as [|c1 r']; [discriminate|]. destruct (isspace c1); [|discriminate].
    destruct (ltrim (c1 :: r')); [discriminate|]. inversion Ep; subst. exact Hr.
  - unfold canonical_name. cbn [d_name]. unfold decode_filename in En.
    destruct (unquoted_buffer true r2) as [b|]; [|discriminate].
    eapply canon_idem_l. exact En.
Qed.

(* accepted lines have a normal form: printing the decoded entry gives a line that decodes to the same entry *)
Lemma parse_print_normal_form line d :
  parse_line true line = LnDir d -> parse_line true (print_sort_line d) = LnDir d.
Proof. intro H. destruct (parse_line_entry_ok _ _ H). apply parse_print_line; assumption. Qed.

(* the expressible flag words are exactly the sixteen subsets of the four keyword bits *)
Lemma rebuild_flags_iff fl : rebuild_flags fl = fl <->
  In fl [0; 16; 8; 24; 1; 17; 9; 25; 4; 20; 12; 28; 5; 21; 13; 29].
Proof.
  split; [apply rebuild_cases|]. cbn [In].
  intro H. repeat (destruct H as [<-|H]; [vm_compute; reflexivity|]). contradiction.
Qed.
