(* C17 — a concrete run from the add operations and the sort file text to the data offsets (non-vacuity of
   layout_follows_sort_file; vm_compute).  Block size 8, toy run-length compressor, constant checksum, empty output.

   files (add order z, bin/ls, lib/x, a, bin/cp; default order = file_list_dfs of the sorted tree):
       0 a   1 bin/cp   2 bin/ls   3 lib/x   4 z
   contents: 8 + (length of the name) distinct bytes, lib/x only 3 bytes (no block, a tail end only)
   sort file:
       5 [glob] bin/<star>
       -3 [dont_compress] z
       5 a
       1 bin/ls
   -> z (-3) first, the unlisted lib/x (0) next, then a, bin/cp, bin/ls (all 5: a tie, kept in default order; the
      later exact line for bin/ls loses against the glob line). *)
From Coq Require Import List NArith ZArith Arith Bool Lia Sorted Permutation.
From SqfsV Require Import Gen.Constants.
From SqfsV Require Import C18.CanonModel.
From SqfsV Require Import C11.StrOrder C11.FstreeModel C11.PostModel ImgPost.Bridge.
From SqfsV Require Import ImgScan.ScanLinks.
From SqfsV Require Import C08.DedupModel C08.DedupTheorems.
From SqfsV Require Import C17.GenC17 C17.SortModel C17.SortProofs C17.FlagModel C17.FlagFinal C17.FlagWitness.
From SqfsV Require Import C17.OrderModel C17.OrderPaths C17.OrderTree C17.OrderProofs.
Import ListNotations.
Local Open Scope N_scope.

(* prefix-star patterns only: enough to exercise a glob line *)
Definition star_fnmatch (pat path : list N) (pathname : bool) : bool :=
  match rev pat with
  | 42 :: pre_rev => list_N_eqb (firstn (length pre_rev) path) (rev pre_rev)
  | _ => list_N_eqb pat path
  end.

Definition ex_d : fsdefaults := mkDefaults 0 0 0 493.
Definition reg (p : path) : op := (mkEnt p FReg 420 0 0 0%Z 0 false, None).
Definition n_a : name := [97].
Definition n_z : name := [122].
Definition n_x : name := [120].
Definition n_bin : name := [98; 105; 110].
Definition n_lib : name := [108; 105; 98].
Definition n_ls : name := [108; 115].
Definition n_cp : name := [99; 112].

Definition ex_ops : list op := [reg [n_z]; reg [n_bin; n_ls]; reg [n_lib; n_x]; reg [n_a]; reg [n_bin; n_cp]].

(* the host file called s: bytes c, c+1, ... (c = last character of the name): pairwise different, incompressible *)
Definition ex_host (s : list N) : list N :=
  let c := last s 0 in
  map (fun k => c + N.of_nat k) (seq 0 (if c =? 120 then 3%nat else (8 + length s)%nat)).

Definition ex_sortfile : list N :=
  [53;32;91;103;108;111;98;93;32;98;105;110;47;42;10;
   45;51;32;91;100;111;110;116;95;99;111;109;112;114;101;115;115;93;32;122;10;
   53;32;97;10;
   49;32;98;105;110;47;108;115;10].

Definition ex_run (sf : option (list N)) : ores :=
  pack_ops star_fnmatch true const_hash toy_compress toy_uncompress 8 4096 false [] ex_host [] ex_d ex_ops sf.

Definition ex_ds : list directive :=
  [mkdirective 5 true true 0 [98; 105; 110; 47; 42]; mkdirective (-3) false false 1 [122];
   mkdirective 5 false false 0 [97]; mkdirective 1 false false 0 [98; 105; 110; 47; 108; 115]].

(* the hypotheses of layout_follows_sort_file *)
Lemma ex_hyps :
  ops_clean ex_ops /\
  parse_all true (get_lines ex_sortfile) = Some ex_ds /\
  exists fs pp, run_adds ex_d (fs_init ex_d) ex_ops = Some fs /\ post_process fs = PostModel.POk pp /\
                pp_files pp = [[n_a]; [n_bin; n_cp]; [n_bin; n_ls]; [n_lib; n_x]; [n_z]].
Proof.
  split; [|split].
  - unfold ops_clean, ex_ops. repeat constructor.
  - vm_compute. reflexivity.
  - eexists. eexists. split; [vm_compute; reflexivity|]. split; vm_compute; reflexivity.
Qed.

(* the run: packing order with (default position, priority, flag word), block start per fid, output length *)
Lemma ex_sorted_run :
  match ex_run (Some ex_sortfile) with
  | ODone order st =>
      map (fun f => (pf_path f, pf_idx f, pf_prio f, pf_flags f)) order =
        [([n_z], 4, (-3)%Z, 1); ([n_lib; n_x], 3, 0%Z, 0); ([n_a], 0, 5%Z, 0);
         ([n_bin; n_cp], 1, 5%Z, 0); ([n_bin; n_ls], 2, 5%Z, 0)] /\
      map (fun k => (p_start st k, p_nwords st k)) (seq 0 5) =
        [(0, 1); (0, 0); (8, 1); (16, 1); (29, 1)]%nat /\
      (* fragment block 0 (the tail ends of z, lib/x, a) was written between bin/cp and bin/ls *)
      p_ftab st 0 = (24%nat, sw_of 5 false) /\
      length (w_file (p_wr st)) = 49%nat /\
      (* z carries dont_compress: its block is stored raw *)
      p_size st 0 0 = Some (sw_of 8 false)
  | _ => False
  end.
Proof. vm_compute. repeat split; reflexivity. Qed.

(* without -S: default order, the same files at other offsets *)
Lemma ex_default_run :
  match ex_run None with
  | ODone order st =>
      map (fun f => (pf_path f, pf_idx f, pf_prio f, pf_flags f)) order =
        [([n_a], 0, 0%Z, 0); ([n_bin; n_cp], 1, 0%Z, 0); ([n_bin; n_ls], 2, 0%Z, 0);
         ([n_lib; n_x], 3, 0%Z, 0); ([n_z], 4, 0%Z, 0)] /\
      map (fun k => (p_start st k, p_nwords st k)) (seq 0 5) =
        [(0, 1); (8, 1); (16, 1); (0, 0); (37, 1)]%nat
  | _ => False
  end.
Proof. vm_compute. repeat split; reflexivity. Qed.

(* both runs read back the same bytes per path *)
Lemma ex_contents_unchanged :
  match ex_run (Some ex_sortfile), ex_run None with
  | ODone o1 s1, ODone o0 s0 =>
      forallb (fun p =>
        match fid_of o1 p, fid_of o0 p with
        | Some i, Some j =>
            match read_back toy_uncompress 8 s1 i (length (ex_host (join_slash p))),
                  read_back toy_uncompress 8 s0 j (length (ex_host (join_slash p))) with
            | Some a, Some b => list_N_eqb a (ex_host (join_slash p)) && list_N_eqb b (ex_host (join_slash p))
            | _, _ => false
            end
        | _, _ => false
        end) [[n_a]; [n_bin; n_cp]; [n_bin; n_ls]; [n_lib; n_x]; [n_z]] = true
  | _, _ => False
  end.
Proof. vm_compute. reflexivity. Qed.

(* a malformed line: gensquashfs fails before anything is packed *)
Lemma ex_malformed_run :
  pack_ops star_fnmatch true const_hash toy_compress toy_uncompress 8 4096 false [] ex_host [] ex_d ex_ops
           (Some [53; 32; 91; 102; 111; 111; 93; 32; 97; 10]) = OSortErr.
Proof. vm_compute. reflexivity. Qed.

(* fstree_get_path + canonicalize_name on a node of that tree *)
Lemma ex_canon_path :
  get_path [n_bin; n_ls] = [47; 98; 105; 110; 47; 108; 115] /\
  canon_result (get_path [n_bin; n_ls]) = Some [98; 105; 110; 47; 108; 115].
Proof. vm_compute. split; reflexivity. Qed.
