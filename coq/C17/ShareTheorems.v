(* C17 — the strong layout theorems in closed form (what Properties_C17.v exports; audit 4, finding 1): for every
   checksum function, every contract-abiding compressor, every block size the format allows, every list of files / flags /
   contents and every schedule of the pool.  Nothing here needs DONT_DEDUPLICATE. *)
From Coq Require Import List NArith Arith Bool Lia Sorted.
From SqfsV Require Import Gen.Constants.
From SqfsV Require Import C08.DedupModel C08.DedupLemmas C08.DedupWriterProofs C08.DedupReaderProofs
     C08.DedupPipeProofs C08.DedupTheorems.
From SqfsV Require Import C17.GenC17 C17.SortModel C17.FlagModel C17.FlagSpec C17.FlagWriter C17.FlagFinal
     C17.FlagPipe C17.FlagTheorems C17.ShareSpec C17.ShareWriter C17.SharePipe.
Import ListNotations.

(* ---------------------------------------------------------------------- *)
(* logs with bytes                                                          *)

Lemma DLogOk_app hashf compress bs files file0 dd newer e older :
  DLogOk hashf compress bs files file0 dd (newer ++ e :: older) ->
  dentry_ok hashf compress bs files file0 dd older e /\ DLogOk hashf compress bs files file0 dd older.
Proof. induction newer as [|x newer IH]; simpl; [tauto|]. intros [_ H]. apply IH. assumption. Qed.

Lemma dfids_app a b : dfids (a ++ b) = dfids a ++ dfids b.
Proof. induction a as [|e a IH]; [reflexivity|]. simpl. destruct (de_kind e); simpl; rewrite IH; reflexivity. Qed.

Lemma dfids_in log f : In f (dfids log) <-> exists e, In e log /\ de_kind e = LFile f.
Proof.
  rewrite <- dfids_strip, log_fids_in. split.
  - intros (e & He & Hk). apply in_map_iff in He. destruct He as (x & <- & Hx). exists x. split; assumption.
  - intros (e & He & Hk). exists (strip e). split; [apply in_map; assumption|assumption].
Qed.

(* the replayed output ends where the stripped log says *)
Lemma replay_length hashf compress bs files file0 dd : forall log,
  DLogOk hashf compress bs files file0 dd log ->
  length (replay file0 log) = wm (length file0) (map strip log).
Proof.
  induction log as [|e log IH]; intro H; [reflexivity|]. destruct H as [He Hl]. specialize (IH Hl).
  cbn [replay map wm]. unfold put, le_end. cbn [strip le_loc le_len]. rewrite firstn_length, app_length, <- IH.
  destruct He as [Hf|(f & _ & _ & Hlt & _)]; cbv zeta in *; lia.
Qed.

Lemma is_prefix_app t r : is_prefix t (t ++ r) = true.
Proof. induction t as [|x t IH]; [reflexivity|]. simpl. rewrite N.eqb_refl. exact IH. Qed.

Lemma mem_block_in b l : In b l -> mem_block b l = true.
Proof.
  induction l as [|x l IH]; [intros []|]. intros [->|H]; simpl.
  - rewrite list_eqb_refl. reflexivity.
  - rewrite (IH H). apply orb_true_r.
Qed.

Lemma nth_error_firstn_in {A} (l : list A) : forall i j x, i < j -> nth_error l i = Some x -> In x (firstn j l).
Proof.
  induction l as [|y l IH]; intros i j x Hlt Hn; [destruct i; discriminate|].
  destruct j as [|j]; [lia|]. destruct i as [|i]; simpl in *.
  - inversion Hn. left. reflexivity.
  - right. apply (IH i j); [lia|assumption].
Qed.

(* ---------------------------------------------------------------------- *)
(* the worker is injective on what it stores                                 *)

Section Worker.
Variable hashf : list N -> N.
Variable compress : list N -> option (list N).
Variable uncompress : list N -> nat -> option (list N).
Variable bs : nat.
Hypothesis Hcomp : forall b c, compress b = Some c ->
  length c < length b /\ forall n, length b <= n -> uncompress c n = Some b.
Hypothesis Hbs : 0 < bs.

Notation work := (work_block hashf compress).

Lemma dec_inj p p' d d' :
  dec_ok uncompress p d -> dec_ok uncompress p' d' -> pb_sparse p = false -> pb_sparse p' = false ->
  pb_data p = pb_data p' -> pb_compressed p = pb_compressed p' -> d = d'.
Proof.
  intros (_ & _ & _ & S) (_ & _ & _ & S') Hs Hs' Ed Ec.
  destruct (S Hs) as (_ & R & C). destruct (S' Hs') as (_ & R' & C').
  destruct (pb_compressed p) eqn:E.
  - symmetry in Ec. specialize (C eq_refl (Nat.max (length d) (length d')) (Nat.le_max_l _ _)).
    specialize (C' Ec (Nat.max (length d) (length d')) (Nat.le_max_r _ _)).
    rewrite Ed in C. rewrite C in C'. inversion C'. reflexivity.
  - symmetry in Ec. rewrite <- (R eq_refl), <- (R' Ec). assumption.
Qed.

(* the blocks that reach the output are the worker's image of the kept blocks *)
Lemma stored_work_kept ns dc dh b : stored (work ns false dc dh b) = kept ns b.
Proof.
  destruct b as [|x b']; [reflexivity|].
  assert (Hb : x :: b' <> []) by discriminate.
  destruct (work_cases hashf compress uncompress bs Hcomp Hbs ns dc dh (x :: b') Hb)
    as [(Ez & Hs & _)|(Ez & Hs & NE & _)]; unfold stored, kept; rewrite Hs, Ez.
  - rewrite andb_false_r. reflexivity.
  - destruct (length (pb_data (work ns false dc dh (x :: b'))) =? 0) eqn:E0;
      [apply length_zero_iff in E0; contradiction|reflexivity].
Qed.

Lemma filter_stored_kept ns dc dh : forall bl,
  filter stored (map (work ns false dc dh) bl) = map (work ns false dc dh) (filter (kept ns) bl).
Proof.
  induction bl as [|b bl IH]; [reflexivity|]. cbn [map filter]. rewrite stored_work_kept.
  destruct (kept ns b); cbn [map]; rewrite IH; reflexivity.
Qed.

Lemma kept_nonempty ns b : kept ns b = true -> b <> [].
Proof. unfold kept. intros H C. subst b. discriminate. Qed.

Lemma stored_not_sparse p : stored p = true -> pb_sparse p = false.
Proof. unfold stored. intro H. apply andb_true_iff in H. destruct H as [_ H]. destruct (pb_sparse p); [discriminate|reflexivity]. Qed.

End Worker.

(* ---------------------------------------------------------------------- *)
(* what the strong layout log of a final state is                            *)

Definition strong_log (hashf : list N -> N) (compress : list N -> option (list N)) (bs : nat)
           (file0 : list N) (files : list (uflags * list N)) (st : proc) (dlog : list dent) : Prop :=
  (* the output is the replay of the log *)
  w_file (p_wr st) = replay file0 dlog /\
  (* every entry: fresh at the end of the output the older ones left, or a file without DONT_DEDUPLICATE whose run
     stood there already, starting at a block of an earlier file / a fragment block equal to its first block *)
  DLogOk hashf compress bs files file0 (fun fid => uf_dont_dedup (fl_of bs files fid)) dlog /\
  (* the files appear in packing order (newest first) *)
  StronglySorted gt (dfids dlog) /\
  (* one entry (LFile fid, block start, stored run) for every file that stores a block, and no other file entry *)
  (forall fid fl d, nth_error files fid = Some (fl, d) -> disk_data hashf compress bs fl d <> [] ->
     In {| de_kind := LFile fid; de_loc := p_start st fid; de_data := disk_data hashf compress bs fl d |} dlog) /\
  (forall e fid, In e dlog -> de_kind e = LFile fid ->
     exists fl d, nth_error files fid = Some (fl, d) /\ disk_data hashf compress bs fl d <> [] /\
                  de_loc e = p_start st fid /\ de_data e = disk_data hashf compress bs fl d) /\
  (* the other entries are written fragment blocks *)
  (forall e idx, In e dlog -> de_kind e = LFrag idx ->
     idx < p_nfrag st /\ de_data e <> [] /\
     exists w, p_ftab st idx = (de_loc e, w) /\ sw_size w = length (de_data e)).

(* ---------------------------------------------------------------------- *)

Section Closed.
Variable hashf : list N -> N.
Variable compress : list N -> option (list N).
Variable uncompress : list N -> nat -> option (list N).
Variable bs half : nat.
Hypothesis Hcomp : forall b c, compress b = Some c ->
  length c < length b /\ forall n, length b <= n -> uncompress c n = Some b.
Hypothesis Hbs : 0 < bs.
Hypothesis Hmax : (N.of_nat bs <= c_SQFS_MAX_BLOCK_SIZE)%N.
Hypothesis Hhalf : 0 < half.

Variable file0 : list N.
Variable files : list (uflags * list N).
Variable sched : list nat.
Variable st : proc.
Hypothesis Hpack : pack hashf compress uncompress bs false true half file0 files sched = Ok st.

Notation work := (work_block hashf compress).
Notation PInv' := (PInv hashf compress uncompress bs (length file0) files).
Notation LInv' := (LInv hashf compress bs (length file0) files).
Notation BInv' := (BInv hashf compress bs file0 files).
Notation ddata := (disk_data hashf compress bs).
Notation srun' := (srun hashf compress bs files).
Notation dd' := (fun fid => uf_dont_dedup (fl_of bs files fid)).
Notation DLogOk' := (DLogOk hashf compress bs files file0 dd').
Notation dentry_ok' := (dentry_ok hashf compress bs files file0 dd').
Let Hsmall : small bs := max_block_size_small bs Hmax.

Lemma final_share : exists claims fbd dlog,
  PInv' st [] claims fbd (length files) (length files) /\ p_fragblk st = None /\
  LInv' st [] (length files) (map strip dlog) /\ BInv' st fbd dlog.
Proof.
  destruct (y_pack hashf compress uncompress bs half file0 Hcomp Hbs Hsmall Hhalf files sched)
    as (st' & claims & fbd & dlog & D & E & (HP & HL & _ & HB) & Hfb).
  rewrite Hpack in E. inversion E; subst st'. exists claims, fbd, dlog. splits; assumption.
Qed.

Lemma srun_of fid fl d : nth_error files fid = Some (fl, d) ->
  srun' fid = filter stored (file_pbs hashf compress bs fl d) /\ cat (srun' fid) = ddata fl d /\
  fl_of bs files fid = fl /\ job bs files fid = file_job bs fl d.
Proof.
  intro H. destruct (sdata_of hashf compress bs half Hbs Hhalf files fid fl d H) as (H1 & _ & H3).
  change (sdata hashf compress bs files fid) with (srun' fid) in H1.
  destruct (job_of_file bs half files fid fl d Hbs Hhalf H) as [_ J].
  split; [exact H1|]. split; [unfold disk_data; rewrite H1; reflexivity|]. split; assumption.
Qed.

(* ---- stored_run_at_start: for EVERY file, whatever its flags, the bytes at its block start are its stored run ---- *)
Lemma stored_run_at_start_l fid fl d : nth_error files fid = Some (fl, d) ->
  slice (w_file (p_wr st)) (p_start st fid) (length (ddata fl d)) = ddata fl d /\
  (ddata fl d <> [] -> p_start st fid + length (ddata fl d) <= length (w_file (p_wr st))).
Proof.
  intro Hn. destruct (j_blocks (file_job bs fl d)) as [|b0 bl] eqn:Ejb.
  - assert (E : ddata fl d = []) by (unfold disk_data, file_pbs; rewrite Ejb; reflexivity).
    rewrite E. split; [apply slice_zero|]. intro C. contradiction.
  - assert (Hjb : j_blocks (file_job bs fl d) <> []) by (rewrite Ejb; discriminate).
    pose proof (disk_data_at hashf compress uncompress bs half Hcomp Hbs Hmax Hhalf file0 files sched st Hpack
                             fid fl d Hn Hjb) as [H1 H2].
    split; [exact H2|]. intros _. exact H1.
Qed.

(* ---- layout_log_strong ---- *)
Lemma layout_log_strong_l : exists dlog : list dent, strong_log hashf compress bs file0 files st dlog.
Proof.
  destruct final_share as (claims & fbd & dlog & HP & Hfb & HL & HB).
  exists dlog. unfold strong_log. pose proof HL as [X1 X2 X3 X4 X5 X6 X7 X8]. pose proof HB as [B1 B2 B3 B4 B5].
  split; [exact B1|]. split; [exact B2|]. split; [rewrite <- dfids_strip; exact X7|]. split; [|split].
  - intros fid fl d Hn Hne.
    destruct (job_of_file bs half files fid fl d Hbs Hhalf Hn) as [L _].
    destruct (srun_of fid fl d Hn) as (Hsd & Hcat & _).
    assert (Hs : stores hashf compress bs files fid).
    { unfold stores. change (sdata hashf compress bs files fid) with (srun' fid). intro C. apply Hne.
      rewrite <- Hcat, C. reflexivity. }
    destruct (X8 fid L Hs) as [[]|Hin]. rewrite dfids_strip in Hin. apply dfids_in in Hin.
    destruct Hin as (e & He & Hk).
    destruct (X5 (strip e) fid (in_map strip _ _ He) Hk) as (_ & _ & H3 & _). cbn [strip le_loc] in H3.
    pose proof (B3 e fid He Hk) as Hd. rewrite Hcat in Hd.
    destruct e as [k lo da]. cbn in *. subst. exact He.
  - intros e fid He Hk.
    destruct (X5 (strip e) fid (in_map strip _ _ He) Hk) as (H1 & H2 & H3 & _). cbn [strip le_loc] in H3.
    destruct (nth_error files fid) as [[fl d]|] eqn:En; [|apply nth_error_None in En; lia].
    destruct (srun_of fid fl d En) as (Hsd & Hcat & _).
    exists fl, d. split; [reflexivity|]. split; [|split; [assumption|rewrite (B3 e fid He Hk); assumption]].
    intro C. unfold stores in H2. change (sdata hashf compress bs files fid) with (srun' fid) in H2.
    destruct (srun' fid) as [|b r] eqn:Ef; [contradiction|].
    assert (Hall : all_stored (b :: r)) by (rewrite Hsd; apply filter_stored_all).
    pose proof (all_stored_cat_pos _ Hall ltac:(discriminate)) as Hp. rewrite Hcat, C in Hp. simpl in Hp. lia.
  - intros e idx He Hk.
    destruct (X6 (strip e) idx (in_map strip _ _ He) Hk) as (H1 & H2 & w & H3 & H4).
    cbn [strip le_loc le_len] in H2, H3, H4. split; [assumption|]. split; [|exists w; split; assumption].
    intro C. rewrite C in H2. simpl in H2. lia.
Qed.

(* ---- reading the log for one file: where its entry sits, what is older ---- *)
Lemma log_pair dlog fid1 fid2 fl1 d1 fl2 d2 :
  StronglySorted gt (dfids dlog) ->
  In {| de_kind := LFile fid1; de_loc := p_start st fid1; de_data := ddata fl1 d1 |} dlog ->
  In {| de_kind := LFile fid2; de_loc := p_start st fid2; de_data := ddata fl2 d2 |} dlog ->
  fid1 < fid2 ->
  exists newer older,
    dlog = newer ++ {| de_kind := LFile fid2; de_loc := p_start st fid2; de_data := ddata fl2 d2 |} :: older /\
    In {| de_kind := LFile fid1; de_loc := p_start st fid1; de_data := ddata fl1 d1 |} older /\
    (forall f, In f (dfids older) -> f < fid2).
Proof.
  intros Hs H1 H2 Hlt. destruct (in_split _ _ H2) as (newer & older & El). exists newer, older.
  split; [exact El|]. rewrite El, dfids_app in Hs. cbn [dfids de_kind] in Hs.
  split.
  - rewrite El in H1. apply in_app_or in H1. destruct H1 as [H1|[H1|H1]]; [|inversion H1; lia|assumption].
    assert (Hin : In fid1 (dfids newer)) by (apply dfids_in; eexists; split; [exact H1|reflexivity]).
    pose proof (sorted_gt_app_head _ _ _ _ Hs Hin). lia.
  - intros f Hf. assert (Hs' : StronglySorted gt (fid2 :: dfids older)).
    { clear -Hs. induction (dfids newer) as [|x l IH]; [exact Hs|]. simpl in Hs. apply StronglySorted_inv in Hs. tauto. }
    apply StronglySorted_inv in Hs'. destruct Hs' as [_ F]. rewrite Forall_forall in F. specialize (F f Hf). lia.
Qed.

(* ---- layout_follows_order_strong: the pairwise reading, for EVERY log with those properties ---- *)
Lemma layout_pair_strong_l dlog fid1 fid2 fl1 d1 fl2 d2 :
  strong_log hashf compress bs file0 files st dlog ->
  fid1 < fid2 -> nth_error files fid1 = Some (fl1, d1) -> nth_error files fid2 = Some (fl2, d2) ->
  ddata fl1 d1 <> [] -> ddata fl2 d2 <> [] ->
  exists newer older,
    dlog = newer ++ {| de_kind := LFile fid2; de_loc := p_start st fid2; de_data := ddata fl2 d2 |} :: older /\
    (* [out_before]: the output when the first block of file fid2 arrived *)
    let out_before := replay file0 older in
    (* it contains the run of file fid1 *)
    p_start st fid1 + length (ddata fl1 d1) <= length out_before /\
    slice out_before (p_start st fid1) (length (ddata fl1 d1)) = ddata fl1 d1 /\
    (* file fid2 lies at its end, or is allowed to be deduplicated and was there already *)
    (p_start st fid2 = length out_before \/
     (uf_dont_dedup fl2 = false /\ p_start st fid2 < length out_before /\
      slice (out_before ++ ddata fl2 d2) (p_start st fid2) (length (ddata fl2 d2)) = ddata fl2 d2 /\
      exists c0 rest pb0, srun' fid2 = c0 :: rest /\ same_block pb0 c0 /\
        ((exists f, f < fid2 /\ In pb0 (srun' f)) \/ frag_origin hashf compress bs files pb0))).
Proof.
  intros (HF & Hok & Hs & Hall & Hfile & Hfrag) Hlt Hn1 Hn2 Hne1 Hne2.
  pose proof (Hall fid1 fl1 d1 Hn1 Hne1) as I1. pose proof (Hall fid2 fl2 d2 Hn2 Hne2) as I2.
  destruct (log_pair dlog fid1 fid2 fl1 d1 fl2 d2 Hs I1 I2 Hlt) as (newer & older & El & Hold & Hlow).
  exists newer, older. split; [exact El|]. cbv zeta.
  pose proof Hok as Hok0. rewrite El in Hok0. apply DLogOk_app in Hok0. destruct Hok0 as [He Holder].
  (* the older output is a prefix of the final one *)
  assert (Hpre : forall newer' e', DLogOk' (newer' ++ e' :: older) ->
            forall c, holds (replay file0 older) c -> holds (replay file0 (newer' ++ e' :: older)) c).
  { clear. assert (Hput : forall out e c, de_loc e <= length out -> holds out c -> holds (put out e) c).
    { intros out e c Hle Hc. unfold put. apply holds_firstn.
      - apply holds_app. assumption.
      - destruct Hc. lia.
      - rewrite app_length. lia. }
    assert (Hle : forall old e, dentry_ok' old e -> de_loc e <= length (replay file0 old)).
    { intros old e [H|(f & _ & _ & H & _)]; cbv zeta in *; lia. }
    induction newer' as [|x nw IH]; intros e' Hok c Hc.
    - cbn [app replay]. destruct Hok as [He' _]. apply Hput; [apply Hle; assumption|assumption].
    - cbn [app replay]. destruct Hok as [Hx Hok]. apply Hput; [apply Hle; assumption|]. apply IH; assumption. }
  assert (H1len : length (replay file0 older) = wm (length file0) (map strip older))
    by (eapply replay_length; exact Holder).
  assert (Hend1 : p_start st fid1 + length (ddata fl1 d1) <= length (replay file0 older)).
  { rewrite H1len. pose proof (wm_end (length file0) (map strip older) _ (in_map strip _ _ Hold)) as W.
    unfold le_end in W. cbn [strip le_loc le_len de_loc de_data] in W. exact W. }
  split; [exact Hend1|]. split.
  - (* the run of fid1 stands in the older output: it stands in the final one, of which that is a prefix *)
    destruct (stored_run_at_start_l fid1 fl1 d1 Hn1) as [Hs1 _].
    (* the final output restricted to the length of the older output is the older output *)
    assert (Hfirst : firstn (length (replay file0 older)) (w_file (p_wr st)) = replay file0 older).
    { rewrite HF, El.
      assert (Hh : holds (replay file0 (newer ++ {| de_kind := LFile fid2; de_loc := p_start st fid2;
                                                  de_data := ddata fl2 d2 |} :: older))
                         (0, replay file0 older)).
      { apply Hpre; [rewrite <- El; assumption|]. split; cbn [fst snd]; [lia|apply slice_all]. }
      destruct Hh as [_ Hh]. cbn [fst snd] in Hh. unfold slice in Hh. cbn [skipn] in Hh. exact Hh. }
    rewrite <- Hfirst at 1. rewrite slice_firstn by assumption. exact Hs1.
  - destruct He as [Hf|(f & Hk & Hdd & Hl & Hsl & (c0 & rest & pb0 & Hc0 & Hsb & Hor))]; cbv zeta in *;
      cbn [de_kind de_loc de_data] in *.
    + left. exact Hf.
    + right. inversion Hk; subst f. destruct (srun_of fid2 fl2 d2 Hn2) as (_ & _ & Hfl & _).
      rewrite Hfl in Hdd. split; [assumption|]. split; [assumption|]. split; [assumption|].
      exists c0, rest, pb0. split; [assumption|]. split; [assumption|].
      destruct Hor as [(g & Hg & Hp)|Hor]; [left; exists g; split; [apply Hlow|]; assumption|right; assumption].
Qed.

(* ---- a file whose first kept block is new cannot be shared ---- *)
Lemma fresh_not_shared fid2 fl2 d2 :
  nth_error files fid2 = Some (fl2, d2) -> fresh_first bs files fid2 = true ->
  forall c0 rest pb0, srun' fid2 = c0 :: rest -> same_block pb0 c0 ->
    ((exists f, f < fid2 /\ In pb0 (srun' f)) \/ frag_origin hashf compress bs files pb0) -> False.
Proof.
  intros Hn2 Hfr c0 rest pb0 Hc0 (Ed & Ec & _) Hor.
  destruct (srun_of fid2 fl2 d2 Hn2) as (Hsd & _ & _ & _).
  unfold file_pbs in Hsd. rewrite (filter_stored_kept hashf compress uncompress bs Hcomp Hbs) in Hsd.
  rewrite Hsd in Hc0.
  unfold fresh_first in Hfr. rewrite Hn2 in Hfr. unfold first_kept in Hfr.
  destruct (filter (kept (uf_ignore_sparse fl2)) (j_blocks (file_job bs fl2 d2))) as [|b0 br] eqn:Ek; [discriminate|].
  cbn [map] in Hc0. inversion Hc0 as [[Hc0' Hrest]]. clear Hc0. cbn [hd_error] in Hfr.
  apply andb_true_iff in Hfr. destruct Hfr as [Hfr1 Hfr2].
  assert (Hb0k : kept (uf_ignore_sparse fl2) b0 = true).
  { assert (In b0 (filter (kept (uf_ignore_sparse fl2)) (j_blocks (file_job bs fl2 d2)))) by (rewrite Ek; left; reflexivity).
    apply filter_In in H. tauto. }
  pose proof (kept_nonempty _ _ Hb0k) as Hb0ne.
  assert (Hc0s : pb_sparse c0 = false).
  { apply stored_not_sparse. rewrite <- Hc0'. rewrite (stored_work_kept hashf compress uncompress bs Hcomp Hbs). assumption. }
  pose proof (work_dec hashf compress uncompress bs Hcomp Hbs (uf_ignore_sparse fl2) false (uf_dont_compress fl2)
                       (uf_dont_hash fl2) b0 Hb0ne) as Hdec0. rewrite Hc0' in Hdec0.
  destruct Hor as [(f & Hlt & Hp)|(d & dc & g & t & r & Hpb & Ht & Hd)].
  - assert (Lf : f < length files).
    { assert (fid2 < length files) by (apply nth_error_Some; congruence). lia. }
    destruct (nth_error files f) as [[fl' d']|] eqn:Enf; [|apply nth_error_None in Enf; lia].
    destruct (srun_of f fl' d' Enf) as (Hsdf & _ & _ & _).
    unfold file_pbs in Hsdf. rewrite (filter_stored_kept hashf compress uncompress bs Hcomp Hbs) in Hsdf.
    rewrite Hsdf in Hp. apply in_map_iff in Hp. destruct Hp as (b' & Hpb & Hb').
    apply filter_In in Hb'. destruct Hb' as [Hb'in Hb'k].
    pose proof (kept_nonempty _ _ Hb'k) as Hb'ne.
    pose proof (work_dec hashf compress uncompress bs Hcomp Hbs (uf_ignore_sparse fl') false (uf_dont_compress fl')
                         (uf_dont_hash fl') b' Hb'ne) as Hdec'. rewrite Hpb in Hdec'.
    assert (Hpbs : pb_sparse pb0 = false).
    { apply stored_not_sparse. rewrite <- Hpb. rewrite (stored_work_kept hashf compress uncompress bs Hcomp Hbs). assumption. }
    pose proof (dec_inj uncompress _ _ _ _ Hdec' Hdec0 Hpbs Hc0s Ed Ec) as Eb. subst b'.
    rewrite forallb_forall in Hfr1.
    specialize (Hfr1 (fl', d') (nth_error_firstn_in files f fid2 _ Hlt Enf)). cbn [fst snd] in Hfr1.
    rewrite (mem_block_in _ _ Hb'in) in Hfr1. discriminate.
  - assert (Lg : g < length files).
    { destruct (Nat.lt_ge_cases g (length files)) as [L|L]; [assumption|].
      rewrite (job_out_of_range bs files g L) in Ht. discriminate. }
    destruct (nth_error files g) as [[fl' d']|] eqn:Eng; [|apply nth_error_None in Eng; lia].
    destruct (srun_of g fl' d' Eng) as (_ & _ & _ & Jg).
    pose proof (tail_facts bs half Hbs Hhalf files g t Ht) as Htl.
    assert (Hdne : d <> []) by (rewrite Hd; destruct t; [simpl in Htl; lia|discriminate]).
    pose proof (work_dec hashf compress uncompress bs Hcomp Hbs true false dc false d Hdne) as Hdecd. rewrite <- Hpb in Hdecd.
    assert (Hpbs : pb_sparse pb0 = false) by (rewrite Hpb, work_sparse_iff by assumption; reflexivity).
    pose proof (dec_inj uncompress _ _ _ _ Hdecd Hdec0 Hpbs Hc0s Ed Ec) as Eb. subst b0.
    rewrite forallb_forall in Hfr2. specialize (Hfr2 (fl', d') (nth_error_In _ _ Eng)). cbn [fst snd] in Hfr2.
    rewrite <- Jg, Ht in Hfr2. rewrite Hd, is_prefix_app in Hfr2. discriminate.
Qed.

(* ---- distinct_data_laid_out_in_order: per file, then for the whole list ---- *)
Lemma fresh_behind_l fid1 fid2 fl1 d1 fl2 d2 :
  fid1 < fid2 -> nth_error files fid1 = Some (fl1, d1) -> nth_error files fid2 = Some (fl2, d2) ->
  ddata fl1 d1 <> [] -> ddata fl2 d2 <> [] ->
  fresh_first bs files fid2 = true ->
  p_start st fid1 + length (ddata fl1 d1) <= p_start st fid2.
Proof.
  intros Hlt Hn1 Hn2 Hne1 Hne2 Hfr.
  destruct layout_log_strong_l as (dlog & Hlog).
  destruct (layout_pair_strong_l dlog fid1 fid2 fl1 d1 fl2 d2 Hlog Hlt Hn1 Hn2 Hne1 Hne2)
    as (newer & older & _ & Hend & _ & [Hf|(_ & _ & _ & c0 & rest & pb0 & Hc0 & Hsb & Hor)]); cbv zeta in *.
  - lia.
  - exfalso. exact (fresh_not_shared fid2 fl2 d2 Hn2 Hfr c0 rest pb0 Hc0 Hsb Hor).
Qed.

Lemma distinct_in_order_l :
  (forall j, j < length files -> fresh_first bs files j = true) ->
  forall fid1 fid2 fl1 d1 fl2 d2,
  fid1 < fid2 -> nth_error files fid1 = Some (fl1, d1) -> nth_error files fid2 = Some (fl2, d2) ->
  ddata fl1 d1 <> [] -> ddata fl2 d2 <> [] ->
  p_start st fid1 + length (ddata fl1 d1) <= p_start st fid2 /\ p_start st fid1 < p_start st fid2.
Proof.
  intros Hall fid1 fid2 fl1 d1 fl2 d2 Hlt Hn1 Hn2 Hne1 Hne2.
  assert (L2 : fid2 < length files) by (apply nth_error_Some; congruence).
  pose proof (fresh_behind_l fid1 fid2 fl1 d1 fl2 d2 Hlt Hn1 Hn2 Hne1 Hne2 (Hall fid2 L2)) as H.
  split; [exact H|]. destruct (ddata fl1 d1); [contradiction|simpl in H; lia].
Qed.

End Closed.
