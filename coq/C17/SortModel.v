(* C17 -- model of bin/gensquashfs/src/sort_by_file.c (complete), of the pieces of
   lib/util/src/{get_line.c,parse_int.c,split_line.c} it calls, and of the flag
   computation of pack_file() in bin/gensquashfs/src/mkfs.c (and write_file() in
   bin/tar2sqfs/src/process_tarball.c).

   C strings are [list N] without the terminating NUL (the harness feeds NUL-free
   input only).  In-place pointer code (dst <= src throughout) becomes
   list-consuming code.  [fnmatch] is a Section variable WITHOUT any contract.
   Definitions only; proofs live in SortProofs.v.

   [decode_filename] takes a boolean: [true] = the code with the one-line repair
   props/C17/fixes/F08-decode-filename-terminate.patch ( *dst = '\0' after
   unquoting); [false] = the code as found (finding F08): the unquoted bytes are
   written over the front of the buffer and the rest of the buffer stays. *)
From Coq Require Import List NArith ZArith Bool.
From SqfsV Require Import C18.CanonModel C17.GenC17.
Import ListNotations.
Local Open Scope N_scope.

(* ---- <ctype.h> in the "C" locale (no tool calls setlocale) ---- *)
Definition isspace (c : N) : bool := (c =? 32) || ((9 <=? c) && (c <=? 13)).
Definition isdigit (c : N) : bool := (48 <=? c) && (c <=? 57).

Definition ch_nl : N := 10.
Definition ch_cr : N := 13.
Definition ch_dquote : N := 34.
Definition ch_hash : N := 35.
Definition ch_comma : N := 44.
Definition ch_minus : N := 45.
Definition ch_lbracket : N := 91.
Definition ch_bslash : N := 92.
Definition ch_rbracket : N := 93.

Fixpoint drop_while (p : N -> bool) (s : list N) : list N :=
  match s with
  | [] => []
  | c :: r => if p c then drop_while p r else s
  end.

(* get_line.c: ltrim / rtrim / trim *)
Definition ltrim (s : list N) : list N := drop_while isspace s.
Definition rtrim (s : list N) : list N := rev (drop_while isspace (rev s)).
Definition trim (s : list N) : list N := rtrim (ltrim s).

(* ---- istream_get_line with LTRIM | RTRIM | SKIP_EMPTY, iterated until EOF ----
   [cur_rev] is the line collected so far (reversed). A line that was ended by
   '\n' loses one trailing '\r' first; the last line (ended by EOF) is only
   returned when it has at least one byte (line_len == 0 -> out_eof). *)
Definition strip_cr_rev (cur_rev : list N) : list N :=
  match cur_rev with
  | c :: r => if c =? ch_cr then r else cur_rev
  | [] => []
  end.

Definition emit (l : list N) : list (list N) :=
  match trim l with [] => [] | t => [t] end.

Fixpoint lines_go (cur_rev : list N) (s : list N) : list (list N) :=
  match s with
  | [] => match cur_rev with [] => [] | _ => emit (rev cur_rev) end
  | c :: r =>
    if c =? ch_nl then emit (rev (strip_cr_rev cur_rev)) ++ lines_go [] r
    else lines_go (c :: cur_rev) r
  end.

Definition get_lines (text : list N) : list (list N) := lines_go [] text.

(* ---- parse_int.c: parse(base 10) and parse_int(vmin = vmax = 0, diff != NULL) ---- *)
Definition u64max : N := 18446744073709551615.
Definition s64lim : N := 9223372036854775807.   (* 0x7FFFFFFFFFFFFFFF: "temp >= ..." overflows *)

Inductive pres :=
| PCorrupt
| POverflow
| POk (v : N) (rest : list N).

Fixpoint parse_digits (s : list N) (acc : N) : pres :=
  match s with
  | [] => POk acc []
  | c :: r =>
    if isdigit c then
      let x := c - 48 in
      if u64max / 10 <=? acc then POverflow
      else
        let acc' := acc * 10 in
        if u64max - x <? acc' then POverflow
        else parse_digits r (acc' + x)
    else POk acc s
  end.

Definition parse_uint (s : list N) : pres :=
  match s with
  | c :: _ => if isdigit c then parse_digits s 0 else PCorrupt
  | [] => PCorrupt
  end.

Inductive ires :=
| ICorrupt
| IOverflow
| IOk (v : Z) (rest : list N).

Definition parse_int (s : list N) : ires :=
  let '(neg, s') :=
    match s with
    | c :: r => if c =? ch_minus then (true, r) else (false, s)
    | [] => (false, s)
    end in
  match parse_uint s' with
  | PCorrupt => ICorrupt
  | POverflow => IOverflow
  | POk v rest =>
    if s64lim <=? v then IOverflow
    else IOk (if neg then (- Z.of_N v)%Z else Z.of_N v) rest
  end.

(* decode_priority: number, at least one space, rest must not be empty *)
Definition decode_priority (line : list N) : option (Z * list N) :=
  match parse_int line with
  | IOk p rest =>
    match rest with
    | c :: _ =>
      if isspace c then
        match ltrim rest with
        | [] => None
        | r => Some (p, r)
        end
      else None
    | [] => None
    end
  | _ => None
  end.

(* ---- split_line(line, len, ",", &sep) on the bytes between '[' and ']' ---- *)
Definition is_comma (c : N) : bool := c =? ch_comma.

(* while (len > 0 && !is_sep(sep, src[0]) && src[0] != 0) copy one byte *)
Fixpoint tok_plain (s : list N) : list N * list N :=
  match s with
  | [] => ([], [])
  | c :: r =>
    if is_comma c then ([], s)
    else let (a, b) := tok_plain r in (c :: a, b)
  end.

Inductive qres :=
| QOk (tok rest : list N)
| QEscape          (* SPLIT_LINE_ESCAPE *)
| QUnmatched.      (* SPLIT_LINE_UNMATCHED_QUOTE *)

(* after the opening quote *)
Fixpoint tok_quoted (s : list N) : qres :=
  match s with
  | [] => QUnmatched
  | c :: r =>
    if c =? ch_dquote then QOk [] r
    else if c =? ch_bslash then
      match r with
      | [] => QEscape                       (* len < 2 *)
      | e :: r' =>
        if (e =? ch_dquote) || (e =? ch_bslash) then
          match tok_quoted r' with
          | QOk t rest => QOk (e :: t) rest
          | x => x
          end
        else QEscape
      end
    else
      match tok_quoted r with
      | QOk t rest => QOk (c :: t) rest
      | x => x
      end
  end.

Inductive sres :=
| SOk (args : list (list N))
| SErr
| SFuel.

Fixpoint split_go (fuel : nat) (s : list N) : sres :=
  match fuel with
  | O => SFuel
  | S f =>
    match s with
    | [] => SOk []
    | c :: r =>
      if c =? ch_dquote then
        match tok_quoted r with
        | QOk t rest =>
          match split_go f (drop_while is_comma rest) with
          | SOk a => SOk (t :: a)
          | x => x
          end
        | _ => SErr
        end
      else
        let (t, rest) := tok_plain s in
        match split_go f (drop_while is_comma rest) with
        | SOk a => SOk (t :: a)
        | x => x
        end
    end
  end.

Definition split_line_comma (s : list N) : sres :=
  split_go (S (length s)) (drop_while is_comma s).

(* ---- decode_flags ---- *)
Definition kw_glob_no_path : list N := [103;108;111;98;95;110;111;95;112;97;116;104].
Definition kw_glob : list N := [103;108;111;98].
Definition kw_dont_fragment : list N := [100;111;110;116;95;102;114;97;103;109;101;110;116].
Definition kw_dont_compress : list N := [100;111;110;116;95;99;111;109;112;114;101;115;115].
Definition kw_dont_deduplicate : list N := [100;111;110;116;95;100;101;100;117;112;108;105;99;97;116;101].
Definition kw_nosparse : list N := [110;111;115;112;97;114;115;101].

(* strchr(line, ']'): bytes before, bytes after *)
Fixpoint find_rbracket (s : list N) : option (list N * list N) :=
  match s with
  | [] => None
  | c :: r =>
    if c =? ch_rbracket then Some ([], r)
    else match find_rbracket r with
         | Some (a, b) => Some (c :: a, b)
         | None => None
         end
  end.

Fixpoint apply_kw (args : list (list N)) (g p : bool) (fl : N) : option (bool * bool * N) :=
  match args with
  | [] => Some (g, p, fl)
  | a :: r =>
    let t := trim a in
    if list_N_eqb t kw_glob_no_path then apply_kw r true false fl
    else if list_N_eqb t kw_glob then apply_kw r true true fl
    else if list_N_eqb t kw_dont_fragment then apply_kw r g p (N.lor fl c_SQFS_BLK_DONT_FRAGMENT)
    else if list_N_eqb t kw_dont_compress then apply_kw r g p (N.lor fl c_SQFS_BLK_DONT_COMPRESS)
    else if list_N_eqb t kw_dont_deduplicate then apply_kw r g p (N.lor fl c_SQFS_BLK_DONT_DEDUPLICATE)
    else if list_N_eqb t kw_nosparse then apply_kw r g p (N.lor fl c_SQFS_BLK_IGNORE_SPARSE)
    else None
  end.

Inductive fres :=
| FOk (do_glob path_glob : bool) (flags : N) (rest : list N)
| FErr
| FFuel.

Definition decode_flags (line : list N) : fres :=
  match line with
  | c :: r =>
    if c =? ch_lbracket then
      match find_rbracket r with
      | None => FErr                                  (* Missing `]` *)
      | Some (inner, after) =>
        match split_line_comma inner with
        | SErr => FErr                                (* Malformed flag list *)
        | SFuel => FFuel
        | SOk args =>
          match after with
          | e :: _ =>
            if isspace e then
              match apply_kw args false false 0 with
              | Some (g, p, fl) => FOk g p fl (ltrim after)
              | None => FErr                          (* Unknown flag *)
              end
            else FErr                                 (* Expected <space> <filename> *)
          | [] => FErr
          end
        end
      end
    else FOk false false 0 line
  | [] => FOk false false 0 line
  end.

(* ---- decode_filename ---- *)
(* after the opening quote: (bytes written through dst, bytes after the closing quote) *)
Fixpoint unquote (s : list N) : option (list N * list N) :=
  match s with
  | [] => None                                        (* unmatched quote *)
  | c :: r =>
    if c =? ch_dquote then Some ([], r)
    else if c =? ch_bslash then
      match r with
      | e :: r' =>
        if (e =? ch_bslash) || (e =? ch_dquote) then
          match unquote r' with
          | Some (w, a) => Some (e :: w, a)
          | None => None
          end
        else None                                     (* Unknown escape sequence *)
      | [] => None
      end
    else
      match unquote r with
      | Some (w, a) => Some (c :: w, a)
      | None => None
      end
  end.

(* the buffer handed to canonicalize_name *)
Definition unquoted_buffer (terminated : bool) (buffer : list N) : option (list N) :=
  match buffer with
  | c :: r =>
    if c =? ch_dquote then
      match unquote r with
      | Some (w, []) =>
        if terminated then Some w
        else Some (w ++ skipn (length w) buffer)      (* F08: no '\0' stored at dst *)
      | _ => None
      end
    else Some buffer
  | [] => Some buffer
  end.

Definition decode_filename (terminated : bool) (buffer : list N) : option (list N) :=
  match unquoted_buffer terminated buffer with
  | Some b => canon_result b
  | None => None
  end.

(* ---- one line of the sort file ---- *)
Record directive := mkdirective {
  d_prio : Z;
  d_glob : bool;
  d_path : bool;       (* FNM_PATHNAME *)
  d_flags : N;
  d_name : list N
}.

Inductive lres :=
| LnSkip                 (* comment *)
| LnDir (d : directive)
| LnErr
| LnFuel.

Definition parse_line (terminated : bool) (line : list N) : lres :=
  match line with
  | [] => LnSkip
  | c :: _ =>
    if c =? ch_hash then LnSkip
    else
      match decode_priority line with
      | None => LnErr
      | Some (p, r1) =>
        match decode_flags r1 with
        | FErr => LnErr
        | FFuel => LnFuel
        | FOk g pg fl r2 =>
          match decode_filename terminated r2 with
          | None => LnErr
          | Some nm => LnDir (mkdirective p g pg fl nm)
          end
        end
      end
  end.

(* ---- the file list and the matching loop ---- *)
Record node := mknode {
  n_id : N;              (* position in the list handed to fstree_sort_files *)
  n_path : list N;       (* what fstree_get_path returns, e.g. "/bin/ls" *)
  n_matched : bool;      (* FLAG_FILE_ALREADY_MATCHED *)
  n_prio : Z;
  n_flags : N
}.

Fixpoint init_nodes (i : N) (paths : list (list N)) : list node :=
  match paths with
  | [] => []
  | p :: r => mknode i p false 0%Z 0 :: init_nodes (i + 1) r
  end.

Definition mark (d : directive) (n : node) : node :=
  mknode (n_id n) (n_path n) true (d_prio d) (d_flags d).

Section Match.
  (* fnmatch pattern path pathname_flag = true  <->  fnmatch(3) returned 0 *)
  Variable fnmatch : list N -> list N -> bool -> bool.

  Definition line_matches (d : directive) (path : list N) : bool :=
    if d_glob d then fnmatch (d_name d) path (d_path d)
    else list_N_eqb path (d_name d).

  (* None = "[BUG] error reconstructing node path" *)
  Fixpoint apply_line (d : directive) (nodes : list node) : option (list node) :=
    match nodes with
    | [] => Some []
    | n :: r =>
      if n_matched n then
        match apply_line d r with Some r' => Some (n :: r') | None => None end
      else
        match canon_result (n_path n) with
        | None => None
        | Some p =>
          if line_matches d p then
            if d_glob d then
              match apply_line d r with Some r' => Some (mark d n :: r') | None => None end
            else Some (mark d n :: r)                   (* break *)
          else
            match apply_line d r with Some r' => Some (n :: r') | None => None end
        end
    end.

  Inductive res :=
  | ROk (out : list node)
  | RErr
  | RFuel.

  Fixpoint run_lines (terminated : bool) (lines : list (list N)) (nodes : list node) : res :=
    match lines with
    | [] => ROk nodes
    | l :: r =>
      match parse_line terminated l with
      | LnSkip => run_lines terminated r nodes
      | LnErr => RErr
      | LnFuel => RFuel
      | LnDir d =>
        match apply_line d nodes with
        | Some nodes' => run_lines terminated r nodes'
        | None => RErr
        end
      end
    end.

  (* ---- sort_file_list: selection of the first strictly-lowest element ---- *)
  (* pre_rev: nodes before [low]; mid_rev: nodes between [low] and the cursor (both reversed) *)
  Fixpoint scan (pre_rev : list node) (low : node) (mid_rev : list node) (l : list node)
    : node * list node :=
    match l with
    | [] => (low, rev pre_rev ++ rev mid_rev)
    | it :: r =>
      if (n_prio it <? n_prio low)%Z then scan (mid_rev ++ low :: pre_rev) it [] r
      else scan pre_rev low (it :: mid_rev) r
    end.

  Fixpoint sel_sort_n (fuel : nat) (l : list node) : list node :=
    match fuel with
    | O => l
    | S f =>
      match l with
      | [] => []
      | x :: r => let (low, rest) := scan [] x [] r in low :: sel_sort_n f rest
      end
    end.

  Definition sel_sort (l : list node) : list node := sel_sort_n (length l) l.

  (* fstree_sort_files *)
  Definition sort_files (terminated : bool) (paths : list (list N)) (text : list N) : res :=
    match run_lines terminated (get_lines text) (init_nodes 0 paths) with
    | ROk ns => ROk (sel_sort ns)
    | x => x
    end.
End Match.

(* ---- pack_file (mkfs.c) / write_file (process_tarball.c): flags handed to the block processor ---- *)
Definition pack_flags (no_tail_packing : bool) (filesize block_size node_flags : N) : N :=
  if no_tail_packing && (block_size <? filesize)
  then N.lor node_flags c_SQFS_BLK_DONT_FRAGMENT
  else node_flags.
