(* C17 — two more invariants of C08's block processor / block writer model, carried through the whole
   pipeline next to C08's PInv:

     LInv  the layout log: what the block writer stored, in the order it stored it; every entry sits at
           the end of the output as it then was, or (file with deduplication allowed) inside earlier
           data; the files appear in packing order; the output ends where the log says.
     FInv  fragments: the fragment block that received the not-deduplicated tail of a DONT_COMPRESS
           file stays uncompressed (while it is being filled, in the queue, in the fragment table);
           every entry of the fragment hash table is the fragment reference of an earlier file;
           the tail of a DONT_DEDUPLICATE file lies behind every earlier tail.

   Proof pattern: C08's step lemmas give PInv of the next state; the functions are deterministic, so
   the same next state is analysed here for LInv / FInv. *)
From Coq Require Import List NArith Arith Bool Lia Sorted.
From SqfsV Require Import C08.DedupModel C08.DedupLemmas C08.DedupWriterProofs C08.DedupReaderProofs
     C08.DedupPipeProofs.
From SqfsV Require Import C17.FlagSpec C17.FlagWriter.
Import ListNotations.

Ltac splits := repeat match goal with |- _ /\ _ => split end.

(* ---------------------------------------------------------------------- *)
(* small facts about logs and queues                                         *)

Lemma log_fids_in log f : In f (log_fids log) <-> exists e, In e log /\ le_kind e = LFile f.
Proof.
  induction log as [|e log IH]; simpl.
  - split; [intros []|intros (e & [] & _)].
  - destruct (le_kind e) as [g|i] eqn:K; simpl; rewrite ?IH; split.
    + intros [->|(e' & H1 & H2)]; [exists e; split; [left; reflexivity|assumption]|exists e'; split; [right|]; assumption].
    + intros (e' & [->|H1] & H2); [left; congruence|right; exists e'; split; assumption].
    + intros (e' & H1 & H2). exists e'. split; [right|]; assumption.
    + intros (e' & [->|H1] & H2); [congruence|exists e'; split; assumption].
Qed.

Lemma log_fids_app a b : log_fids (a ++ b) = log_fids a ++ log_fids b.
Proof.
  induction a as [|e a IH]; [reflexivity|]. simpl. destruct (le_kind e); simpl; rewrite IH; reflexivity.
Qed.

Lemma wm_ge base log : base <= wm base log.
Proof. induction log; simpl; lia. Qed.

Lemma wm_end base log e : In e log -> le_end e <= wm base log.
Proof.
  induction log as [|x log IH]; simpl; [intros []|]. intros [->|H]; [lia|]. specialize (IH H). lia.
Qed.

Lemma in_mark_first r idx pb q : In (QFrag r idx pb) (mark_first_ready q) -> exists r0, In (QFrag r0 idx pb) q.
Proof.
  induction q as [|[f dd pbs|r' i' pb'] q IH]; simpl; [intros []| |].
  - intros [H|H]; [discriminate|]. destruct (IH H) as [r0 H0]. exists r0. right. assumption.
  - destruct r'; simpl.
    + intros [H|H]; [exists r; left; assumption|]. destruct (IH H) as [r0 H0]. exists r0. right. assumption.
    + intros [H|H]; [inversion H; subst; exists false; left; reflexivity|exists r; right; assumption].
Qed.

Lemma in_mark_all r idx pb q : In (QFrag r idx pb) (mark_all_ready q) -> exists r0, In (QFrag r0 idx pb) q.
Proof.
  unfold mark_all_ready. intro H. apply in_map_iff in H. destruct H as (it & E & Hin).
  destruct it as [f dd pbs|r0 i0 pb0]; [discriminate|]. inversion E; subst. exists r0. assumption.
Qed.

Lemma sorted_snoc l n : StronglySorted lt l -> (forall f, In f l -> f < n) -> StronglySorted lt (l ++ [n]).
Proof.
  induction l as [|x l IH]; intros S H; simpl.
  - constructor; [constructor|constructor].
  - inversion S; subst. constructor.
    + apply IH; [assumption|]. intros f Hf. apply H. right. assumption.
    + apply Forall_app. split; [assumption|]. constructor; [apply H; left; reflexivity|constructor].
Qed.

(* a DONT_COMPRESS block leaves the worker uncompressed *)
Lemma work_dc_uncompressed hashf compress ns isf dh d :
  pb_compressed (work_block hashf compress ns isf true dh d) = false.
Proof.
  unfold work_block. destruct (length d =? 0); [reflexivity|].
  destruct (negb ns && all_zero d); [reflexivity|]. rewrite orb_true_r. reflexivity.
Qed.

Lemma ht_search_in uncompress bs st khash ksize cur : forall l ca c ca',
  ht_search uncompress bs true st ca ksize khash cur l = SFound c ca' -> In c l.
Proof.
  induction l as [|x l IH]; intros ca c ca' H; cbn [ht_search] in H; [discriminate|].
  destruct (N.eqb (ck_hash x) khash).
  - destruct (chunk_equals uncompress bs true st ca ksize khash cur x) as [[| |] ca1].
    + inversion H; subst. left. reflexivity.
    + right. eapply IH. eassumption.
    + discriminate.
  - right. eapply IH. eassumption.
Qed.

Lemma ht_insert_in uncompress bs st nc cur : forall l ca h ca',
  ht_insert uncompress bs true st ca nc cur l = Some (h, ca') -> forall c, In c h -> In c l \/ c = nc.
Proof.
  induction l as [|x l IH]; intros ca h ca' H c Hc; cbn [ht_insert] in H.
  - inversion H; subst. destruct Hc as [<-|[]]. right. reflexivity.
  - destruct (N.eqb (ck_hash x) (ck_hash nc)).
    + destruct (chunk_equals uncompress bs true st ca (ck_size nc) (ck_hash nc) cur x) as [[| |] ca1].
      * inversion H; subst. destruct Hc as [<-|Hc]; [right; reflexivity|left; right; assumption].
      * destruct (ht_insert uncompress bs true st ca1 nc cur l) as [[r' ca2]|] eqn:E; [|discriminate].
        inversion H; subst. destruct Hc as [<-|Hc]; [left; left; reflexivity|].
        destruct (IH _ _ _ E c Hc) as [I|I]; [left; right; assumption|right; assumption].
      * discriminate.
    + destruct (ht_insert uncompress bs true st ca nc cur l) as [[r' ca2]|] eqn:E; [|discriminate].
      inversion H; subst. destruct Hc as [<-|Hc]; [left; left; reflexivity|].
      destruct (IH _ _ _ E c Hc) as [I|I]; [left; right; assumption|right; assumption].
Qed.

(* ---------------------------------------------------------------------- *)

Section XPipe.
Variable hashf : list N -> N.
Variable compress : list N -> option (list N).
Variable uncompress : list N -> nat -> option (list N).
Variable bs half base : nat.

Hypothesis Hcomp : forall b c, compress b = Some c ->
  length c < length b /\ forall n, length b <= n -> uncompress c n = Some b.
Hypothesis Hbs : 0 < bs.
Hypothesis Hsmall : small bs.
Hypothesis Hhalf : 0 < half.

Variable files : list (uflags * list N).

Notation work := (work_block hashf compress).
Notation PInv' := (PInv hashf compress uncompress bs base files).
Notation job' := (job bs files).
Notation jpbs' := (jpbs hashf compress bs files).

Definition sdata (fid : nat) : list pblock := filter stored (jpbs' fid).
Definition stores (fid : nat) : Prop := sdata fid <> [].
Definition dlen (fid : nat) : nat := length (cat (sdata fid)).
Definition fl_of (fid : nat) : uflags := j_fl (job' fid).
Definition dd_of (fid : nat) : bool := uf_dont_dedup (fl_of fid).
Definition dc_of (fid : nat) : bool := uf_dont_compress (fl_of fid).

Record LInv (st : proc) (q : list qitem) (nb : nat) (log : list lent) : Prop := {
  l_q_sorted : StronglySorted lt (qfids q);
  l_q_above : forall f g, In f (log_fids log) -> In g (qfids q) -> f < g;
  l_len : length (w_file (p_wr st)) = wm base log;
  l_ok : LogOk base dd_of log;
  l_file : forall e fid, In e log -> le_kind e = LFile fid ->
      fid < nb /\ stores fid /\ le_loc e = p_start st fid /\ le_len e = dlen fid;
  l_frag : forall e idx, In e log -> le_kind e = LFrag idx ->
      idx < p_nfrag st /\ 0 < le_len e /\ exists w, p_ftab st idx = (le_loc e, w) /\ sw_size w = le_len e;
  l_sorted : StronglySorted gt (log_fids log);
  l_all : forall fid, fid < nb -> stores fid -> In fid (qfids q) \/ In fid (log_fids log)
}.

Record FInv (st : proc) (q : list qitem) (nt : nat) (D : list nat) : Prop := {
  f_cur_last : forall fb, p_fragblk st = Some fb -> S (fb_index fb) = p_nfrag st;
  f_dc : forall idx, In idx D -> idx < p_nfrag st /\
      (forall fb, p_fragblk st = Some fb -> fb_index fb = idx -> fb_dont_compress fb = true) /\
      (forall r pb, In (QFrag r idx pb) q -> pb_compressed pb = false) /\
      (p_ftab st idx = (0, 0%N) \/ sw_compressed (snd (p_ftab st idx)) = false);
  f_dc_files : forall fid i o, fid < nt -> dc_of fid = true -> p_frag st fid = Some (i, o) ->
      (forall fid', fid' < fid -> p_frag st fid' <> Some (i, o)) -> In i D;
  f_ht : forall c, In c (p_ht st) -> exists fid' t', fid' < nt /\ j_tail (job' fid') = Some t' /\
      p_frag st fid' = Some (ck_index c, ck_offset c) /\ ck_size c = length t';
  f_ddtail : forall fid i o, fid < nt -> dd_of fid = true -> p_frag st fid = Some (i, o) ->
      forall fid' i' o' t', fid' < fid -> p_frag st fid' = Some (i', o') -> j_tail (job' fid') = Some t' ->
      i' < i \/ (i' = i /\ o' + length t' <= o);
  f_same : forall fid fid' i o t t', fid < nt -> fid' < fid ->
      p_frag st fid = Some (i, o) -> p_frag st fid' = Some (i, o) ->
      j_tail (job' fid) = Some t -> j_tail (job' fid') = Some t' -> t' = t
}.

(* ---- frames ---- *)

Lemma LInv_frame st st' q q' nb log :
  length (w_file (p_wr st')) = length (w_file (p_wr st)) -> p_start st' = p_start st ->
  p_nfrag st <= p_nfrag st' -> (forall i, i < p_nfrag st -> p_ftab st' i = p_ftab st i) ->
  qfids q' = qfids q ->
  LInv st q nb log -> LInv st' q' nb log.
Proof.
  intros El Es Hn Hft Eq [L1 L2 L3 L4 L5 L6 L7 L8].
  constructor; try assumption.
  - rewrite Eq. assumption.
  - rewrite Eq. assumption.
  - rewrite El. assumption.
  - rewrite Es. assumption.
  - intros e idx He Hk. destruct (L6 e idx He Hk) as (H1 & H2 & w & H3 & H4).
    split; [lia|]. split; [assumption|]. exists w. rewrite Hft by assumption. split; assumption.
  - rewrite Eq. assumption.
Qed.

Lemma FInv_frame st st' q q' nt D :
  p_fragblk st' = p_fragblk st -> p_nfrag st' = p_nfrag st -> p_ftab st' = p_ftab st ->
  p_ht st' = p_ht st -> p_frag st' = p_frag st ->
  (forall r idx pb, In (QFrag r idx pb) q' -> exists r0, In (QFrag r0 idx pb) q) ->
  FInv st q nt D -> FInv st' q' nt D.
Proof.
  intros Eb En Eft Eh Ef Hq [F1 F2 F3 F4 F5 F6].
  constructor.
  - rewrite Eb, En. assumption.
  - intros idx Hi. destruct (F2 idx Hi) as (H1 & H2 & H3 & H4). rewrite En, Eb, Eft.
    splits; try assumption. intros r pb Hin. destruct (Hq r idx pb Hin) as [r0 H0]. eapply H3. eassumption.
  - rewrite Ef. assumption.
  - rewrite Eh, Ef. assumption.
  - rewrite Ef. assumption.
  - rewrite Ef. assumption.
Qed.

Lemma sub_refl (q : list qitem) : forall r idx pb, In (QFrag r idx pb) q -> exists r0, In (QFrag r0 idx pb) q.
Proof. intros r idx pb H. exists r. assumption. Qed.

Lemma sub_tail it (q : list qitem) : forall r idx pb, In (QFrag r idx pb) q -> exists r0, In (QFrag r0 idx pb) (it :: q).
Proof. intros r idx pb H. exists r. right. assumption. Qed.

(* ---- process_completed_block for the blocks of one file ---- *)

Lemma x_complete_file st fid dd pbs q claims fbd nb nt log D st' :
  PInv' st (QFile fid dd pbs :: q) claims fbd nb nt ->
  LInv st (QFile fid dd pbs :: q) nb log -> FInv st (QFile fid dd pbs :: q) nt D ->
  complete_blocks false half st fid dd 0 pbs = Ok st' ->
  (exists ext, LInv st' q nb (ext ++ log)) /\ FInv st' q nt D.
Proof.
  intros HP HL HF E.
  pose proof HP as [P1 P2 _ _ _ _ _ _ _ _ _ _ _].
  inversion P2 as [|? ? Hq P2']; subst. simpl in Hq. destruct Hq as (Hfid & Hpbs & Hdd & Hjb).
  assert (Hne : pbs <> []).
  { rewrite Hpbs. unfold jpbs. destruct (j_blocks (job' fid)); [contradiction|discriminate]. }
  assert (Hsm : all_small pbs).
  { rewrite Hpbs. apply (jpbs_small hashf compress uncompress bs half Hcomp Hbs Hsmall Hhalf). }
  assert (Hsane : Forall sane pbs).
  { rewrite Hpbs. apply (jpbs_sane hashf compress uncompress bs Hcomp Hbs). }
  destruct (complete_blocks_gen bs half base Hbs Hhalf fid dd pbs st 0 claims (w_file (p_wr st))
              (w_blocks (p_wr st)) [] Hne Hsm Hsane)
    as (st'' & loc & R1 & R2 & R3 & R4 & R5 & R6 & R7).
  { simpl. splits; try reflexivity. assumption. }
  rewrite E in R1. inversion R1; subst st''. clear R1.
  destruct (cb_layout half Hhalf base fid dd pbs st 0 claims (w_file (p_wr st)) (w_blocks (p_wr st)) [] st'
                      Hne Hsm (Forall_nil _)) as [L1 L2].
  { simpl. splits; try reflexivity. assumption. }
  { exact E. }
  cbv zeta in L1, L2. cbn [app] in L1, L2.
  destruct R7 as (A1 & A2 & A3 & A4 & A5 & A6 & A7).
  split.
  - destruct HL as [X1 X2 X3 X4 X5 X6 X7 X8]. cbn [qfids] in X1, X2, X8.
    pose proof (StronglySorted_inv X1) as [S1 S2].
    assert (Hsd : filter stored pbs = sdata fid) by (unfold sdata; rewrite Hpbs; reflexivity).
    assert (Hold : forall e f, In e log -> le_kind e = LFile f -> f <> fid).
    { intros e f He Hk C. subst f.
      assert (In fid (log_fids log)) by (apply log_fids_in; exists e; split; assumption).
      specialize (X2 fid fid H (or_introl eq_refl)). lia. }
    destruct (filter stored pbs) as [|s0 sr] eqn:Esd.
    + (* nothing stored: holes / empty blocks only *)
      exists []. cbn [app]. constructor; try assumption.
      * intros f g Hf Hg. apply X2; [assumption|right; assumption].
      * rewrite (L1 eq_refl). assumption.
      * intros e f He Hk. destruct (X5 e f He Hk) as (H1 & H2 & H3 & H4).
        splits; try assumption. rewrite R4 by (eapply Hold; eassumption). assumption.
      * rewrite A1, A2. assumption.
      * intros f Hf Hs. destruct (X8 f Hf Hs) as [[->|H]|H]; [|left; assumption|right; assumption].
        exfalso. apply Hs. symmetry. assumption.
    + assert (Hst : stores fid) by (unfold stores; rewrite <- Hsd; discriminate).
      assert (Hdl : length (cat (s0 :: sr)) = dlen fid) by (unfold dlen; rewrite <- Hsd; reflexivity).
      set (e := {| le_kind := LFile fid; le_loc := p_start st' fid; le_len := dlen fid |}).
      exists [e]. cbn [app].
      specialize (L2 ltac:(discriminate)).
      assert (Hwm : length (w_file (p_wr st')) = wm base (e :: log) /\ entry_ok base dd_of log e).
      { cbn [wm]. unfold le_end, entry_ok. cbn [le_loc le_len le_kind e]. rewrite <- X3.
        destruct L2 as [[La Lb]|(Ldd & La & Lb)].
        - split; [rewrite Lb, app_length, Hdl, La; lia|left; assumption].
        - split; [rewrite Lb, Hdl; reflexivity|].
          right. exists fid. splits; [reflexivity| |assumption].
          unfold dd_of, fl_of. rewrite <- Hdd. assumption. }
      destruct Hwm as [Hw1 Hw2].
      constructor.
      * assumption.
      * intros f g Hf Hg. cbn [log_fids le_kind e] in Hf. destruct Hf as [<-|Hf].
        -- rewrite Forall_forall in S2. apply S2. assumption.
        -- apply X2; [assumption|right; assumption].
      * exact Hw1.
      * cbn [LogOk]. split; assumption.
      * intros e' f [<-|He] Hk.
        -- cbn [le_kind e] in Hk. inversion Hk; subst f. splits; try assumption; reflexivity.
        -- destruct (X5 e' f He Hk) as (H1 & H2 & H3 & H4).
           splits; try assumption. rewrite R4 by (eapply Hold; eassumption). assumption.
      * intros e' idx [<-|He] Hk; [discriminate|]. rewrite A1, A2. apply X6; assumption.
      * cbn [log_fids le_kind e]. constructor; [assumption|].
        apply Forall_forall. intros f Hf. specialize (X2 f fid Hf (or_introl eq_refl)). lia.
      * intros f Hf Hs. cbn [log_fids le_kind e]. destruct (X8 f Hf Hs) as [[->|H]|H].
        -- right. left. reflexivity.
        -- left. assumption.
        -- right. right. assumption.
  - eapply FInv_frame; [| | | | | |exact HF]; try assumption. apply sub_tail.
Qed.

(* ---- process_completed_block for a fragment block ---- *)

Lemma x_complete_fragblk st idx pb q claims fbd nb nt log D st' :
  PInv' st (QFrag true idx pb :: q) claims fbd nb nt ->
  LInv st (QFrag true idx pb :: q) nb log -> FInv st (QFrag true idx pb :: q) nt D ->
  complete_fragblk false half st idx pb = Ok st' ->
  (exists ext, LInv st' q nb (ext ++ log)) /\ FInv st' q nt D.
Proof.
  intros HP HL HF E.
  pose proof HP as [P1 P2 _ _ _ _ _ _ _ _ _ _ _].
  inversion P2 as [|? ? Hq P2']; subst. simpl in Hq.
  destruct Hq as (Hidx & Hft & Hfd & (dc & Hpb) & Hinf & Hnc).
  destruct Hfd as [Hlen Hlen2].
  assert (Hdne : fbd idx <> []) by (intro H; rewrite H in Hlen; simpl in Hlen; lia).
  assert (Hsp : pb_sparse pb = false).
  { rewrite Hpb, work_sparse_iff by assumption. reflexivity. }
  pose proof (work_dec hashf compress uncompress bs Hcomp Hbs true false dc false (fbd idx) Hdne) as Hdec.
  rewrite <- Hpb in Hdec. destruct Hdec as (_ & Hle & _ & S2). destruct (S2 Hsp) as (Hpne & _).
  assert (Hsm : small (length (pb_data pb))) by (eapply small_le; [|exact Hsmall]; lia).
  assert (Hl0 : (length (pb_data pb) =? 0) = false).
  { destruct (length (pb_data pb) =? 0) eqn:E0; [|reflexivity]. apply length_zero_iff in E0. contradiction. }
  assert (Hpos : 0 < length (pb_data pb)) by (apply Nat.eqb_neq in Hl0; lia).
  unfold complete_fragblk, write_data_block in E.
  cbn [wf_first wf_last wf_sparse wf_compressed wf_dont_dedup p_wr set_inflight] in E.
  rewrite Hsp, Hl0 in E. cbn [negb andb] in E. inversion E; subst st'. clear E.
  set (L0 := length (w_file (p_wr st))).
  split.
  - destruct HL as [X1 X2 X3 X4 X5 X6 X7 X8]. cbn [qfids] in X1, X2, X8.
    set (e := {| le_kind := LFrag idx; le_loc := L0; le_len := length (pb_data pb) |}).
    exists [e]. cbn [app].
    constructor; cbn [p_wr p_start p_nfrag p_ftab set_ftab set_wr set_inflight w_file].
    + assumption.
    + intros f g Hf Hg. cbn [log_fids le_kind e] in Hf. apply X2; assumption.
    + rewrite app_length. cbn [wm]. unfold le_end. cbn [le_loc le_len e]. fold L0. rewrite <- X3. fold L0. lia.
    + cbn [LogOk]. split; [|assumption]. left. cbn [le_loc e]. unfold L0. assumption.
    + intros e' f [<-|He] Hk; [discriminate|]. apply X5; assumption.
    + intros e' i [<-|He] Hk.
      * cbn [le_kind e] in Hk. inversion Hk; subst i. cbn [le_loc le_len e].
        splits; [assumption|assumption|]. eexists. rewrite Nat.eqb_refl. split; [reflexivity|].
        apply sw_size_of. assumption.
      * destruct (X6 e' i He Hk) as (H1 & H2 & w & H3 & H4). splits; [assumption|assumption|].
        exists w. destruct (i =? idx) eqn:Ei; [|split; assumption].
        apply Nat.eqb_eq in Ei. subst i. rewrite Hft in H3. inversion H3; subst w.
        unfold sw_size in H4. simpl in H4. lia.
    + assumption.
    + assumption.
  - destruct HF as [F1 F2 F3 F4 F5 F6].
    constructor; cbn [p_fragblk p_nfrag p_ftab p_ht p_frag set_ftab set_wr set_inflight]; try assumption.
    + intros i Hi. destruct (F2 i Hi) as (H1 & H2 & H3 & H4). splits; try assumption.
      * intros r pb' Hin. apply (H3 r pb'). right. assumption.
      * destruct (i =? idx) eqn:Ei; [|assumption]. apply Nat.eqb_eq in Ei. subst i.
        right. cbn [snd]. rewrite sw_compressed_of by assumption.
        apply (H3 true pb). left. reflexivity.
Qed.

(* ---- the drain loop ---- *)

Lemma x_drain_q fbd nb nt D : forall q st claims log,
  PInv' st q claims fbd nb nt -> LInv st q nb log -> FInv st q nt D ->
  exists st' claims' ext,
    drain_q false half q st = Ok st' /\
    PInv' st' (p_ioq st') claims' fbd nb nt /\
    LInv st' (p_ioq st') nb (ext ++ log) /\ FInv st' (p_ioq st') nt D /\
    incl claims claims' /\ p_nfrag st' = p_nfrag st /\ p_fragblk st' = p_fragblk st /\
    p_ht st' = p_ht st /\ p_frag st' = p_frag st.
Proof.
  induction q as [|[fid dd pbs|r idx pb] q IH]; intros st claims log HP HL HF.
  - exists (set_ioq st []), claims, []. split; [reflexivity|].
    split; [apply PInv_set_ioq; assumption|].
    split; [eapply LInv_frame; [| | | | |exact HL]; try reflexivity; try lia; intros; reflexivity|].
    split; [eapply FInv_frame; [| | | | | |exact HF]; try reflexivity; apply sub_refl|].
    split; [apply incl_refl|]. splits; reflexivity.
  - destruct (complete_file_inv hashf compress uncompress bs half base Hcomp Hbs Hsmall Hhalf files
                                _ _ _ _ _ _ _ _ _ HP) as (st1 & loc & E & HP1 & A).
    destruct (x_complete_file _ _ _ _ _ _ _ _ _ _ _ _ HP HL HF E) as [[ext1 HL1] HF1].
    destruct (IH st1 _ _ HP1 HL1 HF1) as (st' & claims' & ext & E' & HP' & HL' & HF' & I & G1 & G2 & G3 & G4).
    exists st', claims', (ext ++ ext1). cbn [drain_q]. rewrite E. split; [exact E'|]. split; [exact HP'|].
    split; [rewrite <- app_assoc; exact HL'|]. split; [exact HF'|].
    destruct A as (A1 & A2 & A3 & A4 & A5 & A6 & A7).
    split; [intros x Hx; apply I; right; assumption|]. splits; congruence.
  - destruct r.
    + destruct (complete_fragblk_inv hashf compress uncompress bs half base Hcomp Hbs Hsmall Hhalf files
                                     _ _ _ _ _ _ _ _ HP) as (st1 & loc & E & HP1 & A1 & A2 & A3 & A4).
      destruct (x_complete_fragblk _ _ _ _ _ _ _ _ _ _ _ HP HL HF E) as [[ext1 HL1] HF1].
      destruct (IH st1 _ _ HP1 HL1 HF1) as (st' & claims' & ext & E' & HP' & HL' & HF' & I & G1 & G2 & G3 & G4).
      exists st', claims', (ext ++ ext1). cbn [drain_q]. rewrite E. split; [exact E'|]. split; [exact HP'|].
      split; [rewrite <- app_assoc; exact HL'|]. split; [exact HF'|].
      split; [intros x Hx; apply I; right; assumption|]. splits; congruence.
    + exists (set_ioq st (QFrag false idx pb :: q)), claims, []. split; [reflexivity|].
      split; [apply PInv_set_ioq; assumption|].
      split; [eapply LInv_frame; [| | | | |exact HL]; try reflexivity; try lia; intros; reflexivity|].
      split; [eapply FInv_frame; [| | | | | |exact HF]; try reflexivity; apply sub_refl|].
      split; [apply incl_refl|]. splits; reflexivity.
Qed.


(* ---- a file's blocks are queued ---- *)

Lemma stores_blocks fid : stores fid -> j_blocks (job' fid) <> [].
Proof.
  unfold stores, sdata, jpbs. intros H C. rewrite C in H. apply H. reflexivity.
Qed.

Lemma x_push st claims fbd n log D :
  PInv' st (p_ioq st) claims fbd n n -> LInv st (p_ioq st) n log -> FInv st (p_ioq st) n D ->
  let st2 := match j_blocks (job' n) with
             | [] => st
             | _ :: _ => set_ioq st (p_ioq st ++
                 [QFile n (uf_dont_dedup (j_fl (job' n)))
                    (map (work (uf_ignore_sparse (j_fl (job' n))) false
                               (uf_dont_compress (j_fl (job' n))) (uf_dont_hash (j_fl (job' n))))
                         (j_blocks (job' n)))])
             end in
  LInv st2 (p_ioq st2) (S n) log /\ FInv st2 (p_ioq st2) n D.
Proof.
  intros HP [X1 X2 X3 X4 X5 X6 X7 X8] HF.
  pose proof HP as [_ P2 _ _ _ _ _ _ _ _ _ _ _].
  assert (Hlt : forall f, In f (log_fids log) -> f < n).
  { intros f Hf. apply log_fids_in in Hf. destruct Hf as (e & He & Hk). destruct (X5 e f He Hk). assumption. }
  destruct (j_blocks (job' n)) as [|b0 bl] eqn:Eb; cbv zeta.
  - split; [|assumption]. constructor; try assumption.
    + intros e f He Hk. destruct (X5 e f He Hk) as (H1 & H2). split; [lia|assumption].
    + intros f Hf Hs. destruct (Nat.eq_dec f n) as [->|Hne].
      * exfalso. apply (stores_blocks n Hs). assumption.
      * apply X8; [lia|assumption].
  - cbn [p_ioq set_ioq]. split.
    + constructor; cbn [p_wr p_start p_nfrag p_ftab set_ioq]; try assumption.
      * rewrite qfids_app. cbn [qfids]. apply sorted_snoc; [assumption|].
        intros f Hf. eapply qfids_bound; eassumption.
      * intros f g Hf Hg. rewrite qfids_app in Hg. apply in_app_or in Hg.
        destruct Hg as [Hg|[<-|[]]]; [apply X2; assumption|apply Hlt; assumption].
      * intros e f He Hk. destruct (X5 e f He Hk) as (H1 & H2). split; [lia|assumption].
      * intros f Hf Hs. rewrite qfids_app. destruct (Nat.eq_dec f n) as [->|Hne].
        -- left. apply in_or_app. right. left. reflexivity.
        -- destruct (X8 f ltac:(lia) Hs) as [H|H]; [left; apply in_or_app; left; assumption|right; assumption].
    + eapply FInv_frame; [| | | | | |exact HF]; try reflexivity.
      intros r idx pb Hin. apply in_app_or in Hin. destruct Hin as [Hin|[Hin|[]]]; [|discriminate].
      exists r. assumption.
Qed.

(* ---- a fragment block is handed to the pool ---- *)

Lemma x_enqueue st nb nt log D fb :
  LInv st (p_ioq st) nb log -> FInv st (p_ioq st) nt D -> p_fragblk st = Some fb ->
  LInv (enqueue_fragblk hashf compress true st fb) (p_ioq (enqueue_fragblk hashf compress true st fb)) nb log /\
  FInv (enqueue_fragblk hashf compress true st fb) (p_ioq (enqueue_fragblk hashf compress true st fb)) nt D.
Proof.
  intros HL HF Hfb. unfold enqueue_fragblk. cbn [set_inflight set_ioq set_fragblk p_ioq].
  split.
  - eapply LInv_frame; [| | | | |exact HL]; try reflexivity; try lia.
    rewrite qfids_app. cbn [qfids]. apply app_nil_r.
  - destruct HF as [F1 F2 F3 F4 F5 F6].
    constructor; cbn [p_fragblk p_nfrag p_ftab p_ht p_frag set_inflight set_ioq set_fragblk]; try assumption.
    + intros fb' C. discriminate.
    + intros idx Hi. destruct (F2 idx Hi) as (H1 & H2 & H3 & H4). splits; try assumption.
      * intros fb' C. discriminate.
      * intros r pb Hin. apply in_app_or in Hin. destruct Hin as [Hin|[Hin|[]]].
        -- eapply H3. eassumption.
        -- inversion Hin; subst. rewrite (H2 fb Hfb eq_refl). apply work_dc_uncompressed.
Qed.

(* ---- process_completed_fragment: the fragment gets a place of its own ---- *)

Lemma x_place_core s1 st2 index offset fb' n t h ca ca0 chk log D claims' fbd' :
  PInv' (set_frag (set_cached (set_ht st2 h) ca) n index offset)
        (p_ioq (set_frag (set_cached (set_ht st2 h) ca) n index offset)) claims' fbd' (S n) (S n) ->
  LInv s1 (p_ioq s1) (S n) log -> FInv s1 (p_ioq s1) n D ->
  j_tail (job' n) = Some t ->
  ht_insert uncompress bs true st2 ca0
            {| ck_index := index; ck_offset := offset; ck_size := length t; ck_hash := chk |} t (p_ht st2)
  = Some (h, ca) ->
  length (w_file (p_wr st2)) = length (w_file (p_wr s1)) -> p_start st2 = p_start s1 ->
  p_ioq st2 = p_ioq s1 -> p_ht st2 = p_ht s1 -> p_frag st2 = p_frag s1 ->
  p_nfrag s1 <= p_nfrag st2 -> (forall i, i < p_nfrag s1 -> p_ftab st2 i = p_ftab s1 i) ->
  p_fragblk st2 = Some fb' -> fb_index fb' = index -> S index = p_nfrag st2 ->
  (dc_of n = true -> fb_dont_compress fb' = true) ->
  (forall idx, In idx D -> fb_index fb' = idx -> fb_dont_compress fb' = true) ->
  (forall fid' i' o' t', fid' < n -> p_frag s1 fid' = Some (i', o') -> j_tail (job' fid') = Some t' ->
                         i' < index \/ (i' = index /\ o' + length t' <= offset)) ->
  LInv (set_frag (set_cached (set_ht st2 h) ca) n index offset)
       (p_ioq (set_frag (set_cached (set_ht st2 h) ca) n index offset)) (S n) log /\
  FInv (set_frag (set_cached (set_ht st2 h) ca) n index offset)
       (p_ioq (set_frag (set_cached (set_ht st2 h) ca) n index offset)) (S n)
       (if dc_of n then index :: D else D).
Proof.
  intros HP' HL HF Ht EH A1 A2 A3 A4 A5 A6 A7 B1 B2 B3 B4 C1 D1.
  pose proof HP' as [_ _ _ _ Q5 _ _ _ _ _ _ _ _].
  cbn [p_ioq p_fragblk p_nfrag p_ftab set_frag set_cached set_ht] in Q5.
  destruct (Q5 fb' B1) as (_ & Q5b & _ & _ & Q5e).
  split.
  - eapply LInv_frame; [| | | | |exact HL]; cbn [p_wr p_start p_nfrag p_ftab p_ioq set_frag set_cached set_ht];
      try assumption. rewrite A3. reflexivity.
  - destruct HF as [F1 F2 F3 F4 F5 F6].
    constructor; cbn [p_fragblk p_nfrag p_ftab p_ht p_frag p_ioq set_frag set_cached set_ht].
    + intros fb C. rewrite B1 in C. inversion C; subst fb. rewrite B2. assumption.
    + intros idx Hi.
      assert (Hcase : In idx D \/ (dc_of n = true /\ idx = index)).
      { destruct (dc_of n); [destruct Hi as [<-|Hi]; [right; split; reflexivity|left; assumption]|left; assumption]. }
      destruct Hcase as [HiD|[Hdc ->]].
      * destruct (F2 idx HiD) as (H1 & H2 & H3 & H4). splits.
        -- lia.
        -- intros fb C Hx. rewrite B1 in C. inversion C; subst fb. apply (C1 idx); assumption.
        -- rewrite A3. assumption.
        -- rewrite A7 by assumption. assumption.
      * splits.
        -- lia.
        -- intros fb C Hx. rewrite B1 in C. inversion C; subst fb. apply B4. assumption.
        -- intros r pb Hin. exfalso. apply Q5e. rewrite B2. eapply in_qidxs. eassumption.
        -- left. rewrite B2 in Q5b. assumption.
    + intros fid i o Hf Hdc Hfr Hfresh. destruct (fid =? n) eqn:En.
      * apply Nat.eqb_eq in En. subst fid. inversion Hfr; subst i o. rewrite Hdc. left. reflexivity.
      * apply Nat.eqb_neq in En. rewrite A5 in Hfr.
        assert (In i D).
        { apply (F3 fid i o ltac:(lia) Hdc Hfr). intros fid' Hlt. specialize (Hfresh fid' Hlt).
          destruct (fid' =? n) eqn:En'; [apply Nat.eqb_eq in En'; lia|]. rewrite A5 in Hfresh. assumption. }
        destruct (dc_of n); [right|]; assumption.
    + intros c Hc. destruct (ht_insert_in _ _ _ _ _ _ _ _ _ EH c Hc) as [Hold| ->].
      * rewrite A4 in Hold. destruct (F4 c Hold) as (fid' & t' & G1 & G2 & G3 & G4).
        exists fid', t'. splits; [lia|assumption| |assumption].
        destruct (fid' =? n) eqn:En'; [apply Nat.eqb_eq in En'; lia|]. rewrite A5. assumption.
      * exists n, t. cbn [ck_index ck_offset ck_size]. rewrite Nat.eqb_refl. splits; try reflexivity; [lia|assumption].
    + intros fid i o Hf Hdd Hfr fid' i' o' t' Hlt Hfr' Ht'.
      destruct (fid' =? n) eqn:En'; [apply Nat.eqb_eq in En'; lia|]. rewrite A5 in Hfr'.
      destruct (fid =? n) eqn:En.
      * apply Nat.eqb_eq in En. subst fid. inversion Hfr; subst i o. eapply D1; eassumption.
      * apply Nat.eqb_neq in En. rewrite A5 in Hfr.
        eapply (F5 fid i o ltac:(lia) Hdd Hfr); eassumption.
    + intros fid fid' i o t0 t' Hf Hlt Hfr Hfr' Ht0 Ht'.
      destruct (fid' =? n) eqn:En'; [apply Nat.eqb_eq in En'; lia|]. rewrite A5 in Hfr'.
      destruct (fid =? n) eqn:En.
      * apply Nat.eqb_eq in En. subst fid. inversion Hfr; subst i o. exfalso.
        pose proof (tail_facts bs half Hbs Hhalf files fid' t' Ht') as Hpos.
        destruct (D1 fid' index offset t' Hlt Hfr' Ht') as [C|[_ C]]; lia.
      * apply Nat.eqb_neq in En. rewrite A5 in Hfr.
        eapply (F6 fid fid' i o t0 t' ltac:(lia) Hlt Hfr Hfr'); eassumption.
Qed.

Lemma x_new_block s1 n t h ca chk log D claims fbd claims' fbd' :
  p_fragblk s1 = None ->
  PInv' s1 (p_ioq s1) claims fbd (S n) n ->
  LInv s1 (p_ioq s1) (S n) log -> FInv s1 (p_ioq s1) n D ->
  j_tail (job' n) = Some t ->
  let st2 := set_fragblk (append_ftab s1)
               (Some {| fb_index := p_nfrag s1; fb_data := t; fb_dont_compress := dc_of n |}) in
  ht_insert uncompress bs true st2 (p_cached st2)
            {| ck_index := p_nfrag s1; ck_offset := 0; ck_size := length t; ck_hash := chk |} t (p_ht st2)
  = Some (h, ca) ->
  let st' := set_frag (set_cached (set_ht st2 h) ca) n (p_nfrag s1) 0 in
  PInv' st' (p_ioq st') claims' fbd' (S n) (S n) ->
  LInv st' (p_ioq st') (S n) log /\ exists D', FInv st' (p_ioq st') (S n) D'.
Proof.
  intros Hfb HP HL HF Ht st2 EH st' HP'.
  pose proof HP as [_ _ _ _ _ _ _ _ _ _ P11 _ _].
  pose proof HF as [F1 F2 _ _ _].
  destruct (x_place_core s1 st2 (p_nfrag s1) 0
              {| fb_index := p_nfrag s1; fb_data := t; fb_dont_compress := dc_of n |}
              n t h ca (p_cached st2) chk log D claims' fbd' HP' HL HF Ht EH) as [R1 R2];
    try reflexivity.
  - unfold st2. cbn. lia.
  - intros i Hi. unfold st2. cbn. destruct (i =? p_nfrag s1) eqn:E; [apply Nat.eqb_eq in E; lia|reflexivity].
  - intro H. exact H.
  - intros idx Hi Hx. cbn in Hx. destruct (F2 idx Hi) as (H1 & _). lia.
  - intros fid' i' o' t' Hlt Hfr Ht'. left. destruct (P11 fid' i' o' Hfr) as (_ & t'' & _ & Hi' & _). assumption.
  - split; [exact R1|]. eexists. exact R2.
Qed.

Lemma x_append s1 fb n t h ca chk log D claims fbd claims' fbd' :
  p_fragblk s1 = Some fb ->
  PInv' s1 (p_ioq s1) claims fbd (S n) n ->
  LInv s1 (p_ioq s1) (S n) log -> FInv s1 (p_ioq s1) n D ->
  j_tail (job' n) = Some t ->
  let st2 := set_fragblk s1
               (Some {| fb_index := fb_index fb; fb_data := fb_data fb ++ t;
                        fb_dont_compress := fb_dont_compress fb || dc_of n |}) in
  ht_insert uncompress bs true st2 (p_cached st2)
            {| ck_index := fb_index fb; ck_offset := length (fb_data fb); ck_size := length t; ck_hash := chk |}
            t (p_ht st2)
  = Some (h, ca) ->
  let st' := set_frag (set_cached (set_ht st2 h) ca) n (fb_index fb) (length (fb_data fb)) in
  PInv' st' (p_ioq st') claims' fbd' (S n) (S n) ->
  LInv st' (p_ioq st') (S n) log /\ exists D', FInv st' (p_ioq st') (S n) D'.
Proof.
  intros Hfb HP HL HF Ht st2 EH st' HP'.
  pose proof HP as [_ _ _ _ P5 _ _ _ _ _ P11 _ _].
  pose proof HF as [F1 F2 _ _ _].
  destruct (P5 fb Hfb) as (C1 & C2 & C3 & C4 & C5).
  destruct (x_place_core s1 st2 (fb_index fb) (length (fb_data fb))
              {| fb_index := fb_index fb; fb_data := fb_data fb ++ t;
                 fb_dont_compress := fb_dont_compress fb || dc_of n |}
              n t h ca (p_cached st2) chk log D claims' fbd' HP' HL HF Ht EH) as [R1 R2];
    try reflexivity.
  - cbn. apply F1. assumption.
  - intro H. cbn. rewrite H. apply orb_true_r.
  - intros idx Hi Hx. cbn in Hx. cbn. destruct (F2 idx Hi) as (_ & H2 & _). rewrite (H2 fb Hfb Hx). reflexivity.
  - intros fid' i' o' t' Hlt Hfr Ht'.
    destruct (P11 fid' i' o' Hfr) as (_ & t'' & Ht'' & Hi' & Hb' & _).
    rewrite Ht' in Ht''. inversion Ht''; subst t''.
    pose proof (F1 fb Hfb) as Hl.
    destruct (Nat.eq_dec i' (fb_index fb)) as [->|Hne]; [|left; lia].
    right. split; [reflexivity|]. rewrite C3 in Hb'. assumption.
  - split; [exact R1|]. eexists. exact R2.
Qed.

Lemma x_store st claims fbd n t chk log D st' :
  PInv' st (p_ioq st) claims fbd (S n) n ->
  LInv st (p_ioq st) (S n) log -> FInv st (p_ioq st) n D ->
  j_tail (job' n) = Some t -> tail_sparse bs files n t = false ->
  store_fragment hashf compress uncompress bs true st n (j_fl (job' n)) t chk = Ok st' ->
  LInv st' (p_ioq st') (S n) log /\ exists D', FInv st' (p_ioq st') (S n) D'.
Proof.
  intros HP HL HF Ht Hts E.
  destruct (store_inv hashf compress uncompress bs half base Hbs Hsmall Hhalf files st claims fbd n t chk HP Ht Hts)
    as (st'' & fbd' & E'' & HP' & _).
  rewrite E in E''. inversion E''; subst st''. clear E''.
  unfold store_fragment in E.
  destruct (p_fragblk st) as [fb|] eqn:Efb.
  - destruct (bs <? length (fb_data fb) + length t) eqn:Eo.
    + (* the block being filled is flushed first *)
      destruct (enqueue_inv hashf compress uncompress bs base files st claims fbd (S n) n fb HP Efb) as (HP1 & Hn1 & _).
      destruct (x_enqueue st (S n) n log D fb HL HF Efb) as [HL1 HF1].
      set (s1 := enqueue_fragblk hashf compress true st fb) in *.
      rewrite Hn1 in E.
      cbv beta iota zeta in E.
      match type of E with
      | match ?hi with Some _ => _ | None => _ end = _ => destruct hi as [[h ca]|] eqn:EH; [|discriminate]
      end.
      inversion E; subst st'.
      eapply (x_new_block s1 n t h ca chk log D claims fbd claims fbd' Hn1 HP1 HL1 HF1 Ht EH). exact HP'.
    + rewrite Efb in E. cbv beta iota zeta in E.
      match type of E with
      | match ?hi with Some _ => _ | None => _ end = _ => destruct hi as [[h ca]|] eqn:EH; [|discriminate]
      end.
      inversion E; subst st'.
      eapply (x_append st fb n t h ca chk log D claims fbd claims fbd' Efb HP HL HF Ht EH). exact HP'.
  - rewrite Efb in E. cbv beta iota zeta in E.
    match type of E with
    | match ?hi with Some _ => _ | None => _ end = _ => destruct hi as [[h ca]|] eqn:EH; [|discriminate]
    end.
    inversion E; subst st'.
    eapply (x_new_block st n t h ca chk log D claims fbd claims fbd' Efb HP HL HF Ht EH). exact HP'.
Qed.


(* ---- process_completed_fragment ---- *)

Lemma FInv_next st q n D : FInv st q n D -> p_frag st n = None -> FInv st q (S n) D.
Proof.
  intros [F1 F2 F3 F4 F5 F6] Hn. constructor; try assumption.
  - intros fid i o Hf Hdc Hfr. destruct (Nat.eq_dec fid n) as [->|Hne]; [congruence|].
    apply (F3 fid i o ltac:(lia) Hdc Hfr).
  - intros c Hc. destruct (F4 c Hc) as (fid' & t' & G1 & G2). exists fid', t'. split; [lia|assumption].
  - intros fid i o Hf Hdd Hfr. destruct (Nat.eq_dec fid n) as [->|Hne]; [congruence|].
    apply (F5 fid i o ltac:(lia) Hdd Hfr).
  - intros fid fid' i o t t' Hf Hlt Hfr. destruct (Nat.eq_dec fid n) as [->|Hne]; [congruence|].
    apply (F6 fid fid' i o t t' ltac:(lia) Hlt Hfr).
Qed.

Lemma frag_none_beyond st q claims fbd nb nt fid :
  PInv' st q claims fbd nb nt -> nt <= fid -> p_frag st fid = None.
Proof.
  intros [_ _ _ _ _ _ _ _ _ _ P11 _ _] H.
  destruct (p_frag st fid) as [[i o]|] eqn:E; [|reflexivity].
  destruct (P11 fid i o E) as [C _]. lia.
Qed.

Lemma x_process_fragment st claims fbd n t log D st' :
  PInv' st (p_ioq st) claims fbd (S n) n ->
  LInv st (p_ioq st) (S n) log -> FInv st (p_ioq st) n D ->
  j_tail (job' n) = Some t ->
  process_fragment hashf compress uncompress bs true st n (length (j_blocks (job' n)) - 1) (j_fl (job' n)) t = Ok st' ->
  LInv st' (p_ioq st') (S n) log /\ exists D', FInv st' (p_ioq st') (S n) D'.
Proof.
  intros HP HL HF Ht E.
  pose proof (tail_facts bs half Hbs Hhalf files n t Ht) as Htl.
  assert (Htne : t <> []) by (intro; subst; simpl in Htl; lia).
  pose proof (frag_none_beyond _ _ _ _ _ _ n HP (le_n n)) as Hnone.
  unfold process_fragment in E.
  rewrite (work_sparse_iff hashf compress) in E by assumption.
  destruct (negb (uf_ignore_sparse (j_fl (job' n))) && all_zero t) eqn:Hts.
  - (* an all-zero tail end is recorded as a hole *)
    inversion E; subst st'. cbn [p_ioq set_size]. split.
    + eapply LInv_frame; [| | | | |exact HL]; try reflexivity; try lia.
    + exists D. apply FInv_next; [|exact Hnone].
      eapply FInv_frame; [| | | | | |exact HF]; try reflexivity. apply sub_refl.
  - rewrite (work_frag_raw hashf compress) in E by assumption. cbn [pb_chk] in E.
    set (chk := if uf_dont_hash (j_fl (job' n)) then 0%N else hashf t) in *.
    destruct (uf_dont_dedup (j_fl (job' n))) eqn:Edd.
    + eapply x_store; eassumption.
    + pose proof HP as [P1 P2 P3 P4 P5 P6 P7 P8 P9 P10 P11 P12 P13].
      pose proof (ht_search_ok hashf compress uncompress bs half base Hbs Hsmall Hhalf files st _ _ _ _ _
                               chk t (p_ht st) (p_cached st) HP P9 (incl_refl _)) as HS.
      destruct (ht_search uncompress bs true st (p_cached st) (length t) chk t (p_ht st)) as [c ca|ca|] eqn:ES;
        [| |contradiction].
      * (* deduplicated against an earlier fragment *)
        destruct HS as (Hin & (SB1 & SB2 & SB3) & _). inversion E; subst st'. cbn [p_ioq set_frag set_cached]. split.
        -- eapply LInv_frame; [| | | | |exact HL]; try reflexivity; try lia.
        -- exists D. destruct HF as [F1 F2 F3 F4 F5 F6].
           destruct (F4 c Hin) as (fid0 & t0 & G1 & G2 & G3 & G4).
           constructor; cbn [p_fragblk p_nfrag p_ftab p_ht p_frag set_frag set_cached]; try assumption.
           ++ intros fid i o Hf Hdc Hfr Hfresh. destruct (fid =? n) eqn:En.
              ** apply Nat.eqb_eq in En. subst fid. inversion Hfr; subst i o. exfalso.
                 apply (Hfresh fid0 G1). destruct (fid0 =? n) eqn:E0; [apply Nat.eqb_eq in E0; lia|assumption].
              ** apply Nat.eqb_neq in En. apply (F3 fid i o ltac:(lia) Hdc Hfr).
                 intros fid' Hlt. specialize (Hfresh fid' Hlt).
                 destruct (fid' =? n) eqn:E0; [apply Nat.eqb_eq in E0; lia|assumption].
           ++ intros c' Hc'. destruct (F4 c' Hc') as (fid' & t' & H1 & H2 & H3 & H4).
              exists fid', t'. splits; [lia|assumption| |assumption].
              destruct (fid' =? n) eqn:E0; [apply Nat.eqb_eq in E0; lia|assumption].
           ++ intros fid i o Hf Hdd Hfr fid' i' o' t' Hlt Hfr' Ht'.
              destruct (fid' =? n) eqn:E0; [apply Nat.eqb_eq in E0; lia|].
              destruct (fid =? n) eqn:En.
              ** apply Nat.eqb_eq in En. subst fid. unfold dd_of, fl_of in Hdd. congruence.
              ** apply Nat.eqb_neq in En. eapply (F5 fid i o ltac:(lia) Hdd Hfr); eassumption.
           ++ intros fid fid' i o t1 t' Hf Hlt Hfr Hfr' Ht1 Ht'.
              destruct (fid' =? n) eqn:E0; [apply Nat.eqb_eq in E0; lia|].
              destruct (fid =? n) eqn:En.
              ** apply Nat.eqb_eq in En. subst fid. inversion Hfr; subst i o.
                 rewrite Ht in Ht1. inversion Ht1; subst t1.
                 (* the owner of the chunk and fid' have the same tail end; its size is the chunk's *)
                 assert (Et0 : t' = t0).
                 { destruct (Nat.lt_trichotomy fid0 fid') as [Hc|[Hc|Hc]].
                   - symmetry. eapply (F6 fid' fid0 _ _ t' t0 ltac:(lia) Hc Hfr' G3); eassumption.
                   - subst fid0. congruence.
                   - eapply (F6 fid0 fid' _ _ t0 t' ltac:(lia) Hc G3 Hfr'); eassumption. }
                 subst t0.
                 destruct (P11 fid' _ _ Hfr') as (_ & t'' & Ht'' & _ & _ & Hsl).
                 rewrite Ht' in Ht''. inversion Ht''; subst t''.
                 rewrite <- Hsl, <- G4. exact SB3.
              ** apply Nat.eqb_neq in En. eapply (F6 fid fid' i o t1 t' ltac:(lia) Hlt Hfr Hfr'); eassumption.
      * destruct HS as (Hca & _).
        eapply (x_store (set_cached st ca) claims fbd n t chk log D st').
        -- apply PInv_set_cached; assumption.
        -- eapply LInv_frame; [| | | | |exact HL]; try reflexivity; try lia.
        -- eapply FInv_frame; [| | | | | |exact HF]; try reflexivity. apply sub_refl.
        -- assumption.
        -- exact Hts.
        -- exact E.
Qed.

(* ---- the steps ---- *)

Lemma x_step_file st claims fbd n log D :
  PInv' st (p_ioq st) claims fbd n n -> LInv st (p_ioq st) n log -> FInv st (p_ioq st) n D ->
  exists st' claims' fbd' ext D',
    step_file hashf compress uncompress bs false true half st n (job' n) = Ok st' /\
    PInv' st' (p_ioq st') claims' fbd' (S n) (S n) /\
    LInv st' (p_ioq st') (S n) (ext ++ log) /\ FInv st' (p_ioq st') (S n) D'.
Proof.
  intros HP HL HF. unfold step_file, drain.
  destruct (x_drain_q fbd n n D _ _ _ _ HP HL HF) as (st1 & claims1 & ext1 & E1 & HP1 & HL1 & HF1 & _).
  rewrite E1.
  destruct (push_inv hashf compress uncompress bs half base Hbs Hhalf files st1 claims1 fbd n HP1) as [HP2 _].
  destruct (x_push st1 claims1 fbd n _ D HP1 HL1 HF1) as [HL2 HF2]. cbv zeta in HP2, HL2, HF2.
  match goal with |- context [drain_q false half (p_ioq ?s) ?s] => set (st2 := s) in * end.
  destruct (x_drain_q fbd (S n) n D _ _ _ _ HP2 HL2 HF2) as (st3 & claims3 & ext3 & E3 & HP3 & HL3 & HF3 & _).
  rewrite E3.
  destruct (j_tail (job' n)) as [t|] eqn:Et.
  - destruct (process_fragment_inv hashf compress uncompress bs half base Hbs Hsmall Hhalf files st3 claims3 fbd n t
                                   HP3 Et) as (st' & fbd' & E & HP' & _).
    destruct (x_process_fragment st3 claims3 fbd n t _ D st' HP3 HL3 HF3 Et E) as [HL' [D' HF']].
    exists st', claims3, fbd', (ext3 ++ ext1), D'. split; [exact E|]. split; [exact HP'|].
    split; [rewrite <- app_assoc; exact HL'|exact HF'].
  - exists st3, claims3, fbd, (ext3 ++ ext1), D. split; [reflexivity|].
    split; [apply (PInv_no_tail hashf compress uncompress bs half base Hbs Hhalf); assumption|].
    split; [rewrite <- app_assoc; exact HL3|].
    apply FInv_next; [assumption|]. eapply frag_none_beyond; [exact HP3|lia].
Qed.

Lemma x_step_fragdone st claims fbd n log D :
  PInv' st (p_ioq st) claims fbd n n -> LInv st (p_ioq st) n log -> FInv st (p_ioq st) n D ->
  exists st' claims' ext,
    step_fragdone false half st = Ok st' /\
    PInv' st' (p_ioq st') claims' fbd n n /\ LInv st' (p_ioq st') n (ext ++ log) /\ FInv st' (p_ioq st') n D.
Proof.
  intros HP HL HF. unfold step_fragdone, drain.
  destruct (x_drain_q fbd n n D _ _ _ _ HP HL HF) as (st1 & claims1 & ext1 & E1 & HP1 & HL1 & HF1 & _).
  rewrite E1. eexists _, claims1, ext1. split; [reflexivity|]. cbn [p_ioq set_ioq]. split.
  - apply (PInv_requeue hashf compress uncompress bs base files st1 (p_ioq st1));
      [apply qfids_mark_first|apply qidxs_mark_first| |assumption].
    apply Forall_QOk_mark_first. destruct HP1. assumption.
  - split.
    + eapply LInv_frame; [| | | | |exact HL1]; try reflexivity; try lia. apply qfids_mark_first.
    + eapply FInv_frame; [| | | | | |exact HF1]; try reflexivity. intros r idx pb. apply in_mark_first.
Qed.

Lemma x_fragdone_n n D : forall k st claims fbd log,
  PInv' st (p_ioq st) claims fbd n n -> LInv st (p_ioq st) n log -> FInv st (p_ioq st) n D ->
  exists st' claims' ext,
    fragdone_n false half k st = Ok st' /\
    PInv' st' (p_ioq st') claims' fbd n n /\ LInv st' (p_ioq st') n (ext ++ log) /\ FInv st' (p_ioq st') n D.
Proof.
  induction k as [|k IH]; intros st claims fbd log HP HL HF.
  - exists st, claims, []. splits; try assumption. reflexivity.
  - cbn [fragdone_n].
    destruct (x_step_fragdone st claims fbd n log D HP HL HF) as (st1 & claims1 & ext1 & E1 & HP1 & HL1 & HF1).
    rewrite E1. destruct (IH st1 claims1 fbd _ HP1 HL1 HF1) as (st' & claims' & ext & E' & HP' & HL' & HF').
    exists st', claims', (ext ++ ext1). splits; try assumption. rewrite <- app_assoc. assumption.
Qed.

Lemma x_sync st claims fbd n log D :
  PInv' st (p_ioq st) claims fbd n n -> LInv st (p_ioq st) n log -> FInv st (p_ioq st) n D ->
  exists st' claims' ext,
    sync false half st = Ok st' /\ PInv' st' [] claims' fbd n n /\ p_ioq st' = [] /\
    LInv st' [] n (ext ++ log) /\ FInv st' [] n D /\ p_fragblk st' = p_fragblk st.
Proof.
  intros HP HL HF. unfold sync, drain. cbn [p_ioq set_ioq].
  assert (HP0 : PInv' (set_ioq st (mark_all_ready (p_ioq st))) (mark_all_ready (p_ioq st)) claims fbd n n).
  { apply (PInv_requeue hashf compress uncompress bs base files st (p_ioq st));
      [apply qfids_mark_all|apply qidxs_mark_all| |assumption].
    apply Forall_QOk_mark_all. destruct HP. assumption. }
  assert (HL0 : LInv (set_ioq st (mark_all_ready (p_ioq st))) (mark_all_ready (p_ioq st)) n log).
  { eapply LInv_frame; [| | | | |exact HL]; try reflexivity; try lia. apply qfids_mark_all. }
  assert (HF0 : FInv (set_ioq st (mark_all_ready (p_ioq st))) (mark_all_ready (p_ioq st)) n D).
  { eapply FInv_frame; [| | | | | |exact HF]; try reflexivity. intros r idx pb. apply in_mark_all. }
  destruct (x_drain_q fbd n n D _ _ _ _ HP0 HL0 HF0) as (st1 & claims1 & ext1 & E1 & HP1 & HL1 & HF1 & _ & _ & B1 & _).
  exists st1, claims1, ext1. split; [exact E1|].
  pose proof (drain_q_all_ready _ _ _ _ (mark_all_is_ready _) E1) as Eq.
  rewrite Eq in HP1, HL1, HF1. splits; assumption.
Qed.

Lemma x_finish st claims fbd n log D :
  PInv' st (p_ioq st) claims fbd n n -> LInv st (p_ioq st) n log -> FInv st (p_ioq st) n D ->
  exists st' claims' ext,
    finish hashf compress false true half st = Ok st' /\
    PInv' st' [] claims' fbd n n /\ p_fragblk st' = None /\
    LInv st' [] n (ext ++ log) /\ FInv st' [] n D.
Proof.
  intros HP HL HF. unfold finish.
  destruct (x_sync st claims fbd n log D HP HL HF) as (st1 & claims1 & ext1 & E1 & HP1 & Q1 & HL1 & HF1 & B1).
  rewrite E1. destruct (p_fragblk st1) as [fb|] eqn:Efb.
  - assert (HP1' : PInv' st1 (p_ioq st1) claims1 fbd n n) by (rewrite Q1; assumption).
    assert (HL1' : LInv st1 (p_ioq st1) n (ext1 ++ log)) by (rewrite Q1; assumption).
    assert (HF1' : FInv st1 (p_ioq st1) n D) by (rewrite Q1; assumption).
    destruct (enqueue_inv hashf compress uncompress bs base files st1 claims1 fbd n n fb HP1' Efb) as (HP2 & B2 & _).
    destruct (x_enqueue st1 n n _ D fb HL1' HF1' Efb) as [HL2 HF2].
    destruct (x_sync _ _ _ _ _ _ HP2 HL2 HF2) as (st3 & claims3 & ext3 & E3 & HP3 & Q3 & HL3 & HF3 & B3).
    exists st3, claims3, (ext3 ++ ext1). split; [exact E3|]. split; [exact HP3|].
    split; [congruence|]. split; [rewrite <- app_assoc; exact HL3|exact HF3].
  - exists st1, claims1, ext1. splits; try assumption. reflexivity.
Qed.

Lemma x_run_files : forall rest sched n st claims fbd log D,
  (exists m, rest = firstn m (skipn n (jobs bs files))) ->
  PInv' st (p_ioq st) claims fbd n n -> LInv st (p_ioq st) n log -> FInv st (p_ioq st) n D ->
  exists st' claims' fbd' ext D',
    run_files hashf compress uncompress bs false true half rest sched n st = Ok st' /\
    PInv' st' (p_ioq st') claims' fbd' (n + length rest) (n + length rest) /\
    LInv st' (p_ioq st') (n + length rest) (ext ++ log) /\ FInv st' (p_ioq st') (n + length rest) D'.
Proof.
  induction rest as [|j rest IH]; intros sched n st claims fbd log D [m Hr] HP HL HF.
  - exists st, claims, fbd, [], D. split; [reflexivity|]. simpl. rewrite Nat.add_0_r. splits; assumption.
  - destruct m as [|m]; [discriminate|].
    destruct (skipn n (jobs bs files)) as [|j0 tl0] eqn:Es; [discriminate|].
    simpl in Hr. injection Hr as Hj0 Hrest. subst j0.
    destruct (skipn_nth_cons (jobs bs files) n j tl0 dflt_job Es) as [Hj Hr'].
    fold (job' n) in Hj. subst j. cbn [run_files].
    destruct (x_fragdone_n n D (hd 0 sched) st claims fbd log HP HL HF) as (st1 & claims1 & ext1 & E1 & HP1 & HL1 & HF1).
    rewrite E1.
    destruct (x_step_file st1 claims1 fbd n _ D HP1 HL1 HF1) as (st2 & claims2 & fbd2 & ext2 & D2 & E2 & HP2 & HL2 & HF2).
    rewrite E2.
    destruct (IH (tl sched) (S n) st2 claims2 fbd2 (ext2 ++ ext1 ++ log) D2) as (st' & claims' & fbd' & ext & D' & E' & HP' & HL' & HF');
      [exists m; rewrite Hr'; exact Hrest|exact HP2|exact HL2|exact HF2|].
    exists st', claims', fbd', (ext ++ ext2 ++ ext1), D'. split; [exact E'|].
    replace (n + length (job' n :: rest)) with (S n + length rest) by (simpl; lia).
    split; [exact HP'|]. split; [|exact HF']. rewrite <- !app_assoc. exact HL'.
Qed.

Lemma x_init file0 : base = length file0 ->
  LInv (init_proc file0) [] 0 [] /\ FInv (init_proc file0) [] 0 [].
Proof.
  intro Hb. split.
  - constructor; simpl; try (constructor; fail); try (intros; contradiction); try lia; try (intros; lia).
  - constructor; simpl; try (intros; contradiction); try (intros; discriminate); try (intros; lia).
Qed.

Theorem x_pack file0 sched : base = length file0 ->
  exists st claims fbd log D,
    pack hashf compress uncompress bs false true half file0 files sched = Ok st /\
    PInv' st [] claims fbd (length files) (length files) /\ p_fragblk st = None /\
    LInv st [] (length files) log /\ FInv st [] (length files) D.
Proof.
  intro Hb. unfold pack. fold (jobs bs files).
  destruct (x_init file0 Hb) as [HL0 HF0].
  destruct (x_run_files (jobs bs files) sched 0 (init_proc file0) [(0, file0)] (fun _ => []) [] [])
    as (st1 & claims1 & fbd1 & ext1 & D1 & E1 & HP1 & HL1 & HF1).
  { exists (length (jobs bs files)). simpl. symmetry. apply firstn_all. }
  { apply (init_inv hashf compress uncompress bs half base Hbs Hhalf files file0 Hb). }
  { exact HL0. }
  { exact HF0. }
  rewrite E1.
  assert (Hl : 0 + length (jobs bs files) = length files) by (unfold jobs; rewrite map_length; reflexivity).
  rewrite Hl in HP1, HL1, HF1.
  destruct (x_finish st1 claims1 fbd1 (length files) _ D1 HP1 HL1 HF1) as (st2 & claims2 & ext2 & E2 & HP2 & B2 & HL2 & HF2).
  exists st2, claims2, fbd1, (ext2 ++ ext1 ++ []), D1. splits; assumption.
Qed.

End XPipe.
