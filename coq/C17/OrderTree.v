(* C17 — the file list of a tree built by fstree_add_generic (or by the directory scan) from clean paths: its entries are
   pairwise distinct and consist of clean components.  With OrderPaths.v: every node of fs->files has a canonical path,
   and the canonical paths are pairwise distinct - stated on the INPUT of the packer ([ops_clean] resp. a host directory
   whose names are clean), not assumed about the list. *)
From Coq Require Import List NArith ZArith Bool Lia.
From SqfsV Require Import C11.StrOrder C11.FstreeModel C11.PostModel C11.ScanModel C11.TreeProofs C11.PostProofs.
From SqfsV Require Import ImgPost.Bridge ImgPost.TreeInv ImgPost.ResolveInv ImgPost.AllocInv ImgPost.StructInv.
From SqfsV Require Import ImgScan.ScanLinks ImgScan.ScanAdds.
From SqfsV Require ImgScan.PackModel.
Import ListNotations.
Local Open Scope N_scope.

(* every node below the root has a clean name *)
Inductive ctree : tnode -> Prop :=
| ct_node nm a ch : Forall (fun c => cleancb (node_name c) = true) ch -> Forall ctree ch -> ctree (TNode nm a ch).

Lemma ctree_inv nm a ch : ctree (TNode nm a ch) ->
  Forall (fun c => cleancb (node_name c) = true) ch /\ Forall ctree ch.
Proof. intro H. inversion H; subst. tauto. Qed.

(* ---- fstree_add_generic ---- *)
Lemma mknode_ctree nm e x n : mknode nm e x = Some n -> ctree n /\ node_name n = nm.
Proof.
  unfold mknode.
  destruct (if e_hard e then match x with Some x0 => canon_comps x0 | None => None end else Some []); [|discriminate].
  intro H. injection H as <-. split; [|reflexivity]. constructor; constructor.
Qed.

Lemma implicit_dir_ctree d nm : ctree (implicit_dir d nm).
Proof. unfold implicit_dir. constructor; constructor. Qed.

Lemma fill_dir_ctree c e c' : ctree c -> fill_dir c e = Some c' -> ctree c' /\ node_name c' = node_name c.
Proof.
  destruct c as [nm a ch]. unfold fill_dir.
  destruct (ftype_eqb (a_type a) FDir && ftype_eqb (e_type e) FDir && a_implicit a); [|discriminate].
  intros W H. injection H as <-. destruct (ctree_inv _ _ _ W) as (W1 & W2).
  split; [|reflexivity]. constructor; assumption.
Qed.

Lemma ctree_insert nm a a' ch x :
  ctree (TNode nm a ch) -> ctree x -> cleancb (node_name x) = true -> ctree (TNode nm a' (insert_sorted x ch)).
Proof.
  intros W Wx Cx. destruct (ctree_inv _ _ _ W) as (W1 & W2).
  constructor; apply insert_sorted_Forall; assumption.
Qed.

Lemma ctree_replace nm a ch c x x' :
  ctree (TNode nm a ch) -> find_child c ch = Some x -> ctree x' -> node_name x' = node_name x ->
  ctree (TNode nm a (replace_child c x' ch)).
Proof.
  intros W F Wx Nx. destruct (ctree_inv _ _ _ W) as (W1 & W2).
  assert (Cx : cleancb (node_name x) = true).
  { rewrite Forall_forall in W1. apply W1. eapply find_child_in; eauto. }
  constructor; apply replace_child_Forall; try assumption. rewrite Nx. exact Cx.
Qed.

Lemma add_path_ctree d : forall comps e x n n',
  ctree n -> cleanp comps -> add_path d comps e x n = Some n' -> ctree n' /\ node_name n' = node_name n.
Proof.
  induction comps as [|c rest IH]; intros e x n n' W Hc H; destruct n as [nm a ch]; cbn [add_path] in H.
  - destruct (negb (ftype_eqb (a_type a) FDir)); discriminate.
  - destruct (negb (ftype_eqb (a_type a) FDir)); [discriminate|].
    destruct (ctree_inv _ _ _ W) as (W1 & W2).
    inversion Hc as [|? ? Cc Crest]; subst.
    destruct rest as [|c2 rest'].
    + destruct (find_child c ch) as [y|] eqn:F.
      * destruct (fill_dir y e) as [y'|] eqn:FD; [|discriminate]. injection H as <-.
        assert (Wy : ctree y) by (rewrite Forall_forall in W2; apply W2; eapply find_child_in; eauto).
        destruct (fill_dir_ctree y e y' Wy FD) as (Wy' & Ny').
        split; [|reflexivity]. eapply ctree_replace; eauto.
      * destruct (mknode c e x) as [y|] eqn:MK; [|discriminate]. injection H as <-.
        destruct (mknode_ctree c e x y MK) as [Wy Ny].
        split; [|reflexivity]. apply (ctree_insert nm a); auto. rewrite Ny. exact Cc.
    + destruct (find_child c ch) as [y|] eqn:F.
      * destruct (add_path d (c2 :: rest') e x y) as [y'|] eqn:AP; [|discriminate]. injection H as <-.
        assert (Wy : ctree y) by (rewrite Forall_forall in W2; apply W2; eapply find_child_in; eauto).
        destruct (IH e x y y' Wy Crest AP) as [Wy' Ny'].
        split; [|reflexivity]. eapply ctree_replace; eauto.
      * destruct (add_path d (c2 :: rest') e x (implicit_dir d c)) as [y'|] eqn:AP; [|discriminate]. injection H as <-.
        destruct (IH e x _ y' (implicit_dir_ctree d c) Crest AP) as [Wy' Ny'].
        cbn [implicit_dir node_name] in Ny'.
        split; [|reflexivity]. apply (ctree_insert nm a); auto. rewrite Ny'. exact Cc.
Qed.

Lemma fs_add_ctree d fs e x fs' :
  ctree (fs_root fs) -> cleanp (e_path e) -> fs_add d fs e x = Some fs' -> ctree (fs_root fs').
Proof.
  intros W Hc H. unfold fs_add in H.
  destruct (add_generic d (fs_root fs) e x) as [r|] eqn:A; [|discriminate]. injection H as <-. cbn [fs_root].
  unfold add_generic in A.
  destruct (ftype_eqb (e_type e) FLnk && match x with None => true | Some _ => false end); [discriminate|].
  destruct (e_path e) as [|c p].
  - eapply fill_dir_ctree; eauto.
  - eapply add_path_ctree; eauto.
Qed.

Lemma init_ctree d : ctree (fs_root (fs_init d)).
Proof. unfold fs_init. cbn [fs_root]. constructor; constructor. Qed.

(* the add operations name clean paths *)
Definition ops_clean (ops : list op) : Prop := Forall (fun o : op => cleanp (e_path (fst o))) ops.

Lemma run_adds_ctree d : forall ops fs fs',
  ctree (fs_root fs) -> ops_clean ops -> run_adds d fs ops = Some fs' -> ctree (fs_root fs').
Proof.
  induction ops as [|[e x] r IH]; intros fs fs' W Hc H; cbn [run_adds] in H.
  - injection H as <-. exact W.
  - inversion Hc as [|? ? Hc1 Hc2]; subst. cbn [fst] in Hc1.
    destruct (fs_add d fs e x) as [fs1|] eqn:A; [|discriminate].
    apply (IH fs1 fs'); [eapply fs_add_ctree; eauto|exact Hc2|exact H].
Qed.

(* ---- fstree_post_process keeps the names ---- *)
Lemma ctree_decorate st : forall n pp, ctree n -> ctree (decorate st pp n).
Proof.
  induction n as [nm a ch IH] using tnode_ind'. intros pp W. destruct (ctree_inv _ _ _ W) as (W1 & W2).
  cbn [decorate]. constructor.
  - apply Forall_map. eapply Forall_impl; [|exact W1]. intros c Hc. cbv beta. rewrite decorate_name. exact Hc.
  - apply Forall_map. rewrite Forall_forall in *. intros c Hc. apply IH; [exact Hc|apply W2; exact Hc].
Qed.

(* ---- file_list_dfs ---- *)
Lemma file_list_unfold pp nm a ch :
  file_list pp (TNode nm a ch) =
  if ftype_eqb (a_type a) FReg then [pp]
  else if ftype_eqb (a_type a) FDir then flat_map (fun c => file_list (pp ++ [node_name c]) c) ch
  else [].
Proof.
  cbn [file_list]. destruct (ftype_eqb (a_type a) FReg); [reflexivity|].
  destruct (ftype_eqb (a_type a) FDir); [|reflexivity].
  induction ch as [|c r IH]; [reflexivity|]. cbn [flat_map]. rewrite <- IH. reflexivity.
Qed.

Lemma file_list_pfx : forall n pp q, In q (file_list pp n) -> pfx pp q.
Proof.
  induction n as [nm a ch IH] using tnode_ind'. intros pp q H. rewrite file_list_unfold in H.
  destruct (ftype_eqb (a_type a) FReg).
  - destruct H as [<-|[]]. apply pfx_refl.
  - destruct (ftype_eqb (a_type a) FDir); [|destruct H].
    apply in_flat_map in H. destruct H as (c & Hc & Hq).
    rewrite Forall_forall in IH. destruct (IH c Hc _ _ Hq) as (r & ->).
    exists ([node_name c] ++ r). rewrite app_assoc. reflexivity.
Qed.

Lemma file_list_clean : forall n pp, ctree n -> cleanp pp -> Forall cleanp (file_list pp n).
Proof.
  induction n as [nm a ch IH] using tnode_ind'. intros pp W Hp. rewrite file_list_unfold.
  destruct (ctree_inv _ _ _ W) as (W1 & W2).
  destruct (ftype_eqb (a_type a) FReg); [constructor; [exact Hp|constructor]|].
  destruct (ftype_eqb (a_type a) FDir); [|constructor].
  apply Forall_forall. intros q Hq. apply in_flat_map in Hq. destruct Hq as (c & Hc & Hq).
  rewrite Forall_forall in IH, W1, W2.
  assert (H : Forall cleanp (file_list (pp ++ [node_name c]) c)).
  { apply IH; [exact Hc|apply W2; exact Hc|].
    unfold cleanp. apply Forall_app. split; [exact Hp|constructor; [apply W1; exact Hc|constructor]]. }
  rewrite Forall_forall in H. apply H. exact Hq.
Qed.

Lemma file_list_nodup : forall n pp, snames n -> NoDup (file_list pp n).
Proof.
  induction n as [nm a ch IH] using tnode_ind'. intros pp S. rewrite file_list_unfold.
  destruct (snames_inv _ _ _ S) as (S1 & S2).
  destruct (ftype_eqb (a_type a) FReg); [constructor; [intros []|constructor]|].
  destruct (ftype_eqb (a_type a) FDir); [|constructor].
  pose proof (sorted_names_nodup _ S1) as Nd. clear S1 S.
  induction ch as [|c r IHr]; [constructor|].
  inversion IH as [|? ? IHc IHrest]; subst. inversion S2 as [|? ? Sc Sr]; subst.
  cbn [map] in Nd. inversion Nd as [|? ? Nc Nr]; subst.
  cbn [flat_map]. apply NoDup_app_intro.
  - apply IHc. exact Sc.
  - apply IHr; assumption.
  - intros q H1 H2. apply in_flat_map in H2. destruct H2 as (c' & Hc' & H2).
    destruct (file_list_pfx _ _ _ H1) as (r1 & E1). destruct (file_list_pfx _ _ _ H2) as (r2 & E2).
    rewrite E1 in E2. rewrite <- !app_assoc in E2. apply app_inv_head in E2. cbn in E2. injection E2 as E _.
    apply Nc. rewrite E. apply in_map. exact Hc'.
Qed.

(* ---- what the proofs of the order theorem need to know about fs->files ---- *)
Definition files_ok (pp : ppout) : Prop := NoDup (pp_files pp) /\ Forall cleanp (pp_files pp).

Lemma post_process_files fs pp : post_process fs = POk pp ->
  exists st, pp_root pp = decorate st [] (fs_root fs) /\ pp_files pp = file_list [] (pp_root pp).
Proof.
  unfold post_process. destruct (resolve_all (fs_root fs) (fs_unres fs) (mkRs [] [])) as [st| |]; try discriminate.
  destruct (reorder_loop _ _ _ _) as [arr'|]; [|discriminate].
  intro H. injection H as <-. exists st. split; reflexivity.
Qed.

Lemma post_files_ok fs pp : snames (fs_root fs) -> ctree (fs_root fs) -> post_process fs = POk pp -> files_ok pp.
Proof.
  intros S C H. destruct (post_process_files fs pp H) as (st & Er & Ef). unfold files_ok. rewrite Ef, Er. split.
  - apply file_list_nodup. apply snames_decorate. exact S.
  - apply file_list_clean; [apply ctree_decorate; exact C|constructor].
Qed.

(* the add operations of a description file *)
Lemma ops_files_ok d ops fs pp :
  ops_clean ops -> run_adds d (fs_init d) ops = Some fs -> post_process fs = POk pp -> files_ok pp.
Proof.
  intros Hc Hr Hp. apply (post_files_ok fs pp); [| |exact Hp].
  - apply swf_snames. exact (run_adds_swf d ops _ fs (init_swf d) Hr).
  - exact (run_adds_ctree d ops _ fs (init_ctree d) Hc Hr).
Qed.

(* ---- the directory scan delivers clean paths ---- *)
Section Scan.
  Variable fnmatch : list N -> list N -> bool -> bool.
  Variable dflt : fsdefaults.
  Variable cfg : scfg.
  Hypothesis Hprefix : cleanp (c_prefix cfg).

  Definition stream_clean (st : wstate) : Prop := Forall (fun s => cleanp (e_path (s_ent s))) (w_stream st).

  Lemma oiter_clean pdev pp cs :
    Forall (fun n => forall pdev pp st st', cleanp pp -> walk_node fnmatch dflt cfg pdev pp n st = Some st' ->
                                            stream_clean st -> stream_clean st') cs ->
    cleanp pp ->
    forall st st', oiter (walk_node fnmatch dflt cfg pdev pp) cs st = Some st' -> stream_clean st -> stream_clean st'.
  Proof.
    induction 1 as [|c r Hc _ IH]; intros Hp st st' H C; cbn [oiter] in H.
    - injection H as <-. exact C.
    - destruct (walk_node fnmatch dflt cfg pdev pp c st) as [st1|] eqn:E; [|discriminate].
      apply (IH Hp st1 st' H). exact (Hc pdev pp st st1 Hp E C).
  Qed.

  Lemma walk_node_clean : forall n, hokb n = true ->
    forall pdev pp st st', cleanp pp -> walk_node fnmatch dflt cfg pdev pp n st = Some st' ->
                           stream_clean st -> stream_clean st'.
  Proof.
    induction n as [nm s cs IH] using CanonProofs.hnode_ind'. intro Hok.
    destruct (hokb_inv _ _ _ Hok) as (Hclean & _ & Hch).
    intros pdev pp st st' Hpp H C. cbn [walk_node] in H.
    destruct (is_dots nm) eqn:Dots; [injection H as <-; exact C|].
    set (rel := pp ++ [nm]) in *.
    assert (Crel : cleanp rel).
    { unfold rel, cleanp. apply Forall_app. split; [exact Hpp|constructor; [exact (Hclean eq_refl)|constructor]]. }
    destruct (hl_step cfg s rel (w_hl st)) as [[hard tgt] hl1].
    assert (Kids : Forall (fun n => forall pdev pp st st', cleanp pp -> walk_node fnmatch dflt cfg pdev pp n st = Some st' ->
                                                           stream_clean st -> stream_clean st') cs).
    { rewrite Forall_forall in *. intros c Hc. apply IH; [exact Hc|apply Hch; exact Hc]. }
    assert (D : forall st1 st2,
               (if enters cfg s then oiter (walk_node fnmatch dflt cfg (h_dev s) rel) cs st1 else Some st1) = Some st2 ->
               stream_clean st1 -> stream_clean st2).
    { intros st1 st2 E C1. destruct (enters cfg s); [|injection E as <-; exact C1].
      exact (oiter_clean (h_dev s) rel cs Kids Crel st1 st2 E C1). }
    destruct (classify fnmatch cfg pdev rel s hard tgt) as [| |e extra] eqn:Cl.
    - injection H as <-. exact C.
    - apply (D _ _ H). exact C.
    - assert (Ep : e_path e = c_prefix cfg ++ rel).
      { unfold classify in Cl.
        destruct ((c_onefs cfg && negb (N.eqb (h_dev s) pdev)) || type_masked cfg (if hard then FLnk else h_type s)); [discriminate|].
        destruct (ftype_eqb (h_type s) FDir && c_no_dir cfg); [discriminate|].
        destruct (negb (pattern_ok fnmatch cfg (c_prefix cfg ++ rel))); [discriminate|].
        injection Cl as <- _. reflexivity. }
      assert (Ce : cleanp (e_path e)).
      { rewrite Ep. unfold cleanp. apply Forall_app. split; [exact Hprefix|exact Crel]. }
      destruct (negb (parent_ok (e_path e) (fs_root (w_fs st)))).
      + injection H as <-. unfold stream_clean. cbn [w_stream]. constructor; [exact Ce|exact C].
      + destruct (fs_add dflt (w_fs st) e extra) as [fs'|]; [|discriminate].
        apply (D _ _ H). unfold stream_clean. cbn [w_stream]. constructor; [exact Ce|exact C].
  Qed.

  Lemma scan_ops_clean (sorted : bool) (t : hnode) fs0 fs stream :
    hok_rootb (if sorted then canon t else t) = true ->
    scan_dir fnmatch dflt cfg sorted t fs0 = Some (fs, stream) -> ops_clean (ops_of_stream stream).
  Proof.
    intros Hok H. unfold scan_dir, walk_list in H. set (h := if sorted then canon t else t) in *.
    destruct (oiter _ (hchildren h) (mkW [] fs0 [])) as [st|] eqn:E; [|discriminate].
    injection H as _ <-.
    unfold hok_rootb in Hok. apply andb_true_iff in Hok. destruct Hok as [_ Hch].
    assert (Kids : Forall (fun n => forall pdev pp st st', cleanp pp -> walk_node fnmatch dflt cfg pdev pp n st = Some st' ->
                                                           stream_clean st -> stream_clean st') (hchildren h)).
    { apply Forall_forall. intros c Hc. apply walk_node_clean. rewrite forallb_forall in Hch. apply Hch. exact Hc. }
    assert (C : stream_clean st).
    { apply (oiter_clean _ [] _ Kids (Forall_nil _) _ st E). constructor. }
    unfold ops_clean, ops_of_stream. apply Forall_map. apply Forall_forall. intros s Hs.
    apply filter_In in Hs. destruct Hs as [Hs _]. apply in_rev in Hs.
    unfold stream_clean in C. rewrite Forall_forall in C. cbn [fst]. apply C. exact Hs.
  Qed.

  (* gensquashfs -D: scan_directory + fstree_post_process *)
  Lemma scan_files_ok (sorted : bool) (t : hnode) pp :
    hok_rootb (if sorted then canon t else t) = true ->
    PackModel.scan_post fnmatch dflt cfg sorted t (fs_init dflt) = Some (POk pp) -> files_ok pp.
  Proof.
    intros Hok H. unfold PackModel.scan_post in H.
    destruct (scan_dir fnmatch dflt cfg sorted t (fs_init dflt)) as [[fs stream]|] eqn:E; [|discriminate].
    cbn [option_map fst] in H. injection H as H.
    apply (ops_files_ok dflt (ops_of_stream stream) fs pp); [|exact (scan_is_run_adds_l _ _ _ _ _ _ _ _ E)|exact H].
    exact (scan_ops_clean sorted t _ fs stream Hok E).
  Qed.
End Scan.
