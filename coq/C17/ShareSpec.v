(* C17 — vocabulary of the STRONG layout statements (audit 4, finding 1): the chronological log of FlagSpec.v with the
   BYTES of every entry, the output file as the replay of that log, and the rule a shared entry obeys - what
   deduplication really guarantees (the run-level lift of FlagWriter.dedup_loc / share_only_identical_run):
   a file run that does not start at the end of the output stood, byte for byte, at its start offset in the output as
   the older entries left it (continued by the run itself where it reaches beyond that end), and the block at which it
   starts is a stored block of an earlier file or a fragment block with the same size word, checksum and bytes as the
   run's first block.  Definitions only. *)
From Coq Require Import List NArith Arith Bool.
From SqfsV Require Import C08.DedupModel C08.DedupLemmas C08.DedupWriterProofs C08.DedupPipeProofs.
From SqfsV Require Import C17.FlagModel C17.FlagSpec.
Import ListNotations.

(* a log entry with its bytes *)
Record dent := { de_kind : lkind; de_loc : nat; de_data : list N }.

Definition strip (e : dent) : lent :=
  {| le_kind := de_kind e; le_loc := de_loc e; le_len := length (de_data e) |}.

Fixpoint dfids (log : list dent) : list nat :=
  match log with
  | [] => []
  | e :: r => match de_kind e with LFile f => f :: dfids r | LFrag _ => dfids r end
  end.

(* what write_data_block ... deduplicate_blocks leave of the output when the run [e] arrives on top of [out]: the
   bytes are appended; if the run was found at [de_loc e] the file is cut back to the end of whichever reaches
   further - the old output or the shared run *)
Definition put (out : list N) (e : dent) : list N :=
  firstn (Nat.max (length out) (de_loc e + length (de_data e))) (out ++ de_data e).

(* logs are kept newest first *)
Fixpoint replay (file0 : list N) (log : list dent) : list N :=
  match log with
  | [] => file0
  | e :: older => put (replay file0 older) e
  end.

Definition same_block (a b : pblock) : Prop :=
  pb_data a = pb_data b /\ pb_compressed a = pb_compressed b /\ pb_chk a = pb_chk b.

Section Spec.
Variable hashf : list N -> N.
Variable compress : list N -> option (list N).
Variable bs : nat.
Variable files : list (uflags * list N).

(* the blocks of file [fid] that reach the output (not holes, not the empty sentinel), as the worker left them *)
Definition srun (fid : nat) : list pblock := filter stored (jpbs hashf compress bs files fid).

(* [pb] is what the worker makes of an assembled fragment block whose data begins with the tail end of a file *)
Definition frag_origin (pb : pblock) : Prop :=
  exists d dc fid t r, pb = work_block hashf compress true false dc false d /\
                       j_tail (job bs files fid) = Some t /\ d = t ++ r.

(* the block a shared run of file [fid] starts at *)
Definition share_witness (older : list dent) (fid : nat) : Prop :=
  exists c0 rest pb0, srun fid = c0 :: rest /\ same_block pb0 c0 /\
    ((exists f, In f (dfids older) /\ In pb0 (srun f)) \/ frag_origin pb0).

Definition dentry_ok (file0 : list N) (dd : nat -> bool) (older : list dent) (e : dent) : Prop :=
  let out := replay file0 older in
  de_loc e = length out \/
  (exists fid, de_kind e = LFile fid /\ dd fid = false /\ de_loc e < length out /\
               slice (out ++ de_data e) (de_loc e) (length (de_data e)) = de_data e /\
               share_witness older fid).

Fixpoint DLogOk (file0 : list N) (dd : nat -> bool) (log : list dent) : Prop :=
  match log with
  | [] => True
  | e :: older => dentry_ok file0 dd older e /\ DLogOk file0 dd older
  end.

(* ---- a decidable condition on the INPUT under which file [j] cannot be shared ---- *)

Fixpoint is_prefix (t b : list N) : bool :=
  match t, b with
  | [], _ => true
  | x :: t', y :: b' => N.eqb x y && is_prefix t' b'
  | _ :: _, [] => false
  end.

Fixpoint mem_block (b : list N) (l : list (list N)) : bool :=
  match l with
  | [] => false
  | x :: r => list_eqb b x || mem_block b r
  end.

(* the first block of the file that is kept (not empty, not dropped as a hole) *)
Definition first_kept (fl : uflags) (d : list N) : option (list N) :=
  hd_error (filter (kept (uf_ignore_sparse fl)) (j_blocks (file_job bs fl d))).

(* the first kept block of file j is not a block of an earlier file, and no file's tail end is a prefix of it *)
Definition fresh_first (j : nat) : bool :=
  match nth_error files j with
  | Some (fl, d) =>
    match first_kept fl d with
    | Some b0 =>
      forallb (fun f => negb (mem_block b0 (j_blocks (file_job bs (fst f) (snd f))))) (firstn j files) &&
      forallb (fun f => match j_tail (file_job bs (fst f) (snd f)) with
                        | Some t => negb (is_prefix t b0)
                        | None => true
                        end) files
    | None => true
    end
  | None => true
  end.

End Spec.
