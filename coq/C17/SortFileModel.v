(* C17 -- the sort file as TEXT: one-line front end of the parser of
   bin/gensquashfs/src/sort_by_file.c and a printer for the syntax documented in
   gensquashfs(1), section "SORT FILE FORMAT".

   The statement-by-statement transcription of the line loop's body
   (istream_get_line with LTRIM|RTRIM|SKIP_EMPTY, the '#' test, decode_priority /
   parse_int, decode_flags / split_line / trim, decode_filename / canonicalize_name)
   is SortModel.parse_line on top of SortModel.get_lines; it is not copied here.
   [parse_sort_line] is one iteration of the loop on a raw buffer: what the C code
   decodes from the first line istream_get_line returns for these bytes.

   The printer writes  <priority> SP [ '[' kw,kw,... ']' SP ] <dquote><escaped name><dquote> :
   decimal priority with sign (what printf of an int64 gives, through C16's print_dec),
   the flag list only when some keyword applies, the file name always in quoted form
   with backslash escapes for the double quote and the backslash.  Definitions only; proofs in SortFileProofs.v. *)
From Coq Require Import List NArith ZArith Bool.
From SqfsV Require Import C18.CanonModel C17.GenC17 C17.SortModel.
From SqfsV Require C16.DescribeModel.
Import ListNotations.
Local Open Scope N_scope.

(* ---- parser: one iteration of the loop of fstree_sort_files on a raw buffer ---- *)
Definition parse_sort_line (raw : list N) : lres :=
  match get_lines raw with
  | [] => LnSkip                       (* istream_get_line returned > 0: nothing but blank lines *)
  | l :: _ => parse_line true l
  end.

(* all directives of a sort file text (None: some line is refused); = SortProofs.parse_all on get_lines *)
Fixpoint parse_lines (lines : list (list N)) : option (list directive) :=
  match lines with
  | [] => Some []
  | l :: r =>
    match parse_line true l with
    | LnSkip => parse_lines r
    | LnDir d => match parse_lines r with Some ds => Some (d :: ds) | None => None end
    | _ => None
    end
  end.

Definition parse_sort_file (text : list N) : option (list directive) :=
  parse_lines (get_lines text).

(* ---- printer ---- *)
Definition ch_space : N := 32.

Definition print_prio (p : Z) : list N :=
  match p with
  | Zneg q => ch_minus :: C16.DescribeModel.print_dec (Npos q)
  | _ => C16.DescribeModel.print_dec (Z.to_N p)
  end.

Definition bit_set (fl b : N) : bool := negb (N.land fl b =? 0).

Definition flag_words (d : directive) : list (list N) :=
  (if d_glob d then [if d_path d then kw_glob else kw_glob_no_path] else []) ++
  (if bit_set (d_flags d) c_SQFS_BLK_DONT_FRAGMENT then [kw_dont_fragment] else []) ++
  (if bit_set (d_flags d) c_SQFS_BLK_DONT_COMPRESS then [kw_dont_compress] else []) ++
  (if bit_set (d_flags d) c_SQFS_BLK_DONT_DEDUPLICATE then [kw_dont_deduplicate] else []) ++
  (if bit_set (d_flags d) c_SQFS_BLK_IGNORE_SPARSE then [kw_nosparse] else []).

Fixpoint join_words (l : list (list N)) : list N :=
  match l with
  | [] => []
  | [a] => a
  | a :: r => a ++ ch_comma :: join_words r
  end.

Definition print_flags (d : directive) : list N :=
  match flag_words d with
  | [] => []
  | ws => ch_lbracket :: join_words ws ++ [ch_rbracket; ch_space]
  end.

Fixpoint escape_name (s : list N) : list N :=
  match s with
  | [] => []
  | c :: r =>
    if (c =? ch_dquote) || (c =? ch_bslash) then ch_bslash :: c :: escape_name r
    else c :: escape_name r
  end.

Definition quote_name (s : list N) : list N := ch_dquote :: escape_name s ++ [ch_dquote].

Definition print_sort_line (d : directive) : list N :=
  print_prio (d_prio d) ++ ch_space :: print_flags d ++ quote_name (d_name d).

Fixpoint print_sort_file (ds : list directive) : list N :=
  match ds with
  | [] => []
  | d :: r => print_sort_line d ++ ch_nl :: print_sort_file r
  end.

(* ---- which entries the syntax can express ---- *)
(* the flag word is the or of those of the four keyword bits that are set in it *)
Definition rebuild_flags (fl : N) : N :=
  N.lor (N.lor (N.lor (if bit_set fl c_SQFS_BLK_DONT_FRAGMENT then c_SQFS_BLK_DONT_FRAGMENT else 0)
                      (if bit_set fl c_SQFS_BLK_DONT_COMPRESS then c_SQFS_BLK_DONT_COMPRESS else 0))
               (if bit_set fl c_SQFS_BLK_DONT_DEDUPLICATE then c_SQFS_BLK_DONT_DEDUPLICATE else 0))
        (if bit_set fl c_SQFS_BLK_IGNORE_SPARSE then c_SQFS_BLK_IGNORE_SPARSE else 0).

Definition entry_okb (d : directive) : bool :=
  ((- Z.of_N s64lim <? d_prio d)%Z && (d_prio d <? Z.of_N s64lim)%Z) &&
  (d_glob d || negb (d_path d)) &&
  (rebuild_flags (d_flags d) =? d_flags d).

Definition set_name (d : directive) (nm : list N) : directive :=
  mkdirective (d_prio d) (d_glob d) (d_path d) (d_flags d) nm.
