(* C17 — the strong layout log (ShareSpec.v) as an invariant of C08's block processor / block writer model, carried
   through the whole pipeline next to C08's PInv and FlagPipe's LInv / FInv:

     BInv  the output file IS the replay of the log (with bytes); every entry obeys the strong rule [dentry_ok] (fresh
           at the end of the output, or - a file for which deduplication is allowed - byte-identical to what stood at
           its start offset, starting at a block of an earlier file / a fragment block with the same size word,
           checksum and bytes as its first block); every block of the writer's block history has a known origin (a
           stored block of a logged file or an assembled fragment block) and its bytes stand at its offset; the data of
           every fragment block begins with the tail end of some file.

   Proof pattern as in FlagPipe.v: the functions are deterministic, C08's step lemmas give PInv of the next state,
   FlagPipe's give FInv (and LInv where the log does not change); the two steps that extend the log are analysed here
   with the explicit extension. *)
From Coq Require Import List NArith Arith Bool Lia Sorted.
From SqfsV Require Import C08.DedupModel C08.DedupLemmas C08.DedupWriterProofs C08.DedupReaderProofs
     C08.DedupPipeProofs.
From SqfsV Require Import C17.FlagModel C17.FlagSpec C17.FlagWriter C17.FlagPipe C17.ShareSpec C17.ShareWriter.
Import ListNotations.

Lemma In_firstn_in {A} (x : A) n l : In x (firstn n l) -> In x l.
Proof. intro H. rewrite <- (firstn_skipn n l). apply in_or_app. left. assumption. Qed.

Lemma dfids_strip log : log_fids (map strip log) = dfids log.
Proof. induction log as [|e r IH]; [reflexivity|]. simpl. destruct (de_kind e); rewrite IH; reflexivity. Qed.

Lemma replay_length_fresh file0 dlog e :
  de_loc e = length (replay file0 dlog) -> replay file0 (e :: dlog) = replay file0 dlog ++ de_data e.
Proof.
  intro H. cbn [replay]. unfold put. rewrite H.
  rewrite Nat.max_r by lia. rewrite <- app_length. apply firstn_all.
Qed.

Section SPipe.
Variable hashf : list N -> N.
Variable compress : list N -> option (list N).
Variable uncompress : list N -> nat -> option (list N).
Variable bs half : nat.
Variable file0 : list N.

Hypothesis Hcomp : forall b c, compress b = Some c ->
  length c < length b /\ forall n, length b <= n -> uncompress c n = Some b.
Hypothesis Hbs : 0 < bs.
Hypothesis Hsmall : small bs.
Hypothesis Hhalf : 0 < half.

Variable files : list (uflags * list N).

Notation base := (length file0).
Notation work := (work_block hashf compress).
Notation PInv' := (PInv hashf compress uncompress bs base files).
Notation LInv' := (LInv hashf compress bs base files).
Notation FInv' := (FInv bs files).
Notation job' := (job bs files).
Notation jpbs' := (jpbs hashf compress bs files).
Notation srun' := (srun hashf compress bs files).
Notation dd' := (dd_of bs files).
Notation DLogOk' := (DLogOk hashf compress bs files file0 dd').
Notation frag_origin' := (frag_origin hashf compress bs files).

Definition tail_prefixed (d : list N) : Prop :=
  exists fid t r, j_tail (job' fid) = Some t /\ d = t ++ r.

(* a block of the writer's history: what it is and that its bytes stand at its offset in [F] *)
Definition prov (F : list N) (dlog : list dent) (bi : blk_info) : Prop :=
  exists pb, bi_sw bi = sw_of (length (pb_data pb)) (pb_compressed pb) /\ bi_chk bi = pb_chk pb /\
             small (length (pb_data pb)) /\ holds F (bi_off bi, pb_data pb) /\
             ((exists f, In f (dfids dlog) /\ In pb (srun' f)) \/ frag_origin' pb).

Record BInv (st : proc) (fbd : nat -> list N) (dlog : list dent) : Prop := {
  b_file : w_file (p_wr st) = replay file0 dlog;
  b_ok : DLogOk' dlog;
  b_data : forall e fid, In e dlog -> de_kind e = LFile fid -> de_data e = cat (srun' fid);
  b_prov : Forall (prov (w_file (p_wr st)) dlog) (w_blocks (p_wr st));
  b_tails : forall idx, idx < p_nfrag st -> tail_prefixed (fbd idx)
}.

Lemma BInv_frame st st' fbd dlog :
  p_wr st' = p_wr st -> p_nfrag st' = p_nfrag st -> BInv st fbd dlog -> BInv st' fbd dlog.
Proof.
  intros Ew En [B1 B2 B3 B4 B5]. constructor; try assumption.
  - rewrite Ew. assumption.
  - rewrite Ew. assumption.
  - rewrite En. assumption.
Qed.

Lemma prov_weaken F F' dlog dlog' bi :
  (forall c, holds F c -> fst c = bi_off bi -> holds F' c) ->
  incl (dfids dlog) (dfids dlog') -> prov F dlog bi -> prov F' dlog' bi.
Proof.
  intros HF Hi (pb & H1 & H2 & H3 & H4 & H5). exists pb. splits; try assumption.
  - apply HF; [assumption|reflexivity].
  - destruct H5 as [(f & Hf & Hp)|H5]; [left; exists f; split; [apply Hi|]; assumption|right; assumption].
Qed.

(* ---- process_completed_block for the blocks of one file, with the explicit extension of the log ---- *)

Lemma y_complete_file st fid dd pbs q claims fbd nb nt dlog st' :
  PInv' st (QFile fid dd pbs :: q) claims fbd nb nt ->
  LInv' st (QFile fid dd pbs :: q) nb (map strip dlog) -> BInv st fbd dlog ->
  complete_blocks false half st fid dd 0 pbs = Ok st' ->
  exists ext, LInv' st' q nb (map strip (ext ++ dlog)) /\ BInv st' fbd (ext ++ dlog).
Proof.
  intros HP HL HB E.
  pose proof HP as [P1 P2 _ _ _ _ _ _ _ _ _ _ _].
  inversion P2 as [|? ? Hq P2']; subst. simpl in Hq. destruct Hq as (Hfid & Hpbs & Hdd & Hjb).
  assert (Hne : pbs <> []).
  { rewrite Hpbs. unfold jpbs. destruct (j_blocks (job' fid)); [contradiction|discriminate]. }
  assert (Hsm : all_small pbs).
  { rewrite Hpbs. apply (jpbs_small hashf compress uncompress bs half Hcomp Hbs Hsmall Hhalf). }
  assert (Hsane : Forall sane pbs).
  { rewrite Hpbs. apply (jpbs_sane hashf compress uncompress bs Hcomp Hbs). }
  assert (Hstart : if 0 =? 0 then WInv base (p_wr st) claims /\ w_file (p_wr st) = w_file (p_wr st) /\
                                  w_blocks (p_wr st) = w_blocks (p_wr st) /\ (@nil pblock) = []
                   else WOpen base (p_wr st) claims (w_file (p_wr st)) (w_blocks (p_wr st)) []).
  { simpl. splits; try reflexivity. assumption. }
  destruct (complete_blocks_gen bs half base Hbs Hhalf fid dd pbs st 0 claims (w_file (p_wr st))
              (w_blocks (p_wr st)) [] Hne Hsm Hsane Hstart)
    as (st'' & loc & R1 & R2 & R3 & R4 & R5 & R6 & R7).
  rewrite E in R1. inversion R1; subst st''. clear R1.
  destruct (cb_layout half Hhalf base fid dd pbs st 0 claims (w_file (p_wr st)) (w_blocks (p_wr st)) [] st'
                      Hne Hsm (Forall_nil _) Hstart E) as [L1 L2].
  destruct (cb_share half Hhalf base fid dd pbs st 0 claims (w_file (p_wr st)) (w_blocks (p_wr st)) [] st'
                     Hne Hsm (Forall_nil _) Hstart E) as (S1 & S2 & S3).
  cbv zeta in L1, L2, S1, S2, S3. cbn [app] in L1, L2, S1, S2, S3.
  destruct R7 as (A1 & A2 & A3 & A4 & A5 & A6 & A7).
  destruct HL as [X1 X2 X3 X4 X5 X6 X7 X8]. cbn [qfids] in X1, X2, X8.
  destruct HB as [B1 B2 B3 B4 B5].
  pose proof (StronglySorted_inv X1) as [SS1 SS2].
  assert (Hsd : filter stored pbs = srun' fid) by (unfold srun; rewrite Hpbs; reflexivity).
  assert (Hold : forall e f, In e (map strip dlog) -> le_kind e = LFile f -> f <> fid).
  { intros e f He Hk C. subst f.
    assert (In fid (log_fids (map strip dlog))) by (apply log_fids_in; exists e; split; assumption).
    specialize (X2 fid fid H (or_introl eq_refl)). lia. }
  set (pre := w_file (p_wr st)) in *. set (hist := w_blocks (p_wr st)) in *.
  (* the block history afterwards: every block has its origin and its bytes in the new output *)
  assert (Hprov : forall dlog', incl (dfids dlog) (dfids dlog') ->
            (filter stored pbs <> [] -> In fid (dfids dlog')) ->
            Forall (prov (w_file (p_wr st')) dlog') (w_blocks (p_wr st'))).
  { intros dlog' Hincl Hnew.
    destruct S1 as [used Hused]. destruct S2 as [t [Ht Hlt]].
    apply firstn_is_own_length in Ht.
    pose proof R2 as [Wc We _ _].
    assert (Hlen : length (w_file (p_wr st')) <= length (pre ++ cat (filter stored pbs))).
    { rewrite Ht at 1. rewrite firstn_length. lia. }
    apply Forall_forall. intros bi Hbi.
    pose proof (chain_in_bound _ _ _ Wc Hbi) as Hbound. rewrite We in Hbound.
    rewrite Hused in Hbi. apply In_firstn_in in Hbi. apply in_app_or in Hbi.
    assert (Hcut : forall pb, bi_sw bi = sw_of (length (pb_data pb)) (pb_compressed pb) ->
              small (length (pb_data pb)) ->
              holds (pre ++ cat (filter stored pbs)) (bi_off bi, pb_data pb) ->
              holds (w_file (p_wr st')) (bi_off bi, pb_data pb)).
    { intros pb Hsw Hsmp Hh. rewrite Ht. apply holds_firstn; [assumption| |assumption].
      cbn [fst snd]. unfold bi_size in Hbound. rewrite Hsw, sw_size_of in Hbound by assumption. lia. }
    destruct Hbi as [Hbi|Hbi].
    - rewrite Forall_forall in B4. destruct (B4 bi Hbi) as (pb & H1 & H2 & H3 & H4 & H5).
      exists pb. splits; try assumption.
      + apply Hcut; [assumption|assumption|]. apply holds_app. assumption.
      + destruct H5 as [(f & Hf & Hp)|H5]; [left; exists f; split; [apply Hincl|]; assumption|right; assumption].
    - destruct (infos_nth_holds (filter stored pbs) (length pre) pre [] bi eq_refl Hbi) as (b & Hb & H1 & H2 & H4).
      rewrite app_nil_r in H4.
      assert (Hsb : small (length (pb_data b))).
      { apply filter_In in Hb. destruct Hb as [Hb _]. unfold all_small in Hsm. rewrite Forall_forall in Hsm.
        apply Hsm. assumption. }
      exists b. splits; try assumption.
      + apply Hcut; assumption.
      + left. exists fid. split; [apply Hnew; intro C; rewrite C in Hb; contradiction|]. rewrite <- Hsd. assumption. }
  destruct (filter stored pbs) as [|s0 sr] eqn:Esd.
  - (* nothing stored: holes / empty blocks only *)
    exists []. cbn [app]. split.
    + constructor; try assumption.
      * intros f g Hf Hg. apply X2; [assumption|right; assumption].
      * rewrite (L1 eq_refl). assumption.
      * intros e f He Hk. destruct (X5 e f He Hk) as (H1 & H2 & H3 & H4).
        splits; try assumption. rewrite R4 by (eapply Hold; eassumption). assumption.
      * rewrite A1, A2. assumption.
      * intros f Hf Hs. destruct (X8 f Hf Hs) as [[->|H]|H]; [|left; assumption|right; assumption].
        exfalso. apply Hs. symmetry. exact Hsd.
    + constructor.
      * rewrite (L1 eq_refl). assumption.
      * assumption.
      * assumption.
      * apply Hprov; [apply incl_refl|]. intro C. contradiction.
      * rewrite A1. assumption.
  - assert (Hst : stores hashf compress bs files fid).
    { unfold stores. change (sdata hashf compress bs files fid) with (srun' fid). rewrite <- Hsd. discriminate. }
    assert (Hdl : length (cat (s0 :: sr)) = dlen hashf compress bs files fid).
    { unfold dlen. change (sdata hashf compress bs files fid) with (srun' fid). rewrite <- Hsd. reflexivity. }
    set (e := {| de_kind := LFile fid; de_loc := p_start st' fid; de_data := cat (s0 :: sr) |}).
    exists [e]. cbn [app].
    specialize (L2 ltac:(discriminate)).
    assert (Hlenpre : length pre = length (replay file0 dlog)) by (rewrite <- B1; reflexivity).
    assert (Hlen' : length (w_file (p_wr st')) = Nat.max (length pre) (p_start st' fid + length (cat (s0 :: sr)))).
    { destruct L2 as [[La Lb]|(_ & La & Lb)]; [rewrite Lb, app_length, La; lia|exact Lb]. }
    assert (Hfile' : w_file (p_wr st') = replay file0 (e :: dlog)).
    { cbn [replay]. unfold put. cbn [de_loc de_data e]. rewrite <- B1. fold pre. rewrite <- Hlen'.
      destruct S2 as [t [Ht _]]. eapply firstn_is_own_length. exact Ht. }
    assert (Hwm : wm base (strip e :: map strip dlog) = length (w_file (p_wr st')) /\
                  entry_ok base dd' (map strip dlog) (strip e)).
    { cbn [wm]. unfold le_end, entry_ok. cbn [strip le_loc le_len le_kind de_kind de_loc de_data e]. rewrite <- X3.
      fold pre. split; [symmetry; exact Hlen'|].
      destruct L2 as [[La Lb]|(Ldd & La & Lb)].
      - left. assumption.
      - right. exists fid. splits; [reflexivity| |assumption].
        unfold dd_of, fl_of. rewrite <- Hdd. assumption. }
    destruct Hwm as [Hw1 Hw2].
    split.
    + cbn [map]. constructor.
      * assumption.
      * intros f g Hf Hg. cbn [log_fids strip le_kind de_kind e] in Hf. destruct Hf as [<-|Hf].
        -- rewrite Forall_forall in SS2. apply SS2. assumption.
        -- apply X2; [assumption|right; assumption].
      * symmetry. exact Hw1.
      * cbn [LogOk]. split; assumption.
      * intros e' f [<-|He] Hk.
        -- cbn [strip le_kind de_kind e] in Hk. inversion Hk; subst f.
           cbn [strip le_loc le_len de_loc de_data e]. splits; try assumption; reflexivity.
        -- destruct (X5 e' f He Hk) as (H1 & H2 & H3 & H4).
           splits; try assumption. rewrite R4 by (eapply Hold; eassumption). assumption.
      * intros e' idx [<-|He] Hk; [discriminate|]. rewrite A1, A2. apply X6; assumption.
      * cbn [log_fids strip le_kind de_kind e]. constructor; [assumption|].
        apply Forall_forall. intros f Hf. specialize (X2 f fid Hf (or_introl eq_refl)). lia.
      * intros f Hf Hs. cbn [log_fids strip le_kind de_kind e]. destruct (X8 f Hf Hs) as [[->|H]|H].
        -- right. left. reflexivity.
        -- left. assumption.
        -- right. right. assumption.
    + constructor.
      * exact Hfile'.
      * cbn [DLogOk]. split; [|assumption]. unfold dentry_ok. cbv zeta. cbn [de_loc de_data de_kind e].
        rewrite <- Hlenpre, <- B1. fold pre.
        destruct L2 as [[La Lb]|(Ldd & La & Lb)]; [left; assumption|right].
        destruct (S3 s0 sr eq_refl La) as (Hsl & i & Hi & Hloc & Hm).
        exists fid. split; [reflexivity|]. split; [unfold dd_of, fl_of; rewrite <- Hdd; assumption|].
        split; [assumption|]. split; [exact Hsl|].
        (* the history block the run starts at *)
        assert (Hin : In (nth i hist dflt_bi) hist) by (apply nth_In; assumption).
        rewrite Forall_forall in B4. destruct (B4 _ Hin) as (pb0 & H1 & H2 & H3 & H4 & H5).
        unfold bi_hash_eqb in Hm. apply andb_true_iff in Hm. destruct Hm as [Hm1 Hm2].
        apply N.eqb_eq in Hm1. apply N.eqb_eq in Hm2. cbn [info_of bi_sw bi_chk] in Hm1, Hm2.
        assert (Hs0 : small (length (pb_data s0))).
        { assert (In s0 (filter stored pbs)) by (rewrite Esd; left; reflexivity).
          apply filter_In in H. destruct H as [H _]. unfold all_small in Hsm. rewrite Forall_forall in Hsm.
          apply Hsm. assumption. }
        rewrite H1 in Hm1.
        assert (Elen : length (pb_data pb0) = length (pb_data s0)).
        { rewrite <- (sw_size_of _ (pb_compressed pb0) H3), <- (sw_size_of _ (pb_compressed s0) Hs0), Hm1. reflexivity. }
        assert (Ecmp : pb_compressed pb0 = pb_compressed s0).
        { rewrite <- (sw_compressed_of _ (pb_compressed pb0) H3), <- (sw_compressed_of _ (pb_compressed s0) Hs0), Hm1.
          reflexivity. }
        destruct H4 as [Hb1 Hb2]. cbn [fst snd] in Hb1, Hb2. fold pre in Hb1, Hb2. rewrite <- Hloc in Hb1, Hb2.
        assert (Edat : pb_data pb0 = pb_data s0).
        { rewrite cat_cons, app_length in Hsl. rewrite slice_split in Hsl.
          apply app_inj_len in Hsl.
          - destruct Hsl as [Hsl _]. rewrite <- Hsl, <- Elen. rewrite slice_app_l by assumption. symmetry. assumption.
          - apply slice_length. rewrite !app_length. lia. }
        exists s0, sr, pb0. split; [symmetry; exact Hsd|]. split; [|assumption].
        split; [assumption|]. split; [assumption|]. rewrite <- H2. assumption.
      * intros e' f [<-|He] Hk.
        -- cbn [de_kind e] in Hk. inversion Hk; subst f. cbn [de_data e]. rewrite <- Hsd. reflexivity.
        -- apply B3; assumption.
      * apply Hprov.
        -- cbn [dfids de_kind e]. intros x Hx. right. assumption.
        -- intros _. cbn [dfids de_kind e]. left. reflexivity.
      * rewrite A1. assumption.
Qed.

(* ---- process_completed_block for a fragment block ---- *)

Lemma y_complete_fragblk st idx pb q claims fbd nb nt dlog st' :
  PInv' st (QFrag true idx pb :: q) claims fbd nb nt ->
  LInv' st (QFrag true idx pb :: q) nb (map strip dlog) -> BInv st fbd dlog ->
  complete_fragblk false half st idx pb = Ok st' ->
  exists ext, LInv' st' q nb (map strip (ext ++ dlog)) /\ BInv st' fbd (ext ++ dlog).
Proof.
  intros HP HL HB E.
  pose proof HP as [P1 P2 _ _ _ _ _ _ _ _ _ _ _].
  inversion P2 as [|? ? Hq P2']; subst. simpl in Hq.
  destruct Hq as (Hidx & Hft & Hfd & (dc & Hpb) & Hinf & Hnc).
  destruct Hfd as [Hlen Hlen2].
  assert (Hdne : fbd idx <> []) by (intro H; rewrite H in Hlen; simpl in Hlen; lia).
  assert (Hsp : pb_sparse pb = false).
  { rewrite Hpb, work_sparse_iff by assumption. reflexivity. }
  pose proof (work_dec hashf compress uncompress bs Hcomp Hbs true false dc false (fbd idx) Hdne) as Hdec.
  rewrite <- Hpb in Hdec. destruct Hdec as (_ & Hle & _ & S2). destruct (S2 Hsp) as (Hpne & _).
  assert (Hsm : small (length (pb_data pb))) by (eapply small_le; [|exact Hsmall]; lia).
  assert (Hl0 : (length (pb_data pb) =? 0) = false).
  { destruct (length (pb_data pb) =? 0) eqn:E0; [|reflexivity]. apply length_zero_iff in E0. contradiction. }
  assert (Hpos : 0 < length (pb_data pb)) by (apply Nat.eqb_neq in Hl0; lia).
  unfold complete_fragblk, write_data_block in E.
  cbn [wf_first wf_last wf_sparse wf_compressed wf_dont_dedup p_wr set_inflight] in E.
  rewrite Hsp, Hl0 in E. cbn [negb andb] in E. inversion E; subst st'. clear E.
  set (L0 := length (w_file (p_wr st))).
  destruct HL as [X1 X2 X3 X4 X5 X6 X7 X8]. cbn [qfids] in X1, X2, X8.
  destruct HB as [B1 B2 B3 B4 B5].
  set (e := {| de_kind := LFrag idx; de_loc := L0; de_data := pb_data pb |}).
  exists [e]. cbn [app map]. split.
  - constructor; cbn [p_wr p_start p_nfrag p_ftab set_ftab set_wr set_inflight w_file].
    + assumption.
    + intros f g Hf Hg. cbn [log_fids strip le_kind de_kind e] in Hf. apply X2; assumption.
    + rewrite app_length. cbn [wm]. unfold le_end. cbn [strip le_loc le_len de_loc de_data e]. fold L0. rewrite <- X3. fold L0. lia.
    + cbn [LogOk]. split; [|assumption]. left. cbn [strip le_loc de_loc e]. unfold L0. assumption.
    + intros e' f [<-|He] Hk; [discriminate|]. apply X5; assumption.
    + intros e' i [<-|He] Hk.
      * cbn [strip le_kind de_kind e] in Hk. inversion Hk; subst i. cbn [strip le_loc le_len de_loc de_data e].
        splits; [assumption|assumption|]. eexists. rewrite Nat.eqb_refl. split; [reflexivity|].
        apply sw_size_of. assumption.
      * destruct (X6 e' i He Hk) as (H1 & H2 & w & H3 & H4). splits; [assumption|assumption|].
        exists w. destruct (i =? idx) eqn:Ei; [|split; assumption].
        apply Nat.eqb_eq in Ei. subst i. rewrite Hft in H3. inversion H3; subst w.
        unfold sw_size in H4. simpl in H4. lia.
    + assumption.
    + assumption.
  - constructor; cbn [p_wr p_nfrag set_ftab set_wr set_inflight w_file w_blocks].
    + rewrite (replay_length_fresh file0 dlog e); [rewrite <- B1; reflexivity|].
      cbn [de_loc e]. unfold L0. rewrite B1. reflexivity.
    + cbn [DLogOk]. split; [|assumption]. left. cbn [de_loc e]. unfold L0. rewrite B1. reflexivity.
    + intros e' f [<-|He] Hk; [discriminate|]. apply B3; assumption.
    + apply Forall_app. split.
      * eapply Forall_impl; [|exact B4]. intros bi Hbi. eapply prov_weaken; [| |exact Hbi].
        -- intros c Hc _. apply holds_app. assumption.
        -- cbn [dfids de_kind e]. apply incl_refl.
      * constructor; [|constructor]. exists pb. cbn [bi_sw bi_chk bi_off].
        splits; try reflexivity; try assumption.
        -- split; cbn [fst snd]; [rewrite app_length; fold L0; lia|]. apply slice_app_mid'.
        -- right. destruct (B5 idx Hidx) as (f & t & r & Ht & Hd).
           exists (fbd idx), dc, f, t, r. splits; assumption.
    + assumption.
Qed.

(* ---- the drain loop ---- *)

Definition All (st : proc) (q : list qitem) (claims : list (nat * list N)) (fbd : nat -> list N)
           (nb nt : nat) (dlog : list dent) (D : list nat) : Prop :=
  PInv' st q claims fbd nb nt /\ LInv' st q nb (map strip dlog) /\ FInv' st q nt D /\ BInv st fbd dlog.

Lemma y_drain_q fbd nb nt D : forall q st claims dlog,
  All st q claims fbd nb nt dlog D ->
  exists st' claims' ext,
    drain_q false half q st = Ok st' /\
    All st' (p_ioq st') claims' fbd nb nt (ext ++ dlog) D /\
    p_nfrag st' = p_nfrag st /\ p_fragblk st' = p_fragblk st.
Proof.
  induction q as [|[fid dd pbs|r idx pb] q IH]; intros st claims dlog (HP & HL & HF & HB).
  - exists (set_ioq st []), claims, []. split; [reflexivity|]. split; [|split; reflexivity].
    split; [apply PInv_set_ioq; assumption|].
    split; [eapply (LInv_frame hashf compress bs half base Hbs Hhalf); [| | | | |exact HL]; try reflexivity; try lia; intros; reflexivity|].
    split; [eapply FInv_frame; [| | | | | |exact HF]; try reflexivity; apply sub_refl|].
    eapply BInv_frame; [| |exact HB]; reflexivity.
  - destruct (complete_file_inv hashf compress uncompress bs half base Hcomp Hbs Hsmall Hhalf files
                                _ _ _ _ _ _ _ _ _ HP) as (st1 & loc & E & HP1 & A).
    destruct (x_complete_file hashf compress uncompress bs half base Hcomp Hbs Hsmall Hhalf files
                              _ _ _ _ _ _ _ _ _ _ _ _ HP HL HF E) as [_ HF1].
    destruct (y_complete_file _ _ _ _ _ _ _ _ _ _ _ HP HL HB E) as (ext1 & HL1 & HB1).
    destruct (IH st1 _ _ (conj HP1 (conj HL1 (conj HF1 HB1)))) as (st' & claims' & ext & E' & HA' & G1 & G2).
    exists st', claims', (ext ++ ext1). cbn [drain_q]. rewrite E. split; [exact E'|].
    split; [rewrite <- app_assoc; exact HA'|].
    destruct A as (A1 & A2 & A3 & A4 & A5 & A6 & A7). split; congruence.
  - destruct r.
    + destruct (complete_fragblk_inv hashf compress uncompress bs half base Hcomp Hbs Hsmall Hhalf files
                                     _ _ _ _ _ _ _ _ HP) as (st1 & loc & E & HP1 & A1 & A2 & A3 & A4).
      destruct (x_complete_fragblk hashf compress uncompress bs half base Hcomp Hbs Hsmall Hhalf files
                                   _ _ _ _ _ _ _ _ _ _ _ HP HL HF E) as [_ HF1].
      destruct (y_complete_fragblk _ _ _ _ _ _ _ _ _ _ HP HL HB E) as (ext1 & HL1 & HB1).
      destruct (IH st1 _ _ (conj HP1 (conj HL1 (conj HF1 HB1)))) as (st' & claims' & ext & E' & HA' & G1 & G2).
      exists st', claims', (ext ++ ext1). cbn [drain_q]. rewrite E. split; [exact E'|].
      split; [rewrite <- app_assoc; exact HA'|]. split; congruence.
    + exists (set_ioq st (QFrag false idx pb :: q)), claims, []. split; [reflexivity|]. split; [|split; reflexivity].
      split; [apply PInv_set_ioq; assumption|].
      split; [eapply (LInv_frame hashf compress bs half base Hbs Hhalf); [| | | | |exact HL]; try reflexivity; try lia; intros; reflexivity|].
      split; [eapply FInv_frame; [| | | | | |exact HF]; try reflexivity; apply sub_refl|].
      eapply BInv_frame; [| |exact HB]; reflexivity.
Qed.

(* ---- process_completed_fragment never touches the writer; it opens at most one fragment block ---- *)

Lemma store_fragment_facts st n fl t chk st' :
  store_fragment hashf compress uncompress bs true st n fl t chk = Ok st' ->
  p_wr st' = p_wr st /\
  (p_nfrag st' = p_nfrag st \/
   (p_nfrag st' = S (p_nfrag st) /\
    exists fb, p_fragblk st' = Some fb /\ fb_index fb = p_nfrag st /\ fb_data fb = t)).
Proof.
  unfold store_fragment. intro E.
  set (st1 := match p_fragblk st with
              | Some fb => if bs <? length (fb_data fb) + length t then enqueue_fragblk hashf compress true st fb else st
              | None => st end) in *.
  assert (H1 : p_wr st1 = p_wr st /\ p_nfrag st1 = p_nfrag st).
  { unfold st1. destruct (p_fragblk st) as [fb|]; [|split; reflexivity].
    destruct (bs <? length (fb_data fb) + length t); split; reflexivity. }
  destruct H1 as [Hw Hn]. clearbody st1.
  destruct (p_fragblk st1) as [fb|] eqn:Efb.
  - cbv beta iota zeta in E.
    match type of E with
    | match ?hi with Some _ => _ | None => _ end = _ => destruct hi as [[h ca]|]; [|discriminate]
    end.
    inversion E; subst st'. cbn. split; [assumption|]. left. assumption.
  - cbv beta iota zeta in E.
    match type of E with
    | match ?hi with Some _ => _ | None => _ end = _ => destruct hi as [[h ca]|]; [|discriminate]
    end.
    inversion E; subst st'. cbn. split; [assumption|]. right. split; [rewrite Hn; reflexivity|].
    eexists. split; [reflexivity|]. cbn. split; [assumption|reflexivity].
Qed.

Lemma process_fragment_facts st n k fl t st' :
  process_fragment hashf compress uncompress bs true st n k fl t = Ok st' ->
  p_wr st' = p_wr st /\
  (p_nfrag st' = p_nfrag st \/
   (p_nfrag st' = S (p_nfrag st) /\
    exists fb, p_fragblk st' = Some fb /\ fb_index fb = p_nfrag st /\ fb_data fb = t)).
Proof.
  unfold process_fragment. intro E.
  destruct (pb_sparse (work (uf_ignore_sparse fl) true (uf_dont_compress fl) (uf_dont_hash fl) t)).
  - inversion E; subst st'. split; [reflexivity|left; reflexivity].
  - destruct (uf_dont_dedup fl); [eapply store_fragment_facts; eassumption|].
    match type of E with
    | match ?s with SFound _ _ => _ | SNone _ => _ | SErr => _ end = _ => destruct s as [c ca|ca|]; [| |discriminate]
    end.
    + inversion E; subst st'. split; [reflexivity|left; reflexivity].
    + apply store_fragment_facts in E. exact E.
Qed.

Lemma y_process_fragment st claims fbd fbd' n t dlog st' :
  BInv st fbd dlog -> j_tail (job' n) = Some t ->
  process_fragment hashf compress uncompress bs true st n (length (j_blocks (job' n)) - 1) (j_fl (job' n)) t = Ok st' ->
  PInv' st' (p_ioq st') claims fbd' (S n) (S n) -> fext (p_nfrag st) fbd fbd' ->
  BInv st' fbd' dlog.
Proof.
  intros [B1 B2 B3 B4 B5] Ht E HP' Hx.
  destruct (process_fragment_facts _ _ _ _ _ _ E) as [Hw Hn].
  constructor; try assumption.
  - rewrite Hw. assumption.
  - rewrite Hw. assumption.
  - intros idx Hi.
    assert (Hold : idx < p_nfrag st -> tail_prefixed (fbd' idx)).
    { intro Hlt. destruct (B5 idx Hlt) as (f & t0 & r & Ht0 & Hd). destruct (Hx idx Hlt) as [x Hxe].
      exists f, t0, (r ++ x). split; [assumption|]. rewrite Hxe, Hd, app_assoc. reflexivity. }
    destruct Hn as [Hn|(Hn & fb & Hfb & Hfi & Hfd)]; [apply Hold; lia|].
    destruct (Nat.eq_dec idx (p_nfrag st)) as [->|Hne]; [|apply Hold; lia].
    pose proof HP' as [_ _ _ _ P5 _ _ _ _ _ _ _ _].
    destruct (P5 fb Hfb) as (_ & _ & Hdat & _). rewrite Hfi, Hfd in Hdat.
    exists n, t, []. split; [assumption|]. rewrite app_nil_r. assumption.
Qed.

(* ---- the steps ---- *)

Lemma y_step_file st claims fbd n dlog D :
  All st (p_ioq st) claims fbd n n dlog D ->
  exists st' claims' fbd' ext D',
    step_file hashf compress uncompress bs false true half st n (job' n) = Ok st' /\
    All st' (p_ioq st') claims' fbd' (S n) (S n) (ext ++ dlog) D'.
Proof.
  intros HA. unfold step_file, drain.
  destruct (y_drain_q fbd n n D _ _ _ _ HA) as (st1 & claims1 & ext1 & E1 & (HP1 & HL1 & HF1 & HB1) & _).
  rewrite E1.
  destruct (push_inv hashf compress uncompress bs half base Hbs Hhalf files st1 claims1 fbd n HP1) as [HP2 _].
  destruct (x_push hashf compress uncompress bs half base Hbs Hhalf files st1 claims1 fbd n _ D HP1 HL1 HF1) as [HL2 HF2].
  cbv zeta in HP2, HL2, HF2.
  match goal with |- context [drain_q false half (p_ioq ?s) ?s] => set (st2 := s) in * end.
  assert (HB2 : BInv st2 fbd (ext1 ++ dlog)).
  { eapply BInv_frame; [| |exact HB1]; unfold st2; destruct (j_blocks (job' n)); reflexivity. }
  destruct (y_drain_q fbd (S n) n D _ _ _ _ (conj HP2 (conj HL2 (conj HF2 HB2))))
    as (st3 & claims3 & ext3 & E3 & (HP3 & HL3 & HF3 & HB3) & _).
  rewrite E3.
  destruct (j_tail (job' n)) as [t|] eqn:Et.
  - destruct (process_fragment_inv hashf compress uncompress bs half base Hbs Hsmall Hhalf files st3 claims3 fbd n t
                                   HP3 Et) as (st' & fbd' & E & HP' & Hx & _).
    destruct (x_process_fragment hashf compress uncompress bs half base Hbs Hsmall Hhalf files
                                 st3 claims3 fbd n t _ D st' HP3 HL3 HF3 Et E) as [HL' [D' HF']].
    pose proof (y_process_fragment st3 claims3 fbd fbd' n t _ st' HB3 Et E HP' Hx) as HB'.
    exists st', claims3, fbd', (ext3 ++ ext1), D'. split; [exact E|].
    rewrite <- app_assoc. split; [exact HP'|]. split; [exact HL'|]. split; [exact HF'|exact HB'].
  - exists st3, claims3, fbd, (ext3 ++ ext1), D. split; [reflexivity|]. rewrite <- app_assoc.
    split; [apply (PInv_no_tail hashf compress uncompress bs half base Hbs Hhalf); assumption|].
    split; [exact HL3|]. split; [|exact HB3].
    apply (FInv_next bs half Hbs Hhalf); [assumption|].
    eapply (frag_none_beyond hashf compress uncompress bs half base Hbs Hhalf); [exact HP3|lia].
Qed.

Lemma y_step_fragdone st claims fbd n dlog D :
  All st (p_ioq st) claims fbd n n dlog D ->
  exists st' claims' ext,
    step_fragdone false half st = Ok st' /\ All st' (p_ioq st') claims' fbd n n (ext ++ dlog) D.
Proof.
  intros HA. unfold step_fragdone, drain.
  destruct (y_drain_q fbd n n D _ _ _ _ HA) as (st1 & claims1 & ext1 & E1 & (HP1 & HL1 & HF1 & HB1) & _).
  rewrite E1. eexists _, claims1, ext1. split; [reflexivity|]. cbn [p_ioq set_ioq]. split; [|split; [|split]].
  - apply (PInv_requeue hashf compress uncompress bs base files st1 (p_ioq st1));
      [apply qfids_mark_first|apply qidxs_mark_first| |assumption].
    apply Forall_QOk_mark_first. destruct HP1. assumption.
  - eapply (LInv_frame hashf compress bs half base Hbs Hhalf); [| | | | |exact HL1]; try reflexivity; try lia.
    apply qfids_mark_first.
  - eapply FInv_frame; [| | | | | |exact HF1]; try reflexivity. intros r idx pb. apply in_mark_first.
  - eapply BInv_frame; [| |exact HB1]; reflexivity.
Qed.

Lemma y_fragdone_n n D : forall k st claims fbd dlog,
  All st (p_ioq st) claims fbd n n dlog D ->
  exists st' claims' ext,
    fragdone_n false half k st = Ok st' /\ All st' (p_ioq st') claims' fbd n n (ext ++ dlog) D.
Proof.
  induction k as [|k IH]; intros st claims fbd dlog HA.
  - exists st, claims, []. split; [reflexivity|assumption].
  - cbn [fragdone_n].
    destruct (y_step_fragdone st claims fbd n dlog D HA) as (st1 & claims1 & ext1 & E1 & HA1).
    rewrite E1. destruct (IH st1 claims1 fbd _ HA1) as (st' & claims' & ext & E' & HA').
    exists st', claims', (ext ++ ext1). split; [assumption|]. rewrite <- app_assoc. assumption.
Qed.

Lemma y_sync st claims fbd n dlog D :
  All st (p_ioq st) claims fbd n n dlog D ->
  exists st' claims' ext,
    sync false half st = Ok st' /\ All st' [] claims' fbd n n (ext ++ dlog) D /\ p_ioq st' = [] /\
    p_fragblk st' = p_fragblk st.
Proof.
  intros (HP & HL & HF & HB). unfold sync, drain. cbn [p_ioq set_ioq].
  assert (HP0 : PInv' (set_ioq st (mark_all_ready (p_ioq st))) (mark_all_ready (p_ioq st)) claims fbd n n).
  { apply (PInv_requeue hashf compress uncompress bs base files st (p_ioq st));
      [apply qfids_mark_all|apply qidxs_mark_all| |assumption].
    apply Forall_QOk_mark_all. destruct HP. assumption. }
  assert (HL0 : LInv' (set_ioq st (mark_all_ready (p_ioq st))) (mark_all_ready (p_ioq st)) n (map strip dlog)).
  { eapply (LInv_frame hashf compress bs half base Hbs Hhalf); [| | | | |exact HL]; try reflexivity; try lia.
    apply qfids_mark_all. }
  assert (HF0 : FInv' (set_ioq st (mark_all_ready (p_ioq st))) (mark_all_ready (p_ioq st)) n D).
  { eapply FInv_frame; [| | | | | |exact HF]; try reflexivity. intros r idx pb. apply in_mark_all. }
  assert (HB0 : BInv (set_ioq st (mark_all_ready (p_ioq st))) fbd dlog).
  { eapply BInv_frame; [| |exact HB]; reflexivity. }
  destruct (y_drain_q fbd n n D _ _ _ _ (conj HP0 (conj HL0 (conj HF0 HB0))))
    as (st1 & claims1 & ext1 & E1 & HA1 & _ & G2).
  exists st1, claims1, ext1. split; [exact E1|].
  pose proof (drain_q_all_ready _ _ _ _ (mark_all_is_ready _) E1) as Eq.
  rewrite Eq in HA1. split; [assumption|]. split; assumption.
Qed.

Lemma y_finish st claims fbd n dlog D :
  All st (p_ioq st) claims fbd n n dlog D ->
  exists st' claims' ext,
    finish hashf compress false true half st = Ok st' /\
    All st' [] claims' fbd n n (ext ++ dlog) D /\ p_fragblk st' = None.
Proof.
  intros HA. unfold finish.
  destruct (y_sync st claims fbd n dlog D HA) as (st1 & claims1 & ext1 & E1 & HA1 & Q1 & G1).
  rewrite E1. destruct (p_fragblk st1) as [fb|] eqn:Efb.
  - rewrite <- Q1 in HA1. destruct HA1 as (HP1 & HL1 & HF1 & HB1).
    destruct (enqueue_inv hashf compress uncompress bs base files st1 claims1 fbd n n fb HP1 Efb) as (HP2 & B2 & _).
    destruct (x_enqueue hashf compress bs half base Hbs Hhalf files st1 n n _ D fb HL1 HF1 Efb) as [HL2 HF2].
    assert (HB2 : BInv (enqueue_fragblk hashf compress true st1 fb) fbd (ext1 ++ dlog)).
    { eapply BInv_frame; [| |exact HB1]; reflexivity. }
    destruct (y_sync _ _ _ _ _ _ (conj HP2 (conj HL2 (conj HF2 HB2)))) as (st3 & claims3 & ext3 & E3 & HA3 & Q3 & G3).
    exists st3, claims3, (ext3 ++ ext1). split; [exact E3|].
    split; [rewrite <- app_assoc; exact HA3|congruence].
  - exists st1, claims1, ext1. split; [reflexivity|]. split; assumption.
Qed.

Lemma y_run_files : forall rest sched n st claims fbd dlog D,
  (exists m, rest = firstn m (skipn n (jobs bs files))) ->
  All st (p_ioq st) claims fbd n n dlog D ->
  exists st' claims' fbd' ext D',
    run_files hashf compress uncompress bs false true half rest sched n st = Ok st' /\
    All st' (p_ioq st') claims' fbd' (n + length rest) (n + length rest) (ext ++ dlog) D'.
Proof.
  induction rest as [|j rest IH]; intros sched n st claims fbd dlog D [m Hr] HA.
  - exists st, claims, fbd, [], D. split; [reflexivity|]. simpl. rewrite Nat.add_0_r. assumption.
  - destruct m as [|m]; [discriminate|].
    destruct (skipn n (jobs bs files)) as [|j0 tl0] eqn:Es; [discriminate|].
    simpl in Hr. injection Hr as Hj0 Hrest. subst j0.
    destruct (skipn_nth_cons (jobs bs files) n j tl0 dflt_job Es) as [Hj Hr'].
    fold (job' n) in Hj. subst j. cbn [run_files].
    destruct (y_fragdone_n n D (hd 0 sched) st claims fbd dlog HA) as (st1 & claims1 & ext1 & E1 & HA1).
    rewrite E1.
    destruct (y_step_file st1 claims1 fbd n _ D HA1) as (st2 & claims2 & fbd2 & ext2 & D2 & E2 & HA2).
    rewrite E2.
    destruct (IH (tl sched) (S n) st2 claims2 fbd2 (ext2 ++ ext1 ++ dlog) D2) as (st' & claims' & fbd' & ext & D' & E' & HA');
      [exists m; rewrite Hr'; exact Hrest|exact HA2|].
    exists st', claims', fbd', (ext ++ ext2 ++ ext1), D'. split; [exact E'|].
    replace (n + length (job' n :: rest)) with (S n + length rest) by (simpl; lia).
    rewrite <- !app_assoc. exact HA'.
Qed.

Theorem y_pack sched :
  exists st claims fbd dlog D,
    pack hashf compress uncompress bs false true half file0 files sched = Ok st /\
    All st [] claims fbd (length files) (length files) dlog D /\ p_fragblk st = None.
Proof.
  unfold pack. fold (jobs bs files).
  destruct (x_init hashf compress bs half base Hbs Hhalf files file0 eq_refl) as [HL0 HF0].
  assert (HB0 : BInv (init_proc file0) (fun _ => []) []).
  { constructor; simpl; try (constructor; fail); try (intros; contradiction); try reflexivity. intros; lia. }
  destruct (y_run_files (jobs bs files) sched 0 (init_proc file0) [(0, file0)] (fun _ => []) [] [])
    as (st1 & claims1 & fbd1 & ext1 & D1 & E1 & HA1).
  { exists (length (jobs bs files)). simpl. symmetry. apply firstn_all. }
  { split; [apply (init_inv hashf compress uncompress bs half base Hbs Hhalf files file0 eq_refl)|].
    split; [exact HL0|]. split; [exact HF0|exact HB0]. }
  rewrite E1.
  assert (Hl : 0 + length (jobs bs files) = length files) by (unfold jobs; rewrite map_length; reflexivity).
  rewrite Hl in HA1.
  destruct (y_finish st1 claims1 fbd1 (length files) _ D1 HA1) as (st2 & claims2 & ext2 & E2 & HA2 & B2).
  exists st2, claims2, fbd1, (ext2 ++ ext1 ++ []), D1. split; [exact E2|]. split; assumption.
Qed.

End SPipe.
