(* C03 — every produced image satisfies the on-disk invariants other readers rely on: the writer side of
   the codec stack.  Statements only; every proof is one [exact] of a lemma from coq/C03/*.v.

   Oracle: [compress] / [uncompress] stand for sqfs_compressor_t.do_block of the compressing / the
   uncompressing instance; the only assumption is the contract of include/sqfs/compressor.h,
        compress b = CData c  ->  |c| <= |b|  /\  uncompress c = Some b,
   which the check re-evaluates on the real back ends on every run (props/C03/h_comp.c). *)
From Coq Require Import List NArith ZArith Bool.
From SqfsV Require Import Base.Bytes Gen.Constants C03.GenC03 C03.Common C03.MetaModel C03.MetaProofs
  C03.MetaRT C03.DirModel C03.DirProofs C03.DirRT C03.DirEnd C03.DirIndex C03.ToyProofs
  C03.TableModel C03.TableProofs C03.NumModel C03.NumProofs.
Import ListNotations.
Local Open Scope N_scope.

Definition contract (compress : list N -> cres) (uncompress : list N -> option (list N)) : Prop :=
  forall b c, compress b = CData c -> lenN c <= lenN b /\ uncompress c = Some b.

(* ------------------------------------------------------------------------------------------ *)
(* meta writer (lib/sqfs/src/meta_writer.c)                                                     *)
(* ------------------------------------------------------------------------------------------ *)

(* the append loop never runs out of its fuel: the model's loops terminate like the C loops *)
Theorem meta_total : forall compress uncompress, contract compress uncompress ->
  forall keep ops, mw_run compress (mw_init keep) ops <> Fuel.
Proof. exact meta_no_fuel_l. Qed.
Print Assumptions meta_total.

(* meta_blocks_ok: after ANY sequence of appends and flushes the written area parses (independent
   reader) as a sequence of metadata blocks; each holds 1..8192 bytes, its stored size is not larger than
   its content and equals it when the "uncompressed" bit is set; the decoded contents followed by the open
   block are exactly the bytes appended; block_offset is the size of the area; without explicit flushes
   every block holds exactly 8192 bytes *)
Theorem meta_blocks_ok : forall compress uncompress, contract compress uncompress ->
  forall keep ops m fuel,
    mw_run compress (mw_init keep) ops = Ok m ->
    (length (mw_disk m) <= fuel)%nat ->
    exists blocks,
      parse_blocks uncompress fuel (mw_disk m) 0 = Some blocks /\
      Forall block_facts blocks /\
      concat (map (fun b => fst (fst b)) blocks) ++ mw_cur m = appended ops /\
      lenN (mw_cur m) < MB /\
      mw_boff m = lenN (mw_disk m) /\
      (no_flush ops -> Forall (fun b => lenN (fst (fst b)) = MB) blocks).
Proof. exact meta_blocks_ok_l. Qed.
Print Assumptions meta_blocks_ok.

(* meta_rt: the bytes appended right after a recorded position are read back from that position
   (block byte offset, offset in block), whatever happened before and whatever is appended later *)
Theorem meta_rt : forall compress uncompress, contract compress uncompress ->
  forall keep ops1 d ops2 m1 mf fuel,
    mw_run compress (mw_init keep) ops1 = Ok m1 ->
    mw_run compress m1 (MAppend d :: ops2 ++ [MFlush]) = Ok mf ->
    (length (mw_disk mf) <= fuel)%nat ->
    meta_read uncompress fuel (mw_disk mf) (fst (mw_position m1)) (snd (mw_position m1)) (lenN d) = Some d.
Proof. exact meta_rt_l. Qed.
Print Assumptions meta_rt.

(* KEEP_IN_MEMORY (directory table): writing the kept blocks out moves them unchanged *)
Theorem meta_keep_in_memory : forall compress uncompress, contract compress uncompress ->
  forall keep ops m,
    mw_run compress (mw_init keep) ops = Ok m ->
    mw_disk (mw_write_to_file m) = mw_disk m /\
    mw_out (mw_write_to_file m) = mw_disk m /\ mw_mem (mw_write_to_file m) = [].
Proof. exact meta_write_to_file_l. Qed.
Print Assumptions meta_keep_in_memory.

(* ------------------------------------------------------------------------------------------ *)
(* directory writer (lib/sqfs/src/dir_writer.c)                                                 *)
(* ------------------------------------------------------------------------------------------ *)

(* get_conseq_entry_count: for every offset and every non-empty entry list (arbitrary names, inode
   references and numbers) the run it selects has 1..SQFS_MAX_DIR_ENT (<= 256) entries, all in the inode
   metadata block of the first one, with 32 bit differences of the inode numbers in -32767..32767, and,
   if it has more than one entry, does not cross a metadata block boundary *)
Theorem dir_run_limits : forall offset head rest,
  let l := head :: rest in
  let c := gcec offset l in
  1 <= c /\ c <= MAX_ENT /\ c <= lenN l /\
  Forall (run_member_ok head) (takeN c l) /\
  (2 <= c -> (offset + HDR_SZ) mod MB + run_bytes (takeN c l) <= MB).
Proof. exact gcec_spec. Qed.
Print Assumptions dir_run_limits.

Theorem dir_max_ent_is_format_limit : MAX_ENT <= 256.
Proof. exact MAX_ENT_le_256. Qed.

(* dir_runs_ok: for every list of representable entries and every start offset, the listing the writer
   emits parses back (independent readdir model) to exactly the entries, header by header; every header
   stands at the recorded byte position, has count in 1..256 and obeys the run limits *)
Theorem dir_runs_ok : forall off l,
  Forall dent_ok l ->
  let hs := hdrs_of (length l) off 0 l in
  parse_listing (length l) 0 (listing off l) = Some (map mk_rhdr hs) /\
  concat (map snd hs) = l /\
  Forall (fun h => run_ok (snd h)) hs /\
  (forall pre h post, hs = pre ++ h :: post -> fst h = lenN (listing_of pre)).
Proof. exact dir_listing_rt_l. Qed.
Print Assumptions dir_runs_ok.

(* the stateful model of sqfs_dir_writer_end (header / entry / name appended piecewise to the meta
   writer) emits exactly [listing], dir_size is its length, one index entry per header *)
Theorem dir_end_emits_listing : forall compress uncompress, contract compress uncompress ->
  forall w raws w',
    Idle compress (dw_dm w) raws -> dw_idx w = [] -> dw_size w = 0 ->
    dw_end compress w = Ok w' ->
    let off := mw_off (dw_dm w) in
    let hs := hdrs_of (length (dw_list w)) off 0 (dw_list w) in
    exists raws',
      adv compress (dw_dm w) raws (listing off (dw_list w)) (dw_dm w') raws' /\
      dw_size w' = lenN (listing off (dw_list w)) /\
      Forall2 (idx_rel compress (dw_dm w) raws 0 raws' (mw_cur (dw_dm w'))) (dw_idx w') hs /\
      dw_list w' = dw_list w /\ dw_ref w' = dw_ref w /\ dw_count w' = dw_count w /\
      dw_export w' = dw_export w.
Proof. exact dw_end_spec_l. Qed.
Print Assumptions dir_end_emits_listing.

Theorem dir_end_total : forall compress uncompress, contract compress uncompress ->
  forall w raws, Idle compress (dw_dm w) raws -> dw_end compress w <> Fuel.
Proof. exact dw_end_no_fuel_l. Qed.
Print Assumptions dir_end_total.

(* directory index: every index entry carries the first entry of its header, the listing offset of the
   header, and a block position from which -- with the offset the kernel computes, (directory offset +
   index) mod 8192 -- the complete run, header first, is read back after the stream has been flushed *)
Theorem dir_index_ok : forall compress uncompress, contract compress uncompress ->
  forall w raws w' ops mf fuel,
    Idle compress (dw_dm w) raws -> dw_idx w = [] -> dw_size w = 0 ->
    dw_end compress w = Ok w' ->
    mw_run compress (dw_dm w') (ops ++ [MFlush]) = Ok mf ->
    (length (mw_disk mf) <= fuel)%nat ->
    let off := mw_off (dw_dm w) in
    let hs := hdrs_of (length (dw_list w)) off 0 (dw_list w) in
    Forall2 (fun ix h =>
               hd_error (snd h) = Some (ix_ent ix) /\ ix_index ix = fst h mod U32 /\
               meta_read uncompress fuel (mw_disk mf) (ix_block ix) ((off + fst h) mod MB)
                         (lenN (enc_run (snd h))) = Some (enc_run (snd h)))
            (dw_idx w') hs.
Proof. exact dir_index_read_l. Qed.
Print Assumptions dir_index_ok.

(* sqfs_dir_writer_create_inode: basic vs extended, size field = listing size + 3, index payload *)
Theorem dir_inode_ok : forall w hl xattr parent,
  let di := dw_create_inode w hl xattr parent in
  (di_ext di = true <->
     xattr <> 4294967295 \/ 4294967295 < dw_ref w / U16 \/ 65532 < dw_size w \/
     c_DIR_INDEX_THRESHOLD <= dw_count w) /\
  (di_ext di = false -> di_size di = dw_size w + 3 /\ di_size di < 65536 /\
                        di_start_block di = dw_ref w / U16 /\ di_index di = [] /\ di_icount di = 0) /\
  (di_ext di = true ->
     di_size di = (dw_size w + 3) mod U32 /\ di_icount di = lenN (dw_idx w) mod U16 /\
     di_xattr di = xattr /\
     di_index di = map (fun i => (ix_index i, ix_block i mod U32,
                                  (lenN (de_name (ix_ent i)) - 1) mod U32, de_name (ix_ent i))) (dw_idx w)) /\
  di_offset di = dw_ref w mod U16 /\ di_parent di = parent /\
  di_nlink di = (dw_count w + hl + 2) mod U32.
Proof. exact dir_inode_ok_l. Qed.
Print Assumptions dir_inode_ok.

(* export table: slot inum-1 receives the reference, the table grows to inum, nothing else changes *)
Theorem export_table_total : forall l inum iref,
  1 <= inum ->
  exists l', export_add (Some l) inum iref = Ok (Some l') /\
    lenN l' = N.max (lenN l) inum /\
    nth (N.to_nat (inum - 1)) l' U64MAX = iref /\
    (forall j, j <> N.to_nat (inum - 1) -> nth j l' U64MAX = nth j l U64MAX).
Proof. exact export_add_spec. Qed.
Print Assumptions export_table_total.

(* ------------------------------------------------------------------------------------------ *)
(* lookup tables, super block, padding (write_table.c, super.c, write_super.c, finish.c)        *)
(* ------------------------------------------------------------------------------------------ *)

(* sqfs_write_table: ceil(size/8192) blocks, each located by its entry of the location list, which
   follows the last block directly and is where *start points *)
Theorem table_layout_ok : forall compress uncompress, contract compress uncompress ->
  forall size0 data bytes start,
    write_table compress size0 data = Ok (bytes, start) ->
    exists chunks,
      concat chunks = data /\
      Forall (fun ch => 0 < lenN ch /\ lenN ch <= MB) chunks /\
      Forall (fun ch => lenN ch = MB) (removelast chunks) /\
      lenN chunks = (lenN data + MB - 1) / MB /\
      bytes = concat (map (enc compress) chunks) ++ concat (map le64 (table_locs compress size0 chunks)) /\
      start = size0 + lenN (concat (map (enc compress) chunks)) /\
      forall k, (k < length chunks)%nat ->
        read_block uncompress bytes (nth k (table_locs compress size0 chunks) 0 - size0)
        = Some (nth k chunks [], stored_size compress (nth k chunks []), is_comp compress (nth k chunks [])).
Proof. exact write_table_ok_l. Qed.
Print Assumptions table_layout_ok.

(* sqfs_super_init accepts exactly the powers of two in [4096, 1 MiB] and then block_size = 2^block_log *)
Theorem super_init_ok : forall bs mtime comp s,
  super_init bs mtime comp = Ok s ->
  s_block_size s = bs /\ bs = 2 ^ s_block_log s /\ c_SQFS_MIN_BLOCK_SIZE <= bs /\ bs <= c_SQFS_MAX_BLOCK_SIZE /\
  s_magic s = c_SQFS_MAGIC /\ s_vmaj s = 4 /\ s_vmin s = 0 /\ s_bytes_used s = sizeof_sqfs_super_t.
Proof. exact super_init_ok_l. Qed.
Print Assumptions super_init_ok.

(* sqfs_super_write: 96 bytes; the 13 fields listed below little endian at their struct offsets (mtime, fragment count,
   compressor id, flags and the two version fields are not restated here: the whole-struct round trip is
   image_super_roundtrip further down) *)
Theorem super_write_ok : forall s,
  super_fields_ok s ->
  lenN (super_write s) = sizeof_sqfs_super_t /\
  rd32 (dropN off_sqfs_super_t_magic (super_write s)) = s_magic s /\
  rd32 (dropN off_sqfs_super_t_inode_count (super_write s)) = s_inode_count s /\
  rd32 (dropN off_sqfs_super_t_block_size (super_write s)) = s_block_size s /\
  rd16 (dropN off_sqfs_super_t_block_log (super_write s)) = s_block_log s /\
  rd16 (dropN off_sqfs_super_t_id_count (super_write s)) = s_id_count s /\
  rd64 (dropN off_sqfs_super_t_root_inode_ref (super_write s)) = s_root s /\
  rd64 (dropN off_sqfs_super_t_bytes_used (super_write s)) = s_bytes_used s /\
  rd64 (dropN off_sqfs_super_t_id_table_start (super_write s)) = s_id_start s /\
  rd64 (dropN off_sqfs_super_t_xattr_id_table_start (super_write s)) = s_xattr_start s /\
  rd64 (dropN off_sqfs_super_t_inode_table_start (super_write s)) = s_inode_start s /\
  rd64 (dropN off_sqfs_super_t_directory_table_start (super_write s)) = s_dir_start s /\
  rd64 (dropN off_sqfs_super_t_fragment_table_start (super_write s)) = s_frag_start s /\
  rd64 (dropN off_sqfs_super_t_export_table_start (super_write s)) = s_export_start s.
Proof. exact super_write_ok_l. Qed.
Print Assumptions super_write_ok.

(* padd_sqfs: the padded size is the next multiple of the device block size, less than one block added *)
Theorem padding_ok : forall size blk, 0 < blk ->
  (size + pad_len size blk) mod blk = 0 /\ pad_len size blk < blk.
Proof. exact pad_len_ok. Qed.
Print Assumptions padding_ok.

(* ------------------------------------------------------------------------------------------ *)
(* inode numbering (lib/fstree/src/post_process.c)                                              *)
(* ------------------------------------------------------------------------------------------ *)

(* alloc_inode_num_dfs + root: the numbers, in the order they are handed out, are exactly 1, 2, .., N
   (N = number of nodes that are not hard link entries, root included, root last), and every node gets
   a number greater than those of all its descendants.  (This model has no hard link entries being re-ordered:
   reorder_hard_links is NOT part of C03/NumModel.  The statement that serialization really has the reference of
   every child and link target at hand - with reorder_hard_links - is post_tree_structure / post_tree_representable
   in Properties_C01.v section 5, over the lib/fstree model of coq/C11 + coq/ImgPost.) *)
Theorem inode_numbers_dense : forall t,
  let nums := numbering t in
  map snd nums = map N.of_nat (seq 1 (count_nodes t)) /\
  children_before_parents nums.
Proof. exact numbering_dense_l. Qed.
Print Assumptions inode_numbers_dense.

(* ------------------------------------------------------------------------------------------ *)
(* non-vacuity                                                                                  *)
(* ------------------------------------------------------------------------------------------ *)

(* the oracle contract is satisfiable: the toy compressor of the component harness meets it *)
Theorem toy_meets_contract : forall mode, mode <= 1 -> contract (toy_compress mode) toy_uncompress.
Proof. exact toy_contract. Qed.
Print Assumptions toy_meets_contract.

Definition ent (name : list N) (ref num : N) : dent := mkDent name ref num 2.
Definition small_dir : list dent :=
  [ent [97] 32 5; ent [98; 98] 64 6; ent [99] (8194 * 65536 + 3) 7; ent [100] (8194 * 65536 + 40) 40000;
   ent [101] (8194 * 65536 + 80) 40001].

(* three headers: inode block change after "bb", inode number jump > 32767 after "c" *)
Example ex_dir_runs :
  map (fun h => (fst h, map de_name (snd h))) (hdrs_of 5 100 0 small_dir)
  = [(0, [[97]; [98; 98]]); (31, [[99]]); (52, [[100]; [101]])].
Proof. vm_compute. reflexivity. Qed.

Example ex_dir_listing_parses :
  match parse_listing 5 0 (listing 100 small_dir) with
  | Some hs => concat (map snd hs) = small_dir /\ map (fun h => rh_count (fst h)) hs = [2; 1; 2]
  | None => False
  end.
Proof. vm_compute. split; reflexivity. Qed.

Example ex_small_dir_ok : Forall dent_ok small_dir.
Proof.
  unfold small_dir.
  repeat (apply Forall_cons; [unfold dent_ok; vm_compute; repeat split; (discriminate || reflexivity)|]).
  apply Forall_nil.
Qed.

(* 300 entries in one inode block: 256 + 44 *)
Definition many (n : nat) : list dent := map (fun i => ent [N.of_nat i mod 200 + 1; 65] 96 (N.of_nat i + 1)) (seq 0 n).
Example ex_256_limit : map (fun h => lenN (snd h)) (hdrs_of 300 0 0 (many 300)) = [256; 44].
Proof. vm_compute. reflexivity. Qed.

(* delta of exactly 32767 stays in the run, 32768 starts a new header *)
Example ex_delta_limit :
  (gcec 0 [ent [65] 0 10; ent [66] 0 (10 + 32767)], gcec 0 [ent [65] 0 10; ent [66] 0 (10 + 32768)],
   gcec 0 [ent [65] 0 40000; ent [66] 0 (40000 - 32767)], gcec 0 [ent [65] 0 40000; ent [66] 0 (40000 - 32768)])
  = (2, 1, 2, 1).
Proof. vm_compute. reflexivity. Qed.

(* the stateful writer on a KEEP_IN_MEMORY meta writer with the RLE toy compressor: 10000 bytes of
   prefix, then the small directory; the recorded index entries and the inode *)
Definition ex_writer : res dw :=
  match mw_append (toy_compress 1) (mw_init true) (repeat 7 (N.to_nat 10000)) with
  | Ok dm =>
    let w := dw_begin (dw_create dm false) in
    dw_end (toy_compress 1)
      (mkDw small_dir (dw_idx w) (dw_ref w) (dw_size w) 5 (dw_dm w) (dw_export w))
  | Err e => Err e
  | Fuel => Fuel
  end.

Example ex_writer_runs :
  match ex_writer with
  | Ok w => dw_ref w = 6 * 65536 + 1808 /\ dw_size w = 82 /\
            map (fun i => (ix_block i, ix_index i, de_name (ix_ent i))) (dw_idx w)
            = [(6, 0, [97]); (6, 31, [99]); (6, 52, [100])] /\
            di_ext (dw_create_inode w 0 4294967295 9) = false /\
            di_size (dw_create_inode w 0 4294967295 9) = 85
  | _ => False
  end.
Proof. vm_compute. repeat split; reflexivity. Qed.

(* meta writer: 8192 equal bytes compress to 4, 100 other bytes are stored with the 0x8000 flag *)
Example ex_meta_blocks :
  match mw_run (toy_compress 1) (mw_init false) [MAppend (repeat 9 (N.to_nat 8192) ++ map N.of_nat (seq 0 100)); MFlush] with
  | Ok m => parse_blocks toy_uncompress 10 (mw_disk m) 0
            = Some [(repeat 9 (N.to_nat 8192), 4, true); (map N.of_nat (seq 0 100), 100, false)] /\ mw_boff m = 108
  | _ => False
  end.
Proof. vm_compute. split; reflexivity. Qed.

(* /: a (dir: x, hard link, y), b (file), c (dir: z) *)
Example ex_numbering :
  numbering (TDir [TDir [TLeaf false; TLeaf true; TLeaf false]; TLeaf false; TDir [TLeaf false]])
  = [([0; 0]%nat, 1); ([0; 2]%nat, 2); ([2; 0]%nat, 3); ([0]%nat, 4); ([1]%nat, 5); ([2]%nat, 6); ([], 7)].
Proof. vm_compute. reflexivity. Qed.

Example ex_table :
  match write_table (toy_compress 1) 96 (repeat 3 (N.to_nat 8192) ++ [1; 2; 3]) with
  | Ok (bytes, start) => start = 96 + 6 + 5 /\ lenN bytes = 6 + 5 + 16 /\ dropN 11 bytes = le64 96 ++ le64 102
  | _ => False
  end.
Proof. vm_compute. repeat split; reflexivity. Qed.

Example ex_super : match super_init 131072 7 4 with
                   | Ok s => s_block_log s = 17 /\ lenN (super_write s) = 96
                   | _ => False end.
Proof. vm_compute. split; reflexivity. Qed.

Example ex_super_refuses : super_init 12288 0 1 = Err c_SQFS_ERROR_SUPER_BLOCK_SIZE.
Proof. reflexivity. Qed.

(* ------------------------------------------------------------------------------------------ *)
(* composition: the listings sqfs_serialize_fstree writes (lib/common/src/writer/serialize_fstree.c) *)
(* ------------------------------------------------------------------------------------------ *)
(* Model coq/Img/TreeModel.v (built from the models above and C01's inode models); domain: the boolean predicates
   representable (tree) and trace_fits (run: tables below 4 GiB, fewer than 65536 headers per directory). *)
From SqfsV Require C01.Res C01.InodeModel C01.InodeProofs.
From SqfsV Require Import Img.TreeModel Img.DirWF.
From SqfsV Require Img.Example Img.ZrleProofs.

(* for every directory of every tree: the directory inode that was written locates (start block, offset, size - 3) a
   byte range of the directory table that is exactly the listing of the directory's entries; the listing parses into
   header runs of 1 .. SQFS_MAX_DIR_ENT entries that share the inode block of the run's first entry and whose inode
   number deltas fit 16 bits (run_ok, see dir_runs_ok); names are strictly sorted; and every entry's
   (start_block << 16 | offset, inode number, type) points at the inode written for the node the entry names:
   the reference resolves to that inode, whose inode number and type are the entry's *)
Theorem serialized_dirs_wellformed : forall compress uncompress, contract compress uncompress ->
  forall limit, limit <= 65536 ->
  forall bs t img,
  representable bs t = true -> serialize_fstree compress limit t = Res.Ok img -> trace_fits img = true ->
  forall j n par ch i,
    nth_error t j = Some n -> fn_payload n = PDir par ch -> nth_error (si_inodes img) j = Some i ->
    exists sb off s ents,
      dir_loc (InodeModel.i_body i) = Some (sb, off, s + 3) /\
      meta_read uncompress (length (si_dtbl img)) (si_dtbl img) sb off s = Some (listing off ents) /\
      lenN (listing off ents) = s /\
      (let hs := hdrs_of (length ents) off 0 ents in
       parse_listing (length ents) 0 (listing off ents) = Some (map mk_rhdr hs) /\
       concat (map snd hs) = ents /\ Forall (fun h => run_ok (snd h)) hs) /\
      sorted_names (map de_name ents) = true /\
      Forall2 (entry_points_at uncompress bs img) ch ents.
Proof. exact dirs_wellformed_l. Qed.
Print Assumptions serialized_dirs_wellformed.

(* non-vacuity: the hypotheses hold of the 96 inode example tree of Img/Example.v with the zero-run-length compressor *)
Example ex_serialized_dirs_hyps :
  contract (img_compress 3) (img_uncompress 3) /\ representable 4096 Example.ex_tree = true /\
  match serialize_fstree (img_compress 3) GenC01.c_id_table_limit Example.ex_tree with
  | Res.Ok img => trace_fits img = true
  | _ => False
  end.
Proof.
  split; [exact (ZrleProofs.img_contract 3 (or_intror eq_refl))|].
  split; [exact Example.ex_tree_representable|].
  pose proof Example.ex_tree_roundtrip as H. unfold Example.ex_img in H.
  destruct (serialize_fstree (img_compress 3) GenC01.c_id_table_limit Example.ex_tree); try exact H. apply H.
Qed.

(* ------------------------------------------------------------------------------------------ *)
(* whole image: sqfs_writer_init + sqfs_writer_finish (lib/common/src/writer/init.c, finish.c)     *)
(* ------------------------------------------------------------------------------------------ *)
(* Model coq/Image/FinishModel.v: write_image (super block provisional write, compressor options, data area, inode
   table, directory table, fragment table, export table, id table, xattr section, bytes_used, flags, final super block,
   padding) on top of C14's super block codec, Img's serialize_fstree and the table writer above.  The data area, the
   fragment entries and the xattr section are inputs (C08 / C01 own them).  Reader side: coq/Image/ReaderModel.v
   (read_super, read_table, read_ids / read_frags / read_export, read_image_tree) and the executable validator
   coq/Image/ValidModel.v (valid_image), both written from doc/format.adoc.
   Domain: image_domain cfg inp (decidable, inputs: representable tree, compressor id 1..6, fragment entries fit
   their fields, compressor options = nothing or one uncompressed metadata block, xattr header inside the xattr
   section) and image_fits w (decidable, the run: Img's trace_fits and bytes_used < 2^64). *)
From SqfsV Require C14.SuperModel.
From SqfsV Require Import Image.FinishModel Image.ReaderModel Image.ValidModel Image.FinishProofs Image.ExportInv
  Image.ImageProofs.
From SqfsV Require Image.Example.

(* image_layout_ok: the file is super block ++ options ++ data ++ inode table ++ directory table ++ fragment table ++
   export table ++ id table ++ xattr section ++ zero padding, in this order; inode_table_start / directory_table_start
   are the offsets of those sections; every lookup table start points at the location list that ends its section
   (section start + 2 <= start, start + 8 * ceil(count * entry size / 8192) = start of the next section), an omitted
   table has start 0xFFFFFFFFFFFFFFFF and an empty section; bytes_used = 96 + everything written = offset of the
   padding; the file length is bytes_used + padding, a multiple of the device block size, padding < device block;
   inode / id / fragment counts, root reference, block size and block_log = log2 block_size are those of the inputs;
   the flag word is flags_of (COMPRESSOR_OPTIONS iff options were written, NO_FRAGMENTS iff the fragment table is
   empty, EXPORTABLE iff an export table was written, NO_XATTRS unless an xattr section was written: final_flags_bits) *)
Theorem image_layout_ok : forall compress uncompress, contract compress uncompress ->
  forall limit, limit <= 65535 ->
  forall cfg inp w,
  write_image compress limit cfg inp = Res.Ok w -> image_domain cfg inp = true -> image_fits w = true ->
  ImageLayout cfg inp w (c_devblk cfg).
Proof.
  exact (fun c u H l Hl cfg inp w Hw Hd Hf => image_layout_l c u H l Hl cfg inp w Hw Hd Hf (c_devblk cfg) eq_refl).
Qed.
Print Assumptions image_layout_ok.

(* image_super_roundtrip: the reader specification (doc/format.adoc "The Superblock": field table, magic, version 4.0,
   block size a power of two in 4 KiB .. 1 MiB, block_log = log2 block_size, compressor id 1 .. 6) reads from the
   image bytes exactly the super block sqfs_writer_finish committed *)
Theorem image_super_roundtrip : forall compress uncompress, contract compress uncompress ->
  forall limit, limit <= 65535 ->
  forall cfg inp w,
  write_image compress limit cfg inp = Res.Ok w -> image_domain cfg inp = true -> image_fits w = true ->
  read_super (image_bytes w) = Some (w_super w).
Proof. exact super_roundtrip_l. Qed.
Print Assumptions image_super_roundtrip.

(* image_tables_roundtrip: read through the location lists the super block points at ("Storing Lookup Tables"), the
   id table is the id table sqfs_serialize_fstree built, the fragment table is the list of (start, size, 0) entries the
   block processor left, and the export table (iff cfg->exportable) has one slot per inode, slot k = the reference
   recorded for inode k + 1 or 0xFFFFFFFFFFFFFFFF, and it IS that reference for the root and for every inode that
   occurs as an entry of some directory *)
Theorem image_tables_roundtrip : forall compress uncompress, contract compress uncompress ->
  forall limit, limit <= 65535 ->
  forall cfg inp w,
  write_image compress limit cfg inp = Res.Ok w -> image_domain cfg inp = true -> image_fits w = true ->
  let b := image_bytes w in
  let t := in_tree inp in
  read_ids uncompress b (w_super w) = Some (si_ids (w_img w)) /\
  read_frags uncompress b (w_super w) = Some (map (fun f => (fst f, snd f, 0)) (in_frags inp)) /\
  ((c_exportable cfg = false /\ w_export w = None /\ read_export uncompress b (w_super w) = Some None) \/
   (c_exportable cfg = true /\ exists l,
      w_export w = Some l /\ read_export uncompress b (w_super w) = Some (Some l) /\ lenN l = Res.nlen t /\
      (forall k, nth k l U64MAX = ref_of (si_refs (w_img w)) (N.of_nat k + 1) \/ nth k l U64MAX = U64MAX) /\
      (forall c, c = Res.nlen t \/ In c (kids_upto t (length t)) ->
                 nth (N.to_nat (c - 1)) l U64MAX = ref_of (si_refs (w_img w)) c))).
Proof.
  exact (fun c u H l Hl cfg inp w Hw Hd Hf =>
           conj (ids_roundtrip_l c u H l Hl cfg inp w Hw Hd Hf)
                (conj (frags_roundtrip_l c u H l Hl cfg inp w Hw Hd Hf)
                      (export_roundtrip_l c u H l Hl cfg inp w Hw Hd Hf))).
Qed.
Print Assumptions image_tables_roundtrip.

(* image_tree_roundtrip: reading the tree FROM THE IMAGE BYTES — super block, id table through its location list, inode
   table = [inode_table_start, directory_table_start), directory table = [directory_table_start, first lookup table
   block), root reference, inode count as fuel — yields the tree that was serialized (Img.tree_roundtrip composed
   with the layout) *)
Theorem image_tree_roundtrip : forall compress uncompress, contract compress uncompress ->
  forall limit, limit <= 65535 ->
  forall cfg inp w,
  write_image compress limit cfg inp = Res.Ok w -> image_domain cfg inp = true -> image_fits w = true ->
  let t := in_tree inp in
  exists lt, spec_tree t (length t) (Res.nlen t) = Some lt /\
             read_image_tree uncompress (image_bytes w) = Some lt.
Proof. exact tree_roundtrip_image_l. Qed.
Print Assumptions image_tree_roundtrip.

(* writer_valid: the executable validator (doc/format.adoc; coq/Image/ValidModel.v) accepts every image write_image
   produces — all clauses: super block sane; v_size (bytes_used <= file size = next multiple of the device block, zero
   padding); v_order (section starts strictly ordered as the format prescribes); v_opts (compressor options flag <-> one
   uncompressed metadata block behind the super block); v_meta (inode and directory table are gap-free block
   sequences, every block header / content <= 8 KiB, stored size <= content size); v_chain (fragment / export / id table
   blocks are exactly where their location lists say, sections follow each other without gaps up to bytes_used);
   v_tables (table sizes match their counts); v_inodes (the inode table decodes into exactly inode_count inodes numbered
   1 .. inode_count, id indices inside the id table); v_root (the root reference is the start of a directory inode);
   v_dirs (every directory listing lies where its inode says, parses into header runs of <= 256 entries, names strictly
   sorted, every entry's reference is the START of the inode with the entry's number and type).
   The xattr section is an abstract input of the model: the hypothesis xattr_section_ok says it is empty or passes the
   validator's xattr_tail check in place (key-value blocks, id blocks, header + location list ending at bytes_used). *)
Theorem writer_valid : forall compress uncompress, contract compress uncompress ->
  forall limit, limit <= 65535 ->
  forall cfg inp w,
  write_image compress limit cfg inp = Res.Ok w -> image_domain cfg inp = true -> image_fits w = true ->
  xattr_section_ok uncompress w ->
  valid_image uncompress (c_devblk cfg) (image_bytes w) = true.
Proof.
  exact (fun c u H l Hl cfg inp w Hw Hd Hf => writer_valid_l c u H l Hl cfg inp w Hw Hd Hf (c_devblk cfg) eq_refl).
Qed.
Print Assumptions writer_valid.

(* the same, clause by clause (what each part of the validator says about the written image) *)
Theorem writer_valid_clauses : forall compress uncompress, contract compress uncompress ->
  forall limit, limit <= 65535 ->
  forall cfg inp w,
  write_image compress limit cfg inp = Res.Ok w -> image_domain cfg inp = true -> image_fits w = true ->
  xattr_section_ok uncompress w ->
  read_super (image_bytes w) = Some (w_super w) /\
  valid_layout uncompress (c_devblk cfg) (image_bytes w) (w_super w) = true /\
  valid_tree uncompress (image_bytes w) (w_super w) = true.
Proof.
  exact (fun c u H l Hl cfg inp w Hw Hd Hf Hx =>
           conj (super_roundtrip_l c u H l Hl cfg inp w Hw Hd Hf)
                (conj (valid_layout_l c u H l Hl cfg inp w Hw Hd Hf (c_devblk cfg) eq_refl Hx)
                      (valid_tree_l c u H l Hl cfg inp w Hw Hd Hf (c_devblk cfg) eq_refl))).
Qed.
Print Assumptions writer_valid_clauses.

(* non-vacuity: the hypotheses hold of a concrete image (96 inode tree of Img/Example.v, zero-run-length compressor,
   compressor options, data area, a fragment, export table), and of a second one without any optional section *)
Example ex_image_hyps :
  contract (img_compress 3) (img_uncompress 3) /\ GenC01.c_id_table_limit <= 65535 /\
  image_domain Example.ex_cfg Example.ex_inp = true /\ image_domain Example.ex_cfg2 Example.ex_inp2 = true /\
  match Example.ex_w, Example.ex_w2 with
  | Res.Ok w, Res.Ok w2 => image_fits w = true /\ image_fits w2 = true
  | _, _ => False
  end.
Proof.
  split; [exact (ZrleProofs.img_contract 3 (or_intror eq_refl))|]. split; [vm_compute; discriminate|].
  exact Example.ex_image_domain.
Qed.

(* on that image the WHOLE validator computes to true (all nine clauses), and rejects the image without its padding,
   with another device block size, with a trailing byte *)
Example ex_image_valid :
  match Example.ex_w, Example.ex_w2 with
  | Res.Ok w, Res.Ok w2 =>
      valid_image (img_uncompress 3) 4096 (image_bytes w) = true /\
      valid_image (img_uncompress 1) 1000 (image_bytes w2) = true /\
      lenN (image_bytes w) = 28672 /\ SuperModel.s_bytes_used (w_super w) = 28371 /\
      valid_image (img_uncompress 3) 4096 (takeN 28371 (image_bytes w)) = false /\
      valid_image (img_uncompress 3) 8192 (image_bytes w) = false /\
      valid_image (img_uncompress 3) 4096 (image_bytes w ++ [0]) = false
  | _, _ => False
  end.
Proof. exact Example.ex_image_valid. Qed.

(* and the reader specification returns the super block, the three tables and the tree *)
Example ex_image_reads_back :
  match Example.ex_w with
  | Res.Ok w =>
      let b := image_bytes w in
      read_super b = Some (w_super w) /\
      read_ids (img_uncompress 3) b (w_super w) = Some [1000; 100; 0] /\
      read_frags (img_uncompress 3) b (w_super w) = Some [(102, 16777316, 0)] /\
      match read_export (img_uncompress 3) b (w_super w) with
      | Some (Some l) => l = si_refs (w_img w) /\ lenN l = 96
      | _ => False
      end /\
      read_image_tree (img_uncompress 3) b = spec_tree Img.Example.ex_tree (length Img.Example.ex_tree) (Res.nlen Img.Example.ex_tree) /\
      Img.Example.is_some (read_image_tree (img_uncompress 3) b) = true /\
      SuperModel.s_flags (w_super w) = 1768
  | _ => False
  end.
Proof. exact Example.ex_image_reads_back. Qed.

(* image_trace_ok: the output calls write_image emits (provisional super block at 0, one call per section behind it,
   the committed super block at 0, the padding) applied to the empty file give exactly image_bytes, and the sequence
   has the shape C14 proves crash safety for (TraceModel.trace_ok: nothing touches the first 96 bytes between the two
   super block writes, the committed bytes_used lies inside the file, every table start of the committed super block is
   absent or inside [96, bytes_used), the tail stays behind bytes_used).  (One event per section: the real system call
   sequence is finer; C14 checks that one on logged runs.) *)
From SqfsV Require C14.TraceModel.
Theorem image_trace_ok : forall compress uncompress, contract compress uncompress ->
  forall limit, limit <= 65535 ->
  forall cfg inp w,
  write_image compress limit cfg inp = Res.Ok w -> image_domain cfg inp = true -> image_fits w = true ->
  TraceModel.apply (w_trace w) = image_bytes w /\ TraceModel.trace_ok (w_trace w).
Proof.
  exact (fun c u H l Hl cfg inp w Hw Hd Hf =>
           conj (trace_applies_l c u H l Hl cfg inp w Hw Hd (c_devblk cfg) eq_refl)
                (trace_ok_l c u H l Hl cfg inp w Hw Hd Hf (c_devblk cfg) eq_refl)).
Qed.
Print Assumptions image_trace_ok.

(* ------------------------------------------------------------------------------------------ *)
(* the xattr section: sqfs_xattr_writer_flush (lib/sqfs/src/xattr/xattr_writer_flush.c) at byte level      *)
(* ------------------------------------------------------------------------------------------ *)
(* Model coq/ImgXattr/FlushModel.v: xflush, statement by statement on the meta writer model above (write_key / write_value /
   write_value_ool / write_block_pairs / write_kv_pairs incl. the (block << 16) | offset references taken from
   sqfs_meta_writer_get_position, sqfs_meta_writer_reset, alloc_location_table, write_id_table with the locations[] array and
   the i < loc_count guard of fix F06, locations[i] + id_start, header + location words at the end of the id blocks), from the
   writer state of C01.XattrModel (key / value tables, reference counts, de-duplicated key-value blocks).  Its result has the
   shape of Image.FinishModel.in_xattr, so the whole-image theorems above compose with it: the hypothesis
       xflush compress (o_xattr w) xw = Ok (in_xattr inp)
   says "the xattr section of the image is what the flush model appends where the id table ends".
   Reader side: coq/ImgXattr/XattrRead.v (read_xattr_table, read_xattr_set, validator clause v_xattr), written from
   doc/format.adoc "Extended Attribute Table".  No bound on the number of sets. *)
From SqfsV Require Import C01.XattrModel C01.XattrProofs C01.XattrWriterProofs.
From SqfsV Require Import ImgXattr.FlushModel ImgXattr.CodecRel ImgXattr.KvRefine ImgXattr.FlushShape ImgXattr.XattrRead
  ImgXattr.ImageXattr.
From SqfsV Require ImgXattr.Example.

(* xattr_flush_layout: what the flush appends is  key-value metadata blocks ++ id metadata blocks ++ { kv_start, count, 0 } ++
   location words, where (xshape) the key-value blocks are the logical key/value stream of C01's model cut every 8192 bytes
   (all blocks full but the last) with every reference = on-disk start of the block (relative to kv_start) << 16 | offset, the
   id blocks hold the 16 byte descriptors (512 per block, all full but the last, ceil(count / 512) blocks), and location word k
   is EXACTLY the absolute start of id block k (size0 + size of the key-value area + sizes of the id blocks before it: the
   block_offset of a writer that was reset after the key-value area); the returned header offset is behind the last id block *)
Theorem xattr_flush_layout : forall compress uncompress, contract compress uncompress ->
  forall size0 xw bytes off,
  xflush compress size0 xw = Res.Ok (Some (bytes, off)) ->
  exists kvr idr descs, xshape compress size0 xw bytes off kvr idr descs.
Proof. exact (fun c u H => xflush_shape c u H). Qed.
Print Assumptions xattr_flush_layout.

(* xattr_flush_section_ok: the section the flush model produces satisfies the hypothesis xattr_section_ok of writer_valid (it is
   empty, or passes the validator's xattr_tail check in place: header inside the file, kv_start = end of the id table section,
   count >= 1, the location words are exactly the consecutive id block starts and the last id block ends at the header, the
   key-value blocks tile [kv_start, first id block), every block <= 8 KiB with stored size <= content size, the location list
   ends at bytes_used) *)
Theorem xattr_flush_section_ok : forall compress uncompress, contract compress uncompress ->
  forall limit, limit <= 65535 ->
  forall cfg inp w,
  write_image compress limit cfg inp = Res.Ok w -> image_domain cfg inp = true -> image_fits w = true ->
  forall xw, xflush compress (o_xattr w) xw = Res.Ok (in_xattr inp) -> Res.nlen (x_blocks xw) < 4294967296 ->
  xattr_section_ok uncompress w.
Proof. exact xattr_flush_section_ok_l. Qed.
Print Assumptions xattr_flush_section_ok.

(* writer_valid_with_xattrs: writer_valid without its xattr hypothesis, for images whose xattr section comes from the flush
   model (any writer state, any number of sets below 2^32) *)
Theorem writer_valid_with_xattrs : forall compress uncompress, contract compress uncompress ->
  forall limit, limit <= 65535 ->
  forall cfg inp w,
  write_image compress limit cfg inp = Res.Ok w -> image_domain cfg inp = true -> image_fits w = true ->
  forall xw, xflush compress (o_xattr w) xw = Res.Ok (in_xattr inp) -> Res.nlen (x_blocks xw) < 4294967296 ->
  valid_image uncompress (c_devblk cfg) (image_bytes w) = true.
Proof. exact writer_valid_with_xattrs_l. Qed.
Print Assumptions writer_valid_with_xattrs.

(* xattr_refs_resolve: when the writer state is the result of recording key/value sets (sqfs_xattr_writer_begin / add_kv / end,
   C01's xw_sets), the validator clause v_xattr holds of the image: the header and the location list decode, the id blocks hold
   count * 16 bytes, and for EVERY index below count the descriptor's reference names a block of the key-value area and an
   offset inside it, `count` pairs parse from there (every out-of-line reference resolving the same way), they end exactly
   `size` bytes later and inside the stream.  (Domain: compressed section < 2^48 bytes so that block offsets fit a reference,
   uncompressed key-value stream < 4 GiB (kv_bound: 16 + key + value bytes per pair) so that the 32 bit size field is exact.) *)
Theorem xattr_refs_resolve : forall compress uncompress, contract compress uncompress ->
  forall limit, limit <= 65535 ->
  forall cfg inp w,
  write_image compress limit cfg inp = Res.Ok w -> image_domain cfg inp = true -> image_fits w = true ->
  forall xw, xflush compress (o_xattr w) xw = Res.Ok (in_xattr inp) -> Res.nlen (x_blocks xw) < 4294967296 ->
  forall sets idxs, Forall set_ok sets -> xw_sets xw_empty sets = Res.Ok (xw, idxs) ->
  lenN (w_xattrb w) < 281474976710656 -> kv_bound xw < 4294967296 ->
  v_xattr uncompress (image_bytes w) (w_super w) = true.
Proof. exact xattr_refs_resolve_l. Qed.
Print Assumptions xattr_refs_resolve.

(* image_xattr_roundtrip: reading set k FROM THE IMAGE BYTES — super block xattr table start, header, location list, id block
   idx / 512 at offset (idx * 16) % 8192, key-value blocks [kv_start, first id block), reference -> block + offset, pairs with
   prefix ids and out-of-line values — returns the key/value set recorded for it (as a set: last value per key, C01's
   set_spec), for every index sqfs_xattr_writer_end returned; "no pairs" is 0xFFFFFFFF and reads as the empty set.  Composition
   of C01's refinement of the recording functions (xw_sets_spec) with the flush model, the meta writer round trip and the
   layout of the whole image. *)
Theorem image_xattr_roundtrip : forall compress uncompress, contract compress uncompress ->
  forall limit, limit <= 65535 ->
  forall cfg inp w,
  write_image compress limit cfg inp = Res.Ok w -> image_domain cfg inp = true -> image_fits w = true ->
  forall xw, xflush compress (o_xattr w) xw = Res.Ok (in_xattr inp) -> Res.nlen (x_blocks xw) < 4294967296 ->
  forall sets idxs, Forall set_ok sets -> xw_sets xw_empty sets = Res.Ok (xw, idxs) ->
  lenN (w_xattrb w) < 281474976710656 ->
  c_no_xattr cfg = false -> Res.nlen (x_blocks xw) < NOIDX ->
  length idxs = length sets /\
  forall i kvs idx, nth_error sets i = Some kvs -> nth_error idxs i = Some idx ->
    exists l, read_xattr_set uncompress (image_bytes w) (w_super w) idx = Res.Ok l /\ Permutation.Permutation l (set_spec kvs).
Proof. exact image_xattr_roundtrip_l. Qed.
Print Assumptions image_xattr_roundtrip.

(* xattr_codec_roundtrip_rel: the codec round trip on logical streams with block-start hypotheses that CAN hold.  (Since the
   integrator restated Properties_C01.xattr_rt from the same lemma this statement is a duplicate of it, kept because C03's
   image_xattr_roundtrip cites it.)  History: until session 3 Properties_C01.xattr_rt asked "seeking to the start of block k finds block k" and "block starts fit 48 bits"
   of ALL k : N, which no function satisfies (an injection N -> [0, 2^48)); now they are asked of the nK / nT blocks the two
   flushed streams use (ImgXattr/CodecRel.v; non-vacuity: ex_xattr_rel_hyps below) *)
Theorem xattr_codec_roundtrip_rel :
  forall (bsK bsT : N -> N) (bidxK bidxT : N -> option N) (nK nT : N),
  (forall k, k < nK -> bidxK (bsK k) = Some k /\ bsK k < 281474976710656) ->
  (forall k, k < nT -> bidxT (bsT k) = Some k) -> bsT 0 = 0 ->
  forall sets w idxs,
    Forall set_ok sets -> xw_sets xw_empty sets = Res.Ok (w, idxs) -> Res.nlen (x_blocks w) < NOIDX ->
    (forall img, flush bsK bsT true w = Res.Ok (Some img) -> Res.nlen (xi_kv img) <= nK * META) ->
    16 * Res.nlen (x_blocks w) / 8192 < nT ->
    length idxs = length sets /\
    match flush bsK bsT true w with
    | Res.Ok None => forall i kvs, nth_error sets i = Some kvs -> kvs = [] /\ nth_error idxs i = Some NOIDX
    | Res.Ok (Some img) =>
        forall i kvs idx, nth_error sets i = Some kvs -> nth_error idxs i = Some idx ->
          exists l, rd_all bidxK bidxT img idx = Res.Ok l /\ Permutation.Permutation l (set_spec kvs)
    | _ => False
    end.
Proof. exact xattr_rt_rel. Qed.
Print Assumptions xattr_codec_roundtrip_rel.

(* ---- non-vacuity ---- *)
(* the hypotheses of the four image-level theorems hold of two concrete runs (hyps_ok is the conjunction of the decidable ones;
   Forall set_ok of C01's example sets: ex_xattr_rel_hyps below; contract / limit: ex_image_hyps above): the 96
   inode image of Image/Example.v with (a) the four sets of C01's example, a shared 20 byte value stored out of line, and (b) 600
   distinct sets — two id blocks (512 + 88 descriptors), two key-value blocks, every third set sharing a 40 byte value *)
Example ex_xattr_image_hyps :
  ImgXattr.Example.hyps_ok ex_sets ImgXattr.Example.ex_small = true /\
  ImgXattr.Example.hyps_ok ImgXattr.Example.ex_big_sets ImgXattr.Example.ex_big = true /\
  Forall set_ok ImgXattr.Example.ex_big_sets.
Proof. exact (conj ImgXattr.Example.ex_small_hyps (conj ImgXattr.Example.ex_big_hyps ImgXattr.Example.ex_big_sets_ok)). Qed.

(* in particular the hypothesis xattr_section_ok of writer_valid / writer_valid_clauses holds with a NON-EMPTY xattr section
   (its second disjunct: xattr_tail computes to true in place), and with the empty one of the two images of ex_image_hyps *)
Example ex_xattr_section_ok_nonempty :
  match snd ImgXattr.Example.ex_small, Image.Example.ex_w, Image.Example.ex_w2 with
  | Res.Ok w, Res.Ok w1, Res.Ok w2 =>
      w_xattrb w <> [] /\ lenN (w_xattrb w) = 98 /\
      xattr_tail (img_uncompress 3) (image_bytes w) (w_super w) (o_xattr w) = true /\
      xattr_section_ok (img_uncompress 3) w /\
      xattr_section_ok (img_uncompress 3) w1 /\ xattr_section_ok (img_uncompress 1) w2
  | _, _, _ => False
  end.
Proof.
  vm_compute. split; [discriminate|]. split; [reflexivity|]. split; [reflexivity|].
  split; [right; reflexivity|]. split; left; reflexivity.
Qed.

(* on those images everything computes: the whole validator and v_xattr accept, NO_XATTRS is cleared, the sets read back from
   the bytes (index 2 of 2 sets is refused), and an image whose last location word is off by two is rejected *)
Example ex_xattr_small_valid :
  match snd ImgXattr.Example.ex_small with
  | Res.Ok w =>
      let b := image_bytes w in
      valid_image (img_uncompress 3) 4096 b = true /\
      v_xattr (img_uncompress 3) b (w_super w) = true /\
      SuperModel.s_flags (w_super w) = 1256 /\
      read_xattr_set (img_uncompress 3) b (w_super w) 0 = Res.Ok [(ex_key_a, [49]); (ex_key_t, ex_long)] /\
      read_xattr_set (img_uncompress 3) b (w_super w) 1 = Res.Ok [(ex_key_a, ex_long)] /\
      read_xattr_set (img_uncompress 3) b (w_super w) NOIDX = Res.Ok [] /\
      Res.is_err (read_xattr_set (img_uncompress 3) b (w_super w) 2) = true /\
      valid_image (img_uncompress 3) 4096
        (takeN (lenN b - 4096 - 8) b ++ le64 (rd64 (dropN (lenN b - 4096 - 8) b) + 2) ++ dropN (lenN b - 4096) b) = false
  | _ => False
  end.
Proof. exact ImgXattr.Example.ex_small_valid. Qed.

(* 600 sets: count = 600, two location words, two key-value blocks; the validator and v_xattr (all 600 entries) accept; sets
   on both sides of the 512 border read back; index 600 is refused *)
Example ex_xattr_big_valid :
  match snd ImgXattr.Example.ex_big with Res.Ok w => ImgXattr.Example.big_facts w | _ => False end.
Proof. exact ImgXattr.Example.ex_big_valid. Qed.

(* the relativised hypotheses of xattr_codec_roundtrip_rel hold together: block starts k * 8194, 2^30 blocks, C01's example run *)
Example ex_xattr_rel_hyps :
  (forall k, k < 1073741824 -> store_bidx (store_bs k) = Some k /\ store_bs k < 281474976710656) /\
  store_bs 0 = 0 /\
  match xw_sets xw_empty ex_sets with
  | Res.Ok (w, _) =>
      Forall set_ok ex_sets /\ Res.nlen (x_blocks w) < NOIDX /\
      (forall img, flush store_bs store_bs true w = Res.Ok (Some img) -> Res.nlen (xi_kv img) <= 1073741824 * META) /\
      16 * Res.nlen (x_blocks w) / 8192 < 1073741824
  | _ => False
  end.
Proof. exact ImgXattr.Example.ex_rel_hyps. Qed.

(* ---- non-vacuity of older statements (audit, session 3) ---- *)
(* dir_end_emits_listing / dir_end_total / dir_index_ok: their four hypotheses (Idle meta writer, empty index, size 0, dw_end
   succeeds) hold together on the state of ex_writer *)
Example ex_dir_end_hyps :
  exists dm raws w',
    mw_append (toy_compress 1) (mw_init true) (repeat 7 (N.to_nat 10000)) = Common.Ok dm /\
    let w0 := dw_begin (dw_create dm false) in
    let w := mkDw small_dir (dw_idx w0) (dw_ref w0) (dw_size w0) 5 (dw_dm w0) (dw_export w0) in
    Idle (toy_compress 1) (dw_dm w) raws /\ dw_idx w = [] /\ dw_size w = 0 /\
    dw_end (toy_compress 1) w = Common.Ok w' /\ dw_list w <> [].
Proof.
  destruct (mw_append (toy_compress 1) (mw_init true) (repeat 7 (N.to_nat 10000))) as [dm| |] eqn:E.
  2,3: vm_compute in E; discriminate.
  destruct (append_spec (toy_compress 1) toy_uncompress (toy_contract 1 (N.le_refl 1)) _ _ _ _
              (init_idle (toy_compress 1) true) E) as (fulls & HI & _).
  exists dm, ([] ++ fulls).
  assert (E' := E). vm_compute in E'. injection E' as <-.
  eexists. split; [reflexivity|]. cbv zeta.
  split; [exact HI|]. split; [reflexivity|]. split; [reflexivity|].
  split; [vm_compute; reflexivity|discriminate].
Qed.

(* super_write_ok: its hypothesis super_fields_ok holds of what super_init returns *)
Example ex_super_fields_ok :
  match super_init 131072 7 4 with Common.Ok s => super_fields_ok s | _ => False end.
Proof. vm_compute. repeat split. Qed.

(* ------------------------------------------------------------------------------------------ *)
(* C03's headline as ONE theorem about the composed packers (coq/ImgValid)                       *)
(* ------------------------------------------------------------------------------------------ *)
(* valid_image_full (coq/ImgValid/ValidFull.v, written from doc/format.adoc) = valid_image above AND the clauses about the
   DATA area and the cross references that valid_image lacks (they were "evaluated on real images only"):
     v_frag          every fragment table entry: size word without bits above bit 24, stored bytes inside the data area
                     [behind super block + compressor options, inode table start), they decode (bit 24 clear: through the data
                     decompressor) into 1 .. block size bytes, stored size <= decoded size
     v_data          every file inode: block k has uncompressed size ub = min(block size, bytes left) >= 1; size word 0 = sparse;
                     else stored size <= ub, the stored bytes lie inside the data area directly behind the previous stored block
                     from blocks_start and decode into EXACTLY ub bytes; the words cover exactly the file size (without the tail end
                     when the inode names a fragment); fragment index < fragment count, offset + tail size <= decoded length of
                     that fragment block
     v_xattr_inodes  every xattr index is 0xFFFFFFFF or < the count of the xattr id table
     v_export        with an export table: slot k - 1 names the stream offset at which inode k starts, for every inode
     v_links         directory: link count = 2 + entries (or 2 + sub-directories), every entry of directory type resolves to a
                     directory whose parent number is the listing directory's number; other inodes: link count = number of
                     directory entries with that inode number
   pack_all (coq/ImgE2E/PackAll.v) = gensquashfs after option parsing: fstree_add_generic*, fstree_post_process, the xattr
   writer over the tree in apply_dfs order, C08's block processor + block writer over fs->files, sqfs_xattr_writer_flush,
   sqfs_writer_finish.  Hypotheses: the two compressor contracts (data: result strictly smaller, decompresses with any
   sufficient capacity; metadata: include/sqfs/compressor.h), id table limit, the run succeeds, and the decidable domain e2e_okb
   of pack_all_reads_back (Properties_C01.v section 7: field ranges of the adds, supported xattr keys of bounded size, files
   < 2^31 - 1 bytes, compressor id 1..6, 32 / 16 bit location fields of the run, image < 2^63 bytes, < 2^32 - 1 xattr blocks).
   NOTHING about the data area, the fragment table, the xattr section or the link counts is assumed: they are what the
   composed model computes.  New ingredients: the block processor's invariant at the end of pack read on the image bytes
   (ImgValid/PackData), the xattr indices handed out by sqfs_xattr_writer_end vs the count in the image (XattrCount), and the
   link counts of lib/fstree: a directory's is 2 + children because no hard link resolves to a directory, a non-directory's is
   1 + the number of links resolved to it = the number of entries with its number because fs->links_unresolved holds every
   hard link node exactly once (ImgValid/LinksExact, PackLinks). *)
From SqfsV Require Import ImgE2E.PackAll ImgE2E.Hyps.
From SqfsV Require Import ImgValid.ValidFull ImgValid.Clauses ImgValid.PackValid ImgValid.TarValid ImgValid.WriterFull.
From SqfsV Require ImgValid.Example ImgValid.PackTree ImgValid.PackLinks.
From SqfsV Require C04.TarStream ImgTar.Model ImgTarFull.Model ImgTarFull.Bridge ImgTarFull.Rooted.
From SqfsV Require ImgPost.Bridge ImgPost.InputOk C11.FstreeModel C11.PostModel.

(* conclusion: the whole validator accepts; and the same by parts (valid_image_full = valid_image && valid_refs on the super
   block read from the image; valid_refs follows from valid_core — v_frag, v_data, v_xattr_inodes, v_export, the directory part
   of v_links — and valid_nlinks — link counts of the other inodes: ImgValid/Fast.valid_refs_split) *)
Theorem pack_all_image_valid :
  forall hashf dcompress duncompress, dcontract dcompress duncompress ->
  forall mcompress muncompress, mcontract mcompress muncompress ->
  forall limit, limit <= 65535 ->
  forall half cfg pi r,
  pack_all hashf dcompress duncompress half mcompress limit cfg pi = PDone r ->
  e2e_okb half cfg pi r = true ->
  let img := image_bytes (r_w r) in
  valid_image_full muncompress duncompress (c_devblk cfg) img = true /\
  valid_image muncompress (c_devblk cfg) img = true /\
  exists s, read_super img = Some s /\ valid_core muncompress duncompress img s = true /\
            valid_nlinks muncompress img s = true.
Proof.
  exact (fun hashf dc du Hd mc mu Hm limit Hl half cfg pi r Hrun Hok =>
           conj (pack_all_image_valid_l hashf dc du Hd mc mu Hm limit Hl half cfg pi r Hrun Hok)
                (pack_all_image_valid_clauses_l hashf dc du Hd mc mu Hm limit Hl half cfg pi r Hrun Hok)).
Qed.
Print Assumptions pack_all_image_valid.

(* tar2sqfs (coq/ImgTarFull: t2s_full = process_tarball + the same back half; Properties_C04.tar2sqfs_is_pack_all /
   tar2sqfs_rooted_is_pack_all): archives in the decidable shape tree_shapeb (what sqfs2tar writes), without and with an entry
   for the root directory in front *)
Theorem tar2sqfs_image_valid :
  forall hashf dcompress duncompress, dcontract dcompress duncompress ->
  forall mcompress muncompress, mcontract mcompress muncompress ->
  forall limit, limit <= 65535 ->
  forall half cfg no_tail_pack d opts sched,
  (forall vs r,
     ImgTar.Model.tree_shapeb vs = true ->
     ImgTarFull.Model.t2s_full ImgTar.Model.opts0 no_tail_pack false d hashf dcompress duncompress half mcompress limit cfg opts sched vs
       = PDone r ->
     e2e_okb half cfg (ImgTarFull.Bridge.pi_of no_tail_pack cfg d opts sched vs) (ImgTarFull.Bridge.with_root r) = true ->
     valid_image_full muncompress duncompress (c_devblk cfg) (image_bytes (r_w r)) = true) /\
  (forall t0 e0 vs r,
     ImgTar.Model.pt_op_of ImgTar.Model.opts0 d t0 = ImgTar.Model.PRootAttr e0 -> ImgTar.Model.tree_shapeb vs = true ->
     ImgTarFull.Model.t2s_full ImgTar.Model.opts0 no_tail_pack false d hashf dcompress duncompress half mcompress limit cfg opts sched
       (t0 :: vs) = PDone r ->
     e2e_okb half cfg (ImgTarFull.Bridge.pi_gen no_tail_pack cfg (ImgTarFull.Rooted.root_defaults true d e0) opts sched
                         (ImgTarFull.Model.xkept (TarStream.te_xattr t0)) vs) r = true ->
     valid_image_full muncompress duncompress (c_devblk cfg) (image_bytes (r_w r)) = true).
Proof.
  exact (fun hashf dc du Hd mc mu Hm limit Hl half cfg ntp d opts sched =>
           conj (fun vs r => tar2sqfs_image_valid_l hashf dc du Hd mc mu Hm limit Hl half cfg ntp d opts sched vs r)
                (fun t0 e0 vs r => tar2sqfs_rooted_image_valid_l hashf dc du Hd mc mu Hm limit Hl half cfg ntp d opts sched t0 e0 vs r)).
Qed.
Print Assumptions tar2sqfs_image_valid.

(* writer_valid_full: the layer below — write_image with ABSTRACT data area / fragment entries / xattr section / tree, as in
   writer_valid: the extended validator accepts whenever the inputs satisfy (ImgValid/Clauses.v) data_ok (v_frag / v_data
   evaluated on the tree's file payloads and the image bytes), xattr_ok (every node's index is 0xFFFFFFFF or below the count
   in the image), tree_dirs (directory link counts 2 + children, a child directory's parent number, every node but the root
   is listed) and tree_nlinks (other link counts = number of entries with the node's number) *)
Theorem writer_valid_full : forall compress uncompress, contract compress uncompress ->
  forall (duncompress : list N -> nat -> option (list N)) limit, limit <= 65535 ->
  forall cfg inp w,
  write_image compress limit cfg inp = Res.Ok w -> image_domain cfg inp = true -> image_fits w = true ->
  xattr_section_ok uncompress w ->
  data_ok duncompress cfg inp w -> xattr_ok uncompress inp w ->
  tree_dirs (in_tree inp) -> tree_nlinks (in_tree inp) ->
  valid_image_full uncompress duncompress (c_devblk cfg) (image_bytes w) = true.
Proof. exact writer_valid_full_l. Qed.
Print Assumptions writer_valid_full.

(* post_tree_link_counts: the link counts and parent numbers of the tree lib/fstree hands to the serializer are those of its
   directory structure, for EVERY sequence of successful adds and every successful fstree_post_process (input bounds of
   ImgPost.InputOk).  (The counting argument behind v_links: ImgValid/PackTree.v, PackLinks.v.) *)
Theorem post_tree_link_counts : forall bs d ops fs pp fb xa,
  InputOk.input_okb bs d ops = true ->
  Bridge.run_adds d (FstreeModel.fs_init d) ops = Some fs ->
  PostModel.post_process fs = PostModel.POk pp ->
  tree_dirs (Bridge.to_img fb xa pp) /\ tree_nlinks (Bridge.to_img fb xa pp).
Proof.
  exact (fun bs d ops fs pp fb xa Hin Hrun Hpost =>
           conj (PackTree.pack_tree_dirs bs d ops fs pp fb xa Hin Hrun Hpost)
                (PackLinks.pack_tree_nlinks bs d ops fs pp fb xa Hin Hrun Hpost)).
Qed.
Print Assumptions post_tree_link_counts.

(* ---- non-vacuity (coq/ImgValid/Example.v, vm_compute) ---- *)
(* the decidable hypotheses hold of two concrete runs of pack_all (the instance of ImgE2E/Example.v: two files sharing a data
   block and a fragment, a hard link, three xattr sets; zero-run-length resp. no metadata compression; the compressor contracts:
   Properties_C01.ex_e2e_contracts) and the whole validator computes to true on both images *)
Example ex_full_valid :
  match ImgE2E.Example.ex_run, ImgValid.Example.ex_run0 with
  | PDone r, PDone r0 =>
      e2e_okb ImgE2E.Example.ex_half ImgE2E.Example.ex_cfg ImgE2E.Example.ex_pi r = true /\
      e2e_okb ImgE2E.Example.ex_half ImgE2E.Example.ex_cfg ImgE2E.Example.ex_pi r0 = true /\
      ImgValid.Example.vfull 3 (image_bytes (r_w r)) = (true, 0) /\ ImgValid.Example.vfull 0 (image_bytes (r_w r0)) = (true, 0)
  | _, _ => False
  end.
Proof. exact ImgValid.Example.ex_full_valid. Qed.

(* the new clauses are not vacuous: byte patches of the second image (uncompressed metadata, so every inode field has a known
   position; the first seven conjuncts state what is at the patched positions) are rejected, each by the clause it aims at
   (second component = first_failure_full: 13 v_frag, 14 v_data, 15 v_xattr_inodes, 16 v_export, 17 / 18 v_links): a size word
   above the block size, the uncompressed bit set on a compressed block, a stored size one byte too long, blocks_start inside
   the super block, fragment index = fragment count, fragment offset beyond the fragment block, a fragment entry in the inode
   table / one byte too long, xattr index = number of sets, an export slot naming another inode, a file's link count + 1 *)
Example ex_full_corrupted :
  match ImgValid.Example.ex_run0 with
  | PDone r0 =>
      let b := image_bytes (r_w r0) in
      let patch := ImgValid.Example.patch in
      let vfull := ImgValid.Example.vfull in
      rd32 (dropN 163 b) = 4 /\ rd32 (dropN 151 b) = 0 /\ rd32 (dropN 159 b) = 0 /\ rd32 (dropN 147 b) = 2 /\
      rd64 (dropN 123 b) = 96 /\ rd64 (dropN 371 b) = 100 /\ rd32 (dropN 379 b) = 16777221 /\
      vfull 0 (patch 163 (le32 4097) b) = (false, 14) /\
      vfull 0 (patch 163 (le32 16777220) b) = (false, 14) /\
      vfull 0 (patch 163 (le32 5) b) = (false, 14) /\
      vfull 0 (patch 123 (le64 90) b) = (false, 14) /\
      vfull 0 (patch 151 (le32 1) b) = (false, 14) /\
      vfull 0 (patch 155 (le32 1) b) = (false, 14) /\
      vfull 0 (patch 371 (le64 200) b) = (false, 13) /\
      vfull 0 (patch 379 (le32 16777222) b) = (false, 13) /\
      vfull 0 (patch 159 (le32 3) b) = (false, 15) /\
      vfull 0 (patch 397 (le64 60) b) = (false, 16) /\
      vfull 0 (patch 147 (le32 3) b) = (false, 18)
  | _ => False
  end.
Proof. exact ImgValid.Example.ex_full_corrupted. Qed.

(* ... and the directory clauses of v_links: the root's link count + 1, the parent number of directory d *)
Example ex_full_corrupted_dirs :
  match ImgValid.Example.ex_run0 with
  | PDone r0 =>
      let b := image_bytes (r_w r0) in
      rd32 (dropN (107 + 159 + 20) b) = 5 /\ rd32 (dropN (107 + 96 + 28) b) = 5 /\
      ImgValid.Example.vfull 0 (ImgValid.Example.patch (107 + 159 + 20) (le32 6) b) = (false, 17) /\
      ImgValid.Example.vfull 0 (ImgValid.Example.patch (107 + 96 + 28) (le32 4) b) = (false, 17)
  | _ => False
  end.
Proof. exact ImgValid.Example.ex_full_corrupted_dirs. Qed.

(* tar2sqfs_image_valid: the archive of ImgTarFull/Example.v (directory with xattrs, file with two pairs, hard link record,
   sparse file, symbolic link) is in shape, the run meets e2e_okb, the image is accepted *)
Example ex_full_valid_tar :
  ImgTar.Model.tree_shapeb ImgTarFull.Example.fx_vs = true /\
  match ImgTarFull.Example.fx_t2s ImgTarFull.Example.fx_vs with
  | PDone r =>
      ImgTarFull.Example.fx_okb ImgTarFull.Example.fx_vs r = true /\
      ImgValid.Example.vfull 3 (image_bytes (r_w r)) = (true, 0)
  | _ => False
  end.
Proof. exact ImgValid.Example.ex_full_valid_tar. Qed.

(* ---------------------------------------------------------------------------------------------------------------------
   Strengthening, session 3 (seed C03-8): capacity of the 16-bit fields that refer to the id table (coq/C03/Capacity.v).
   [c_id_table_accepts] (coq/C03/GenC03Cap.v) is probed on the working tree by props/C03/h_cap.c on every run of THIS
   check (GenC01.c_id_table_limit above is regenerated by the C01 check only): the number of distinct ids the real
   sqfs_id_table_id_to_index accepts, with the widths of sqfs_super_t.id_count and sqfs_inode_t.uid_idx from the headers.
   --------------------------------------------------------------------------------------------------------------------- *)
From SqfsV Require C01.IdProofs C03.GenC03Cap C03.Capacity.

(* the NEED: the table the working tree's id_to_index builds fits the 16-bit count field and the 16-bit index fields *)
Theorem id_limit_fits_16_bits :
  GenC03Cap.c_id_table_accepts <= 65535 /\ GenC03Cap.c_id_table_accepts < 2 ^ GenC03Cap.c_id_count_field_bits /\
  GenC03Cap.c_id_table_accepts < 2 ^ GenC03Cap.c_id_index_field_bits /\ 2 ^ GenC03Cap.c_id_count_field_bits = 65536.
Proof. exact Capacity.id_accepts_fits. Qed.
Print Assumptions id_limit_fits_16_bits.

(* every run of lookups the table accepts: the u16 store of the count is lossless (id_count = number of ids) and every
   index handed to an inode is below the stored count and reads back to the id *)
Theorem id_count_fits_16_bits : forall ids t idxs,
  IdProofs.id_run GenC03Cap.c_id_table_accepts [] ids = Res.Ok (t, idxs) ->
  Res.nlen t <= 65535 /\ InodeModel.id_count_field t = Res.nlen t /\ length idxs = length ids /\
  forall k id, nth_error ids k = Some id ->
    exists i, nth_error idxs k = Some i /\ i < InodeModel.id_count_field t /\ InodeModel.index_to_id t i = Some id.
Proof. exact Capacity.id_count_fits_16_bits_l. Qed.
Print Assumptions id_count_fits_16_bits.

(* more distinct ids than that: the run is refused (no image is written), the count does not wrap *)
Theorem id_capacity_refuses : forall ids l,
  NoDup l -> incl l ids -> GenC03Cap.c_id_table_accepts < Res.nlen l ->
  exists e, IdProofs.id_run GenC03Cap.c_id_table_accepts [] ids = Res.Err e.
Proof. exact Capacity.id_capacity_refuses_l. Qed.
Print Assumptions id_capacity_refuses.

(* the need is tight (refuted variant for a table that accepts 65536 ids): 65536 distinct ids are all accepted, the stored
   count is 0, no index is below it, and no reader gets the table back.  The capacity leg of the check
   (props/C03/cap_stage.py) offers exactly this input to the implementation at the library and at the tool level. *)
Theorem id_count_wraps_at_65536_refuted :
  exists ids t idxs, NoDup ids /\ Res.nlen ids = 65536 /\ IdProofs.id_run 65536 [] ids = Res.Ok (t, idxs) /\
    Res.nlen t = 65536 /\ InodeModel.id_count_field t = 0 /\ (forall i, ~ i < InodeModel.id_count_field t) /\
    forall payload, InodeModel.id_table_read (InodeModel.id_count_field t) payload = Res.Err c_SQFS_ERROR_CORRUPTED.
Proof. exact Capacity.id_count_wraps_at_65536_l. Qed.
Print Assumptions id_count_wraps_at_65536_refuted.

(* non-vacuity: five lookups (two repeated ids) at the tree's constant *)
Example ex_id_run_small :
  IdProofs.id_run GenC03Cap.c_id_table_accepts [] [1000; 0; 1000; 4294967295; 0]
  = Res.Ok ([1000; 0; 4294967295], [0; 1; 0; 2; 1]).
Proof. exact Capacity.ex_id_run_small. Qed.
