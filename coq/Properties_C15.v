(* C15 -- placeholder while the proofs are being developed *)
From Coq Require Import List NArith Bool Arith.
From SqfsV Require Import C15.XfrmModel C15.ToyCodec.
Import ListNotations.
Example ex_placeholder : ref_decode_all 10 [167%N; 0%N; 0%N] = Some [].
Proof. vm_compute. reflexivity. Qed.
