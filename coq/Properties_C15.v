(* C15 -- stream compression of tar input/output is transparent.
   Statements only; every proof is one [exact] of a lemma from coq/C15/*.v.

   What is modelled (XfrmModel.v, line by line from the working tree):
     lib/xfrm/src/istream.c   precache / xfrm_get_buffered_data / xfrm_advance_buffer   [reader]
     lib/xfrm/src/ostream.c   flush_inbuf / xfrm_append / xfrm_flush                    [writer]
     lib/xfrm/src/{gzip,xz}.c process_data      [mk_zlib]   bzip2.c [mk_bzip2]   zstd.c [mk_zstd]
   over an ABSTRACT codec library ([codec]: one call of inflate/deflate, lzma_code,
   BZ2_bzDecompress/BZ2_bzCompress, ZSTD_decompressStream/ZSTD_compressStream2).

   The contract assumed of a library is [dec_contract] / [enc_contract] (XfrmSpec.v):
     a call consumes a prefix of the offered input and produces at most [cap] bytes; these extend
     the two ghost strings "consumed / produced since the last member boundary" ([dc_step]);
     END is reported exactly when the consumed bytes are a complete member and everything it contains
     has been delivered ([dc_end]); with input and room the library moves ([dc_progress]); BUF_ERROR
     without a finishing flush means that nothing happened ([dc_buf_stuck]); once a whole member has
     been consumed it is drained without further input ([dc_complete]); what has been delivered is a
     prefix of the member's content ([dc_prefix]); an error is only reported for input that is not a
     prefix of / does not start with a member ([dc_err]); the decoder never reads past the end of a
     member ([dc_no_overrun]); encoder: END only under a finishing flush with all input taken and then
     the emitted bytes are a member whose content is the consumed bytes ([ec_end]); pending output
     comes out of a finite backlog ([ec_drain]); after finishing has started only finishing calls
     without new input are covered ([eadm]: the documented protocol of all four libraries).
   [Member z p] ("z is exactly one member and expands to p") is abstract too: [format_ok] = members
   exist, are non-empty, self-delimiting and have one content.  [Stream Member z p]: z is a
   concatenation of members and p the concatenation of their contents, i.e. "decode_all z = p".

   The wrapped streams: the compressed input is a byte list with a schedule [ws] of window sizes
   (call k of the wrapped get_buffered_data exposes max 1 ws[k] bytes; an empty window is EOF, as the
   sqfs_istream_t contract says); the consumer is an arbitrary list of (want, take) requests (any want,
   0 included since the F24 repair). *)
From Coq Require Import List NArith Bool Arith.
From SqfsV Require Import C15.XfrmModel C15.XfrmSpec C15.XfrmBase C15.XfrmDrvZlib C15.XfrmDrvBzip2
  C15.XfrmDrvZstd C15.XfrmIStreamProofs C15.XfrmOStreamProofs C15.ToyCodec C15.ToyFormat
  C15.ToyDecProofs C15.ToyEncProofs C15.XfrmTop C15.XfrmOld.
Import ListNotations.

(* ================================================================== *)
(* istream_xfrm                                                        *)
(* ================================================================== *)

(* For every format, every driver meeting the decoder-driver contract, every buffer size, every
   sequence of complete members Z (decode_all Z = P), EVERY chunking ws of the compressed bytes and
   EVERY sequence of consumer requests: no error, no fuel exhaustion (the loop of precache
   terminates), the bytes delivered are a prefix of P, EOF is reported only after the last byte of
   P, and a consumer that takes at least one byte per request reaches EOF within |P|+1 requests. *)
Theorem istream_xfrm_transparent :
  forall (Member : list N -> list N -> Prop), format_ok Member ->
  forall (D : Type) (drv : driver D) (DR : D -> list N -> list N -> Prop),
  ddrv_contract Member D drv DR ->
  forall bufsz, 0 < bufsz -> forall d0, DR d0 [] [] ->
  forall Z P ws ops acc e s',
  Stream Member Z P ->
  reader drv bufsz (istream_init d0 Z ws) ops [] = (acc, e, s') ->
  prefix acc P /\ e <> RErr /\ e <> RFuel /\ (e = REof -> acc = P) /\
  (takes_ok ops -> length P < length ops -> e = REof /\ acc = P).
Proof. exact istream_transparent_l. Qed.
Print Assumptions istream_xfrm_transparent.

(* EOF is sound on EVERY input (valid or not): it is reported only when the whole input has been
   consumed, is a sequence of complete members, and all of their contents has been delivered; and
   precache terminates on every input. *)
Theorem istream_eof_sound :
  forall (Member : list N -> list N -> Prop)
         (D : Type) (drv : driver D) (DR : D -> list N -> list N -> Prop),
  ddrv_contract Member D drv DR ->
  forall bufsz, 0 < bufsz -> forall d0, DR d0 [] [] ->
  forall Z ws ops acc e s',
  reader drv bufsz (istream_init d0 Z ws) ops [] = (acc, e, s') ->
  e <> RFuel /\ (e = REof -> Stream Member Z acc).
Proof. exact istream_eof_sound_l. Qed.
Print Assumptions istream_eof_sound.

(* Truncation.  The input is zs ++ x: complete members followed by a NON-EMPTY PROPER prefix x of a
   member (x ++ y with y <> []).  Then EOF is never reported; what is delivered is a prefix of what
   the untruncated stream contains; a consumer taking a byte per request ends with an ERROR.
   (A cut exactly between members, x = [], is a shorter valid stream and is accepted -- by
   [istream_xfrm_transparent]; nothing in the compressed layer can tell it from a complete one.) *)
Theorem truncated_is_error :
  forall (Member : list N -> list N -> Prop), format_ok Member ->
  forall (D : Type) (drv : driver D) (DR : D -> list N -> list N -> Prop),
  ddrv_contract Member D drv DR ->
  forall bufsz, 0 < bufsz -> forall d0, DR d0 [] [] ->
  forall zs ps x y p ws ops acc e s',
  Stream Member zs ps -> Member (x ++ y) p -> x <> [] -> y <> [] ->
  reader drv bufsz (istream_init d0 (zs ++ x) ws) ops [] = (acc, e, s') ->
  e <> REof /\ e <> RFuel /\ prefix acc (ps ++ p) /\
  (takes_ok ops -> length (ps ++ p) < length ops -> e = RErr).
Proof. exact truncated_l. Qed.
Print Assumptions truncated_is_error.

(* ... and in general: input that is not a sequence of complete members (trailing garbage, damaged
   trailer, ...) never ends in EOF *)
Theorem not_a_stream_never_eof :
  forall (Member : list N -> list N -> Prop)
         (D : Type) (drv : driver D) (DR : D -> list N -> list N -> Prop),
  ddrv_contract Member D drv DR ->
  forall bufsz, 0 < bufsz -> forall d0, DR d0 [] [] ->
  forall Z ws ops acc e s',
  (forall P, ~ Stream Member Z P) ->
  reader drv bufsz (istream_init d0 Z ws) ops [] = (acc, e, s') -> e <> REof /\ e <> RFuel.
Proof. exact not_stream_no_eof_l. Qed.
Print Assumptions not_a_stream_never_eof.

(* ================================================================== *)
(* ostream_xfrm                                                        *)
(* ================================================================== *)

(* For every driver meeting the encoder-driver contract, every buffer size and EVERY list of appended
   chunks (any sizes) followed by one flush: there is a fuel bound from which on the writer's result
   does not depend on the fuel (the loops of flush_inbuf terminate; measure: (unflushed input, backlog
   [emu]) lexicographically -- drain-on-finish included: the output need not fit one outbuf) and is
   [Ok]: the calls on the wrapped stream are appends followed by exactly one flush; the bytes written
   are a sequence of complete members whose contents are exactly the appended bytes (none if nothing
   was appended); inbuf is empty and the driver back on a member boundary (the stream is finished). *)
Theorem ostream_xfrm_transparent :
  forall (Member : list N -> list N -> Prop)
         (D : Type) (drv : driver D) (ER : D -> list N -> list N -> Prop) (emu : D -> nat) (dfin : D -> Prop),
  edrv_contract Member D drv ER emu dfin ->
  forall bufsz, 0 < bufsz ->
  forall d0 chunks, ER d0 [] [] -> ~ dfin d0 ->
  exists n s' os,
    (forall lfuel, n <= lfuel -> writer drv bufsz lfuel (ostream_init d0) chunks = Ok s') /\
    o_log s' = map EvAppend os ++ [EvFlush] /\
    log_bytes (o_log s') = concat os /\
    Stream Member (concat os) (concat chunks) /\
    o_inbuf s' = [] /\ ER (o_drv s') [] [] /\ ~ dfin (o_drv s') /\ (concat chunks = [] -> os = []).
Proof. exact ostream_transparent_l. Qed.
Print Assumptions ostream_xfrm_transparent.

(* ================================================================== *)
(* the four driver loops meet the driver contracts                     *)
(* ================================================================== *)

(* gzip.c and xz.c (same control structure), decompressing: zlib/liblzma report "no progress" as
   BUF_ERROR ([ok_progresses]) and count total_in ([mid_ok]) *)
Theorem gzip_xz_decoder_meets_contract :
  forall (Member : list N -> list N -> Prop), format_ok Member ->
  forall (S : Type) (C : codec S) (Rep : S -> list N -> list N -> Prop),
  dec_contract Member S C Rep true -> ok_progresses S C Rep -> mid_ok S C Rep ->
  ddrv_contract Member S (mk_zlib C true) Rep.
Proof. exact zlib_dec_ok. Qed.
Print Assumptions gzip_xz_decoder_meets_contract.

Theorem gzip_xz_encoder_meets_contract :
  forall (Member : list N -> list N -> Prop)
         (S : Type) (C : codec S) (ERep : S -> list N -> list N -> Prop) (mu : S -> nat) (efin : S -> Prop),
  enc_contract Member S C ERep mu efin true ->
  edrv_contract Member S (mk_zlib C false) ERep mu efin.
Proof. exact zlib_enc_ok. Qed.
Print Assumptions gzip_xz_encoder_meets_contract.

(* bzip2.c: libbz2 has no BUF_ERROR class ([never_buf]); the driver tests the two differences itself *)
Theorem bzip2_decoder_meets_contract :
  forall (Member : list N -> list N -> Prop), format_ok Member ->
  forall (S : Type) (C : codec S) (Rep : S -> list N -> list N -> Prop),
  dec_contract Member S C Rep true -> never_buf S C Rep -> mid_ok S C Rep ->
  ddrv_contract Member S (mk_bzip2 C true) Rep.
Proof. exact bzip2_dec_ok. Qed.
Print Assumptions bzip2_decoder_meets_contract.

Theorem bzip2_encoder_meets_contract :
  forall (Member : list N -> list N -> Prop)
         (S : Type) (C : codec S) (ERep : S -> list N -> list N -> Prop) (mu : S -> nat) (efin : S -> Prop),
  enc_contract Member S C ERep mu efin true -> enc_never_buf S C ERep efin ->
  edrv_contract Member S (mk_bzip2 C false) ERep mu efin.
Proof. exact bzip2_enc_ok. Qed.
Print Assumptions bzip2_encoder_meets_contract.

(* zstd.c: the library crosses frame boundaries by itself (resets = false); the driver state is
   (library state, pending); libzstd returns 0 only from a call that did something ([end_progresses]) *)
Theorem zstd_decoder_meets_contract :
  forall (Member : list N -> list N -> Prop), format_ok Member ->
  forall (S : Type) (C : codec S) (Rep : S -> list N -> list N -> Prop),
  dec_contract Member S C Rep false -> end_progresses S C Rep ->
  ddrv_contract Member (S * bool) (mk_zstd C true) (ZR S Rep).
Proof. exact zstd_dec_ok. Qed.
Print Assumptions zstd_decoder_meets_contract.

Theorem zstd_encoder_meets_contract :
  forall (Member : list N -> list N -> Prop)
         (S : Type) (C : codec S) (ERep : S -> list N -> list N -> Prop) (mu : S -> nat) (efin : S -> Prop),
  enc_contract Member S C ERep mu efin false ->
  edrv_contract Member (S * bool) (mk_zstd C false) (ZER S ERep) (zmu S mu) (zfin S efin).
Proof. exact zstd_enc_ok. Qed.
Print Assumptions zstd_encoder_meets_contract.

(* ================================================================== *)
(* composed: library contract ==> stream theorem (gzip.c / xz.c; the    *)
(* other drivers compose in exactly the same way)                      *)
(* ================================================================== *)
Theorem gzip_xz_istream_transparent :
  forall (Member : list N -> list N -> Prop), format_ok Member ->
  forall (S : Type) (C : codec S) (Rep : S -> list N -> list N -> Prop),
  dec_contract Member S C Rep true -> ok_progresses S C Rep -> mid_ok S C Rep ->
  forall bufsz, 0 < bufsz -> forall st0, Rep st0 [] [] ->
  forall Z P ws ops acc e s',
  Stream Member Z P ->
  reader (mk_zlib C true) bufsz (istream_init st0 Z ws) ops [] = (acc, e, s') ->
  prefix acc P /\ e <> RErr /\ e <> RFuel /\ (e = REof -> acc = P) /\
  (takes_ok ops -> length P < length ops -> e = REof /\ acc = P).
Proof. exact gzip_xz_istream_transparent_l. Qed.
Print Assumptions gzip_xz_istream_transparent.

Theorem gzip_xz_truncated_is_error :
  forall (Member : list N -> list N -> Prop), format_ok Member ->
  forall (S : Type) (C : codec S) (Rep : S -> list N -> list N -> Prop),
  dec_contract Member S C Rep true -> ok_progresses S C Rep -> mid_ok S C Rep ->
  forall bufsz, 0 < bufsz -> forall st0, Rep st0 [] [] ->
  forall zs ps x y p ws ops acc e s',
  Stream Member zs ps -> Member (x ++ y) p -> x <> [] -> y <> [] ->
  reader (mk_zlib C true) bufsz (istream_init st0 (zs ++ x) ws) ops [] = (acc, e, s') ->
  e <> REof /\ e <> RFuel /\ prefix acc (ps ++ p) /\
  (takes_ok ops -> length (ps ++ p) < length ops -> e = RErr).
Proof. exact gzip_xz_truncated_is_error_l. Qed.
Print Assumptions gzip_xz_truncated_is_error.

Theorem gzip_xz_ostream_transparent :
  forall (Member : list N -> list N -> Prop)
         (S : Type) (C : codec S) (ERep : S -> list N -> list N -> Prop) (mu : S -> nat) (efin : S -> Prop),
  enc_contract Member S C ERep mu efin true ->
  forall bufsz, 0 < bufsz ->
  forall st0 chunks, ERep st0 [] [] -> ~ efin st0 ->
  exists n s' os,
    (forall lfuel, n <= lfuel -> writer (mk_zlib C false) bufsz lfuel (ostream_init st0) chunks = Ok s') /\
    o_log s' = map EvAppend os ++ [EvFlush] /\
    log_bytes (o_log s') = concat os /\
    Stream Member (concat os) (concat chunks) /\
    o_inbuf s' = [] /\ ERep (o_drv s') [] [] /\ ~ efin (o_drv s') /\ (concat chunks = [] -> os = []).
Proof. exact gzip_xz_ostream_transparent_l. Qed.
Print Assumptions gzip_xz_ostream_transparent.

(* ================================================================== *)
(* non-vacuity: the toy codec (ToyCodec.v = props/C15/toy.h, the codec   *)
(* the tie runs the REAL driver loops on) meets every hypothesis above, *)
(* for every setting of its knobs                                      *)
(* ================================================================== *)
Theorem toy_format : format_ok TMember.
Proof. exact toy_format_ok. Qed.
Print Assumptions toy_format.

Theorem toy_decoder_meets_library_contract :
  dec_contract TMember tdst toy_dec TRep true /\ ok_progresses tdst toy_dec TRep /\ mid_ok tdst toy_dec TRep /\
  dec_contract TMember tdst toy_dec TRep0 false /\ end_progresses tdst toy_dec TRep0.
Proof. exact (conj toy_dec_contract (conj (toy_dec_okp true) (conj toy_dec_mid (conj toy_dec_contract0 (toy_dec_endp false))))). Qed.
Print Assumptions toy_decoder_meets_library_contract.

Theorem toy_encoder_meets_library_contract :
  forall resets, enc_contract TMember test toy_enc TERep phi tefin resets.
Proof. exact toy_enc_contract_g. Qed.
Print Assumptions toy_encoder_meets_library_contract.

(* the eight instances of the tie: real gzip.c/xz.c, bzip2.c, zstd.c loops on the toy codec *)
Theorem toy_instances_meet_driver_contracts :
  ddrv_contract TMember tdst toy_gzip_dec TRep /\
  ddrv_contract TMember tdst toy_bzip2_dec TRep /\
  ddrv_contract TMember (tdst * bool) toy_zstd_dec (ZR tdst TRep0) /\
  edrv_contract TMember test toy_gzip_enc TERep phi tefin /\
  edrv_contract TMember test toy_bzip2_enc TERep phi tefin /\
  edrv_contract TMember (test * bool) toy_zstd_enc (ZER test TERep) (zmu test phi) (zfin test tefin).
Proof.
  exact (conj toy_gzip_dec_ok (conj toy_bzip2_dec_ok (conj toy_zstd_dec_ok
        (conj toy_gzip_enc_ok (conj toy_bzip2_enc_ok toy_zstd_enc_ok))))).
Qed.
Print Assumptions toy_instances_meet_driver_contracts.

Theorem toy_initial_states :
  (forall wm maxin maxout finbuf, TRepG wm (toy_dec_init maxin maxout finbuf) [] []) /\
  (forall blk maxin maxout greedy finrun, 1 <= blk ->
     TERep (toy_enc_init blk maxin maxout greedy finrun) [] [] /\
     ~ tefin (toy_enc_init blk maxin maxout greedy finrun)).
Proof. exact (conj toy_dec_init_rep toy_enc_init_rep). Qed.
Print Assumptions toy_initial_states.

Local Open Scope N_scope.

(* two members: literal block "abc" + run of 5 'z' with checksum; final run of 3 'q' (no checksum) *)
Definition ex_z : list N := [167; 1; 3; 97; 98; 99; 2; 5; 0; 122; 0; 136] ++ [167; 3; 3; 0; 113].
Definition ex_p : list N := [97; 98; 99; 122; 122; 122; 122; 122; 113; 113; 113].

Example ex_stream : Stream TMember ex_z ex_p.
Proof.
  change ex_p with (([97; 98; 99] ++ repeat 122 5 ++ []) ++ (repeat 113 3) ++ []).
  unfold ex_z. apply St_cons; [|rewrite <- (app_nil_r [167; 3; 3; 0; 113]); apply St_cons; [|apply St_nil]].
  - apply R_magic; [reflexivity|]. apply R_tag_lit; [reflexivity|]. apply R_litlen; [discriminate|].
    change (nat_of_byte 3) with 3%nat. do 3 apply R_litS. apply R_lit0.
    apply R_tag_run; [reflexivity|]. apply R_runlo. apply R_runhi; [reflexivity|]. apply R_runb.
    apply (R_out _ 5%nat 122 [0; 136] []). apply R_tag_end; [reflexivity|]. apply R_chk. reflexivity.
  - apply R_magic; [reflexivity|]. apply R_tag_fin; [reflexivity|]. apply R_runlo. apply R_runhi; [reflexivity|].
    apply R_runb. apply (R_out_fin _ 3%nat 113).
Qed.

(* buffer of 4 bytes (the 11 plain bytes cross it twice), compressed input offered one byte at a time,
   library throttled to 1 byte in / 1 byte out per call, BUF_ERROR under Z_FINISH: everything arrives,
   then EOF *)
Example ex_istream_gzip :
  reader toy_gzip_dec 4 (istream_init (toy_dec_init 1 1 true) ex_z (repeat 1%nat 40))
         (repeat (3%nat, 2%nat) 10) [] =
  (ex_p, REof, snd (reader toy_gzip_dec 4 (istream_init (toy_dec_init 1 1 true) ex_z (repeat 1%nat 40))
                            (repeat (3%nat, 2%nat) 10) [])).
Proof. vm_compute. reflexivity. Qed.

Example ex_istream_zstd :
  fst (reader toy_zstd_dec 4 (istream_init (toy_dec_init 0 0 false, false) ex_z [5%nat; 1%nat; 100%nat])
              (repeat (4%nat, 4%nat) 10) []) = (ex_p, REof).
Proof. vm_compute. reflexivity. Qed.

Example ex_istream_bzip2 :
  fst (reader toy_bzip2_dec 4 (istream_init (toy_dec_init 2 3 false) ex_z [])
              (repeat (1%nat, 1%nat) 20) []) = (ex_p, REof).
Proof. vm_compute. reflexivity. Qed.

(* the same input cut inside the second member (after "A7 03 03"): error, never EOF;
   cut exactly between the members: a shorter valid stream *)
Example ex_truncated_gzip :
  fst (reader toy_gzip_dec 4 (istream_init (toy_dec_init 0 0 false) (firstn 15 ex_z) [])
              (repeat (4%nat, 4%nat) 10) []) = (firstn 8 ex_p, RErr).
Proof. vm_compute. reflexivity. Qed.
Example ex_truncated_zstd :
  fst (reader toy_zstd_dec 4 (istream_init (toy_dec_init 0 0 false, false) (firstn 15 ex_z) [])
              (repeat (4%nat, 4%nat) 10) []) = (firstn 8 ex_p, RErr).
Proof. vm_compute. reflexivity. Qed.
Example ex_cut_between_members :
  fst (reader toy_gzip_dec 4 (istream_init (toy_dec_init 0 0 false) (firstn 12 ex_z) [])
              (repeat (4%nat, 4%nat) 10) []) = (firstn 8 ex_p, REof).
Proof. vm_compute. reflexivity. Qed.
(* trailing garbage: an error (reported as soon as the driver meets it: the last three bytes, decoded in
   the same precache, are not delivered) *)
Example ex_garbage :
  fst (reader toy_gzip_dec 4 (istream_init (toy_dec_init 0 0 false) (ex_z ++ [0]) [])
              (repeat (4%nat, 4%nat) 10) []) = (firstn 8 ex_p, RErr).
Proof. vm_compute. reflexivity. Qed.

(* writer: 3 chunks, inbuf/outbuf of 4 bytes, block size 2: the member does not fit one outbuf (drained on
   finish); the bytes written decode to the appended bytes *)
Definition ex_chunks : list (list N) := [[1; 2; 3]; []; [4; 4; 4; 4; 4; 5]].
Definition ex_written (drv : driver test) (greedy finrun : bool) : res (list N * list N) :=
  match writer drv 4 50 (ostream_init (toy_enc_init 2 0 3 greedy finrun)) ex_chunks with
  | Ok s => Ok (log_bytes (o_log s), o_inbuf s)
  | Err => Err | Fuel => Fuel
  end.
Example ex_ostream_gzip :
  match ex_written toy_gzip_enc false true with
  | Ok (z, rest) => rest = [] /\ ref_decode_all 100 z = Some (concat ex_chunks)
  | _ => False
  end.
Proof. vm_compute. split; reflexivity. Qed.
Example ex_ostream_bzip2 :
  match ex_written toy_bzip2_enc true false with
  | Ok (z, rest) => rest = [] /\ ref_decode_all 100 z = Some (concat ex_chunks)
  | _ => False
  end.
Proof. vm_compute. split; reflexivity. Qed.
Example ex_ostream_zstd :
  match writer toy_zstd_enc 4 50 (ostream_init (toy_enc_init 2 0 3 false true, false)) ex_chunks with
  | Ok s => o_inbuf s = [] /\ ref_decode_all 100 (log_bytes (o_log s)) = Some (concat ex_chunks)
  | _ => False
  end.
Proof. vm_compute. split; reflexivity. Qed.

(* ================================================================== *)
(* the OLD loops (before the F17/F18 repair), for the record            *)
(* ================================================================== *)

(* `while (in_size > 0 && out_size > 0)`: when flush_inbuf(true) comes back with no input left the
   library is never called again, the 9-byte member never gets out of a 4-byte outbuf, flush_inbuf
   spins: for EVERY fuel the writer runs out of it (sqfs2tar -c gzip|xz|bzip2 hung) *)
Theorem finish_full_buffer_refuted :
  forall lfuel, writer (mk_old_zlib toy_enc) w_bufsz lfuel (ostream_init w_e0) [w_plain] = Fuel.
Proof. exact old_finish_never_drains_l. Qed.
Print Assumptions finish_full_buffer_refuted.

(* the repaired loop on the same case *)
Example finish_full_buffer_repaired :
  match writer (mk_zlib toy_enc false) w_bufsz 10 (ostream_init w_e0) [w_plain] with
  | Ok s => ref_decode_all 100 (log_bytes (o_log s)) = Some w_plain
  | _ => False
  end.
Proof. vm_compute. reflexivity. Qed.

(* old zstd.c: END whenever the input is used up -- exit 0 with an unfinished frame *)
Example finish_full_buffer_refuted_zstd :
  match writer (mk_old_zstd toy_enc) w_bufsz 10 (ostream_init w_e0) [w_plain] with
  | Ok s => log_bytes (o_log s) = [167; 1; 3; 1] /\ ref_decode_all 100 (log_bytes (o_log s)) = None
  | _ => False
  end.
Proof. vm_compute. split; reflexivity. Qed.

(* old loops: input cut inside a member (here: before the end marker) was a clean EOF -- and the four
   bytes the decoder still owed when the input ran out were dropped *)
Example truncated_accepted_refuted :
  fst (reader (mk_old_zlib toy_dec) 4 (istream_init (toy_dec_init 0 0 false) (firstn 10 ex_z) [])
              (repeat (4%nat, 4%nat) 10) []) = (firstn 4 ex_p, REof).
Proof. vm_compute. reflexivity. Qed.
Example truncated_now_error :
  fst (reader toy_gzip_dec 4 (istream_init (toy_dec_init 0 0 false) (firstn 10 ex_z) [])
              (repeat (4%nat, 4%nat) 10) []) = (firstn 8 ex_p, RErr).
Proof. vm_compute. reflexivity. Qed.

(* ================================================================== *)
(* want = 0 (F24, repaired)                                             *)
(* ================================================================== *)
(* Before the F24 repair xfrm_get_buffered_data tested `buffer_used == 0 || avail < want`: a request with
   want = 0 on a buffer that had been consumed entirely did not refill and reported EOF with input left
   (the theorems then needed want >= 1).  With `buffer_used == buffer_offset || avail < want` the same
   requests get everything: *)
Example want_zero_refills :
  fst (reader toy_gzip_dec 4 (istream_init (toy_dec_init 0 0 false) ex_z [])
              ((4%nat, 4%nat) :: repeat (0%nat, 4%nat) 5) []) = (ex_p, REof).
Proof. vm_compute. reflexivity. Qed.

(* ---- non-vacuity of truncated_is_error / not_a_stream_never_eof: the Member / Stream premises exhibited (independent audit) ---- *)
(* all hypotheses of truncated_is_error on the instance of ex_truncated_gzip:
   zs = first member of ex_z, x ++ y = second member, cut after 3 bytes *)
Example ex_truncated_hyps :
  format_ok TMember /\ ddrv_contract TMember tdst toy_gzip_dec TRep /\ 0 < 4 /\
  TRep (toy_dec_init 0 0 false) [] [] /\
  exists zs ps x y p,
    Stream TMember zs ps /\ TMember (x ++ y) p /\ x <> [] /\ y <> [] /\
    zs ++ x = firstn 15 ex_z /\
    fst (reader toy_gzip_dec 4 (istream_init (toy_dec_init 0 0 false) (zs ++ x) [])
                (repeat (4%nat, 4%nat) 10) []) = (firstn 8 ex_p, RErr).
Proof.
  split. exact toy_format. split. exact toy_gzip_dec_ok. split. reflexivity.
  split; [apply toy_dec_init_rep|].
  exists [167; 1; 3; 97; 98; 99; 2; 5; 0; 122; 0; 136], ([97; 98; 99] ++ repeat 122 5 ++ []),
         [167; 3; 3], [0; 113], (repeat 113 3).
  split.
  - apply stream_one.
    apply R_magic; [reflexivity|]. apply R_tag_lit; [reflexivity|]. apply R_litlen; [discriminate|].
    change (nat_of_byte 3) with 3%nat. do 3 apply R_litS. apply R_lit0.
    apply R_tag_run; [reflexivity|]. apply R_runlo. apply R_runhi; [reflexivity|]. apply R_runb.
    apply (R_out _ 5%nat 122 [0; 136] []). apply R_tag_end; [reflexivity|]. apply R_chk. reflexivity.
  - split.
    + apply R_magic; [reflexivity|]. apply R_tag_fin; [reflexivity|]. apply R_runlo. apply R_runhi; [reflexivity|].
      apply R_runb. apply (R_out_fin _ 3%nat 113).
    + split; [discriminate|]. split; [discriminate|]. split; vm_compute; reflexivity.
Qed.

(* the hypothesis of not_a_stream_never_eof is satisfiable: one garbage byte *)
Example ex_not_a_stream : forall P, ~ Stream TMember [0] P.
Proof.
  intros P H. inversion H as [|z p zs ps HM HS E1 E2]; subst.
  destruct z as [|c z].
  - inversion HM.
  - simpl in E1. injection E1 as -> E.
    inversion HM; subst. vm_compute in H2. discriminate.
Qed.

Example ex_not_a_stream_run :
  fst (reader toy_gzip_dec 4 (istream_init (toy_dec_init 0 0 false) [0] []) (repeat (4%nat, 4%nat) 3) [])
  = ([], RErr).
Proof. vm_compute. reflexivity. Qed.

(* ================================================================================================================ *)
(* Strengthening (session 3, seed C15-8): decoder-side resource admission.                                           *)
(* The limits are the values the working tree's xz.c / zstd.c / gzip.c really pass to the libraries                  *)
(* (C15/GenC15Limits.v, measured by props/C15/gen_limits.c on every run); the must-accept sets are fixed numbers.    *)
(* ================================================================================================================ *)
From SqfsV Require Import C15.GenC15Limits C15.DecLimits.

(* every xz block whose LZMA2 dictionary is at most 96 MiB (property byte <= 29) is within the memory limit that
   xz.c hands to lzma_stream_decoder, whatever liblzma's bounded overhead is *)
Theorem xz_memlimit_admits_96MiB : forall slack bits : N,
  (slack <= xz_slack_bound)%N -> (bits <= xz_must_accept_bits)%N ->
  xz_admits c_xz_dec_memlimit slack bits = true.
Proof. exact xz_memlimit_admits_96MiB_lemma. Qed.
Print Assumptions xz_memlimit_admits_96MiB.

Theorem xz_admission_monotone : forall m s1 s2 b1 b2 : N,
  (s1 <= s2)%N -> (b1 <= b2)%N -> (b2 <= 40)%N -> xz_admits m s2 b2 = true -> xz_admits m s1 b1 = true.
Proof. exact xz_admits_mono. Qed.
Print Assumptions xz_admission_monotone.

Theorem xz_flags_no_tell : N.land c_xz_dec_flags 7 = 0%N.
Proof. exact xz_flags_no_tell_lemma. Qed.
Print Assumptions xz_flags_no_tell.

(* every zstd frame whose Window_Descriptor announces at most 2^27 bytes (what `zstd -d` takes by default) *)
Theorem zstd_window_admitted : forall desc : N,
  (desc <= zstd_must_accept_desc)%N -> zstd_admits c_zstd_dec_wlogmax desc = true.
Proof. exact zstd_window_admitted_lemma. Qed.
Print Assumptions zstd_window_admitted.

Theorem gzip_window_maximal :
  gzip_dec_takes_gzip c_gzip_dec_wbits = true /\ forall w : N, (w <= 15)%N -> (2 ^ w <= gzip_dec_window c_gzip_dec_wbits)%N.
Proof. exact gzip_window_maximal_lemma. Qed.
Print Assumptions gzip_window_maximal.

(* non-vacuity / the numbers: 28 -> 64 MiB, 29 -> 96 MiB, 30 -> 128 MiB; the admission function does refuse
   (a 128 MiB dictionary under a 128 MiB limit, a 64 MiB + 1 .. 96 MiB dictionary under liblzma's
   lzma_easy_decoder_memusage(9) = 65 MiB + 64 KiB); the hypotheses are met by bits = 29 with the full slack *)
Example ex_lzma2_dict_sizes :
  (lzma2_dict_size 0, lzma2_dict_size 28, lzma2_dict_size 29, lzma2_dict_size 30, lzma2_dict_size 40)
  = (4096, 67108864, 100663296, 134217728, 4294967295)%N.
Proof. vm_compute. reflexivity. Qed.
Example ex_xz_admission_refuses :
  xz_admits (128 * 2 ^ 20) 1 30 = false /\ xz_admits (65 * 2 ^ 20 + 65536) 0 29 = false /\
  xz_admits (65 * 2 ^ 20 + 65536) xz_slack_bound 28 = true.
Proof. vm_compute. repeat split. Qed.
Example ex_xz_must_accept_instance :
  (xz_slack_bound <= xz_slack_bound)%N /\ (29 <= xz_must_accept_bits)%N /\
  xz_admits c_xz_dec_memlimit xz_slack_bound 29 = true.
Proof. vm_compute. repeat split; discriminate. Qed.
Example ex_zstd_windows :
  (zstd_window_size 0, zstd_window_size 7, zstd_window_size 136, zstd_window_size 137) = (1024, 1920, 134217728, 150994944)%N
  /\ zstd_admits 27 137 = false /\ zstd_admits 24 136 = false.
Proof. vm_compute. repeat split. Qed.
