(* Specification level for C18: components of a path. *)
From Coq Require Import List NArith Bool.
From SqfsV Require Import C18.CanonModel.
Import ListNotations.
Local Open Scope N_scope.

(* split at every '/', always yields at least one (possibly empty) piece *)
Fixpoint split_slash (s : list N) : list (list N) :=
  match s with
  | [] => [[]]
  | c :: r =>
    if N.eqb c slash then [] :: split_slash r
    else match split_slash r with
         | h :: t => (c :: h) :: t
         | [] => [[c]]
         end
  end.

Definition nonempty (c : list N) : bool := match c with [] => false | _ => true end.
Definition is_dot (c : list N) : bool := list_N_eqb c [dot].
Definition is_dotdot (c : list N) : bool := list_N_eqb c [dot; dot].

Definition comps (s : list N) : list (list N) := filter nonempty (split_slash s).

Fixpoint join (cs : list (list N)) : list N :=
  match cs with
  | [] => []
  | [c] => c
  | c :: r => c ++ slash :: join r
  end.

Definition canon_spec (s : list N) : option (list N) :=
  if existsb is_dotdot (comps s) then None
  else Some (join (filter (fun c => negb (is_dot c)) (comps s))).

(* Abstract directory trees and path resolution in which empty and "."
   components are identity steps; ".." is given an arbitrary meaning [up]
   (irrelevant, canonicalisation refuses such paths). *)
Section Walk.
  Variable node : Type.
  Variable child : node -> list N -> option node.
  Variable up : node -> option node.

  Fixpoint walk (n : node) (cs : list (list N)) : option node :=
    match cs with
    | [] => Some n
    | c :: r =>
      if negb (nonempty c) || is_dot c then walk n r
      else if is_dotdot c then
        match up n with Some m => walk m r | None => None end
      else match child n c with Some m => walk m r | None => None end
    end.
End Walk.
