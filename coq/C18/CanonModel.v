(* Model of lib/util/src/canonicalize_name.c and filename_sane.c (non-Windows
   branch).  C strings are [list N] without the terminating NUL; the harness
   only feeds NUL-free byte strings.  Definitions only: proofs live in
   CanonProofs.v so that the model still extracts when a proof breaks. *)
From Coq Require Import List NArith Bool.
Import ListNotations.
Local Open Scope N_scope.

Definition slash : N := 47.
Definition dot : N := 46.

(* ---- normalize_slashes: in-place compaction as a three-state transducer.
   NStart: leading slashes are dropped ("while ( *src == '/') ++src").
   NMid  : last thing copied was an ordinary character.
   NPend : one or more slashes were skipped and a '/' is emitted only when
           another character follows ("if ( *src == 0) break; *dst++ = '/'"). *)
Inductive nstate := NStart | NMid | NPend.

Fixpoint norm_go (st : nstate) (s : list N) : list N :=
  match s with
  | [] => []
  | c :: r =>
    if N.eqb c slash then
      match st with NStart => norm_go NStart r | _ => norm_go NPend r end
    else
      match st with
      | NPend => slash :: c :: norm_go NMid r
      | _ => c :: norm_go NMid r
      end
  end.

Definition normalize_slashes (s : list N) : list N := norm_go NStart s.

(* ---- the component loop of canonicalize_name ---- *)

(* "while ( *src != 0 && *src != '/') *dst++ = *src++": (copied, rest) *)
Fixpoint copy_comp (s : list N) : list N * list N :=
  match s with
  | [] => ([], [])
  | c :: r =>
    if N.eqb c slash then ([], s)
    else let (a, b) := copy_comp r in (c :: a, b)
  end.

Inductive loop_res :=
| LOk (out : list N)        (* loop left normally, dst contents *)
| LFail (written : list N)  (* return -1, bytes written through dst so far *)
| LFuel.

Fixpoint comp_loop (fuel : nat) (src acc : list N) : loop_res :=
  match fuel with
  | O => LFuel
  | S f =>
    match src with
    | [] => LOk acc
    | c0 :: r0 =>
      let default :=
        let (cp, rest) := copy_comp src in
        match rest with
        | sl :: rest' => comp_loop f rest' (acc ++ cp ++ [sl])
        | [] => LOk (acc ++ cp)
        end in
      if N.eqb c0 dot then
        match r0 with
        | [] => LOk acc                              (* "." at the end: break *)
        | c1 :: r1 =>
          if N.eqb c1 slash then comp_loop f r1 acc  (* "./": src += 2 *)
          else if N.eqb c1 dot then
            match r1 with
            | [] => LFail acc                        (* ".." at the end *)
            | c2 :: _ => if N.eqb c2 slash then LFail acc else default
            end
          else default
        end
      else default
    end
  end.

Inductive canon_res :=
| CanonOk (r : list N)      (* return 0, buffer = r *)
| CanonFail (buf : list N)  (* return -1, buffer as the C code leaves it *)
| CanonFuel.

(* On failure the buffer holds what was written through dst followed by the
   untouched rest of the (once normalised) string. *)
Definition canon_model (s : list N) : canon_res :=
  let n := normalize_slashes s in
  match comp_loop (S (length n)) n [] with
  | LOk out => CanonOk (normalize_slashes out)
  | LFail w => CanonFail (w ++ skipn (length w) n)
  | LFuel => CanonFuel
  end.

Definition canon_result (s : list N) : option (list N) :=
  match canon_model s with CanonOk r => Some r | _ => None end.

(* ---- is_filename_sane(name, false) / the non-Windows build ---- *)
Fixpoint has_slash (s : list N) : bool :=
  match s with
  | [] => false
  | c :: r => if N.eqb c slash then true else has_slash r
  end.

Fixpoint list_N_eqb (a b : list N) : bool :=
  match a, b with
  | [], [] => true
  | x :: a', y :: b' => N.eqb x y && list_N_eqb a' b'
  | _, _ => false
  end.

Definition is_filename_sane_model (name : list N) : bool :=
  if list_N_eqb name [dot] || list_N_eqb name [dot; dot] then false
  else negb (has_slash name).
