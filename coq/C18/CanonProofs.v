(* Proofs for C18: the character-level model of canonicalize_name refines the
   component-level specification, and the specification has the stated
   properties. *)
From Coq Require Import List NArith Bool Lia Arith.
From SqfsV Require Import C18.CanonModel C18.CanonSpec.
Import ListNotations.
Local Open Scope N_scope.

(* ---------- basic facts ---------- *)

Lemma list_N_eqb_eq a b : list_N_eqb a b = true <-> a = b.
Proof.
  revert b; induction a as [|x a IH]; intros [|y b]; simpl; split; intro H;
    try reflexivity; try discriminate.
  - apply andb_true_iff in H as [H1 H2]. apply N.eqb_eq in H1. apply IH in H2. congruence.
  - inversion H; subst. rewrite N.eqb_refl. simpl. apply IH. reflexivity.
Qed.

Lemma list_N_eqb_neq a b : list_N_eqb a b = false <-> a <> b.
Proof.
  split; intro H.
  - intro E. apply list_N_eqb_eq in E. congruence.
  - destruct (list_N_eqb a b) eqn:E; [|reflexivity]. apply list_N_eqb_eq in E. contradiction.
Qed.

Lemma has_slash_In s : has_slash s = true <-> In slash s.
Proof.
  induction s as [|c r IH]; simpl.
  - split; [discriminate|tauto].
  - destruct (N.eqb_spec c slash) as [E|E].
    + split; auto.
    + rewrite IH. split; [auto|]. intros [H|H]; [congruence|exact H].
Qed.

Lemma has_slash_app a b : has_slash (a ++ b) = has_slash a || has_slash b.
Proof.
  induction a as [|c a IH]; simpl; [reflexivity|].
  destruct (N.eqb c slash); [reflexivity|exact IH].
Qed.

Definition good (c : list N) : Prop := c <> [] /\ has_slash c = false.

Definition pj (cs : list (list N)) : list N :=
  match cs with [] => [] | _ => slash :: join cs end.

Lemma join_cons c r : join (c :: r) = c ++ pj r.
Proof. destruct r; simpl; [rewrite app_nil_r|]; reflexivity. Qed.

Lemma split_slash_nonnil s : split_slash s <> [].
Proof.
  destruct s as [|c r]; simpl; [discriminate|].
  destruct (N.eqb c slash); [discriminate|].
  destruct (split_slash r); discriminate.
Qed.

Lemma split_slash_cons_ns c r :
  N.eqb c slash = false ->
  exists h t, split_slash r = h :: t /\ split_slash (c :: r) = (c :: h) :: t.
Proof.
  intro E. simpl. rewrite E.
  destruct (split_slash r) as [|h t] eqn:S; [exfalso; eapply split_slash_nonnil; eauto|].
  exists h, t. auto.
Qed.

(* splitting distributes over a separating slash *)
Lemma split_app a b : split_slash (a ++ slash :: b) = split_slash a ++ split_slash b.
Proof.
  induction a as [|c a IH].
  - reflexivity.
  - cbn [app split_slash]. destruct (N.eqb c slash) eqn:E.
    + rewrite IH. reflexivity.
    + rewrite IH. destruct (split_slash a) as [|h t] eqn:S;
        [exfalso; eapply split_slash_nonnil; eauto|]. reflexivity.
Qed.

Lemma split_noslash c : has_slash c = false -> split_slash c = [c].
Proof.
  induction c as [|x c IH]; simpl; intro H; [reflexivity|].
  destruct (N.eqb x slash); [discriminate|]. rewrite IH by exact H. reflexivity.
Qed.

Lemma split_pieces_noslash s : Forall (fun c => has_slash c = false) (split_slash s).
Proof.
  induction s as [|c r IH]; simpl.
  - constructor; [reflexivity|constructor].
  - destruct (N.eqb c slash) eqn:E.
    + constructor; [reflexivity|exact IH].
    + destruct (split_slash r) as [|h t]; [repeat constructor; simpl; rewrite E; reflexivity|].
      inversion IH; subst. constructor; [simpl; rewrite E; assumption|assumption].
Qed.

Lemma comps_good s : Forall good (comps s).
Proof.
  unfold comps. pose proof (split_pieces_noslash s) as H.
  induction H as [|c l Hc Hl IH]; simpl; [constructor|].
  destruct c as [|x c]; simpl; [exact IH|].
  constructor; [split; [discriminate|exact Hc]|exact IH].
Qed.

Lemma split_join cs :
  Forall (fun c => has_slash c = false) cs -> cs <> [] -> split_slash (join cs) = cs.
Proof.
  induction cs as [|c r IH]; intros HF HN; [contradiction|].
  inversion HF; subst. rewrite join_cons. destruct r as [|c' r'].
  - simpl. rewrite app_nil_r. apply split_noslash; assumption.
  - unfold pj. rewrite split_app. rewrite split_noslash by assumption.
    rewrite IH; [reflexivity|assumption|discriminate].
Qed.

Lemma filter_nonempty_good cs : Forall good cs -> filter nonempty cs = cs.
Proof.
  induction 1 as [|c l [Hc _] Hl IH]; simpl; [reflexivity|].
  destruct c; [contradiction|]. simpl. rewrite IH. reflexivity.
Qed.

Lemma good_noslash cs : Forall good cs -> Forall (fun c => has_slash c = false) cs.
Proof. induction 1 as [|c l [_ H] Hl IH]; constructor; assumption. Qed.

Lemma comps_join cs : Forall good cs -> comps (join cs) = cs.
Proof.
  intros H. destruct cs as [|c r]; [reflexivity|].
  unfold comps. rewrite split_join; [|apply good_noslash; assumption|discriminate].
  apply filter_nonempty_good; assumption.
Qed.

Lemma comps_app_slash c x : good c -> comps (c ++ slash :: x) = c :: comps x.
Proof.
  intros [Hn Hs]. unfold comps. rewrite split_app, split_noslash by assumption.
  simpl. destruct c; [contradiction|reflexivity].
Qed.

Lemma comps_noslash c : good c -> comps c = [c].
Proof.
  intros [Hn Hs]. unfold comps. rewrite split_noslash by assumption.
  simpl. destruct c; [contradiction|reflexivity].
Qed.

(* ---------- normalize_slashes = join . comps ---------- *)

Lemma norm_go_char s :
  norm_go NStart s = join (comps s) /\
  norm_go NPend s = pj (comps s) /\
  norm_go NMid s = match split_slash s with
                   | h :: t => h ++ pj (filter nonempty t)
                   | [] => []
                   end.
Proof.
  induction s as [|c r (IH1 & IH2 & IH3)].
  - simpl. auto.
  - destruct (N.eqb c slash) eqn:E.
    + unfold comps. cbn [norm_go split_slash]. rewrite E. cbn [filter nonempty].
      fold (comps r). cbn [app]. auto.
    + destruct (split_slash_cons_ns c r E) as (h & t & S1 & S2).
      unfold comps. rewrite S2. cbn [norm_go]. rewrite E. rewrite IH3, S1.
      cbn [filter nonempty]. rewrite join_cons. cbn [pj app]. rewrite join_cons. cbn [app].
      auto.
Qed.

Lemma normalize_char s : normalize_slashes s = join (comps s).
Proof. apply norm_go_char. Qed.

(* ---------- the component loop ---------- *)

Fixpoint body (cs : list (list N)) : list N :=
  match cs with
  | [] => []
  | [c] => if is_dot c then [] else c
  | c :: r => (if is_dot c then [] else c ++ [slash]) ++ body r
  end.

Lemma copy_comp_good c x :
  has_slash c = false -> copy_comp (c ++ pj x) = (c, pj x).
Proof.
  induction c as [|a c IH]; simpl; intro H.
  - destruct x; simpl; reflexivity.
  - destruct (N.eqb a slash); [discriminate|]. rewrite IH by exact H. reflexivity.
Qed.

Lemma comp_loop_default f c r acc :
  good c -> is_dot c = false -> is_dotdot c = false ->
  comp_loop (S f) (c ++ pj r) acc =
  match r with
  | [] => LOk (acc ++ c)
  | _ => comp_loop f (join r) (acc ++ c ++ [slash])
  end.
Proof.
  intros [Hn Hs] Hd Hdd.
  assert (D : (let (cp, rest) := copy_comp (c ++ pj r) in
               match rest with
               | sl :: rest' => comp_loop f rest' (acc ++ cp ++ [sl])
               | [] => LOk (acc ++ cp)
               end) =
              match r with
              | [] => LOk (acc ++ c)
              | _ => comp_loop f (join r) (acc ++ c ++ [slash])
              end).
  { rewrite copy_comp_good by exact Hs. destruct r; reflexivity. }
  destruct c as [|c0 c']; [contradiction|].
  cbn [comp_loop app]. cbn [app] in D.
  destruct (N.eqb c0 dot) eqn:E0; [|exact D].
  apply N.eqb_eq in E0; subst c0.
  destruct c' as [|c1 c'']; [discriminate Hd|].
  cbn [app]. cbn [app] in D.
  simpl in Hs. destruct (N.eqb c1 slash) eqn:E1; [discriminate Hs|].
  destruct (N.eqb c1 dot) eqn:E1d; [|exact D].
  apply N.eqb_eq in E1d; subst c1.
  destruct c'' as [|c2 c3]; [discriminate Hdd|].
  cbn [app]. cbn [app] in D. simpl in Hs.
  destruct (N.eqb c2 slash) eqn:E2; [discriminate Hs|].
  exact D.
Qed.

Lemma length_join_cons c r : (length (join r) <= length (join (c :: r)))%nat.
Proof.
  rewrite join_cons, app_length. destruct r; simpl; lia.
Qed.

Lemma comp_loop_ok cs : Forall good cs -> existsb is_dotdot cs = false ->
  forall fuel acc, (length (join cs) < fuel)%nat ->
  comp_loop fuel (join cs) acc = LOk (acc ++ body cs).
Proof.
  induction 1 as [|c r Hc Hr IH]; intros Hdd fuel acc Hf.
  - destruct fuel; [lia|]. simpl. rewrite app_nil_r. reflexivity.
  - cbn [existsb] in Hdd. apply orb_false_iff in Hdd as [Hdd1 Hdd2].
    destruct fuel as [|f]; [lia|].
    assert (Hf' : (length (join r) < f)%nat).
    { rewrite join_cons, app_length in Hf. destruct Hc as [Hn _].
      destruct c; [contradiction|]. destruct r; simpl in *; lia. }
    destruct (is_dot c) eqn:Hd.
    + apply list_N_eqb_eq in Hd. subst c. rewrite join_cons.
      destruct r as [|c' r'].
      * simpl. rewrite app_nil_r. reflexivity.
      * cbn [pj app comp_loop]. rewrite N.eqb_refl. cbn [N.eqb].
        replace (N.eqb slash slash) with true by reflexivity.
        rewrite IH by assumption. cbn [body is_dot]. simpl. reflexivity.
    + rewrite join_cons, comp_loop_default by assumption.
      destruct r as [|c' r'].
      * cbn [body]. rewrite Hd. reflexivity.
      * rewrite IH by assumption. cbn [body]. rewrite Hd.
        rewrite <- !app_assoc. reflexivity.
Qed.

Lemma comp_loop_fail cs : Forall good cs -> existsb is_dotdot cs = true ->
  forall fuel acc, (length (join cs) < fuel)%nat ->
  exists w, comp_loop fuel (join cs) acc = LFail w.
Proof.
  induction 1 as [|c r Hc Hr IH]; intros Hdd fuel acc Hf; [discriminate|].
  cbn [existsb] in Hdd.
  destruct fuel as [|f]; [lia|].
  assert (Hf' : (length (join r) < f)%nat).
  { rewrite join_cons, app_length in Hf. destruct Hc as [Hn _].
    destruct c; [contradiction|]. destruct r; simpl in *; lia. }
  destruct (is_dotdot c) eqn:Hdd1.
  - apply list_N_eqb_eq in Hdd1. subst c. rewrite join_cons.
    destruct r; simpl; eauto.
  - simpl in Hdd. destruct (is_dot c) eqn:Hd.
    + apply list_N_eqb_eq in Hd. subst c. rewrite join_cons.
      destruct r as [|c' r']; [discriminate|].
      cbn [pj app comp_loop]. rewrite N.eqb_refl.
      replace (N.eqb slash slash) with true by reflexivity.
      apply IH; assumption.
    + rewrite join_cons, comp_loop_default by assumption.
      destruct r as [|c' r']; [discriminate|].
      apply IH; assumption.
Qed.

Lemma comps_body cs : Forall good cs ->
  comps (body cs) = filter (fun c => negb (is_dot c)) cs.
Proof.
  induction 1 as [|c r Hc Hr IH]; [reflexivity|].
  destruct r as [|c' r'].
  - cbn [body filter]. destruct (is_dot c); simpl; [reflexivity|].
    apply comps_noslash; assumption.
  - change (body (c :: c' :: r')) with
      ((if is_dot c then [] else c ++ [slash]) ++ body (c' :: r')).
    cbn [filter]. destruct (is_dot c); simpl negb; cbn iota.
    + simpl app. exact IH.
    + rewrite <- app_assoc. cbn [app]. rewrite comps_app_slash by assumption.
      rewrite IH. reflexivity.
Qed.

(* ---------- main refinement ---------- *)

Theorem canon_model_spec s :
  canon_model s <> CanonFuel /\ canon_result s = canon_spec s.
Proof.
  unfold canon_result, canon_model, canon_spec.
  rewrite normalize_char.
  pose proof (comps_good s) as G.
  destruct (existsb is_dotdot (comps s)) eqn:E.
  - destruct (comp_loop_fail (comps s) G E (S (length (join (comps s)))) []) as [w Hw]; [lia|].
    rewrite Hw. split; [discriminate|reflexivity].
  - rewrite (comp_loop_ok (comps s) G E) by lia. cbn [app].
    split; [discriminate|]. rewrite normalize_char, comps_body by assumption. reflexivity.
Qed.

Lemma canon_refines_l s : canon_result s = canon_spec s.
Proof. apply canon_model_spec. Qed.

Lemma canon_total_l s : canon_model s <> CanonFuel.
Proof. apply canon_model_spec. Qed.

(* ---------- properties of the specification ---------- *)

Lemma existsb_dotdot_In cs : existsb is_dotdot cs = true <-> In [dot; dot] cs.
Proof.
  rewrite existsb_exists. split.
  - intros (x & Hx & E). apply list_N_eqb_eq in E. subst. exact Hx.
  - intro H. exists [dot; dot]. split; [exact H|reflexivity].
Qed.

Lemma canon_fails_iff_l s :
  canon_result s = None <-> In [dot; dot] (split_slash s).
Proof.
  rewrite canon_refines_l. unfold canon_spec.
  destruct (existsb is_dotdot (comps s)) eqn:E.
  - apply existsb_dotdot_In in E. unfold comps in E. apply filter_In in E as [E _].
    split; auto.
  - split; [discriminate|]. intro H.
    assert (In [dot; dot] (comps s)) as H' by (unfold comps; apply filter_In; split; auto).
    apply existsb_dotdot_In in H'. congruence.
Qed.

Definition clean_comp (c : list N) : Prop :=
  c <> [] /\ c <> [dot] /\ c <> [dot; dot] /\ ~ In slash c.

Lemma spec_comps s r : canon_spec s = Some r ->
  exists cs, r = join cs /\ Forall good cs /\ Forall clean_comp cs /\
             cs = filter (fun c => negb (is_dot c)) (comps s).
Proof.
  unfold canon_spec. destruct (existsb is_dotdot (comps s)) eqn:E; [discriminate|].
  intro H; inversion H; subst; clear H.
  eexists; split; [reflexivity|].
  assert (G : Forall good (filter (fun c => negb (is_dot c)) (comps s))).
  { pose proof (comps_good s) as G. apply Forall_forall. intros c Hc.
    apply filter_In in Hc as [Hc _]. rewrite Forall_forall in G. auto. }
  split; [exact G|]. split; [|reflexivity].
  apply Forall_forall. intros c Hc. rewrite Forall_forall in G.
  destruct (G c Hc) as [Hn Hs]. apply filter_In in Hc as [Hc Hd].
  repeat split.
  - exact Hn.
  - intro; subst c. discriminate Hd.
  - intro; subst c. assert (existsb is_dotdot (comps s) = true) by (apply existsb_dotdot_In; exact Hc).
    congruence.
  - intro HI. apply has_slash_In in HI. congruence.
Qed.

Lemma canon_clean_l s r : canon_result s = Some r ->
  r = [] \/ Forall clean_comp (split_slash r).
Proof.
  rewrite canon_refines_l. intro H. destruct (spec_comps s r H) as (cs & -> & G & C & _).
  destruct cs as [|c cs']; [left; reflexivity|right].
  rewrite split_join; [exact C|apply good_noslash; exact G|discriminate].
Qed.

(* the informal clauses, as consequences of the component statement *)
Lemma clean_no_leading_slash r :
  Forall clean_comp (split_slash r) -> forall x, r <> slash :: x.
Proof.
  intros H x ->. simpl in H. inversion H as [|? ? [Hn _] _]. contradiction.
Qed.

Lemma clean_no_trailing_slash r :
  Forall clean_comp (split_slash r) -> forall x, r <> x ++ [slash].
Proof.
  intros H x ->. rewrite split_app in H. apply Forall_app in H as [_ H].
  simpl in H. inversion H as [|? ? [Hn _] _]. contradiction.
Qed.

Lemma clean_no_double_slash r :
  Forall clean_comp (split_slash r) -> forall x y, r <> x ++ slash :: slash :: y.
Proof.
  intros H x y ->. rewrite split_app in H. apply Forall_app in H as [_ H].
  simpl in H. inversion H as [|? ? [Hn _] _]. contradiction.
Qed.

(* lengths *)
Fixpoint sumlen (cs : list (list N)) : nat :=
  match cs with [] => 0 | c :: r => length c + 1 + sumlen r end.

Lemma length_join cs : length (join cs) = (sumlen cs - 1)%nat.
Proof.
  induction cs as [|c r IH]; [reflexivity|].
  rewrite join_cons, app_length. destruct r as [|c' r'].
  - simpl. lia.
  - cbn [pj length]. rewrite IH. cbn [sumlen]. lia.
Qed.

Lemma length_split s : (length s + 1)%nat = sumlen (split_slash s).
Proof.
  induction s as [|c r IH]; [reflexivity|].
  cbn [split_slash]. destruct (N.eqb c slash).
  - cbn [sumlen length]. lia.
  - destruct (split_slash r) as [|h t] eqn:S; [exfalso; eapply split_slash_nonnil; eauto|].
    cbn [sumlen length] in *. lia.
Qed.

Lemma sumlen_filter f cs : (sumlen (filter f cs) <= sumlen cs)%nat.
Proof.
  induction cs as [|c r IH]; simpl; [lia|]. destruct (f c); simpl; lia.
Qed.

Lemma canon_no_grow_l s r : canon_result s = Some r -> (length r <= length s)%nat.
Proof.
  rewrite canon_refines_l. intro H. destruct (spec_comps s r H) as (cs & -> & _ & _ & ->).
  rewrite length_join. unfold comps.
  pose proof (sumlen_filter (fun c => negb (is_dot c)) (filter nonempty (split_slash s))).
  pose proof (sumlen_filter nonempty (split_slash s)).
  pose proof (length_split s). lia.
Qed.

Lemma filter_idem {A} (f : A -> bool) l : filter f (filter f l) = filter f l.
Proof.
  induction l as [|x l IH]; simpl; [reflexivity|].
  destruct (f x) eqn:E; simpl; rewrite ?E, IH; reflexivity.
Qed.

Lemma canon_idem_l s r : canon_result s = Some r -> canon_result r = Some r.
Proof.
  rewrite !canon_refines_l. intro H.
  destruct (spec_comps s r H) as (cs & -> & G & C & Hcs).
  unfold canon_spec. rewrite comps_join by exact G.
  assert (E : existsb is_dotdot cs = false).
  { destruct (existsb is_dotdot cs) eqn:E; [|reflexivity].
    apply existsb_dotdot_In in E. rewrite Forall_forall in C.
    destruct (C _ E) as (_ & _ & Hdd & _). contradiction. }
  rewrite E. rewrite Hcs at 1. rewrite filter_idem, <- Hcs. reflexivity.
Qed.

Section WalkFacts.
  Variable node : Type.
  Variable child : node -> list N -> option node.
  Variable up : node -> option node.
  Notation walk := (walk node child up).

  Lemma walk_filter_nonempty n cs : walk n (filter nonempty cs) = walk n cs.
  Proof.
    revert n; induction cs as [|c r IH]; intro n; [reflexivity|].
    destruct c as [|x c].
    - simpl. apply IH.
    - cbn [filter nonempty walk]. cbn [negb orb].
      destruct (is_dot (x :: c)); [apply IH|].
      destruct (is_dotdot (x :: c)).
      + destruct (up n); [apply IH|reflexivity].
      + destruct (child n (x :: c)); [apply IH|reflexivity].
  Qed.

  Lemma walk_filter_notdot n cs :
    walk n (filter (fun c => negb (is_dot c)) cs) = walk n cs.
  Proof.
    revert n; induction cs as [|c r IH]; intro n; [reflexivity|].
    cbn [filter]. destruct (is_dot c) eqn:D; cbn [negb].
    - cbn [walk]. rewrite D, orb_true_r. apply IH.
    - cbn [walk]. rewrite D.
      destruct (negb (nonempty c) || false); [apply IH|].
      destruct (is_dotdot c).
      + destruct (up n); [apply IH|reflexivity].
      + destruct (child n c); [apply IH|reflexivity].
  Qed.

  Lemma canon_same_entry_l s r n :
    canon_result s = Some r -> walk n (split_slash s) = walk n (split_slash r).
  Proof.
    rewrite canon_refines_l. intro H.
    destruct (spec_comps s r H) as (cs & -> & G & _ & Hcs).
    rewrite <- (walk_filter_nonempty n (split_slash s)).
    fold (comps s). rewrite <- walk_filter_notdot, <- Hcs.
    destruct cs as [|c cs']; [reflexivity|].
    rewrite split_join; [reflexivity|apply good_noslash; exact G|discriminate].
  Qed.
End WalkFacts.

Lemma sane_iff_l n :
  is_filename_sane_model n = true <-> n <> [dot] /\ n <> [dot; dot] /\ ~ In slash n.
Proof.
  unfold is_filename_sane_model.
  destruct (list_N_eqb n [dot]) eqn:E1; cbn [orb].
  - apply list_N_eqb_eq in E1. split; [discriminate|]. intros (H & _). contradiction.
  - destruct (list_N_eqb n [dot; dot]) eqn:E2.
    + apply list_N_eqb_eq in E2. split; [discriminate|]. intros (_ & H & _). contradiction.
    + apply list_N_eqb_neq in E1, E2. rewrite negb_true_iff.
      split.
      * intro H. repeat split; auto. intro HI. apply has_slash_In in HI. congruence.
      * intros (_ & _ & H). destruct (has_slash n) eqn:E; [|reflexivity].
        apply has_slash_In in E. contradiction.
Qed.
