(* C11 — packing a directory is independent of the host's enumeration order.
   Statements only; every proof is one [exact] of a lemma from coq/C11/*Proofs.v (or a closed
   computation on a witness from C11/Witness.v).
   Models: C11/FstreeModel.v (fstree.c), C11/PostModel.v (hardlink.c, post_process.c),
           C11/ScanModel.v (dir_unix.c, dir_rec.c, dir_hl.c, dir_tree_iterator.c, scan_directory of glob.c).
   The host's enumeration order is the order of the children lists of the [hnode] argument;
   [hperm t t'] says t' is t with every directory enumerated in some other order;
   [hwf t] says names within one directory are pairwise distinct.
   [scan_dir fnmatch dflt cfg sorted t fs]: sorted = true is the native iterator with fixes/F09 applied
   (reads a directory completely, qsorts the names with strcmp), sorted = false the iterator as it was
   (reports entries in readdir order). *)
From Coq Require Import List NArith ZArith Bool Permutation Sorted.
From SqfsV Require Import C11.StrOrder C11.FstreeModel C11.PostModel C11.ScanModel
     C11.OrderProofs C11.CanonProofs C11.TreeProofs C11.PostProofs C11.ScanProofs C11.Witness.
Import ListNotations.

(* ================= insert_sorted (lib/fstree/src/fstree.c) ================= *)

(* the child list after inserting nodes with pairwise distinct names is the same for every
   insertion order, whatever list one starts from *)
Theorem insert_sorted_order_free : forall l l' base,
  Permutation l l' -> NoDup (map node_name l) -> add_children l base = add_children l' base.
Proof. exact insert_sorted_order_free_l. Qed.
Print Assumptions insert_sorted_order_free.

(* ... it is strcmp-sorted ... *)
Theorem insert_sorted_sorted : forall l base,
  names_sorted base -> NoDup (map node_name (l ++ base)) -> names_sorted (add_children l base).
Proof. exact insert_sorted_sorted_l. Qed.
Print Assumptions insert_sorted_sorted.

(* ... and the sorted arrangement of those nodes is unique *)
Theorem insert_sorted_canonical : forall l base other,
  names_sorted base -> NoDup (map node_name (l ++ base)) ->
  Permutation other (l ++ base) -> names_sorted other -> other = add_children l base.
Proof. exact insert_sorted_canonical_l. Qed.
Print Assumptions insert_sorted_canonical.

(* ================= the repaired native iterator (dir_unix.c + fixes/F09) ================= *)

(* qsort may be any correct sorting algorithm: with distinct names the sorted listing is unique *)
Theorem native_sort_unique : forall l l',
  NoDup (map hname l) -> Permutation l l' -> StronglySorted (klt hname) l' -> l' = sort_h l.
Proof. exact sort_h_unique. Qed.
Print Assumptions native_sort_unique.

(* what the layers above the native iterator get to see does not depend on the enumeration order *)
Theorem canon_order_free : forall t t', hwf t -> hperm t t' -> canon t = canon t'.
Proof. exact canon_hperm. Qed.
Print Assumptions canon_order_free.

(* ================= the scan ================= *)

(* scan_order_free (repaired code, unrestricted): every tree (multiply-linked files included), every
   configuration (-k -o -H, glob filters, prefix ...), every fnmatch, every initial fstree, every
   enumeration order: same tree, same unresolved links, same stream of delivered entries *)
Theorem scan_order_free :
  forall (fnmatch : list N -> list N -> bool -> bool) dflt cfg t t' fs,
  hwf t -> hperm t t' ->
  scan_dir fnmatch dflt cfg true t fs = scan_dir fnmatch dflt cfg true t' fs.
Proof. exact scan_order_free_l. Qed.
Print Assumptions scan_order_free.

(* scan_order_free_nolinks: the layers above the native iterator are order independent on their own
   (dir_rec, the filters, scan_directory, fstree_add_generic with insert_sorted): even when entries
   arrive in readdir order the same fstree is built, as long as the hard link filter cannot fire —
   it is switched off (-H / -nohardlinks) or no non-directory of the tree has two names *)
Theorem scan_order_free_nolinks :
  forall (fnmatch : list N -> list N -> bool -> bool) dflt cfg t t' fs,
  hwf t -> hperm t t' -> (c_nohl cfg = true \/ no_multilinks t) ->
  option_map fst (scan_dir fnmatch dflt cfg false t fs) =
  option_map fst (scan_dir fnmatch dflt cfg false t' fs).
Proof. exact scan_order_free_nolinks_l. Qed.
Print Assumptions scan_order_free_nolinks.

(* ... and for such trees the repair changes nothing: the sorted scan builds what the unsorted built *)
Theorem fix_preserves_nolinks :
  forall (fnmatch : list N -> list N -> bool -> bool) dflt cfg t fs,
  hwf t -> (c_nohl cfg = true \/ no_multilinks t) ->
  option_map fst (scan_dir fnmatch dflt cfg true t fs) =
  option_map fst (scan_dir fnmatch dflt cfg false t fs).
Proof. exact fix_preserves_nolinks_l. Qed.
Print Assumptions fix_preserves_nolinks.

(* F09: with a multiply-linked file the unrepaired scan depends on the enumeration order (whichever
   name readdir returns first becomes the inode, the other one the link) *)
Theorem scan_hardlink_order_refuted :
  exists t t' cfg,
    hwf t /\ hperm t t' /\ c_nohl cfg = false /\ ~ no_multilinks t /\
    option_map fst (scan_dir w_fnmatch w_dflt cfg false t (fs_init w_dflt)) <>
    option_map fst (scan_dir w_fnmatch w_dflt cfg false t' (fs_init w_dflt)).
Proof. exact scan_hardlink_order_refuted_l. Qed.
Print Assumptions scan_hardlink_order_refuted.

(* the witness in numbers: a, m, sub/s, z with a and z one inode.  readdir order a,m,sub,z: a is the
   file (inode 2), m gets 3; order z,sub,m,a: z is the file (inode 4), a the link, m gets 2 *)
Example refuted_inode_numbers :
  (inum_of (pack false w_cfg w_tree) [n_a], inum_of (pack false w_cfg w_tree) [n_m],
   inum_of (pack false w_cfg w_tree) [n_z]) = (2, 3, 0)%nat /\
  (inum_of (pack false w_cfg w_tree_rev) [n_a], inum_of (pack false w_cfg w_tree_rev) [n_m],
   inum_of (pack false w_cfg w_tree_rev) [n_z]) = (0, 2, 4)%nat.
Proof. vm_compute. split; reflexivity. Qed.

(* ================= post processing ================= *)

(* post_process_order_free: inode numbers, link counts, link targets and the file list do not depend
   on the order of the links_unresolved list — the one piece of state the scan leaves behind that is
   not part of the sorted tree (hypothesis: no hard link points at another hard link, which is what
   the directory scan produces) *)
Theorem post_process_order_free : forall root l l',
  Permutation l l' -> NoDup l -> links_primary root l ->
  post_process (mkFs root l) = post_process (mkFs root l').
Proof. exact post_process_order_free_l. Qed.
Print Assumptions post_process_order_free.

(* the fuel of the model's reorder_hard_links loop is never exhausted: a [PFuel] result of
   post_process always stems from the link resolution, where it stands for the endless loop of
   resolve_link on a cycle of links (F11, C07's subject) — no theorem here holds because a loop of the
   model was cut short *)
Theorem post_process_fuel_only_from_links : forall fs,
  post_process fs = PFuel -> resolve_all (fs_root fs) (fs_unres fs) (mkRs [] []) = PFuel.
Proof. exact post_process_fuel. Qed.
Print Assumptions post_process_fuel_only_from_links.

(* ================= scan + post processing ================= *)

Theorem pack_order_free :
  forall (fnmatch : list N -> list N -> bool -> bool) dflt cfg t t' fs,
  hwf t -> hperm t t' ->
  pack_with fnmatch dflt cfg true t fs = pack_with fnmatch dflt cfg true t' fs.
Proof. exact pack_order_free_l. Qed.
Print Assumptions pack_order_free.

(* ================= non-vacuity ================= *)

(* insert_sorted: three nodes, two orders, one result, and it is sorted *)
Definition mk (nm : name) : tnode :=
  TNode nm (mkAttr FReg 420 0 0 0 1 false false None [] [] 0 None) [].
Example ex_insert_sorted :
  add_children [mk n_z; mk n_a; mk n_m] [] = [mk n_a; mk n_m; mk n_z] /\
  add_children [mk n_m; mk n_z; mk n_a] [] = [mk n_a; mk n_m; mk n_z].
Proof. vm_compute. split; reflexivity. Qed.

(* the hypotheses of scan_order_free are met by the witness pair, the two enumerations differ,
   the scan succeeds, and the result is the same (a is the file with inode 2, z its link) *)
Example ex_scan_sorted :
  hwf w_tree /\ hperm w_tree w_tree_rev /\ w_tree <> w_tree_rev /\
  pack true w_cfg w_tree = pack true w_cfg w_tree_rev /\
  (inum_of (pack true w_cfg w_tree_rev) [n_a], inum_of (pack true w_cfg w_tree_rev) [n_m],
   inum_of (pack true w_cfg w_tree_rev) [n_z], inum_of (pack true w_cfg w_tree_rev) []) = (2, 3, 0, 5)%nat.
Proof.
  split; [exact w_tree_wf|]. split; [exact w_tree_perm|]. split; [discriminate|].
  split; vm_compute; reflexivity.
Qed.

(* the hypotheses of scan_order_free_nolinks are met: with -H on the tree with the two-name file, and
   with the filter on for the tree without it; both scans succeed *)
Example ex_scan_nolinks :
  c_nohl w_cfg_nohl = true /\
  no_multilinks w_tree_nolinks /\ hwf w_tree_nolinks /\ hperm w_tree_nolinks w_tree_nolinks_rev /\
  option_map fst (scan_dir w_fnmatch w_dflt w_cfg_nohl false w_tree (fs_init w_dflt)) =
  option_map fst (scan_dir w_fnmatch w_dflt w_cfg_nohl false w_tree_rev (fs_init w_dflt)) /\
  inum_of (pack false w_cfg_nohl w_tree_rev) [n_z] = 5%nat /\
  inum_of (pack false w_cfg w_tree_nolinks_rev) [n_m] = 3%nat.
Proof.
  split; [reflexivity|]. split.
  - unfold no_multilinks. vm_compute. repeat constructor; simpl; intuition discriminate.
  - split; [exact w_tree_nolinks_wf|]. split; [exact w_tree_nolinks_perm|].
    split; vm_compute; [reflexivity | split; reflexivity].
Qed.

(* post_process_order_free: file a with two links b, c queued in either order *)
Definition pp_fs : option fstree :=
  let d := w_dflt in
  match fs_add d (fs_init d) (mkEnt [n_a] FReg 420 0 0 0%Z 0 false) None with
  | Some f1 =>
      match fs_add d f1 (mkEnt [[98%N]] FLnk 511 0 0 0%Z 0 true) (Some n_a) with
      | Some f2 => fs_add d f2 (mkEnt [[99%N]] FLnk 511 0 0 0%Z 0 true) (Some n_a)
      | None => None
      end
  | None => None
  end.
Example ex_post_process :
  exists root,
    pp_fs = Some (mkFs root [[[99%N]]; [[98%N]]]) /\
    links_primary root [[[99%N]]; [[98%N]]] /\
    NoDup [[[99%N]]; [[98%N]]] /\
    post_process (mkFs root [[[99%N]]; [[98%N]]]) = post_process (mkFs root [[[98%N]]; [[99%N]]]) /\
    match post_process (mkFs root [[[98%N]]; [[99%N]]]) with
    | POk o => inode_num o [n_a] = 1%nat /\ pp_files o = [[n_a]]
    | _ => False
    end.
Proof.
  eexists. split; [vm_compute; reflexivity|]. split.
  - intros p sn nd [E|[E|[]]]; subst p; vm_compute; intros H1 H2; inversion H1; subst;
      vm_compute in H2; inversion H2; subst; reflexivity.
  - split; [repeat constructor; simpl; intuition discriminate|].
    split; vm_compute; [reflexivity | split; reflexivity].
Qed.

(* ================================================================================================ *)
(* Extension (session 3): from the fstree to the image (coq/ImgScan)                                *)
(* ================================================================================================ *)
(* The theorems above end at the fstree, the inode numbers and the file list.  Here they are carried to the image through
   the layer models that exist by now:
     ImgPost.Bridge.to_img            what sqfs_serialize_fstree reads from the post-processed fstree
     Img.TreeModel.serialize_fstree   inode table, directory table, id table, root reference (C01 / C03 components)
     C02.BpModel.run                  the block processor on fs->files in packing order, over ANY worker pool
     Image.FinishModel.write_image    sqfs_writer_finish: super block, tables, padding -> the bytes of the file
   composed in ImgScan.PackModel: [scan_tables] (host directory -> tables, file inodes abstract) and [pack_image]
   (host directory -> whole image).  [order_free_case sorted cfg t] is the disjunction of the cases in which the scan is
   proved order independent: sorted = true (the native iterator as it is now, fixes/F09), or -H / -nohardlinks, or a
   directory without multiply-linked files.

   What stays a parameter shared by the two runs that are compared (i.e. is ASSUMED equal, not derived from the host):
     host_file   the flag word and the bytes read for a file NAME (pack_file opens node->data.file.input_file, or the path
                 of the node; the names, and the order in which they are opened, are proved equal: file_list_order_free)
     xa, xsec    xattr index per node and the xattr section (apply_xattrs / -x are not modelled)
     opts        compressor options;  bw_bytes: the projection of the abstract block writer state to the bytes it appended
   Not modelled: the sort file (-S), I/O errors, option parsing. *)
From SqfsV Require C03.Common C01.Res C01.InodeModel Img.TreeModel.
From SqfsV Require C02.BpModel C02.BpProofs Image.FinishModel.
From SqfsV Require Import ImgPost.Bridge ImgPost.InputOk ImgPost.PathsModel ImgPost.PathsProofs.
From SqfsV Require Import ImgScan.PackModel ImgScan.PackProofs ImgScan.ScanAdds ImgScan.Example.

(* scan_order_free_image: inode table, directory table, id table, root reference, inode references, the inode number of
   every path and fs->files are EQUAL for every two enumeration orders — for every metadata compressor, id table limit,
   initial fstree, and whatever file inodes [fb] and xattr indices [xa] the rest of the packer attaches to the paths *)
Theorem scan_order_free_image :
  forall (fnmatch : list N -> list N -> bool -> bool) dflt cfg mcompress limit fb xa sorted t t' fs0,
  hwf t -> hperm t t' -> order_free_case sorted cfg t ->
  scan_tables fnmatch dflt cfg mcompress limit fb xa sorted t fs0 =
  scan_tables fnmatch dflt cfg mcompress limit fb xa sorted t' fs0.
Proof. exact scan_tables_order_free. Qed.
Print Assumptions scan_order_free_image.

(* file_list_order_free: the files handed to the block processor — fs->files in packing order — and the host file names
   pack_files opens for them are the same list *)
Theorem file_list_order_free :
  forall (fnmatch : list N -> list N -> bool -> bool) dflt cfg sorted t t' fs0,
  hwf t -> hperm t t' -> order_free_case sorted cfg t ->
  scan_files fnmatch dflt cfg sorted t fs0 = scan_files fnmatch dflt cfg sorted t' fs0.
Proof. exact file_list_order_free_l. Qed.
Print Assumptions file_list_order_free.

(* pack_image_order_free: the whole run.  Two enumeration orders, two worker pools of any type satisfying the FIFO laws
   C09 proves of threadpool.c (worker count and schedule are inside the pool state), two backlogs: the same outcome —
   the same super blocks, data area, tables, padding, output trace (C02's refinement theorem for the data path, the
   function-ness of serializer and finish for the rest).  Hypotheses besides C11's: block size > 0, the flag word of
   every file has user-settable bits only and no chunk is empty (C02's file_ok). *)
Theorem pack_image_order_free :
  forall (fnmatch : list N -> list N -> bool -> bool) dflt cfg hash dcompress
         HT ht_search ht_insert BW bw_write bw_bytes host_file xa xsec opts mcompress limit wc
         P1 sub1 deq1 alpha1 P2 sub2 deq2 alpha2 sorted q1 q2 p1 p2 (ht0 : HT) (bw0 : BW) t t' fs0,
  fifo_laws hash dcompress P1 sub1 deq1 alpha1 -> alpha1 p1 = [] ->
  fifo_laws hash dcompress P2 sub2 deq2 alpha2 -> alpha2 p2 = [] ->
  (0 < FinishModel.c_block_size wc)%N -> (forall nm, BpProofs.file_ok (host_file nm)) ->
  hwf t -> hperm t t' -> order_free_case sorted cfg t ->
  pack_image fnmatch dflt cfg HT ht_search ht_insert BW bw_write bw_bytes host_file xa xsec opts mcompress limit wc
             P1 sub1 deq1 sorted q1 p1 ht0 bw0 t fs0 =
  pack_image fnmatch dflt cfg HT ht_search ht_insert BW bw_write bw_bytes host_file xa xsec opts mcompress limit wc
             P2 sub2 deq2 sorted q2 p2 ht0 bw0 t' fs0.
Proof. exact pack_image_order_free_l. Qed.
Print Assumptions pack_image_order_free.

(* ... hence every byte of the file *)
Theorem image_bytes_order_free :
  forall (fnmatch : list N -> list N -> bool -> bool) dflt cfg hash dcompress
         HT ht_search ht_insert BW bw_write bw_bytes host_file xa xsec opts mcompress limit wc
         P1 sub1 deq1 alpha1 P2 sub2 deq2 alpha2 sorted q1 q2 p1 p2 (ht0 : HT) (bw0 : BW) t t' fs0,
  fifo_laws hash dcompress P1 sub1 deq1 alpha1 -> alpha1 p1 = [] ->
  fifo_laws hash dcompress P2 sub2 deq2 alpha2 -> alpha2 p2 = [] ->
  (0 < FinishModel.c_block_size wc)%N -> (forall nm, BpProofs.file_ok (host_file nm)) ->
  hwf t -> hperm t t' -> order_free_case sorted cfg t ->
  image_file (pack_image fnmatch dflt cfg HT ht_search ht_insert BW bw_write bw_bytes host_file xa xsec opts mcompress
                         limit wc P1 sub1 deq1 sorted q1 p1 ht0 bw0 t fs0) =
  image_file (pack_image fnmatch dflt cfg HT ht_search ht_insert BW bw_write bw_bytes host_file xa xsec opts mcompress
                         limit wc P2 sub2 deq2 sorted q2 p2 ht0 bw0 t' fs0).
Proof. exact image_file_order_free_l. Qed.
Print Assumptions image_bytes_order_free.

(* the composed model is not equal on both sides because the data path fell over: it never does (C02), and every run IS
   the in-order specification [image_spec] applied to the post-processed tree *)
Theorem pack_image_is_function_of_tree :
  forall (fnmatch : list N -> list N -> bool -> bool) dflt cfg hash dcompress
         HT ht_search ht_insert BW bw_write bw_bytes host_file xa xsec opts mcompress limit wc
         P sub deq alpha sorted q p0 (ht0 : HT) (bw0 : BW) t fs0,
  fifo_laws hash dcompress P sub deq alpha -> alpha p0 = [] ->
  (0 < FinishModel.c_block_size wc)%N -> (forall nm, BpProofs.file_ok (host_file nm)) ->
  pack_image fnmatch dflt cfg HT ht_search ht_insert BW bw_write bw_bytes host_file xa xsec opts mcompress limit wc
             P sub deq sorted q p0 ht0 bw0 t fs0 =
  match scan_post fnmatch dflt cfg sorted t fs0 with
  | None => IScanErr
  | Some PErr => IPostErr
  | Some PFuel => IPostLoop
  | Some (POk pp) =>
      IImage (image_spec hash dcompress HT ht_search ht_insert BW bw_write bw_bytes host_file xa xsec opts mcompress limit
                         wc ht0 bw0 pp)
  end.
Proof. exact pack_image_is_spec. Qed.
Print Assumptions pack_image_is_function_of_tree.

(* scan_is_run_adds: the fstree a scan leaves is the result of the fstree_add_generic calls scan_directory made, in the
   order of delivery — the scan is a packing run in the sense of ImgPost (Properties_C01 section 5) *)
Theorem scan_is_run_adds :
  forall (fnmatch : list N -> list N -> bool -> bool) dflt cfg sorted t fs0 fs stream,
  scan_dir fnmatch dflt cfg sorted t fs0 = Some (fs, stream) ->
  run_adds dflt fs0 (ops_of_stream stream) = Some fs.
Proof. exact scan_is_run_adds_l. Qed.
Print Assumptions scan_is_run_adds.

(* scan_image_reads_back: ... so under ImgPost's input bounds on those calls the tables (the same for every enumeration
   order) are the tables of a representable tree and read back, through the reader specification of coq/Img, as exactly
   the paths of the scanned tree with their attributes, two paths carrying one inode number iff they are hard links of
   each other (C01.pack_paths_roundtrip instantiated with the scan) *)
Theorem scan_image_reads_back :
  forall compress uncompress,
  (forall b c, compress b = Common.CData c -> (Common.lenN c <= Common.lenN b)%N /\ uncompress c = Some b) ->
  forall limit, (limit <= 65536)%N ->
  forall (fnmatch : list N -> list N -> bool -> bool) dflt cfg sorted t bs fs stream pp fb xa img,
  scan_dir fnmatch dflt cfg sorted t (fs_init dflt) = Some (fs, stream) ->
  input_okb bs dflt (ops_of_stream stream) = true ->
  post_process fs = POk pp ->
  attached_okb bs fb xa pp = true ->
  TreeModel.serialize_fstree compress limit (to_img fb xa pp) = Res.Ok img ->
  TreeModel.trace_fits img = true ->
  TreeModel.representable bs (to_img fb xa pp) = true /\
  exists lt fl,
    TreeModel.read_tree uncompress bs (TreeModel.si_itbl img) (TreeModel.si_dtbl img) (TreeModel.si_ids img)
                        (length (pp_inodes pp)) (TreeModel.si_root img) = Some lt /\
    denotes fb xa (fs_root fs) fl /\
    flat_lt [] lt = map (number (pp_inodes pp)) fl /\
    (forall x y, In x fl -> In y fl -> ino_of (pp_inodes pp) (snd x) = ino_of (pp_inodes pp) (snd y) -> snd x = snd y).
Proof. exact scan_image_reads_back_l. Qed.
Print Assumptions scan_image_reads_back.

(* ---- non-vacuity ---- *)
(* a, b -> a, c (fifo), d/{x, y, e/f}, m (second name of a), n (chr 1:3), z in two enumeration orders (every directory
   reversed): hypotheses hold, same tables; inode numbers as alloc_inode_num_dfs assigns them *)
Example ex_scan_order_free_image :
  hwf x_tree /\ hperm x_tree x_tree' /\ x_tree <> x_tree' /\ order_free_case true x_cfg x_tree /\
  x_tables true x_tree = x_tables true x_tree' /\
  match x_tables true x_tree with
  | TSer (Res.Ok tb) =>
      tb_inodes tb = [[nD; nE; nF]; [nD; nE]; [nD; nX]; [nD; nY]; [nA]; [nB]; [nC]; [nD]; [nN]; [nZ]; []] /\
      tb_files tb = [[nA]; [nD; nE; nF]; [nD; nX]; [nD; nY]; [nZ]] /\
      tb_ids tb = [1000; 100; 0; 5]%N /\
      (Common.lenN (tb_itbl tb) =? 0)%N = false /\ (Common.lenN (tb_dtbl tb) =? 0)%N = false
  | _ => False
  end.
Proof. exact ex_scan_tables. Qed.
Example ex_scan_order_free_image_nohl :
  order_free_case false x_cfg_nohl x_tree /\
  scan_tables x_fnmatch x_dflt x_cfg_nohl (TreeModel.img_compress 3) GenC01.c_id_table_limit x_fb x_xa false x_tree
              (fs_init x_dflt) =
  scan_tables x_fnmatch x_dflt x_cfg_nohl (TreeModel.img_compress 3) GenC01.c_id_table_limit x_fb x_xa false x_tree'
              (fs_init x_dflt) /\
  match scan_tables x_fnmatch x_dflt x_cfg_nohl (TreeModel.img_compress 3) GenC01.c_id_table_limit x_fb x_xa false x_tree'
                    (fs_init x_dflt) with
  | TSer (Res.Ok tb) => length (tb_inodes tb) = 12%nat
  | _ => False
  end.
Proof. exact ex_scan_tables_nohl. Qed.
(* the hypotheses of pack_image_order_free on a concrete data path (C02.BpConcrete, serial pool) *)
Example ex_pack_image_hyps :
  fifo_laws x_hash BpConcrete.toy_compress (list BpModel.blk) BpModel.sp_submit
            (BpModel.sp_dequeue (BpModel.process_block x_hash BpConcrete.toy_compress)) (fun x => x) /\
  (forall nm, BpProofs.file_ok (x_host_file nm)).
Proof. exact (conj x_serial_laws x_host_file_ok). Qed.
(* ... and the conclusion computes: backlog 3 on one order against backlog 40 on the other, one image of 4096 bytes that
   the format validator accepts and that reads back as the twelve paths (a and m one inode) *)
Example ex_pack_image_order_free :
  (0 <? FinishModel.c_block_size x_wc)%N = true /\
  x_pack 3 x_tree = x_pack 40 x_tree' /\
  match x_pack 40 x_tree' with
  | IImage (Res.Ok w) =>
      let b := FinishModel.image_bytes w in
      ImageProofs.image_fits w = true /\
      ValidModel.valid_image (TreeModel.img_uncompress 3) 4096 b = true /\
      Common.lenN b = 4096%N /\ SuperModel.s_bytes_used (FinishModel.w_super w) = 2298%N /\
      SuperModel.s_inode_count (FinishModel.w_super w) = 11%N /\ SuperModel.s_frag_count (FinishModel.w_super w) = 1%N /\
      option_map (fun lt => map (fun x => (fst (fst x), snd x, pv_kind (snd (fst x)))) (flat_lt [] lt))
                 (ReaderModel.read_image_tree (TreeModel.img_uncompress 3) b) =
      Some [([], 11, TreeModel.LDir 0); ([nA], 5, TreeModel.LFile 0 300 0 0 0 []); ([nB], 6, TreeModel.LSlink [97]);
            ([nC], 7, TreeModel.LIpc false); ([nD], 8, TreeModel.LDir 0); ([nD; nE], 2, TreeModel.LDir 0);
            ([nD; nE; nF], 1, TreeModel.LFile 96 9000 0 0 300 [4; 4]);
            ([nD; nX], 3, TreeModel.LFile 96 5000 0 0 1108 [4]);
            ([nD; nY], 4, TreeModel.LFile 0 0 0 InodeModel.NOX InodeModel.NOX []);
            ([nM], 5, TreeModel.LFile 0 300 0 0 0 []); ([nN], 9, TreeModel.LDev true 259);
            ([nZ], 10, TreeModel.LFile 0 300 0 0 0 [])]%N
  | _ => False
  end.
Proof. exact ex_pack_image. Qed.
Example ex_scan_image_reads_back :
  match scan_dir x_fnmatch x_dflt x_cfg true x_tree' (fs_init x_dflt) with
  | Some (fs, stream) =>
      length (ops_of_stream stream) = 11%nat /\
      run_adds x_dflt (fs_init x_dflt) (ops_of_stream stream) = Some fs /\
      input_okb 4096 x_dflt (ops_of_stream stream) = true /\
      match post_process fs with
      | POk pp => attached_okb 4096 x_fb x_xa pp = true /\ TreeModel.representable 4096 (to_img x_fb x_xa pp) = true
      | _ => False
      end
  | None => False
  end.
Proof. exact ex_scan_reads_back. Qed.

(* insert_sorted_sorted / insert_sorted_canonical with a NON-EMPTY base (audit finding 9): all premises stated, the
   conclusion of insert_sorted_canonical holds and the result is sorted by insert_sorted_sorted *)
Example ex_insert_canonical_hyps :
  let l := [mk n_z; mk n_a] in let base := [mk n_m] in let other := [mk n_a; mk n_m; mk n_z] in
  names_sorted base /\ NoDup (map node_name (l ++ base)) /\
  Permutation other (l ++ base) /\ names_sorted other /\ other = add_children l base.
Proof.
  cbv zeta.
  assert (B : names_sorted [mk n_m]) by (repeat constructor).
  assert (N : NoDup (map node_name ([mk n_z; mk n_a] ++ [mk n_m]))).
  { vm_compute. repeat constructor; simpl; intuition discriminate. }
  split. exact B. split. exact N.
  assert (E : [mk n_a; mk n_m; mk n_z] = add_children [mk n_z; mk n_a] [mk n_m]) by (vm_compute; reflexivity).
  split.
  - change ([mk n_z; mk n_a] ++ [mk n_m]) with ([mk n_z] ++ [mk n_a; mk n_m]).
    apply Permutation_sym. apply (Permutation_app_comm [mk n_z] [mk n_a; mk n_m]).
  - split; [|exact E]. rewrite E. apply insert_sorted_sorted; assumption.
Qed.

(* ---- post_process_order_free and the directory scan (audit finding 4) ----
   post_process_order_free above carries the hypothesis [links_primary root l]; its comment called that "what the
   directory scan produces".  No theorem says so, and in general it is false: scan_links_primary_refuted_with_prefix is a
   scan into a sub directory of the image (a `glob /d ...` line: cfg.prefix = d) whose result violates links_primary,
   because dir_hl.c hands out the link target without the prefix (NOTES.md "Other defects seen").  For scans WITHOUT a
   prefix from the empty fstree it IS a theorem: scan_links_primary below (and NoDup of the queue with it), hence
   scan_post_process_order_free.  For every fstree: both hypotheses of post_process_order_free are decidable
   ([links_checkb], ImgScan/LinksCheck.v), so the theorem applies wherever the computable check passes. *)
From SqfsV Require Import ImgScan.LinksCheck.

Theorem post_process_order_free_checked : forall fs l',
  links_checkb fs = true -> Permutation (fs_unres fs) l' ->
  post_process (mkFs (fs_root fs) l') = post_process fs.
Proof. exact post_process_order_free_checked_l. Qed.
Print Assumptions post_process_order_free_checked.

Theorem links_check_sound : forall fs,
  links_checkb fs = true -> NoDup (fs_unres fs) /\ links_primary (fs_root fs) (fs_unres fs).
Proof.
  exact (fun fs H => match andb_prop _ _ H with
                     | conj H1 H2 => conj (nodup_pathsb_sound _ H1) (links_primaryb_sound _ _ H2)
                     end).
Qed.
Print Assumptions links_check_sound.

(* p, q two names of one file; d/q, d/r two names of another; scanned with prefix d into an fstree holding /d: the link
   d/d/r gets the target "d/q" (no prefix), which in the image names the hard link d/q *)
Theorem scan_links_primary_refuted_with_prefix :
  match lp_scan with
  | Some (fs, _) =>
      fs_unres fs = [[lp_d; lp_q]; [lp_d; lp_d; lp_r]] /\
      ~ links_primary (fs_root fs) (fs_unres fs) /\ links_checkb fs = false
  | None => False
  end.
Proof. exact prefix_scan_not_primary_l. Qed.
Print Assumptions scan_links_primary_refuted_with_prefix.

(* the check passes on the scans of the F09 witness (sorted iterator on one enumeration, unsorted on the other): the
   hypotheses of post_process_order_free_checked are satisfiable by scan results with a queued link *)
Example ex_scan_links_checked :
  match scan_dir w_fnmatch w_dflt w_cfg true w_tree (fs_init w_dflt),
        scan_dir w_fnmatch w_dflt w_cfg false w_tree_rev (fs_init w_dflt) with
  | Some (fs, _), Some (fs', _) =>
      links_checkb fs = true /\ fs_unres fs = [[n_z]] /\ links_checkb fs' = true /\ fs_unres fs' = [[n_a]]
  | _, _ => False
  end.
Proof. exact witness_scan_checked. Qed.

(* scan_links_primary: a scan without target prefix (--pack-dir, or a glob line for "/"), started from the empty fstree,
   leaves an fstree that meets the hypotheses of post_process_order_free — links_unresolved without duplicates, no queued
   hard link pointing at a hard link — for either native iterator and every configuration.  Hypothesis on the host tree
   as it is walked ([hok_rootb], decidable): names within one directory pairwise distinct, every name other than "." and ".."
   non-empty and without '/' (POSIX).  Proof (ImgScan/ScanLinks.v): invariant of the walk relating the (dev, ino) map of
   the hard link filter to the tree — no hard link node sits at a recorded path, every hard link node's target is a
   recorded path, every queued path is a hard link node — kept because the pre-order walk never returns to a path. *)
From SqfsV Require Import ImgScan.ScanLinks.

Theorem scan_links_primary :
  forall (fnmatch : list N -> list N -> bool -> bool) dflt cfg (sorted : bool) (t : hnode) fs stream,
  c_prefix cfg = [] -> hok_rootb (if sorted then canon t else t) = true ->
  scan_dir fnmatch dflt cfg sorted t (fs_init dflt) = Some (fs, stream) ->
  NoDup (fs_unres fs) /\ links_primary (fs_root fs) (fs_unres fs).
Proof. exact scan_links_primary_l. Qed.
Print Assumptions scan_links_primary.

(* ... so post processing of a scanned directory does not depend on the order of links_unresolved: the composition of
   post_process_order_free with the scan that the comment of that theorem promised *)
Theorem scan_post_process_order_free :
  forall (fnmatch : list N -> list N -> bool -> bool) dflt cfg (sorted : bool) (t : hnode) fs stream l',
  c_prefix cfg = [] -> hok_rootb (if sorted then canon t else t) = true ->
  scan_dir fnmatch dflt cfg sorted t (fs_init dflt) = Some (fs, stream) ->
  Permutation (fs_unres fs) l' ->
  post_process (mkFs (fs_root fs) l') = post_process fs.
Proof. exact scan_post_process_order_free_l. Qed.
Print Assumptions scan_post_process_order_free.

(* the hypotheses hold for the eight-entry directory of ex_scan_order_free_image (a and m one inode) in both enumerations
   and for both iterators; the scan queues the link m, and post processing it gives inode 5 to a *)
Example ex_scan_links_primary :
  c_prefix x_cfg = [] /\ hok_rootb (canon x_tree) = true /\ hok_rootb x_tree' = true /\
  match scan_dir x_fnmatch x_dflt x_cfg false x_tree' (fs_init x_dflt) with
  | Some (fs, _) => fs_unres fs = [[nA]] /\ links_checkb fs = true
  | None => False
  end /\
  match scan_dir x_fnmatch x_dflt x_cfg true x_tree (fs_init x_dflt) with
  | Some (fs, _) => fs_unres fs = [[nM]] /\ inum_of (Some (post_process fs)) [nA] = 5%nat
  | None => False
  end.
Proof. vm_compute. repeat split; reflexivity. Qed.

(* ================================================================================================================== *)
(* Extension (session 3, round 12): -x / --keep-xattr inside the end-to-end statement (coq/ImgScan/Xattr*.v)           *)
(* ================================================================================================================== *)
(* pack_image_order_free above takes the xattr index per node [xa] and the xattr section [xsec] as parameters shared by
   the two runs.  They are now COMPUTED: ImgScan.XattrModel models apply_xattrs / apply_dfs / xattr_from_path of
   bin/gensquashfs/src/apply_xattr.c on top of C01's xattr writer model (xw_set: begin, add_kv per pair, end) and
   ImgXattr's flush model (xflush, at the offset the file has after the id table, as in ImgE2E.PackAll).  The code drives
   the writer over the POST-PROCESSED, SORTED tree — node first, then its children in list order — not in the order of the
   scan; the indices (first occurrence of each distinct set in that walk) and the key / value / block tables are therefore
   functions of the tree.
   What is a parameter of both runs: [hx], the host's xattrs — per file NAME below the pack directory either None (an
   llistxattr / lgetxattr call failed) or the (key, value) pairs in the order llistxattr lists the keys.  That order is
   part of the host state and a function of the file (it differs between file systems: tmpfs lists the newest key first),
   not of the order in which readdir enumerates directories; it is the same in both runs.  [scan_x] is the -x switch.
   Still parameters, as before: host_file, opts, bw_bytes.  Not modelled: selinux labelling, the xattr map file. *)
From SqfsV Require C01.XattrModel ImgXattr.FlushModel.
From SqfsV Require Import ImgScan.XattrModel ImgScan.XattrProofs ImgScan.XattrExample.

(* scan_xattrs_order_free: the xattr index stored in every node (in apply_dfs order, keyed by path) and the final state
   of the xattr writer — key table, value table, reference counts, the distinct sets in index order — are EQUAL for every
   two enumeration orders; so is the outcome when a host call or the writer fails (same node, same error) *)
Theorem scan_xattrs_order_free :
  forall (fnmatch : list N -> list N -> bool -> bool) dflt cfg scan_x hx sorted t t' fs0,
  hwf t -> hperm t t' -> order_free_case sorted cfg t ->
  scan_xattrs fnmatch dflt cfg scan_x hx sorted t fs0 = scan_xattrs fnmatch dflt cfg scan_x hx sorted t' fs0.
Proof. exact scan_xattrs_order_free_l. Qed.
Print Assumptions scan_xattrs_order_free.

(* xattr_section_order_free: ... hence the whole section sqfs_xattr_writer_flush appends (key/value metadata blocks, id
   metadata blocks, id table header and block locations, offset of the header), for every metadata compressor and
   whatever the file size is when it is flushed *)
Theorem xattr_section_order_free :
  forall (fnmatch : list N -> list N -> bool -> bool) dflt cfg scan_x hx mcompress size0 sorted t t' fs0,
  hwf t -> hperm t t' -> order_free_case sorted cfg t ->
  xsection mcompress size0 (scan_xattrs fnmatch dflt cfg scan_x hx sorted t fs0) =
  xsection mcompress size0 (scan_xattrs fnmatch dflt cfg scan_x hx sorted t' fs0).
Proof. exact xsection_order_free_l. Qed.
Print Assumptions xattr_section_order_free.

(* apply_xattrs_is_xw_sets: the walk is C01's xw_sets (the object of C01's xattr writer theorems and of C05's reader
   refinement) applied to the host's lists in the order of the sorted tree, when no host call fails *)
Theorem apply_xattrs_is_xw_sets :
  forall (hx : hostx) ps w,
  Forall (fun p => hx (join_slash p) <> None) ps ->
  apply_nodes hx w ps =
  match XattrModel.xw_sets w (map (host_set hx) ps) with
  | Res.Ok (w', is) => XDone w' is
  | e => XWriterErr (res_unit e)
  end.
Proof. exact apply_nodes_is_xw_sets. Qed.
Print Assumptions apply_xattrs_is_xw_sets.

(* scan_image_order_free_with_xattrs: pack_image_order_free with the parameters xa / xsec discharged.  Two enumeration
   orders, two worker pools, two backlogs, with or without -x: the same outcome — the same super blocks, data area,
   inode table (with the xattr index of every inode), directory table, tables, xattr section, padding, output trace.
   Hypotheses as for pack_image_order_free. *)
Theorem scan_image_order_free_with_xattrs :
  forall (fnmatch : list N -> list N -> bool -> bool) dflt cfg hash dcompress
         HT ht_search ht_insert BW bw_write bw_bytes host_file scan_x (hx : hostx) opts mcompress limit wc
         P1 sub1 deq1 alpha1 P2 sub2 deq2 alpha2 sorted q1 q2 p1 p2 (ht0 : HT) (bw0 : BW) t t' fs0,
  fifo_laws hash dcompress P1 sub1 deq1 alpha1 -> alpha1 p1 = [] ->
  fifo_laws hash dcompress P2 sub2 deq2 alpha2 -> alpha2 p2 = [] ->
  (0 < FinishModel.c_block_size wc)%N -> (forall nm, BpProofs.file_ok (host_file nm)) ->
  hwf t -> hperm t t' -> order_free_case sorted cfg t ->
  pack_image_x fnmatch dflt cfg HT ht_search ht_insert BW bw_write bw_bytes host_file scan_x hx opts mcompress limit wc
               P1 sub1 deq1 sorted q1 p1 ht0 bw0 t fs0 =
  pack_image_x fnmatch dflt cfg HT ht_search ht_insert BW bw_write bw_bytes host_file scan_x hx opts mcompress limit wc
               P2 sub2 deq2 sorted q2 p2 ht0 bw0 t' fs0.
Proof. exact pack_image_x_order_free_l. Qed.
Print Assumptions scan_image_order_free_with_xattrs.

(* ... hence every byte of the file *)
Theorem image_bytes_order_free_with_xattrs :
  forall (fnmatch : list N -> list N -> bool -> bool) dflt cfg hash dcompress
         HT ht_search ht_insert BW bw_write bw_bytes host_file scan_x (hx : hostx) opts mcompress limit wc
         P1 sub1 deq1 alpha1 P2 sub2 deq2 alpha2 sorted q1 q2 p1 p2 (ht0 : HT) (bw0 : BW) t t' fs0,
  fifo_laws hash dcompress P1 sub1 deq1 alpha1 -> alpha1 p1 = [] ->
  fifo_laws hash dcompress P2 sub2 deq2 alpha2 -> alpha2 p2 = [] ->
  (0 < FinishModel.c_block_size wc)%N -> (forall nm, BpProofs.file_ok (host_file nm)) ->
  hwf t -> hperm t t' -> order_free_case sorted cfg t ->
  image_file_x (pack_image_x fnmatch dflt cfg HT ht_search ht_insert BW bw_write bw_bytes host_file scan_x hx opts
                             mcompress limit wc P1 sub1 deq1 sorted q1 p1 ht0 bw0 t fs0) =
  image_file_x (pack_image_x fnmatch dflt cfg HT ht_search ht_insert BW bw_write bw_bytes host_file scan_x hx opts
                             mcompress limit wc P2 sub2 deq2 sorted q2 p2 ht0 bw0 t' fs0).
Proof. exact image_file_x_order_free_l. Qed.
Print Assumptions image_bytes_order_free_with_xattrs.

(* pack_image_with_xattrs_is_function_of_tree: every run IS [image_spec_x] of the post-processed tree (xattr stage, then
   the in-order data path specification, then finish + flush): neither side of the equations above is a data path failure *)
Theorem pack_image_with_xattrs_is_function_of_tree :
  forall (fnmatch : list N -> list N -> bool -> bool) dflt cfg hash dcompress
         HT ht_search ht_insert BW bw_write bw_bytes host_file scan_x (hx : hostx) opts mcompress limit wc
         P sub deq alpha sorted q p0 (ht0 : HT) (bw0 : BW) t fs0,
  fifo_laws hash dcompress P sub deq alpha -> alpha p0 = [] ->
  (0 < FinishModel.c_block_size wc)%N -> (forall nm, BpProofs.file_ok (host_file nm)) ->
  pack_image_x fnmatch dflt cfg HT ht_search ht_insert BW bw_write bw_bytes host_file scan_x hx opts mcompress limit wc
               P sub deq sorted q p0 ht0 bw0 t fs0 =
  match scan_post fnmatch dflt cfg sorted t fs0 with
  | None => IRest IScanErr
  | Some PErr => IRest IPostErr
  | Some PFuel => IRest IPostLoop
  | Some (POk pp) =>
      image_spec_x hash dcompress HT ht_search ht_insert BW bw_write bw_bytes host_file scan_x hx opts mcompress limit wc
                   ht0 bw0 pp
  end.
Proof. exact pack_image_x_is_spec. Qed.
Print Assumptions pack_image_with_xattrs_is_function_of_tree.

(* pack_image_x_instantiates_pack_image: the new model is the old one with its two parameters computed — when the xattr
   stage succeeds and the flush at the final offset yields x, the run is [pack_image] with xa := the stored indices and
   xsec := x *)
Theorem pack_image_x_instantiates_pack_image :
  forall (fnmatch : list N -> list N -> bool -> bool) dflt cfg
         HT ht_search ht_insert BW bw_write bw_bytes host_file scan_x (hx : hostx) opts mcompress limit wc
         P sub deq sorted q p0 (ht0 : HT) (bw0 : BW) t fs0 pp xw idxs,
  scan_post fnmatch dflt cfg sorted t fs0 = Some (POk pp) ->
  apply_xattrs scan_x hx pp = XDone xw idxs ->
  forall x,
  (forall ino bw ftbl, exists w0,
     finish_image BW bw_bytes (xa_of (xattr_paths pp) idxs) None opts mcompress limit wc pp ino bw ftbl = Res.Ok w0 /\
     FlushModel.xflush mcompress (FinishProofs.o_xattr w0) xw = Res.Ok x) ->
  pack_image_x fnmatch dflt cfg HT ht_search ht_insert BW bw_write bw_bytes host_file scan_x hx opts mcompress limit wc
               P sub deq sorted q p0 ht0 bw0 t fs0 =
  IRest (pack_image fnmatch dflt cfg HT ht_search ht_insert BW bw_write bw_bytes host_file
                    (xa_of (xattr_paths pp) idxs) x opts mcompress limit wc P sub deq sorted q p0 ht0 bw0 t fs0).
Proof. exact pack_image_x_is_pack_image. Qed.
Print Assumptions pack_image_x_instantiates_pack_image.

(* xattrs_attached_in_scan_order_refuted: the walk over the SORTED tree is what the theorems rest on.  The variant that
   drives the writer in the order in which the scan delivers the entries (xattrs attached from the scan callback) is order
   dependent wherever the delivery order is — unsorted native iterator, hard link filter off, i.e. the case in which the
   fstree, the inode numbers and the file list are order independent all the same (theorem scan_order_free_nolinks):
   witness = the directory of the examples with xattrs.  With the sorting native iterator the delivery order is itself
   order independent (second statement), so on the present code such a variant is not observable through readdir orders
   alone; the tie compares the indices with the model's instead. *)
Theorem xattrs_attached_in_scan_order_refuted :
  exists fnmatch dflt cfg hx t t' fs0 fs fs' s s',
    hwf t /\ hperm t t' /\ order_free_case false cfg t /\
    scan_dir fnmatch dflt cfg false t fs0 = Some (fs, s) /\ scan_dir fnmatch dflt cfg false t' fs0 = Some (fs', s') /\
    post_process fs = post_process fs' /\
    apply_xattrs_scan_order hx s <> apply_xattrs_scan_order hx s'.
Proof. exact xattrs_in_scan_order_refuted. Qed.
Print Assumptions xattrs_attached_in_scan_order_refuted.

Theorem xattrs_attached_in_scan_order_free_when_sorted :
  forall (fnmatch : list N -> list N -> bool -> bool) dflt cfg (hx : hostx) t t' fs0,
  hwf t -> hperm t t' ->
  option_map (fun r => apply_xattrs_scan_order hx (snd r)) (scan_dir fnmatch dflt cfg true t fs0) =
  option_map (fun r => apply_xattrs_scan_order hx (snd r)) (scan_dir fnmatch dflt cfg true t' fs0).
Proof. exact xattrs_in_scan_order_free_when_sorted. Qed.
Print Assumptions xattrs_attached_in_scan_order_free_when_sorted.

(* ---- non-vacuity ---- *)
(* the directory of ex_scan_order_free_image with host xattrs: a (= m, one inode) and d/x carry S1 = {user.a=1, user.b=xy},
   z carries S2 = {user.b=xy, user.c=""}, the directory d carries S3 = {user.a=1}, the rest nothing.  Both enumeration
   orders: S1 gets index 0 (first met at a), S3 index 1 (d), S2 index 2 (z); d/x and m reuse 0; three keys, three sets;
   the flushed section is the same and non-empty *)
Example ex_scan_xattrs_order_free :
  x_sx x_tree = x_sx x_tree' /\
  match x_sx x_tree' with
  | XRDone idx xw =>
      idx = [([], InodeModel.NOX); ([nA], 0); ([nB], InodeModel.NOX); ([nC], InodeModel.NOX); ([nD], 1);
             ([nD; nE], InodeModel.NOX); ([nD; nE; nF], InodeModel.NOX);
             ([nD; nX], 0); ([nD; nY], InodeModel.NOX); ([nM], 0); ([nN], InodeModel.NOX); ([nZ], 2)]%N /\
      XattrModel.x_keys xw = [k_a; k_b; k_c] /\ length (XattrModel.x_blocks xw) = 3%nat
  | _ => False
  end /\
  xsection (TreeModel.img_compress 3) 1000 (x_sx x_tree) = xsection (TreeModel.img_compress 3) 1000 (x_sx x_tree') /\
  match xsection (TreeModel.img_compress 3) 1000 (x_sx x_tree') with
  | Some (Res.Ok (Some (b, off))) => (0 <? off)%N = true /\ (off <? Common.lenN b)%N = true
  | _ => False
  end.
Proof. exact ex_scan_xattrs. Qed.
(* a host call failing at d/y stops both runs at that node *)
Example ex_scan_xattrs_host_error_order_free :
  scan_xattrs x_fnmatch x_dflt x_cfg true x_hx_fail true x_tree (fs_init x_dflt) = XRStage (XHostErr [nD; nY]) /\
  scan_xattrs x_fnmatch x_dflt x_cfg true x_hx_fail true x_tree' (fs_init x_dflt) = XRStage (XHostErr [nD; nY]).
Proof. exact ex_scan_xattrs_host_error. Qed.
(* the whole image with -x on the concrete data path of ex_pack_image_order_free (hypotheses: ex_pack_image_hyps,
   ex_scan_order_free_image): backlog 3 on one order against backlog 40 on the other, one image that the format validator
   accepts, whose xattr id table lies inside the image and which differs from the image packed without -x *)
Example ex_pack_image_order_free_with_xattrs :
  (0 <? FinishModel.c_block_size x_wcx)%N = true /\
  x_packx 3 x_tree = x_packx 40 x_tree' /\
  match x_packx 40 x_tree' with
  | IRest (IImage (Res.Ok w)) =>
      let b := FinishModel.image_bytes w in
      ImageProofs.image_fits w = true /\
      ValidModel.valid_image (TreeModel.img_uncompress 3) 4096 b = true /\
      SuperModel.s_inode_count (FinishModel.w_super w) = 11%N /\
      (SuperModel.s_xattr_start (FinishModel.w_super w) <? SuperModel.s_bytes_used (FinishModel.w_super w))%N = true /\
      Some b <> image_file (x_pack 40 x_tree')
  | _ => False
  end.
Proof. exact ex_pack_image_x. Qed.
