(* C11 — packing a directory is independent of the host's enumeration order.
   Statements only; every proof is one [exact] of a lemma from coq/C11/*Proofs.v (or a closed
   computation on a witness from C11/Witness.v).
   Models: C11/FstreeModel.v (fstree.c), C11/PostModel.v (hardlink.c, post_process.c),
           C11/ScanModel.v (dir_unix.c, dir_rec.c, dir_hl.c, dir_tree_iterator.c, scan_directory of glob.c).
   The host's enumeration order is the order of the children lists of the [hnode] argument;
   [hperm t t'] says t' is t with every directory enumerated in some other order;
   [hwf t] says names within one directory are pairwise distinct.
   [scan_dir fnmatch dflt cfg sorted t fs]: sorted = true is the native iterator with fixes/F09 applied
   (reads a directory completely, qsorts the names with strcmp), sorted = false the iterator as it was
   (reports entries in readdir order). *)
From Coq Require Import List NArith ZArith Bool Permutation Sorted.
From SqfsV Require Import C11.StrOrder C11.FstreeModel C11.PostModel C11.ScanModel
     C11.OrderProofs C11.CanonProofs C11.TreeProofs C11.PostProofs C11.ScanProofs C11.Witness.
Import ListNotations.

(* ================= insert_sorted (lib/fstree/src/fstree.c) ================= *)

(* the child list after inserting nodes with pairwise distinct names is the same for every
   insertion order, whatever list one starts from *)
Theorem insert_sorted_order_free : forall l l' base,
  Permutation l l' -> NoDup (map node_name l) -> add_children l base = add_children l' base.
Proof. exact insert_sorted_order_free_l. Qed.
Print Assumptions insert_sorted_order_free.

(* ... it is strcmp-sorted ... *)
Theorem insert_sorted_sorted : forall l base,
  names_sorted base -> NoDup (map node_name (l ++ base)) -> names_sorted (add_children l base).
Proof. exact insert_sorted_sorted_l. Qed.
Print Assumptions insert_sorted_sorted.

(* ... and the sorted arrangement of those nodes is unique *)
Theorem insert_sorted_canonical : forall l base other,
  names_sorted base -> NoDup (map node_name (l ++ base)) ->
  Permutation other (l ++ base) -> names_sorted other -> other = add_children l base.
Proof. exact insert_sorted_canonical_l. Qed.
Print Assumptions insert_sorted_canonical.

(* ================= the repaired native iterator (dir_unix.c + fixes/F09) ================= *)

(* qsort may be any correct sorting algorithm: with distinct names the sorted listing is unique *)
Theorem native_sort_unique : forall l l',
  NoDup (map hname l) -> Permutation l l' -> StronglySorted (klt hname) l' -> l' = sort_h l.
Proof. exact sort_h_unique. Qed.
Print Assumptions native_sort_unique.

(* what the layers above the native iterator get to see does not depend on the enumeration order *)
Theorem canon_order_free : forall t t', hwf t -> hperm t t' -> canon t = canon t'.
Proof. exact canon_hperm. Qed.
Print Assumptions canon_order_free.

(* ================= the scan ================= *)

(* scan_order_free (repaired code, unrestricted): every tree (multiply-linked files included), every
   configuration (-k -o -H, glob filters, prefix ...), every fnmatch, every initial fstree, every
   enumeration order: same tree, same unresolved links, same stream of delivered entries *)
Theorem scan_order_free :
  forall (fnmatch : list N -> list N -> bool -> bool) dflt cfg t t' fs,
  hwf t -> hperm t t' ->
  scan_dir fnmatch dflt cfg true t fs = scan_dir fnmatch dflt cfg true t' fs.
Proof. exact scan_order_free_l. Qed.
Print Assumptions scan_order_free.

(* scan_order_free_nolinks: the layers above the native iterator are order independent on their own
   (dir_rec, the filters, scan_directory, fstree_add_generic with insert_sorted): even when entries
   arrive in readdir order the same fstree is built, as long as the hard link filter cannot fire —
   it is switched off (-H / -nohardlinks) or no non-directory of the tree has two names *)
Theorem scan_order_free_nolinks :
  forall (fnmatch : list N -> list N -> bool -> bool) dflt cfg t t' fs,
  hwf t -> hperm t t' -> (c_nohl cfg = true \/ no_multilinks t) ->
  option_map fst (scan_dir fnmatch dflt cfg false t fs) =
  option_map fst (scan_dir fnmatch dflt cfg false t' fs).
Proof. exact scan_order_free_nolinks_l. Qed.
Print Assumptions scan_order_free_nolinks.

(* ... and for such trees the repair changes nothing: the sorted scan builds what the unsorted built *)
Theorem fix_preserves_nolinks :
  forall (fnmatch : list N -> list N -> bool -> bool) dflt cfg t fs,
  hwf t -> (c_nohl cfg = true \/ no_multilinks t) ->
  option_map fst (scan_dir fnmatch dflt cfg true t fs) =
  option_map fst (scan_dir fnmatch dflt cfg false t fs).
Proof. exact fix_preserves_nolinks_l. Qed.
Print Assumptions fix_preserves_nolinks.

(* F09: with a multiply-linked file the unrepaired scan depends on the enumeration order (whichever
   name readdir returns first becomes the inode, the other one the link) *)
Theorem scan_hardlink_order_refuted :
  exists t t' cfg,
    hwf t /\ hperm t t' /\ c_nohl cfg = false /\ ~ no_multilinks t /\
    option_map fst (scan_dir w_fnmatch w_dflt cfg false t (fs_init w_dflt)) <>
    option_map fst (scan_dir w_fnmatch w_dflt cfg false t' (fs_init w_dflt)).
Proof. exact scan_hardlink_order_refuted_l. Qed.
Print Assumptions scan_hardlink_order_refuted.

(* the witness in numbers: a, m, sub/s, z with a and z one inode.  readdir order a,m,sub,z: a is the
   file (inode 2), m gets 3; order z,sub,m,a: z is the file (inode 4), a the link, m gets 2 *)
Example refuted_inode_numbers :
  (inum_of (pack false w_cfg w_tree) [n_a], inum_of (pack false w_cfg w_tree) [n_m],
   inum_of (pack false w_cfg w_tree) [n_z]) = (2, 3, 0)%nat /\
  (inum_of (pack false w_cfg w_tree_rev) [n_a], inum_of (pack false w_cfg w_tree_rev) [n_m],
   inum_of (pack false w_cfg w_tree_rev) [n_z]) = (0, 2, 4)%nat.
Proof. vm_compute. split; reflexivity. Qed.

(* ================= post processing ================= *)

(* post_process_order_free: inode numbers, link counts, link targets and the file list do not depend
   on the order of the links_unresolved list — the one piece of state the scan leaves behind that is
   not part of the sorted tree (hypothesis: no hard link points at another hard link, which is what
   the directory scan produces) *)
Theorem post_process_order_free : forall root l l',
  Permutation l l' -> NoDup l -> links_primary root l ->
  post_process (mkFs root l) = post_process (mkFs root l').
Proof. exact post_process_order_free_l. Qed.
Print Assumptions post_process_order_free.

(* the fuel of the model's reorder_hard_links loop is never exhausted: a [PFuel] result of
   post_process always stems from the link resolution, where it stands for the endless loop of
   resolve_link on a cycle of links (F11, C07's subject) — no theorem here holds because a loop of the
   model was cut short *)
Theorem post_process_fuel_only_from_links : forall fs,
  post_process fs = PFuel -> resolve_all (fs_root fs) (fs_unres fs) (mkRs [] []) = PFuel.
Proof. exact post_process_fuel. Qed.
Print Assumptions post_process_fuel_only_from_links.

(* ================= scan + post processing ================= *)

Theorem pack_order_free :
  forall (fnmatch : list N -> list N -> bool -> bool) dflt cfg t t' fs,
  hwf t -> hperm t t' ->
  pack_with fnmatch dflt cfg true t fs = pack_with fnmatch dflt cfg true t' fs.
Proof. exact pack_order_free_l. Qed.
Print Assumptions pack_order_free.

(* ================= non-vacuity ================= *)

(* insert_sorted: three nodes, two orders, one result, and it is sorted *)
Definition mk (nm : name) : tnode :=
  TNode nm (mkAttr FReg 420 0 0 0 1 false false None [] [] 0 None) [].
Example ex_insert_sorted :
  add_children [mk n_z; mk n_a; mk n_m] [] = [mk n_a; mk n_m; mk n_z] /\
  add_children [mk n_m; mk n_z; mk n_a] [] = [mk n_a; mk n_m; mk n_z].
Proof. vm_compute. split; reflexivity. Qed.

(* the hypotheses of scan_order_free are met by the witness pair, the two enumerations differ,
   the scan succeeds, and the result is the same (a is the file with inode 2, z its link) *)
Example ex_scan_sorted :
  hwf w_tree /\ hperm w_tree w_tree_rev /\ w_tree <> w_tree_rev /\
  pack true w_cfg w_tree = pack true w_cfg w_tree_rev /\
  (inum_of (pack true w_cfg w_tree_rev) [n_a], inum_of (pack true w_cfg w_tree_rev) [n_m],
   inum_of (pack true w_cfg w_tree_rev) [n_z], inum_of (pack true w_cfg w_tree_rev) []) = (2, 3, 0, 5)%nat.
Proof.
  split; [exact w_tree_wf|]. split; [exact w_tree_perm|]. split; [discriminate|].
  split; vm_compute; reflexivity.
Qed.

(* the hypotheses of scan_order_free_nolinks are met: with -H on the tree with the two-name file, and
   with the filter on for the tree without it; both scans succeed *)
Example ex_scan_nolinks :
  c_nohl w_cfg_nohl = true /\
  no_multilinks w_tree_nolinks /\ hwf w_tree_nolinks /\ hperm w_tree_nolinks w_tree_nolinks_rev /\
  option_map fst (scan_dir w_fnmatch w_dflt w_cfg_nohl false w_tree (fs_init w_dflt)) =
  option_map fst (scan_dir w_fnmatch w_dflt w_cfg_nohl false w_tree_rev (fs_init w_dflt)) /\
  inum_of (pack false w_cfg_nohl w_tree_rev) [n_z] = 5%nat /\
  inum_of (pack false w_cfg w_tree_nolinks_rev) [n_m] = 3%nat.
Proof.
  split; [reflexivity|]. split.
  - unfold no_multilinks. vm_compute. repeat constructor; simpl; intuition discriminate.
  - split; [exact w_tree_nolinks_wf|]. split; [exact w_tree_nolinks_perm|].
    split; vm_compute; [reflexivity | split; reflexivity].
Qed.

(* post_process_order_free: file a with two links b, c queued in either order *)
Definition pp_fs : option fstree :=
  let d := w_dflt in
  match fs_add d (fs_init d) (mkEnt [n_a] FReg 420 0 0 0%Z 0 false) None with
  | Some f1 =>
      match fs_add d f1 (mkEnt [[98%N]] FLnk 511 0 0 0%Z 0 true) (Some n_a) with
      | Some f2 => fs_add d f2 (mkEnt [[99%N]] FLnk 511 0 0 0%Z 0 true) (Some n_a)
      | None => None
      end
  | None => None
  end.
Example ex_post_process :
  exists root,
    pp_fs = Some (mkFs root [[[99%N]]; [[98%N]]]) /\
    links_primary root [[[99%N]]; [[98%N]]] /\
    NoDup [[[99%N]]; [[98%N]]] /\
    post_process (mkFs root [[[99%N]]; [[98%N]]]) = post_process (mkFs root [[[98%N]]; [[99%N]]]) /\
    match post_process (mkFs root [[[98%N]]; [[99%N]]]) with
    | POk o => inode_num o [n_a] = 1%nat /\ pp_files o = [[n_a]]
    | _ => False
    end.
Proof.
  eexists. split; [vm_compute; reflexivity|]. split.
  - intros p sn nd [E|[E|[]]]; subst p; vm_compute; intros H1 H2; inversion H1; subst;
      vm_compute in H2; inversion H2; subst; reflexivity.
  - split; [repeat constructor; simpl; intuition discriminate|].
    split; vm_compute; [reflexivity | split; reflexivity].
Qed.
