(* ImgXattr — the key-value half of the byte-level flush model (FlushModel.f_write_kv_pairs, running on C03's stateful
   metadata writer) refines C01's logical-stream model (XattrModel.write_blocks): the uncompressed contents of the
   metadata blocks the writer leaves are the logical key/value stream, cut every 8192 bytes, and every reference
   ((block << 16) | offset taken from sqfs_meta_writer_get_position) is [ref_at bsK p] for the block-start function bsK
   of those very blocks. *)
From Coq Require Import List NArith ZArith Bool Lia ZifyBool ZifyNat ZifyN.
From SqfsV Require Import Base.Bytes Gen.Constants C03.Common C03.ListN C03.MetaModel C03.MetaProofs C03.MetaRT.
From SqfsV Require Import C01.GenC01 C01.Res C01.XattrModel C01.XattrProofs.
From SqfsV Require Import ImgXattr.FlushModel.
Import ListNotations.
Local Open Scope N_scope.

Lemma MBv : MB = 8192.
Proof. reflexivity. Qed.

(* (block << 16) | (offset & 0xFFFF) = block * 65536 + offset for an offset inside a metadata block *)
Lemma mk_ref_add b o : o < 65536 -> mk_ref b o = b * 65536 + o.
Proof.
  intro H. unfold mk_ref. change 65535 with (N.ones 16). rewrite N.land_ones.
  rewrite N.mod_small by (change (2 ^ 16) with 65536; exact H). rewrite N.shiftl_mul_pow2. change (2 ^ 16) with 65536.
  assert (L : N.land (b * 65536) o = 0).
  { apply N.bits_inj_0. intro i. rewrite N.land_spec. destruct (N.lt_ge_cases i 16) as [Lo|Hi].
    - change 65536 with (2 ^ 16). rewrite N.mul_pow2_bits_low by exact Lo. reflexivity.
    - destruct (N.eq_dec o 0) as [->|NZ]; [rewrite N.bits_0; apply andb_false_r|].
      rewrite (N.bits_above_log2 o i); [apply andb_false_r|].
      assert (N.log2 o < 16) by (apply N.log2_lt_pow2; [lia|change (2 ^ 16) with 65536; exact H]). lia. }
  rewrite <- (N.lxor_lor _ _ L), <- (N.add_nocarry_lxor _ _ L). reflexivity.
Qed.

(* type |= SQFS_XATTR_FLAG_OOL on the prefix ids *)
Lemma prefix_ty_lor key :
  let ty := fst (match prefix_of key with Some x => x | None => (0, []) end) in
  N.lor ty c_SQFS_XATTR_FLAG_OOL = ty + c_SQFS_XATTR_FLAG_OOL.
Proof.
  unfold prefix_of, prefix_table. cbn [prefix_scan].
  destruct (is_prefix c_xattr_prefix_user key && (length c_xattr_prefix_user <? length key)%nat); [reflexivity|].
  destruct (is_prefix c_xattr_prefix_trusted key && (length c_xattr_prefix_trusted <? length key)%nat); [reflexivity|].
  destruct (is_prefix c_xattr_prefix_security key && (length c_xattr_prefix_security <? length key)%nat); reflexivity.
Qed.

Lemma bind_assoc {A B C} (r : res A) (f : A -> res B) (g : B -> res C) :
  bind (bind r f) g = bind r (fun x => bind (f x) g).
Proof. destruct r; reflexivity. Qed.

Section R.
  Variable compress : list N -> cres.
  Variable uncompress : list N -> option (list N).
  Hypothesis compress_ok :
    forall b c, compress b = CData c -> lenN c <= lenN b /\ uncompress c = Some b.

  Notation enc := (enc compress).
  Notation Idle := (Idle compress).
  Notation app := (app compress).

  Definition AllFull (raws : list (list N)) : Prop := Forall full raws.
  Definition lstream (raws : list (list N)) (m : mw) : list N := concat raws ++ mw_cur m.
  (* on-disk offset of block k, relative to the first block *)
  Definition startN (raws : list (list N)) (k : nat) : N := lenN (concat (map enc (firstn k raws))).
  Definition starts (bsK : N -> N) (raws : list (list N)) : Prop :=
    forall k, (k <= length raws)%nat -> bsK (N.of_nat k) = startN raws k.

  Lemma startN_prefix raws t k : (k <= length raws)%nat -> startN (raws ++ t) k = startN raws k.
  Proof.
    intro H. unfold startN. rewrite firstn_app. replace (k - length raws)%nat with 0%nat by lia.
    cbn [firstn]. rewrite app_nil_r. reflexivity.
  Qed.

  Lemma starts_prefix bsK raws t : starts bsK (raws ++ t) -> starts bsK raws.
  Proof. intros H k Hk. rewrite H by (rewrite app_length; lia). apply startN_prefix. exact Hk. Qed.

  Lemma lstream_len raws m : AllFull raws -> nlen (lstream raws m) = MB * lenN raws + lenN (mw_cur m).
  Proof.
    intro F. unfold lstream. rewrite nlen_app. change (nlen (concat raws)) with (lenN (concat raws)).
    rewrite (lenN_concat_map_const raws MB F). reflexivity.
  Qed.

  Lemma app_ref m raws d m' :
    Idle m raws -> AllFull raws -> app m d = Ok m' ->
    exists fulls, Idle m' (raws ++ fulls) /\ AllFull (raws ++ fulls) /\
      lstream (raws ++ fulls) m' = lstream raws m ++ d /\ mw_keep m' = mw_keep m.
  Proof.
    intros I F H. unfold FlushModel.app in H. destruct (mw_append compress m d) as [m1|e|] eqn:E; cbn [liftm] in H; try discriminate.
    injection H as <-.
    destruct (append_spec compress uncompress compress_ok _ _ _ _ I E) as (fulls & I1 & F1 & C1 & _ & K1).
    exists fulls. split; [exact I1|]. split; [apply Forall_app; split; assumption|]. split; [|exact K1].
    unfold lstream. rewrite concat_app, <- !app_assoc, C1. reflexivity.
  Qed.

  (* several appends in a row *)
  Fixpoint apps (m : mw) (ds : list (list N)) : res mw :=
    match ds with
    | [] => Ok m
    | d :: r => do m1 <- app m d; apps m1 r
    end.

  Lemma apps_ref : forall ds m raws m',
    Idle m raws -> AllFull raws -> apps m ds = Ok m' ->
    exists fulls, Idle m' (raws ++ fulls) /\ AllFull (raws ++ fulls) /\
      lstream (raws ++ fulls) m' = lstream raws m ++ concat ds /\ mw_keep m' = mw_keep m.
  Proof.
    induction ds as [|d r IH]; intros m raws m' I F H; cbn [apps] in H.
    - injection H as <-. exists []. cbn [concat]. rewrite !app_nil_r. auto.
    - destruct (app m d) as [m1| | |] eqn:E; cbn [bind] in H; try discriminate.
      destruct (app_ref _ _ _ _ I F E) as (f1 & I1 & F1 & L1 & K1).
      destruct (IH _ _ _ I1 F1 H) as (f2 & I2 & F2 & L2 & K2).
      exists (f1 ++ f2). rewrite app_assoc. split; [exact I2|]. split; [exact F2|].
      split; [|congruence]. rewrite L2, L1. cbn [concat]. rewrite <- !app_assoc. reflexivity.
  Qed.

  (* the reference made from the writer position is the logical reference *)
  Lemma pos_ref bsK m raws :
    Idle m raws -> AllFull raws -> starts bsK raws ->
    mk_ref (mw_boff m) (mw_off m) = ref_at bsK (nlen (lstream raws m)).
  Proof.
    intros [(A & B & C & D & E & F & O) Lt] FL S. rewrite (lstream_len raws m FL). rewrite MBv in *.
    rewrite O, B. rewrite mk_ref_add by lia. unfold ref_at. change META with 8192.
    assert (Q : (8192 * lenN raws + lenN (mw_cur m)) / 8192 = lenN raws).
    { symmetry. apply (N.div_unique _ 8192 _ (lenN (mw_cur m))); lia. }
    assert (R : (8192 * lenN raws + lenN (mw_cur m)) mod 8192 = lenN (mw_cur m)).
    { symmetry. apply (N.mod_unique _ 8192 (lenN raws) _); lia. }
    rewrite Q, R. unfold lenN at 3. rewrite (S (length raws) (Nat.le_refl _)). unfold startN. rewrite firstn_all.
    reflexivity.
  Qed.

  (* ---- write_key / write_value / write_value_ool as runs of appends ---- *)
  Lemma f_write_key_apps m key b :
    f_write_key compress m key b =
    (let (ty, suffix) := match prefix_of key with Some x => x | None => (0, []) end in
     let ty' := if b then N.lor ty c_SQFS_XATTR_FLAG_OOL else ty in
     do m2 <- apps m [le16 ty' ++ le16 (nlen suffix); suffix]; Ok (m2, sizeof_sqfs_xattr_entry_t + nlen suffix)).
  Proof.
    unfold f_write_key. destruct (match prefix_of key with Some x => x | None => (0, []) end) as [ty sfx].
    cbn [apps]. destruct (app m _) as [m1| | |]; cbn [bind]; try reflexivity.
    destruct (app m1 sfx) as [m2| | |]; reflexivity.
  Qed.

  (* one pair *)
  Lemma f_block_pair_ref w m ool total kv m' ool' total' raws :
    Idle m raws -> AllFull raws ->
    f_block_pair compress w (m, ool, total) kv = Ok (m', ool', total') ->
    exists fulls bytes, Idle m' (raws ++ fulls) /\ AllFull (raws ++ fulls) /\
      lstream (raws ++ fulls) m' = lstream raws m ++ bytes /\ total' = total + nlen bytes /\ mw_keep m' = mw_keep m /\
      forall bsK, starts bsK (raws ++ fulls) -> write_pair bsK w (nlen (lstream raws m)) ool kv = (bytes, ool').
  Proof.
    intros I F H. unfold f_block_pair in H. unfold write_pair.
    set (key := nth (fst kv) (x_keys w) []) in *. set (v := nth (snd kv) (x_vals w) []) in *.
    pose proof (prefix_ty_lor key) as TL. cbn zeta in TL.
    rewrite !f_write_key_apps in H.
    destruct (match prefix_of key with Some x => x | None => (0, []) end) as [ty sfx]. cbn [fst] in TL.
    destruct (nth (snd kv) ool None) as [loc|] eqn:EO; cbv beta iota zeta in H.
    - (* out of line *)
      rewrite TL in H.
      destruct (apps m [le16 (ty + c_SQFS_XATTR_FLAG_OOL) ++ le16 (nlen sfx); sfx]) as [m1| | |] eqn:E1;
        cbn [bind] in H; try discriminate.
      unfold f_write_value_ool in H.
      assert (E2 : exists m2, apps m1 [le32 8; le64 loc] = Ok m2 /\ m2 = m' /\ ool' = ool /\
                              total' = total + (sizeof_sqfs_xattr_entry_t + nlen sfx) + (sizeof_sqfs_xattr_value_t + 8)).
      { cbn [apps]. destruct (app m1 (le32 8)) as [ma| | |]; cbn [bind] in *; try discriminate.
        destruct (app ma (le64 loc)) as [mb| | |]; cbn [bind] in *; try discriminate.
        injection H as <- <- <-. eauto. }
      destruct E2 as (m2 & E2 & -> & -> & ->).
      destruct (apps_ref _ _ _ _ I F E1) as (f1 & I1 & F1 & L1 & K1).
      destruct (apps_ref _ _ _ _ I1 F1 E2) as (f2 & I2 & F2 & L2 & K2).
      exists (f1 ++ f2), (enc_key (ty + c_SQFS_XATTR_FLAG_OOL) sfx ++ enc_ool loc).
      rewrite app_assoc. split; [exact I2|]. split; [exact F2|]. split; [|split; [|split; [congruence|]]].
      + rewrite L2, L1. unfold enc_key, enc_ool. cbn [concat]. rewrite !app_nil_r, <- !app_assoc. reflexivity.
      + unfold enc_key, enc_ool, le16, le32, le64. rewrite !nlen_app, !nlen_le.
        change sizeof_sqfs_xattr_entry_t with 4. change sizeof_sqfs_xattr_value_t with 4. cbn [N.of_nat Pos.of_succ_nat Pos.succ]. lia.
      + intros bsK _. reflexivity.
    - (* in line *)
      destruct (apps m [le16 ty ++ le16 (nlen sfx); sfx]) as [m1| | |] eqn:E1; cbn [bind] in H; try discriminate.
      unfold f_write_value in H. unfold mw_position in H.
      assert (E2 : exists m2, apps m1 [le32 (nlen v); v] = Ok m2 /\ m2 = m' /\
                   ool' = (if should_ool v (nth (snd kv) (x_refs w) 0)
                           then upd ool (snd kv) (fun _ => Some (mk_ref (mw_boff m1) (mw_off m1))) else ool) /\
                   total' = total + (sizeof_sqfs_xattr_entry_t + nlen sfx) + (sizeof_sqfs_xattr_value_t + nlen v)).
      { cbn [apps]. destruct (app m1 (le32 (nlen v))) as [ma| | |]; cbn [bind] in *; try discriminate.
        destruct (app ma v) as [mb| | |]; cbn [bind] in *; try discriminate.
        injection H as <- <- <-. eauto. }
      destruct E2 as (m2 & E2 & -> & -> & ->).
      destruct (apps_ref _ _ _ _ I F E1) as (f1 & I1 & F1 & L1 & K1).
      destruct (apps_ref _ _ _ _ I1 F1 E2) as (f2 & I2 & F2 & L2 & K2).
      exists (f1 ++ f2), (enc_key ty sfx ++ enc_val v).
      rewrite app_assoc. split; [exact I2|]. split; [exact F2|]. split; [|split; [|split; [congruence|]]].
      + rewrite L2, L1. unfold enc_key, enc_val. cbn [concat]. rewrite !app_nil_r, <- !app_assoc. reflexivity.
      + unfold enc_key, enc_val, le16, le32. rewrite !nlen_app, !nlen_le.
        change sizeof_sqfs_xattr_entry_t with 4. change sizeof_sqfs_xattr_value_t with 4. cbn [N.of_nat Pos.of_succ_nat Pos.succ]. lia.
      + intros bsK S. apply starts_prefix in S.
        rewrite (pos_ref bsK m1 (raws ++ f1) I1 F1 S). rewrite L1. cbn [concat]. rewrite app_nil_r.
        rewrite nlen_app. unfold enc_key at 2. rewrite <- app_assoc. reflexivity.
  Qed.

  Lemma f_block_pairs_ref w : forall l m ool total m' ool' total' raws,
    Idle m raws -> AllFull raws ->
    f_block_pairs compress w (m, ool, total) l = Ok (m', ool', total') ->
    exists fulls bytes, Idle m' (raws ++ fulls) /\ AllFull (raws ++ fulls) /\
      lstream (raws ++ fulls) m' = lstream raws m ++ bytes /\ total' = total + nlen bytes /\ mw_keep m' = mw_keep m /\
      forall bsK, starts bsK (raws ++ fulls) -> write_pairs bsK w (nlen (lstream raws m)) ool l = (bytes, ool').
  Proof.
    induction l as [|kv l IH]; intros m ool total m' ool' total' raws I F H; cbn [f_block_pairs] in H.
    - injection H as <- <- <-. exists [], []. rewrite !app_nil_r. rewrite nlen_nil, N.add_0_r. auto 10.
    - destruct (f_block_pair compress w (m, ool, total) kv) as [[[m1 ool1] t1]| | |] eqn:E1; cbn [bind] in H; try discriminate.
      destruct (f_block_pair_ref _ _ _ _ _ _ _ _ _ I F E1) as (f1 & b1 & I1 & F1 & L1 & T1 & K1 & W1).
      destruct (IH _ _ _ _ _ _ _ I1 F1 H) as (f2 & b2 & I2 & F2 & L2 & T2 & K2 & W2).
      exists (f1 ++ f2), (b1 ++ b2). rewrite app_assoc.
      split; [exact I2|]. split; [exact F2|]. split; [rewrite L2, L1, app_assoc; reflexivity|].
      split; [rewrite T2, T1, nlen_app; lia|]. split; [congruence|].
      intros bsK S. cbn [write_pairs]. pose proof S as S1. apply starts_prefix in S1.
      rewrite (W1 bsK S1). rewrite <- nlen_app, <- L1. rewrite (W2 bsK S). reflexivity.
  Qed.

  Lemma f_kv_blocks_ref w : forall bl m ool m' descs raws,
    Idle m raws -> AllFull raws ->
    f_kv_blocks compress w m ool bl = Ok (m', descs) ->
    exists fulls kv, Idle m' (raws ++ fulls) /\ AllFull (raws ++ fulls) /\
      lstream (raws ++ fulls) m' = lstream raws m ++ kv /\ mw_keep m' = mw_keep m /\
      forall bsK, starts bsK (raws ++ fulls) -> write_blocks bsK w (nlen (lstream raws m)) ool bl = (kv, descs).
  Proof.
    induction bl as [|b bl IH]; intros m ool m' descs raws I F H; cbn [f_kv_blocks] in H.
    - injection H as <- <-. exists [], []. rewrite !app_nil_r. auto 10.
    - unfold mw_position in H.
      destruct (f_block_pairs compress w (m, ool, 0) b) as [[[m1 ool1] sz]| | |] eqn:E1; cbn [bind] in H; try discriminate.
      destruct (f_kv_blocks compress w m1 ool1 bl) as [[m2 ds]| | |] eqn:E2; cbn [bind] in H; try discriminate.
      injection H as <- <-.
      destruct (f_block_pairs_ref _ _ _ _ _ _ _ _ _ I F E1) as (f1 & b1 & I1 & F1 & L1 & T1 & K1 & W1).
      destruct (IH _ _ _ _ _ I1 F1 E2) as (f2 & b2 & I2 & F2 & L2 & K2 & W2).
      exists (f1 ++ f2), (b1 ++ b2). rewrite app_assoc.
      split; [exact I2|]. split; [exact F2|]. split; [rewrite L2, L1, app_assoc; reflexivity|]. split; [congruence|].
      intros bsK S. cbn [write_blocks]. pose proof S as S1. apply starts_prefix in S1.
      pose proof S1 as S0. apply starts_prefix in S0.
      rewrite (W1 bsK S1). rewrite <- nlen_app, <- L1. rewrite (W2 bsK S).
      rewrite (pos_ref bsK m raws I F S0). rewrite T1, N.add_0_l. reflexivity.
  Qed.

  (* ---- write_kv_pairs on the fresh writer ---- *)
  (* what the finished key-value area looks like: block contents [raws] (all full but the last), on disk
     concat (map enc raws), and C01's logical model with the block starts of these blocks yields their concatenation and
     the same descriptors *)
  Definition bs_of (raws : list (list N)) (k : N) : N := startN raws (N.to_nat k).

  Definition chunked (raws : list (list N)) : Prop :=
    exists fulls last, raws = fulls ++ ne last /\ AllFull fulls /\ lenN last < MB.

  Theorem f_write_kv_pairs_ref w m2 descs :
    f_write_kv_pairs compress w (mw_init false) = Ok (m2, descs) ->
    exists raws, Idle m2 raws /\ mw_cur m2 = [] /\ mw_keep m2 = false /\ chunked raws /\
      write_blocks (bs_of raws) w 0 (map (fun _ => None) (x_vals w)) (x_blocks w) = (concat raws, descs).
  Proof.
    intro H. unfold f_write_kv_pairs in H.
    destruct (f_kv_blocks compress w (mw_init false) (map (fun _ => None) (x_vals w)) (x_blocks w)) as [[m1 ds]| | |] eqn:E1;
      cbn [bind] in H; try discriminate.
    destruct (mw_flush compress m1) as [mf|e|] eqn:E2; cbn [liftm bind] in H; try discriminate.
    injection H as <- <-.
    destruct (f_kv_blocks_ref _ _ _ _ _ _ _ (init_idle compress false) (Forall_nil _) E1) as (f1 & kv & I1 & F1 & L1 & K1 & W1).
    cbn [List.app] in I1, F1, L1, W1. unfold lstream at 2 in L1. cbn [concat mw_init mw_cur List.app] in L1.
    destruct (flush_idle compress uncompress compress_ok _ _ _ I1 E2) as (I2 & C2 & K2 & _).
    exists (f1 ++ ne (mw_cur m1)). split; [exact I2|]. split; [exact C2|]. split; [rewrite K2, K1; reflexivity|].
    split.
    - exists f1, (mw_cur m1). split; [reflexivity|]. split; [exact F1|]. destruct I1 as [_ Lt]. exact Lt.
    - assert (S : starts (bs_of (f1 ++ ne (mw_cur m1))) f1).
      { intros k Hk. unfold bs_of. rewrite Nat2N.id. apply startN_prefix. exact Hk. }
      specialize (W1 _ S). unfold lstream in W1. cbn [concat mw_init mw_cur List.app] in W1.
      change (nlen (@nil N)) with 0 in W1. rewrite W1. f_equal.
      rewrite concat_app, concat_ne. unfold lstream in L1. symmetry. exact L1.
  Qed.
End R.
