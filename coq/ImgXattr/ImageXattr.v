(* ImgXattr — the xattr section of a whole image whose section comes from the flush model: the hypothesis
   [xattr_section_ok] of Image.writer_valid is discharged, every lookup table entry resolves (validator clause
   XattrRead.v_xattr), and reading set k FROM THE IMAGE BYTES through the reader specification returns the key/value set
   recorded for k (composition with C01's writer refinement XattrWriterProofs.xw_sets_spec). *)
From Coq Require Import List NArith ZArith Bool Lia Permutation ZifyBool ZifyNat ZifyN.
From SqfsV Require Import Base.Bytes Gen.Constants C03.Common C03.ListN C03.MetaModel C03.MetaProofs C03.MetaRT C03.TableProofs.
From SqfsV Require C14.SuperModel.
From SqfsV Require Import C01.GenC01 C01.Res C01.XattrModel C01.XattrProofs C01.XattrWriterProofs.
From SqfsV Require Import Image.FinishModel Image.ReaderModel Image.ValidModel Image.FinishProofs Image.ImageProofs.
From SqfsV Require Import ImgXattr.FlushModel ImgXattr.CodecRel ImgXattr.KvRefine ImgXattr.IdRefine ImgXattr.FlushShape
  ImgXattr.XattrRead ImgXattr.SectionProofs ImgXattr.RoundTrip.
Import ListNotations.
Local Open Scope N_scope.

(* ---- a static bound on the length of the key-value stream (for the 32 bit size field of the lookup table) ---- *)
Definition pair_bound (w : xwr) (kv : nat * nat) : N :=
  16 + nlen (nth (fst kv) (x_keys w) []) + nlen (nth (snd kv) (x_vals w) []).
Definition kv_bound (w : xwr) : N :=
  fold_right (fun b acc => fold_right (fun kv a => pair_bound w kv + a) 0 b + acc) 0 (x_blocks w).

Lemma write_pair_bound bsK w pos ool kv : nlen (fst (write_pair bsK w pos ool kv)) <= pair_bound w kv.
Proof.
  unfold write_pair, pair_bound.
  set (key := nth (fst kv) (x_keys w) []). set (v := nth (snd kv) (x_vals w) []).
  assert (S : nlen (snd (match prefix_of key with Some x => x | None => (0, []) end)) <= nlen key).
  { destruct (prefix_of key) as [[ty sfx]|] eqn:P; cbn [snd]; [|rewrite nlen_nil; lia].
    destruct (prefix_of_spec _ _ _ P) as (pfx & EK & _). apply (f_equal (@nlen N)) in EK. rewrite nlen_app in EK. lia. }
  destruct (match prefix_of key with Some x => x | None => (0, []) end) as [ty sfx]. cbn [snd] in S.
  destruct (nth (snd kv) ool None) as [r|]; cbn [fst]; unfold enc_key, enc_val, enc_ool, le16, le32, le64;
    rewrite !nlen_app, !nlen_le; cbn [N.of_nat Pos.of_succ_nat Pos.succ]; lia.
Qed.

Lemma write_pairs_bound bsK w : forall l pos ool,
  nlen (fst (write_pairs bsK w pos ool l)) <= fold_right (fun kv a => pair_bound w kv + a) 0 l.
Proof.
  induction l as [|kv l IH]; intros pos ool; cbn [write_pairs fold_right]; [cbn; lia|].
  pose proof (write_pair_bound bsK w pos ool kv) as B1.
  destruct (write_pair bsK w pos ool kv) as [b ool1]. cbn [fst] in B1.
  specialize (IH (pos + nlen b) ool1). destruct (write_pairs bsK w (pos + nlen b) ool1 l) as [b2 ool2]. cbn [fst] in *.
  rewrite nlen_app. lia.
Qed.

Lemma write_blocks_bound bsK w : forall bl pos ool,
  nlen (fst (write_blocks bsK w pos ool bl))
  <= fold_right (fun b acc => fold_right (fun kv a => pair_bound w kv + a) 0 b + acc) 0 bl.
Proof.
  induction bl as [|b bl IH]; intros pos ool; cbn [write_blocks fold_right]; [cbn; lia|].
  pose proof (write_pairs_bound bsK w b pos ool) as B1.
  destruct (write_pairs bsK w pos ool b) as [bytes ool1]. cbn [fst] in B1.
  specialize (IH (pos + nlen bytes) ool1). destruct (write_blocks bsK w (pos + nlen bytes) ool1 bl) as [rest ds]. cbn [fst] in *.
  rewrite nlen_app. lia.
Qed.

Section IX.
  Variable compress : list N -> cres.
  Variable uncompress : list N -> option (list N).
  Hypothesis compress_ok :
    forall b c, compress b = CData c -> lenN c <= lenN b /\ uncompress c = Some b.
  Variable limit : N.
  Hypothesis limit_ok : limit <= 65535.
  Variable cfg : wcfg.
  Variable inp : winput.
  Variable w : wimage.
  Hypothesis Hw : write_image compress limit cfg inp = Ok w.
  Hypothesis Hdom : image_domain cfg inp = true.
  Hypothesis Hfit : image_fits w = true.

  (* the xattr section of the input is what the flush model appends at the offset where the id table ends *)
  Variable xw : xwr.
  Hypothesis Hx : xflush compress (o_xattr w) xw = Ok (in_xattr inp).
  Hypothesis Hcount : nlen (x_blocks xw) < 4294967296.

  Let sf := w_super w.
  Let pre := pre_id inp w ++ w_idb w.
  Let post := zeros (w_pad w).

  Lemma img_eq : image_bytes w = pre ++ w_xattrb w ++ post.
  Proof. rewrite (split_id compress limit cfg inp w Hw). unfold tail_x, pre, post. rewrite <- !app_assoc. reflexivity. Qed.

  Lemma pre_len : lenN pre = o_xattr w.
  Proof.
    unfold pre. rewrite lenN_app, (len_pre_id compress uncompress compress_ok limit limit_ok cfg inp w Hw Hdom). reflexivity.
  Qed.

  Lemma lay : ImageLayout cfg inp w (c_devblk cfg).
  Proof. exact (image_layout_l compress uncompress compress_ok limit limit_ok cfg inp w Hw Hdom Hfit _ eq_refl). Qed.

  Lemma used64 : o_xattr w + lenN (w_xattrb w) < 2 ^ 64.
  Proof. destruct (il_used _ _ _ _ lay) as [U _]. destruct (fit_facts w Hfit) as [_ B]. rewrite <- U. exact B. Qed.

  (* when a section was written it has the shape of FlushShape *)
  Lemma section_shape off :
    in_xattr inp = Some (w_xattrb w, off) ->
    exists kvr idr descs, xshape compress (o_xattr w) xw (w_xattrb w) off kvr idr descs.
  Proof. intro E. rewrite E in Hx. exact (xflush_shape compress uncompress compress_ok _ _ _ _ Hx). Qed.

  (* xattr_flush_section_ok *)
  Theorem xattr_flush_section_ok_l : xattr_section_ok uncompress w.
  Proof.
    unfold xattr_section_ok. destruct (il_xattr _ _ _ _ lay) as [[Z _]|(off & E & S)]; [left; exact Z|right].
    destruct (section_shape off E) as (kvr & idr & descs & SH). destruct (il_used _ _ _ _ lay) as [U _].
    rewrite img_eq.
    exact (xattr_tail_written compress uncompress compress_ok _ _ _ _ _ _ _ SH pre post (w_super w) pre_len S U used64 Hcount).
  Qed.

  (* writer_valid_with_xattrs *)
  Theorem writer_valid_with_xattrs_l : valid_image uncompress (c_devblk cfg) (image_bytes w) = true.
  Proof.
    exact (writer_valid_l compress uncompress compress_ok limit limit_ok cfg inp w Hw Hdom Hfit _ eq_refl xattr_flush_section_ok_l).
  Qed.

  (* ---- the writer state comes from a run of the xattr writer ---- *)
  Variable sets : list (list (list N * list N)).
  Variable idxs : list N.
  Hypothesis Hsets : Forall set_ok sets.
  Hypothesis Hrun : xw_sets xw_empty sets = Ok (xw, idxs).
  Hypothesis H48 : lenN (w_xattrb w) < 281474976710656.

  Lemma run_facts :
    winv xw /\ blen xw /\ blocks_ne xw /\ length idxs = length sets /\
    forall i kvs idx, nth_error sets i = Some kvs -> nth_error idxs i = Some idx -> denotes xw kvs idx.
  Proof.
    destruct winv_empty as [I0 B0].
    destruct (xw_sets_spec sets xw_empty I0 B0 Hsets) as (w' & idxs' & E' & I & BL & _ & L & D).
    rewrite Hrun in E'. injection E' as <- <-.
    split; [exact I|]. split; [exact BL|].
    split; [apply (xw_sets_blocks_ne sets xw_empty xw idxs); [constructor|exact Hrun]|]. split; [exact L|exact D].
  Qed.

  (* xattr_refs_resolve: every entry of the lookup table resolves (validator clause v_xattr) *)
  Theorem xattr_refs_resolve_l : kv_bound xw < 4294967296 -> v_xattr uncompress (image_bytes w) sf = true.
  Proof.
    intro HB. rewrite v_xattr_unfold. unfold sf.
    destruct (il_xattr _ _ _ _ lay) as [[_ S]|(off & E & S)].
    { rewrite S. reflexivity. }
    destruct (section_shape off E) as (kvr & idr & descs & SH). destruct (il_used _ _ _ _ lay) as [U _].
    destruct run_facts as (I & BL & BNE & _). destruct I as [KN VN T CR CK BR].
    rewrite img_eq.
    rewrite (xs_present compress uncompress compress_ok _ _ _ _ _ _ _ SH pre (w_super w) pre_len S U used64 Hcount).
    rewrite (read_xattr_table_written compress uncompress compress_ok _ _ _ _ _ _ _ SH pre post (w_super w) pre_len S U used64 Hcount).
    unfold written_table.
    assert (L32 : nlen (concat kvr) < 4294967296).
    { pose proof (write_blocks_bound (bs_of compress kvr) xw (x_blocks xw) 0 (ool0 xw)) as B.
      rewrite (xs_kv _ _ _ _ _ _ _ _ SH) in B. cbn [fst] in B. unfold kv_bound in HB. lia. }
    rewrite (entries_ok_written compress uncompress compress_ok _ _ _ _ _ _ _ SH Hcount T BR BNE BL H48 _ L32).
    cbn [xt_count]. pose proof (xs_blocks _ _ _ _ _ _ _ _ SH) as NE.
    destruct (x_blocks xw) as [|b0 bl0] eqn:EB; [congruence|]. rewrite nlen_cons.
    destruct (N.leb_spec 1 (1 + nlen bl0)); [reflexivity|lia].
  Qed.

  (* image_xattr_roundtrip *)
  Hypothesis Hnox : c_no_xattr cfg = false.
  Hypothesis Hnoidx : nlen (x_blocks xw) < NOIDX.

  Theorem image_xattr_roundtrip_l :
    length idxs = length sets /\
    forall i kvs idx, nth_error sets i = Some kvs -> nth_error idxs i = Some idx ->
      exists l, read_xattr_set uncompress (image_bytes w) sf idx = Ok l /\ Permutation l (set_spec kvs).
  Proof.
    destruct run_facts as (I & BL & BNE & L & D). split; [exact L|].
    intros i kvs idx Hs Hi. destruct (D i kvs idx Hs Hi) as [[A B]|(k & blk & Ek & Nb & P)].
    - subst. exists []. split; [reflexivity|]. reflexivity.
    - subst idx. exists (kmap xw blk). split; [|exact P].
      assert (NE : x_blocks xw <> []) by (intro Z; rewrite Z in Nb; destruct k; discriminate).
      (* a section was written *)
      assert (EX0 : exists xb off, in_xattr inp = Some (xb, off)).
      { pose proof Hx as Hx'. destruct (in_xattr inp) as [[xb off]|]; [eauto|].
        exfalso. apply NE. apply (xflush_none compress (o_xattr w) xw BNE). exact Hx'. }
      destruct EX0 as (xb & off & EX).
      destruct (write_image_shape compress limit cfg inp w Hw) as (dwr & f1 & f2 & _ & _ & _ & _ & _ & XW & _).
      rewrite EX, Hnox in XW. unfold xattr_write in XW. injection XW as EB ES _.
      destruct (il_used _ _ _ _ lay) as [U _].
      assert (EX' : in_xattr inp = Some (w_xattrb w, off)) by (rewrite EX, EB; reflexivity).
      destruct (section_shape off EX') as (kvr & idr & descs & SH).
      destruct I as [KN VN T CR CK BR].
      assert (KL : N.of_nat k < nlen (x_blocks xw)).
      { assert (k < length (x_blocks xw))%nat by (apply nth_error_Some; congruence). unfold nlen. lia. }
      unfold read_xattr_set, sf. destruct (N.eqb_spec (N.of_nat k) NOIDX) as [Z|_]; [lia|].
      rewrite img_eq.
      rewrite (read_xattr_table_written compress uncompress compress_ok _ _ _ _ _ _ _ SH pre post (w_super w) pre_len
                 (eq_sym ES) U used64 Hcount).
      unfold written_table.
      exact (xt_set_written compress uncompress compress_ok _ _ _ _ _ _ _ SH Hcount T BR BNE BL H48 _ k blk Nb).
  Qed.
End IX.
