(* ImgXattr — what sqfs_xattr_writer_flush (FlushModel.xflush) appends to the file: [xflush_shape]. *)
From Coq Require Import List NArith ZArith Bool Lia ZifyBool ZifyNat ZifyN.
From SqfsV Require Import Base.Bytes Gen.Constants C03.Common C03.ListN C03.MetaModel C03.MetaProofs C03.MetaRT C03.TableProofs.
From SqfsV Require Import C01.GenC01 C01.Res C01.XattrModel C01.XattrProofs.
From SqfsV Require Import ImgXattr.FlushModel ImgXattr.CodecRel ImgXattr.KvRefine ImgXattr.IdRefine.
Import ListNotations.
Local Open Scope N_scope.

Lemma write_blocks_descs_len bsK w : forall bl pos ool kv descs,
  write_blocks bsK w pos ool bl = (kv, descs) -> length descs = length bl.
Proof.
  induction bl as [|b bl IH]; intros pos ool kv descs EW; cbn [write_blocks] in EW.
  - injection EW as <- <-. reflexivity.
  - destruct (write_pairs bsK w pos ool b) as [bytes ool1].
    destruct (write_blocks bsK w (pos + nlen bytes) ool1 bl) as [rest ds] eqn:E2.
    injection EW as <- <-. cbn [length]. f_equal. exact (IH _ _ _ _ E2).
Qed.

Definition ool0 (w : xwr) : list (option N) := map (fun _ => None) (x_vals w).

Section S.
  Variable compress : list N -> cres.
  Variable uncompress : list N -> option (list N).
  Hypothesis compress_ok :
    forall b c, compress b = CData c -> lenN c <= lenN b /\ uncompress c = Some b.

  Notation enc := (enc compress).
  Notation startN := (startN compress).
  Notation bs_of := (bs_of compress).

  (* the section: key-value blocks, id blocks, header, location words *)
  Record xshape (size0 : N) (w : xwr) (bytes : list N) (off : N) (kvr idr : list (list N)) (descs : list (N * N * N)) : Prop := {
    xs_blocks : x_blocks w <> [];
    xs_kvc : chunked kvr;
    xs_kvok : Forall blk_ok kvr;
    xs_idc : chunked idr;
    xs_idok : Forall blk_ok idr;
    xs_kv : write_blocks (bs_of kvr) w 0 (ool0 w) (x_blocks w) = (concat kvr, descs);
    xs_ids : concat idr = flat_map enc_desc descs;
    xs_dlen : length descs = length (x_blocks w);
    xs_idn : nlen idr = loc_count (nlen (x_blocks w));
    xs_bytes : bytes = concat (map enc kvr) ++ concat (map enc idr) ++ xattr_header size0 (nlen (x_blocks w)) ++
                       concat (map le64 (map (fun k => size0 + lenN (concat (map enc kvr)) + startN idr k) (seq 0 (length idr))));
    xs_off : off = lenN (concat (map enc kvr)) + lenN (concat (map enc idr))
  }.

  Lemma xflush_none size0 w : blocks_ne w -> (xflush compress size0 w = Ok None <-> x_blocks w = []).
  Proof.
    intro BN. unfold blocks_ne in BN. unfold xflush. split.
    - destruct ((nlen (concat (x_blocks w) ++ x_cur w) =? 0) || (nlen (x_blocks w) =? 0)) eqn:E.
      + intros _. apply orb_true_iff in E. destruct E as [E|E]; apply N.eqb_eq in E.
        * destruct (x_blocks w) as [|b bl]; [reflexivity|]. exfalso. inversion BN as [|? ? Hb _]; subst.
          destruct b as [|p b]; [congruence|]. cbn in E. lia.
        * destruct (x_blocks w); [reflexivity|]. rewrite nlen_cons in E. lia.
      + destruct (f_write_kv_pairs compress w (mw_init false)) as [[m1 descs]| | |]; cbn [bind]; try discriminate.
        destruct (f_write_id_table compress (mw_reset m1) descs _) as [[m3 locs]| | |]; cbn [bind]; discriminate.
    - intro Z. rewrite Z. change (nlen (@nil (list (nat * nat))) =? 0) with true. rewrite orb_true_r. reflexivity.
  Qed.

  Theorem xflush_shape size0 w bytes off :
    xflush compress size0 w = Ok (Some (bytes, off)) ->
    exists kvr idr descs, xshape size0 w bytes off kvr idr descs.
  Proof.
    intro H. unfold xflush in H.
    destruct ((nlen (concat (x_blocks w) ++ x_cur w) =? 0) || (nlen (x_blocks w) =? 0)) eqn:E; [discriminate|].
    apply orb_false_iff in E. destruct E as [_ E]. apply N.eqb_neq in E.
    assert (NEB : x_blocks w <> []) by (intro Z; rewrite Z in E; apply E; reflexivity).
    destruct (f_write_kv_pairs compress w (mw_init false)) as [[m1 descs]| | |] eqn:E1; cbn [bind] in H; try discriminate.
    destruct (f_write_id_table compress (mw_reset m1) descs (loc_count (nlen (x_blocks w)))) as [[m3 locs]| | |] eqn:E2;
      cbn [bind] in H; try discriminate.
    injection H as <- <-.
    destruct (f_write_kv_pairs_ref compress uncompress compress_ok w m1 descs E1) as (kvr & I1 & C1 & K1 & CH1 & W1).
    pose proof (write_blocks_descs_len _ _ _ _ _ _ _ W1) as DL.
    pose proof (disk_out compress m1 kvr I1 K1) as O1.
    (* the reset writer is a fresh writer on a file that already holds the key-value blocks *)
    assert (RS : mw_reset m1 = mw_shift (mw_out m1) (mw_init false)).
    { destruct I1 as [(_ & _ & _ & _ & _ & Fm & Om) _]. unfold mw_reset, mw_shift, mw_init.
      cbn [mw_cur mw_off mw_boff mw_keep mw_mem mw_out]. rewrite K1, (Fm K1), app_nil_r. reflexivity. }
    rewrite RS, id_table_shift in E2.
    replace (loc_count (nlen (x_blocks w))) with (loc_count (nlen descs)) in E2 by (unfold nlen; rewrite DL; reflexivity).
    destruct (f_write_id_table compress (mw_init false) descs (loc_count (nlen descs))) as [[m3' locs']| | |] eqn:E3;
      cbn [rmap fst snd] in E2; try discriminate.
    injection E2 as <- <-.
    assert (DNE : descs <> []).
    { intro Z. rewrite Z in DL. destruct (x_blocks w); [congruence|discriminate]. }
    destruct (f_write_id_table_fresh compress uncompress compress_ok descs m3' locs' DNE E3)
      as (idr & I3 & C3 & K3 & CH3 & CC3 & LN3 & LL3).
    pose proof (disk_out compress m3' idr I3 K3) as O3.
    exists kvr, idr, descs. constructor.
    - exact NEB.
    - exact CH1.
    - destruct I1 as [(_ & _ & OK & _) _]. exact OK.
    - exact CH3.
    - destruct I3 as [(_ & _ & OK & _) _]. exact OK.
    - exact W1.
    - exact CC3.
    - exact DL.
    - rewrite LN3. unfold nlen. rewrite DL. reflexivity.
    - unfold mw_shift. cbn [mw_out mw_init]. rewrite lenN_nil, N.add_0_r, O1, O3, LL3.
      assert (EM : map (fun l => l + (size0 + lenN (concat (map enc kvr)))) (map (startN idr) (seq 0 (length idr)))
                   = map (fun k => size0 + lenN (concat (map enc kvr)) + startN idr k) (seq 0 (length idr)))
        by (rewrite map_map; apply map_ext; intro; lia).
      rewrite EM, <- !app_assoc. reflexivity.
    - unfold mw_shift. cbn [mw_out]. rewrite O1, O3, lenN_app. lia.
  Qed.
End S.
