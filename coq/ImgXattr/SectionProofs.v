(* ImgXattr — the section sqfs_xattr_writer_flush appends (FlushShape.xshape), found inside an image: it passes the
   validator's xattr_tail check in place, and the reader specification (XattrRead.read_xattr_table) decodes it into the
   key-value blocks and the lookup table the writer produced. *)
From Coq Require Import List NArith ZArith Bool Lia ZifyBool ZifyNat ZifyN.
From SqfsV Require Import Base.Bytes Gen.Constants C03.Common C03.ListN C03.MetaModel C03.MetaProofs C03.MetaRT C03.TableProofs.
From SqfsV Require C14.SuperModel.
From SqfsV Require Import C01.GenC01 C01.Res C01.XattrModel C01.XattrProofs.
From SqfsV Require Import Image.ReaderModel Image.ValidModel Image.ReadLemmas Image.TableRead Image.ValidLemmas.
From SqfsV Require Import ImgXattr.FlushModel ImgXattr.CodecRel ImgXattr.KvRefine ImgXattr.IdRefine ImgXattr.FlushShape
  ImgXattr.XattrRead.
Import ListNotations.
Local Open Scope N_scope.

Ltac Zify.zify_post_hook ::= Z.div_mod_to_equations.

Lemma loc_count_blocks n : table_blocks n 16 = loc_count n.
Proof.
  unfold table_blocks, loc_count, META_SIZE. change sizeof_sqfs_xattr_id_t with 16. change META with 8192.
  destruct (N.eqb_spec ((n * 16) mod 8192) 0); lia.
Qed.

Lemma chunked_sizes raws :
  chunked raws -> Forall blk_ok raws ->
  Forall (fun c => 0 < lenN c /\ lenN c <= 8192) raws /\ Forall (fun c => lenN c = 8192) (removelast raws).
Proof.
  intros (fulls & last & -> & FF & LL) OK. split.
  - apply Forall_forall. intros c Hc. rewrite Forall_forall in OK. destruct (OK c Hc) as [A B]. rewrite MBv in B. auto.
  - assert (FF' : Forall (fun c => lenN c = 8192) fulls).
    { apply Forall_forall. intros c Hc. unfold AllFull in FF. rewrite Forall_forall in FF. specialize (FF c Hc).
      unfold full in FF. rewrite MBv in FF. exact FF. }
    destruct last as [|x l]; cbn [ne].
    + rewrite app_nil_r. clear - FF'. induction FF' as [|c r Hc Hr IH]; [constructor|].
      destruct r; [constructor|]. cbn [removelast] in *. constructor; assumption.
    + rewrite removelast_last. exact FF'.
Qed.

Lemma nth_map_seq {A} (f : nat -> A) n k d : (k < n)%nat -> nth k (map f (seq 0 n)) d = f k.
Proof.
  intro H. rewrite (nth_indep _ d (f 0%nat)) by (rewrite map_length, seq_length; exact H).
  rewrite map_nth, seq_nth by exact H. reflexivity.
Qed.

Section XI.
  Variable compress : list N -> cres.
  Variable uncompress : list N -> option (list N).
  Hypothesis compress_ok :
    forall b c, compress b = CData c -> lenN c <= lenN b /\ uncompress c = Some b.

  Notation enc := (enc compress).
  Notation startN := (startN compress).
  Notation bs_of := (bs_of compress).

  (* block k of a written area, found in the image *)
  Lemma read_block_nth pre raws post k :
    Forall blk_ok raws -> (k < length raws)%nat ->
    read_block uncompress (pre ++ concat (map enc raws) ++ post) (lenN pre + startN raws k)
    = Some (nth k raws [], stored_size compress (nth k raws []), is_comp compress (nth k raws [])).
  Proof.
    intros F Hk. destruct (nth_split raws [] Hk) as (l1 & l2 & E & L1).
    set (x := nth k raws []) in *.
    assert (OKx : blk_ok x) by (rewrite Forall_forall in F; apply F; apply nth_In; exact Hk).
    assert (EC : concat (map enc raws) = concat (map enc l1) ++ enc x ++ concat (map enc l2)).
    { rewrite E, map_app, concat_app. reflexivity. }
    assert (ES : startN raws k = lenN (concat (map enc l1))).
    { unfold KvRefine.startN. rewrite E, <- L1, firstn_app, Nat.sub_diag, firstn_all. cbn [firstn]. rewrite app_nil_r. reflexivity. }
    rewrite EC, ES.
    replace (pre ++ (concat (map enc l1) ++ enc x ++ concat (map enc l2)) ++ post)
      with ((pre ++ concat (map enc l1)) ++ enc x ++ (concat (map enc l2) ++ post)) by (rewrite <- !app_assoc; reflexivity).
    rewrite <- lenN_app. apply (read_block_enc compress uncompress compress_ok). exact OKx.
  Qed.

  Variables (size0 : N) (w : xwr) (bytes : list N) (off : N) (kvr idr : list (list N)) (descs : list (N * N * N)).
  Hypothesis SH : xshape compress size0 w bytes off kvr idr descs.
  Variables (pre post : list N) (s : SuperModel.super).
  Hypothesis Hpre : lenN pre = size0.
  Hypothesis Hxs : SuperModel.s_xattr_start s = size0 + off.
  Hypothesis Hused : SuperModel.s_bytes_used s = size0 + lenN bytes.
  Hypothesis H64 : size0 + lenN bytes < 2 ^ 64.
  Hypothesis Hn : nlen (x_blocks w) < 4294967296.

  Let img := pre ++ bytes ++ post.
  Let KV := concat (map enc kvr).
  Let ID := concat (map enc idr).
  Let n := nlen (x_blocks w).
  Let locs := map (fun k => size0 + lenN KV + startN idr k) (seq 0 (length idr)).
  Let HDR := xattr_header size0 n.
  Let kvblocks := map (fun r => (r, stored_size compress r, is_comp compress r)) kvr.

  Lemma bytes_eq : bytes = KV ++ ID ++ HDR ++ concat (map le64 locs).
  Proof. exact (xs_bytes _ _ _ _ _ _ _ _ SH). Qed.

  Lemma hdr_len : lenN HDR = 16.
  Proof. unfold HDR, xattr_header, le64, le32. rewrite !lenN_app, !lenN_le. reflexivity. Qed.

  Lemma idr_len : lenN idr = loc_count n.
  Proof. exact (xs_idn _ _ _ _ _ _ _ _ SH). Qed.

  Lemma n_pos : 1 <= n.
  Proof. pose proof (xs_blocks _ _ _ _ _ _ _ _ SH) as NE. unfold n. destruct (x_blocks w); [congruence|rewrite nlen_cons; lia]. Qed.

  Lemma idr_pos : 1 <= lenN idr.
  Proof.
    rewrite idr_len. pose proof n_pos. unfold loc_count. change sizeof_sqfs_xattr_id_t with 16. change META with 8192.
    destruct (N.eqb_spec ((n * 16) mod 8192) 0); lia.
  Qed.

  Lemma bytes_len : lenN bytes = lenN KV + lenN ID + 16 + 8 * lenN idr.
  Proof.
    rewrite bytes_eq, !lenN_app, hdr_len, lenN_concat_le64. unfold locs. rewrite lenN_map.
    assert (E : lenN (seq 0 (length idr)) = lenN idr) by (unfold lenN; rewrite seq_length; reflexivity).
    rewrite E. lia.
  Qed.

  Lemma off_eq : off = lenN KV + lenN ID.
  Proof. exact (xs_off _ _ _ _ _ _ _ _ SH). Qed.

  Lemma img_split : img = (pre ++ KV ++ ID) ++ HDR ++ concat (map le64 locs) ++ post.
  Proof. unfold img. rewrite bytes_eq, <- !app_assoc. reflexivity. Qed.

  Lemma xs_pos : SuperModel.s_xattr_start s = lenN (pre ++ KV ++ ID).
  Proof. rewrite Hxs, off_eq, !lenN_app, Hpre. lia. Qed.

  Lemma xs_present : present (SuperModel.s_xattr_start s) = true.
  Proof.
    unfold present, NONE64. rewrite Hxs, off_eq. pose proof bytes_len. change (2 ^ 64) with 18446744073709551616 in H64.
    destruct (N.eqb_spec (size0 + (lenN KV + lenN ID)) 18446744073709551615); [lia|reflexivity].
  Qed.

  Lemma hdr_drop : dropN (SuperModel.s_xattr_start s) img = HDR ++ concat (map le64 locs) ++ post.
  Proof. rewrite img_split, xs_pos. apply dropN_app_exact. reflexivity. Qed.

  Lemma hdr_kv : rd64 (HDR ++ concat (map le64 locs) ++ post) = size0.
  Proof.
    unfold HDR, xattr_header. rewrite <- !app_assoc. apply rd_le64. change (2 ^ 64) with 18446744073709551616 in H64. lia.
  Qed.

  Lemma hdr_count : rd32 (dropN 8 (HDR ++ concat (map le64 locs) ++ post)) = n.
  Proof.
    unfold HDR, xattr_header. rewrite <- !app_assoc.
    rewrite dropN_app_exact by (unfold le64; rewrite lenN_le; reflexivity).
    apply rd_le32. exact Hn.
  Qed.

  Lemma locs_small : Forall (fun x => x < 2 ^ 64) locs.
  Proof.
    apply Forall_forall. intros x Hx. unfold locs in Hx. apply in_map_iff in Hx. destruct Hx as (k & <- & Hk).
    apply in_seq in Hk.
    assert (startN idr k <= lenN ID).
    { unfold KvRefine.startN, ID. rewrite <- (firstn_skipn k idr) at 2. rewrite map_app, concat_app, lenN_app. lia. }
    pose proof bytes_len. lia.
  Qed.

  Lemma locs_length : length locs = length idr.
  Proof. unfold locs. rewrite map_length, seq_length. reflexivity. Qed.

  Lemma read_locs_ok :
    read_locs (N.to_nat (table_blocks n 16)) img (SuperModel.s_xattr_start s + 16) = Some locs.
  Proof.
    rewrite loc_count_blocks, <- idr_len.
    replace (N.to_nat (lenN idr)) with (length locs) by (rewrite locs_length; unfold lenN; lia).
    replace img with ((pre ++ KV ++ ID ++ HDR) ++ concat (map le64 locs) ++ post)
      by (rewrite img_split, <- !app_assoc; reflexivity).
    replace (SuperModel.s_xattr_start s + 16) with (lenN (pre ++ KV ++ ID ++ HDR))
      by (rewrite xs_pos, !lenN_app, hdr_len; lia).
    apply read_locs_spec. exact locs_small.
  Qed.

  Lemma locs_cons : exists r, locs = (size0 + lenN KV) :: r.
  Proof.
    unfold locs. pose proof idr_pos as P. destruct idr as [|x r]; [rewrite lenN_nil in P; lia|].
    cbn [length seq map]. eexists. f_equal. unfold KvRefine.startN. cbn [firstn map concat]. rewrite lenN_nil. lia.
  Qed.

  Lemma img_kv : img = pre ++ KV ++ (ID ++ HDR ++ concat (map le64 locs) ++ post).
  Proof. unfold img. rewrite bytes_eq, <- !app_assoc. reflexivity. Qed.

  Lemma img_id : img = (pre ++ KV) ++ ID ++ (HDR ++ concat (map le64 locs) ++ post).
  Proof. unfold img. rewrite bytes_eq, <- !app_assoc. reflexivity. Qed.

  Lemma id_block k : (k < length idr)%nat ->
    read_block uncompress img (size0 + lenN KV + startN idr k)
    = Some (nth k idr [], stored_size compress (nth k idr []), is_comp compress (nth k idr [])).
  Proof.
    intro Hk. rewrite img_id. replace (size0 + lenN KV) with (lenN (pre ++ KV)) by (rewrite lenN_app; lia).
    apply read_block_nth; [exact (xs_idok _ _ _ _ _ _ _ _ SH)|exact Hk].
  Qed.

  Lemma tile_ok : tile uncompress img locs (SuperModel.s_xattr_start s) = true.
  Proof.
    replace (SuperModel.s_xattr_start s) with (size0 + lenN KV + lenN (concat (map enc ([] ++ idr))))
      by (cbn [List.app]; fold ID; rewrite Hxs, off_eq; lia).
    unfold locs.
    apply (tile_written compress uncompress compress_ok img idr (size0 + lenN KV) []).
    - exact (xs_idok _ _ _ _ _ _ _ _ SH).
    - pose proof idr_pos as P. intro Z. rewrite Z, lenN_nil in P. lia.
    - intros k Hk. cbn [List.app]. exact (id_block k Hk).
  Qed.

  Lemma area_kv_ok : area_ok uncompress img size0 (size0 + lenN KV) = true.
  Proof.
    apply (area_ok_written compress uncompress compress_ok img kvr pre (ID ++ HDR ++ concat (map le64 locs) ++ post)).
    - exact (xs_kvok _ _ _ _ _ _ _ _ SH).
    - exact img_kv.
    - symmetry. exact Hpre.
    - rewrite Hpre. reflexivity.
  Qed.

  Lemma area_kv : area uncompress img size0 (size0 + lenN KV) = Some kvblocks.
  Proof.
    apply (area_written compress uncompress compress_ok img kvr pre (ID ++ HDR ++ concat (map le64 locs) ++ post)).
    - exact (xs_kvok _ _ _ _ _ _ _ _ SH).
    - exact img_kv.
    - symmetry. exact Hpre.
    - rewrite Hpre. reflexivity.
  Qed.

  (* xattr_flush_section_ok, on a byte string *)
  Theorem xattr_tail_written : xattr_tail uncompress img s size0 = true.
  Proof.
    unfold xattr_tail. rewrite xs_present, hdr_drop.
    assert (L16 : lenN (HDR ++ concat (map le64 locs) ++ post) <? 16 = false).
    { apply N.ltb_ge. rewrite lenN_app, hdr_len. lia. }
    rewrite L16, hdr_kv, hdr_count, N.eqb_refl. cbn [andb].
    pose proof n_pos as NP. destruct (N.leb_spec 1 n) as [_|]; [|lia]. cbn [andb].
    rewrite read_locs_ok. destruct locs_cons as [r EL]. pose proof tile_ok as T. rewrite EL in *. rewrite T. cbn [andb].
    rewrite area_kv_ok. cbn [andb]. apply N.eqb_eq.
    rewrite loc_count_blocks, <- idr_len, Hused, Hxs, off_eq, bytes_len. lia.
  Qed.

  (* the lookup table reads back *)
  Lemma id_chunks : read_chunks uncompress img locs (n * 16) = Some (concat idr).
  Proof.
    assert (E : n * 16 = lenN (concat idr)).
    { rewrite (xs_ids _ _ _ _ _ _ _ _ SH). change (lenN (flat_map enc_desc descs)) with (nlen (flat_map enc_desc descs)).
      rewrite flat_desc_len. unfold n, nlen. rewrite (xs_dlen _ _ _ _ _ _ _ _ SH). lia. }
    rewrite E. destruct (chunked_sizes idr (xs_idc _ _ _ _ _ _ _ _ SH) (xs_idok _ _ _ _ _ _ _ _ SH)) as [S1 S2].
    apply (read_chunks_spec compress uncompress compress_ok img locs idr); [|exact S1|exact S2].
    apply (Forall2_of_nth _ 0 []); [exact locs_length|].
    intros k Hk. rewrite locs_length in Hk. unfold locs.
    rewrite nth_map_seq by exact Hk. rewrite (id_block k Hk). eauto.
  Qed.

  Definition written_table : xtable := mkXT n size0 locs kvblocks (concat idr).

  Theorem read_xattr_table_written : read_xattr_table uncompress img s = Some written_table.
  Proof.
    unfold read_xattr_table. rewrite xs_present, hdr_drop.
    assert (L16 : lenN (HDR ++ concat (map le64 locs) ++ post) <? 16 = false).
    { apply N.ltb_ge. rewrite lenN_app, hdr_len. lia. }
    rewrite L16, hdr_kv, hdr_count, read_locs_ok. pose proof id_chunks as IC.
    destruct locs_cons as [r EL]. unfold written_table. rewrite EL in *.
    rewrite area_kv, IC. reflexivity.
  Qed.

  Lemma written_stream : xt_stream written_table = concat kvr.
  Proof. unfold xt_stream, written_table, kvblocks. cbn [xt_kv]. rewrite map_map. cbn [fst]. rewrite map_id. reflexivity. Qed.
End XI.
