(* ImgXattr — non-vacuity: concrete runs on which every definition computes.
   ex_small : the four sets of C01's example (a shared long value stored out of line) in the 96 inode image of
              Image/Example.v, zero-run-length compressor.
   ex_big   : 600 distinct sets (two id blocks: 512 + 88 descriptors; the key-value area spans two metadata blocks; every
              third set shares a 40 byte value, stored once and referenced out of line) in the same image. *)
From Coq Require Import List NArith ZArith Bool.
From SqfsV Require Import Base.Bytes Gen.Constants C03.Common C03.MetaModel C03.DirModel.
From SqfsV Require C14.SuperModel.
From SqfsV Require Import C01.GenC01 C01.Res C01.InodeModel C01.XattrModel C01.XattrProofs C01.XattrWriterProofs Img.TreeModel Img.Example.
From SqfsV Require Import Image.FinishModel Image.ReaderModel Image.ValidModel Image.FinishProofs Image.ImageProofs Image.Example.
From SqfsV Require Import ImgXattr.FlushModel ImgXattr.CodecRel ImgXattr.XattrRead ImgXattr.ImageXattr.
Import ListNotations.
Local Open Scope N_scope.

Definition ex_key_n : list N := [117; 115; 101; 114; 46; 110].                              (* "user.n" *)
Definition ex_key_s : list N := [116; 114; 117; 115; 116; 101; 100; 46; 115].               (* "trusted.s" *)
Definition gen_set (i : nat) : list (list N * list N) :=
  (ex_key_n, [N.of_nat (i / 256); N.of_nat (i mod 256); 120]) ::
  (if Nat.eqb (i mod 3) 0 then [(ex_key_s, repeat 83 40)] else []).
Definition ex_big_sets : list (list (list N * list N)) := map gen_set (seq 0 600).

(* the writer state after recording the sets *)
Definition run_sets (sets : list (list (list N * list N))) : xwr * list N :=
  match xw_sets xw_empty sets with Ok p => p | _ => (xw_empty, []) end.

(* the image of Image/Example.v with the xattr section the flush model appends where the id table ends *)
Definition with_xattrs_of (base : res wimage) (xw : xwr) : winput * res wimage :=
  match base with
  | Ok w0 =>
    match xflush (img_compress 3) (o_xattr w0) xw with
    | Ok x =>
      let inp := mkIn (in_opts ex_inp) (in_data ex_inp) (in_frags ex_inp) (in_tree ex_inp) x in
      (inp, write_image (img_compress 3) c_id_table_limit ex_cfg inp)
    | _ => (ex_inp, Crash)
    end
  | _ => (ex_inp, Crash)
  end.
Definition with_xattrs := with_xattrs_of ex_w.

Definition ex_small_xw := fst (run_sets ex_sets).
Definition ex_small := with_xattrs ex_small_xw.
Definition ex_big_xw := fst (run_sets ex_big_sets).
Definition ex_big := with_xattrs ex_big_xw.

(* all hypotheses of the image-level theorems, as one decidable statement *)
Definition hyps_ok (sets : list (list (list N * list N))) (p : winput * res wimage) : bool :=
  let xw := fst (run_sets sets) in
  match p with
  | (inp, Ok w) =>
    match xflush (img_compress 3) (o_xattr w) xw, xw_sets xw_empty sets with
    | Ok x, Ok (xw', _) =>
      match x, in_xattr inp with
      | Some (b1, o1), Some (b2, o2) => list_eqb b1 b2 && (o1 =? o2)
      | None, None => true
      | _, _ => false
      end &&
      image_domain ex_cfg inp && image_fits w && (nlen (x_blocks xw) <? NOIDX) && (kv_bound xw <? 4294967296) &&
      (lenN (w_xattrb w) <? 281474976710656) && negb (c_no_xattr ex_cfg)
    | _, _ => false
    end
  | _ => false
  end.

Example ex_small_hyps : hyps_ok ex_sets ex_small = true.
Proof. vm_compute. reflexivity. Qed.

Example ex_small_valid :
  match snd ex_small with
  | Ok w =>
      let b := image_bytes w in
      valid_image (img_uncompress 3) 4096 b = true /\
      v_xattr (img_uncompress 3) b (w_super w) = true /\
      SuperModel.s_flags (w_super w) = 1256 /\                      (* 0x4E8: NO_XATTRS cleared *)
      read_xattr_set (img_uncompress 3) b (w_super w) 0 = Ok [(ex_key_a, [49]); (ex_key_t, ex_long)] /\
      read_xattr_set (img_uncompress 3) b (w_super w) 1 = Ok [(ex_key_a, ex_long)] /\
      read_xattr_set (img_uncompress 3) b (w_super w) NOIDX = Ok [] /\
      is_err (read_xattr_set (img_uncompress 3) b (w_super w) 2) = true /\
      (* a location word pointing two bytes further: rejected *)
      valid_image (img_uncompress 3) 4096 (takeN (lenN b - 4096 - 8) b ++ le64 (rd64 (dropN (lenN b - 4096 - 8) b) + 2) ++ dropN (lenN b - 4096) b) = false
  | _ => False
  end.
Proof. vm_compute. repeat split; reflexivity. Qed.


(* ---- 600 sets: two id blocks, two key-value blocks ---- *)
Example ex_big_hyps : hyps_ok ex_big_sets ex_big = true.
Proof. vm_compute. reflexivity. Qed.

Definition big_facts (w : wimage) : Prop :=
  let b := image_bytes w in
  match read_xattr_table (img_uncompress 3) b (w_super w) with
  | Some t => xt_count t = 600 /\ lenN (xt_locs t) = 2 /\ lenN (xt_kv t) = 2
  | None => False
  end /\
  valid_image (img_uncompress 3) 4096 b = true /\
  v_xattr (img_uncompress 3) b (w_super w) = true /\
  read_xattr_set (img_uncompress 3) b (w_super w) 0 = Ok [(ex_key_n, [0; 0; 120]); (ex_key_s, repeat 83 40)] /\
  read_xattr_set (img_uncompress 3) b (w_super w) 3 = Ok [(ex_key_n, [0; 3; 120]); (ex_key_s, repeat 83 40)] /\
  read_xattr_set (img_uncompress 3) b (w_super w) 511 = Ok [(ex_key_n, [1; 255; 120])] /\
  read_xattr_set (img_uncompress 3) b (w_super w) 512 = Ok [(ex_key_n, [2; 0; 120])] /\
  read_xattr_set (img_uncompress 3) b (w_super w) 599 = Ok [(ex_key_n, [2; 87; 120])] /\
  is_err (read_xattr_set (img_uncompress 3) b (w_super w) 600) = true.

Example ex_big_valid : match snd ex_big with Ok w => big_facts w | _ => False end.
Proof. vm_compute. repeat split; reflexivity. Qed.

(* ---- the relativised hypotheses of CodecRel.xattr_rt_rel are satisfiable together (unlike those of the C01 section):
        block starts k * 8194 (no block shrinks), 2^30 blocks, on C01's example run ---- *)
Example ex_rel_hyps :
  (forall k, k < 1073741824 -> store_bidx (store_bs k) = Some k /\ store_bs k < 281474976710656) /\
  store_bs 0 = 0 /\
  match xw_sets xw_empty ex_sets with
  | Ok (w, _) =>
      Forall set_ok ex_sets /\ nlen (x_blocks w) < NOIDX /\
      (forall img, flush store_bs store_bs true w = Ok (Some img) -> nlen (xi_kv img) <= 1073741824 * META) /\
      16 * nlen (x_blocks w) / 8192 < 1073741824
  | _ => False
  end.
Proof.
  split; [|split; [reflexivity|]].
  - intros k Hk. unfold store_bidx, store_bs. rewrite N.mod_mul, N.div_mul by discriminate. split; [reflexivity|].
    apply N.lt_le_trans with (1073741824 * 8194); [apply N.mul_lt_mono_pos_r; [reflexivity|exact Hk]|]. vm_compute. discriminate.
  - assert (SO : Forall set_ok ex_sets).
    { unfold ex_sets, set_ok, kv_ok, key_ok, val_ok.
      repeat (constructor; cbn [fst snd]); try (vm_compute; reflexivity);
        try (eexists; eexists; split; [vm_compute; reflexivity|vm_compute; discriminate]). }
    destruct (xw_sets xw_empty ex_sets) as [[w idxs]| | |] eqn:E; try (vm_compute in E; discriminate).
    vm_compute in E. injection E as <- _.
    split; [exact SO|]. split; [vm_compute; reflexivity|]. split; [|vm_compute; reflexivity].
    intros img H. vm_compute in H. injection H as <-. vm_compute. discriminate.
Qed.

(* the recorded sets are in the domain of the writer refinement (keys with a known prefix, sizes fit their fields) *)
Lemma gen_set_ok i : set_ok (gen_set i).
Proof.
  assert (Kn : key_ok ex_key_n) by (exists 0, [110]; split; [reflexivity|vm_compute; discriminate]).
  assert (Ks : key_ok ex_key_s) by (exists 1, [115]; split; [reflexivity|vm_compute; discriminate]).
  unfold set_ok, gen_set. destruct (Nat.eqb (i mod 3) 0).
  - split; [|vm_compute; reflexivity]. repeat constructor; cbn [fst snd]; try assumption; vm_compute; reflexivity.
  - split; [|vm_compute; reflexivity]. repeat constructor; cbn [fst snd]; try assumption; vm_compute; reflexivity.
Qed.

Example ex_big_sets_ok : Forall set_ok ex_big_sets.
Proof. apply Forall_forall. intros s H. apply in_map_iff in H. destruct H as (i & <- & _). apply gen_set_ok. Qed.
