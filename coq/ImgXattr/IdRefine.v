(* ImgXattr — the id-table half of the byte-level flush model: sqfs_meta_writer_reset, write_id_table (the
   locations[] arithmetic, the 512-descriptors-per-block split, the i < loc_count guard of fix F06) and the assembled
   section ([xflush_shape]): key-value blocks ++ id blocks ++ header ++ location words, with the locations being exactly
   the absolute starts of the id blocks. *)
From Coq Require Import List NArith ZArith Bool Lia ZifyBool ZifyNat ZifyN.
From SqfsV Require Import Base.Bytes Gen.Constants C03.Common C03.ListN C03.MetaModel C03.MetaProofs C03.MetaRT C03.TableProofs.
From SqfsV Require Import C01.GenC01 C01.Res C01.XattrModel C01.XattrProofs.
From SqfsV Require Import ImgXattr.FlushModel ImgXattr.CodecRel ImgXattr.KvRefine.
Import ListNotations.
Local Open Scope N_scope.

(* ---- [upd] on arrays ---- *)
Lemma upd_length {A} (l : list A) i f : length (upd l i f) = length l.
Proof. revert i. induction l as [|x l IH]; intro i; destruct i; cbn [upd length]; auto. Qed.

Lemma nth_upd_eq {A} (l : list A) i v d : (i < length l)%nat -> nth i (upd l i (fun _ => v)) d = v.
Proof. revert i. induction l as [|x l IH]; intros i H; destruct i; cbn [upd nth length] in *; try lia; auto. apply IH. lia. Qed.

Lemma nth_upd_neq {A} (l : list A) i k f d : k <> i -> nth k (upd l i f) d = nth k l d.
Proof.
  revert i k. induction l as [|x l IH]; intros i k H; destruct i, k; cbn [upd nth]; try reflexivity; try congruence.
  apply IH. congruence.
Qed.

(* ---- a writer whose file already holds [pre]: every operation commutes with the prefix ---- *)
Definition mw_shift (pre : list N) (m : mw) : mw :=
  mkMw (mw_cur m) (mw_off m) (mw_boff m) (mw_keep m) (mw_mem m) (pre ++ mw_out m).

Definition cmap {A B} (f : A -> B) (r : Common.res A) : Common.res B :=
  match r with Common.Ok a => Common.Ok (f a) | Common.Err e => Common.Err e | Common.Fuel => Common.Fuel end.

Definition rmap {A B} (f : A -> B) (r : res A) : res B :=
  match r with Ok a => Ok (f a) | Err e => Err e | Crash => Crash | OutOfFuel => OutOfFuel end.

Section Shift.
  Variable compress : list N -> cres.
  Variable pre : list N.

  Lemma flush_shift m : mw_flush compress (mw_shift pre m) = cmap (mw_shift pre) (mw_flush compress m).
  Proof.
    unfold mw_flush, mw_shift. cbn [mw_cur mw_off mw_boff mw_keep mw_mem mw_out].
    destruct (mw_off m =? 0); [reflexivity|].
    destruct (compress (mw_cur m)) as [e| |c]; [reflexivity| |];
      destruct (build_block (mw_cur m) (mw_off m) _) as [blk count]; destruct (mw_keep m); cbn [cmap];
      unfold mw_shift; cbn [mw_cur mw_off mw_boff mw_keep mw_mem mw_out]; rewrite ?app_assoc; reflexivity.
  Qed.

  Lemma loop_shift : forall fuel d m,
    mw_append_loop compress fuel (mw_shift pre m) d = cmap (mw_shift pre) (mw_append_loop compress fuel m d).
  Proof.
    induction fuel as [|f IH]; intros d m; destruct d as [|x d]; cbn [mw_append_loop]; try reflexivity.
    change (mw_off (mw_shift pre m)) with (mw_off m).
    destruct (MB - mw_off m =? 0).
    - rewrite flush_shift. destruct (mw_flush compress m) as [m1|e|]; cbn [cmap]; try reflexivity.
      rewrite <- IH. reflexivity.
    - rewrite <- IH. reflexivity.
  Qed.

  Lemma append_shift m d : mw_append compress (mw_shift pre m) d = cmap (mw_shift pre) (mw_append compress m d).
  Proof.
    unfold mw_append. rewrite loop_shift.
    destruct (mw_append_loop compress (S (length d)) m d) as [m1|e|]; cbn [cmap]; try reflexivity.
    change (mw_off (mw_shift pre m1)) with (mw_off m1). destruct (mw_off m1 =? MB); [apply flush_shift|reflexivity].
  Qed.

  Lemma app_shift m d : app compress (mw_shift pre m) d = rmap (mw_shift pre) (app compress m d).
  Proof. unfold app. rewrite append_shift. destruct (mw_append compress m d); reflexivity. Qed.

  Lemma id_loop_shift : forall descs m locs i count,
    f_id_loop compress (mw_shift pre m) descs locs i count
    = rmap (fun p => (mw_shift pre (fst p), snd p)) (f_id_loop compress m descs locs i count).
  Proof.
    induction descs as [|d r IH]; intros m locs i count; cbn [f_id_loop]; [reflexivity|].
    rewrite app_shift. destruct (app compress m (enc_desc d)) as [m1| | |]; cbn [rmap bind]; try reflexivity.
    unfold mw_position. change (mw_boff (mw_shift pre m1)) with (mw_boff m1).
    destruct (negb (mw_boff m1 =? nth (i - 1) locs 0) && (N.of_nat i <? count)); apply IH.
  Qed.

  Lemma id_table_shift m descs count :
    f_write_id_table compress (mw_shift pre m) descs count
    = rmap (fun p => (mw_shift pre (fst p), snd p)) (f_write_id_table compress m descs count).
  Proof.
    unfold f_write_id_table. rewrite id_loop_shift.
    destruct (f_id_loop compress m descs _ 1 count) as [[m1 locs]| | |]; cbn [rmap bind fst snd]; try reflexivity.
    rewrite flush_shift. destruct (mw_flush compress m1); reflexivity.
  Qed.
End Shift.

Section R.
  Variable compress : list N -> cres.
  Variable uncompress : list N -> option (list N).
  Hypothesis compress_ok :
    forall b c, compress b = CData c -> lenN c <= lenN b /\ uncompress c = Some b.

  Notation enc := (enc compress).
  Notation Idle := (Idle compress).
  Notation startN := (startN compress).

  Lemma enc_len2 r : blk_ok r -> 2 <= lenN (enc r).
  Proof. intro H. rewrite (enc_len compress uncompress compress_ok r H). lia. Qed.

  Lemma startN_step raws x : startN (raws ++ [x]) (S (length raws)) = startN raws (length raws) + lenN (enc x).
  Proof.
    unfold KvRefine.startN. rewrite firstn_all. replace (S (length raws)) with (length (raws ++ [x])) by (rewrite app_length; cbn; lia).
    rewrite firstn_all, map_app, concat_app, lenN_app. cbn [map concat]. rewrite app_nil_r. reflexivity.
  Qed.

  (* the locations array: slots below i hold the block starts, the rest is still zero *)
  Definition locs_ok (raws : list (list N)) (i cnt : nat) (locs : list N) : Prop :=
    length locs = cnt /\ (forall k, (k < i)%nat -> nth k locs 0 = startN raws k) /\
    (forall k, (i <= k)%nat -> nth k locs 0 = 0).

  Lemma f_id_loop_spec cnt : forall descs m raws locs i m' locs',
    Idle m raws -> AllFull raws -> lenN (mw_cur m) mod 16 = 0 ->
    i = Nat.min (length raws + 1) cnt -> (1 <= cnt)%nat -> locs_ok raws i cnt locs ->
    f_id_loop compress m descs locs i (N.of_nat cnt) = Ok (m', locs') ->
    exists fulls, Idle m' (raws ++ fulls) /\ AllFull (raws ++ fulls) /\
      lstream (raws ++ fulls) m' = lstream raws m ++ flat_map enc_desc descs /\ mw_keep m' = mw_keep m /\
      lenN (mw_cur m') mod 16 = 0 /\
      locs_ok (raws ++ fulls) (Nat.min (length (raws ++ fulls) + 1) cnt) cnt locs'.
  Proof.
    induction descs as [|d r IH]; intros m raws locs i m' locs' I F M Ei C1 LO H; cbn [f_id_loop] in H.
    - injection H as <- <-. exists []. cbn [flat_map]. rewrite !app_nil_r. subst i. auto 10.
    - destruct (app compress m (enc_desc d)) as [m1| | |] eqn:E1; cbn [bind] in H; try discriminate.
      destruct (app_ref compress uncompress compress_ok _ _ _ _ I F E1) as (f1 & I1 & F1 & L1 & K1).
      unfold mw_position in H.
      (* at most one block was closed, and the open block still holds a multiple of 16 bytes *)
      pose proof (lstream_len raws m F) as LA. pose proof (lstream_len (raws ++ f1) m1 F1) as LB.
      rewrite L1, nlen_app, LA, enc_desc_len in LB. rewrite lenN_app in LB.
      destruct I as [IA LtA]. pose proof I1 as [IB LtB]. rewrite MBv in *.
      assert (Hf : lenN f1 <= 1) by lia.
      assert (M1 : lenN (mw_cur m1) mod 16 = 0).
      { assert (lenN (mw_cur m1) = lenN (mw_cur m) + 16 - 8192 * lenN f1) by lia.
        destruct (N.eq_dec (lenN f1) 0) as [Z|Z]; [rewrite Z in *|replace (lenN f1) with 1 in * by lia].
        - replace (lenN (mw_cur m1)) with (lenN (mw_cur m) + 1 * 16) by lia. rewrite N.mod_add by discriminate. exact M.
        - assert (lenN (mw_cur m) + 16 = 8192 + lenN (mw_cur m1)) by lia.
          assert (X : (lenN (mw_cur m) + 1 * 16) mod 16 = 0) by (rewrite N.mod_add by discriminate; exact M).
          replace (lenN (mw_cur m) + 1 * 16) with (lenN (mw_cur m1) + 512 * 16) in X by lia.
          rewrite N.mod_add in X by discriminate. exact X. }
      destruct IB as (_ & BO & CB & _).
      assert (BS : mw_boff m1 = startN (raws ++ f1) (length (raws ++ f1))).
      { rewrite BO. unfold KvRefine.startN. rewrite firstn_all. reflexivity. }
      destruct LO as (LL & LK & LZ).
      assert (Ipos : (1 <= i)%nat) by lia.
      assert (NI : nth (i - 1) locs 0 = startN raws (i - 1)) by (apply LK; lia).
      assert (Agree : forall k, (k <= length raws)%nat -> startN (raws ++ f1) k = startN raws k)
        by (intros k Hk; apply startN_prefix; exact Hk).
      destruct f1 as [|x [|y f1']]; [| |exfalso; rewrite !lenN_cons in Hf; lia].
      + (* the descriptor stayed inside the open block *)
        rewrite app_nil_r in *.
        assert (Br : (if negb (mw_boff m1 =? nth (i - 1) locs 0) && (N.of_nat i <? N.of_nat cnt)
                      then f_id_loop compress m1 r (upd locs i (fun _ => mw_boff m1)) (S i) (N.of_nat cnt)
                      else f_id_loop compress m1 r locs i (N.of_nat cnt))
                     = f_id_loop compress m1 r locs i (N.of_nat cnt)).
        { destruct (Nat.le_gt_cases (length raws + 1) cnt) as [Le|Gt].
          - rewrite NI, BS. replace (i - 1)%nat with (length raws) by lia. rewrite N.eqb_refl. reflexivity.
          - destruct (N.ltb_spec (N.of_nat i) (N.of_nat cnt)); [lia|]. rewrite andb_false_r. reflexivity. }
        rewrite Br in H.
        destruct (IH _ _ _ _ _ _ I1 F1 M1 Ei C1 (conj LL (conj LK LZ)) H) as (f2 & I2 & F2 & L2 & K2 & M2 & LO2).
        exists f2. split; [exact I2|]. split; [exact F2|]. split; [|split; [congruence|split; assumption]].
        rewrite L2, L1. cbn [flat_map]. rewrite app_assoc. reflexivity.
      + (* the descriptor filled the block: a new block starts *)
        assert (OKx : blk_ok x) by (rewrite Forall_forall in CB; apply CB; apply in_or_app; right; left; reflexivity).
        pose proof (enc_len2 x OKx) as E2x.
        assert (BS' : mw_boff m1 = startN raws (length raws) + lenN (enc x)).
        { rewrite BS. rewrite app_length. cbn [length]. replace (length raws + 1)%nat with (S (length raws)) by lia.
          apply startN_step. }
        assert (Mono : forall k, (k <= length raws)%nat -> startN raws k <= startN raws (length raws)).
        { intros k Hk. unfold KvRefine.startN. rewrite firstn_all.
          assert (E : concat (map enc raws) = concat (map enc (firstn k raws)) ++ concat (map enc (skipn k raws)))
            by (rewrite <- concat_app, <- map_app, firstn_skipn; reflexivity).
          rewrite E, lenN_app. lia. }
        assert (NE : (mw_boff m1 =? nth (i - 1) locs 0) = false).
        { apply N.eqb_neq. rewrite NI, BS'. pose proof (Mono (i - 1)%nat ltac:(lia)). lia. }
        rewrite NE in H. cbn [negb andb] in H.
        destruct (N.ltb_spec (N.of_nat i) (N.of_nat cnt)) as [Lt|Ge].
        * (* stored in the next slot *)
          assert (Ei' : S i = Nat.min (length (raws ++ [x]) + 1) cnt) by (rewrite app_length; cbn [length]; lia).
          assert (LO' : locs_ok (raws ++ [x]) (S i) cnt (upd locs i (fun _ => mw_boff m1))).
          { split; [rewrite upd_length; exact LL|]. split.
            - intros k Hk. destruct (Nat.eq_dec k i) as [->|Nk].
              + rewrite nth_upd_eq by lia. rewrite BS. f_equal. rewrite app_length. cbn [length]. lia.
              + rewrite nth_upd_neq by exact Nk. rewrite LK by lia. symmetry. apply Agree. lia.
            - intros k Hk. rewrite nth_upd_neq by lia. apply LZ. lia. }
          destruct (IH _ _ _ _ _ _ I1 F1 M1 Ei' C1 LO' H) as (f2 & I2 & F2 & L2 & K2 & M2 & LO2).
          exists ([x] ++ f2). rewrite app_assoc. split; [exact I2|]. split; [exact F2|].
          split; [|split; [congruence|split; assumption]].
          rewrite L2, L1. cbn [flat_map]. rewrite app_assoc. reflexivity.
        * (* the array is full (i = loc_count): nothing is stored *)
          assert (Ei' : i = Nat.min (length (raws ++ [x]) + 1) cnt) by (rewrite app_length; cbn [length]; lia).
          assert (LO' : locs_ok (raws ++ [x]) i cnt locs).
          { split; [exact LL|]. split; [|exact LZ].
            intros k Hk. rewrite LK by exact Hk. symmetry. apply Agree. lia. }
          destruct (IH _ _ _ _ _ _ I1 F1 M1 Ei' C1 LO' H) as (f2 & I2 & F2 & L2 & K2 & M2 & LO2).
          exists ([x] ++ f2). rewrite app_assoc. split; [exact I2|]. split; [exact F2|].
          split; [|split; [congruence|split; assumption]].
          rewrite L2, L1. cbn [flat_map]. rewrite app_assoc. reflexivity.
  Qed.

  (* write_id_table on a fresh writer: the blocks hold the descriptors, the array holds exactly their starts *)
  Theorem f_write_id_table_fresh descs m3 locs :
    descs <> [] ->
    f_write_id_table compress (mw_init false) descs (loc_count (nlen descs)) = Ok (m3, locs) ->
    exists raws, Idle m3 raws /\ mw_cur m3 = [] /\ mw_keep m3 = false /\ chunked raws /\
      concat raws = flat_map enc_desc descs /\
      nlen raws = loc_count (nlen descs) /\
      locs = map (startN raws) (seq 0 (length raws)).
  Proof.
    intros NE H. unfold f_write_id_table in H.
    set (count := loc_count (nlen descs)) in *. set (cnt := N.to_nat count).
    assert (Tpos : 1 <= nlen descs) by (destruct descs; [congruence|rewrite nlen_cons; lia]).
    assert (LC : count = 16 * nlen descs / 8192 + (if (16 * nlen descs) mod 8192 =? 0 then 0 else 1)).
    { unfold count, loc_count. change sizeof_sqfs_xattr_id_t with 16. change META with 8192.
      rewrite (N.mul_comm (nlen descs) 16). reflexivity. }
    assert (C1 : (1 <= cnt)%nat).
    { unfold cnt. destruct ((16 * nlen descs) mod 8192 =? 0) eqn:E; [apply N.eqb_eq in E|];
        (assert (1 <= count) by (rewrite LC; pose proof (N.div_mod (16 * nlen descs) 8192 ltac:(discriminate)); lia)); lia. }
    replace count with (N.of_nat cnt) in H by (unfold cnt; lia).
    destruct (f_id_loop compress (mw_init false) descs _ 1 (N.of_nat cnt)) as [[m1 l1]| | |] eqn:E1; cbn [bind] in H; try discriminate.
    destruct (mw_flush compress m1) as [mf|e|] eqn:E2; cbn [liftm bind] in H; try discriminate.
    injection H as <- <-.
    assert (LO0 : locs_ok [] 1 cnt (upd (repeat 0 (N.to_nat (N.of_nat cnt))) 0 (fun _ => 0))).
    { rewrite Nat2N.id. split; [rewrite upd_length, repeat_length; reflexivity|].
      assert (Z : forall k, nth k (upd (repeat 0 cnt) 0 (fun _ => 0)) 0 = 0).
      { intro k. destruct (Nat.eq_dec k 0) as [->|Nk].
        - destruct cnt; [lia|]. reflexivity.
        - rewrite nth_upd_neq by exact Nk. destruct (Nat.lt_ge_cases k cnt) as [Lt|Ge].
          + apply nth_repeat.
          + apply nth_overflow. rewrite repeat_length. exact Ge. }
      split; intros k Hk; rewrite Z; [|reflexivity].
      replace k with 0%nat by lia. reflexivity. }
    assert (Ei : 1%nat = Nat.min (length (@nil (list N)) + 1) cnt) by (cbn [length]; lia).
    destruct (f_id_loop_spec cnt descs _ [] _ 1%nat _ _ (init_idle compress false) (Forall_nil _) eq_refl Ei C1 LO0 E1)
      as (f1 & I1 & F1 & L1 & K1 & M1 & LO1).
    cbn [List.app] in *. unfold lstream in L1. cbn [concat mw_init mw_cur List.app] in L1.
    destruct (flush_idle compress uncompress compress_ok _ _ _ I1 E2) as (I2 & C2 & K2 & _).
    pose proof (lstream_len f1 m1 F1) as LS. unfold lstream in LS. rewrite L1, flat_desc_len in LS.
    destruct I1 as [IA LtA]. rewrite MBv in *.
    exists (f1 ++ ne (mw_cur m1)). split; [exact I2|]. split; [exact C2|]. split; [rewrite K2, K1; reflexivity|].
    split; [exists f1, (mw_cur m1); rewrite MBv; auto|].
    split; [rewrite concat_app, concat_ne; exact L1|].
    assert (LN : nlen (f1 ++ ne (mw_cur m1)) = count).
    { rewrite nlen_app. change (nlen f1) with (lenN f1).
      assert (Q : 16 * nlen descs / 8192 = lenN f1).
      { symmetry. apply (N.div_unique _ 8192 _ (lenN (mw_cur m1))); lia. }
      assert (R : (16 * nlen descs) mod 8192 = lenN (mw_cur m1)).
      { symmetry. apply (N.mod_unique _ 8192 (lenN f1) _); lia. }
      rewrite LC, Q, R. f_equal.
      destruct (mw_cur m1) as [|c0 cr]; [reflexivity|]. cbn [ne]. rewrite lenN_cons.
      destruct (N.eqb_spec (lenN cr + 1) 0); [lia|reflexivity]. }
    split; [exact LN|].
    (* the array is completely filled *)
    assert (Len : length (f1 ++ ne (mw_cur m1)) = cnt) by (unfold cnt; rewrite <- LN; unfold nlen; lia).
    assert (Imin : Nat.min (length f1 + 1) cnt = cnt).
    { rewrite app_length in Len. destruct (mw_cur m1); cbn [ne length] in Len; lia. }
    rewrite Imin in LO1. destruct LO1 as (LL & LK & _).
    apply (nth_ext _ _ 0 0); [rewrite map_length, seq_length; lia|].
    intros k Hk. rewrite LL in Hk. rewrite LK by exact Hk.
    rewrite (nth_indep _ 0 (startN (f1 ++ ne (mw_cur m1)) 0)) by (rewrite map_length, seq_length; lia).
    rewrite map_nth, seq_nth by lia. cbn [Nat.add]. symmetry. apply startN_prefix.
    rewrite app_length in Len. destruct (mw_cur m1); cbn [ne length] in Len; lia.
  Qed.
End R.
