(* ImgXattr — byte-level model of lib/sqfs/src/xattr/xattr_writer_flush.c (sqfs_xattr_writer_flush), statement by
   statement, on top of C03's metadata writer model (meta_writer.c incl. the compressor oracle) and C01's writer state
   (C01.XattrModel.xwr: key table, value table, reference counts, finished key-value blocks).  Definitions only.

   C                                                   model
   sqfs_meta_writer_create(file, cmp, 0)               mw_init false           (block_offset 0: references are relative
                                                                                to the first key-value block)
   file->get_size(file)                                size0 + lenN (mw_out m) (size0 = file size when flush is entered;
                                                                                write_block appends)
   write_key / write_value / write_value_ool           f_write_key / f_write_value / f_write_value_ool
   (block << 16) | (offset & 0xFFFF)                   mk_ref                   (sqfs_u64; unbounded here, htole64 truncates)
   ool_locations[] (0xFFFF.. = "not stored yet")       list (option N)          (None = all ones; a real reference has
                                                                                offset < 8192 in its low 16 bits, so it is
                                                                                never all ones)
   write_block_pairs / write_kv_pairs                  f_block_pairs / f_kv_blocks / f_write_kv_pairs
                                                       (blk->start_ref, blk->count, blk->size_bytes = the descriptor list)
   sqfs_meta_writer_reset(mw)                          mw_reset
   alloc_location_table                                loc_count (C01.XattrModel), calloc'ed array = repeat 0
   write_id_table                                      f_id_loop / f_write_id_table (locations[i - 1] / locations[i++] on
                                                       the array, guarded by i < loc_count: the code after fix F06)
   locations[i] = htole64(locations[i] + id_start)     map (fun l => l + id_start)
   write_location_table                                header (kv_start, xattr_ids, 0) ++ location words, written at
                                                       super->xattr_id_table_start = file size = end of the id blocks
   from_base32 / to_base32 of the value table          the model keeps the value bytes (C01.XattrProofs.hex_rt)
   sqfs_s32 / size_t accumulators (total, size)        unbounded N (a key-value block of >= 2 GiB is out of the model)

   Result: None = "no xattrs" (xattr_id_table_start = ~0, NO_XATTRS set) or Some (bytes appended to the file, offset of
   the xattr id table header in them) — the shape of FinishModel.in_xattr. *)
From Coq Require Import List NArith ZArith Bool.
From SqfsV Require Import Base.Bytes Gen.Constants C03.Common C03.MetaModel.
From SqfsV Require Import C01.GenC01 C01.Res C01.XattrModel.
Import ListNotations.
Local Open Scope N_scope.

(* results of the meta writer model (C03.Common.res) in the result type of the C01 models *)
Definition liftm {A} (r : Common.res A) : res A :=
  match r with
  | Common.Ok a => Ok a
  | Common.Err e => Err e
  | Common.Fuel => OutOfFuel
  end.

(* (block << 16) | (offset & 0xFFFF) *)
Definition mk_ref (block offset : N) : N := N.lor (N.shiftl block 16) (N.land offset 65535).

Section Flush.
  Variable compress : list N -> cres.

  Definition app (m : mw) (d : list N) : res mw := liftm (mw_append compress m d).

  (* write_key: sqfs_xattr_entry_t { type, size } + the key behind the prefix; returns sizeof(kent) + len *)
  Definition f_write_key (m : mw) (key : list N) (value_is_ool : bool) : res (mw * N) :=
    let (ty, suffix) := match prefix_of key with Some x => x | None => (0, []) end in   (* assert(type >= 0) *)
    let ty' := if value_is_ool then N.lor ty c_SQFS_XATTR_FLAG_OOL else ty in
    do m1 <- app m (le16 ty' ++ le16 (nlen suffix));
    do m2 <- app m1 suffix;
    Ok (m2, sizeof_sqfs_xattr_entry_t + nlen suffix).

  (* write_value: (writer, *value_ref_out, sizeof(vent) + size) *)
  Definition f_write_value (m : mw) (v : list N) : res (mw * N * N) :=
    let (block, offset) := mw_position m in
    let ref := mk_ref block offset in
    do m1 <- app m (le32 (nlen v));
    do m2 <- app m1 v;
    Ok (m2, ref, sizeof_sqfs_xattr_value_t + nlen v).

  (* write_value_ool *)
  Definition f_write_value_ool (m : mw) (location : N) : res (mw * N) :=
    do m1 <- app m (le32 8);                              (* vent.size = htole32(sizeof(location)) *)
    do m2 <- app m1 (le64 location);
    Ok (m2, sizeof_sqfs_xattr_value_t + 8).

  (* one iteration of the loop of write_block_pairs *)
  Definition f_block_pair (w : xwr) (st : mw * list (option N) * N) (kv : nat * nat) : res (mw * list (option N) * N) :=
    let '(m, ool, total) := st in
    let key := nth (fst kv) (x_keys w) [] in
    let v := nth (snd kv) (x_vals w) [] in
    match nth (snd kv) ool None with
    | None =>
      do (m1, d1) <- f_write_key m key false;
      do (m2, ref, d2) <- f_write_value m1 v;
      let ool' := if should_ool v (nth (snd kv) (x_refs w) 0) then upd ool (snd kv) (fun _ => Some ref) else ool in
      Ok (m2, ool', total + d1 + d2)
    | Some loc =>
      do (m1, d1) <- f_write_key m key true;
      do (m2, d2) <- f_write_value_ool m1 loc;
      Ok (m2, ool, total + d1 + d2)
    end.

  Fixpoint f_block_pairs (w : xwr) (st : mw * list (option N) * N) (l : list (nat * nat)) : res (mw * list (option N) * N) :=
    match l with
    | [] => Ok st
    | kv :: r => do st1 <- f_block_pair w st kv; f_block_pairs w st1 r
    end.

  (* the loop of write_kv_pairs: per block start_ref from the writer position, size_bytes from write_block_pairs *)
  Fixpoint f_kv_blocks (w : xwr) (m : mw) (ool : list (option N)) (bl : list (list (nat * nat)))
    : res (mw * list (N * N * N)) :=
    match bl with
    | [] => Ok (m, [])
    | b :: r =>
      let (block, offset) := mw_position m in
      let start_ref := mk_ref block offset in
      do (m1, ool1, size) <- f_block_pairs w (m, ool, 0) b;
      do (m2, descs) <- f_kv_blocks w m1 ool1 r;
      Ok (m2, (start_ref, N.of_nat (length b), size) :: descs)
    end.

  Definition f_write_kv_pairs (w : xwr) (m : mw) : res (mw * list (N * N * N)) :=
    do (m1, descs) <- f_kv_blocks w m (map (fun _ => None) (x_vals w)) (x_blocks w);
    do m2 <- liftm (mw_flush compress m1);
    Ok (m2, descs).

  (* the loop of write_id_table: locs is the calloc'ed array, i the next slot *)
  Fixpoint f_id_loop (m : mw) (descs : list (N * N * N)) (locs : list N) (i : nat) (count : N) : res (mw * list N) :=
    match descs with
    | [] => Ok (m, locs)
    | d :: r =>
      do m1 <- app m (enc_desc d);
      let (block, _) := mw_position m1 in
      if negb (block =? nth (i - 1) locs 0) && (N.of_nat i <? count)
      then f_id_loop m1 r (upd locs i (fun _ => block)) (S i) count
      else f_id_loop m1 r locs i count
    end.

  Definition f_write_id_table (m : mw) (descs : list (N * N * N)) (count : N) : res (mw * list N) :=
    let locs0 := upd (repeat 0 (N.to_nat count)) 0 (fun _ => 0) in        (* locations[i++] = 0 *)
    do (m1, locs) <- f_id_loop m descs locs0 1 count;
    do m2 <- liftm (mw_flush compress m1);
    Ok (m2, locs).

  (* sqfs_xattr_id_table_t + the location words *)
  Definition xattr_header (kv_start num : N) : list N := le64 kv_start ++ le32 num ++ le32 0.

  (* sqfs_xattr_writer_flush; size0 = file->get_size(file) on entry *)
  Definition xflush (size0 : N) (w : xwr) : res (option (list N * N)) :=
    if (nlen (concat (x_blocks w) ++ x_cur w) =? 0) || (nlen (x_blocks w) =? 0) then Ok None else
    let m0 := mw_init false in
    let kv_start := size0 + lenN (mw_out m0) in
    do (m1, descs) <- f_write_kv_pairs w m0;
    let m2 := mw_reset m1 in
    let id_start := size0 + lenN (mw_out m2) in
    let count := loc_count (nlen (x_blocks w)) in
    do (m3, locs) <- f_write_id_table m2 descs count;
    let xattr_id_table_start := size0 + lenN (mw_out m3) in
    let locs' := map (fun l => l + id_start) locs in
    Ok (Some (mw_out m3 ++ xattr_header kv_start (nlen (x_blocks w)) ++ concat (map le64 locs'),
              xattr_id_table_start - size0)).
End Flush.
