(* ImgXattr — every lookup table entry of a written xattr section resolves (header -> location list -> id block ->
   key-value block, out-of-line references included) and reads back as the block of pairs recorded for it. *)
From Coq Require Import List NArith ZArith Bool Lia ZifyBool ZifyNat ZifyN.
From SqfsV Require Import Base.Bytes Gen.Constants C03.Common C03.ListN C03.MetaModel C03.MetaProofs C03.MetaRT C03.TableProofs.
From SqfsV Require C14.SuperModel.
From SqfsV Require Import C01.GenC01 C01.Res C01.XattrModel C01.XattrProofs C01.XattrWriterProofs.
From SqfsV Require Import Image.ReaderModel Image.ValidModel Image.ReadLemmas Image.TableRead Image.ValidLemmas.
From SqfsV Require Import ImgXattr.FlushModel ImgXattr.CodecRel ImgXattr.KvRefine ImgXattr.IdRefine ImgXattr.FlushShape
  ImgXattr.XattrRead ImgXattr.SectionProofs.
Import ListNotations.
Local Open Scope N_scope.

Ltac Zify.zify_post_hook ::= Z.div_mod_to_equations.

Lemma Forall_firstn' {A} (P : A -> Prop) k (l : list A) : Forall P l -> Forall P (firstn k l).
Proof. intro F. rewrite <- (firstn_skipn k l) in F. apply Forall_app in F. apply F. Qed.

Lemma firstn_full_len (fulls : list (list N)) k :
  Forall full fulls -> (k <= length fulls)%nat -> lenN (concat (firstn k fulls)) = 8192 * N.of_nat k.
Proof.
  intros F Hk. rewrite (lenN_concat_map_const (firstn k fulls) MB (Forall_firstn' _ k _ F)).
  rewrite MBv. unfold lenN. rewrite firstn_length. f_equal. lia.
Qed.

(* position p of a chunked stream lies in block p / 8192, which exists, at offset p mod 8192 *)
Lemma chunked_index raws p :
  chunked raws -> p < lenN (concat raws) ->
  let k := N.to_nat (p / 8192) in
  (k < length raws)%nat /\ lenN (concat (firstn k raws)) = 8192 * (p / 8192) /\ p mod 8192 < lenN (nth k raws []).
Proof.
  intros (fulls & last & -> & FF & LL) Hp. rewrite MBv in LL. cbn zeta.
  rewrite concat_app, lenN_app, concat_ne in Hp. unfold AllFull in FF.
  rewrite (lenN_concat_map_const fulls MB FF), MBv in Hp.
  assert (Kle : (N.to_nat (p / 8192) <= length fulls)%nat) by (unfold lenN in *; lia).
  split; [|split].
  - rewrite app_length. destruct last as [|x l]; cbn [ne length]; [rewrite lenN_nil in Hp; unfold lenN in *; lia|lia].
  - rewrite firstn_app. replace (N.to_nat (p / 8192) - length fulls)%nat with 0%nat by lia. cbn [firstn]. rewrite app_nil_r.
    rewrite (firstn_full_len fulls _ FF Kle). lia.
  - destruct (Nat.eq_dec (N.to_nat (p / 8192)) (length fulls)) as [E|NEq].
    + rewrite E, app_nth2, Nat.sub_diag by lia. destruct last as [|x l]; [rewrite lenN_nil in Hp; unfold lenN in *; lia|].
      cbn [ne nth]. unfold lenN in *. lia.
    + rewrite app_nth1 by lia. rewrite Forall_forall in FF.
      assert (Fk : full (nth (N.to_nat (p / 8192)) fulls [])) by (apply FF, nth_In; lia).
      unfold full in Fk. rewrite MBv in Fk. lia.
Qed.

(* ---- the front-of-list scanner of the validator computes what g_scan computes ---- *)
Lemma take_front_rd s p n x : rd_at s p n = Ok x -> take_front n (dropN p s) = Some (x, dropN (p + n) s).
Proof.
  intro H. destruct (rd_at_ok_inv _ _ _ _ H) as [B E]. unfold take_front.
  change (takeN n (dropN p s)) with (firstn (N.to_nat n) (skipn (N.to_nat p) s)). rewrite <- E.
  assert (L : lenN x = n).
  { rewrite E. unfold lenN, nlen in *. rewrite firstn_length, skipn_length. lia. }
  rewrite L, N.eqb_refl, dropN_dropN, (N.add_comm n p). reflexivity.
Qed.

Lemma g_pair_f_pair seek s p k v p' :
  g_pair seek s p = Ok (k, v, p') -> p <= p' /\ f_pair seek s (dropN p s) = Ok (k, v, dropN p' s, p' - p).
Proof.
  unfold g_pair, f_pair.
  destruct (rd_at s p 4) as [h| | |] eqn:R1; cbn [bind]; try discriminate.
  rewrite (take_front_rd _ _ _ _ R1). set (ksz := rd16 (skipn 2 h)) in *.
  destruct (prefix_by_id (N.land (rd16 h) c_SQFS_XATTR_PREFIX_MASK)) as [pfx|]; [|discriminate].
  destruct (rd_at s (p + 4) (ksz)) as [kb| | |] eqn:R2; cbn [bind]; try discriminate.
  rewrite (take_front_rd _ _ _ _ R2).
  destruct (rd_at s (p + 4 + ksz) 4) as [vh| | |] eqn:R3; cbn [bind]; try discriminate.
  rewrite (take_front_rd _ _ _ _ R3).
  destruct (negb (N.land (rd16 h) c_SQFS_XATTR_FLAG_OOL =? 0)).
  - destruct (rd_at s (p + 8 + ksz) 8) as [rb| | |] eqn:R4; cbn [bind]; try discriminate.
    replace (p + 8 + ksz) with (p + 4 + ksz + 4) in R4 by lia.
    rewrite (take_front_rd _ _ _ _ R4).
    destruct (seek (rd64 rb)) as [q| | |]; cbn [bind]; try discriminate.
    destruct (rd_at s q 4) as [vh2| | |]; cbn [bind]; try discriminate.
    destruct (rd_at s (q + 4) (rd32 vh2)) as [v0| | |]; cbn [bind]; try discriminate.
    intro H. injection H as <- <- <-. split; [lia|].
    replace (p + 4 + ksz + 4 + 8) with (p + 16 + ksz) by lia.
    replace (p + 16 + ksz - p) with (16 + ksz) by lia. reflexivity.
  - destruct (rd_at s (p + 8 + ksz) (rd32 vh)) as [v0| | |] eqn:R4; cbn [bind]; try discriminate.
    replace (p + 8 + ksz) with (p + 4 + ksz + 4) in R4 by lia.
    rewrite (take_front_rd _ _ _ _ R4).
    intro H. injection H as <- <- <-. split; [lia|].
    replace (p + 4 + ksz + 4 + rd32 vh) with (p + 8 + ksz + rd32 vh) by lia.
    replace (p + 8 + ksz + rd32 vh - p) with (8 + ksz + rd32 vh) by lia. reflexivity.
Qed.

Lemma g_scan_f_scan seek s : forall n p l q,
  g_scan seek s p n = Ok (l, q) -> p <= q /\ f_scan seek s (dropN p s) n = Ok (l, q - p).
Proof.
  induction n as [|n IH]; intros p l q H; cbn [g_scan f_scan] in *.
  - injection H as <- <-. split; [lia|]. rewrite N.sub_diag. reflexivity.
  - destruct (g_pair seek s p) as [[[k v] p']| | |] eqn:E; cbn [bind] in H; try discriminate.
    destruct (g_pair_f_pair _ _ _ _ _ _ E) as [L1 F1]. rewrite F1. cbn [bind].
    destruct (g_scan seek s p' n) as [[rest q']| | |] eqn:E2; cbn [bind] in H; try discriminate.
    injection H as <- <-. destruct (IH _ _ _ E2) as [L2 F2]. rewrite F2. cbn [bind].
    split; [lia|]. f_equal. f_equal. lia.
Qed.

Section RT.
  Variable compress : list N -> cres.
  Variable uncompress : list N -> option (list N).
  Hypothesis compress_ok :
    forall b c, compress b = CData c -> lenN c <= lenN b /\ uncompress c = Some b.

  Notation enc := (enc compress).
  Notation startN := (startN compress).
  Notation bs_of := (bs_of compress).
  Notation F := (fun r : list N => (r, stored_size compress r, is_comp compress r)).

  (* a reference (block start << 16 | offset) into a written area resolves through the block index of the validator *)
  Lemma ref_offset_from : forall rest pos off j q,
    Forall blk_ok rest -> (j < length rest)%nat -> q <= lenN (nth j rest []) -> q < 65536 ->
    ref_offset (block_index (map F rest) pos off) ((pos + lenN (concat (map enc (firstn j rest)))) * 65536 + q)
    = Some (off + lenN (concat (firstn j rest)) + q).
  Proof.
    induction rest as [|r rest IH]; intros pos off j q OK Hj Hq Hq2; [cbn [length] in Hj; lia|].
    inversion OK as [|? ? OKr OK']; subst.
    pose proof (enc_len compress uncompress compress_ok r OKr) as EL.
    cbn [map block_index ref_offset].
    destruct j as [|j].
    - cbn [firstn map concat nth] in *. rewrite lenN_nil, !N.add_0_r.
      assert (D : (pos * 65536 + q) / 65536 = pos) by lia. assert (M : (pos * 65536 + q) mod 65536 = q) by lia.
      rewrite D, M, N.eqb_refl. destruct (N.leb_spec q (lenN r)); [reflexivity|lia].
    - cbn [firstn map concat nth length] in *. rewrite !lenN_app.
      set (tgt := pos + (lenN (enc r) + lenN (concat (map enc (firstn j rest))))).
      assert (D : (tgt * 65536 + q) / 65536 = tgt) by lia.
      rewrite D. destruct (N.eqb_spec pos tgt) as [E|_]; [unfold tgt in E; lia|].
      replace tgt with (pos + 2 + stored_size compress r + lenN (concat (map enc (firstn j rest)))) by (unfold tgt; lia).
      rewrite IH; [f_equal; lia|exact OK'|lia|exact Hq|exact Hq2].
  Qed.

  Lemma ref_offset_written raws p :
    chunked raws -> Forall blk_ok raws -> p < lenN (concat raws) ->
    ref_offset (block_index (map F raws) 0 0) (ref_at (bs_of raws) p) = Some p.
  Proof.
    intros CH OK Hp. destruct (chunked_index raws p CH Hp) as (Hk & HL & HM). cbn zeta in *.
    unfold ref_at, KvRefine.bs_of. change META with 8192.
    pose proof (ref_offset_from raws 0 0 (N.to_nat (p / 8192)) (p mod 8192) OK Hk ltac:(lia) ltac:(lia)) as R.
    rewrite N.add_0_l in R. unfold KvRefine.startN. rewrite R, HL. f_equal. lia.
  Qed.

  Lemma startN_le raws k : startN raws k <= lenN (concat (map enc raws)).
  Proof.
    unfold KvRefine.startN.
    assert (E : concat (map enc raws) = concat (map enc (firstn k raws)) ++ concat (map enc (skipn k raws)))
      by (rewrite <- concat_app, <- map_app, firstn_skipn; reflexivity).
    rewrite E, lenN_app. lia.
  Qed.

  Variables (size0 : N) (w : xwr) (bytes : list N) (off : N) (kvr idr : list (list N)) (descs : list (N * N * N)).
  Hypothesis SH : xshape compress size0 w bytes off kvr idr descs.
  Hypothesis Hn : nlen (x_blocks w) < 4294967296.
  Hypothesis T : tables_ok w.
  Hypothesis BR : Forall (Forall (pair_ok w)) (x_blocks w).
  Hypothesis BNE : blocks_ne w.
  Hypothesis CB : Forall (fun b => nlen b < 4294967296) (x_blocks w).
  Hypothesis H48 : lenN bytes < 281474976710656.

  Variable locs : list N.
  Let t := mkXT (nlen (x_blocks w)) size0 locs (map F kvr) (concat idr).
  Let LK := nlen (concat kvr).

  Lemma t_stream : xt_stream t = concat kvr.
  Proof. unfold xt_stream, t. cbn [xt_kv]. rewrite map_map. cbn [fst]. rewrite map_id. reflexivity. Qed.

  Lemma t_seek p : p < LK -> xt_seek t (ref_at (bs_of kvr) p) = Ok p.
  Proof.
    intro H. unfold xt_seek, seek_bt, t. cbn [xt_kv].
    rewrite (ref_offset_written kvr p (xs_kvc _ _ _ _ _ _ _ _ SH) (xs_kvok _ _ _ _ _ _ _ _ SH) H). reflexivity.
  Qed.

  Lemma t_small p : p < LK -> ref_at (bs_of kvr) p < 18446744073709551616.
  Proof.
    intros _. unfold ref_at, KvRefine.bs_of. change META with 8192.
    pose proof (startN_le kvr (N.to_nat (p / 8192))) as B.
    pose proof (xs_bytes _ _ _ _ _ _ _ _ SH) as EB. apply (f_equal lenN) in EB. rewrite !lenN_app in EB. lia.
  Qed.

  (* every block: descriptor, resolution, pairs *)
  Lemma blocks_read :
    forall j b, nth_error (x_blocks w) j = Some b ->
      exists p sz, nth_error descs j = Some (ref_at (bs_of kvr) p, N.of_nat (length b), sz) /\
                   g_scan (xt_seek t) (concat kvr) p (length b) = Ok (map (pair_kv w) b, p + sz) /\
                   p + sz <= LK /\ 8 <= sz.
  Proof.
    pose proof (xs_kv _ _ _ _ _ _ _ _ SH) as W. unfold ool0 in W.
    assert (I0 : ool_inv (xt_seek t) w [] (map (fun _ => None) (x_vals w))).
    { intros vi r E. rewrite nth_map_none in E. discriminate. }
    change 0 with (nlen (@nil N)) in W.
    assert (BL : nlen ([] ++ concat kvr ++ []) <= LK) by (cbn [List.app]; rewrite app_nil_r; unfold LK; lia).
    destruct (write_blocks_read (bs_of kvr) (xt_seek t) LK t_seek t_small w (x_blocks w) [] _ _ _ [] T BR W I0 BL) as [_ RD].
    cbn [List.app] in RD. rewrite app_nil_r in RD.
    intros j b Hj. destruct (RD j b Hj) as (p & sz & D & R & B1 & B2). exists p, sz.
    assert (Bne : b <> []).
    { unfold blocks_ne in BNE. rewrite Forall_forall in BNE. apply BNE. eapply nth_error_In. exact Hj. }
    split; [exact D|]. split; [exact R|]. split; [exact B1|exact (B2 Bne)].
  Qed.

  Lemma desc_read j d : nth_error descs j = Some d -> rd_at (concat idr) (N.of_nat j * 16) 16 = Ok (enc_desc d).
  Proof.
    intro H. rewrite (xs_ids _ _ _ _ _ _ _ _ SH). rewrite N.mul_comm. exact (rd_desc_at descs j d H).
  Qed.

  Lemma j_lt j b : nth_error (x_blocks w) j = Some b -> N.of_nat j < nlen (x_blocks w).
  Proof. intro H. assert (j < length (x_blocks w))%nat by (apply nth_error_Some; congruence). unfold nlen. lia. Qed.

  (* image_xattr_roundtrip, per block *)
  Theorem xt_set_written j b :
    nth_error (x_blocks w) j = Some b -> xt_set t (N.of_nat j) = Ok (map (pair_kv w) b).
  Proof.
    intro Hj. destruct (blocks_read j b Hj) as (p & sz & D & R & B1 & B2).
    pose proof (j_lt j b Hj) as JL.
    unfold xt_set, xt_desc, desc_with. unfold t at 1 2. cbn [xt_count xt_ids]. destruct (N.leb_spec (nlen (x_blocks w)) (N.of_nat j)); [lia|]. rewrite (desc_read j _ D). cbn [bind]. unfold enc_desc.
    assert (PK : p < LK) by lia.
    rewrite rd_le64 by (apply t_small; exact PK). unfold le64 at 1. rewrite skipn_le_app.
    assert (Cb : N.of_nat (length b) < 4294967296).
    { rewrite Forall_forall in CB. apply (CB b). eapply nth_error_In. exact Hj. }
    rewrite rd_le32 by exact Cb. cbn [bind]. rewrite (t_seek p PK). cbn [bind]. rewrite Nat2N.id, t_stream.
    exact (g_scan_pairs _ _ _ _ _ _ R).
  Qed.

  (* xattr_refs_resolve, per entry (the size field is 32 bit: uncompressed key-value stream below 4 GiB) *)
  Hypothesis H32 : LK < 4294967296.

  Theorem xt_entry_ok_written j : (j < length (x_blocks w))%nat -> xt_entry_ok t (N.of_nat j) = true.
  Proof.
    intro Hj. destruct (nth_error (x_blocks w) j) as [b|] eqn:Eb; [|apply nth_error_None in Eb; lia].
    destruct (blocks_read j b Eb) as (p & sz & D & R & B1 & B2).
    pose proof (j_lt j b Eb) as JL.
    unfold xt_entry_ok, entry_ok_with, desc_with. unfold t at 1 2. cbn [xt_count xt_ids]. destruct (N.leb_spec (nlen (x_blocks w)) (N.of_nat j)); [lia|].
    fold (xt_seek t). rewrite (desc_read j _ D). cbn [bind]. unfold enc_desc.
    assert (PK : p < LK) by lia.
    assert (Cb : N.of_nat (length b) < 4294967296).
    { rewrite Forall_forall in CB. apply (CB b). eapply nth_error_In. exact Eb. }
    assert (S8 : skipn 8 (le64 (ref_at (bs_of kvr) p) ++ le32 (N.of_nat (length b)) ++ le32 sz)
                 = le32 (N.of_nat (length b)) ++ le32 sz) by (unfold le64; apply skipn_le_app).
    assert (S12 : skipn 12 (le64 (ref_at (bs_of kvr) p) ++ le32 (N.of_nat (length b)) ++ le32 sz) = le32 sz).
    { rewrite app_assoc, skipn_app, skipn_all2 by (unfold le64, le32; rewrite app_length, !le_length; lia).
      unfold le64, le32 at 1. rewrite app_length, !le_length. reflexivity. }
    rewrite S8, S12. rewrite rd_le64 by (apply t_small; exact PK). rewrite rd_le32 by exact Cb. rewrite rd_le32' by lia.
    rewrite (t_seek p PK). rewrite Nat2N.id, t_stream.
    destruct (g_scan_f_scan _ _ _ _ _ _ R) as [_ FS]. rewrite FS.
    replace (p + sz - p) with sz by lia. rewrite N.eqb_refl. cbn [andb].
    assert (Bne : b <> []).
    { unfold blocks_ne in BNE. rewrite Forall_forall in BNE. apply BNE. eapply nth_error_In. exact Eb. }
    destruct (N.leb_spec 1 (N.of_nat (length b))) as [_|X]; [reflexivity|].
    destruct b; [congruence|cbn [length] in X; lia].
  Qed.

  Lemma upto_in : forall m a x, In x (upto a m) -> exists j, (j < m)%nat /\ x = a + N.of_nat j.
  Proof.
    induction m as [|m IH]; intros a x H; cbn [upto] in H; [contradiction|].
    destruct H as [<-|H]; [exists 0%nat; split; [lia|cbn; lia]|].
    destruct (IH _ _ H) as (j & Hj & ->). exists (S j). split; lia.
  Qed.

  Theorem entries_ok_written : forallb (xt_entry_ok t) (upto 0 (N.to_nat (xt_count t))) = true.
  Proof.
    apply forallb_forall. intros x Hx. destruct (upto_in _ _ _ Hx) as (j & Hj & ->). rewrite N.add_0_l.
    apply xt_entry_ok_written. unfold t in Hj. cbn [xt_count] in Hj. unfold nlen in Hj. lia.
  Qed.
End RT.
