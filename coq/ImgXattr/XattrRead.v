(* ImgXattr — reader-side SPECIFICATION of the xattr section of an image and the xattr clause of the validator, written
   from doc/format.adoc ("Extended Attribute Table"), not from xattr_reader.c.  Definitions only.

   format.adoc                                                         here
   super block "Xattr table": absolute location of                     read_xattr_table: header at s_xattr_start
     { u64 kv start; u32 count; u32 unused; u64 locations[] }          kv, count, locations (ceil(count * 16 / 8192) of them,
                                                                       "This lookup table is stored as outlined in Storing
                                                                       Lookup Tables": ReaderModel.read_chunks)
   "The key value pairs of all inodes are stored consecutively in a    the metadata blocks that tile [kv start, first id block)
    series of metadata blocks"                                         (ValidModel.area), concatenated: xt_stream
   lookup table entry { u64 xattr ref; u32 count; u32 size }           xt_desc (entry idx at byte idx * 16 of the id stream:
                                                                       block idx / 512, offset (idx * 16) % 8192)
   reference = block location << 16 | offset in the uncompressed       xt_seek: ValidModel.ref_offset on the block index of the
     block, location "relative to the location of the first block"     key-value area (position relative to kv start)
   key { u16 type (| 0x0100 out of line); u16 size; name },            CodecRel.g_pair (prefix ids 0, 1, 2 = "user.", "trusted.",
   value { u32 size; bytes | u64 reference to a value structure }      "security."; an out-of-line value is read through xt_seek)
   xattr index 0xFFFFFFFF = no attributes                              read_xattr_set ... NOIDX = Ok []                      *)
From Coq Require Import List NArith ZArith Bool.
From SqfsV Require Import Base.Bytes Gen.Constants C03.Common C03.MetaModel.
From SqfsV Require C14.SuperModel.
From SqfsV Require Import C01.GenC01 C01.Res C01.InodeModel C01.XattrModel.
From SqfsV Require Import Image.ReaderModel Image.ValidModel ImgXattr.CodecRel.
Import ListNotations.
Local Open Scope N_scope.

(* ---- a front-of-list variant of CodecRel.g_scan for the validator: the pairs are parsed from the front of the remaining
        stream (cost proportional to the pairs, not to the stream); only out-of-line values are fetched by position.
        RoundTrip.g_scan_f_scan: it computes what g_scan computes ---- *)
Definition take_front (n : N) (rest : list N) : option (list N * list N) :=
  let x := takeN n rest in
  if lenN x =? n then Some (x, dropN n rest) else None.

Section F.
  Variable seek : N -> res N.

  (* (key, value, rest behind the pair, bytes consumed) *)
  Definition f_pair (s rest : list N) : res (list N * list N * list N * N) :=
    match take_front 4 rest with
    | None => Err c_SQFS_ERROR_OUT_OF_BOUNDS
    | Some (h, r1) =>
      let ty := rd16 h in let ksz := rd16 (skipn 2 h) in
      match prefix_by_id (N.land ty c_SQFS_XATTR_PREFIX_MASK) with
      | None => Err c_SQFS_ERROR_UNSUPPORTED
      | Some pfx =>
        match take_front ksz r1 with
        | None => Err c_SQFS_ERROR_OUT_OF_BOUNDS
        | Some (kb, r2) =>
          match take_front 4 r2 with
          | None => Err c_SQFS_ERROR_OUT_OF_BOUNDS
          | Some (vh, r3) =>
            if negb (N.land ty c_SQFS_XATTR_FLAG_OOL =? 0) then
              match take_front 8 r3 with
              | None => Err c_SQFS_ERROR_OUT_OF_BOUNDS
              | Some (rb, r4) =>
                do q <- seek (rd64 rb);
                do vh2 <- rd_at s q 4;
                do v <- rd_at s (q + 4) (rd32 vh2);
                Ok (pfx ++ kb, v, r4, 16 + ksz)
              end
            else
              match take_front (rd32 vh) r3 with
              | None => Err c_SQFS_ERROR_OUT_OF_BOUNDS
              | Some (v, r4) => Ok (pfx ++ kb, v, r4, 8 + ksz + rd32 vh)
              end
          end
        end
      end
    end.

  Fixpoint f_scan (s rest : list N) (n : nat) : res (list (list N * list N) * N) :=
    match n with
    | O => Ok ([], 0)
    | S n' =>
      do (k, v, rest', c) <- f_pair s rest;
      do (l, c') <- f_scan s rest' n';
      Ok ((k, v) :: l, c + c')
    end.
End F.

Record xtable := mkXT {
  xt_count : N;                          (* number of lookup table entries *)
  xt_kvstart : N;
  xt_locs : list N;                      (* absolute locations of the id blocks *)
  xt_kv : list (list N * N * bool);      (* metadata blocks of the key-value area: content, stored size, compressed? *)
  xt_ids : list N                        (* the lookup table, count * 16 bytes *)
}.

Section XR.
  Variable uncompress : list N -> option (list N).

  Definition read_xattr_table (img : list N) (s : SuperModel.super) : option xtable :=
    let xs := SuperModel.s_xattr_start s in
    if present xs then
      let d := dropN xs img in
      if lenN d <? 16 then None else
      let kv := rd64 d in
      let count := rd32 (dropN 8 d) in
      match read_locs (N.to_nat (table_blocks count 16)) img (xs + 16) with
      | Some (l0 :: r) =>
        match area uncompress img kv l0, read_chunks uncompress img (l0 :: r) (count * 16) with
        | Some bl, Some ids => Some (mkXT count kv (l0 :: r) bl ids)
        | _, _ => None
        end
      | _ => None
      end
    else None.

  Definition xt_stream (t : xtable) : list N := concat (map (fun b => fst (fst b)) (xt_kv t)).

  (* reference -> offset in the key-value stream, through the block index of the key-value area *)
  Definition seek_bt (bt : list (N * N * N)) (r : N) : res N :=
    match ref_offset bt r with
    | Some p => Ok p
    | None => Err c_SQFS_ERROR_OUT_OF_BOUNDS
    end.
  Definition xt_seek (t : xtable) : N -> res N := seek_bt (block_index (xt_kv t) 0 0).

  Definition desc_with (ids : list N) (count idx : N) : res (N * N * N) :=
    if count <=? idx then Err c_SQFS_ERROR_OUT_OF_BOUNDS else
    do b <- rd_at ids (idx * 16) 16;
    Ok (rd64 b, rd32 (skipn 8 b), rd32 (skipn 12 b)).
  Definition xt_desc (t : xtable) (idx : N) : res (N * N * N) := desc_with (xt_ids t) (xt_count t) idx.

  Definition xt_set (t : xtable) (idx : N) : res (list (list N * list N)) :=
    do (r, c, _) <- xt_desc t idx;
    do p <- xt_seek t r;
    g_pairs (xt_seek t) (xt_stream t) p (N.to_nat c).

  (* the key/value pairs of the set an inode's xattr index names, read from the image bytes *)
  Definition read_xattr_set (img : list N) (s : SuperModel.super) (idx : N) : res (list (list N * list N)) :=
    if idx =? NOIDX then Ok [] else
    match read_xattr_table img s with
    | Some t => xt_set t idx
    | None => Err c_SQFS_ERROR_OUT_OF_BOUNDS
    end.

  (* ---- validator clause: every lookup table entry resolves ---- *)
  (* entry idx: its reference names a position of the key-value stream, [count] pairs parse from there (out-of-line
     references resolve), they end exactly [size] bytes later, inside the stream *)
  Definition entry_ok_with (ids : list N) (count : N) (bt : list (N * N * N)) (s : list N) (idx : N) : bool :=
    match desc_with ids count idx with
    | Ok (r, c, sz) =>
      match seek_bt bt r with
      | Ok p =>
        match f_scan (seek_bt bt) s (dropN p s) (N.to_nat c) with
        | Ok (_, consumed) => (consumed =? sz) && (1 <=? c)
        | _ => false
        end
      | _ => false
      end
    | _ => false
    end.
  Definition xt_entry_ok (t : xtable) (idx : N) : bool :=
    entry_ok_with (xt_ids t) (xt_count t) (block_index (xt_kv t) 0 0) (xt_stream t) idx.

  Fixpoint upto (k : N) (n : nat) : list N := match n with O => [] | S n' => k :: upto (k + 1) n' end.

  Definition v_xattr (img : list N) (s : SuperModel.super) : bool :=
    if present (SuperModel.s_xattr_start s) then
      match read_xattr_table img s with
      | Some t =>
        let bt := block_index (xt_kv t) 0 0 in              (* computed once *)
        let s := xt_stream t in
        (1 <=? xt_count t) && forallb (entry_ok_with (xt_ids t) (xt_count t) bt s) (upto 0 (N.to_nat (xt_count t)))
      | None => false
      end
    else true.

  Lemma v_xattr_unfold img s :
    v_xattr img s =
    if present (SuperModel.s_xattr_start s) then
      match read_xattr_table img s with
      | Some t => (1 <=? xt_count t) && forallb (xt_entry_ok t) (upto 0 (N.to_nat (xt_count t)))
      | None => false
      end
    else true.
  Proof. reflexivity. Qed.

  (* the xattr index of every inode is 0xFFFFFFFF or an index into the lookup table *)
  Definition v_xattr_inodes (img : list N) (s : SuperModel.super) : bool :=
    let count := if present (SuperModel.s_xattr_start s)
                 then match read_xattr_table img s with Some t => xt_count t | None => 0 end else 0 in
    match inodes_of uncompress img s with
    | Some (_, l) => forallb (fun p => let x := get_xattr_index (i_body (snd p)) in (x =? NOX) || (x <? count)) l
    | None => false
    end.

  (* both, on the image bytes *)
  Definition valid_xattrs (img : list N) : bool :=
    match read_super img with
    | Some s => v_xattr img s && v_xattr_inodes img s
    | None => false
    end.
End XR.
