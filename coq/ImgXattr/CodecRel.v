(* ImgXattr — the xattr codec round trip of C01.XattrProofs (Section Codec) and C01.XattrWriterProofs (Section
   RoundTrip) with the block-start hypotheses RELATIVISED to the blocks that exist.

   Why.  C01's sections assume  (forall k, bidxK (bsK k) = Some k)  and  (forall k, bsK k < 2^48)  for ALL k : N.  The first
   makes bsK injective on N, the second bounds it: no such function exists, the section hypotheses are contradictory and
   everything proved from both of them is vacuous.  Here every hypothesis is about the positions / blocks that the flushed
   streams really use:
       key/value stream:  p < LK  ->  seek (ref_at bsK p) = Ok p  /\  ref_at bsK p < 2^64        (LK >= stream length)
       id stream:         k < nT  ->  bidxT (bsT k) = Some k                                     (nT > last block index)
   and the reader is generic in the seek function ([g_pair seek]; C01's [rd_pair bidxK] is [g_pair (seek_ref bidxK)] by
   reflexivity, the image-level reader of ImgXattr/XattrRead.v is [g_pair] with the seek of the decoded block index).
   The proofs are those of C01 with the bounds threaded through; the model (C01.XattrModel) is untouched. *)
From Coq Require Import List NArith ZArith Bool Lia Permutation ZifyBool ZifyNat ZifyN.
From SqfsV Require Import Base.Bytes Gen.Constants C01.GenC01 C01.Res C01.XattrModel C01.XattrProofs C01.XattrWriterProofs.
Import ListNotations.
Local Open Scope N_scope.

(* ---- the pair reader, generic in "seek to the position named by a reference" ---- *)
Section G.
  Variable seek : N -> res N.

  Definition g_pair (s : list N) (p : N) : res (list N * list N * N) :=
    do h <- rd_at s p 4;
    let ty := rd16 h in let ksz := rd16 (skipn 2 h) in
    match prefix_by_id (N.land ty c_SQFS_XATTR_PREFIX_MASK) with
    | None => Err c_SQFS_ERROR_UNSUPPORTED
    | Some pfx =>
      do kb <- rd_at s (p + 4) ksz;
      do vh <- rd_at s (p + 4 + ksz) 4;
      if negb (N.land ty c_SQFS_XATTR_FLAG_OOL =? 0) then
        do rb <- rd_at s (p + 8 + ksz) 8;
        do q <- seek (rd64 rb);
        do vh2 <- rd_at s q 4;
        do v <- rd_at s (q + 4) (rd32 vh2);
        Ok (pfx ++ kb, v, p + 16 + ksz)
      else
        do v <- rd_at s (p + 8 + ksz) (rd32 vh);
        Ok (pfx ++ kb, v, p + 8 + ksz + rd32 vh)
    end.

  Fixpoint g_pairs (s : list N) (p : N) (n : nat) : res (list (list N * list N)) :=
    match n with
    | O => Ok []
    | S n' =>
      do (k, v, p') <- g_pair s p;
      do rest <- g_pairs s p' n';
      Ok ((k, v) :: rest)
    end.

  (* the same, also returning the position behind the last pair *)
  Fixpoint g_scan (s : list N) (p : N) (n : nat) : res (list (list N * list N) * N) :=
    match n with
    | O => Ok ([], p)
    | S n' =>
      do (k, v, p') <- g_pair s p;
      do (rest, q) <- g_scan s p' n';
      Ok ((k, v) :: rest, q)
    end.

  Lemma g_scan_pairs s : forall n p l q, g_scan s p n = Ok (l, q) -> g_pairs s p n = Ok l.
  Proof.
    induction n as [|n IH]; intros p l q H; cbn [g_scan g_pairs] in *; [injection H as <- _; reflexivity|].
    destruct (g_pair s p) as [[[k v] p']| | |]; cbn [bind] in *; try discriminate.
    destruct (g_scan s p' n) as [[rest q']| | |] eqn:E; cbn [bind] in H; try discriminate.
    injection H as <- _. rewrite (IH _ _ _ E). reflexivity.
  Qed.
End G.

Lemma rd_pair_g bidxK s p : rd_pair bidxK s p = g_pair (seek_ref bidxK) s p.
Proof. reflexivity. Qed.

Lemma rd_pairs_g bidxK s : forall n p, rd_pairs bidxK s p n = g_pairs (seek_ref bidxK) s p n.
Proof.
  induction n as [|n IH]; intro p; [reflexivity|]. cbn [rd_pairs g_pairs]. rewrite rd_pair_g.
  destruct (g_pair (seek_ref bidxK) s p) as [[[k v] p']| | |]; cbn [bind]; [rewrite IH; reflexivity|reflexivity..].
Qed.

(* ------------------------------------------------------------------ *)
(* key/value stream                                                     *)
(* ------------------------------------------------------------------ *)
Section CodecK.
  Variable bsK : N -> N.
  Variable seek : N -> res N.
  Variable LK : N.
  Hypothesis Hseek : forall p, p < LK -> seek (ref_at bsK p) = Ok p.
  Hypothesis Hsmall : forall p, p < LK -> ref_at bsK p < 18446744073709551616.

  Definition val_at (s : list N) (q : N) (v : list N) : Prop :=
    rd_at s q 4 = Ok (le32 (nlen v)) /\ rd_at s (q + 4) (nlen v) = Ok v.

  Definition ool_inv (w : xwr) (s : list N) (ool : list (option N)) : Prop :=
    forall vi r, nth vi ool None = Some r ->
      r < 18446744073709551616 /\ exists q, seek r = Ok q /\ val_at s q (nth vi (x_vals w) []).

  Lemma ool_inv_app w s t ool : ool_inv w s ool -> ool_inv w (s ++ t) ool.
  Proof.
    intros H vi r E. destruct (H vi r E) as [R [q [Q [V1 V2]]]]. split; [exact R|].
    exists q. split; [exact Q|]. split; apply rd_at_app; assumption.
  Qed.

  Lemma nth_upd_some (ool : list (option N)) i r : forall vi r',
    nth vi (upd ool i (fun _ => Some r)) None = Some r' -> (vi = i /\ r' = r) \/ nth vi ool None = Some r'.
  Proof.
    revert i. induction ool as [|x ool IH]; intros i vi r' H.
    - destruct i; cbn [upd] in H; destruct vi; discriminate.
    - destruct i as [|i]; cbn [upd] in H.
      + destruct vi as [|vi]; cbn [nth] in *; [injection H as <-; left; auto|right; exact H].
      + destruct vi as [|vi]; cbn [nth] in *; [right; exact H|].
        destruct (IH i vi r' H) as [[-> ->]|A]; [left; auto|right; exact A].
  Qed.

  Ltac nl := rewrite ?nlen_app, ?nlen_le, ?nlen_nil; cbn [N.of_nat Pos.of_succ_nat Pos.succ].

  (* the bytes of one pair: at least the two headers *)
  Lemma write_pair_len w pos ool kv bytes ool' :
    write_pair bsK w pos ool kv = (bytes, ool') -> 8 <= nlen bytes.
  Proof.
    unfold write_pair.
    destruct (match prefix_of (nth (fst kv) (x_keys w) []) with Some x => x | None => (0, []) end) as [ty sfx].
    destruct (nth (snd kv) ool None) as [r|]; intro H; apply (f_equal (fun x => nlen (fst x))) in H; cbn [fst] in H;
      rewrite <- H; unfold enc_key, enc_val, enc_ool, le16, le32, le64; nl; lia.
  Qed.

  Lemma write_pair_read w pre ool kv bytes ool' post :
    tables_ok w -> pair_ok w kv -> write_pair bsK w (nlen pre) ool kv = (bytes, ool') -> ool_inv w pre ool ->
    nlen (pre ++ bytes ++ post) <= LK ->
    g_pair seek (pre ++ bytes ++ post) (nlen pre) = Ok (pair_kv w kv, nlen pre + nlen bytes) /\
    ool_inv w (pre ++ bytes) ool'.
  Proof.
    intros [TK TV] [PK PV] W I BL. unfold write_pair in W. unfold pair_kv.
    set (key := nth (fst kv) (x_keys w) []) in *. set (v := nth (snd kv) (x_vals w) []) in *.
    assert (KO : key_ok key) by (rewrite Forall_forall in TK; apply TK, nth_In; exact PK).
    assert (VO : val_ok v) by (rewrite Forall_forall in TV; apply TV, nth_In; exact PV).
    destruct KO as [ty [sfx [P KL]]]. rewrite P in W. unfold val_ok in VO.
    destruct (prefix_of_spec _ _ _ P) as [pfx [EK [SNE [TY [PB [OF [PB2 OF2]]]]]]].
    destruct (nth (snd kv) ool None) as [r|] eqn:EO.
    - (* out of line *)
      assert (EB : bytes = enc_key (ty + c_SQFS_XATTR_FLAG_OOL) sfx ++ enc_ool r) by congruence.
      assert (EL : ool' = ool) by congruence. subst bytes ool'. clear W.
      destruct (I _ _ EO) as [R [q [Q [V1 V2]]]]. fold v in V1, V2.
      split; [|apply ool_inv_app; exact I].
      unfold g_pair, enc_key, enc_ool.
      set (ty' := ty + c_SQFS_XATTR_FLAG_OOL) in *.
      assert (TY' : ty' < 65536) by (unfold ty'; change c_SQFS_XATTR_FLAG_OOL with 256; lia).
      set (S := pre ++ ((le16 ty' ++ le16 (nlen sfx) ++ sfx) ++ le32 8 ++ le64 r) ++ post).
      assert (R1 : rd_at S (nlen pre) 4 = Ok (le16 ty' ++ le16 (nlen sfx))).
      { apply rd_at_split with (a := pre) (b := sfx ++ le32 8 ++ le64 r ++ post);
          [unfold S; repeat rewrite <- app_assoc; reflexivity|reflexivity|unfold le16; nl; reflexivity]. }
      assert (KS : rd16 (skipn 2 (le16 ty' ++ le16 (nlen sfx))) = nlen sfx).
      { unfold le16 at 1. rewrite skipn_le_app. rewrite <- (app_nil_r (le16 _)). apply rd_le16. lia. }
      rewrite R1. cbn [bind]. rewrite KS, rd_le16 by exact TY'. rewrite PB2.
      assert (R2 : rd_at S (nlen pre + 4) (nlen sfx) = Ok sfx).
      { apply rd_at_split with (a := pre ++ le16 ty' ++ le16 (nlen sfx)) (b := le32 8 ++ le64 r ++ post);
          [unfold S; repeat rewrite <- app_assoc; reflexivity|unfold le16; nl; lia|reflexivity]. }
      rewrite R2. cbn [bind].
      assert (R3 : rd_at S (nlen pre + 4 + nlen sfx) 4 = Ok (le32 8)).
      { apply rd_at_split with (a := pre ++ le16 ty' ++ le16 (nlen sfx) ++ sfx) (b := le64 r ++ post);
          [unfold S; repeat rewrite <- app_assoc; reflexivity|unfold le16; nl; lia|unfold le32; nl; reflexivity]. }
      rewrite R3. cbn [bind].
      destruct (N.eqb_spec (N.land ty' c_SQFS_XATTR_FLAG_OOL) 0) as [Z|_]; [exfalso; exact (OF2 Z)|]. cbn [negb].
      assert (R4 : rd_at S (nlen pre + 8 + nlen sfx) 8 = Ok (le64 r)).
      { apply rd_at_split with (a := pre ++ le16 ty' ++ le16 (nlen sfx) ++ sfx ++ le32 8) (b := post);
          [unfold S; repeat rewrite <- app_assoc; reflexivity|unfold le16, le32; nl; lia|unfold le64; nl; reflexivity]. }
      rewrite R4. cbn [bind]. rewrite rd_le64' by exact R. rewrite Q. cbn [bind].
      assert (V1' : rd_at S q 4 = Ok (le32 (nlen v))) by (unfold S; apply rd_at_app; exact V1).
      assert (V2' : rd_at S (q + 4) (nlen v) = Ok v) by (unfold S; apply rd_at_app; exact V2).
      rewrite V1'. cbn [bind]. rewrite rd_le32' by exact VO. rewrite V2'. cbn [bind].
      rewrite EK. f_equal. f_equal. unfold le16, le32, le64. nl. lia.
    - (* in line *)
      assert (EB : bytes = enc_key ty sfx ++ enc_val v) by congruence.
      assert (EL : ool' = (if should_ool v (nth (snd kv) (x_refs w) 0)
                           then upd ool (snd kv) (fun _ => Some (ref_at bsK (nlen pre + nlen (enc_key ty sfx)))) else ool))
        by congruence.
      subst bytes ool'. clear W.
      set (kb := enc_key ty sfx) in *. set (S := pre ++ (kb ++ enc_val v) ++ post).
      assert (TY' : ty < 65536) by lia.
      assert (R1 : rd_at S (nlen pre) 4 = Ok (le16 ty ++ le16 (nlen sfx))).
      { apply rd_at_split with (a := pre) (b := sfx ++ le32 (nlen v) ++ v ++ post);
          [unfold S, kb, enc_key, enc_val; repeat rewrite <- app_assoc; reflexivity|reflexivity|unfold le16; nl; reflexivity]. }
      assert (R2 : rd_at S (nlen pre + 4) (nlen sfx) = Ok sfx).
      { apply rd_at_split with (a := pre ++ le16 ty ++ le16 (nlen sfx)) (b := le32 (nlen v) ++ v ++ post);
          [unfold S, kb, enc_key, enc_val; repeat rewrite <- app_assoc; reflexivity|unfold le16; nl; lia|reflexivity]. }
      assert (R3 : rd_at S (nlen pre + 4 + nlen sfx) 4 = Ok (le32 (nlen v))).
      { apply rd_at_split with (a := pre ++ le16 ty ++ le16 (nlen sfx) ++ sfx) (b := v ++ post);
          [unfold S, kb, enc_key, enc_val; repeat rewrite <- app_assoc; reflexivity|unfold le16; nl; lia|unfold le32; nl; reflexivity]. }
      assert (R4 : rd_at S (nlen pre + 8 + nlen sfx) (nlen v) = Ok v).
      { apply rd_at_split with (a := pre ++ le16 ty ++ le16 (nlen sfx) ++ sfx ++ le32 (nlen v)) (b := post);
          [unfold S, kb, enc_key, enc_val; repeat rewrite <- app_assoc; reflexivity|unfold le16, le32; nl; lia|reflexivity]. }
      assert (KB : nlen kb = 4 + nlen sfx) by (unfold kb, enc_key, le16; nl; lia).
      split.
      + assert (KS : rd16 (skipn 2 (le16 ty ++ le16 (nlen sfx))) = nlen sfx).
        { unfold le16 at 1. rewrite skipn_le_app. rewrite <- (app_nil_r (le16 _)). apply rd_le16. lia. }
        unfold g_pair. fold S. rewrite R1. cbn [bind]. rewrite KS, rd_le16 by exact TY'.
        rewrite PB, R2. cbn [bind]. rewrite R3. cbn [bind].
        rewrite OF, N.eqb_refl. cbn [negb]. rewrite rd_le32' by exact VO. rewrite R4. cbn [bind].
        rewrite EK. f_equal. f_equal. unfold enc_val, le32. nl. lia.
      + (* the reference recorded for a shared long value points at this value *)
        assert (I' : ool_inv w (pre ++ kb ++ enc_val v) ool) by (apply ool_inv_app; exact I).
        destruct (should_ool v (nth (snd kv) (x_refs w) 0)); [|exact I'].
        assert (PL : nlen pre + nlen kb < LK).
        { revert BL. unfold enc_val, le32. nl. lia. }
        intros vi r' E. destruct (nth_upd_some _ _ _ _ _ E) as [[-> ->]|A]; [|exact (I' vi r' A)].
        split; [apply Hsmall; exact PL|]. exists (nlen pre + nlen kb). split; [apply Hseek; exact PL|]. fold v.
        split.
        * apply rd_at_split with (a := pre ++ kb) (b := v);
            [unfold enc_val; repeat rewrite <- app_assoc; reflexivity|nl; reflexivity|unfold le32; nl; reflexivity].
        * apply rd_at_split with (a := pre ++ kb ++ le32 (nlen v)) (b := []);
            [unfold enc_val; repeat rewrite <- app_assoc; rewrite app_nil_r; reflexivity|unfold le32; nl; lia|reflexivity].
  Qed.

  Lemma write_pairs_read w : forall l pre ool bytes ool' post,
    tables_ok w -> Forall (pair_ok w) l -> write_pairs bsK w (nlen pre) ool l = (bytes, ool') -> ool_inv w pre ool ->
    nlen (pre ++ bytes ++ post) <= LK ->
    g_scan seek (pre ++ bytes ++ post) (nlen pre) (length l) = Ok (map (pair_kv w) l, nlen pre + nlen bytes) /\
    ool_inv w (pre ++ bytes) ool' /\ (l <> [] -> 8 <= nlen bytes).
  Proof.
    induction l as [|kv l IH]; intros pre ool bytes ool' post T F W I BL.
    - cbn [write_pairs] in W. injection W as <- <-. split; [cbn [length g_scan map]; rewrite nlen_nil, N.add_0_r; reflexivity|].
      rewrite app_nil_r. split; [exact I|congruence].
    - cbn [write_pairs] in W. inversion F as [|? ? Fk Fl]; subst.
      destruct (write_pair bsK w (nlen pre) ool kv) as [b ool1] eqn:E1.
      destruct (write_pairs bsK w (nlen pre + nlen b) ool1 l) as [b2 ool2] eqn:E2.
      assert (EB : bytes = b ++ b2) by congruence. assert (EO : ool' = ool2) by congruence. subst bytes ool'. clear W.
      assert (BL1 : nlen (pre ++ b ++ b2 ++ post) <= LK) by (rewrite <- app_assoc in BL; exact BL).
      destruct (write_pair_read w pre ool kv b ool1 (b2 ++ post) T Fk E1 I BL1) as [R1 I1].
      rewrite <- nlen_app in E2.
      assert (BL2 : nlen ((pre ++ b) ++ b2 ++ post) <= LK) by (rewrite <- app_assoc; exact BL1).
      destruct (IH (pre ++ b) ool1 b2 ool2 post T Fl E2 I1 BL2) as [R2 [I2 _]].
      split; [|split].
      + cbn [length g_scan map]. rewrite <- app_assoc. rewrite R1. cbn [bind].
        rewrite <- nlen_app. rewrite <- app_assoc in R2. rewrite R2. cbn [bind]. destruct (pair_kv w kv) as [k0 v0]. rewrite !nlen_app. f_equal. f_equal. lia.
      + rewrite app_assoc. exact I2.
      + intros _. pose proof (write_pair_len _ _ _ _ _ _ E1). rewrite nlen_app. lia.
  Qed.

  (* every block of the stream reads back, from the reference its descriptor holds *)
  Lemma write_blocks_read w : forall bl pre ool kv descs post,
    tables_ok w -> Forall (Forall (pair_ok w)) bl -> write_blocks bsK w (nlen pre) ool bl = (kv, descs) ->
    ool_inv w pre ool -> nlen (pre ++ kv ++ post) <= LK ->
    length descs = length bl /\
    forall j b, nth_error bl j = Some b ->
      exists p sz, nth_error descs j = Some (ref_at bsK p, N.of_nat (length b), sz) /\
                   g_scan seek (pre ++ kv ++ post) p (length b) = Ok (map (pair_kv w) b, p + sz) /\
                   p + sz <= nlen (pre ++ kv) /\ (b <> [] -> 8 <= sz).
  Proof.
    induction bl as [|b bl IH]; intros pre ool kv descs post T F W I BL.
    - cbn [write_blocks] in W. injection W as <- <-. split; [reflexivity|]. intros j b H. destruct j; discriminate.
    - cbn [write_blocks] in W. inversion F as [|? ? Fb Fl]; subst.
      destruct (write_pairs bsK w (nlen pre) ool b) as [bytes ool1] eqn:E1.
      destruct (write_blocks bsK w (nlen pre + nlen bytes) ool1 bl) as [rest ds] eqn:E2.
      assert (EK : kv = bytes ++ rest) by congruence.
      assert (ED : descs = (ref_at bsK (nlen pre), N.of_nat (length b), nlen bytes) :: ds) by congruence.
      subst kv descs. clear W.
      assert (BL1 : nlen (pre ++ bytes ++ rest ++ post) <= LK) by (rewrite <- app_assoc in BL; exact BL).
      destruct (write_pairs_read w b pre ool bytes ool1 (rest ++ post) T Fb E1 I BL1) as [R1 [I1 L1]].
      rewrite <- nlen_app in E2.
      assert (BL2 : nlen ((pre ++ bytes) ++ rest ++ post) <= LK) by (rewrite <- app_assoc; exact BL1).
      destruct (IH (pre ++ bytes) ool1 rest ds post T Fl E2 I1 BL2) as [L R2].
      split; [cbn [length]; lia|].
      intros j b' H. destruct j as [|j]; cbn [nth_error] in *.
      + injection H as <-. exists (nlen pre), (nlen bytes). split; [reflexivity|].
        split; [rewrite <- app_assoc; exact R1|].
        split; [rewrite !nlen_app; lia|exact L1].
      + destruct (R2 j b' H) as [p [sz [D [R [B1 B2]]]]]. exists p, sz. split; [exact D|].
        split; [rewrite <- !app_assoc in R; rewrite <- app_assoc; exact R|].
        split; [rewrite <- app_assoc in B1; exact B1|exact B2].
  Qed.
End CodecK.

(* ------------------------------------------------------------------ *)
(* id table and location table                                          *)
(* ------------------------------------------------------------------ *)
Definition seqN (n : N) : list N := map N.of_nat (seq 0 (N.to_nat n)).

Lemma seqN_succ n : seqN (n + 1) = seqN n ++ [n].
Proof.
  unfold seqN. replace (N.to_nat (n + 1)) with (S (N.to_nat n)) by lia.
  rewrite seq_S, map_app. cbn [map Nat.add]. rewrite N2Nat.id. reflexivity.
Qed.

Lemma seqN_len n : nlen (seqN n) = n.
Proof. unfold nlen, seqN. rewrite map_length, seq_length. lia. Qed.

Lemma seqN_nth n k : k < n -> nth_error (seqN n) (N.to_nat k) = Some k.
Proof.
  intro H. unfold seqN. rewrite nth_error_map, nth_error_nth' with (d := O) by (rewrite seq_length; lia).
  rewrite seq_nth by lia. cbn [option_map Nat.add]. rewrite N2Nat.id. reflexivity.
Qed.

Section CodecT.
  Variable bsT : N -> N.
  Variable bidxT : N -> option N.
  Variable nT : N.
  Hypothesis HT : forall k, k < nT -> bidxT (bsT k) = Some k.
  Hypothesis HT0 : bsT 0 = 0.

  Lemma bsT_inj a b : a < nT -> b < nT -> bsT a = bsT b -> a = b.
  Proof. intros A B E. pose proof (HT a A) as X. rewrite E, (HT b B) in X. congruence. Qed.

  Lemma last_map_seqN m : 1 <= m -> last (map bsT (seqN m)) 0 = bsT (m - 1).
  Proof.
    intro H. replace m with (m - 1 + 1) at 1 by lia. rewrite seqN_succ, map_app. cbn [map]. apply last_last.
  Qed.

  Ltac Zify.zify_post_hook ::= Z.div_mod_to_equations.

  (* the location table holds the start of every block of the id stream, and nothing is stored outside it
     (tot = number of descriptors, cap = number of slots that alloc_location_table provides); the block indices
     that occur are 0 .. 16 * tot / 8192 *)
  Lemma id_locs_spec tot cap :
    1 <= tot -> cap = 16 * tot / 8192 + (if (16 * tot) mod 8192 =? 0 then 0 else 1) ->
    16 * tot / 8192 < nT ->
    forall n written,
      written mod 16 = 0 -> written + 16 * N.of_nat n = 16 * tot ->
      id_locs bsT true cap n written (map bsT (seqN (N.min (written / 8192 + 1) cap))) = Ok (map bsT (seqN cap)).
  Proof.
    intros Ht Hc HnT. assert (C1 : 1 <= cap) by (destruct ((16 * tot) mod 8192 =? 0) eqn:E; [apply N.eqb_eq in E|]; lia).
    induction n as [|n IH]; intros written M B.
    - cbn [id_locs]. f_equal. f_equal. f_equal.
      destruct ((16 * tot) mod 8192 =? 0) eqn:E; [apply N.eqb_eq in E|apply N.eqb_neq in E]; lia.
    - cbn [id_locs]. change sizeof_sqfs_xattr_id_t with 16. change META with 8192.
      assert (Hlt : written / 8192 + 1 <= cap).
      { destruct ((16 * tot) mod 8192 =? 0) eqn:E; [apply N.eqb_eq in E|apply N.eqb_neq in E]; lia. }
      rewrite N.min_l by exact Hlt.
      rewrite last_map_seqN by lia. replace (written / 8192 + 1 - 1) with (written / 8192) by lia.
      assert (M' : (written + 16) mod 16 = 0) by lia.
      assert (B' : written + 16 + 16 * N.of_nat n = 16 * tot) by lia.
      specialize (IH (written + 16) M' B').
      destruct (N.eq_dec ((written + 16) / 8192) (written / 8192)) as [Same|Cross].
      + rewrite Same, N.eqb_refl. rewrite Same in IH. rewrite N.min_l in IH by exact Hlt. exact IH.
      + assert (Nx : (written + 16) / 8192 = written / 8192 + 1) by lia.
        rewrite Nx in *.
        destruct (N.eqb_spec (bsT (written / 8192 + 1)) (bsT (written / 8192))) as [E|_];
          [apply bsT_inj in E; lia|].
        unfold nlen at 1. rewrite map_length. fold (nlen (seqN (written / 8192 + 1))). rewrite seqN_len.
        destruct (N.ltb_spec (written / 8192 + 1) cap) as [L|L].
        * rewrite N.min_l in IH by lia. rewrite seqN_succ, map_app in IH. exact IH.
        * rewrite N.min_r in IH by lia. replace (written / 8192 + 1) with cap by lia. exact IH.
  Qed.
End CodecT.

Lemma nth_map_none {A} (l : list A) vi : nth vi (map (fun _ => @None N) l) None = None.
Proof. revert vi. induction l as [|x l IH]; intro vi; destruct vi; cbn; auto. Qed.

Lemma enc_desc_len d : nlen (enc_desc d) = 16.
Proof. destruct d as [[r c] sz]. unfold enc_desc, le64, le32. rewrite !nlen_app, !nlen_le. reflexivity. Qed.

Lemma flat_desc_len l : nlen (flat_map enc_desc l) = 16 * nlen l.
Proof.
  induction l as [|d l IH]; [reflexivity|]. cbn [flat_map]. rewrite nlen_app, enc_desc_len, IH, nlen_cons. lia.
Qed.

Lemma rd_desc_at descs : forall j d, nth_error descs j = Some d ->
  rd_at (flat_map enc_desc descs) (16 * N.of_nat j) 16 = Ok (enc_desc d).
Proof.
  intros j d H. apply nth_error_split in H. destruct H as [l1 [l2 [-> L]]].
  rewrite flat_map_app. cbn [flat_map].
  apply rd_at_split with (a := flat_map enc_desc l1) (b := flat_map enc_desc l2); [reflexivity| |apply enc_desc_len].
  rewrite flat_desc_len. unfold nlen. rewrite L. reflexivity.
Qed.

(* ------------------------------------------------------------------ *)
(* flush -> read, C01's reader (rd_all) with relativised hypotheses       *)
(* ------------------------------------------------------------------ *)
Section FlushRead.
  Variables (bsK bsT : N -> N) (bidxK bidxT : N -> option N) (nK nT : N).
  Hypothesis HK : forall k, k < nK -> bidxK (bsK k) = Some k /\ bsK k < 281474976710656.
  Hypothesis HT : forall k, k < nT -> bidxT (bsT k) = Some k.
  Hypothesis HT0 : bsT 0 = 0.

  Ltac Zify.zify_post_hook ::= Z.div_mod_to_equations.

  Lemma ref_at_small_rel p : p < nK * META -> ref_at bsK p < 18446744073709551616.
  Proof.
    change META with 8192. intro H. unfold ref_at. change META with 8192.
    assert (K : p / 8192 < nK) by lia. destruct (HK _ K) as [_ B]. lia.
  Qed.

  Lemma seek_ref_at_rel p : p < nK * META -> seek_ref bidxK (ref_at bsK p) = Ok p.
  Proof.
    change META with 8192. intro H. unfold seek_ref, ref_at. change META with 8192.
    assert (K : p / 8192 < nK) by lia. destruct (HK _ K) as [HKk _].
    assert (E1 : (bsK (p / 8192) * 65536 + p mod 8192) mod 65536 = p mod 8192) by lia.
    assert (E2 : (bsK (p / 8192) * 65536 + p mod 8192) / 65536 = bsK (p / 8192)) by lia.
    rewrite E1, E2, HKk. destruct (N.leb_spec 8192 (p mod 8192)); [lia|].
    f_equal. lia.
  Qed.

  Theorem flush_read_rel w :
    tables_ok w -> Forall (Forall (pair_ok w)) (x_blocks w) -> Forall (fun b => b <> []) (x_blocks w) ->
    x_blocks w <> [] ->
    nlen (x_blocks w) < NOIDX -> Forall (fun b => nlen b < 4294967296) (x_blocks w) ->
    16 * nlen (x_blocks w) / 8192 < nT ->
    (forall img, flush bsK bsT true w = Ok (Some img) -> nlen (xi_kv img) <= nK * META) ->
    exists img, flush bsK bsT true w = Ok (Some img) /\
      forall j b, nth_error (x_blocks w) j = Some b ->
        rd_all bidxK bidxT img (N.of_nat j) = Ok (map (pair_kv w) b).
  Proof.
    intros T F NEB NE NB CB HnT HB. unfold flush in *. destruct (x_blocks w) as [|b0 bl0] eqn:EB; [congruence|]. rewrite <- EB in *.
    destruct (write_blocks bsK w 0 (map (fun _ => None) (x_vals w)) (x_blocks w)) as [kv descs] eqn:EW.
    set (tot := nlen (x_blocks w)) in *.
    assert (Tpos : 1 <= tot).
    { unfold tot. rewrite EB. rewrite nlen_cons. lia. }
    assert (LC : loc_count tot = 16 * tot / 8192 + (if (16 * tot) mod 8192 =? 0 then 0 else 1)).
    { unfold loc_count. change sizeof_sqfs_xattr_id_t with 16. change META with 8192. rewrite (N.mul_comm tot 16). reflexivity. }
    pose proof (id_locs_spec bsT bidxT nT HT HT0 tot (loc_count tot) Tpos LC HnT (length descs) 0 eq_refl) as IL.
    assert (C1 : 1 <= loc_count tot).
    { rewrite LC. destruct ((16 * tot) mod 8192 =? 0) eqn:E; [apply N.eqb_eq in E|]; lia. }
    change (0 / 8192 + 1) with 1 in IL. rewrite N.min_l in IL by exact C1.
    change (map bsT (seqN 1)) with [bsT 0] in IL. rewrite HT0 in IL.
    (* the length of descs does not need the read-back *)
    assert (LD0 : length descs = length (x_blocks w)).
    { clear - EW. revert EW. generalize (map (fun _ : list N => @None N) (x_vals w)) as ool. generalize 0 as pos.
      revert kv descs. induction (x_blocks w) as [|b bl IH]; intros kv descs pos ool EW.
      - cbn [write_blocks] in EW. injection EW as <- <-. reflexivity.
      - cbn [write_blocks] in EW. destruct (write_pairs bsK w pos ool b) as [bytes ool1].
        destruct (write_blocks bsK w (pos + nlen bytes) ool1 bl) as [rest ds] eqn:E2.
        injection EW as <- <-. cbn [length]. f_equal. exact (IH _ _ _ _ E2). }
    rewrite IL in * by (rewrite LD0; unfold tot, nlen; lia). cbn [bind] in *.
    specialize (HB _ eq_refl). cbn [xi_kv] in HB.
    assert (I0 : ool_inv (seek_ref bidxK) w [] (map (fun _ => None) (x_vals w))).
    { intros vi r E. rewrite nth_map_none in E. discriminate. }
    change 0 with (nlen (@nil N)) in EW.
    assert (BL : nlen ([] ++ kv ++ []) <= nK * META) by (cbn [app]; rewrite app_nil_r; exact HB).
    destruct (write_blocks_read bsK (seek_ref bidxK) (nK * META) seek_ref_at_rel ref_at_small_rel
                w (x_blocks w) [] _ kv descs [] T F EW I0 BL) as [LD RD].
    cbn [app] in RD. rewrite app_nil_r in RD.
    eexists. split; [reflexivity|].
    intros j b Hj. unfold rd_all.
    assert (Jlt : N.of_nat j < tot).
    { unfold tot, nlen.
      assert (j < length (x_blocks w))%nat by (apply nth_error_Some; congruence). lia. }
    destruct (N.eqb_spec (N.of_nat j) NOIDX) as [E|_]; [lia|].
    destruct (RD j b Hj) as [p [sz [D [R [PB0 PB]]]]].
    assert (Bne : b <> []) by (rewrite Forall_forall in NEB; apply NEB; eapply nth_error_In; exact Hj).
    specialize (PB Bne). apply g_scan_pairs in R.
    unfold rd_desc. cbn [xi_num xi_locs xi_ids xi_kv].
    destruct (N.leb_spec tot (N.of_nat j)) as [L|_]; [lia|].
    change sizeof_sqfs_xattr_id_t with 16. change META with 8192.
    assert (Kc : N.of_nat j * 16 / 8192 < loc_count tot).
    { rewrite LC. destruct ((16 * tot) mod 8192 =? 0) eqn:E; [apply N.eqb_eq in E|apply N.eqb_neq in E]; lia. }
    rewrite nth_error_map, (seqN_nth _ _ Kc). cbn [option_map].
    rewrite HT by lia.
    replace (N.of_nat j * 16 / 8192 * 8192 + (N.of_nat j * 16) mod 8192) with (16 * N.of_nat j) by lia.
    rewrite (rd_desc_at descs j _ D). cbn [bind]. unfold enc_desc.
    assert (PK : p < nK * META) by lia.
    rewrite rd_le64 by (apply ref_at_small_rel; exact PK).
    unfold le64 at 1. rewrite skipn_le_app.
    assert (Cb : N.of_nat (length b) < 4294967296).
    { rewrite Forall_forall in CB. apply (CB b). eapply nth_error_In. exact Hj. }
    rewrite rd_le32 by exact Cb. cbn [bind].
    rewrite (seek_ref_at_rel _ PK). cbn [bind]. rewrite Nat2N.id. rewrite rd_pairs_g. exact R.
  Qed.
End FlushRead.

(* ---- the finished blocks of a writer run are never empty (xw_end adds a block only for a non-empty set) ---- *)
Definition blocks_ne (w : xwr) : Prop := Forall (fun b : list (nat * nat) => b <> []) (x_blocks w).

Lemma add_kv_blocks w k v w' : xw_add_kv w k v = Ok w' -> x_blocks w' = x_blocks w.
Proof.
  unfold xw_add_kv. destruct (prefix_of k) as [[ty sfx]|]; [|discriminate].
  destruct (KEY_MAX <? nlen sfx); [discriminate|].
  destruct (get_index (x_keys w) k) as [keys ki]. destruct (get_index (x_vals w) v) as [vals vi].
  destruct (scan_cur (x_cur w) ki vi 0); intro H; injection H as <-; reflexivity.
Qed.

Lemma add_all_blocks : forall kvs w w', xw_add_all w kvs = Ok w' -> x_blocks w' = x_blocks w.
Proof.
  induction kvs as [|[k v] r IH]; intros w w' H; cbn [xw_add_all] in H; [injection H as <-; reflexivity|].
  destruct (xw_add_kv w k v) as [w1| | |] eqn:E; cbn [bind] in H; try discriminate.
  rewrite (IH _ _ H). exact (add_kv_blocks _ _ _ _ E).
Qed.

Lemma insert_pair_ne p l : insert_pair p l <> [].
Proof. destruct l as [|x r]; cbn [insert_pair]; [discriminate|]. destruct (pair_leb p x); discriminate. Qed.

Lemma sort_pairs_ne l : l <> [] -> sort_pairs l <> [].
Proof. destruct l as [|x r]; [congruence|]. intros _. cbn [sort_pairs]. apply insert_pair_ne. Qed.

Lemma end_blocks_ne w : blocks_ne w -> blocks_ne (fst (xw_end w)).
Proof.
  unfold blocks_ne, xw_end. intro H. destruct (x_cur w) as [|c r] eqn:EC; [exact H|].
  destruct (find_block (sort_pairs (c :: r)) (x_blocks w) 0); cbn [fst x_blocks]; [exact H|].
  apply Forall_app. split; [exact H|]. constructor; [|constructor]. apply sort_pairs_ne. discriminate.
Qed.

Lemma xw_set_blocks_ne w kvs w' i : blocks_ne w -> xw_set w kvs = Ok (w', i) -> blocks_ne w'.
Proof.
  intros H E. unfold xw_set in E. destruct (xw_add_all (xw_begin w) kvs) as [w1| | |] eqn:E1; cbn [bind] in E; try discriminate.
  injection E as E. assert (B1 : blocks_ne w1).
  { unfold blocks_ne. rewrite (add_all_blocks _ _ _ E1). exact H. }
  pose proof (end_blocks_ne w1 B1) as B2. rewrite E in B2. exact B2.
Qed.

Lemma xw_sets_blocks_ne : forall sets w w' idxs, blocks_ne w -> xw_sets w sets = Ok (w', idxs) -> blocks_ne w'.
Proof.
  induction sets as [|s r IH]; intros w w' idxs H E; cbn [xw_sets] in E; [injection E as <- _; exact H|].
  destruct (xw_set w s) as [[w1 i1]| | |] eqn:E1; cbn [bind] in E; try discriminate.
  destruct (xw_sets w1 r) as [[w2 is]| | |] eqn:E2; cbn [bind] in E; try discriminate.
  injection E as <- _. exact (IH _ _ _ (xw_set_blocks_ne _ _ _ _ H E1) E2).
Qed.

(* ------------------------------------------------------------------ *)
(* xattr_rt_rel: the statement of Properties_C01.xattr_rt with satisfiable hypotheses                                *)
(* ------------------------------------------------------------------ *)
(* nK / nT bound the metadata blocks the two flushed streams use: "seeking to the start of block k finds block k" and
   "block starts fit 48 bits" are asked of those blocks only. *)
Theorem xattr_rt_rel :
  forall (bsK bsT : N -> N) (bidxK bidxT : N -> option N) (nK nT : N),
  (forall k, k < nK -> bidxK (bsK k) = Some k /\ bsK k < 281474976710656) ->
  (forall k, k < nT -> bidxT (bsT k) = Some k) -> bsT 0 = 0 ->
  forall sets w idxs,
    Forall set_ok sets -> xw_sets xw_empty sets = Ok (w, idxs) -> nlen (x_blocks w) < NOIDX ->
    (forall img, flush bsK bsT true w = Ok (Some img) -> nlen (xi_kv img) <= nK * META) ->
    16 * nlen (x_blocks w) / 8192 < nT ->
    length idxs = length sets /\
    match flush bsK bsT true w with
    | Ok None => forall i kvs, nth_error sets i = Some kvs -> kvs = [] /\ nth_error idxs i = Some NOIDX
    | Ok (Some img) =>
        forall i kvs idx, nth_error sets i = Some kvs -> nth_error idxs i = Some idx ->
          exists l, rd_all bidxK bidxT img idx = Ok l /\ Permutation l (set_spec kvs)
    | _ => False
    end.
Proof.
  intros bsK bsT bidxK bidxT nK nT HK HT HT0 sets w idxs F E NB HB HnT. destruct winv_empty as [I0 B0].
  destruct (xw_sets_spec sets xw_empty I0 B0 F) as [w' [idxs' [E' [I [BL [_ [L D]]]]]]].
  rewrite E in E'. injection E' as <- <-. split; [exact L|].
  assert (BNE : blocks_ne w) by (apply (xw_sets_blocks_ne sets xw_empty w idxs); [constructor|exact E]).
  destruct (x_blocks w) as [|b0 bl0] eqn:EB.
  - unfold flush. rewrite EB. intros i kvs Hs.
    assert (Hi : exists idx, nth_error idxs i = Some idx).
    { destruct (nth_error idxs i) eqn:X; [eauto|]. apply nth_error_None in X.
      assert (i < length sets)%nat by (apply nth_error_Some; congruence). lia. }
    destruct Hi as [idx Hi]. destruct (D i kvs idx Hs Hi) as [[A B]|[k [blk [_ [Nb _]]]]].
    + subst. auto.
    + rewrite EB in Nb. destruct k; discriminate.
  - assert (NE : x_blocks w <> []) by (rewrite EB; discriminate). rewrite <- EB in *.
    destruct I as [KN VN T CR CK BR].
    destruct (flush_read_rel bsK bsT bidxK bidxT nK nT HK HT HT0 w T BR BNE NE NB BL HnT HB) as [img [EF RD]].
    rewrite EF. intros i kvs idx Hs Hi.
    destruct (D i kvs idx Hs Hi) as [[A B]|[k [blk [Ek [Nb P]]]]].
    + subst. exists []. split; [reflexivity|]. reflexivity.
    + subst idx. exists (kmap w blk). split; [exact (RD k blk Nb)|exact P].
Qed.
