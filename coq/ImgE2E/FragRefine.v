(* ImgE2E — the model of the REAL fragment table loader (coq/C05/Super.v frag_table_read = sqfs_frag_table_read +
   sqfs_read_table: flag / sentinel / window tests, allocation arithmetic, location list, one seek + read per block
   inside [directory_table_start, min (export_table_start, id_table_start))) on the image write_image leaves returns the
   table sqfs_frag_table_write was given; C10's frag_entries (what data_reader.c keeps of it) turns it back into the
   (start offset, size word) list of the block processor.  Uses ImgReader.IdRefine.read_table_written (sqfs_read_table on
   what sqfs_write_table appended, anywhere in an image). *)
From Coq Require Import List NArith ZArith Lia Bool ZifyBool ZifyNat ZifyN.
From SqfsV Require Import Base.Bytes Gen.Constants C03.Common C03.ListN C03.MetaModel C03.TableModel.
From SqfsV Require C14.SuperModel.
From SqfsV Require Import C01.GenC01 C01.Res C01.InodeModel Img.TreeModel.
From SqfsV Require Import Image.FinishModel Image.ReaderModel.
From SqfsV Require Image.FinishProofs Image.ImageProofs.
From SqfsV Require Import ImgReader.MetaRefine ImgReader.Embed ImgReader.ReadImage ImgReader.IdRefine ImgReader.ImageLaid.
From SqfsV Require Import C05.RBase C05.GenC05 C05.Meta C05.Super.
From SqfsV Require C10.DataModel.
From SqfsV Require Import ImgE2E.PackAll ImgE2E.Hyps.
Import ListNotations.
Local Open Scope N_scope.

Lemma skipn_exact {A} (a b : list A) n : length a = n -> skipn n (a ++ b) = b.
Proof. intros <-. induction a; [reflexivity|assumption]. Qed.

(* what data_reader.c keeps of the raw table *)
Lemma frag_entries_bytes : forall l rest,
  Forall (fun f : N * N => fst f < 2 ^ 64 /\ snd f < 2 ^ 32) l ->
  DataModel.frag_entries (length l) (frag_table_bytes l ++ rest) = l.
Proof.
  induction l as [|[a b] l IH]; intros rest F; [reflexivity|].
  inversion F as [|? ? [Ha Hb] Fl]; subst. cbn [fst snd] in Ha, Hb.
  cbn [length DataModel.frag_entries]. unfold frag_table_bytes in *. cbn [flat_map]. unfold frag_entry. cbn [fst snd].
  rewrite <- !app_assoc.
  f_equal.
  - f_equal.
    + unfold rd64, le64. apply rd_le. exact Ha.
    + replace (skipn 8 (le64 a ++ le32 b ++ le32 0 ++ flat_map frag_entry l ++ rest))
        with (le32 b ++ le32 0 ++ flat_map frag_entry l ++ rest).
      * unfold rd32, le32. apply rd_le. exact Hb.
      * symmetry. apply (skipn_exact (le64 a)). apply le_length.
  - change (N.to_nat sizeof_sqfs_fragment_t) with 16%nat.
    replace (skipn 16 (le64 a ++ le32 b ++ le32 0 ++ flat_map frag_entry l ++ rest))
      with (flat_map frag_entry l ++ rest).
    + apply IH. exact Fl.
    + symmetry. rewrite (app_assoc (le32 b)), (app_assoc (le64 a)). apply skipn_exact. rewrite !app_length. unfold le64, le32. rewrite !le_length. reflexivity.
Qed.

Lemma frag_len l : cl (frag_table_bytes l) = nlen l * 16.
Proof.
  induction l as [|f r IH]; [reflexivity|].
  unfold frag_table_bytes in *. cbn [flat_map]. rewrite ListN.lenN_app, IH. unfold frag_entry.
  rewrite !ListN.lenN_app. unfold le64, le32, Common.lenN, nlen. rewrite !le_length. cbn [length]. lia.
Qed.

Lemma frag_table_of_raw_bytes l :
  Forall (fun f : N * N => fst f < 2 ^ 64 /\ snd f < 2 ^ 32) l ->
  frag_table_of_raw (frag_table_bytes l) = l.
Proof.
  intro F. unfold frag_table_of_raw.
  change (@RBase.lenN N) with (@Common.lenN N). rewrite frag_len.
  change sizeof_sqfs_fragment_t with 16. rewrite N.div_mul by discriminate.
  unfold nlen. rewrite Nat2N.id. rewrite <- (app_nil_r (frag_table_bytes l)). apply frag_entries_bytes. exact F.
Qed.

Section FR.
  Variable compress : list N -> cres.
  Variable uncompress : list N -> option (list N).
  Hypothesis compress_ok :
    forall b c, compress b = CData c -> cl c <= cl b /\ uncompress c = Some b.
  Variable limit : N.
  Hypothesis limit_ok : limit <= 65535.
  Variable cfg : wcfg.
  Variable inp : winput.
  Variable w : wimage.
  Hypothesis Hw : write_image compress limit cfg inp = Res.Ok w.
  Hypothesis Hdom : ImageProofs.image_domain cfg inp = true.
  Hypothesis Hfit : ImageProofs.image_fits w = true.
  Hypothesis Hsmall : cl (image_bytes w) < two63.
  Variable uc : list N -> N -> res (list N).
  Hypothesis uc_ok : uc_meets uncompress uc.

  Notation sf := (w_super w).

  Theorem frag_table_read_written fuel :
    16 * nlen (in_frags inp) <= alloc_limit -> (frag_fuel (nlen (in_frags inp)) <= fuel)%nat ->
    frag_table_read uc (image_bytes w) fuel (sup_of sf) = Ok (frag_table_bytes (in_frags inp)).
  Proof.
    intros Hal Hfu.
    pose proof (ImageProofs.layout compress limit cfg inp w Hw Hdom) as [L1 L2 L3 L4 L5 L6 L7 L8].
    pose proof (ImageProofs.order_facts compress uncompress compress_ok limit limit_ok cfg inp w Hw Hdom)
      as (O1 & O2 & O3 & O4 & O5 & O6 & O7 & O8).
    destruct (ImageProofs.frag_span compress uncompress compress_ok limit limit_ok cfg inp w Hw Hdom) as [_ FS].
    destruct (ImageProofs.export_span compress uncompress compress_ok limit limit_ok cfg inp w Hw Hdom) as [_ ES].
    destruct (ImageProofs.fit_facts w Hfit) as [_ BU].
    change (2 ^ 64) with 18446744073709551616 in BU.
    assert (NT : SuperModel.NO_TABLE = 18446744073709551615) by reflexivity.
    unfold frag_table_read.
    cbn [sup_of s_flags s_frag_start s_frag_count s_bytes_used s_dir_start s_id_start s_export_start].
    destruct L3 as [(Z & _ & S & _)|(Z & A & C)].
    - (* no fragments *)
      rewrite Z. cbn [frag_table_bytes flat_map].
      destruct (negb (N.land (SuperModel.s_flags sf) c_SQFS_FLAG_NO_FRAGMENTS =? 0)); [reflexivity|].
      rewrite S. reflexivity.
    - destruct (FS Z) as [F1 F2].
      assert (Hn1 : 1 <= nlen (in_frags inp)).
      { destruct (in_frags inp); [congruence|]. unfold nlen. cbn [length]. lia. }
      assert (TB : 1 <= table_blocks (SuperModel.s_frag_count sf) 16).
      { rewrite C. unfold table_blocks, META_SIZE. replace (8192 - 1) with 8191 by reflexivity.
        assert (8192 <= nlen (in_frags inp) * 16 + 8191) by lia.
        pose proof (N.div_le_mono 8192 (nlen (in_frags inp) * 16 + 8191) 8192 ltac:(lia) H) as Q.
        rewrite N.div_same in Q by lia. exact Q. }
      (* the flag *)
      rewrite (ImageProofs.flags_eq compress limit cfg inp w Hw).
      destruct (ImageProofs.final_flags_bits (negb (ImageProofs.is_nil (in_opts inp))) (ImageProofs.is_nil (in_frags inp))
                  (existsb frag_compressed (in_frags inp)) (ImageProofs.is_some (w_export w))
                  (if c_no_xattr cfg then None else Some (ImageProofs.is_some (in_xattr inp)))) as (_ & B2 & _).
      cbv zeta in B2. unfold ImageProofs.flags_of. rewrite B2.
      assert (Zn : ImageProofs.is_nil (in_frags inp) = false) by (destruct (in_frags inp); [congruence|reflexivity]).
      rewrite Zn.
      unfold FinishProofs.o_export, FinishProofs.o_id, FinishProofs.o_xattr, FinishProofs.o_frag in *.
      unfold max64, two64.
      destruct (N.eqb_spec (SuperModel.s_frag_start sf) (18446744073709551616 - 1)) as [E|_]; [lia|].
      destruct (N.eqb_spec (SuperModel.s_frag_count sf) 0) as [E|_]; [lia|].
      destruct (N.leb_spec (SuperModel.s_bytes_used sf) (SuperModel.s_frag_start sf)) as [E|_]; [lia|].
      destruct (N.ltb_spec (SuperModel.s_frag_start sf) (SuperModel.s_dir_start sf)) as [E|_]; [lia|].
      destruct (N.leb_spec (SuperModel.s_id_start sf) (SuperModel.s_frag_start sf)) as [E|_]; [lia|].
      unfold sz_mul_ov, two64. change sizeof_sqfs_fragment_t with 16.
      destruct (N.ltb_spec (SuperModel.s_frag_count sf * 16) 18446744073709551616) as [_|E]; [|unfold alloc_limit in Hal; lia].
      pose proof (frag_len (in_frags inp)) as BL.
      replace (SuperModel.s_frag_count sf * 16) with (cl (frag_table_bytes (in_frags inp))) by (rewrite BL, C; reflexivity).
      apply (read_table_written compress uncompress compress_ok uc uc_ok (image_bytes w) Hsmall
               (SuperModel.s_dir_start sf + cl (si_dtbl (w_img w))) (frag_table_bytes (in_frags inp)) (w_fragb w)
               (SuperModel.s_frag_start sf) (SuperModel.s_dir_start sf) _ fuel A).
      + exact (ImageProofs.frag_bytes_ne inp Z).
      + rewrite (ImageProofs.split_frag compress limit cfg inp w Hw). apply window_mid.
        exact (ImageProofs.len_pre_frag compress uncompress compress_ok limit limit_ok cfg inp w Hw Hdom).
      + lia.
      + assert (B : SuperModel.s_frag_start sf <= SuperModel.s_export_start sf).
        { destruct L4 as [(_ & _ & ->)|(l & dwr & Ze & _)]; [rewrite NT; lia|]. destruct (ES l Ze) as [E1 _]. lia. }
        destruct (SuperModel.s_export_start sf <? SuperModel.s_id_start sf); lia.
      + rewrite BL. lia.
      + rewrite BL. unfold frag_fuel in Hfu. replace (nlen (in_frags inp) * 16) with (16 * nlen (in_frags inp)) by lia.
        exact Hfu.
  Qed.
End FR.
