(* ImgE2E — the decidable hypotheses of pack_all_reads_back as ONE boolean on (configuration, input, run); definitions
   only (the tie's driver evaluates it on every case).

   about the INPUT   input_okb (ImgPost.InputOk: field ranges of every add, path components C strings of 1..65536 bytes,
                     #adds + #components + 3 < 2^32, block size <> 0); every key has a known prefix and at most 65535
                     bytes behind it, values < 2^32 bytes, < 2^32 pairs per node ([sets_okb]); every file shorter than
                     2^31 - 1 bytes (the positional read of data_reader.c clamps its size argument); compressor id 1..6,
                     the option bytes are nothing or one uncompressed metadata block; xattrs not switched off;
                     SCRATCH_SIZE / 2 > 0
   about the RUN     tree_alloc_okb (block lists / targets / entry names below the reader's allocation limit), the fragment
                     table is at most 2 GiB, image_fits (32 / 16 bit
                     location fields of the metadata: trace_fits; bytes_used < 2^64), the file is shorter than 2^63 bytes,
                     fewer than 2^32 - 1 xattr blocks, xattr section shorter than 2^48 bytes.
   PROVED, not assumed (they were run-level hypotheses of the layer theorems): every file inode pack_files leaves fits its
   form and every xattr index is 32 bit (ImgPost's attached_okb: BodyOk.pack_body_okb, Compose.xa_bound), every fragment
   table entry fits its fields (image_domain's frag_okb: BodyOk.frag_table_okb), the xattr section header lies inside the
   section (image_domain's xattr_okb: Facts.xflush_xattr_okb). *)
From Coq Require Import List NArith ZArith Bool.
From SqfsV Require Import Base.Bytes Gen.Constants C03.Common.
From SqfsV Require C14.SuperModel.
From SqfsV Require Import C01.GenC01 C01.InodeModel C01.XattrModel Img.TreeModel.
From SqfsV Require C01.Res.
From SqfsV Require Import C11.StrOrder C11.FstreeModel C11.PostModel.
From SqfsV Require Import ImgPost.Bridge ImgPost.InputOk ImgPost.PathsModel.
From SqfsV Require Import C08.DedupModel.
From SqfsV Require Import Image.FinishModel Image.FinishProofs Image.ImageProofs.
From SqfsV Require Import ImgReader.Embed ImgReader.ReadImage ImgReader.AllocBound.
From SqfsV Require C05.RBase.
From SqfsV Require Import ImgE2E.PackAll.
Import ListNotations.
Local Open Scope N_scope.

Definition kv_okb (kv : list N * list N) : bool :=
  match prefix_of (fst kv) with
  | Some (_, sfx) => (Res.nlen sfx <=? 65535) && (Res.nlen (snd kv) <? 4294967296)
  | None => false
  end.
Definition set_okb (kvs : list (list N * list N)) : bool := forallb kv_okb kvs && (Res.nlen kvs <? 4294967296).

Definition e2e_okb (half : nat) (cfg : wcfg) (pi : pinput) (r : prun) : bool :=
  let pp := r_pp r in
  let inp := r_inp r in
  let w := r_w r in
  (* input *)
  input_okb (c_block_size cfg) (pi_defaults pi) (pi_ops pi) &&
  forallb set_okb (map (pi_xattrs pi) (xattr_paths pp)) &&
  forallb (fun p => N.of_nat (length (snd (pi_contents pi p))) <? 2147483647) (pp_files pp) &&
  (c_SQFS_COMP_MIN <=? c_comp_id cfg) && (c_comp_id cfg <=? c_SQFS_COMP_MAX) &&
  opts_okb (c_comp_id cfg) (pi_opts pi) && negb (c_no_xattr cfg) && Nat.ltb 0 half &&
  (* run *)
  tree_alloc_okb (in_tree inp) &&
  (16 * Res.nlen (in_frags inp) <=? RBase.alloc_limit) &&
  image_fits w && (lenN (image_bytes w) <? RBase.two63) &&
  (Res.nlen (x_blocks (r_xw r)) <? NOIDX) && (lenN (w_xattrb w) <? 281474976710656).

(* loop bounds of the reader models that suffice for the image of a run *)
Definition e2e_depth (r : prun) : nat := length (pp_inodes (r_pp r)).
Definition e2e_efuel (r : prun) : nat := S (max_entries (in_tree (r_inp r))).
Definition frag_fuel (n : N) : nat := (2 * N.to_nat ((16 * n + 8191) / 8192))%nat.
Definition e2e_fuel (r : prun) : nat :=
  Nat.max (reader_fuel (si_itbl (w_img (r_w r))) (si_dtbl (w_img (r_w r))))
          (frag_fuel (Res.nlen (in_frags (r_inp r)))).
