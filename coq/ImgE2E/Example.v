(* ImgE2E — non-vacuity of pack_all_reads_back: one concrete packing run on which every hypothesis holds and read_all
   returns the inputs.  Block size 4096, constant checksum (every block and tail collides), C08's toy run-length data
   compressor, the zero-run-length metadata compressor.

     d/          directory (implicit: created by the first add)
     d/a         4096 x 'A' ++ 5 bytes: one compressed data block + a tail end in the fragment block;  user.a = "1"
     d/c         the same bytes: shares block start and fragment reference with d/a;                    no attributes
     l           hard link to "d/a" (the map file also names pairs for "l": recorded by apply_dfs, never stored)
     s           symbolic link to "d/a";  trusted.t = 20 x '2', user.a = "12" *)
From Coq Require Import List NArith ZArith Bool.
From SqfsV Require Import Base.Bytes Gen.Constants C03.Common.
From SqfsV Require C14.SuperModel.
From SqfsV Require Import C01.GenC01 C01.InodeModel C01.XattrModel Img.TreeModel.
From SqfsV Require Import C11.StrOrder C11.FstreeModel C11.PostModel.
From SqfsV Require Import ImgPost.Bridge ImgPost.PathsModel ImgPost.InputOk ImgPost.PathsProofs.
From SqfsV Require Import C08.DedupModel C08.DedupTheorems.
From SqfsV Require Import Image.FinishModel Image.FinishProofs Image.ImageProofs.
From SqfsV Require Import ImgReader.Embed ImgReader.ReadImage.
From SqfsV Require C05.RBase C05.Super.
From SqfsV Require Import ImgE2E.PackAll ImgE2E.Hyps.
Import ListNotations.
Local Open Scope N_scope.

Definition n_d : name := [100].
Definition n_a : name := [97].
Definition n_c : name := [99].
Definition n_l : name := [108].
Definition n_s : name := [115].
Definition ex_A : list N := repeat 65 4096 ++ [1; 2; 3; 4; 5].
Definition k_a : list N := [117; 115; 101; 114; 46; 97].                         (* "user.a" *)
Definition k_t : list N := [116; 114; 117; 115; 116; 101; 100; 46; 116].        (* "trusted.t" *)

Definition ex_ops : list op :=
  [ (mkEnt [n_d; n_a] FReg 420 1000 100 1600000000%Z 0 false, None);
    (mkEnt [n_d; n_c] FReg 384 0 0 5%Z 0 false, None);
    (mkEnt [n_l] FLnk 0 0 0 0%Z 0 true, Some [100; 47; 97]);                    (* l -> "d/a" *)
    (mkEnt [n_s] FLnk 0 5 6 7%Z 0 false, Some [100; 47; 97]) ].
Definition ex_contents (p : path) : uflags * list N :=
  if path_eqb p [n_d; n_a] then (fl0, ex_A) else if path_eqb p [n_d; n_c] then (fl0, ex_A) else (fl0, []).
Definition ex_xattrs (p : path) : list (list N * list N) :=
  if path_eqb p [n_d; n_a] then [(k_a, [49])]
  else if path_eqb p [n_s] then [(k_t, repeat 50 20); (k_a, [48]); (k_a, [49; 50])]
  else if path_eqb p [n_l] then [(k_a, [51])]
  else [].
Definition ex_pi : pinput := mkPin (mkDefaults 0 0 1600000000 493) ex_ops ex_contents ex_xattrs [] [0%nat; 0%nat].
Definition ex_cfg : wcfg := mkCfg 4096 77 1 4096 true false.
Definition ex_half : nat := 4096.

Definition ex_run : pres :=
  pack_all const_hash toy_compress toy_uncompress ex_half (img_compress 3) c_id_table_limit ex_cfg ex_pi.

Definition ex_read (r : prun) : RBase.res (list rentry) :=
  read_all (uc_of (img_uncompress 3)) (img_uncompress 3) toy_uncompress (image_bytes (r_w r))
           (e2e_depth r) (e2e_efuel r) (e2e_fuel r).

(* every decidable hypothesis of pack_all_reads_back *)
Example ex_e2e_hyps :
  match ex_run with
  | PDone r => e2e_okb ex_half ex_cfg ex_pi r = true /\
               N.of_nat (e2e_depth r) = 5 /\ N.of_nat (e2e_efuel r) = 4 /\ N.of_nat (e2e_fuel r) = 139 /\
               lenN (image_bytes (r_w r)) = 4096
  | _ => False
  end.
Proof. vm_compute. repeat split; reflexivity. Qed.

(* what the run did: two files in fs->files, d/a and d/c share block start 96 and fragment (0, 0); apply_dfs handed
   out index 0 (d/a), 1 (l: dropped), 2 (s); three xattr blocks; the section is in the image *)
Example ex_e2e_run :
  match ex_run with
  | PDone r =>
      pp_files (r_pp r) = [[n_d; n_a]; [n_d; n_c]] /\
      pp_inodes (r_pp r) = [[n_d; n_a]; [n_d; n_c]; [n_d]; [n_s]; []] /\
      xattr_paths (r_pp r) = [[]; [n_d]; [n_d; n_a]; [n_d; n_c]; [n_l]; [n_s]] /\
      r_idxs r = [NOIDX; NOIDX; 0; NOIDX; 1; 2] /\
      map (fun n => lkind_of_payload (fn_payload n)) (firstn 2 (in_tree (r_inp r))) =
        [LFile 96 4101 0 0 0 [4]; LFile 96 4101 0 0 0 [4]] /\
      in_frags (r_inp r) = [(100, 16777221)] /\
      match in_xattr (r_inp r) with Some (b, off) => off = 90 /\ lenN b = 114 | None => False end /\
      N.land (SuperModel.s_flags (w_super (r_w r))) c_SQFS_FLAG_NO_XATTRS = 0
  | _ => False
  end.
Proof. vm_compute. repeat split; reflexivity. Qed.

(* ... and what read_all returns from the bytes of the image: per path the inode number (d/a and l share number 1),
   the mode / uid / gid / mtime, the contents, the pairs (for s: one pair per key, the last value given wins) *)
Example ex_e2e_read :
  match ex_run with
  | PDone r =>
      match ex_read r with
      | RBase.Ok out =>
          map (fun e => (re_path e, re_ino e, (pv_mode (re_view e), pv_uid (re_view e), pv_gid (re_view e), pv_mtime (re_view e)),
                         re_data e, re_xattrs e)) out =
          [ ([], 5, (16877, Some 0, Some 0, 1600000000), None, []);
            ([n_d], 3, (16877, Some 0, Some 0, 1600000000), None, []);
            ([n_d; n_a], 1, (33188, Some 1000, Some 100, 1600000000), Some ex_A, [(k_a, [49])]);
            ([n_d; n_c], 2, (33152, Some 0, Some 0, 5), Some ex_A, []);
            ([n_l], 1, (33188, Some 1000, Some 100, 1600000000), Some ex_A, [(k_a, [49])]);
            ([n_s], 4, (41471, Some 5, Some 6, 7), None, [(k_a, [49; 50]); (k_t, repeat 50 20)]) ] /\
          map (fun e => pv_kind (re_view e)) out =
          [ LDir 0; LDir 0; LFile 96 4101 0 0 0 [4]; LFile 96 4101 0 0 0 [4]; LFile 96 4101 0 0 0 [4];
            LSlink [100; 47; 97] ]
      | _ => False
      end
  | _ => False
  end.
Proof. vm_compute. repeat split; reflexivity. Qed.

(* the compressors of the example meet the contracts of pack_all_reads_back *)
From SqfsV Require Img.ZrleProofs ImgReader.Closed.
Example ex_e2e_contracts :
  (forall b c, toy_compress b = Some c ->
     (length c < length b)%nat /\ forall n, (length b <= n)%nat -> toy_uncompress c n = Some b) /\
  (forall b c, img_compress 3 b = CData c -> lenN c <= lenN b /\ img_uncompress 3 c = Some b) /\
  uc_meets (img_uncompress 3) (uc_of (img_uncompress 3)).
Proof.
  split; [exact toy_contract|]. split; [exact (ZrleProofs.img_contract 3 (or_intror eq_refl))|].
  exact (Closed.uc_of_meets (img_uncompress 3)).
Qed.
