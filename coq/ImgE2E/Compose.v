(* ImgE2E — pack_all_reads_back: the composition of
     Properties_C01 section 6   (ImgReader.E2E: adds -> lib/fstree -> serializer -> write_image -> C05 tree reader)
     ImgData.RealCompose        (C08 pack -> write_image -> C10 data reader)
     ImgXattr.ImageXattr        (C01 xattr writer -> xflush -> write_image -> xattr reader specification)
     FragRefine                 (C05 frag_table_read on the written image)
   into one statement about pack_all / read_all.  The three hypotheses those theorems left open are discharged by the
   composed packer model:
     "the inode view read back equals file_lkind"   BodyProofs.pack_body_lkind + the path-level view of section 6
     "xflush ... (o_xattr w) xw = Ok (in_xattr inp)" WhereProofs.write_image_where (the flush offset does not depend on
                                                    the section)
     "the inode stores index k"                     xa_of = the index xw_sets handed out at the node's position *)
From Coq Require Import List NArith ZArith Bool Lia Permutation ZifyBool ZifyNat ZifyN.
From SqfsV Require Import Base.Bytes Gen.Constants C03.Common C03.ListN.
From SqfsV Require C14.SuperModel C14.SuperProofs.
From SqfsV Require Import C01.GenC01 C01.InodeModel C01.XattrModel C01.XattrProofs C01.XattrWriterProofs Img.TreeModel.
From SqfsV Require C01.Res.
From SqfsV Require Import C11.StrOrder C11.FstreeModel C11.PostModel.
From SqfsV Require Import ImgPost.Bridge ImgPost.InputOk ImgPost.PathsModel ImgPost.TreeInv ImgPost.ListPos ImgPost.ResolveInv
  ImgPost.BridgeProofs ImgPost.PathsProofs.
From SqfsV Require Import C08.DedupModel.
From SqfsV Require Import Image.FinishModel Image.FinishProofs Image.ImageProofs.
From SqfsV Require Import ImgData.GlueModel ImgData.RealBlocks ImgData.RealReader ImgData.RealCompose.
From SqfsV Require Import ImgXattr.FlushModel ImgXattr.XattrRead ImgXattr.ImageXattr.
From SqfsV Require C05.RBase C05.Super C05.Dir.
From SqfsV Require C10.MetaModel C10.DataModel C10.DataProofs.
From SqfsV Require Import ImgReader.Embed ImgReader.ReadImage ImgReader.ImageLaid ImgReader.AllocBound ImgReader.E2E.
From SqfsV Require Import ImgE2E.PackAll ImgE2E.Hyps ImgE2E.WhereProofs ImgE2E.BodyProofs ImgE2E.BodyOk ImgE2E.FragRefine
  ImgE2E.Facts.
Import ListNotations.
Local Open Scope N_scope.

(* ---- what a successful run went through ---- *)
Lemma pack_all_inv hashf dcompress duncompress half mcompress limit cfg pi r :
  pack_all hashf dcompress duncompress half mcompress limit cfg pi = PDone r ->
  exists s0 w0,
    let file0 := SuperModel.encode s0 ++ pi_opts pi in
    let pp := r_pp r in
    SuperModel.super_init (c_block_size cfg) (c_mtime cfg) (c_comp_id cfg) = SuperModel.Ok s0 /\
    run_adds (pi_defaults pi) (fs_init (pi_defaults pi)) (pi_ops pi) = Some (r_fs r) /\
    post_process (r_fs r) = POk pp /\
    xw_sets xw_empty (map (pi_xattrs pi) (xattr_paths pp)) = Res.Ok (r_xw r, r_idxs r) /\
    pack hashf dcompress duncompress (N.to_nat (c_block_size cfg)) false true half file0
         (pack_files_list pi pp) (pi_sched pi) = DedupModel.Ok (r_st r) /\
    write_image mcompress limit cfg (pack_inp cfg pi pp (r_idxs r) (r_st r) file0 None) = Res.Ok w0 /\
    xflush mcompress (o_xattr w0) (r_xw r) = Res.Ok (in_xattr (r_inp r)) /\
    r_inp r = pack_inp cfg pi pp (r_idxs r) (r_st r) file0 (in_xattr (r_inp r)) /\
    write_image mcompress limit cfg (r_inp r) = Res.Ok (r_w r).
Proof.
  unfold pack_all.
  destruct (SuperModel.super_init (c_block_size cfg) (c_mtime cfg) (c_comp_id cfg)) as [s0|e|] eqn:Es; try discriminate.
  destruct (run_adds (pi_defaults pi) (fs_init (pi_defaults pi)) (pi_ops pi)) as [fs|] eqn:Ea; [|discriminate].
  destruct (post_process fs) as [pp| |] eqn:Epp; try discriminate.
  destruct (xw_sets xw_empty (map (pi_xattrs pi) (xattr_paths pp))) as [[xw idxs]|e| |] eqn:Exw; try discriminate.
  destruct (pack hashf dcompress duncompress (N.to_nat (c_block_size cfg)) false true half
                 (SuperModel.encode s0 ++ pi_opts pi) (pack_files_list pi pp) (pi_sched pi)) as [st| |] eqn:Ep; try discriminate.
  destruct (write_image mcompress limit cfg (pack_inp cfg pi pp idxs st (SuperModel.encode s0 ++ pi_opts pi) None))
    as [w0|e| |] eqn:E0; try discriminate.
  destruct (xflush mcompress (o_xattr w0) xw) as [x|e| |] eqn:Ex; try discriminate.
  destruct (write_image mcompress limit cfg (pack_inp cfg pi pp idxs st (SuperModel.encode s0 ++ pi_opts pi) x))
    as [w|e| |] eqn:Ew; try discriminate.
  intro H. injection H as <-. exists s0, w0. cbn [r_fs r_pp r_xw r_idxs r_st r_inp r_w].
  change (in_xattr (pack_inp cfg pi pp idxs st (SuperModel.encode s0 ++ pi_opts pi) x)) with x.
  repeat split; try reflexivity; assumption.
Qed.

(* what the reader is expected to report for the path x = (p, v, id) of the denoted flattening: the view v under the
   inode number of id, the bytes given for id if id is a regular file, and the pairs given for id (one pair per key, the
   last value wins: set_spec) in some order.  Contents and attributes are functions of the node id the path resolves to:
   hard-linked names share them. *)
Definition entry_matches (pi : pinput) (root : tnode) (arr : list path) (x : path * pview * path) (e : rentry) : Prop :=
  let '(p, v, id) := x in
  re_path e = p /\ re_view e = v /\ re_ino e = ino_of arr id /\
  (exists nd, lookup_path id root = Some nd /\
     re_data e = match a_type (node_attr nd) with FReg => Some (snd (pi_contents pi id)) | _ => None end) /\
  Permutation (re_xattrs e) (set_spec (pi_xattrs pi id)).

Section E2E.
  Variable hashf : list N -> N.
  Variable dcompress : list N -> option (list N).
  Variable duncompress : list N -> nat -> option (list N).
  Hypothesis Hdcomp : forall b c, dcompress b = Some c ->
    (length c < length b)%nat /\ forall n, (length b <= n)%nat -> duncompress c n = Some b.
  Variable half : nat.
  Variable mcompress : list N -> cres.
  Variable muncompress : list N -> option (list N).
  Hypothesis Hmcomp : forall b c, mcompress b = CData c -> lenN c <= lenN b /\ muncompress c = Some b.
  Variable uc : list N -> N -> RBase.res (list N).
  Hypothesis uc_ok : uc_meets muncompress uc.
  Variable limit : N.
  Hypothesis Hlimit : limit <= 65535.
  Variable cfg : wcfg.
  Variable pi : pinput.
  Variable r : prun.
  Hypothesis Hrun : pack_all hashf dcompress duncompress half mcompress limit cfg pi = PDone r.
  Hypothesis Hok : e2e_okb half cfg pi r = true.

  Let bsn := N.to_nat (c_block_size cfg).
  Let fs := r_fs r.
  Let pp := r_pp r.
  Let st := r_st r.
  Let xw := r_xw r.
  Let idxs := r_idxs r.
  Let inp := r_inp r.
  Let w := r_w r.
  Let img := image_bytes w.
  Let paths := xattr_paths pp.
  Let sets := map (pi_xattrs pi) paths.
  Let fb := fb_of bsn st (pi_contents pi) (pp_files pp).
  Let xa := xa_of paths idxs.
  Let arr := pp_inodes pp.
  Let root0 := fs_root fs.
  Let sf := w_super w.

  (* the conjuncts of e2e_okb *)
  Lemma hyps :
    input_okb (c_block_size cfg) (pi_defaults pi) (pi_ops pi) = true /\
    forallb set_okb sets = true /\
    forallb (fun p => N.of_nat (length (snd (pi_contents pi p))) <? 2147483647) (pp_files pp) = true /\
    (c_SQFS_COMP_MIN <=? c_comp_id cfg) = true /\ (c_comp_id cfg <=? c_SQFS_COMP_MAX) = true /\
    opts_okb (c_comp_id cfg) (pi_opts pi) = true /\ c_no_xattr cfg = false /\ (0 < half)%nat /\
    tree_alloc_okb (in_tree inp) = true /\
    16 * Res.nlen (in_frags inp) <= RBase.alloc_limit /\
    image_fits w = true /\ lenN img < RBase.two63 /\
    Res.nlen (x_blocks xw) < NOIDX /\ lenN (w_xattrb w) < 281474976710656.
  Proof.
    pose proof Hok as H. unfold e2e_okb in H. cbv zeta in H. rewrite !andb_true_iff in H.
    destruct H as [[[[[[[[[[[[[H1 H2] H3] H4] H5] H6] H7] H8] H10] H12] H13] H14] H15] H16].
    apply negb_true_iff in H7. apply Nat.ltb_lt in H8. apply N.leb_le in H12. apply N.ltb_lt in H14, H15, H16.
    repeat split; assumption.
  Qed.

  Definition RunFacts : Prop :=
    exists s0 w0,
      let file0 := SuperModel.encode s0 ++ pi_opts pi in
      SuperModel.super_init (c_block_size cfg) (c_mtime cfg) (c_comp_id cfg) = SuperModel.Ok s0 /\
      run_adds (pi_defaults pi) (fs_init (pi_defaults pi)) (pi_ops pi) = Some fs /\
      post_process fs = POk pp /\
      xw_sets xw_empty sets = Res.Ok (xw, idxs) /\
      pack hashf dcompress duncompress bsn false true half file0 (pack_files_list pi pp) (pi_sched pi) = DedupModel.Ok st /\
      write_image mcompress limit cfg (pack_inp cfg pi pp idxs st file0 None) = Res.Ok w0 /\
      xflush mcompress (o_xattr w0) xw = Res.Ok (in_xattr inp) /\
      inp = pack_inp cfg pi pp idxs st file0 (in_xattr inp) /\
      write_image mcompress limit cfg inp = Res.Ok w.

  Lemma run_facts : RunFacts.
  Proof. exact (pack_all_inv hashf dcompress duncompress half mcompress limit cfg pi r Hrun). Qed.

  (* the shape of the finish input *)
  Lemma inp_fields : forall s0,
    inp = pack_inp cfg pi pp idxs st (SuperModel.encode s0 ++ pi_opts pi) (in_xattr inp) ->
    in_opts inp = pi_opts pi /\
    in_data inp = data_of (length (SuperModel.encode s0 ++ pi_opts pi)) st /\
    in_frags inp = frag_table_of st /\
    in_tree inp = to_img fb xa pp.
  Proof. intros s0 E. rewrite E. cbn [pack_inp in_opts in_data in_frags in_tree]. repeat split; reflexivity. Qed.

  Lemma image_written : write_image mcompress limit cfg inp = Res.Ok w.
  Proof. destruct run_facts as (s0 & w0 & _ & _ & _ & _ & _ & _ & _ & _ & W). exact W. Qed.

  Lemma image_fit : image_fits w = true.
  Proof. destruct hyps as (_ & _ & _ & _ & _ & _ & _ & _ & _ & _ & H & _). exact H. Qed.

  Lemma image_small : lenN img < RBase.two63.
  Proof. destruct hyps as (_ & _ & _ & _ & _ & _ & _ & _ & _ & _ & _ & H & _). exact H. Qed.

  Lemma bs_facts : (0 < bsn)%nat /\ N.of_nat bsn <= c_SQFS_MAX_BLOCK_SIZE /\ c_block_size cfg = N.of_nat bsn.
  Proof.
    destruct (s0_facts mcompress limit cfg inp w image_written) as (_ & _ & Lo & Hi).
    unfold bsn. rewrite N2Nat.id. unfold c_SQFS_MIN_BLOCK_SIZE in Lo. repeat split; [lia|exact Hi].
  Qed.

  (* the block writer's file is a part of the image: shorter than 2^63 bytes *)
  Lemma wfile_small : N.of_nat (length (w_file (p_wr st))) < 9223372036854775808.
  Proof.
    destruct run_facts as (s0 & w0 & _ & _ & _ & _ & _ & _ & _ & E & W).
    destruct (inp_fields s0 E) as (Eo & Ed & _ & _).
    destruct (write_image_shape mcompress limit cfg inp w W) as (dwr & f1 & f2 & _ & _ & _ & _ & _ & _ & _ & _ & _ & _ & _ & B & _).
    pose proof image_small as S. unfold img, image_bytes, lenN, RBase.two63 in S. fold w in B. rewrite B in S.
    rewrite !app_length, SuperProofs.encode_length, Ed, Eo in S. unfold data_of in S.
    rewrite skipn_length, app_length, SuperProofs.encode_length in S.
    change SuperModel.SB with 96%nat in S. lia.
  Qed.

  Lemma nfrag_small : N.of_nat (p_nfrag st) < 4294967296.
  Proof.
    destruct hyps as (_ & _ & _ & _ & _ & _ & _ & _ & _ & H12 & _).
    destruct run_facts as (s0 & w0 & _ & _ & _ & _ & _ & _ & _ & E & _).
    destruct (inp_fields s0 E) as (_ & _ & Ef & _).
    rewrite Ef in H12. unfold Res.nlen, frag_table_of, RBase.alloc_limit in H12. rewrite map_length, seq_length in H12. lia.
  Qed.

  (* every index apply_dfs stored is NOIDX or the number of an existing block: 32 bit *)
  Lemma xa_bound p : xa p < 4294967296.
  Proof.
    destruct hyps as (_ & H2 & _ & _ & _ & _ & _ & _ & _ & _ & _ & _ & Hnoidx & _).
    destruct run_facts as (s0 & w0 & _ & _ & _ & XS & _).
    destruct winv_empty as [I0 B0].
    destruct (xw_sets_spec sets xw_empty I0 B0 (sets_okb_ok _ H2)) as (w' & idxs' & E' & _ & _ & _ & L & D).
    rewrite XS in E'. injection E' as <- <-.
    unfold xa, xa_of. destruct (index_of p paths) as [k|]; [|reflexivity].
    destruct (Nat.lt_ge_cases k (length idxs)) as [Hk|Hk].
    - pose proof (nth_error_nth' idxs NOX Hk) as Hi.
      assert (Hs : exists kvs, nth_error sets k = Some kvs).
      { destruct (nth_error sets k) eqn:E; [eauto|]. apply nth_error_None in E. lia. }
      destruct Hs as [kvs Hs].
      destruct (D k kvs _ Hs Hi) as [[_ ->]|(j & blk & -> & Nb & _)]; [reflexivity|].
      assert (j < length (x_blocks xw))%nat by (apply nth_error_Some; congruence).
      unfold NOIDX, Res.nlen in Hnoidx. lia.
    - rewrite nth_overflow by exact Hk. reflexivity.
  Qed.

  (* what the packer attaches to the tree fits the on-disk fields: ImgPost's attached_okb, proved from the block
     processor's invariant (BodyOk) and xa_bound *)
  Lemma attached : attached_okb (c_block_size cfg) fb xa pp = true.
  Proof.
    destruct hyps as (_ & _ & H3 & _ & _ & _ & _ & Hh & _).
    destruct run_facts as (s0 & w0 & _ & _ & _ & _ & PK & _).
    destruct bs_facts as (Hbs & Hmax & Hcbs).
    unfold attached_okb. apply andb_true_iff. split.
    - apply forallb_forall. intros p Hp.
      destruct (index_of_in p (pp_files pp) Hp) as [fid Hfid].
      pose proof (index_of_nth _ _ _ Hfid) as Hnth.
      unfold fb, fb_of. rewrite Hfid, Hcbs.
      apply (pack_body_okb hashf dcompress duncompress bsn half Hdcomp Hbs Hmax Hh _ _ _ st PK wfile_small nfrag_small fid
               (fst (pi_contents pi p)) (snd (pi_contents pi p))).
      + unfold pack_files_list. rewrite (map_nth_error (pi_contents pi) fid (pp_files pp) Hnth), <- surjective_pairing. reflexivity.
      + rewrite forallb_forall in H3. pose proof (H3 p Hp) as B. apply N.ltb_lt in B. lia.
    - apply forallb_forall. intros p _. apply N.ltb_lt. apply xa_bound.
  Qed.

  (* hypothesis "xflush ... = in_xattr inp", discharged *)
  Lemma flush_at_final_offset : xflush mcompress (o_xattr w) xw = Res.Ok (in_xattr inp).
  Proof.
    destruct run_facts as (s0 & w0 & _ & _ & _ & _ & _ & W0 & X & E & W).
    rewrite <- (write_image_where mcompress limit cfg
                  (pack_inp cfg pi pp idxs st (SuperModel.encode s0 ++ pi_opts pi) None) inp w0 w);
      [exact X| | | | |exact W0|exact W]; rewrite E; reflexivity.
  Qed.

  Lemma image_dom : image_domain cfg inp = true.
  Proof.
    destruct hyps as (H1 & _ & _ & H4 & H5 & H6 & _ & Hh & _ & H12 & _).
    destruct run_facts as (s0 & w0 & _ & A & P & _ & PK & _ & X & E & _).
    destruct (inp_fields s0 E) as (Eo & _ & Ef & Et).
    destruct bs_facts as (Hbs & Hmax & _).
    rewrite image_domain_split, Et.
    rewrite (post_tree_representable_l _ _ _ fs pp fb xa H1 A P attached). cbn [andb].
    unfold image_rest_okb. rewrite H4, H5, Eo, H6. cbn [andb].
    rewrite Ef at 1.
    rewrite (frag_table_okb hashf dcompress duncompress bsn half Hdcomp Hbs Hmax Hh _ _ _ st PK wfile_small nfrag_small).
    cbn [andb].
    rewrite (xflush_xattr_okb mcompress muncompress Hmcomp _ _ _ X), !andb_true_r.
    apply N.ltb_lt. unfold RBase.alloc_limit in H12. lia.
  Qed.

  (* ---- the tree: Properties_C01 section 6 ---- *)
  Lemma tree_part depth efuel fuel :
    (e2e_depth r <= depth)%nat -> (e2e_efuel r <= efuel)%nat -> (e2e_fuel r <= fuel)%nat ->
    exists T fl,
      read_image_c05 uc depth efuel fuel img = RBase.Ok (sup_of sf, si_ids (w_img w), T) /\
      denotes fb xa root0 fl /\
      flat_lt [] (ltree_of T) = map (number arr) fl /\
      (forall x, In x fl -> 1 <= ino_of arr (snd x) <= N.of_nat (length arr)) /\
      (forall x y, In x fl -> In y fl -> ino_of arr (snd x) = ino_of arr (snd y) -> snd x = snd y).
  Proof.
    intros Hd He Hf.
    destruct hyps as (H1 & _ & _ & _ & _ & _ & _ & _ & H10 & _ & H13 & H14 & _).
    destruct run_facts as (s0 & w0 & _ & A & P & _ & _ & _ & X & E & W).
    destruct (inp_fields s0 E) as (Eo & _ & _ & Et).
    pose proof image_dom as Dom. rewrite image_domain_split in Dom. apply andb_true_iff in Dom. destruct Dom as [_ Rest].
    rewrite Et in H10.
    apply (pack_image_read_by_reader_bounds_l mcompress muncompress Hmcomp uc uc_ok limit Hlimit
             (pi_defaults pi) (pi_ops pi) fs pp fb xa cfg inp w H1 A P attached H10 Et Rest W H13 H14 depth efuel fuel).
    - exact Hd.
    - unfold e2e_efuel in He. fold inp in He. rewrite Et in He. lia.
    - unfold e2e_fuel in Hf. fold w in Hf. lia.
  Qed.

  (* ---- the fragment table: the C05 loader returns what the block processor left ---- *)
  Lemma frag_part fuel : (e2e_fuel r <= fuel)%nat ->
    exists raw, Super.frag_table_read uc img fuel (sup_of sf) = RBase.Ok raw /\ frag_table_of_raw raw = frag_table_of st.
  Proof.
    intro Hf.
    destruct hyps as (_ & _ & _ & _ & _ & _ & _ & _ & _ & H12 & _).
    destruct run_facts as (s0 & w0 & _ & _ & _ & _ & _ & _ & _ & E & W).
    destruct (inp_fields s0 E) as (_ & _ & Ef & _).
    exists (frag_table_bytes (in_frags inp)). split.
    - apply (frag_table_read_written mcompress muncompress Hmcomp limit Hlimit cfg inp w W image_dom image_fit image_small
               uc uc_ok fuel H12).
      unfold e2e_fuel in Hf. fold inp in Hf. lia.
    - rewrite <- Ef. apply frag_table_of_raw_bytes.
      destruct (dom_facts cfg inp image_dom) as (_ & _ & F & _). exact F.
  Qed.

  Notation U := (U_of duncompress).
  Notation file := (MetaModel.read_at img).

  (* a node of the tree the adds built is a node of the post-processed tree, of the same type *)
  Lemma node_in_pp id nd : lookup_path id root0 = Some nd ->
    exists nd', lookup_path id (pp_root pp) = Some nd' /\ a_type (node_attr nd') = a_type (node_attr nd).
  Proof.
    intro L.
    destruct hyps as (H1 & _).
    destruct run_facts as (s0 & w0 & _ & A & P & _).
    destruct (facts _ _ _ fs pp H1 A P) as (st' & _ & Er & _).
    exists (decorate st' id nd). split; [|apply decorate_type].
    rewrite Er, lookup_decorate. fold root0. rewrite L. reflexivity.
  Qed.

  (* ---- contents: hypothesis "the inode view read back equals file_lkind", discharged ---- *)
  Lemma node_contents id nd dr :
    lookup_path id root0 = Some nd ->
    DataProofs.dcoherent U file (N.of_nat bsn) dr -> DataModel.d_tbl dr = frag_table_of st ->
    exists dr',
      read_contents duncompress img (N.of_nat bsn) dr (pv_kind (pview_of_node fb xa id nd))
      = (RBase.Ok (match a_type (node_attr nd) with FReg => Some (snd (pi_contents pi id)) | _ => None end), dr') /\
      DataProofs.dcoherent U file (N.of_nat bsn) dr' /\ DataModel.d_tbl dr' = frag_table_of st.
  Proof.
    intros L Hc Ht. unfold pview_of_node. cbn [pv_kind].
    destruct (a_type (node_attr nd)) eqn:Ty;
      try (exists dr; split; [reflexivity|split; assumption]).
    (* a regular file *)
    destruct hyps as (H1 & _ & H3 & _ & _ & _ & _ & Hh & _).
    destruct run_facts as (s0 & w0 & _ & A & P & _ & PK & _ & _ & E & W).
    destruct (inp_fields s0 E) as (Eo & Ed & _ & _).
    destruct bs_facts as (Hbs & Hmax & Hcbs).
    destruct (facts _ _ _ fs pp H1 A P) as (st' & _ & _ & Ef & _).
    destruct (node_in_pp id nd L) as (nd' & L' & Ty'). rewrite Ty in Ty'.
    pose proof (file_list_complete id (pp_root pp) [] nd' L' Ty') as Hin. cbn [app] in Hin. rewrite <- Ef in Hin.
    destruct (index_of_in id (pp_files pp) Hin) as [fid Hfid].
    pose proof (index_of_nth _ _ _ Hfid) as Hnth.
    set (d := snd (pi_contents pi id)). set (fl := fst (pi_contents pi id)).
    assert (Efb : fb id = pack_body bsn st fid (length d)) by (unfold fb, fb_of; rewrite Hfid; reflexivity).
    rewrite Efb, pack_body_lkind.
    set (sp := sparse_bytes bsn st fid (length d) (DedupModel.block_count bsn (length d) (has_frag (p_frag st fid)))).
    assert (Hn : nth_error (pack_files_list pi pp) fid = Some (fl, d)).
    { unfold pack_files_list. rewrite (map_nth_error (pi_contents pi) fid (pp_files pp) Hnth).
      unfold fl, d. rewrite <- surjective_pairing. reflexivity. }
    assert (Hsm : N.of_nat (length d) < 2147483647).
    { rewrite forallb_forall in H3. apply N.ltb_lt. apply (H3 id Hin). }
    assert (Hfile0 : length (SuperModel.encode s0 ++ pi_opts pi) = (96 + length (in_opts inp))%nat).
    { rewrite app_length, SuperProofs.encode_length, Eo. reflexivity. }
    destruct (finode_of_lkind (file_lkind bsn st fid (length d) sp)) as [f|] eqn:Ff; [|discriminate].
    destruct (image_real_reader_l hashf dcompress duncompress bsn half Hdcomp Hbs Hmax Hh mcompress muncompress Hmcomp
                limit Hlimit cfg inp w _ _ _ st Hfile0 Hcbs PK Ed W image_dom image_fit image_small
                fid fl d sp f Hn Hsm Ff) as (cs & tail & _ & _ & Rd & _).
    destruct (Rd dr Hc Ht) as (Rread & _).
    unfold read_contents. fold img in Rread. rewrite Ff.
    destruct (DataProofs.api_read_R U file (N.of_nat bsn) dr dr f 0 (DataModel.f_size f)
                (DataProofs.R_refl U file (N.of_nat bsn) dr Hc)) as (_ & (C' & _ & _) & T').
    destruct (DataModel.api_read U file (N.of_nat bsn) true dr f 0 (DataModel.f_size f)) as [r0 dr'] eqn:EA.
    cbn [fst snd] in Rread, C', T'. subst r0.
    exists dr'. split; [reflexivity|]. split; [exact C'|congruence].
  Qed.

  (* ---- xattrs: hypothesis "the inode stores index k", discharged ---- *)
  Lemma node_xattrs id nd :
    lookup_path id root0 = Some nd ->
    exists l, read_xattr_set muncompress img (sm_of (sup_of sf)) (xa id) = Res.Ok l /\
              Permutation l (set_spec (pi_xattrs pi id)).
  Proof.
    intro L.
    destruct hyps as (_ & H2 & _ & _ & _ & _ & Hnox & _ & _ & _ & _ & _ & Hnoidx & H48).
    destruct run_facts as (s0 & w0 & _ & _ & _ & XS & _ & _ & _ & _ & W).
    destruct (node_in_pp id nd L) as (nd' & L' & _).
    pose proof (lookup_in_all_paths id (pp_root pp) [] nd' L') as Hin. cbn [app] in Hin. fold (xattr_paths pp) in Hin. fold paths in Hin.
    destruct (index_of_in id paths Hin) as [k Hk]. pose proof (index_of_nth _ _ _ Hk) as Hnth.
    assert (Hcount : Res.nlen (x_blocks xw) < 4294967296) by (unfold NOIDX in Hnoidx; lia).
    destruct (image_xattr_roundtrip_l mcompress muncompress Hmcomp limit Hlimit cfg inp w W image_dom image_fit
                xw flush_at_final_offset Hcount sets idxs (sets_okb_ok _ H2) XS H48 Hnox Hnoidx) as (Len & RT).
    assert (Hkl : (k < length idxs)%nat).
    { rewrite Len. unfold sets. rewrite map_length. apply nth_error_Some. congruence. }
    assert (Exa : xa id = nth k idxs NOX) by (unfold xa, xa_of; rewrite Hk; reflexivity).
    destruct (RT k (pi_xattrs pi id) (nth k idxs NOX)) as (l & Rl & Pl).
    - unfold sets. apply map_nth_error. exact Hnth.
    - apply nth_error_nth'. exact Hkl.
    - exists l. split; [|exact Pl]. rewrite Exa. rewrite <- Rl. apply read_xattr_set_start. reflexivity.
  Qed.

  Lemma block_size_read : Super.s_block_size (sup_of sf) = N.of_nat bsn.
  Proof.
    destruct (fixed_fields mcompress muncompress Hmcomp limit Hlimit cfg inp w image_written image_dom)
      as (_ & _ & _ & M4 & _).
    destruct bs_facts as (_ & _ & Hcbs). cbn [sup_of Super.s_block_size]. fold sf in M4. rewrite M4. exact Hcbs.
  Qed.

  (* ---- all paths ---- *)
  Lemma read_nodes_ok : forall fl dr,
    Forall (fun x : path * pview * path =>
              let '(p, v, id) := x in exists nd, lookup_path id root0 = Some nd /\ v = pview_of_node fb xa id nd) fl ->
    DataProofs.dcoherent U file (N.of_nat bsn) dr -> DataModel.d_tbl dr = frag_table_of st ->
    exists out, read_nodes muncompress duncompress img (sup_of sf) dr (map (number arr) fl) = RBase.Ok out /\
                Forall2 (entry_matches pi root0 arr) fl out.
  Proof.
    induction fl as [|[[p v] id] fl IH]; intros dr F Hc Ht.
    - exists []. split; [reflexivity|constructor].
    - inversion F as [|? ? Hx Fr]; subst. destruct Hx as (nd & L & Ev). subst v.
      cbn [map number read_nodes]. rewrite block_size_read.
      destruct (node_contents id nd dr L Hc Ht) as (dr' & Rc & Hc' & Ht'). rewrite Rc. cbn [RBase.bind].
      destruct (node_xattrs id nd L) as (l & Rx & Px).
      change (pv_xattr (pview_of_node fb xa id nd)) with (xa id). rewrite Rx. cbn [of_res RBase.bind].
      destruct (IH dr' Fr Hc' Ht') as (out & Ro & Mo). rewrite Ro. cbn [RBase.bind].
      eexists. split; [reflexivity|]. constructor; [|exact Mo].
      unfold entry_matches. cbn [re_path re_view re_ino re_data re_xattrs].
      split; [reflexivity|]. split; [reflexivity|]. split; [reflexivity|]. split; [|exact Px].
      exists nd. split; [exact L|reflexivity].
  Qed.

  Theorem pack_all_reads_back_s depth efuel fuel :
    (e2e_depth r <= depth)%nat -> (e2e_efuel r <= efuel)%nat -> (e2e_fuel r <= fuel)%nat ->
    exists T fl out,
      read_image_c05 uc depth efuel fuel img = RBase.Ok (sup_of sf, si_ids (w_img w), T) /\
      denotes fb xa root0 fl /\
      flat_lt [] (ltree_of T) = map (number arr) fl /\
      (forall x, In x fl -> 1 <= ino_of arr (snd x) <= N.of_nat (length arr)) /\
      (forall x y, In x fl -> In y fl -> ino_of arr (snd x) = ino_of arr (snd y) -> snd x = snd y) /\
      read_all uc muncompress duncompress img depth efuel fuel = RBase.Ok out /\
      Forall2 (entry_matches pi root0 arr) fl out.
  Proof.
    intros Hd He Hf.
    destruct (tree_part depth efuel fuel Hd He Hf) as (T & fl & RT & Dn & Fl & Nu & Inj).
    destruct (frag_part fuel Hf) as (raw & RF & ET).
    assert (F : Forall (fun x : path * pview * path =>
                let '(p, v, id) := x in exists nd, lookup_path id root0 = Some nd /\ v = pview_of_node fb xa id nd) fl).
    { destruct Dn as [_ D2]. eapply Forall_impl; [|exact D2]. intros [[p v] id] [_ H]. exact H. }
    destruct (read_nodes_ok fl (DataModel.mkDr (frag_table_of_raw raw) None None) F
                (DataProofs.empty_dcoherent U file (N.of_nat bsn) _) ET) as (out & Ro & Mo).
    exists T, fl, out. split; [exact RT|]. split; [exact Dn|]. split; [exact Fl|]. split; [exact Nu|]. split; [exact Inj|].
    split; [|exact Mo].
    unfold read_all. rewrite RT. cbn [RBase.bind]. rewrite RF. cbn [RBase.bind]. rewrite Fl. exact Ro.
  Qed.
End E2E.

(* hard-linked names — entries with the same inode number — show the same attributes, contents and key/value set *)
Lemma matches_share pi fb xa root arr fl out :
  denotes fb xa root fl ->
  Forall2 (entry_matches pi root arr) fl out ->
  (forall x y, In x fl -> In y fl -> ino_of arr (snd x) = ino_of arr (snd y) -> snd x = snd y) ->
  forall e1 e2, In e1 out -> In e2 out -> re_ino e1 = re_ino e2 ->
    re_view e1 = re_view e2 /\ re_data e1 = re_data e2 /\ Permutation (re_xattrs e1) (re_xattrs e2).
Proof.
  intros [_ Dn] M Inj e1 e2 H1 H2 E.
  assert (Ex : forall e, In e out -> exists x, In x fl /\ entry_matches pi root arr x e).
  { clear - M. induction M as [|x e fl out Hm M IH]; intros e0 H; [destruct H|].
    destruct H as [<-|H]; [exists x; split; [left; reflexivity|exact Hm]|].
    destruct (IH e0 H) as (x0 & Hx & Hm0). exists x0. split; [right; exact Hx|exact Hm0]. }
  rewrite Forall_forall in Dn.
  destruct (Ex e1 H1) as ([[p1 v1] id1] & I1 & _ & V1 & N1 & (nd1 & L1 & D1) & P1).
  destruct (Ex e2 H2) as ([[p2 v2] id2] & I2 & _ & V2 & N2 & (nd2 & L2 & D2) & P2).
  assert (Eid : id1 = id2).
  { apply (Inj _ _ I1 I2). cbn [snd]. congruence. }
  subst id2. rewrite L1 in L2. injection L2 as <-.
  destruct (Dn _ I1) as (_ & n1 & La & Ea). destruct (Dn _ I2) as (_ & n2 & Lb & Eb).
  rewrite La in Lb. injection Lb as <-.
  split; [congruence|]. split; [congruence|].
  eapply Permutation_trans; [exact P1|apply Permutation_sym; exact P2].
Qed.

(* ---- the closed statement ---- *)
Theorem pack_all_reads_back_l :
  forall (hashf : list N -> N)
         (dcompress : list N -> option (list N)) (duncompress : list N -> nat -> option (list N)),
  (forall b c, dcompress b = Some c ->
     (length c < length b)%nat /\ forall n, (length b <= n)%nat -> duncompress c n = Some b) ->
  forall (mcompress : list N -> cres) (muncompress : list N -> option (list N)),
  (forall b c, mcompress b = CData c -> lenN c <= lenN b /\ muncompress c = Some b) ->
  forall uc, uc_meets muncompress uc ->
  forall limit, limit <= 65535 ->
  forall half cfg pi r,
  pack_all hashf dcompress duncompress half mcompress limit cfg pi = PDone r ->
  e2e_okb half cfg pi r = true ->
  forall depth efuel fuel,
  (e2e_depth r <= depth)%nat -> (e2e_efuel r <= efuel)%nat -> (e2e_fuel r <= fuel)%nat ->
  let img := image_bytes (r_w r) in
  let root := fs_root (r_fs r) in
  let arr := pp_inodes (r_pp r) in
  let fb := fb_of (N.to_nat (c_block_size cfg)) (r_st r) (pi_contents pi) (pp_files (r_pp r)) in
  let xa := xa_of (xattr_paths (r_pp r)) (r_idxs r) in
  exists T fl out,
    read_image_c05 uc depth efuel fuel img = RBase.Ok (sup_of (w_super (r_w r)), si_ids (w_img (r_w r)), T) /\
    denotes fb xa root fl /\
    flat_lt [] (ltree_of T) = map (number arr) fl /\
    (forall x, In x fl -> 1 <= ino_of arr (snd x) <= N.of_nat (length arr)) /\
    (forall x y, In x fl -> In y fl -> ino_of arr (snd x) = ino_of arr (snd y) -> snd x = snd y) /\
    read_all uc muncompress duncompress img depth efuel fuel = RBase.Ok out /\
    Forall2 (entry_matches pi root arr) fl out /\
    (forall e1 e2, In e1 out -> In e2 out -> re_ino e1 = re_ino e2 ->
       re_view e1 = re_view e2 /\ re_data e1 = re_data e2 /\ Permutation (re_xattrs e1) (re_xattrs e2)).
Proof.
  intros hashf dcompress duncompress Hd mcompress muncompress Hm uc Huc limit Hl half cfg pi r Hrun Hok depth efuel fuel
         H1 H2 H3 img root arr fb xa.
  destruct (pack_all_reads_back_s hashf dcompress duncompress Hd half mcompress muncompress Hm uc Huc limit Hl cfg pi r
              Hrun Hok depth efuel fuel H1 H2 H3) as (T & fl & out & A & B & C & D & E & F & G).
  exists T, fl, out. repeat (split; [assumption|]).
  exact (matches_share pi fb xa root arr fl out B G E).
Qed.

(* ---- statements for Properties_C01.v section 7 ---- *)
Lemma entry_matches_meaning_l : forall pi root arr p v id e,
  entry_matches pi root arr (p, v, id) e <->
  (re_path e = p /\ re_view e = v /\ re_ino e = ino_of arr id /\
   (exists nd, lookup_path id root = Some nd /\
      re_data e = match a_type (node_attr nd) with FReg => Some (snd (pi_contents pi id)) | _ => None end) /\
   Permutation (re_xattrs e) (set_spec (pi_xattrs pi id))).
Proof. intros. reflexivity. Qed.

Lemma real_frag_loader_l :
  forall (compress : list N -> cres) (uncompress : list N -> option (list N)),
  (forall b c, compress b = CData c -> lenN c <= lenN b /\ uncompress c = Some b) ->
  forall limit, limit <= 65535 ->
  forall cfg inp w,
  write_image compress limit cfg inp = Res.Ok w ->
  image_domain cfg inp = true -> image_fits w = true ->
  lenN (image_bytes w) < RBase.two63 ->
  forall uc, uc_meets uncompress uc ->
  forall fuel,
  16 * Res.nlen (in_frags inp) <= RBase.alloc_limit ->
  (frag_fuel (Res.nlen (in_frags inp)) <= fuel)%nat ->
  Super.frag_table_read uc (image_bytes w) fuel (sup_of (w_super w)) = RBase.Ok (frag_table_bytes (in_frags inp)) /\
  frag_table_of_raw (frag_table_bytes (in_frags inp)) = in_frags inp.
Proof.
  intros c u H l Hl cfg inp w Hw Hd Hf Hs uc Hu fuel Ha Hfu. split.
  - exact (frag_table_read_written c u H l Hl cfg inp w Hw Hd Hf Hs uc Hu fuel Ha Hfu).
  - apply frag_table_of_raw_bytes. destruct (dom_facts cfg inp Hd) as (_ & _ & F & _). exact F.
Qed.
