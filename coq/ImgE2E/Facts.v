(* ImgE2E — small facts the composition needs about models owned elsewhere. *)
From Coq Require Import List NArith ZArith Bool Lia Permutation ZifyBool ZifyNat ZifyN.
From SqfsV Require Import Base.Bytes Gen.Constants C03.Common C03.ListN.
From SqfsV Require C14.SuperModel.
From SqfsV Require Import C01.GenC01 C01.InodeModel C01.XattrModel C01.XattrProofs C01.XattrWriterProofs Img.TreeModel.
From SqfsV Require C01.Res.
From SqfsV Require Import C11.StrOrder C11.FstreeModel C11.PostModel.
From SqfsV Require Import ImgPost.Bridge ImgPost.PathsModel ImgPost.TreeInv ImgPost.ListPos.
From SqfsV Require Import C08.DedupModel.
From SqfsV Require Import Image.FinishModel Image.FinishProofs Image.ImageProofs.
From SqfsV Require Import ImgXattr.FlushModel ImgXattr.FlushShape ImgXattr.XattrRead.
From SqfsV Require Import ImgE2E.PackAll ImgE2E.Hyps ImgE2E.WhereProofs.
Import ListNotations.
Local Open Scope N_scope.

(* ---- the boolean domain of the xattr writer refinement ---- *)
Lemma kv_okb_ok kv : kv_okb kv = true -> kv_ok kv.
Proof.
  unfold kv_okb, kv_ok, key_ok, val_ok. destruct (prefix_of (fst kv)) as [[ty sfx]|] eqn:P; [|discriminate].
  rewrite andb_true_iff, N.leb_le, N.ltb_lt. intros [A B]. split; [exists ty, sfx; split; [reflexivity|exact A]|exact B].
Qed.

Lemma set_okb_ok kvs : set_okb kvs = true -> set_ok kvs.
Proof.
  unfold set_okb, set_ok. rewrite andb_true_iff, N.ltb_lt. intros [A B]. split; [|exact B].
  apply Forall_forall. intros kv H. apply kv_okb_ok. rewrite forallb_forall in A. apply A. exact H.
Qed.

Lemma sets_okb_ok sets : forallb set_okb sets = true -> Forall set_ok sets.
Proof. intro H. apply Forall_forall. intros s Hs. apply set_okb_ok. rewrite forallb_forall in H. apply H. exact Hs. Qed.

(* ---- every node of a tree is listed by all_paths ---- *)
Lemma lookup_in_all_paths : forall q n pp nd, lookup_path q n = Some nd -> In (pp ++ q) (all_paths pp n).
Proof.
  induction q as [|c q IH]; intros n pp nd L.
  - destruct n as [nm a ch]. cbn [all_paths]. left. rewrite app_nil_r. reflexivity.
  - destruct n as [nm a ch]. rewrite lookup_cons in L.
    destruct (negb (ftype_eqb (a_type a) FDir)) eqn:D; [discriminate|]. apply negb_false_iff in D.
    destruct (find_child c ch) as [x|] eqn:F; [|discriminate].
    cbn [all_paths]. right. unfold is_dir. cbn [node_attr]. rewrite D.
    pose proof (find_child_in _ _ _ F) as Hx. pose proof (TreeProofs.find_child_name _ _ _ F) as Nx.
    specialize (IH x (pp ++ [c]) nd L). rewrite <- app_assoc in IH. cbn [app] in IH.
    clear - Hx Nx IH. induction ch as [|y r IHr]; [destruct Hx|].
    cbn [map concat]. apply in_or_app. destruct Hx as [->|Hx]; [left; rewrite Nx; exact IH|right; apply IHr; exact Hx].
Qed.

(* ---- the xattr reader specification looks at xattr_id_table_start only ---- *)
Lemma read_xattr_set_start uncompress img s1 s2 idx :
  SuperModel.s_xattr_start s1 = SuperModel.s_xattr_start s2 ->
  read_xattr_set uncompress img s1 idx = read_xattr_set uncompress img s2 idx.
Proof. intro E. unfold read_xattr_set, read_xattr_table. rewrite E. reflexivity. Qed.

(* ---- what sqfs_xattr_writer_flush appends is a section write_image accepts ---- *)
Section XO.
  Variable compress : list N -> cres.
  Variable uncompress : list N -> option (list N).
  Hypothesis compress_ok :
    forall b c, compress b = CData c -> lenN c <= lenN b /\ uncompress c = Some b.

  Lemma xflush_xattr_okb size0 xw x : xflush compress size0 xw = Res.Ok x -> xattr_okb x = true.
  Proof.
    destruct x as [[bytes off]|]; [|reflexivity]. intro H.
    destruct (xflush_shape compress uncompress compress_ok _ _ _ _ H) as (kvr & idr & descs & SH).
    unfold xattr_okb. apply N.leb_le. rewrite (xs_off _ _ _ _ _ _ _ _ SH), (xs_bytes _ _ _ _ _ _ _ _ SH).
    rewrite !lenN_app. unfold xattr_header. rewrite !lenN_app. unfold le64, le32, lenN. rewrite !le_length. lia.
  Qed.
End XO.

(* ---- nth with a default on a position that exists ---- *)
Lemma nth_error_nth_default {A} (l : list A) k d : (k < length l)%nat -> nth_error l k = Some (nth k l d).
Proof. intro H. apply nth_error_nth'. exact H. Qed.
