(* ImgE2E — entry points of the tie's driver (props/C01/e2e_driver.ml), with result types of their own so that the
   extracted constructor names do not depend on how many [res] types an extraction contains.  Definitions only. *)
From Coq Require Import List NArith ZArith Bool.
From SqfsV Require Import Base.Bytes C03.Common.
From SqfsV Require C01.Res C05.RBase.
From SqfsV Require Import ImgE2E.PackAll.
Import ListNotations.

Inductive paout := PAInit | PAAdd | PAPost | PAXattr | PAData | PAFinish | PADone (r : prun).

Definition pack_all_out (hashf : list N -> N) (dcompress : list N -> option (list N))
           (duncompress : list N -> nat -> option (list N)) (half : nat) (mcompress : list N -> cres) (limit : N)
           (cfg : FinishModel.wcfg) (pi : pinput) : paout :=
  match pack_all hashf dcompress duncompress half mcompress limit cfg pi with
  | PInitErr => PAInit
  | PAddErr => PAAdd
  | PPostErr => PAPost
  | PXattrErr _ => PAXattr
  | PDataErr => PAData
  | PFinishErr _ => PAFinish
  | PDone r => PADone r
  end.

Inductive raout := RAOk (l : list rentry) | RAErr (e : Z) | RACrash | RAFuel.

Definition read_all_out (muncompress : list N -> option (list N)) (duncompress : list N -> nat -> option (list N))
           (img : list N) (depth efuel fuel : nat) : raout :=
  match read_all (ReadImage.uc_of muncompress) muncompress duncompress img depth efuel fuel with
  | RBase.Ok l => RAOk l
  | RBase.Err e => RAErr e
  | RBase.Crash => RACrash
  | RBase.OutOfFuel => RAFuel
  end.

(* the toy compressors of the component harness (props/C01/h_e2e.c: ONE compressor object serves data and metadata):
   mode 0 = store, 1 = run-length (C08's toy_compress = C03's mode 1), 3 = zero-run-length (Img.TreeModel.zrle) *)
Definition e2e_meta_compress (mode : N) : list N -> cres := TreeModel.img_compress mode.
Definition e2e_meta_uncompress (mode : N) : list N -> option (list N) := TreeModel.img_uncompress mode.
Definition e2e_data_compress (mode : N) (b : list N) : option (list N) :=
  if N.eqb mode 1 then DedupModel.toy_compress b
  else if N.eqb mode 3 then
    match TreeModel.img_compress 3 b with
    | CData c => if Nat.ltb (length c) (length b) then Some c else None
    | _ => None
    end
  else None.
Definition e2e_data_uncompress (mode : N) (c : list N) (cap : nat) : option (list N) :=
  if N.eqb mode 1 then DedupModel.toy_uncompress c cap
  else if N.eqb mode 3 then
    match TreeModel.img_uncompress 3 c with
    | Some b => if Nat.leb (length b) cap then Some b else None
    | None => None
    end
  else None.
