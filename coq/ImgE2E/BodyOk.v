(* ImgE2E — what pack leaves fits the on-disk fields, derived from C08's invariant of the block processor (PInv at the end
   of [pack]): every file inode body pack_all attaches meets Img's file_body_okb (block words 32 bit, their number is
   get_block_count of the stored size / fragment fields, every field fits its form), and every fragment table entry
   meets Image's frag_okb.  With Compose.xa_bound this replaces ImgPost's run-level hypothesis attached_okb and
   image_domain's clause on the fragment table by two bounds: every file is shorter than 2^63 bytes and the block writer's
   file is shorter than 2^63 bytes. *)
From Coq Require Import List NArith ZArith Arith Bool Lia ZifyBool ZifyNat ZifyN.
From SqfsV Require Import Base.Bytes Gen.Constants.
From SqfsV Require Import C01.GenC01 C01.InodeModel C01.InodeProofs Img.TreeModel.
From SqfsV Require C01.Res.
From SqfsV Require Import C08.DedupModel C08.DedupLemmas C08.DedupWriterProofs C08.DedupReaderProofs
  C08.DedupPipeProofs C08.DedupTheorems.
From SqfsV Require C10.MetaModel.
From SqfsV Require Import Image.FinishModel Image.ImageProofs.
From SqfsV Require Import ImgData.GlueModel ImgData.BoundInv ImgData.RealBlocks ImgData.RealReader ImgData.Compose.
From SqfsV Require Import ImgE2E.PackAll.
Import ListNotations.

Lemma sparse_bytes_le bs st fid size : forall count base,
  (fold_right (fun k acc =>
                 match p_size st fid k with
                 | Some w => if sw_sparse w then (N.of_nat (Nat.min bs (size - k * bs)) + acc)%N else acc
                 | None => acc
                 end) 0%N (seq base count) <= N.of_nat (count * bs))%N.
Proof.
  induction count as [|c IH]; intro base; [cbn; lia|].
  cbn [seq fold_right]. specialize (IH (S base)).
  destruct (p_size st fid base) as [w|]; [destruct (sw_sparse w)|]; lia.
Qed.

Lemma sw_of_lt n c : small n -> (sw_of n c < 4294967296)%N.
Proof. unfold small, sw_of, two24. intro H. destruct c; lia. Qed.

Section BodyOk.
Variable hashf : list N -> N.
Variable dcompress : list N -> option (list N).
Variable duncompress : list N -> nat -> option (list N).
Variable bs half : nat.
Hypothesis Hdcomp : forall b c, dcompress b = Some c ->
  length c < length b /\ forall n, length b <= n -> duncompress c n = Some b.
Hypothesis Hbs : 0 < bs.
Hypothesis Hmax : (N.of_nat bs <= c_SQFS_MAX_BLOCK_SIZE)%N.
Hypothesis Hhalf : 0 < half.
Variable file0 : list N.
Variable files : list (uflags * list N).
Variable sched : list nat.
Variable st : proc.
Hypothesis Hpack : pack hashf dcompress duncompress bs false true half file0 files sched = Ok st.
Hypothesis Hfile : (N.of_nat (length (w_file (p_wr st))) < 9223372036854775808)%N.
Hypothesis Hnfrag : (N.of_nat (p_nfrag st) < 4294967296)%N.

Let Hsmall : small bs := max_block_size_small bs Hmax.

Lemma bs_le : (N.of_nat bs <= 1048576)%N.
Proof. assert (c_SQFS_MAX_BLOCK_SIZE = 1048576%N) by reflexivity. lia. Qed.

Theorem pack_body_okb fid fl d :
  nth_error files fid = Some (fl, d) ->
  (N.of_nat (length d) < 9223372036854775808)%N ->
  file_body_okb (N.of_nat bs) (pack_body bs st fid (length d)) = true.
Proof.
  intros Hn Hd.
  destruct (pack_inv hashf dcompress duncompress bs half (length file0) Hdcomp Hbs Hsmall Hhalf files file0 sched eq_refl)
    as (st' & claims & fbd & E & PI & Hfb & _).
  rewrite Hpack in E. inversion E; subst st'. clear E.
  pose proof (pack_no_block_start hashf dcompress duncompress bs false true half file0 files sched st Hpack) as Hnob.
  destruct (file_struct hashf dcompress duncompress bs half Hdcomp Hbs Hsmall Hhalf files (length file0) st claims fbd PI
              Hnob (w_file (p_wr st)) (le_n _) Hfile fid fl d Hn)
    as (pds & tail & Hcat & Hdec & Hsz & Hw & Hcl & Hcnt & Htl).
  pose proof bs_le as BL.
  set (fr := p_frag st fid) in *.
  set (cnt := DedupModel.block_count bs (length d) (has_frag fr)) in *.
  (* the words *)
  assert (Hwords : file_words st fid cnt = map (fun pd => word (fst pd)) pds).
  { unfold file_words. rewrite <- Hcnt. apply map_seq_nth. intros j pd Hj. rewrite (Hw j pd Hj). reflexivity. }
  assert (Hlen_pd : forall pd, In pd pds -> length (snd pd) <= bs).
  { clear - Hsz. revert Hsz. generalize (length tail). induction pds as [|q qs IH]; intros ex Hs pd Hin; [destruct Hin|].
    cbn [map sized] in Hs. destruct Hs as [Hs1 Hs2]. destruct Hin as [<-|Hin]; [lia|]. eapply IH; eassumption. }
  assert (Hwb : wordsb (file_words st fid cnt) = true).
  { rewrite Hwords. unfold wordsb. apply forallb_forall. intros x Hx. apply in_map_iff in Hx. destruct Hx as (pd & <- & Hpd).
    apply N.ltb_lt. unfold word. destruct (pb_sparse (fst pd)); [reflexivity|]. apply sw_of_lt.
    rewrite Forall_forall in Hdec. destruct (Hdec pd Hpd) as (_ & Lp & _).
    pose proof (Hlen_pd pd Hpd). eapply small_le; [|exact Hsmall]. lia. }
  (* the fragment reference *)
  assert (Hfr : match fr with Some (i, o) => i < p_nfrag st /\ o <= bs | None => True end).
  { destruct fr as [[i o]|] eqn:Ef; [|exact I].
    exact (pack_frag_bounds hashf dcompress duncompress bs half Hdcomp Hbs Hmax Hhalf file0 files sched st Hpack fid i o Ef). }
  (* the count *)
  assert (Hbc : (Res.nlen (file_words st fid cnt)
                 =? InodeModel.block_count (N.of_nat (length d)) (N.of_nat bs)
                      (match fr with Some (i, _) => N.of_nat i | None => NOX end)
                      (match fr with Some (_, o) => N.of_nat o | None => NOX end))%N = true).
  { apply N.eqb_eq. unfold Res.nlen, file_words. rewrite map_length, seq_length.
    unfold cnt, DedupModel.block_count, InodeModel.block_count, NOX.
    assert (Hdiv : (N.of_nat (length d) / N.of_nat bs = N.of_nat (length d / bs))%N) by (rewrite Nat2N.inj_div; reflexivity).
    assert (Hmod : (N.of_nat (length d) mod N.of_nat bs = N.of_nat (length d mod bs))%N) by (rewrite Nat2N.inj_mod; reflexivity).
    rewrite Hdiv, Hmod.
    destruct (Nat.eqb_spec (length d mod bs) 0) as [Z|Z].
    - rewrite Z. cbn [N.of_nat N.eqb negb andb]. lia.
    - destruct (N.eqb_spec (N.of_nat (length d mod bs)) 0) as [Z'|_]; [lia|]. cbn [negb andb].
      destruct fr as [[i o]|]; cbn [has_frag].
      + destruct Hfr as [Hi Ho].
        destruct (N.eqb_spec (N.of_nat i) 4294967295) as [|_]; [lia|].
        destruct (N.eqb_spec (N.of_nat o) 4294967295) as [|_]; [lia|]. cbn [orb]. lia.
      + cbn [N.eqb Pos.eqb orb]. lia. }
  (* the block start *)
  assert (Hstart : (N.of_nat (p_start st fid) < 9223372036854775808)%N).
  { destruct Hcl as [[_ ->]|Hin]; [reflexivity|].
    pose proof (claim_holds hashf dcompress duncompress bs (length file0) files _ _ _ _ _ _ _ PI Hin) as [Hh _].
    cbn [fst snd] in Hh. lia. }
  (* the sparse byte count *)
  assert (Hsp : (sparse_bytes bs st fid (length d) cnt < 18446744073709551616)%N).
  { pose proof (sparse_bytes_le bs st fid (length d) cnt 0) as B. fold (sparse_bytes bs st fid (length d) cnt) in B.
    assert (cnt <= S (length d / bs)).
    { unfold cnt, DedupModel.block_count. destruct (length d mod bs =? 0); [lia|]. destruct (has_frag fr); lia. }
    assert (length d / bs * bs <= length d) by (rewrite Nat.mul_comm; apply Nat.mul_div_le; lia).
    assert (cnt * bs <= length d + bs) by nia. lia. }
  assert (Hfi : ((match fr with Some (i, _) => N.of_nat i | None => NOX end) < 4294967296)%N).
  { destruct fr as [[i o]|]; [destruct Hfr; lia|reflexivity]. }
  assert (Hfo : ((match fr with Some (_, o) => N.of_nat o | None => NOX end) < 4294967296)%N).
  { destruct fr as [[i o]|]; [destruct Hfr; lia|reflexivity]. }
  unfold pack_body. fold fr cnt.
  set (fi := match fr with Some (i, _) => N.of_nat i | None => NOX end) in *.
  set (fo := match fr with Some (_, o) => N.of_nat o | None => NOX end) in *.
  set (sp := sparse_bytes bs st fid (length d) cnt) in *.
  unfold make_basic. cbn [get_xattr_index]. rewrite N.eqb_refl. cbn [negb].
  unfold U32MAX.
  destruct (N.ltb_spec 4294967295 (N.of_nat (p_start st fid))) as [B1|B1]; cbn [orb].
  { cbn [file_body_okb body_fields]. rewrite Hwb, Hbc, !andb_true_r. unfold fitsb. cbn [forallb fst snd W8 W4].
    rewrite !andb_true_iff, !N.ltb_lt. cbn. unfold NOX. repeat split; lia. }
  destruct (N.ltb_spec 4294967295 (N.of_nat (length d))) as [B2|B2]; cbn [orb].
  { cbn [file_body_okb body_fields]. rewrite Hwb, Hbc, !andb_true_r. unfold fitsb. cbn [forallb fst snd W8 W4].
    rewrite !andb_true_iff, !N.ltb_lt. cbn. unfold NOX. repeat split; lia. }
  destruct (N.ltb_spec 0 sp) as [B3|B3]; cbn [orb].
  { cbn [file_body_okb body_fields]. rewrite Hwb, Hbc, !andb_true_r. unfold fitsb. cbn [forallb fst snd W8 W4].
    rewrite !andb_true_iff, !N.ltb_lt. cbn. unfold NOX. repeat split; lia. }
  cbn [N.ltb N.compare Pos.compare Pos.compare_cont].
  cbn [file_body_okb body_fields]. rewrite Hwb, Hbc, !andb_true_r. unfold fitsb. cbn [forallb fst snd W4].
  rewrite !andb_true_iff, !N.ltb_lt. cbn. repeat split; lia.
Qed.

(* every entry of the fragment table fits its fields *)
Theorem frag_table_okb : forallb frag_okb (frag_table_of st) = true.
Proof.
  destruct (pack_inv hashf dcompress duncompress bs half (length file0) Hdcomp Hbs Hsmall Hhalf files file0 sched eq_refl)
    as (st' & claims & fbd & E & PI & Hfb & _).
  rewrite Hpack in E. inversion E; subst st'. clear E.
  pose proof bs_le as BL.
  apply forallb_forall. intros f Hf. unfold frag_table_of in Hf. apply in_map_iff in Hf. destruct Hf as (i & <- & Hi).
  apply in_seq in Hi. destruct Hi as [_ Hi]. cbn [Nat.add] in Hi.
  unfold frag_okb. cbn [fst snd].
  pose proof PI as [P1 P2 P3 P4 P5 P6 P7 P8 P9 P10 P11 P12 P13].
  destruct (P6 i Hi) as [(fb & C & _)|[[]|(loc & p & H1 & H2 & H3 & H4 & H5)]]; [congruence|].
  rewrite H1. cbn [fst snd].
  pose proof (claim_holds hashf dcompress duncompress bs (length file0) files _ _ _ _ _ _ _ PI H2) as [Hh _].
  cbn [fst snd] in Hh.
  apply andb_true_iff. split; apply N.ltb_lt; [lia|].
  unfold word. rewrite H3. apply sw_of_lt. destruct H4 as (_ & Lp & _). destruct H5 as [_ Hl].
  eapply small_le; [|exact Hsmall]. lia.
Qed.
End BodyOk.
