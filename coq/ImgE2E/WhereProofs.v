(* ImgE2E — where sqfs_xattr_writer_flush starts writing does not depend on what it writes: two runs of write_image that
   differ only in the xattr section agree on every offset in front of it.  (pack_all computes the flush offset from a run
   without the section.) *)
From Coq Require Import List NArith ZArith Bool.
From SqfsV Require Import Base.Bytes Gen.Constants C03.Common.
From SqfsV Require C14.SuperModel.
From SqfsV Require Import C01.Res C01.InodeModel Img.TreeModel.
From SqfsV Require Import Image.FinishModel Image.FinishProofs.
Import ListNotations.
Local Open Scope N_scope.

Lemma write_image_o_xattr compress limit cfg o d f t x1 x2 w1 w2 :
  write_image compress limit cfg (mkIn o d f t x1) = Ok w1 ->
  write_image compress limit cfg (mkIn o d f t x2) = Ok w2 ->
  o_xattr w1 = o_xattr w2.
Proof.
  unfold write_image. cbn [in_opts in_data in_frags in_tree in_xattr].
  destruct (SuperModel.super_init (c_block_size cfg) (c_mtime cfg) (c_comp_id cfg)) as [s0|e|]; try discriminate.
  destruct (serialize_fstree_x compress limit (c_exportable cfg) t) as [[img dw]|e| |]; cbn [bind]; try discriminate.
  match goal with |- context [frag_write ?a ?b ?c ?d ?g] => destruct (frag_write a b c d g) as [[[[fragb fs] fc] fl1]|er| |] end;
    cbn [bind]; try discriminate.
  match goal with |- context [export_write ?a ?b ?c ?d ?k ?f ?g ?h] =>
    destruct (export_write a b c d k f g h) as [[[[xt exportb] es] fl2]|er| |] end; cbn [bind]; try discriminate.
  match goal with |- context [lift ?a] => destruct (lift a) as [[idb ids]|er| |] end; cbn [bind]; try discriminate.
  match goal with |- context [xattr_write ?a x1 ?c ?d ?g] => destruct (xattr_write a x1 c d g) as [[xb1 xs1] fl31] end.
  match goal with |- context [xattr_write ?a x2 ?c ?d ?g] => destruct (xattr_write a x2 c d g) as [[xb2 xs2] fl32] end.
  destruct (c_devblk cfg =? 0); try discriminate.
  intros H1 H2. injection H1 as <-. injection H2 as <-.
  unfold o_xattr, o_id, o_export, o_frag.
  cbn [w_super w_img w_fragb w_exportb w_idb SuperModel.s_dir_start]. reflexivity.
Qed.

(* the same for inputs given as records *)
Lemma write_image_where compress limit cfg inp1 inp2 w1 w2 :
  in_opts inp1 = in_opts inp2 -> in_data inp1 = in_data inp2 -> in_frags inp1 = in_frags inp2 ->
  in_tree inp1 = in_tree inp2 ->
  write_image compress limit cfg inp1 = Ok w1 -> write_image compress limit cfg inp2 = Ok w2 ->
  o_xattr w1 = o_xattr w2.
Proof.
  destruct inp1 as [o1 d1 f1 t1 x1], inp2 as [o2 d2 f2 t2 x2]. cbn [in_opts in_data in_frags in_tree].
  intros <- <- <- <-. apply write_image_o_xattr.
Qed.
