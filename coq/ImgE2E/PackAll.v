(* ImgE2E — ONE packer-level model and ONE reader-level function (definitions only).

   pack_all: gensquashfs after option parsing, as the composition of the layer models of this development

     bin/gensquashfs/src/mkfs.c main()                     model
     sqfs_writer_init: sqfs_super_init, sqfs_super_write,  SuperModel.super_init; [file0] = the 96 byte provisional super
       cmp->write_options, block writer, block processor     block + the compressor's option bytes: what the output file
                                                             holds when the block writer is created
     fstree_from_file / scan_directory                     the add operations they issue: [pi_ops] (front ends: C11, C16, C18)
       -> fstree_add_generic*                              C11 fs_add through ImgPost.Bridge.run_adds
     fstree_post_process                                   C11 PostModel.post_process
     apply_xattrs -> apply_dfs: pre-order over the tree,   C01 XattrModel.xw_sets over [all_paths [] (pp_root pp)] — every
       children in list order, per node begin / add_kv* /    node incl. hard link entries (their index is stored in a tree
       end(&n->xattr_idx)                                    node that is never serialized: the C code does the same) — with
                                                             [pi_xattrs p] = the pairs the sources (-A map file, selinux
                                                             file, host xattrs) yield for that path, in the order add_kv
                                                             is called; [xa_of] = n->xattr_idx
     pack_files: for (node = fs->files; ...) pack_file     C08 DedupModel.pack (block processor front end + back end +
                                                             block writer with deduplication) over [pi_contents] of
                                                             pp_files in that order ([uflags] = n->data.file.flags | -T)
     n->data.file.inode afterwards                         [pack_body]: blocks_start, size, fragment location, block size
                                                             words as the run recorded them; extended (sparse byte count)
                                                             iff a block was sparse
     sqfs_writer_finish                                    Image.FinishModel.write_image on
                                                             in_tree  = ImgPost.Bridge.to_img fb xa pp
                                                             in_data  = what pack appended behind file0
                                                             in_frags = the fragment table pack left
                                                             in_xattr = ImgXattr.FlushModel.xflush at the offset where the
                                                                        id table ends
     The xattr section holds ABSOLUTE offsets (kv start, id block locations), so sqfs_xattr_writer_flush depends on
     file->get_size() when it is entered.  The model obtains that offset ([o_xattr]) from a run of write_image without the
     section (WhereProofs.write_image_where: nothing in front of the section depends on it) and then runs
     write_image with it.

   read_all: what a reader does with the BYTES of the file, from the models of the real readers where they exist

     sqfs_super_read, sqfs_id_table_read,                  ImgReader.ReadImage.read_image_c05 (coq/C05 models)
       sqfs_dir_reader_get_full_hierarchy
     sqfs_frag_table_read / sqfs_read_table                C05 Super.frag_table_read (raw table) + C10 DataModel.frag_entries
     sqfs_data_reader_create / _read (whole file),         C10 DataModel.api_read with ONE reader object threaded through
       the two block caches                                  all files (as rdsquashfs / sqfs2tar do)
     sqfs_xattr_reader_load / _read_all                    ImgXattr.XattrRead.read_xattr_set — the reader SPECIFICATION
                                                             (from doc/format.adoc), NOT the C05 model of xattr_reader.c:
                                                             no refinement between the two exists yet
   The result lists, in directory order, per path: the stat view (ImgPost.PathsModel.pview), the inode number, the
   contents of a regular file, the key/value pairs. *)
From Coq Require Import List NArith ZArith Bool.
From SqfsV Require Import Base.Bytes Gen.Constants C03.Common.
From SqfsV Require C14.SuperModel.
From SqfsV Require Import C01.GenC01 C01.InodeModel C01.XattrModel Img.TreeModel.
From SqfsV Require C01.Res.
From SqfsV Require Import C11.StrOrder C11.FstreeModel C11.PostModel.
From SqfsV Require Import ImgPost.Bridge ImgPost.PathsModel.
From SqfsV Require Import C08.DedupModel.
From SqfsV Require Import Image.FinishModel Image.FinishProofs.
From SqfsV Require Import ImgData.GlueModel ImgData.RealBlocks ImgData.RealReader.
From SqfsV Require Import ImgXattr.FlushModel ImgXattr.XattrRead.
From SqfsV Require C05.RBase C05.Super C05.Dir.
From SqfsV Require C10.MetaModel C10.DataModel.
From SqfsV Require Import ImgReader.Embed ImgReader.ReadImage.
Import ListNotations.

(* ------------------------------------------------------------------ *)
(* packer side                                                          *)
(* ------------------------------------------------------------------ *)

(* bytes of the blocks the back end found sparse: file_ext.sparse += blk->size (backend.c) *)
Definition sparse_bytes (bs : nat) (st : proc) (fid size count : nat) : N :=
  fold_right (fun k acc =>
                match p_size st fid k with
                | Some w => if sw_sparse w then (N.of_nat (Nat.min bs (size - k * bs)) + acc)%N else acc
                | None => acc
                end) 0%N (seq 0 count).

(* n->data.file.inode when pack_files is done: sqfs_inode_set_file_size / _set_file_block_start / _set_frag_location /
   set_block_size / make_extended + sparse (inode.c keeps the basic form whenever every field fits it) *)
Definition pack_body (bs : nat) (st : proc) (fid size : nat) : ibody :=
  let fr := p_frag st fid in
  let count := DedupModel.block_count bs size (has_frag fr) in
  make_basic
    (BFileX (N.of_nat (p_start st fid)) (N.of_nat size) (sparse_bytes bs st fid size count) 1
            (match fr with Some (i, _) => N.of_nat i | None => NOX end)
            (match fr with Some (_, o) => N.of_nat o | None => NOX end)
            NOX (file_words st fid count)).

(* the input of a packing run *)
Record pinput := mkPin {
  pi_defaults : fsdefaults;
  pi_ops : list op;                                  (* fstree_add_generic calls in order *)
  pi_contents : path -> uflags * list N;             (* per regular file: flags and bytes *)
  pi_xattrs : path -> list (list N * list N);        (* per node: the add_kv calls in order *)
  pi_opts : list N;                                  (* what cmp->write_options wrote *)
  pi_sched : list nat                                (* worker pool schedule (C08) *)
}.

(* n->xattr_idx after apply_xattrs *)
Definition xa_of (paths : list path) (idxs : list N) (p : path) : N :=
  match PostModel.index_of p paths with
  | Some k => nth k idxs NOX
  | None => NOX
  end.

(* n->data.file.inode of the regular file at path p: file number = position in fs->files *)
Definition fb_of (bs : nat) (st : proc) (contents : path -> uflags * list N) (files : list path) (p : path) : ibody :=
  match PostModel.index_of p files with
  | Some k => pack_body bs st k (length (snd (contents p)))
  | None => new_file_inode
  end.

(* everything a successful run leaves, for the statements *)
Record prun := mkRun {
  r_fs : fstree;                 (* after the adds *)
  r_pp : ppout;                  (* after fstree_post_process *)
  r_xw : xwr;                    (* the xattr writer after apply_xattrs *)
  r_idxs : list N;               (* the indices end() handed out, in apply_dfs order *)
  r_st : proc;                   (* the block processor / block writer / fragment table after pack_files *)
  r_inp : winput;                (* what sqfs_writer_finish works on *)
  r_w : wimage                   (* the image *)
}.

Inductive pres :=
| PInitErr                               (* sqfs_super_init refuses the block size *)
| PAddErr                                (* an fstree_add_generic call failed *)
| PPostErr                               (* fstree_post_process failed / looped *)
| PXattrErr (r : Res.res unit)           (* the xattr writer refused a key *)
| PDataErr                               (* block processor / block writer error *)
| PFinishErr (r : Res.res unit)          (* sqfs_writer_finish failed *)
| PDone (r : prun).

Definition res_unit {A} (r : Res.res A) : Res.res unit :=
  match r with
  | Res.Ok _ => Res.Ok tt
  | Res.Err e => Res.Err e
  | Res.Crash => Res.Crash
  | Res.OutOfFuel => Res.OutOfFuel
  end.

Section Pack.
  Variable hashf : list N -> N.                                 (* xxh32 of the block writer: arbitrary *)
  Variable dcompress : list N -> option (list N).               (* data compressor *)
  Variable duncompress : list N -> nat -> option (list N).      (* its inverse: the block writer's byte comparison *)
  Variable half : nat.                                          (* SCRATCH_SIZE / 2 of block_writer.c *)
  Variable mcompress : list N -> cres.                          (* metadata compressor *)
  Variable limit : N.                                           (* id table limit *)
  Variable cfg : wcfg.

  Definition pack_files_list (pi : pinput) (pp : ppout) : list (uflags * list N) :=
    map (pi_contents pi) (pp_files pp).

  Definition xattr_paths (pp : ppout) : list path := all_paths [] (pp_root pp).

  Definition pack_inp (pi : pinput) (pp : ppout) (idxs : list N) (st : proc) (file0 : list N)
                      (x : option (list N * N)) : winput :=
    let bs := N.to_nat (c_block_size cfg) in
    mkIn (pi_opts pi) (data_of (length file0) st) (frag_table_of st)
         (to_img (fb_of bs st (pi_contents pi) (pp_files pp)) (xa_of (xattr_paths pp) idxs) pp) x.

  Definition pack_all (pi : pinput) : pres :=
    match SuperModel.super_init (c_block_size cfg) (c_mtime cfg) (c_comp_id cfg) with
    | SuperModel.Ok s0 =>
      let file0 := SuperModel.encode s0 ++ pi_opts pi in
      match run_adds (pi_defaults pi) (fs_init (pi_defaults pi)) (pi_ops pi) with
      | None => PAddErr
      | Some fs =>
        match post_process fs with
        | POk pp =>
          match xw_sets xw_empty (map (pi_xattrs pi) (xattr_paths pp)) with
          | Res.Ok (xw, idxs) =>
            match pack hashf dcompress duncompress (N.to_nat (c_block_size cfg)) false true half file0
                       (pack_files_list pi pp) (pi_sched pi) with
            | DedupModel.Ok st =>
              (* file->get_size() when sqfs_xattr_writer_flush is entered *)
              match write_image mcompress limit cfg (pack_inp pi pp idxs st file0 None) with
              | Res.Ok w0 =>
                match xflush mcompress (o_xattr w0) xw with
                | Res.Ok x =>
                  let inp := pack_inp pi pp idxs st file0 x in
                  match write_image mcompress limit cfg inp with
                  | Res.Ok w => PDone (mkRun fs pp xw idxs st inp w)
                  | r => PFinishErr (res_unit r)
                  end
                | r => PFinishErr (res_unit r)
                end
              | r => PFinishErr (res_unit r)
              end
            | _ => PDataErr
            end
          | r => PXattrErr (res_unit r)
          end
        | _ => PPostErr
        end
      end
    | _ => PInitErr
    end.

  Definition pack_all_bytes (pi : pinput) : option (list N) :=
    match pack_all pi with
    | PDone r => Some (image_bytes (r_w r))
    | _ => None
    end.
End Pack.

(* ------------------------------------------------------------------ *)
(* reader side                                                          *)
(* ------------------------------------------------------------------ *)

(* one path of the image *)
Record rentry := mkRe {
  re_path : path;
  re_view : pview;                            (* type + permission bits, uid, gid, mtime, xattr index, kind *)
  re_ino : N;                                 (* inode number: equal numbers = hard links of each other *)
  re_data : option (list N);                  (* contents, for a regular file *)
  re_xattrs : list (list N * list N)          (* key/value pairs *)
}.

(* the super block fields in the vocabulary of the xattr reader specification (it looks at xattr_id_table_start only) *)
Definition sm_of (s : Super.sup) : SuperModel.super :=
  SuperModel.mkSuper c_SQFS_MAGIC (Super.s_inode_count s) (Super.s_mtime s) (Super.s_block_size s)
    (Super.s_frag_count s) (Super.s_comp s) (Super.s_block_log s) (Super.s_flags s) (Super.s_id_count s)
    c_SQFS_VERSION_MAJOR c_SQFS_VERSION_MINOR
    (Super.s_root s) (Super.s_bytes_used s) (Super.s_id_start s) (Super.s_xattr_start s) (Super.s_inode_start s)
    (Super.s_dir_start s) (Super.s_frag_start s) (Super.s_export_start s).

Definition of_out {A} (r : MetaModel.out A) : RBase.res A :=
  match r with
  | MetaModel.Ok a => RBase.Ok a
  | MetaModel.Err e => RBase.Err e
  | MetaModel.Crash => RBase.Crash
  | MetaModel.Fuel => RBase.OutOfFuel
  end.

Definition of_res {A} (r : Res.res A) : RBase.res A :=
  match r with
  | Res.Ok a => RBase.Ok a
  | Res.Err e => RBase.Err e
  | Res.Crash => RBase.Crash
  | Res.OutOfFuel => RBase.OutOfFuel
  end.

Section Read.
  Variable uc : list N -> N -> RBase.res (list N).          (* metadata blocks, C style (C05) *)
  Variable muncompress : list N -> option (list N).          (* metadata blocks, for the xattr reader specification *)
  Variable duncompress : list N -> nat -> option (list N).   (* data blocks *)
  Variable img : list N.

  Notation U := (U_of duncompress).
  Notation file := (MetaModel.read_at img).

  (* sqfs_data_reader_read of the whole file *)
  Definition read_contents (bsize : N) (dr : DataModel.dr) (k : lkind)
    : RBase.res (option (list N)) * DataModel.dr :=
    match finode_of_lkind k with
    | Some f =>
      let '(r, dr') := DataModel.api_read U file bsize true dr f 0 (DataModel.f_size f) in
      (RBase.bind (of_out r) (fun d => RBase.Ok (Some d)), dr')
    | None => (RBase.Ok None, dr)
    end.

  Fixpoint read_nodes (s : Super.sup) (dr : DataModel.dr) (l : list (path * pview * N)) : RBase.res (list rentry) :=
    match l with
    | [] => RBase.Ok []
    | (p, v, ino) :: rest =>
      let '(rd, dr') := read_contents (Super.s_block_size s) dr (pv_kind v) in
      RBase.bind rd (fun d =>
      RBase.bind (of_res (read_xattr_set muncompress img (sm_of s) (pv_xattr v))) (fun x =>
      RBase.bind (read_nodes s dr' rest) (fun tl =>
      RBase.Ok (mkRe p v ino d x :: tl))))
    end.

  Definition frag_table_of_raw (raw : list N) : list (N * N) :=
    DataModel.frag_entries (N.to_nat (RBase.lenN raw / sizeof_sqfs_fragment_t)) raw.

  Definition read_all (depth efuel fuel : nat) : RBase.res (list rentry) :=
    RBase.bind (read_image_c05 uc depth efuel fuel img) (fun '(s, ids, T) =>
    RBase.bind (Super.frag_table_read uc img fuel s) (fun raw =>
    read_nodes s (DataModel.mkDr (frag_table_of_raw raw) None None) (flat_lt [] (ltree_of T)))).
End Read.
