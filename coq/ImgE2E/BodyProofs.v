(* ImgE2E — the file inode pack_all attaches to a regular file shows a reader exactly what the block processor recorded
   (GlueModel.file_lkind): this discharges the hypothesis "the inode view read back equals file_lkind" of
   image_file_contents_roundtrip / image_real_reader_agrees. *)
From Coq Require Import List NArith ZArith Bool Lia.
From SqfsV Require Import Base.Bytes Gen.Constants.
From SqfsV Require Import C01.GenC01 C01.InodeModel Img.TreeModel.
From SqfsV Require Import C08.DedupModel.
From SqfsV Require Import ImgData.GlueModel.
From SqfsV Require Import ImgE2E.PackAll.
Import ListNotations.
Local Open Scope N_scope.

Lemma lkind_make_basic_file bs fs sp nl fi fo bl :
  lkind_of_body (make_basic (BFileX bs fs sp nl fi fo NOX bl)) = LFile bs fs sp fi fo bl.
Proof.
  unfold make_basic. cbn [get_xattr_index]. rewrite N.eqb_refl. cbn [negb].
  destruct (U32MAX <? bs); [reflexivity|]. destruct (U32MAX <? fs); [reflexivity|]. cbn [orb].
  destruct (N.ltb_spec 0 sp) as [|H]; [reflexivity|]. cbn [orb].
  destruct (1 <? nl); [reflexivity|]. cbn [lkind_of_body]. replace sp with 0 by lia. reflexivity.
Qed.

Lemma pack_body_lkind bs st fid size :
  lkind_of_body (pack_body bs st fid size)
  = file_lkind bs st fid size
      (sparse_bytes bs st fid size (DedupModel.block_count bs size (has_frag (p_frag st fid)))).
Proof. unfold pack_body, file_lkind. apply lkind_make_basic_file. Qed.
