(* C06 — tree_sort's duplicate check as a function on one sibling list (strengthening after seed C06-10).

   bin/rdsquashfs/src/rdsquashfs.c, tree_sort():
       root->children = list_sort(root->children);
       for (it = root->children; it->next != NULL; it = it->next)
           if (strcmp(it->name, it->next->name) == 0) { "Entry '%s' found more than once!"; return -1; }
   The loop compares NAMES ONLY: no other field of the two entries (inode number, inode reference, type, size)
   takes part.  [dup_check ch] = Some s: the level is accepted and s is the sorted list the walks use.

   dup_check_establishes_nodup_l : an accepted level has pairwise distinct names - the hypothesis (sorted_ok /
   NoDup (map iname ch)) under which the confinement theorems of UnpackProofs.v are proved.
   adjacent_dup_ino : the variant of seed C06-10 (two equal names pass when the two inodes carry the same
   inode number, an image-controlled field); it does not establish the hypothesis (Properties_C06.v:
   dup_check_ino_exempt_refuted gives a sibling list that passes and whose operation list leaves R). *)
From Coq Require Import List NArith Bool Arith Lia Permutation Sorting.Sorted RelationClasses.
From SqfsV Require Import C18.CanonModel C18.CanonSpec C18.CanonProofs C06.UnpackModel C06.SortProofs.
Import ListNotations.
Local Open Scope N_scope.

Definition dup_check (ch : list itree) : option (list itree) :=
  match list_sort (S (length ch)) ch with
  | Some s => if adjacent_dup s then None else Some s
  | None => None
  end.

Lemma dup_check_establishes_nodup_l ch s :
  dup_check ch = Some s ->
  Permutation s ch /\ Sorted le_t s /\ NoDup (map iname s) /\ NoDup (map iname ch).
Proof.
  unfold dup_check. intro H.
  destruct (list_sort_ok (S (length ch)) ch) as (s0 & E & P & So); [lia|].
  rewrite E in H. destruct (adjacent_dup s0) eqn:D; [discriminate|]. inversion H; subst s0.
  assert (NoDup (map iname s)) as N.
  { apply adjacent_dup_nodup; [|exact D]. apply Sorted_StronglySorted; [exact le_t_trans|exact So]. }
  repeat split; try assumption.
  apply (Permutation_NoDup (l := map iname s)); [apply Permutation_map; exact P|exact N].
Qed.

(* ... and nothing else is refused: the check fails only for a level that has two equal names *)
Lemma dup_check_complete_l ch : NoDup (map iname ch) -> exists s, dup_check ch = Some s.
Proof.
  intro N. unfold dup_check.
  destruct (list_sort_ok (S (length ch)) ch) as (s0 & E & P & So); [lia|].
  rewrite E. rewrite nodup_adjacent; [eexists; reflexivity|].
  apply (Permutation_NoDup (l := map iname ch)); [apply Permutation_map; symmetry; exact P|exact N].
Qed.

(* dup_check is what tree_sort does at every level (children already processed) *)
Lemma dup_check_is_tree_sort_l n k tg xk ch ch' :
  sort_all tree_sort ch = Some (Some ch') ->
  tree_sort (INode n k tg xk ch) =
    match dup_check ch' with Some s => SortOk (INode n k tg xk s) | None => SortDup end.
Proof.
  intro H. cbn [tree_sort]. rewrite H. unfold dup_check.
  destruct (list_sort_ok (S (length ch')) ch') as (s0 & E & _); [lia|].
  rewrite E. destruct (adjacent_dup s0); reflexivity.
Qed.

(* MODEL OF SEED C06-10's CHANGE (not of the code): siblings paired with the inode_number field of their
   inodes; equal names are let through when the numbers agree *)
Fixpoint adjacent_dup_ino (l : list (itree * N)) : bool :=
  match l with
  | a :: ((b :: _) as r) =>
    (list_N_eqb (iname (fst a)) (iname (fst b)) && negb (N.eqb (snd a) (snd b))) || adjacent_dup_ino r
  | _ => false
  end.

(* with pairwise distinct inode numbers the variant is the check *)
Lemma adjacent_dup_ino_distinct l :
  NoDup (map snd l) -> adjacent_dup_ino l = adjacent_dup (map fst l).
Proof.
  induction l as [|a l IH]; intro N; [reflexivity|].
  destruct l as [|b r]; [reflexivity|].
  inversion N as [|? ? Hn Hr]; subst.
  change (adjacent_dup_ino (a :: b :: r)) with
    ((list_N_eqb (iname (fst a)) (iname (fst b)) && negb (N.eqb (snd a) (snd b))) || adjacent_dup_ino (b :: r)).
  change (adjacent_dup (map fst (a :: b :: r))) with
    (list_N_eqb (iname (fst a)) (iname (fst b)) || adjacent_dup (map fst (b :: r))).
  rewrite (IH Hr). f_equal.
  destruct (N.eqb_spec (snd a) (snd b)) as [E|E].
  - exfalso. apply Hn. simpl. left. symmetry. exact E.
  - simpl. apply andb_true_r.
Qed.
