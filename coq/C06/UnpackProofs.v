(* C06 — what the three tree walks produce: every operation comes from a
   visited node of the (sorted) tree, its path is the clean join of the node's
   names, a symbolic link of the image is never a prefix of another node's
   path, directories are made before anything below them, skipped entries
   only remove their own subtree. *)
From Coq Require Import List NArith Bool Arith Lia Permutation.
From SqfsV Require Import C18.CanonModel C18.CanonSpec C18.CanonProofs
     C06.UnpackModel C06.SortProofs.
Import ListNotations.
Local Open Scope N_scope.

Notation comp := (list N) (only parsing).

(* a name the walks accept and sqfs_tree_node_get_path can use *)
Definition clean_name (n : list N) : Prop := sane n = true /\ n <> [].

Lemma sane_facts n : sane n = true ->
  is_dot n = false /\ is_dotdot n = false /\ has_slash n = false.
Proof.
  unfold sane, is_filename_sane_model, is_dot, is_dotdot.
  destruct (list_N_eqb n [dot]); [discriminate|].
  destruct (list_N_eqb n [dot; dot]); [discriminate|]. simpl.
  destruct (has_slash n); [discriminate|]. auto.
Qed.

Lemma clean_name_good n : clean_name n -> good n.
Proof. intros [H Hn]. split; [exact Hn|]. apply sane_facts in H. tauto. Qed.

Lemma clean_name_clean_comp n : clean_name n -> clean_comp n.
Proof.
  intros [H Hn]. apply sane_iff_l in H as (H1 & H2 & H3). repeat split; assumption.
Qed.

Lemma clean_name_ok_for_path n : clean_name n -> name_ok_for_path n = true.
Proof.
  intros [H Hn]. unfold name_ok_for_path. apply sane_facts in H as (H1 & H2 & H3).
  unfold is_dot, is_dotdot in *. rewrite H1, H2, H3.
  destruct n; [contradiction|reflexivity].
Qed.

Lemma Forall_clean_good cs : Forall clean_name cs -> Forall good cs.
Proof. intro H. eapply Forall_impl; [|exact H]. exact clean_name_good. Qed.

(* ---------- sqfs_tree_node_get_path + canonicalize_name ---------- *)
Lemma concat_slash_pj cs : concat (map (fun c => slash :: c) cs) = pj cs.
Proof.
  induction cs as [|c r IH]; [reflexivity|].
  cbn [map concat]. rewrite IH. unfold pj at 2. rewrite join_cons. reflexivity.
Qed.

Lemma canon_result_ok s r : canon_result s = Some r -> canon_model s = CanonOk r.
Proof.
  unfold canon_result. destruct (canon_model s); intro H; inversion H; reflexivity.
Qed.

Lemma comps_pj cs : Forall good cs -> comps (pj cs) = cs.
Proof.
  intro H. destruct cs as [|c r]; [reflexivity|].
  unfold pj. unfold comps. cbn [split_slash]. rewrite N.eqb_refl. cbn [filter nonempty].
  apply (comps_join (c :: r) H).
Qed.

Lemma filter_notdot_clean cs : Forall clean_name cs ->
  filter (fun c => negb (is_dot c)) cs = cs /\ existsb is_dotdot cs = false.
Proof.
  induction 1 as [|c l [Hc _] _ [IH1 IH2]]; [split; reflexivity|].
  apply sane_facts in Hc as (H1 & H2 & _). simpl. rewrite H1, H2, IH1, IH2. split; reflexivity.
Qed.

Lemma canon_pj cs : Forall clean_name cs -> canon_model (pj cs) = CanonOk (join cs).
Proof.
  intro H. apply canon_result_ok. rewrite canon_refines_l. unfold canon_spec.
  rewrite comps_pj by (apply Forall_clean_good; exact H).
  destruct (filter_notdot_clean cs H) as [E1 E2]. rewrite E1, E2. reflexivity.
Qed.

Lemma node_path_clean chain :
  Forall clean_name chain -> chain <> [] -> node_path [] chain = POk (join chain).
Proof.
  intros H Hn. unfold node_path, get_path_model.
  assert (forallb name_ok_for_path chain = true) as ->.
  { apply forallb_forall. rewrite Forall_forall in H. intros x Hx.
    apply clean_name_ok_for_path. auto. }
  cbn [nonempty]. destruct chain as [|c r]; [contradiction|].
  rewrite concat_slash_pj. rewrite canon_pj by exact H. reflexivity.
Qed.

Lemma node_path_root : node_path [] [] = POk [].
Proof. vm_compute. reflexivity. Qed.

Lemma node_path_named_root rn chain : rn <> [] -> node_path rn chain = PErr.
Proof.
  intro H. unfold node_path, get_path_model.
  destruct (forallb name_ok_for_path chain); [|reflexivity].
  destruct rn; [contradiction|reflexivity].
Qed.

Lemma node_path_empty_name anc : node_path [] (anc ++ [[]]) = PErr.
Proof.
  unfold node_path, get_path_model. rewrite forallb_app. cbn.
  rewrite andb_false_r. reflexivity.
Qed.

(* the chain a walk has reached: all names were accepted by is_filename_sane;
   either all are non-empty (then the path is their join) or the last one is
   empty (then path construction fails) *)
Lemma node_path_cases rn anc n :
  Forall clean_name anc -> sane n = true ->
  node_path rn (anc ++ [n]) = PErr \/
  (rn = [] /\ clean_name n /\ node_path rn (anc ++ [n]) = POk (join (anc ++ [n]))).
Proof.
  intros Ha Hn. destruct rn as [|x rn]; [|left; apply node_path_named_root; discriminate].
  destruct n as [|y n]; [left; apply node_path_empty_name|].
  right. split; [reflexivity|]. assert (clean_name (y :: n)) as Hc by (split; [exact Hn|discriminate]).
  split; [exact Hc|]. apply node_path_clean.
  - apply Forall_app. split; [exact Ha|]. constructor; [exact Hc|constructor].
  - destruct anc; discriminate.
Qed.

(* ---------- the nodes a walk visits ---------- *)
Fixpoint visit (anc : list comp) (t : itree) : list (list comp * kind) :=
  match t with
  | INode n k _ _ ch =>
    if negb (sane n) then []
    else (anc ++ [n], k) :: (if is_dir k then flat_map (visit (anc ++ [n])) ch else [])
  end.

Definition visit_root (t : itree) : list (list comp * kind) :=
  match t with
  | INode _ k _ _ ch => if is_dir k then flat_map (visit []) ch else []
  end.

Definition op_path (o : op) : option (list N) :=
  match o with
  | OMkdir p | OSymlink _ p | OMknod p | OCreatExcl p | OOpenTrunc p
  | OSetxattr p _ | OUtimens p | OChown p | OChmod p => Some p
  | OAbort | OAssert => None
  end.

(* which kind of node an operation can come from *)
Definition op_kind_ok (o : op) (k : kind) : Prop :=
  match o with
  | OMkdir _ => k = KDir
  | OSymlink _ _ => k = KLnk
  | OCreatExcl _ | OOpenTrunc _ => k = KReg
  | OMknod _ => k <> KDir /\ k <> KLnk /\ k <> KReg
  | OChmod _ => k <> KLnk
  | _ => True
  end.

(* the operation is the tool giving up, or a call on the path of a visited node *)
Definition op_from (rn : list N) (NS : list (list comp * kind)) (o : op) : Prop :=
  o = OAbort \/
  (rn = [] /\
   exists cs k, In (cs, k) NS /\ Forall clean_name cs /\ cs <> [] /\
                op_path o = Some (join cs) /\ op_kind_ok o k).

Lemma op_from_incl rn NS NS' o : incl NS NS' -> op_from rn NS o -> op_from rn NS' o.
Proof.
  intros Hi [H|(Er & cs & k & H1 & H2)]; [left; exact H|right]. split; [exact Er|].
  exists cs, k. split; [apply Hi; exact H1|exact H2].
Qed.

Lemma Forall_op_from_incl rn NS NS' l : incl NS NS' -> Forall (op_from rn NS) l -> Forall (op_from rn NS') l.
Proof. intros Hi H. eapply Forall_impl; [|exact H]. intro o. apply op_from_incl. exact Hi. Qed.

Lemma create_op_kind_ok k tg p : op_kind_ok (create_op k tg p) k.
Proof. destruct k; simpl; repeat split; discriminate || reflexivity. Qed.

Lemma create_op_path k tg p : op_path (create_op k tg p) = Some p.
Proof. destruct k; reflexivity. Qed.

Lemma Forall_flat_map {A B} (P : B -> Prop) (f : A -> list B) l :
  (forall x, In x l -> Forall P (f x)) -> Forall P (flat_map f l).
Proof.
  intro H. induction l as [|x l IH]; simpl; [constructor|].
  apply Forall_app. split; [apply H; left; reflexivity|]. apply IH. intros y Hy. apply H. right. exact Hy.
Qed.

Lemma incl_flat_map_elem {A B} (f : A -> list B) l x : In x l -> incl (f x) (flat_map f l).
Proof. intros Hx y Hy. apply in_flat_map. exists x. auto. Qed.

Lemma create_dfs_from rn t : forall anc,
  Forall clean_name anc -> Forall (op_from rn (visit anc t)) (create_dfs rn anc t).
Proof.
  induction t as [n k tg xk ch IH] using itree_ind'. intros anc Ha.
  cbn [create_dfs visit]. destruct (sane n) eqn:Hs; cbn [negb]; [|constructor].
  destruct (node_path_cases rn anc n Ha Hs) as [E|(Er & Hc & E)]; rewrite E.
  - constructor; [left; reflexivity|constructor].
  - assert (Forall clean_name (anc ++ [n])) as Ha'.
    { apply Forall_app. split; [exact Ha|]. constructor; [exact Hc|constructor]. }
    constructor.
    + right. split; [exact Er|]. exists (anc ++ [n]), k. split; [left; reflexivity|]. split; [exact Ha'|].
      split; [destruct anc; discriminate|]. split; [apply create_op_path|apply create_op_kind_ok].
    + destruct (is_dir k); [|constructor].
      apply Forall_flat_map. intros c Hc'. rewrite Forall_forall in IH.
      eapply Forall_op_from_incl; [|apply (IH c Hc' _ Ha')].
      intros x Hx. right. apply in_flat_map. exists c. auto.
Qed.

Definition fitem_from (rn : list N) (NS : list (list comp * kind)) (i : fitem) : Prop :=
  match i with
  | FErr => True
  | FPath p => rn = [] /\ exists cs, In (cs, KReg) NS /\ Forall clean_name cs /\ cs <> [] /\ p = join cs
  end.

Lemma gen_files_from rn t : forall anc,
  Forall clean_name anc -> Forall (fitem_from rn (visit anc t)) (gen_files rn anc t).
Proof.
  induction t as [n k tg xk ch IH] using itree_ind'. intros anc Ha.
  cbn [gen_files visit]. destruct (sane n) eqn:Hs; cbn [negb]; [|constructor].
  destruct k; cbn [is_reg is_dir]; try constructor.
  - (* directory *)
    apply Forall_flat_map. intros c Hc'.
    destruct (node_path_cases rn anc n Ha Hs) as [E|(Er & Hc & E)].
    + (* an unusable name above: the children still produce items, but only FErr *)
      rewrite Forall_forall in IH.
      destruct n as [|y n].
      * (* empty name *)
        clear E. assert (forall anc' t', Forall (fun i => i = FErr \/ False) (gen_files rn (anc ++ [[]] ++ anc') t')) as HE.
        { intros anc' t'. revert anc'. induction t' as [n' k' tg' xk' ch' IH'] using itree_ind'. intro anc'.
          cbn [gen_files]. destruct (sane n'); cbn [negb]; [|constructor].
          destruct k'; cbn [is_reg is_dir]; try constructor.
          - apply Forall_flat_map. intros c0 Hc0. rewrite Forall_forall in IH'.
            specialize (IH' c0 Hc0 (anc' ++ [n'])). rewrite <- !app_assoc in *. exact IH'.
          - left. unfold file_item, node_path, get_path_model.
            rewrite !forallb_app. cbn. rewrite andb_false_r. reflexivity.
          - constructor. }
        specialize (HE [] c). rewrite app_nil_r in HE.
        eapply Forall_impl; [|exact HE]. intros i [->|[]]. exact I.
      * destruct rn as [|x rn].
        -- exfalso. assert (clean_name (y :: n)) as Hc by (split; [exact Hs|discriminate]).
           rewrite node_path_clean in E; [discriminate| |destruct anc; discriminate].
           apply Forall_app. split; [exact Ha|]. constructor; [exact Hc|constructor].
        -- assert (forall anc' t', Forall (fun i => i = FErr \/ False) (gen_files (x :: rn) anc' t')) as HE.
           { intros anc' t'. revert anc'. induction t' as [n' k' tg' xk' ch' IH'] using itree_ind'. intro anc'.
             cbn [gen_files]. destruct (sane n'); cbn [negb]; [|constructor].
             destruct k'; cbn [is_reg is_dir]; try constructor.
             - apply Forall_flat_map. intros c0 Hc0. rewrite Forall_forall in IH'. apply IH'. exact Hc0.
             - left. unfold file_item. rewrite node_path_named_root by discriminate. reflexivity.
             - constructor. }
           eapply Forall_impl; [|apply HE]. intros i [->|[]]. exact I.
    + assert (Forall clean_name (anc ++ [n])) as Ha'.
      { apply Forall_app. split; [exact Ha|]. constructor; [exact Hc|constructor]. }
      rewrite Forall_forall in IH.
      eapply Forall_impl; [|apply (IH c Hc' _ Ha')].
      intros i Hi. destruct i as [p|]; [|exact I].
      destruct Hi as (Er' & cs & H1 & H2). split; [exact Er'|]. exists cs. split; [|exact H2].
      right. apply in_flat_map. exists c. auto.
  - (* regular file *)
    unfold file_item.
    destruct (node_path_cases rn anc n Ha Hs) as [E|(Er & Hc & E)]; rewrite E; [exact I|].
    split; [exact Er|]. exists (anc ++ [n]). split; [left; reflexivity|]. split.
    + apply Forall_app. split; [exact Ha|]. constructor; [exact Hc|constructor].
    + split; [destruct anc; discriminate|reflexivity].
  - constructor.
Qed.

Lemma attr_ops_from NS fl k xk cs :
  In (cs, k) NS -> Forall clean_name cs -> cs <> [] ->
  Forall (op_from [] NS) (attr_ops fl k xk (join cs)).
Proof.
  intros Hin Hc Hn. unfold attr_ops.
  assert (forall o, op_path o = Some (join cs) -> op_kind_ok o k -> op_from [] NS o) as Hmk.
  { intros o H1 H2. right. split; [reflexivity|]. exists cs, k. auto. }
  apply Forall_app; split; [|apply Forall_app; split; [|apply Forall_app; split]].
  - destruct (f_xattr fl); [|constructor]. apply Forall_forall. intros o Ho.
    apply in_map_iff in Ho as (key & <- & _). apply Hmk; simpl; auto.
  - destruct (f_times fl); [|constructor]. constructor; [|constructor]. apply Hmk; simpl; auto.
  - destruct (f_chown fl); [|constructor]. constructor; [|constructor]. apply Hmk; simpl; auto.
  - destruct (f_chmod fl); cbn [andb]; [|constructor].
    destruct k; cbn [is_lnk negb]; try (constructor; fail);
      (constructor; [apply Hmk; simpl; auto; discriminate|constructor]).
Qed.

Lemma attr_dfs_from fl rn t : forall anc,
  Forall clean_name anc -> Forall (op_from rn (visit anc t)) (attr_dfs fl rn anc t).
Proof.
  induction t as [n k tg xk ch IH] using itree_ind'. intros anc Ha.
  cbn [attr_dfs visit]. destruct (sane n) eqn:Hs; cbn [negb]; [|constructor].
  unfold attr_self.
  destruct (node_path_cases rn anc n Ha Hs) as [E|(Er & Hc & E)].
  - (* path construction fails at this node: so it does everywhere below *)
    apply Forall_app. split.
    + destruct (is_dir k); [|constructor].
      apply Forall_flat_map. intros c Hc'.
      assert (forall anc' t', node_path rn (anc ++ [n]) = PErr ->
                Forall (fun o => o = OAbort) (attr_dfs fl rn (anc ++ [n] ++ anc') t')) as HE.
      { intros anc' t' EP. revert anc'.
        induction t' as [n' k' tg' xk' ch' IH'] using itree_ind'. intro anc'.
        cbn [attr_dfs]. destruct (sane n'); cbn [negb]; [|constructor].
        apply Forall_app. split.
        - destruct (is_dir k'); [|constructor]. apply Forall_flat_map. intros c0 Hc0.
          rewrite Forall_forall in IH'. specialize (IH' c0 Hc0 (anc' ++ [n'])).
          rewrite <- !app_assoc in *. exact IH'.
        - unfold attr_self.
          assert (node_path rn ((anc ++ [n] ++ anc') ++ [n']) = PErr) as ->; [|constructor; [reflexivity|constructor]].
          revert EP. unfold node_path, get_path_model. rewrite !forallb_app.
          destruct rn as [|x rn'].
          + destruct (forallb name_ok_for_path anc); cbn [andb]; [|reflexivity].
            destruct (forallb name_ok_for_path [n]) eqn:En; cbn [andb]; [|reflexivity].
            intro EP. exfalso. cbn [nonempty] in EP.
            destruct (anc ++ [n]) eqn:Eq; [destruct anc; discriminate|].
            destruct (canon_model _); discriminate.
          + intros _. destruct (_ && _); reflexivity. }
      specialize (HE [] c E). rewrite app_nil_r in HE.
      eapply Forall_impl; [|exact HE]. intros o ->. left. reflexivity.
    + rewrite E. constructor; [left; reflexivity|constructor].
  - assert (Forall clean_name (anc ++ [n])) as Ha'.
    { apply Forall_app. split; [exact Ha|]. constructor; [exact Hc|constructor]. }
    apply Forall_app. split.
    + destruct (is_dir k); [|constructor].
      apply Forall_flat_map. intros c Hc'. rewrite Forall_forall in IH.
      eapply Forall_op_from_incl; [|apply (IH c Hc' _ Ha')].
      intros x Hx. right. apply in_flat_map. exists c. auto.
    + rewrite E. subst rn. apply attr_ops_from; [left; reflexivity|exact Ha'|destruct anc; discriminate].
Qed.

(* operations with the empty path: only a non-directory root produces them *)
Definition op_root_empty (o : op) : Prop := op_path o = Some [] \/ o = OAbort.

Definition op_ok (rn : list N) (NS : list (list comp * kind)) (o : op) : Prop :=
  op_from rn NS o \/ op_path o = Some [].

Lemma attr_ops_root fl k xk : Forall (fun o => op_path o = Some []) (attr_ops fl k xk []).
Proof.
  unfold attr_ops. apply Forall_app; split; [|apply Forall_app; split; [|apply Forall_app; split]].
  - destruct (f_xattr fl); [|constructor]. apply Forall_forall. intros o Ho.
    apply in_map_iff in Ho as (key & <- & _). reflexivity.
  - destruct (f_times fl); repeat constructor.
  - destruct (f_chown fl); repeat constructor.
  - destruct (f_chmod fl && negb (is_lnk k)); repeat constructor.
Qed.

Lemma node_path_root_cases rn : node_path rn [] = PErr \/ (rn = [] /\ node_path rn [] = POk []).
Proof.
  destruct rn; [right; split; [reflexivity|apply node_path_root]|left; apply node_path_named_root; discriminate].
Qed.

Section Order.
  Variable order : list (list N) -> list (list N).
  Hypothesis order_perm : forall l, Permutation l (order l).

  Lemma ops_of_sorted_ok fl t : Forall (op_ok (iname t) (visit_root t)) (ops_of_sorted order fl t).
  Proof.
    destruct t as [n k tg xk ch]. cbn [iname]. unfold ops_of_sorted. apply Forall_app; split; [|apply Forall_app; split].
    - (* restore *)
      cbn [restore visit_root]. destruct (is_dir k) eqn:Hk.
      + apply Forall_flat_map. intros c Hc.
        eapply Forall_impl; [|apply (create_dfs_from n c [])]; [|constructor].
        intros o Ho. left. eapply op_from_incl; [|exact Ho]. apply incl_flat_map_elem. exact Hc.
      + destruct (sane n); cbn [negb]; [|constructor].
        destruct (node_path_root_cases n) as [E|[_ E]]; rewrite E; (constructor; [|constructor]).
        * left. left. reflexivity.
        * right. apply create_op_path.
    - (* fill *)
      unfold fill. destruct (existsb fitem_is_err (gen_files_root (INode n k tg xk ch))) eqn:EE.
      + constructor; [left; left; reflexivity|constructor].
      + assert (Forall (fun p => p = [] \/ (n = [] /\ exists cs, In (cs, KReg) (visit_root (INode n k tg xk ch)) /\
                                  Forall clean_name cs /\ cs <> [] /\ p = join cs))
                       (fitem_paths (gen_files_root (INode n k tg xk ch)))) as HF.
        { cbn [gen_files_root visit_root]. destruct (sane n); cbn [negb]; [|constructor].
          destruct (is_reg k).
          - unfold file_item. destruct (node_path_root_cases n) as [E|[_ E]]; rewrite E; cbn [fitem_paths];
              [constructor|constructor; [left; reflexivity|constructor]].
          - destruct (is_dir k); [|constructor].
            assert (Forall (fitem_from n (flat_map (visit []) ch)) (flat_map (gen_files n []) ch)) as HG.
            { apply Forall_flat_map. intros c Hc.
              eapply Forall_impl; [|apply (gen_files_from n c [])]; [|constructor].
              intros i Hi. destruct i as [p|]; [|exact I]. destruct Hi as (Er' & cs & H1 & H2).
              split; [exact Er'|]. exists cs. split; [|exact H2]. apply in_flat_map. exists c. auto. }
            induction HG as [|i l Hi _ IHl]; [constructor|].
            destruct i as [p|]; cbn [fitem_paths]; [|exact IHl].
            constructor; [right; exact Hi|exact IHl]. }
        apply Forall_forall. intros o Ho. apply in_map_iff in Ho as (p & <- & Hp).
        apply (Permutation_in _ (Permutation_sym (order_perm _))) in Hp.
        rewrite Forall_forall in HF. destruct (HF p Hp) as [->|(H0 & cs & H1 & H2 & H3 & ->)].
        * right. reflexivity.
        * left. right. split; [exact H0|]. exists cs, KReg. simpl. auto.
    - (* attribs *)
      unfold attribs. destruct (any_attr_flag fl); cbn [negb]; [|constructor].
      cbn [visit_root]. destruct (is_dir k) eqn:Hk.
      + apply Forall_flat_map. intros c Hc.
        eapply Forall_impl; [|apply (attr_dfs_from fl n c [])]; [|constructor].
        intros o Ho. left. eapply op_from_incl; [|exact Ho]. apply incl_flat_map_elem. exact Hc.
      + destruct (sane n); cbn [negb]; [|constructor]. unfold attr_self.
        destruct (node_path_root_cases n) as [E|[_ E]]; rewrite E.
        * constructor; [left; left; reflexivity|constructor].
        * eapply Forall_impl; [|apply attr_ops_root]. intros o Ho. right. exact Ho.
  Qed.

  (* the model never reaches the assert() behind canonicalize_name *)
  Lemma ops_never_assert fl t : ~ In OAssert (ops_of_sorted order fl t).
  Proof.
    intro H. pose proof (ops_of_sorted_ok fl t) as F. rewrite Forall_forall in F.
    destruct (F _ H) as [[E|(_ & cs & k & _ & _ & _ & E & _)]|E]; discriminate.
  Qed.
End Order.

(* ---------- a symbolic link is never a proper prefix of a visited path ---------- *)
Lemma visit_prefix t : forall anc p k, In (p, k) (visit anc t) -> exists r, p = anc ++ iname t :: r.
Proof.
  induction t as [n kk tg xk ch IH] using itree_ind'. intros anc p k Hin.
  cbn [visit] in Hin. destruct (sane n); cbn [negb] in Hin; [|contradiction].
  destruct Hin as [E|Hin].
  - inversion E; subst. exists []. reflexivity.
  - destruct (is_dir kk); [|contradiction].
    apply in_flat_map in Hin as (c & Hc & Hin). rewrite Forall_forall in IH.
    destruct (IH c Hc _ _ _ Hin) as (r & ->). exists (iname c :: r).
    rewrite <- app_assoc. reflexivity.
Qed.

Lemma NoDup_map_In_eq {A B} (f : A -> B) l a b :
  NoDup (map f l) -> In a l -> In b l -> f a = f b -> a = b.
Proof.
  induction l as [|x l IH]; intros Hn Ha Hb E; [contradiction|].
  simpl in Hn. inversion Hn as [|? ? Hx Hl]; subst.
  destruct Ha as [->|Ha], Hb as [->|Hb]; auto.
  - exfalso. apply Hx. rewrite E. apply in_map. exact Hb.
  - exfalso. apply Hx. rewrite <- E. apply in_map. exact Ha.
Qed.

Definition link_leaf (NS : list (list comp * kind)) : Prop :=
  forall s p k r, In (s, KLnk) NS -> In (p, k) NS -> p = s ++ r -> r = [] /\ k = KLnk.

Lemma visit_link_leaf t : sorted_ok t -> forall anc, link_leaf (visit anc t).
Proof.
  induction t as [n kk tg xk ch IH] using itree_ind'. intros Hok.
  inversion Hok as [? ? ? ? ? Hnd Hch]; subst. intros anc s p k r Hs Hp E.
  cbn [visit] in Hs, Hp. destruct (sane n); cbn [negb] in Hs, Hp; [|contradiction].
  destruct Hs as [Es|Hs].
  - (* the link is this node: it has no children *)
    injection Es as Es1 Es2. subst kk. cbn [is_dir] in Hp. destruct Hp as [Ep|[]].
    injection Ep as Ep1 Ep2. split; [|symmetry; exact Ep2].
    assert (length p = length s + length r)%nat as HL by (rewrite E, app_length; reflexivity).
    rewrite <- Ep1, <- Es1 in HL. destruct r; [reflexivity|simpl in HL; lia].
  - destruct (is_dir kk); [|contradiction].
    apply in_flat_map in Hs as (c1 & Hc1 & Hs).
    destruct Hp as [Ep|Hp].
    + (* p is the directory itself, s lies below it: s cannot be a prefix *)
      injection Ep as Ep1 Ep2. destruct (visit_prefix _ _ _ _ Hs) as (r1 & Es1).
      exfalso.
      assert (length p = length s + length r)%nat as HL by (rewrite E, app_length; reflexivity).
      rewrite <- Ep1, Es1 in HL. rewrite !app_length in HL. simpl in HL. lia.
    + apply in_flat_map in Hp as (c2 & Hc2 & Hp).
      destruct (visit_prefix _ _ _ _ Hs) as (r1 & E1).
      destruct (visit_prefix _ _ _ _ Hp) as (r2 & E2).
      assert (c1 = c2) as <-.
      { apply (NoDup_map_In_eq iname ch); try assumption.
        subst s p. rewrite <- !app_assoc in E2. apply app_inv_head in E2. inversion E2. reflexivity. }
      rewrite Forall_forall in IH, Hch.
      exact (IH c1 Hc1 (Hch c1 Hc1) (anc ++ [n]) s p k r Hs Hp E).
Qed.

Lemma visit_root_link_leaf t : sorted_ok t -> link_leaf (visit_root t).
Proof.
  intro Hok. destruct t as [n k tg xk ch]. cbn [visit_root].
  destruct (is_dir k); [|intros s p k0 r []].
  inversion Hok as [? ? ? ? ? Hnd Hch]; subst.
  intros s p k0 r Hs Hp E.
  apply in_flat_map in Hs as (c1 & Hc1 & Hs). apply in_flat_map in Hp as (c2 & Hc2 & Hp).
  destruct (visit_prefix _ _ _ _ Hs) as (r1 & E1). destruct (visit_prefix _ _ _ _ Hp) as (r2 & E2).
  assert (c1 = c2) as <-.
  { apply (NoDup_map_In_eq iname ch); try assumption.
    subst s p. simpl in E2. inversion E2. reflexivity. }
  rewrite Forall_forall in Hch.
  exact (visit_link_leaf c1 (Hch c1 Hc1) [] s p k0 r Hs Hp E).
Qed.

(* ---------- skipped entries are local: the walks do not see them ---------- *)
Lemma flat_map_ext_in {A B} (f g : A -> list B) l :
  (forall x, In x l -> f x = g x) -> flat_map f l = flat_map g l.
Proof.
  intro H. induction l as [|x l IH]; simpl; [reflexivity|].
  rewrite H by (left; reflexivity). rewrite IH; [reflexivity|]. intros y Hy. apply H. right. exact Hy.
Qed.

Lemma flat_map_prune {B} (f : itree -> list B) ch :
  (forall c, sane (iname c) = false -> f c = []) ->
  (forall c, In c ch -> f (prune c) = f c) ->
  flat_map f (flat_map (fun c => if sane (iname c) then [prune c] else []) ch) = flat_map f ch.
Proof.
  intros H0 H1. induction ch as [|c ch IH]; [reflexivity|].
  cbn [flat_map]. destruct (sane (iname c)) eqn:E.
  - rewrite flat_map_app. cbn [flat_map]. rewrite app_nil_r. rewrite H1 by (left; reflexivity).
    rewrite IH; [reflexivity|]. intros y Hy. apply H1. right. exact Hy.
  - cbn [app]. rewrite (H0 c E). cbn [app]. apply IH. intros y Hy. apply H1. right. exact Hy.
Qed.

Lemma create_dfs_prune rn t : forall anc, create_dfs rn anc (prune t) = create_dfs rn anc t.
Proof.
  induction t as [n k tg xk ch IH] using itree_ind'. intro anc.
  cbn [prune create_dfs]. destruct (sane n); cbn [negb]; [|reflexivity].
  destruct (node_path rn (anc ++ [n])); try reflexivity. f_equal.
  destruct (is_dir k); [|reflexivity]. apply flat_map_prune.
  - intros [n' k' tg' xk' ch'] E. simpl in E. cbn [create_dfs]. rewrite E. reflexivity.
  - rewrite Forall_forall in IH. intros c Hc. apply IH. exact Hc.
Qed.

Lemma gen_files_prune rn t : forall anc, gen_files rn anc (prune t) = gen_files rn anc t.
Proof.
  induction t as [n k tg xk ch IH] using itree_ind'. intro anc.
  cbn [prune gen_files]. destruct (sane n); cbn [negb]; [|reflexivity].
  destruct (is_reg k); [reflexivity|]. destruct (is_dir k); [|reflexivity]. apply flat_map_prune.
  - intros [n' k' tg' xk' ch'] E. simpl in E. cbn [gen_files]. rewrite E. reflexivity.
  - rewrite Forall_forall in IH. intros c Hc. apply IH. exact Hc.
Qed.

Lemma attr_dfs_prune fl rn t : forall anc, attr_dfs fl rn anc (prune t) = attr_dfs fl rn anc t.
Proof.
  induction t as [n k tg xk ch IH] using itree_ind'. intro anc.
  cbn [prune attr_dfs]. destruct (sane n); cbn [negb]; [|reflexivity]. f_equal.
  destruct (is_dir k); [|reflexivity]. apply flat_map_prune.
  - intros [n' k' tg' xk' ch'] E. simpl in E. cbn [attr_dfs]. rewrite E. reflexivity.
  - rewrite Forall_forall in IH. intros c Hc. apply IH. exact Hc.
Qed.

Lemma ops_of_sorted_prune order fl t : ops_of_sorted order fl (prune t) = ops_of_sorted order fl t.
Proof.
  destruct t as [n k tg xk ch]. unfold ops_of_sorted, restore, fill, attribs, gen_files_root. cbn [prune].
  f_equal; [|f_equal].
  - destruct (is_dir k); [|reflexivity]. apply flat_map_prune.
    + intros [n' k' tg' xk' ch'] E. simpl in E. cbn [create_dfs]. rewrite E. reflexivity.
    + intros c _. apply create_dfs_prune.
  - assert (flat_map (gen_files n []) (flat_map (fun c => if sane (iname c) then [prune c] else []) ch)
            = flat_map (gen_files n []) ch) as ->; [|reflexivity].
    apply flat_map_prune.
    + intros [n' k' tg' xk' ch'] E. simpl in E. cbn [gen_files]. rewrite E. reflexivity.
    + intros c _. apply gen_files_prune.
  - destruct (any_attr_flag fl); cbn [negb]; [|reflexivity].
    destruct (is_dir k); [|reflexivity]. apply flat_map_prune.
    + intros [n' k' tg' xk' ch'] E. simpl in E. cbn [attr_dfs]. rewrite E. reflexivity.
    + intros c _. apply attr_dfs_prune.
Qed.

(* nothing is skipped in a pruned tree *)
Lemma skipped_dfs_prune t : sane (iname t) = true -> skipped_dfs (prune t) = [].
Proof.
  induction t as [n k tg xk ch IH] using itree_ind'. cbn [iname]. intro Hs.
  cbn [prune skipped_dfs]. rewrite Hs. cbn [negb]. destruct (is_dir k); [|reflexivity].
  induction ch as [|c ch IHc]; [reflexivity|].
  inversion IH as [|? ? Hc1 Hc2]; subst. cbn [flat_map]. destruct (sane (iname c)) eqn:E.
  - cbn [app flat_map]. rewrite (Hc1 eq_refl). cbn [app]. apply IHc. assumption.
  - cbn [app]. apply IHc. assumption.
Qed.
