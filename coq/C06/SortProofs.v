(* C06 — tree_sort: the merge sort sorts, terminates within its fuel, and the
   adjacent-duplicate test then guarantees pairwise distinct sibling names. *)
From Coq Require Import List NArith Bool Arith Lia Permutation Sorting.Sorted RelationClasses.
From SqfsV Require Import C18.CanonModel C18.CanonSpec C18.CanonProofs C06.UnpackModel.
Import ListNotations.
Local Open Scope N_scope.

(* ---------- a nested induction principle for itree ---------- *)
Section ItreeInd.
  Variable P : itree -> Prop.
  Hypothesis H : forall n k tg xk ch, Forall P ch -> P (INode n k tg xk ch).
  Fixpoint itree_ind' (t : itree) : P t :=
    match t with
    | INode n k tg xk ch =>
      H n k tg xk ch
        ((fix go (l : list itree) : Forall P l :=
            match l with
            | [] => Forall_nil P
            | x :: r => Forall_cons x (itree_ind' x) (go r)
            end) ch)
    end.
End ItreeInd.

(* ---------- strcmp_le is a total order on byte strings ---------- *)
Lemma strcmp_le_refl a : strcmp_le a a = true.
Proof.
  induction a as [|x a IH]; simpl; [reflexivity|].
  rewrite N.ltb_irrefl. exact IH.
Qed.

Lemma strcmp_le_total a b : strcmp_le a b = true \/ strcmp_le b a = true.
Proof.
  revert b; induction a as [|x a IH]; intros [|y b]; simpl; auto.
  destruct (N.ltb_spec x y), (N.ltb_spec y x); auto; try lia.
Qed.

Lemma strcmp_le_trans a b c :
  strcmp_le a b = true -> strcmp_le b c = true -> strcmp_le a c = true.
Proof.
  revert b c; induction a as [|x a IH]; intros [|y b] [|z c]; simpl; auto; try discriminate.
  destruct (N.ltb_spec x y), (N.ltb_spec y x), (N.ltb_spec y z), (N.ltb_spec z y),
           (N.ltb_spec x z), (N.ltb_spec z x); try lia; auto; try discriminate.
  apply IH.
Qed.

Lemma strcmp_le_antisym a b :
  strcmp_le a b = true -> strcmp_le b a = true -> a = b.
Proof.
  revert b; induction a as [|x a IH]; intros [|y b]; simpl; auto; try discriminate.
  destruct (N.ltb_spec x y), (N.ltb_spec y x); try lia; try discriminate.
  intros H1 H2. assert (x = y) by lia. subst. f_equal. apply IH; assumption.
Qed.

Definition le_t (a b : itree) : Prop := strcmp_le (iname a) (iname b) = true.

Global Instance le_t_trans : Transitive le_t.
Proof. intros a b c. unfold le_t. apply strcmp_le_trans. Qed.

(* ---------- list_merge ---------- *)
Lemma list_merge_nil_r l : list_merge l [] = l.
Proof. destruct l; reflexivity. Qed.

Lemma list_merge_perm a : forall b, Permutation (list_merge a b) (a ++ b).
Proof.
  induction a as [|x a IHa]; intro b.
  - destruct b; reflexivity.
  - induction b as [|y b IHb].
    + rewrite list_merge_nil_r, app_nil_r. reflexivity.
    + cbn [list_merge]. destruct (strcmp_le (iname x) (iname y)).
      * cbn [app]. constructor. apply IHa.
      * change ((fix merge_aux (l2 : list itree) : list itree :=
                   match l2 with
                   | [] => x :: a
                   | a2 :: l2' =>
                     if strcmp_le (iname x) (iname a2) then x :: list_merge a l2 else a2 :: merge_aux l2'
                   end) b) with (list_merge (x :: a) b).
        rewrite IHb. exact (Permutation_middle (x :: a) b y).
Qed.

Lemma list_merge_cons_unfold x a y b :
  list_merge (x :: a) (y :: b) =
  if strcmp_le (iname x) (iname y) then x :: list_merge a (y :: b) else y :: list_merge (x :: a) b.
Proof. reflexivity. Qed.

Lemma list_merge_hdrel z a : forall b,
  HdRel le_t z a -> HdRel le_t z b -> HdRel le_t z (list_merge a b).
Proof.
  destruct a as [|x a]; intros b Ha Hb.
  - destruct b; assumption.
  - destruct b as [|y b]; [rewrite list_merge_nil_r; assumption|].
    rewrite list_merge_cons_unfold. destruct (strcmp_le (iname x) (iname y));
      constructor; [inversion Ha|inversion Hb]; assumption.
Qed.

Lemma list_merge_sorted a : forall b,
  Sorted le_t a -> Sorted le_t b -> Sorted le_t (list_merge a b).
Proof.
  induction a as [|x a IHa]; intros b Ha Hb.
  - destruct b; assumption.
  - induction b as [|y b IHb].
    + rewrite list_merge_nil_r. assumption.
    + rewrite list_merge_cons_unfold. destruct (strcmp_le (iname x) (iname y)) eqn:E.
      * inversion Ha; subst. constructor.
        -- apply IHa; assumption.
        -- apply list_merge_hdrel; [assumption|]. constructor. exact E.
      * inversion Hb; subst. constructor.
        -- apply IHb. assumption.
        -- apply list_merge_hdrel; [|assumption]. constructor.
           unfold le_t. destruct (strcmp_le_total (iname x) (iname y)); congruence.
Qed.

(* ---------- list_sort ---------- *)
Lemma div2_bounds n : (2 <= n)%nat -> (1 <= Nat.div2 (S n) < n)%nat.
Proof.
  intro H. rewrite Nat.div2_div.
  pose proof (Nat.div_mod (S n) 2 ltac:(lia)) as E.
  pose proof (Nat.mod_upper_bound (S n) 2 ltac:(lia)). lia.
Qed.

Lemma list_sort_ok fuel : forall l, (length l < fuel)%nat ->
  exists s, list_sort fuel l = Some s /\ Permutation s l /\ Sorted le_t s.
Proof.
  induction fuel as [|f IH]; intros l Hl; [lia|].
  destruct l as [|x [|y r]].
  - exists []. repeat split; constructor.
  - exists [x]. repeat split; repeat constructor.
  - cbn [list_sort]. set (l := x :: y :: r) in *.
    assert (2 <= length l)%nat as H2 by (unfold l; simpl; lia).
    pose proof (div2_bounds (length l) H2) as Hh.
    set (h := Nat.div2 (S (length l))) in *.
    destruct (IH (firstn h l)) as (a & Ea & Pa & Sa).
    { rewrite firstn_length. lia. }
    destruct (IH (skipn h l)) as (b & Eb & Pb & Sb).
    { rewrite skipn_length. lia. }
    rewrite Ea, Eb. exists (list_merge a b). split; [reflexivity|]. split.
    + rewrite list_merge_perm, Pa, Pb. rewrite firstn_skipn. reflexivity.
    + apply list_merge_sorted; assumption.
Qed.

(* ---------- adjacent duplicates ---------- *)
Lemma adjacent_dup_nodup s :
  StronglySorted le_t s -> adjacent_dup s = false -> NoDup (map iname s).
Proof.
  induction s as [|a s IH]; intros HS HD; [constructor|].
  inversion HS as [|? ? HS' HA]; subst.
  destruct s as [|b s'].
  - simpl. constructor; [intros []|constructor].
  - cbn [adjacent_dup] in HD. apply orb_false_iff in HD as [Hab HD].
    simpl. constructor; [|apply IH; assumption].
    intro Hin. change (In (iname a) (map iname (b :: s'))) in Hin.
    apply in_map_iff in Hin as (c & Ec & Hc).
    apply list_N_eqb_neq in Hab. apply Hab.
    apply strcmp_le_antisym.
    + rewrite Forall_forall in HA. apply (HA b). left; reflexivity.
    + destruct Hc as [->|Hc]; [rewrite Ec; apply strcmp_le_refl|].
      inversion HS' as [|? ? _ HB]; subst. rewrite Forall_forall in HB.
      rewrite <- Ec. apply (HB c Hc).
Qed.

Lemma nodup_adjacent s : NoDup (map iname s) -> adjacent_dup s = false.
Proof.
  induction s as [|a s IH]; intro H; [reflexivity|].
  destruct s as [|b s']; [reflexivity|].
  cbn [adjacent_dup]. inversion H as [|? ? Hn Hr]; subst.
  apply orb_false_iff. split; [|apply IH; assumption].
  apply list_N_eqb_neq. intro E. apply Hn. simpl. left. symmetry. exact E.
Qed.

(* ---------- the tree level ---------- *)
Inductive sorted_ok : itree -> Prop :=
| sorted_ok_intro n k tg xk ch :
    NoDup (map iname ch) -> Forall sorted_ok ch -> sorted_ok (INode n k tg xk ch).

(* same tree up to the order of children, at every level *)
Inductive tperm : itree -> itree -> Prop :=
| tperm_intro n k tg xk ch ch1 ch' :
    Forall2 tperm ch ch1 -> Permutation ch1 ch' ->
    tperm (INode n k tg xk ch) (INode n k tg xk ch').

(* no directory of the tree has two entries with the same name *)
Inductive names_distinct : itree -> Prop :=
| names_distinct_intro n k tg xk ch :
    NoDup (map iname ch) -> Forall names_distinct ch -> names_distinct (INode n k tg xk ch).

Lemma tperm_iname a b : tperm a b -> iname a = iname b.
Proof. destruct 1; reflexivity. Qed.

Lemma Forall2_tperm_names ch ch1 : Forall2 tperm ch ch1 -> map iname ch = map iname ch1.
Proof. induction 1 as [|a b l l' H _ IH]; simpl; [reflexivity|]. rewrite (tperm_iname _ _ H), IH. reflexivity. Qed.

Lemma sort_all_spec (f : itree -> sort_res) l :
  match sort_all f l with
  | None => exists t, In t l /\ f t = SortFuel
  | Some None => exists t, In t l /\ f t = SortDup
  | Some (Some l') => Forall2 (fun t t' => f t = SortOk t') l l'
  end.
Proof.
  induction l as [|t r IH]; simpl; [constructor|].
  destruct (f t) eqn:E.
  - destruct (sort_all f r) as [[r'|]|].
    + constructor; assumption.
    + destruct IH as (u & Hu & Eu). exists u; auto.
    + destruct IH as (u & Hu & Eu). exists u; auto.
  - destruct (sort_all f r) as [[r'|]|].
    + exists t; auto.
    + exists t; auto.
    + destruct IH as (u & Hu & Eu). exists u; auto.
  - exists t; auto.
Qed.

Lemma tree_sort_no_fuel t : tree_sort t <> SortFuel.
Proof.
  induction t as [n k tg xk ch IH] using itree_ind'.
  cbn [tree_sort]. pose proof (sort_all_spec tree_sort ch) as HS.
  destruct (sort_all tree_sort ch) as [[ch'|]|].
  - destruct (list_sort_ok (S (length ch')) ch') as (s & Es & _); [lia|].
    rewrite Es. destruct (adjacent_dup s); discriminate.
  - discriminate.
  - destruct HS as (u & Hu & Eu). rewrite Forall_forall in IH. exfalso. exact (IH u Hu Eu).
Qed.

Lemma tree_sort_ok t t' : tree_sort t = SortOk t' -> sorted_ok t' /\ tperm t t'.
Proof.
  revert t'. induction t as [n k tg xk ch IH] using itree_ind'. intros t' E.
  cbn [tree_sort] in E. pose proof (sort_all_spec tree_sort ch) as HS.
  destruct (sort_all tree_sort ch) as [[ch'|]|]; try discriminate.
  destruct (list_sort_ok (S (length ch')) ch') as (s & Es & Ps & Ss); [lia|].
  rewrite Es in E. destruct (adjacent_dup s) eqn:D; [discriminate|].
  inversion E; subst; clear E.
  assert (Forall2 (fun a b => sorted_ok b /\ tperm a b) ch ch') as F.
  { clear -IH HS. induction HS as [|a b l l' Hab _ IHS]; [constructor|].
    inversion IH; subst. constructor; auto. }
  split.
  - constructor.
    + apply adjacent_dup_nodup; [|exact D]. apply Sorted_StronglySorted; [exact le_t_trans|exact Ss].
    + apply Forall_forall. intros x Hx. apply (Permutation_in _ Ps) in Hx.
      clear -F Hx. induction F as [|a b l l' [Hb _] _ IHF]; [contradiction|].
      destruct Hx as [<-|Hx]; auto.
  - apply tperm_intro with (ch1 := ch').
    + clear -F. induction F as [|a b l l' [_ Hb] _ IHF]; constructor; auto.
    + symmetry. exact Ps.
Qed.

(* images in which no directory repeats a name are never refused *)
Lemma tree_sort_accepts t : names_distinct t -> exists t', tree_sort t = SortOk t'.
Proof.
  induction t as [n k tg xk ch IH] using itree_ind'. intro HD.
  inversion HD as [? ? ? ? ? Hnd Hch]; subst.
  cbn [tree_sort]. pose proof (sort_all_spec tree_sort ch) as HS.
  destruct (sort_all tree_sort ch) as [[ch'|]|].
  - destruct (list_sort_ok (S (length ch')) ch') as (s & Es & Ps & Ss); [lia|].
    rewrite Es.
    assert (map iname ch = map iname ch') as En.
    { clear -HS. induction HS as [|a b l l' Hab _ IHS]; simpl; [reflexivity|].
      apply tree_sort_ok in Hab as [_ Hab]. rewrite (tperm_iname _ _ Hab), IHS. reflexivity. }
    rewrite nodup_adjacent; [eexists; reflexivity|].
    apply (Permutation_NoDup (l := map iname ch')); [apply Permutation_map; symmetry; exact Ps|].
    rewrite <- En. exact Hnd.
  - destruct HS as (u & Hu & Eu). rewrite Forall_forall in IH, Hch.
    destruct (IH u Hu (Hch u Hu)) as (u' & Eu'). congruence.
  - destruct HS as (u & Hu & Eu). exfalso. exact (tree_sort_no_fuel u Eu).
Qed.

(* and a refused image really has a directory with a repeated name *)
Lemma tree_sort_dup t : tree_sort t = SortDup -> ~ names_distinct t.
Proof.
  intros E HD. destruct (tree_sort_accepts t HD) as (t' & E'). congruence.
Qed.
