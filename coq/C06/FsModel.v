(* C06 — a small POSIX file-system model on which the operation list of
   UnpackModel.v is executed.

   The world is a map from *physical* paths (component lists from the world
   root, no symlink involved) to objects.  Names are compared byte for byte (a
   case-folding or normalising file system is outside this model).  Path
   resolution follows symbolic links in every non-final component and in the
   final one where the system call does (open without O_NOFOLLOW/O_EXCL,
   fchmodat(..., 0)); ".." moves to the physical parent, "" and "." stay; an
   absolute link target restarts at the world root.  Every step costs one unit
   of fuel; running out of fuel is an error (ELOOP), like every other error it
   makes the system call fail without effect.

   Metadata and file contents are opaque: what a call writes is given by
   arbitrary functions (Section variables without any contract), the theorems
   are about *where* something is written. *)
From Coq Require Import List NArith Bool.
From SqfsV Require Import C18.CanonModel C18.CanonSpec C06.UnpackModel.
Import ListNotations.
Local Open Scope N_scope.

Notation comp := (list N) (only parsing).
Notation ppath := (list (list N)) (only parsing).

Fixpoint ppath_eqb (a b : ppath) : bool :=
  match a, b with
  | [], [] => true
  | x :: a', y :: b' => list_N_eqb x y && ppath_eqb a' b'
  | _, _ => false
  end.

Definition meta := N.
Definition data := N.

Inductive obj :=
| ODir (m : meta)
| OFile (m : meta) (d : data)
| OLink (m : meta) (tgt : list N)
| ONod (m : meta).

Definition world := ppath -> option obj.

Definition upd (W : world) (pp : ppath) (o : obj) : world :=
  fun q => if ppath_eqb q pp then Some o else W q.

Definition is_link (o : obj) : bool := match o with OLink _ _ => true | _ => false end.

Definition obj_map_meta (f : meta -> meta) (o : obj) : obj :=
  match o with
  | ODir m => ODir (f m)
  | OFile m d => OFile (f m) d
  | OLink m t => OLink (f m) t
  | ONod m => ONod (f m)
  end.

Inductive rres :=
| RFound (pp : ppath) (o : obj)  (* resolves to the existing object o at physical path pp *)
| RMissing (pp : ppath)          (* parent directory exists, the final name does not: pp is where it would be created *)
| RErr.                          (* ENOENT / ENOTDIR / ELOOP / ... *)

Definition is_abs (s : list N) : bool :=
  match s with c :: _ => N.eqb c slash | [] => false end.

Fixpoint walk (fuel : nat) (W : world) (cur : ppath) (cs : list comp) (follow_last : bool) : rres :=
  match fuel with
  | O => RErr
  | S f =>
    match cs with
    | [] => match W cur with Some o => RFound cur o | None => RErr end
    | c :: rest =>
      match W cur with
      | Some (ODir _) =>
        if negb (nonempty c) || is_dot c then walk f W cur rest follow_last
        else if is_dotdot c then walk f W (removelast cur) rest follow_last
        else
          let nxt := cur ++ [c] in
          match W nxt with
          | None => match rest with [] => RMissing nxt | _ => RErr end
          | Some (OLink m tgt) =>
            match rest, follow_last with
            | [], false => RFound nxt (OLink m tgt)
            | _, _ =>
              match tgt with
              | [] => RErr
              | _ => walk f W (if is_abs tgt then [] else cur) (split_slash tgt ++ rest) follow_last
              end
            end
          | Some o => match rest with [] => RFound nxt o | _ => walk f W nxt rest follow_last end
          end
      | _ => RErr
      end
    end
  end.

(* resolution of a path string as the kernel does for a process whose working
   directory is the physical directory R; the empty string is ENOENT *)
Definition resolve (fuel : nat) (W : world) (R : ppath) (p : list N) (follow_last : bool) : rres :=
  match p with
  | [] => RErr
  | _ => walk fuel W (if is_abs p then [] else R) (split_slash p) follow_last
  end.

Section Exec.
  Variable new_meta : op -> meta.          (* metadata of an object created by the call *)
  Variable set_meta : op -> meta -> meta.  (* effect of an attribute call *)
  Variable new_data : op -> data.          (* file content after open(O_TRUNC) + write *)

  (* mkdir/symlink/mknod/open(O_CREAT|O_EXCL): never follow the final component *)
  Definition create_at (fuel : nat) (W : world) (R : ppath) (p : list N) (o : obj)
             (tolerate_exists : bool) : option world :=
    match resolve fuel W R p false with
    | RMissing pp => Some (upd W pp o)
    | RFound _ _ => if tolerate_exists then Some W else None
    | RErr => None
    end.

  Definition attr_at (fuel : nat) (W : world) (R : ppath) (p : list N) (follow : bool)
             (f : meta -> meta) : option world :=
    match resolve fuel W R p follow with
    | RFound pp o => Some (upd W pp (obj_map_meta f o))
    | _ => None
    end.

  (* None: the call fails (and the tool gives up); Some W': world after the call *)
  Definition exec_op (fuel : nat) (W : world) (R : ppath) (o : op) : option world :=
    match o with
    | OMkdir p => create_at fuel W R p (ODir (new_meta o)) true
    | OSymlink tgt p =>
      match tgt with
      | [] => None                            (* symlink("", p): ENOENT *)
      | _ => create_at fuel W R p (OLink (new_meta o) tgt) false
      end
    | OMknod p => create_at fuel W R p (ONod (new_meta o)) false
    | OCreatExcl p => create_at fuel W R p (OFile (new_meta o) 0) false
    | OOpenTrunc p =>
      match resolve fuel W R p true with
      | RFound pp (OFile m _) => Some (upd W pp (OFile m (new_data o)))
      | RFound pp (ONod m) => Some W          (* opening a device/fifo: no file-system change *)
      | RFound _ _ => None                    (* EISDIR; a link cannot be the result of a following walk *)
      | RMissing pp => Some (upd W pp (OFile (new_meta o) (new_data o)))   (* O_CREAT, possibly through a dangling link *)
      | RErr => None
      end
    | OSetxattr p _ => attr_at fuel W R p false (set_meta o)
    | OUtimens p => attr_at fuel W R p false (set_meta o)
    | OChown p => attr_at fuel W R p false (set_meta o)
    | OChmod p => attr_at fuel W R p true (set_meta o)
    | OAbort => None
    | OAssert => None
    end.

  (* the tool stops at the first failing call: (final world, number of calls that succeeded) *)
  Fixpoint run (fuel : nat) (W : world) (R : ppath) (ops : list op) : world * nat :=
    match ops with
    | [] => (W, O)
    | o :: r =>
      match exec_op fuel W R o with
      | None => (W, O)
      | Some W' => let (Wf, n) := run fuel W' R r in (Wf, S n)
      end
    end.
End Exec.

(* strictly beneath R *)
Definition under (R q : ppath) : Prop := exists s, s <> [] /\ q = R ++ s.

(* a world given by a finite list (for examples and the extracted driver) *)
Fixpoint world_of (l : list (ppath * obj)) : world :=
  match l with
  | [] => fun _ => None
  | (pp, o) :: r => upd (world_of r) pp o
  end.
