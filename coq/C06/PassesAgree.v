(* C06 — the walks of the unpacker agree on the set of entries they touch.

   restore_fstree.c has two walks over the image tree (create_node_dfs, set_attribs),
   fill_files.c a third (gen_file_list_dfs).  Each starts with the same gate
   "if (!is_filename_sane(name)) return 0".  The theorems here say what that buys:
   for a directory root (rdsquashfs -u /) the paths the attribute walk hands to
   lsetxattr / utimensat / fchownat / fchmodat are exactly (with -T or -O) the
   paths the create walk handed to mkdir / symlink / mknod / open(O_EXCL) - no
   entry that was skipped when creating is turned into a path later, and no
   created entry is left without its attributes.  (fill: fill_opens_only_created
   in Properties_C06.v.)  A walk that drops or moves the gate for some inode
   kinds breaks the correspondence of attr_dfs with set_attribs (tie) and - seen
   from outside - the agreement "hostile image = image without the skipped
   entries" that props/C06/passes.py evaluates on the implementation. *)
From Coq Require Import List NArith Bool Arith Lia Permutation.
From SqfsV Require Import C18.CanonModel C18.CanonSpec C18.CanonProofs
     C06.UnpackModel C06.SortProofs C06.UnpackProofs C06.PathsProofs.
Import ListNotations.
Local Open Scope N_scope.

Definition is_create (o : op) : bool :=
  match o with OMkdir _ | OSymlink _ _ | OMknod _ | OCreatExcl _ => true | _ => false end.

Definition is_attr (o : op) : bool :=
  match o with OSetxattr _ _ | OUtimens _ | OChown _ | OChmod _ => true | _ => false end.

(* the paths a list of calls touches *)
Definition touched (sel : op -> bool) (l : list op) (p : list N) : Prop :=
  exists o, In o l /\ sel o = true /\ op_path o = Some p.

Lemma is_create_create_op k tg p : is_create (create_op k tg p) = true.
Proof. destruct k; reflexivity. Qed.

Lemma attr_ops_no_keys fl k xk p o : In o (attr_ops fl k [] p) -> In o (attr_ops fl k xk p).
Proof.
  unfold attr_ops. intro H. apply in_or_app. right.
  apply in_app_or in H as [H|H]; [destruct (f_xattr fl); destruct H|exact H].
Qed.

(* every visited entry with a usable chain of names gets its attribute calls
   (those that do not depend on the xattr keys: -T, -O, -C) *)
Lemma attr_dfs_covers fl t : forall anc cs k,
  In (cs, k) (visit anc t) -> Forall clean_name cs ->
  forall o, In o (attr_ops fl k [] (join cs)) -> In o (attr_dfs fl [] anc t).
Proof.
  induction t as [n kk tg xk ch IH] using itree_ind'. intros anc cs k Hin Hc o Ho.
  cbn [visit] in Hin. cbn [attr_dfs]. destruct (sane n) eqn:Hs; cbn [negb] in *; [|contradiction].
  apply in_or_app. destruct Hin as [Ev|Hin].
  - right. injection Ev as Ev1 Ev2. subst cs k. unfold attr_self.
    rewrite node_path_clean by (try exact Hc; destruct anc; discriminate).
    apply attr_ops_no_keys. exact Ho.
  - left. destruct (is_dir kk) eqn:Hk; [|contradiction].
    apply in_flat_map in Hin as (c1 & Hc1 & Hin).
    rewrite Forall_forall in IH. apply in_flat_map. exists c1. split; [exact Hc1|].
    exact (IH c1 Hc1 _ _ _ Hin Hc o Ho).
Qed.

Lemma attribs_covers fl t cs k :
  iname t = [] -> any_attr_flag fl = true -> In (cs, k) (visit_root t) -> Forall clean_name cs ->
  forall o, In o (attr_ops fl k [] (join cs)) -> In o (attribs fl t).
Proof.
  intros Hr Hf Hin Hc o Ho. destruct t as [n kk tg xk ch]. cbn [iname] in Hr. subst n.
  unfold attribs. rewrite Hf. cbn [negb]. cbn [visit_root] in Hin.
  destruct (is_dir kk); [|contradiction].
  apply in_flat_map in Hin as (c1 & Hc1 & Hin). apply in_flat_map. exists c1. split; [exact Hc1|].
  exact (attr_dfs_covers fl c1 [] cs k Hin Hc o Ho).
Qed.

(* an operation of a walk over the children of a directory root comes from a visited entry *)
Lemma restore_from t : is_dir (ikind t) = true ->
  Forall (op_from (iname t) (visit_root t)) (restore t).
Proof.
  destruct t as [n k tg xk ch]. cbn [ikind iname restore visit_root]. intros ->.
  apply Forall_flat_map. intros c Hc.
  eapply Forall_op_from_incl; [|apply (create_dfs_from n c []); constructor].
  intros x Hx. apply in_flat_map. exists c. auto.
Qed.

Lemma attribs_from fl t : is_dir (ikind t) = true ->
  Forall (op_from (iname t) (visit_root t)) (attribs fl t).
Proof.
  destruct t as [n k tg xk ch]. cbn [ikind iname visit_root]. intros Hk. unfold attribs.
  destruct (any_attr_flag fl); cbn [negb]; [|constructor]. rewrite Hk.
  apply Forall_flat_map. intros c Hc.
  eapply Forall_op_from_incl; [|apply (attr_dfs_from fl n c []); constructor].
  intros x Hx. apply in_flat_map. exists c. auto.
Qed.

(* ---- attribute walk ⊆ create walk, for every option set ---- *)
Lemma attr_touches_only_created_l fl t p :
  iname t = [] -> is_dir (ikind t) = true ->
  touched is_attr (attribs fl t) p -> touched is_create (restore t) p.
Proof.
  intros Hr Hk (o & Ho & _ & Hp).
  pose proof (attribs_from fl t Hk) as HF. rewrite Forall_forall in HF.
  destruct (HF o Ho) as [->|(_ & cs & k & Hin & Hc & _ & Hp' & _)]; [discriminate|].
  rewrite Hp in Hp'. injection Hp' as ->.
  destruct (restore_covers t cs k Hr Hin Hc) as (tg & Ht).
  exists (create_op k tg (join cs)). split; [exact Ht|]. split; [apply is_create_create_op|apply create_op_path].
Qed.

(* ---- create walk ⊆ attribute walk, as soon as an option touches every kind (-T or -O) ---- *)
Lemma created_get_attribs_l fl t p :
  iname t = [] -> is_dir (ikind t) = true -> f_times fl = true \/ f_chown fl = true ->
  touched is_create (restore t) p -> touched is_attr (attribs fl t) p.
Proof.
  intros Hr Hk Hf (o & Ho & _ & Hp).
  pose proof (restore_from t Hk) as HF. rewrite Forall_forall in HF.
  destruct (HF o Ho) as [->|(_ & cs & k & Hin & Hc & _ & Hp' & _)]; [discriminate|].
  rewrite Hp in Hp'. injection Hp' as ->.
  assert (any_attr_flag fl = true) as Ha.
  { unfold any_attr_flag. destruct Hf as [-> | ->]; rewrite ?orb_true_r; reflexivity. }
  destruct Hf as [Hf|Hf].
  - exists (OUtimens (join cs)). split; [|split; reflexivity].
    apply (attribs_covers fl t cs k Hr Ha Hin Hc). unfold attr_ops. rewrite Hf.
    destruct (f_xattr fl); cbn [map app]; left; reflexivity.
  - exists (OChown (join cs)). split; [|split; reflexivity].
    apply (attribs_covers fl t cs k Hr Ha Hin Hc). unfold attr_ops. rewrite Hf.
    apply in_or_app. right. apply in_or_app. right. left. reflexivity.
Qed.

Lemma passes_agree_l fl t :
  iname t = [] -> is_dir (ikind t) = true -> f_times fl = true \/ f_chown fl = true ->
  forall p, touched is_create (restore t) p <-> touched is_attr (attribs fl t) p.
Proof.
  intros Hr Hk Hf p. split.
  - apply created_get_attribs_l; assumption.
  - apply attr_touches_only_created_l; assumption.
Qed.

(* ---- -C: every created entry that is not a symbolic link is re-moded ---- *)
Lemma created_get_chmod_l fl t cs k :
  iname t = [] -> f_chmod fl = true -> In (cs, k) (visit_root t) -> Forall clean_name cs -> k <> KLnk ->
  In (OChmod (join cs)) (attribs fl t).
Proof.
  intros Hr Hf Hin Hc Hk.
  apply (attribs_covers fl t cs k Hr); [unfold any_attr_flag; rewrite Hf; reflexivity|exact Hin|exact Hc|].
  unfold attr_ops. rewrite Hf. assert (is_lnk k = false) as -> by (destruct k; try reflexivity; contradiction).
  cbn [andb negb]. apply in_or_app. right. apply in_or_app. right. apply in_or_app. right. left. reflexivity.
Qed.

(* ---- a sibling of the seeded change, as a model variant: the gate of the attribute walk
   applied to directories only.  The agreement fails on a one-entry image. ---- *)
Fixpoint attr_dfs_dirgate (fl : uflags) (rootname : list N) (anc : list (list N)) (t : itree) : list op :=
  match t with
  | INode n k _ xk ch =>
    if is_dir k && negb (sane n) then []
    else
      (if is_dir k then flat_map (attr_dfs_dirgate fl rootname (anc ++ [n])) ch else []) ++
      attr_self fl rootname (anc ++ [n]) k xk
  end.

Definition attribs_dirgate (fl : uflags) (t : itree) : list op :=
  if negb (any_attr_flag fl) then []
  else match t with
       | INode n k _ xk ch =>
         if is_dir k then flat_map (attr_dfs_dirgate fl n []) ch
         else attr_self fl n [] k xk
       end.
