(* C06 — order of the operation list: a path is only used after every proper
   prefix of it was the argument of an earlier mkdir of the same run. *)
From Coq Require Import List NArith Bool Arith Lia Permutation.
From SqfsV Require Import C18.CanonModel C18.CanonSpec C18.CanonProofs
     C06.UnpackModel C06.SortProofs C06.UnpackProofs.
Import ListNotations.
Local Open Scope N_scope.

(* the directories (as component lists) made by the calls so far *)
Definition made_step (made : list (list comp)) (o : op) : list (list comp) :=
  match o with OMkdir p => split_slash p :: made | _ => made end.

Definition path_ok (made : list (list comp)) (o : op) : Prop :=
  match op_path o with
  | None => True
  | Some p =>
    p = [] \/
    exists cs, p = join cs /\ cs <> [] /\ Forall clean_name cs /\
               forall pre c r, cs = pre ++ c :: r -> pre <> [] -> In pre made
  end.

Fixpoint paths_ok (made : list (list comp)) (ops : list op) : Prop :=
  match ops with
  | [] => True
  | o :: r => path_ok made o /\ paths_ok (made_step made o) r
  end.

Definition made_after (made : list (list comp)) (l : list op) : list (list comp) :=
  fold_left made_step l made.

Lemma path_ok_mono made made' o : incl made made' -> path_ok made o -> path_ok made' o.
Proof.
  intros Hi. unfold path_ok. destruct (op_path o) as [p|]; [|auto].
  intros [->|(cs & H1 & H2 & H3 & H4)]; [left; reflexivity|right].
  exists cs. repeat split; try assumption. intros pre c r E Hn. apply Hi. eapply H4; eassumption.
Qed.

Lemma made_step_mono made made' o : incl made made' -> incl (made_step made o) (made_step made' o).
Proof.
  intro Hi. destruct o; cbn [made_step]; try exact Hi.
  intros x [<-|Hx]; [left; reflexivity|right; apply Hi; exact Hx].
Qed.

Lemma paths_ok_mono l : forall made made', incl made made' -> paths_ok made l -> paths_ok made' l.
Proof.
  induction l as [|o l IH]; intros made made' Hi; [auto|].
  cbn [paths_ok]. intros [H1 H2]. split; [eapply path_ok_mono; eassumption|].
  eapply IH; [|exact H2]. apply made_step_mono. exact Hi.
Qed.

Lemma made_after_incl l : forall made, incl made (made_after made l).
Proof.
  induction l as [|o l IH]; intro made; [apply incl_refl|].
  unfold made_after. cbn [fold_left]. eapply incl_tran; [|apply IH].
  destruct o; cbn [made_step]; try apply incl_refl. apply incl_tl, incl_refl.
Qed.

Lemma made_after_mono l : forall made made', incl made made' -> incl (made_after made l) (made_after made' l).
Proof.
  induction l as [|o l IH]; intros made made' Hi; [exact Hi|].
  unfold made_after. cbn [fold_left]. apply IH. apply made_step_mono. exact Hi.
Qed.

Lemma paths_ok_app l1 : forall made l2,
  paths_ok made (l1 ++ l2) <-> paths_ok made l1 /\ paths_ok (made_after made l1) l2.
Proof.
  induction l1 as [|o l1 IH]; intros made l2.
  - cbn. tauto.
  - cbn [app paths_ok]. rewrite IH. unfold made_after. cbn [fold_left]. tauto.
Qed.

Lemma made_after_app l1 l2 made : made_after made (l1 ++ l2) = made_after (made_after made l1) l2.
Proof. unfold made_after. apply fold_left_app. Qed.

Lemma paths_ok_flat_map {A} (f : A -> list op) l : forall made,
  (forall made' x, incl made made' -> In x l -> paths_ok made' (f x)) ->
  paths_ok made (flat_map f l).
Proof.
  induction l as [|x l IH]; intros made H; [exact I|].
  cbn [flat_map]. apply paths_ok_app. split.
  - apply H; [apply incl_refl|left; reflexivity].
  - apply IH. intros made' y Hi Hy. apply H; [|right; exact Hy].
    eapply incl_tran; [apply made_after_incl|exact Hi].
Qed.

Lemma made_after_has_mkdir l : forall made p, In (OMkdir p) l -> In (split_slash p) (made_after made l).
Proof.
  induction l as [|o l IH]; intros made p Hin; [contradiction|].
  unfold made_after. cbn [fold_left]. destruct Hin as [->|Hin].
  - apply made_after_incl. left. reflexivity.
  - apply IH. exact Hin.
Qed.

(* a proper prefix of anc ++ [n] is a prefix of anc *)
Lemma proper_prefix_snoc {X} (pre anc r : list X) c n :
  pre ++ c :: r = anc ++ [n] -> exists l, anc = pre ++ l.
Proof.
  intro E. apply app_eq_app in E as (l & [[E1 E2]|[E1 E2]]).
  - destruct l as [|x l]; [exists []; rewrite app_nil_r in *; exact (eq_sym E1)|].
    exfalso. apply (f_equal (@length _)) in E2. simpl in E2. rewrite app_length in E2. simpl in E2. lia.
  - exists l. exact E1.
Qed.

Lemma split_join_clean cs : Forall clean_name cs -> cs <> [] -> split_slash (join cs) = cs.
Proof. intros H Hn. apply split_join; [apply good_noslash, Forall_clean_good; exact H|exact Hn]. Qed.

Lemma create_dfs_paths_ok rn t : forall anc made,
  Forall clean_name anc ->
  (forall pre l, anc = pre ++ l -> pre <> [] -> In pre made) ->
  paths_ok made (create_dfs rn anc t).
Proof.
  induction t as [n k tg xk ch IH] using itree_ind'. intros anc made Ha Hm.
  cbn [create_dfs]. destruct (sane n) eqn:Hs; cbn [negb]; [|exact I].
  destruct (node_path_cases rn anc n Ha Hs) as [E|(Er & Hc & E)]; rewrite E.
  - cbn. auto.
  - assert (Forall clean_name (anc ++ [n])) as Ha'.
    { apply Forall_app. split; [exact Ha|]. constructor; [exact Hc|constructor]. }
    assert (anc ++ [n] <> []) as Hne by (destruct anc; discriminate).
    cbn [paths_ok]. split.
    + unfold path_ok. rewrite create_op_path. right. exists (anc ++ [n]).
      repeat split; try assumption. intros pre c r Ecs Hn.
      symmetry in Ecs. destruct (proper_prefix_snoc _ _ _ _ _ Ecs) as (l & El). eapply Hm; eassumption.
    + destruct (is_dir k) eqn:Hk; [|exact I]. destruct k; try discriminate Hk.
      cbn [create_op made_step]. rewrite split_join_clean by assumption.
      apply paths_ok_flat_map. intros made' c Hi Hc'. rewrite Forall_forall in IH.
      apply (IH c Hc' _ _ Ha'). intros pre l El Hn. apply Hi.
      destruct l as [|x l] using rev_ind.
      * rewrite app_nil_r in El. subst pre. left. reflexivity.
      * right. rewrite app_assoc in El. apply app_inj_tail in El as [El _]. eapply Hm; eassumption.
Qed.

(* the mkdir of every proper prefix (longer than anc) of a visited path is in the create list *)
Lemma create_dfs_has_mkdir t : forall anc cs k pre' c r,
  In (cs, k) (visit anc t) -> Forall clean_name cs ->
  cs = (anc ++ pre') ++ c :: r -> pre' <> [] ->
  In (OMkdir (join (anc ++ pre'))) (create_dfs [] anc t).
Proof.
  induction t as [n kk tg xk ch IH] using itree_ind'. intros anc cs k pre' c r Hin Hc E Hn.
  cbn [visit] in Hin. cbn [create_dfs]. destruct (sane n) eqn:Hs; cbn [negb] in *; [|contradiction].
  destruct Hin as [Ev|Hin].
  - exfalso. injection Ev as Ev _. rewrite <- Ev in E.
    apply (f_equal (@length _)) in E. rewrite !app_length in E. simpl in E.
    destruct pre'; [contradiction|simpl in E; lia].
  - destruct (is_dir kk) eqn:Hk; [|contradiction]. destruct kk; try discriminate Hk.
    apply in_flat_map in Hin as (c1 & Hc1 & Hin).
    destruct (visit_prefix _ _ _ _ Hin) as (r1 & E1).
    (* the chain anc ++ [n] is a prefix of cs, hence clean *)
    assert (Forall clean_name (anc ++ [n])) as Ha'.
    { rewrite E1 in Hc. rewrite <- app_assoc in Hc. apply Forall_app in Hc as [H1 H2].
      apply Forall_app. split; [exact H1|]. inversion H2; subst. constructor; [assumption|constructor]. }
    rewrite node_path_clean by (try exact Ha'; destruct anc; discriminate).
    (* pre' starts with n *)
    destruct pre' as [|x pre'']; [contradiction|].
    assert (x = n) as ->.
    { rewrite E in E1. rewrite <- !app_assoc in E1. apply app_inv_head in E1. inversion E1. reflexivity. }
    destruct pre'' as [|y pre''].
    + left. reflexivity.
    + right. apply in_flat_map. exists c1. split; [exact Hc1|].
      rewrite Forall_forall in IH.
      replace (anc ++ n :: y :: pre'') with ((anc ++ [n]) ++ y :: pre'') by (rewrite <- app_assoc; reflexivity).
      apply (IH c1 Hc1 (anc ++ [n]) cs k (y :: pre'') c r Hin Hc); [|discriminate].
      rewrite E. rewrite <- !app_assoc. reflexivity.
Qed.

Lemma Forall_path_ok_paths_ok l : forall made, Forall (path_ok made) l -> paths_ok made l.
Proof.
  induction l as [|o l IH]; intros made H; [exact I|].
  inversion H; subst. cbn [paths_ok]. split; [assumption|].
  apply IH. eapply Forall_impl; [|eassumption]. intros o'. apply path_ok_mono.
  destruct o; cbn [made_step]; try apply incl_refl. apply incl_tl, incl_refl.
Qed.

Lemma restore_has_mkdir t cs k pre c r :
  iname t = [] ->
  In (cs, k) (visit_root t) -> Forall clean_name cs -> cs = pre ++ c :: r -> pre <> [] ->
  In pre (made_after [] (restore t)).
Proof.
  intros Hr Hin Hc E Hn.
  assert (Forall clean_name pre) as Hcp by (rewrite E in Hc; apply Forall_app in Hc; tauto).
  rewrite <- (split_join_clean pre Hcp Hn). apply made_after_has_mkdir.
  destruct t as [n kk tg xk ch]. cbn [iname] in Hr. subst n. cbn [visit_root restore] in *.
  destruct (is_dir kk); [|contradiction].
  apply in_flat_map in Hin as (c1 & Hc1 & Hin).
  apply in_flat_map. exists c1. split; [exact Hc1|].
  exact (create_dfs_has_mkdir c1 [] cs k pre c r Hin Hc E Hn).
Qed.

Section Order.
  Variable order : list (list N) -> list (list N).
  Hypothesis order_perm : forall l, Permutation l (order l).

  Lemma ops_of_sorted_paths_ok fl t : paths_ok [] (ops_of_sorted order fl t).
  Proof.
    pose proof (ops_of_sorted_ok order order_perm fl t) as HO.
    unfold ops_of_sorted in *. apply paths_ok_app. split.
    - (* restore: depth first, parents first *)
      destruct t as [n k tg xk ch]. cbn [restore]. destruct (is_dir k).
      + apply paths_ok_flat_map. intros made' c _ _. apply create_dfs_paths_ok; [constructor|].
        intros pre l E Hn. exfalso. destruct pre; [contradiction|discriminate].
      + destruct (sane n); cbn [negb]; [|exact I].
        destruct (node_path_root_cases n) as [E|[_ E]]; rewrite E; cbn [paths_ok]; (split; [|exact I]).
        * exact I.
        * unfold path_ok. rewrite create_op_path. left. reflexivity.
    - (* the two later walks only use paths of visited nodes: their directories exist *)
      apply Forall_app in HO as [_ HO].
      apply Forall_path_ok_paths_ok. eapply Forall_impl; [|exact HO].
      intros o [[->|(Er & cs & k & Hin & Hc & Hn & EP & _)]|EP]; unfold path_ok.
      + exact I.
      + rewrite EP. right. exists cs. repeat split; try assumption.
        intros pre c r E Hpn. eapply restore_has_mkdir; eassumption.
      + rewrite EP. left. reflexivity.
  Qed.
End Order.

(* readable consequences *)
Lemma paths_ok_In l : forall made o, paths_ok made l -> In o l -> exists made', path_ok made' o.
Proof.
  induction l as [|x l IH]; intros made o H Hin; [contradiction|].
  cbn [paths_ok] in H. destruct H as [H1 H2]. destruct Hin as [->|Hin]; [eauto|].
  eapply IH; eassumption.
Qed.

Lemma path_ok_clean made o p : path_ok made o -> op_path o = Some p ->
  p = [] \/ (Forall clean_comp (split_slash p) /\ forall x, p <> slash :: x).
Proof.
  unfold path_ok. intros H E. rewrite E in H.
  destruct H as [->|(cs & -> & Hn & Hc & _)]; [left; reflexivity|right].
  rewrite split_join_clean by assumption.
  assert (Forall clean_comp cs) as HC by (eapply Forall_impl; [|exact Hc]; exact clean_name_clean_comp).
  split; [exact HC|].
  apply clean_no_leading_slash. rewrite split_join_clean by assumption. exact HC.
Qed.

(* the position-wise reading of paths_ok: whatever precedes an operation
   contains the mkdir of every proper prefix of its path *)
Lemma paths_ok_split l1 o l2 made :
  paths_ok made (l1 ++ o :: l2) -> path_ok (made_after made l1) o.
Proof.
  intro H. apply paths_ok_app in H as [_ H]. cbn [paths_ok] in H. tauto.
Qed.

Lemma made_after_nil_In l : forall made cs, In cs (made_after made l) ->
  In cs made \/ exists p, In (OMkdir p) l /\ split_slash p = cs.
Proof.
  induction l as [|o l IH]; intros made cs H; [left; exact H|].
  unfold made_after in H. cbn [fold_left] in H. apply IH in H as [H|(p & Hp & E)].
  - destruct o; cbn [made_step] in H; try (left; exact H).
    destruct H as [<-|H]; [right; eexists; split; [left; reflexivity|reflexivity]|left; exact H].
  - right. exists p. split; [right; exact Hp|exact E].
Qed.

Lemma skipped_prune t : is_dir (ikind t) = true -> skipped (prune t) = [].
Proof.
  destruct t as [n k tg xk ch]. cbn [ikind prune skipped]. intros ->.
  induction ch as [|c ch IH]; [reflexivity|].
  cbn [flat_map]. destruct (sane (iname c)) eqn:E.
  - cbn [app flat_map]. rewrite (skipped_dfs_prune c E). exact IH.
  - exact IH.
Qed.

(* every visited entry with a usable chain of names gets its creating call *)
Lemma create_dfs_covers t : forall anc cs k,
  In (cs, k) (visit anc t) -> Forall clean_name cs ->
  exists tg, In (create_op k tg (join cs)) (create_dfs [] anc t).
Proof.
  induction t as [n kk tg xk ch IH] using itree_ind'. intros anc cs k Hin Hc.
  cbn [visit] in Hin. cbn [create_dfs]. destruct (sane n) eqn:Hs; cbn [negb] in *; [|contradiction].
  destruct Hin as [Ev|Hin].
  - injection Ev as Ev1 Ev2. subst cs k.
    rewrite node_path_clean by (try exact Hc; destruct anc; discriminate).
    exists tg. left. reflexivity.
  - destruct (is_dir kk) eqn:Hk; [|contradiction].
    apply in_flat_map in Hin as (c1 & Hc1 & Hin).
    destruct (visit_prefix _ _ _ _ Hin) as (r1 & E1).
    assert (Forall clean_name (anc ++ [n])) as Ha'.
    { rewrite E1 in Hc. rewrite <- app_assoc in Hc. apply Forall_app in Hc as [H1 H2].
      apply Forall_app. split; [exact H1|]. inversion H2; subst. constructor; [assumption|constructor]. }
    rewrite node_path_clean by (try exact Ha'; destruct anc; discriminate).
    rewrite Forall_forall in IH. destruct (IH c1 Hc1 _ _ _ Hin Hc) as (tg' & Ht).
    exists tg'. right. apply in_flat_map. exists c1. auto.
Qed.

Lemma restore_covers t cs k :
  iname t = [] -> In (cs, k) (visit_root t) -> Forall clean_name cs ->
  exists tg, In (create_op k tg (join cs)) (restore t).
Proof.
  intros Hr Hin Hc. destruct t as [n kk tg xk ch]. cbn [iname] in Hr. subst n.
  cbn [visit_root restore] in *. destruct (is_dir kk); [|contradiction].
  apply in_flat_map in Hin as (c1 & Hc1 & Hin).
  destruct (create_dfs_covers c1 [] cs k Hin Hc) as (tg' & Ht).
  exists tg'. apply in_flat_map. exists c1. auto.
Qed.
