(* C06 — model of the unpack path of rdsquashfs (non-Windows build):

     lib/common/src/read_tree.c     create_node (names become C strings: strcpy)
     bin/rdsquashfs/src/rdsquashfs.c list_merge / list_sort / tree_sort, case OP_UNPACK of main
     lib/common/src/dir_tree.c      sqfs_tree_node_get_path
     bin/rdsquashfs/src/restore_fstree.c  create_node, create_node_dfs, restore_fstree,
                                          set_xattr, set_attribs, update_tree_attribs
     bin/rdsquashfs/src/fill_files.c      gen_file_list_dfs, add_file, fill_files

   The image tree is given as data (what sqfs_dir_reader_get_full_hierarchy hands
   to main, before strcpy): every name, target and xattr key is an arbitrary
   byte string, children come in arbitrary order with arbitrary repetition.
   The result is the list of path-taking system calls in program order.
   Definitions only; proofs are in UnpackProofs.v. *)
From Coq Require Import List NArith Bool Arith.
From SqfsV Require Import C18.CanonModel C18.CanonSpec.
Import ListNotations.
Local Open Scope N_scope.

(* S_IFMT of inode->base.mode; read_inode.c:set_mode derives it from the inode
   type, so these seven are the only values that reach the tool. *)
Inductive kind := KDir | KReg | KLnk | KBlk | KChr | KFifo | KSock.

Definition kind_eqb (a b : kind) : bool :=
  match a, b with
  | KDir, KDir | KReg, KReg | KLnk, KLnk | KBlk, KBlk | KChr, KChr
  | KFifo, KFifo | KSock, KSock => true
  | _, _ => false
  end.

Definition is_dir (k : kind) : bool := match k with KDir => true | _ => false end.
Definition is_reg (k : kind) : bool := match k with KReg => true | _ => false end.
Definition is_lnk (k : kind) : bool := match k with KLnk => true | _ => false end.

(* sqfs_tree_node_t: name, inode type, symlink target (inode->extra), the keys
   of the inode's xattr set, children (list order = directory-table order). *)
Inductive itree :=
| INode (name : list N) (k : kind) (target : list N) (xkeys : list (list N))
        (children : list itree).

Definition iname (t : itree) := match t with INode n _ _ _ _ => n end.
Definition ikind (t : itree) := match t with INode _ k _ _ _ => k end.
Definition ichildren (t : itree) := match t with INode _ _ _ _ c => c end.

(* ---- C strings: everything the tool does with a name goes through
   strlen/strcpy/strcmp/strchr or a system call, i.e. stops at the first NUL. *)
Fixpoint cut0 (s : list N) : list N :=
  match s with
  | [] => []
  | c :: r => if N.eqb c 0 then [] else c :: cut0 r
  end.

Fixpoint load (t : itree) : itree :=
  match t with
  | INode n k tg xk ch => INode (cut0 n) k (cut0 tg) (map cut0 xk) (map load ch)
  end.

(* ---- strcmp(a, b) <= 0 on NUL-free strings (unsigned char comparison) ---- *)
Fixpoint strcmp_le (a b : list N) : bool :=
  match a, b with
  | [], _ => true
  | _ :: _, [] => false
  | x :: a', y :: b' =>
    if N.ltb x y then true else if N.ltb y x then false else strcmp_le a' b'
  end.

(* ---- list_merge: "if (strcmp(lhs->name, rhs->name) <= 0) take lhs" ---- *)
Fixpoint list_merge (l1 : list itree) : list itree -> list itree :=
  fix merge_aux (l2 : list itree) : list itree :=
    match l1, l2 with
    | [], _ => l2
    | _, [] => l1
    | a1 :: l1', a2 :: l2' =>
      if strcmp_le (iname a1) (iname a2) then a1 :: list_merge l1' l2
      else a2 :: merge_aux l2'
    end.

(* ---- list_sort: the slow/fast pointer walk cuts after ceil(n/2) elements;
   recursion on explicit fuel ([None] = out of fuel, proved unreachable). *)
Fixpoint list_sort (fuel : nat) (l : list itree) : option (list itree) :=
  match fuel with
  | O => None
  | S f =>
    match l with
    | [] => Some l
    | [_] => Some l
    | _ =>
      let h := Nat.div2 (S (length l)) in
      match list_sort f (firstn h l), list_sort f (skipn h l) with
      | Some a, Some b => Some (list_merge a b)
      | _, _ => None
      end
    end
  end.

(* "for (it = children; it->next != NULL; it = it->next) if (strcmp(...) == 0) return -1" *)
Fixpoint adjacent_dup (l : list itree) : bool :=
  match l with
  | a :: ((b :: _) as r) => list_N_eqb (iname a) (iname b) || adjacent_dup r
  | _ => false
  end.

Inductive sort_res :=
| SortOk (t : itree)
| SortDup        (* "Entry '%s' found more than once!", tool exits before any file system access *)
| SortFuel.

Definition sort_all (f : itree -> sort_res) : list itree -> option (option (list itree)) :=
  (* Some (Some l') all fine; Some None duplicate below; None fuel *)
  fix go (l : list itree) : option (option (list itree)) :=
  match l with
  | [] => Some (Some [])
  | t :: r =>
    match f t with
    | SortFuel => None
    | SortDup => match go r with None => None | _ => Some None end
    | SortOk t' =>
      match go r with
      | None => None
      | Some None => Some None
      | Some (Some r') => Some (Some (t' :: r'))
      end
    end
  end.

(* tree_sort.  The C function sorts and checks one level, then recurses into the
   (sorted) children; this model recurses first and sorts afterwards, which gives
   the same tree and fails for the same inputs (any level with two equal names),
   and is structurally recursive. *)
Fixpoint tree_sort (t : itree) : sort_res :=
  match t with
  | INode n k tg xk ch =>
    match sort_all tree_sort ch with
    | None => SortFuel
    | Some None => SortDup
    | Some (Some ch') =>
      match list_sort (S (length ch')) ch' with
      | None => SortFuel
      | Some s => if adjacent_dup s then SortDup else SortOk (INode n k tg xk s)
      end
    end
  end.

(* ---- sqfs_tree_node_get_path + canonicalize_name ----
   [chain]: the names from the child of the tree root down to the node itself
   (empty for the root).  The C loop walks the same names upwards and returns an
   error for an empty name, a name containing '/', "." or ".."; then the root
   must have the empty name. *)
Definition name_ok_for_path (n : list N) : bool :=
  nonempty n && negb (has_slash n) &&
  negb (list_N_eqb n [dot]) && negb (list_N_eqb n [dot; dot]).

Definition get_path_model (rootname : list N) (chain : list (list N)) : option (list N) :=
  if forallb name_ok_for_path chain then
    if nonempty rootname then None
    else Some (match chain with
               | [] => [slash]                                   (* strdup("/") *)
               | _ => concat (map (fun c => slash :: c) chain)   (* "/a/b/c" *)
               end)
  else None.

Inductive path_res :=
| POk (p : list N)
| PErr           (* sqfs_tree_node_get_path failed: caller prints a message and returns -1 *)
| PAssert.       (* canonicalize_name failed on the assembled path: assert(ret == 0) *)

Definition node_path (rootname : list N) (chain : list (list N)) : path_res :=
  match get_path_model rootname chain with
  | None => PErr
  | Some s => match canon_model s with CanonOk r => POk r | _ => PAssert end
  end.

(* ---- the path-taking system calls ---- *)
Inductive op :=
| OMkdir (p : list N)            (* mkdir(p, 0755), EEXIST tolerated *)
| OSymlink (tgt p : list N)      (* symlink(tgt, p) *)
| OMknod (p : list N)            (* mknod(p, type|perm, dev) *)
| OCreatExcl (p : list N)        (* open(p, O_WRONLY|O_CREAT|O_EXCL, mode) *)
| OOpenTrunc (p : list N)        (* open(p, O_CREAT|O_RDWR|O_TRUNC, 0644) + write: follows a final symlink *)
| OSetxattr (p key : list N)     (* lsetxattr(p, key, ...) *)
| OUtimens (p : list N)          (* utimensat(AT_FDCWD, p, ts, AT_SYMLINK_NOFOLLOW) *)
| OChown (p : list N)            (* fchownat(AT_FDCWD, p, uid, gid, AT_SYMLINK_NOFOLLOW) *)
| OChmod (p : list N)            (* fchmodat(AT_FDCWD, p, mode, 0): follows a final symlink *)
| OAbort                         (* the tool prints an error and exits with failure here *)
| OAssert.                       (* assert(ret == 0) would abort() here *)

Record uflags := mk_uflags { f_chmod : bool; f_chown : bool; f_times : bool; f_xattr : bool }.

(* create_node *)
Definition create_op (k : kind) (tgt p : list N) : op :=
  match k with
  | KDir => OMkdir p
  | KLnk => OSymlink tgt p
  | KReg => OCreatExcl p
  | KBlk | KChr | KFifo | KSock => OMknod p
  end.

Definition sane := is_filename_sane_model.

(* create_node_dfs.  A failing call (OAbort, or a system call that fails when the
   list is executed) ends the whole run: [run] in FsModel.v stops at the first
   failing element, so the elements behind it are never used, exactly as the C
   code returns -1 through all levels. *)
Fixpoint create_dfs (rootname : list N) (anc : list (list N)) (t : itree) : list op :=
  match t with
  | INode n k tg _ ch =>
    if negb (sane n) then []            (* "Found an entry named '%s', skipping." *)
    else
      match node_path rootname (anc ++ [n]) with
      | PErr => [OAbort]
      | PAssert => [OAssert]
      | POk p =>
        create_op k tg p ::
        (if is_dir k then flat_map (create_dfs rootname (anc ++ [n])) ch else [])
      end
  end.

(* restore_fstree: children of a directory root, else the root itself *)
Definition restore (t : itree) : list op :=
  match t with
  | INode n k tg _ ch =>
    if is_dir k then flat_map (create_dfs n []) ch
    else if negb (sane n) then []
    else match node_path n [] with
         | PErr => [OAbort]
         | PAssert => [OAssert]
         | POk p => [create_op k tg p]
         end
  end.

(* gen_file_list_dfs / add_file: one item per regular file, FErr where
   sqfs_tree_node_get_path or canonicalize_name fails (return -1). *)
Inductive fitem := FPath (p : list N) | FErr.

Definition file_item (rootname : list N) (chain : list (list N)) : fitem :=
  match node_path rootname chain with POk p => FPath p | _ => FErr end.

Fixpoint gen_files (rootname : list N) (anc : list (list N)) (t : itree) : list fitem :=
  match t with
  | INode n k _ _ ch =>
    if negb (sane n) then []
    else if is_reg k then [file_item rootname (anc ++ [n])]
    else if is_dir k then flat_map (gen_files rootname (anc ++ [n])) ch
    else []
  end.

Definition gen_files_root (t : itree) : list fitem :=
  match t with
  | INode n k _ _ ch =>
    if negb (sane n) then []
    else if is_reg k then [file_item n []]
    else if is_dir k then flat_map (gen_files n []) ch
    else []
  end.

Definition fitem_is_err (i : fitem) : bool := match i with FErr => true | _ => false end.

Fixpoint fitem_paths (l : list fitem) : list (list N) :=
  match l with
  | [] => []
  | FPath p :: r => p :: fitem_paths r
  | FErr :: r => fitem_paths r
  end.

(* fill_unpacked_files: the list is generated completely (or the function fails
   before opening anything), then qsort'ed by on-disk location ([order]: an
   arbitrary rearrangement, the theorems hold for every permutation), then each
   file is opened with O_CREAT|O_TRUNC and written. *)
Definition fill (order : list (list N) -> list (list N)) (t : itree) : list op :=
  let items := gen_files_root t in
  if existsb fitem_is_err items then [OAbort]
  else map OOpenTrunc (order (fitem_paths items)).

(* set_attribs: children first, then the node itself *)
Definition attr_ops (fl : uflags) (k : kind) (xk : list (list N)) (p : list N) : list op :=
  (if f_xattr fl then map (OSetxattr p) xk else []) ++
  (if f_times fl then [OUtimens p] else []) ++
  (if f_chown fl then [OChown p] else []) ++
  (if f_chmod fl && negb (is_lnk k) then [OChmod p] else []).

Definition attr_self (fl : uflags) (rootname : list N) (chain : list (list N))
           (k : kind) (xk : list (list N)) : list op :=
  match node_path rootname chain with
  | PErr => [OAbort]
  | PAssert => [OAssert]
  | POk p => attr_ops fl k xk p
  end.

Fixpoint attr_dfs (fl : uflags) (rootname : list N) (anc : list (list N)) (t : itree) : list op :=
  match t with
  | INode n k _ xk ch =>
    if negb (sane n) then []
    else
      (if is_dir k then flat_map (attr_dfs fl rootname (anc ++ [n])) ch else []) ++
      attr_self fl rootname (anc ++ [n]) k xk
  end.

Definition any_attr_flag (fl : uflags) : bool :=
  f_chmod fl || f_chown fl || f_times fl || f_xattr fl.

(* update_tree_attribs *)
Definition attribs (fl : uflags) (t : itree) : list op :=
  if negb (any_attr_flag fl) then []
  else match t with
       | INode n k _ xk ch =>
         if is_dir k then flat_map (attr_dfs fl n []) ch
         else if negb (sane n) then []
         else attr_self fl n [] k xk
       end.

(* operations of an already sorted tree: restore_fstree; fill_unpacked_files;
   update_tree_attribs *)
Definition ops_of_sorted (order : list (list N) -> list (list N)) (fl : uflags) (t : itree) : list op :=
  restore t ++ fill order t ++ attribs fl t.

Inductive unpack_res :=
| UOps (l : list op)   (* after mkdir_p(R); chdir(R) the tool issues these calls, stopping at the first failure *)
| UDup                 (* tree_sort refused the image: nothing is touched, not even R *)
| UFuel.

(* case OP_UNPACK of main(), [raw] = the tree as stored in the image *)
Definition unpack_ops (order : list (list N) -> list (list N)) (fl : uflags) (raw : itree) : unpack_res :=
  match tree_sort (load raw) with
  | SortOk t => UOps (ops_of_sorted order fl t)
  | SortDup => UDup
  | SortFuel => UFuel
  end.

(* the entries reported as skipped by create_node_dfs (topmost unsane entry of
   every visited directory, in visiting order) *)
Fixpoint skipped_dfs (t : itree) : list (list N) :=
  match t with
  | INode n k _ _ ch =>
    if negb (sane n) then [n]
    else if is_dir k then flat_map skipped_dfs ch else []
  end.

Definition skipped (t : itree) : list (list N) :=
  match t with
  | INode n k _ _ ch =>
    if is_dir k then flat_map skipped_dfs ch
    else if negb (sane n) then [n] else []
  end.

(* the tree without the entries the walks skip *)
Fixpoint prune (t : itree) : itree :=
  match t with
  | INode n k tg xk ch =>
    INode n k tg xk (flat_map (fun c => if sane (iname c) then [prune c] else []) ch)
  end.
