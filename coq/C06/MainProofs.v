(* C06 — the lemmas behind Properties_C06.v, stated for the tool-level function
   unpack_ops. *)
From Coq Require Import List NArith Bool Arith Lia Permutation.
From SqfsV Require Import C18.CanonModel C18.CanonSpec C18.CanonProofs
     C06.UnpackModel C06.SortProofs C06.UnpackProofs C06.PathsProofs C06.FsModel C06.FsProofs.
Import ListNotations.
Local Open Scope N_scope.

Section Main.
  Variable order : list (list N) -> list (list N).
  Hypothesis order_perm : forall l, Permutation l (order l).

  Lemma ops_paths_ok_l fl raw ops : unpack_ops order fl raw = UOps ops -> paths_ok [] ops.
  Proof.
    intro HU. destruct (unpack_ops_sorted order fl raw ops HU) as (t & _ & _ & _ & ->).
    apply ops_of_sorted_paths_ok. exact order_perm.
  Qed.

  Lemma ops_paths_clean_l fl raw ops : unpack_ops order fl raw = UOps ops ->
    forall l1 o l2 p, ops = l1 ++ o :: l2 -> op_path o = Some p ->
    p = [] \/
    (Forall clean_comp (split_slash p) /\ (forall x, p <> slash :: x) /\
     forall pre c r, split_slash p = pre ++ c :: r -> pre <> [] ->
                     exists q, In (OMkdir q) l1 /\ split_slash q = pre).
  Proof.
    intros HU l1 o l2 p -> EP. pose proof (ops_paths_ok_l fl raw _ HU) as H.
    apply paths_ok_split in H.
    destruct (path_ok_clean _ _ _ H EP) as [->|[HC HA]]; [left; reflexivity|right].
    split; [exact HC|]. split; [exact HA|].
    unfold path_ok in H. rewrite EP in H.
    destruct H as [->|(cs & -> & Hn & Hc & Hpre)].
    { exfalso. cbn in HC. inversion HC as [|? ? Hx _]. destruct Hx as [Hx _]. apply Hx. reflexivity. }
    rewrite split_join_clean by assumption.
    intros pre c r E Hp. specialize (Hpre pre c r E Hp).
    apply made_after_nil_In in Hpre as [[]|Hpre]. exact Hpre.
  Qed.

  (* the rest of the image is still unpacked: every entry reachable through
     accepted, non-empty names has its creating call in the list *)
  Lemma unpack_covers_l fl raw ops :
    unpack_ops order fl raw = UOps ops ->
    exists t, tree_sort (load raw) = SortOk t /\ tperm (load raw) t /\
      (iname t = [] ->
       forall cs k, In (cs, k) (visit_root t) -> Forall clean_name cs ->
                    exists tg, In (create_op k tg (join cs)) ops).
  Proof.
    intro HU. destruct (unpack_ops_sorted order fl raw ops HU) as (t & E & _ & HP & ->).
    exists t. split; [exact E|]. split; [exact HP|].
    intros Hr cs k Hin Hc. destruct (restore_covers t cs k Hr Hin Hc) as (tg & Ht).
    exists tg. unfold ops_of_sorted. apply in_or_app. left. exact Ht.
  Qed.

  Lemma skip_is_local_l fl t :
    ops_of_sorted order fl (prune t) = ops_of_sorted order fl t.
  Proof. apply ops_of_sorted_prune. Qed.
End Main.
