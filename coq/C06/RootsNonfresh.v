(* C06 — what is guaranteed when the unpack root R is NOT fresh.

   unpack_confined (FsProofs.v) assumes that no symbolic link exists at or below
   R.  Here R may hold anything left by earlier runs: files, directories and
   symbolic links, at names the image uses or not.  The only way out of R is a
   PRE-EXISTING symbolic link sitting exactly where one of the run's own
   mkdir calls points (mkdir tolerates EEXIST, the later paths resolve through
   the link).  A pre-existing link at the name of a regular file, device, fifo,
   socket or symlink of the image stops the run (open O_EXCL / mknod / symlink
   fail with EEXIST); the fill and attribute passes only use names whose
   creating call succeeded earlier in the SAME run, and such a name did not
   exist before.

   Invariant of the run (W0 = initial world, done = calls that succeeded so far):
     I1 nothing changed outside R
     I2 every link below R is pre-existing or sits at a link place of the image
     I3 a name created exclusively by this run did not exist in W0
     I4 nothing disappears
     I5 every pre-existing link below R is unchanged *)
From Coq Require Import List NArith Bool Arith Lia Permutation.
From SqfsV Require Import C18.CanonModel C18.CanonSpec C18.CanonProofs
     C06.UnpackModel C06.SortProofs C06.UnpackProofs C06.PathsProofs C06.FsModel C06.FsProofs.
Import ListNotations.
Local Open Scope N_scope.

(* is there a symbolic link at the physical path q *)
Definition lnk (W : world) (q : ppath) : bool :=
  match W q with Some (OLink _ _) => true | _ => false end.

Lemma lnk_true W q : lnk W q = true <-> exists m tgt, W q = Some (OLink m tgt).
Proof.
  unfold lnk. split.
  - destruct (W q) as [[| |m t|]|]; try discriminate. eauto.
  - intros (m & t & ->). reflexivity.
Qed.

(* the run's mkdir calls that point (lexically, below R) at a symbolic link of W *)
Definition bad_mkdir (W : world) (R : ppath) (o : op) : bool :=
  match o with OMkdir p => lnk W (R ++ split_slash p) | _ => false end.

(* H0: no pre-existing symbolic link where the run makes a directory *)
Definition no_link_at_mkdir (W : world) (R : ppath) (ops : list op) : Prop :=
  forall p m tgt, In (OMkdir p) ops -> W (R ++ split_slash p) <> Some (OLink m tgt).

Lemma no_bad_mkdir W R ops :
  existsb (bad_mkdir W R) ops = false -> no_link_at_mkdir W R ops.
Proof.
  intros H p m tgt Hin E.
  assert (existsb (bad_mkdir W R) ops = true); [|congruence].
  apply existsb_exists. exists (OMkdir p). split; [exact Hin|].
  cbn [bad_mkdir]. apply lnk_true. eauto.
Qed.

Lemma some_bad_mkdir W R ops :
  existsb (bad_mkdir W R) ops = true ->
  exists p m tgt, In (OMkdir p) ops /\ W (R ++ split_slash p) = Some (OLink m tgt).
Proof.
  intro H. apply existsb_exists in H as (o & Hin & Hb).
  destruct o; try discriminate Hb. cbn [bad_mkdir] in Hb.
  apply lnk_true in Hb as (m & tgt & E). eauto.
Qed.

(* ---------- path resolution: links described by a predicate ---------- *)
Lemma walk_physP W R (P : list comp -> Prop) fl :
  (forall s m tgt, s <> [] -> W (R ++ s) = Some (OLink m tgt) -> P s) ->
  forall rest pre fuel,
  Forall clean_name rest ->
  (forall s r, s <> [] -> P s -> pre ++ rest = s ++ r -> r = [] /\ fl = false) ->
  match walk fuel W (R ++ pre) rest fl with
  | RFound pp o => pp = R ++ pre ++ rest /\ W pp = Some o
  | RMissing pp => pp = R ++ pre ++ rest /\ rest <> [] /\ W pp = None
  | RErr => True
  end.
Proof.
  intro HL. induction rest as [|c rest IH]; intros pre fuel Hc Hp.
  - destruct fuel as [|f]; cbn [walk]; [exact I|].
    destruct (W (R ++ pre)) eqn:E; [|exact I]. rewrite app_nil_r. auto.
  - destruct fuel as [|f]; cbn [walk]; [exact I|].
    destruct (W (R ++ pre)) as [[m| | |]|]; try exact I.
    inversion Hc as [|? ? Hcc Hcr]; subst.
    destruct (clean_step c Hcc) as [E1 E2]. rewrite E1, E2.
    assert (forall s r, s <> [] -> P s -> (pre ++ [c]) ++ rest = s ++ r -> r = [] /\ fl = false) as Hp'.
    { intros s r Hn Hs E. apply (Hp s r Hn Hs). rewrite <- E, <- app_assoc. reflexivity. }
    assert (pre ++ c :: rest = (pre ++ [c]) ++ rest) as EB by (rewrite <- app_assoc; reflexivity).
    assert (pre ++ [c] <> []) as Hpc by (destruct pre; discriminate).
    rewrite <- !app_assoc. destruct (W (R ++ pre ++ [c])) as [o|] eqn:EW.
    + destruct o as [m'|m' d|m' tgt|m'].
      * destruct rest as [|c' rest'].
        -- auto.
        -- rewrite EB. pose proof (IH (pre ++ [c]) f Hcr Hp') as HI.
           destruct (walk f W (R ++ pre ++ [c]) (c' :: rest') fl); [exact HI| |exact I].
           destruct HI as (H1 & _ & H3). split; [exact H1|]. split; [discriminate|exact H3].
      * destruct rest as [|c' rest'].
        -- auto.
        -- rewrite EB. pose proof (IH (pre ++ [c]) f Hcr Hp') as HI.
           destruct (walk f W (R ++ pre ++ [c]) (c' :: rest') fl); [exact HI| |exact I].
           destruct HI as (H1 & _ & H3). split; [exact H1|]. split; [discriminate|exact H3].
      * pose proof (HL _ _ _ Hpc EW) as Hin.
        destruct (Hp' (pre ++ [c]) rest Hpc Hin eq_refl) as [-> ->].
        auto.
      * destruct rest as [|c' rest'].
        -- auto.
        -- rewrite EB. pose proof (IH (pre ++ [c]) f Hcr Hp') as HI.
           destruct (walk f W (R ++ pre ++ [c]) (c' :: rest') fl); [exact HI| |exact I].
           destruct HI as (H1 & _ & H3). split; [exact H1|]. split; [discriminate|exact H3].
    + destruct rest as [|c' rest']; [|exact I].
      split; [reflexivity|]. split; [discriminate|exact EW].
Qed.

Lemma resolve_physP W R (P : list comp -> Prop) cs fuel fl :
  (forall s m tgt, s <> [] -> W (R ++ s) = Some (OLink m tgt) -> P s) ->
  cs <> [] -> Forall clean_name cs ->
  (forall s r, s <> [] -> P s -> cs = s ++ r -> r = [] /\ fl = false) ->
  match resolve fuel W R (join cs) fl with
  | RFound pp ob => pp = R ++ cs /\ W pp = Some ob
  | RMissing pp => pp = R ++ cs /\ W pp = None
  | RErr => True
  end.
Proof.
  intros HL Hn Hc Hp. unfold resolve.
  destruct (join_clean_nonempty cs Hc Hn) as [Hj Ha].
  destruct (join cs) eqn:EJ; [contradiction|]. rewrite Ha. rewrite <- EJ.
  rewrite split_join; [|apply good_noslash, Forall_clean_good; exact Hc|exact Hn].
  pose proof (walk_physP W R P fl HL cs [] fuel Hc) as HW.
  rewrite app_nil_r in HW. cbn [app] in HW. specialize (HW Hp).
  destruct (walk fuel W R cs fl); [exact HW| |exact I]. tauto.
Qed.

(* ---------- classification of the calls ---------- *)
(* symlink / mknod / open(O_CREAT|O_EXCL): fail on ANY existing name *)
Definition excl_create (o : op) : bool :=
  match o with OSymlink _ _ | OMknod _ | OCreatExcl _ => true | _ => false end.

Definition is_create (o : op) : bool :=
  match o with OMkdir _ => true | _ => excl_create o end.

Lemma create_op_is_create k tg p : is_create (create_op k tg p) = true.
Proof. destruct k; reflexivity. Qed.

Lemma create_op_excl k tg p : k <> KDir -> excl_create (create_op k tg p) = true.
Proof. destruct k; try reflexivity. intro H; contradiction. Qed.

Lemma is_create_nofollow o : is_create o = true -> follows o = false.
Proof. destruct o; try reflexivity; discriminate. Qed.

Section NonFresh.
  Variable new_meta : op -> meta.
  Variable set_meta : op -> meta -> meta.
  Variable new_data : op -> data.
  Variable W0 : world.
  Variable R : ppath.
  Variable NS : list (list comp * kind).
  Hypothesis HLL : link_leaf NS.

  (* what one call needs, given the calls that succeeded before it *)
  Definition op_safe2 (done : list op) (o : op) : Prop :=
    match op_path o with
    | None => True
    | Some p =>
      p = [] \/
      exists cs k, p = join cs /\ cs <> [] /\ Forall clean_name cs /\ In (cs, k) NS /\ op_kind_ok o k /\
        (forall pre c r, cs = pre ++ c :: r -> pre <> [] -> lnk W0 (R ++ pre) = false) /\
        (is_create o = true \/ lnk W0 (R ++ cs) = false \/
         exists o', In o' done /\ excl_create o' = true /\ op_path o' = Some (join cs))
    end.

  Lemma op_safe2_mono done done' o : incl done done' -> op_safe2 done o -> op_safe2 done' o.
  Proof.
    intro Hi. unfold op_safe2. destruct (op_path o) as [p|]; [|auto].
    intros [->|(cs & k & H1 & H2 & H3 & H4 & H5 & H6 & H7)]; [left; reflexivity|right].
    exists cs, k. repeat split; try assumption.
    destruct H7 as [H7|[H7|(o' & Ho' & H7)]]; [left; exact H7|right; left; exact H7|].
    right; right. exists o'. split; [apply Hi; exact Ho'|exact H7].
  Qed.

  Fixpoint all_safe2 (done : list op) (l : list op) : Prop :=
    match l with
    | [] => True
    | o :: r => op_safe2 done o /\ all_safe2 (o :: done) r
    end.

  Lemma all_safe2_forall l : forall done,
    (forall o done', In o l -> incl done done' -> op_safe2 done' o) -> all_safe2 done l.
  Proof.
    induction l as [|o l IH]; intros done H; [exact I|].
    cbn [all_safe2]. split; [apply H; [left; reflexivity|apply incl_refl]|].
    apply IH. intros o' done' Hin Hi. apply H; [right; exact Hin|].
    intros x Hx. apply Hi. right. exact Hx.
  Qed.

  Lemma all_safe2_app l1 : forall done l2,
    all_safe2 done l1 -> all_safe2 (rev l1 ++ done) l2 -> all_safe2 done (l1 ++ l2).
  Proof.
    induction l1 as [|o l1 IH]; intros done l2 H1 H2; [exact H2|].
    cbn [app all_safe2] in *. destruct H1 as [Ho H1]. split; [exact Ho|].
    apply IH; [exact H1|]. cbn [rev] in H2. rewrite <- app_assoc in H2. exact H2.
  Qed.

  Record inv (W : world) (done : list op) : Prop := {
    i_out : forall q, ~ under R q -> W q = W0 q;
    i_lnk : forall s m tgt, s <> [] -> W (R ++ s) = Some (OLink m tgt) ->
                            lnk W0 (R ++ s) = true \/ In s (link_places NS);
    i_new : forall o' cs, In o' done -> excl_create o' = true -> op_path o' = Some (join cs) ->
                          Forall clean_name cs -> cs <> [] -> W0 (R ++ cs) = None;
    i_mono : forall q, W q = None -> W0 q = None;
    i_old : forall s, lnk W0 (R ++ s) = true -> W (R ++ s) = W0 (R ++ s)
  }.

  Lemma inv_init : inv W0 [].
  Proof.
    split; try reflexivity; auto.
    - intros s m tgt _ E. left. apply lnk_true. eauto.
    - intros o' cs [].
  Qed.

  Lemma join_inj cs cs' :
    Forall clean_name cs -> cs <> [] -> Forall clean_name cs' -> cs' <> [] -> join cs = join cs' -> cs = cs'.
  Proof.
    intros H1 H2 H3 H4 E. rewrite <- (split_join_clean cs H1 H2), <- (split_join_clean cs' H3 H4), E. reflexivity.
  Qed.

  (* a call that leaves the world alone *)
  Lemma inv_same W done o : inv W done -> excl_create o = false -> inv W (o :: done).
  Proof.
    intros [I1 I2 I3 I4 I5] Ho. split; try assumption.
    intros o' cs [<-|Hin] He; [congruence|]. apply I3; assumption.
  Qed.

  (* a call that writes the object ob at R ++ cs *)
  Lemma inv_upd W done o cs ob :
    inv W done -> cs <> [] -> Forall clean_name cs ->
    (forall m tgt, ob = OLink m tgt -> lnk W0 (R ++ cs) = true \/ In cs (link_places NS)) ->
    lnk W0 (R ++ cs) = false ->
    (excl_create o = true -> op_path o = Some (join cs) /\ W (R ++ cs) = None) ->
    inv (upd W (R ++ cs) ob) (o :: done).
  Proof.
    intros [I1 I2 I3 I4 I5] Hn Hc Hob Hnl Hex. split.
    - intros q Hq. rewrite upd_other; [apply I1; exact Hq|].
      intros ->. apply Hq. apply under_app. exact Hn.
    - intros s m tgt Hs E. unfold upd in E. destruct (ppath_eqb (R ++ s) (R ++ cs)) eqn:EP.
      + apply ppath_eqb_eq, app_inv_head in EP. subst s. inversion E; subst. eapply Hob. reflexivity.
      + eapply I2; eassumption.
    - intros o' cs' [<-|Hin] He EP Hc' Hn'.
      + destruct (Hex He) as [EP' HW]. rewrite EP in EP'. inversion EP' as [EJ].
        apply join_inj in EJ; try assumption. subst cs'. apply I4. exact HW.
      + eapply I3; eassumption.
    - intros q E. unfold upd in E. destruct (ppath_eqb q (R ++ cs)); [discriminate|]. apply I4. exact E.
    - intros s Hs. rewrite upd_other; [apply I5; exact Hs|].
      intro E. apply app_inv_head in E. subst s. congruence.
  Qed.

  Let exec_op := exec_op new_meta set_meta new_data.
  Let run := run new_meta set_meta new_data.

  Lemma exec_op_inv2 fuel W done o W' :
    inv W done -> op_safe2 done o -> exec_op fuel W R o = Some W' -> inv W' (o :: done).
  Proof.
    intros HI Hs E. unfold op_safe2 in Hs. destruct (op_path o) as [p|] eqn:EP;
      [|destruct o; try discriminate EP; discriminate E].
    destruct Hs as [->|(cs & k & -> & Hn & Hc & Hin & Hk & Hpre & Hown)].
    { exfalso. destruct o; cbn in EP; inversion EP; subst; cbn in E; try discriminate E.
      destruct tgt; discriminate E. }
    pose proof HI as [I1 I2 I3 I4 I5].
    (* a pre-existing link at the call's own name: only an (exclusive) create may meet it *)
    assert (is_create o = false -> lnk W0 (R ++ cs) = false) as Hown'.
    { intro Hnc. destruct Hown as [H|[H|(o' & Ho' & He & EP')]]; [congruence|exact H|].
      unfold lnk. rewrite (I3 o' cs Ho' He EP' Hc Hn). reflexivity. }
    set (P := fun s : list comp => lnk W0 (R ++ s) = true \/ In s (link_places NS)).
    assert (forall fl, (fl = true -> follows o = true) ->
              match resolve fuel W R (join cs) fl with
              | RFound pp ob => pp = R ++ cs /\ W pp = Some ob
              | RMissing pp => pp = R ++ cs /\ W pp = None
              | RErr => True
              end) as HR.
    { intros fl Hfl. apply (resolve_physP W R P); try assumption.
      intros s r Hsn [HP|HP] Ecs.
      - (* pre-existing link *)
        destruct r as [|c r].
        + rewrite app_nil_r in Ecs. subst s. split; [reflexivity|].
          destruct fl; [|reflexivity]. exfalso.
          assert (is_create o = false) as Hnc.
          { destruct (is_create o) eqn:EC; [|reflexivity].
            apply is_create_nofollow in EC. rewrite Hfl in EC by reflexivity. discriminate. }
          rewrite (Hown' Hnc) in HP. discriminate.
        + exfalso. rewrite (Hpre s c r Ecs Hsn) in HP. discriminate.
      - (* a link of this image: a leaf of the tree *)
        apply link_places_In in HP. destruct (HLL s cs k r HP Hin Ecs) as [-> ->].
        split; [reflexivity|]. destruct fl; [|reflexivity].
        specialize (Hfl eq_refl). destruct o; simpl in *; try discriminate; congruence. }
    assert (forall ob tol Wx, (forall m tgt, ob = OLink m tgt -> In cs (link_places NS)) ->
              (tol = false -> excl_create o = true) -> (tol = true -> excl_create o = false) ->
              create_at fuel W R (join cs) ob tol = Some Wx -> inv Wx (o :: done)) as HC.
    { intros ob tol Wx Hob Ht1 Ht2. unfold create_at. specialize (HR false ltac:(discriminate)).
      destruct (resolve fuel W R (join cs) false) as [pp ob'|pp|]; [| |discriminate].
      - destruct tol; [|discriminate]. intro EE; inversion EE; subst. apply inv_same; auto.
      - destruct HR as [-> HW]. intro EE; inversion EE; subst. apply inv_upd; try assumption.
        + intros m tgt Eo. right. eapply Hob. exact Eo.
        + unfold lnk. rewrite (I4 _ HW). reflexivity.
        + intros _. auto. }
    assert (forall fl f Wx, (fl = true -> follows o = true) -> is_create o = false ->
              attr_at fuel W R (join cs) fl f = Some Wx -> inv Wx (o :: done)) as HA.
    { intros fl f Wx Hfl Hnc. unfold attr_at. specialize (HR fl Hfl).
      destruct (resolve fuel W R (join cs) fl) as [pp ob'|pp|]; try discriminate.
      destruct HR as [-> HW]. intro EE; inversion EE; subst. apply inv_upd; try assumption.
      - intros m tgt Eo. destruct ob'; simpl in Eo; try discriminate.
        eapply (I2 cs); [exact Hn|exact HW].
      - apply Hown'. exact Hnc.
      - intro He. destruct o; discriminate. }
    destruct o; cbn in EP; inversion EP; subst; cbn [FsModel.exec_op exec_op] in E; unfold exec_op in E; cbn in E.
    - eapply HC; [| | |exact E]; [discriminate|discriminate|reflexivity].
    - destruct tgt; [discriminate|]. eapply HC; [| | |exact E].
      + intros m t _. simpl in Hk. subst k. apply link_places_In. exact Hin.
      + reflexivity.
      + discriminate.
    - eapply HC; [| | |exact E]; [discriminate|reflexivity|discriminate].
    - eapply HC; [| | |exact E]; [discriminate|reflexivity|discriminate].
    - specialize (HR true ltac:(reflexivity)).
      destruct (resolve fuel W R (join cs) true) as [pp ob'|pp|]; [| |discriminate].
      + destruct HR as [-> HW]. destruct ob'; try discriminate.
        * inversion E; subst. apply inv_upd; try assumption; try discriminate. apply Hown'. reflexivity.
        * inversion E; subst. apply inv_same; auto.
      + destruct HR as [-> HW]. inversion E; subst. apply inv_upd; try assumption; try discriminate.
        apply Hown'. reflexivity.
    - eapply HA; [| |exact E]; [discriminate|reflexivity].
    - eapply HA; [| |exact E]; [discriminate|reflexivity].
    - eapply HA; [| |exact E]; [discriminate|reflexivity].
    - eapply HA; [| |exact E]; reflexivity.
  Qed.

  Lemma run_inv2 fuel ops : forall W done,
    inv W done -> all_safe2 done ops ->
    exists done', inv (fst (run fuel W R ops)) done'.
  Proof.
    induction ops as [|o ops IH]; intros W done HI HF.
    - exists done. exact HI.
    - cbn [all_safe2] in HF. destruct HF as [Ho HF]. unfold run. cbn [FsModel.run].
      destruct (FsModel.exec_op new_meta set_meta new_data fuel W R o) as [W1|] eqn:E.
      + pose proof (exec_op_inv2 fuel W done o W1 HI Ho E) as HI1.
        destruct (IH W1 (o :: done) HI1 HF) as (done' & HI').
        exists done'. unfold run in HI'.
        destruct (FsModel.run new_meta set_meta new_data fuel W1 R ops) as [Wf n]. exact HI'.
      + exists done. exact HI.
  Qed.
End NonFresh.

(* ---------- the operation list of an image satisfies all_safe2 ---------- *)
Lemma create_dfs_all_create rn t : forall anc,
  Forall (fun o => is_create o = true \/ op_path o = None) (create_dfs rn anc t).
Proof.
  induction t as [n k tg xk ch IH] using itree_ind'. intro anc.
  cbn [create_dfs]. destruct (sane n); cbn [negb]; [|constructor].
  destruct (node_path rn (anc ++ [n])); try (constructor; [right; reflexivity|constructor]).
  constructor; [left; apply create_op_is_create|].
  destruct (is_dir k); [|constructor]. apply Forall_flat_map.
  intros c Hc. rewrite Forall_forall in IH. apply IH. exact Hc.
Qed.

Lemma restore_all_create t : Forall (fun o => is_create o = true \/ op_path o = None) (restore t).
Proof.
  destruct t as [n k tg xk ch]. cbn [restore]. destruct (is_dir k).
  - apply Forall_flat_map. intros c _. apply create_dfs_all_create.
  - destruct (sane n); cbn [negb]; [|constructor].
    destruct (node_path n []) as [p| |].
    + constructor; [left; apply create_op_is_create|constructor].
    + constructor; [right; reflexivity|constructor].
    + constructor; [right; reflexivity|constructor].
Qed.

Section Ops.
  Variable order : list (list N) -> list (list N).
  Hypothesis order_perm : forall l, Permutation l (order l).

  Lemma ops_all_safe2 W0 R fl t :
    no_link_at_mkdir W0 R (ops_of_sorted order fl t) ->
    all_safe2 W0 R (visit_root t) [] (ops_of_sorted order fl t).
  Proof.
    intro H0.
    pose proof (ops_of_sorted_ok order order_perm fl t) as HO.
    set (NS := visit_root t) in *.
    assert (forall p, In (OMkdir p) (restore t) -> lnk W0 (R ++ split_slash p) = false) as H0r.
    { intros p Hp. destruct (lnk W0 (R ++ split_slash p)) eqn:E; [|reflexivity].
      apply lnk_true in E as (m & tgt & E). exfalso. eapply H0; [|exact E].
      unfold ops_of_sorted. apply in_or_app. left. exact Hp. }
    (* the static part, for every call on the path of a visited node *)
    assert (forall cs k, iname t = [] -> In (cs, k) NS -> Forall clean_name cs ->
              (forall pre c r, cs = pre ++ c :: r -> pre <> [] -> lnk W0 (R ++ pre) = false) /\
              (k = KDir -> lnk W0 (R ++ cs) = false) /\
              (k <> KDir -> exists o', In o' (restore t) /\ excl_create o' = true /\ op_path o' = Some (join cs)))
      as Hst.
    { intros cs k Hr Hin Hc. split; [|split].
      - intros pre c r E Hn.
        pose proof (restore_has_mkdir t cs k pre c r Hr Hin Hc E Hn) as Hm.
        apply made_after_nil_In in Hm as [[]|(p & Hp & Es)]. rewrite <- Es. apply H0r. exact Hp.
      - intros ->. destruct (restore_covers t cs KDir Hr Hin Hc) as (tg & Ht). cbn [create_op] in Ht.
        assert (cs <> []) as Hn.
        { intros ->. unfold NS in Hin. destruct t as [n kk tg' xk ch]. cbn [visit_root] in Hin.
          destruct (is_dir kk); [|contradiction]. apply in_flat_map in Hin as (c1 & _ & Hin).
          destruct (visit_prefix _ _ _ _ Hin) as (r1 & E1). discriminate E1. }
        rewrite <- (split_join_clean cs Hc Hn). apply H0r. exact Ht.
      - intro Hk. destruct (restore_covers t cs k Hr Hin Hc) as (tg & Ht).
        exists (create_op k tg (join cs)). split; [exact Ht|]. split; [apply create_op_excl; exact Hk|apply create_op_path]. }
    unfold ops_of_sorted in *. apply Forall_app in HO as [HO1 HO2].
    apply all_safe2_app.
    - (* restore: creating calls only *)
      apply all_safe2_forall. intros o done' Hin _.
      pose proof (restore_all_create t) as HC. rewrite Forall_forall in HC, HO1.
      specialize (HC o Hin). specialize (HO1 o Hin). unfold op_safe2.
      destruct HC as [HC|HC]; [|rewrite HC; exact I].
      destruct HO1 as [[->|(Er & cs & k & Hi & Hc & Hn & EP & Hk)]|EP]; [exact I| |rewrite EP; left; reflexivity].
      rewrite EP. right. exists cs, k. destruct (Hst cs k Er Hi Hc) as (S1 & _ & _).
      repeat split; try assumption. left. exact HC.
    - (* fill and attributes: the creating call of the node is in the restore part *)
      apply all_safe2_forall. intros o done' Hin Hi'.
      rewrite Forall_forall in HO2. specialize (HO2 o Hin). unfold op_safe2.
      destruct HO2 as [[->|(Er & cs & k & Hi & Hc & Hn & EP & Hk)]|EP]; [exact I| |rewrite EP; left; reflexivity].
      rewrite EP. right. exists cs, k. destruct (Hst cs k Er Hi Hc) as (S1 & S2 & S3).
      repeat split; try assumption. right.
      destruct k; try (left; apply S2; reflexivity);
        (right; destruct S3 as (o' & Ho' & He & Ep'); [discriminate|];
         exists o'; split; [apply Hi'; apply in_or_app; left; rewrite <- in_rev; exact Ho'|auto]).
  Qed.
End Ops.

Section Main.
  Variable order : list (list N) -> list (list N).
  Hypothesis order_perm : forall l, Permutation l (order l).
  Variable new_meta : op -> meta.
  Variable set_meta : op -> meta -> meta.
  Variable new_data : op -> data.

  (* R may hold anything; if no pre-existing symbolic link sits where the run
     makes a directory, nothing outside R changes and every pre-existing
     symbolic link below R is left exactly as it was *)
  Lemma unpack_nonfresh_l fl raw ops fuel W R :
    unpack_ops order fl raw = UOps ops ->
    no_link_at_mkdir W R ops ->
    (forall q, ~ under R q -> fst (run new_meta set_meta new_data fuel W R ops) q = W q) /\
    (forall s m tgt, W (R ++ s) = Some (OLink m tgt) ->
                     fst (run new_meta set_meta new_data fuel W R ops) (R ++ s) = Some (OLink m tgt)).
  Proof.
    intros HU H0. destruct (unpack_ops_sorted order fl raw ops HU) as (t & _ & Hok & _ & ->).
    pose proof (ops_all_safe2 order order_perm W R fl t H0) as HS.
    destruct (run_inv2 new_meta set_meta new_data W R (visit_root t) (visit_root_link_leaf t Hok)
                       fuel _ W [] (inv_init W R (visit_root t)) HS) as (done' & [I1 _ _ _ I5]).
    split; [exact I1|].
    intros s m tgt E. rewrite I5; [exact E|]. apply lnk_true. eauto.
  Qed.

  (* the characterisation: every change outside R has a witness *)
  Lemma unpack_nonfresh_characterised_l fl raw ops fuel W R q :
    unpack_ops order fl raw = UOps ops ->
    ~ under R q ->
    fst (run new_meta set_meta new_data fuel W R ops) q <> W q ->
    exists p m tgt, In (OMkdir p) ops /\ W (R ++ split_slash p) = Some (OLink m tgt).
  Proof.
    intros HU Hq Hne. destruct (existsb (bad_mkdir W R) ops) eqn:E.
    - apply some_bad_mkdir. exact E.
    - exfalso. apply Hne.
      apply (proj1 (unpack_nonfresh_l fl raw ops fuel W R HU (no_bad_mkdir W R ops E))). exact Hq.
  Qed.

  (* the mkdir of the witness is the mkdir of a directory of the image *)
  Lemma mkdir_is_image_dir fl raw ops p :
    unpack_ops order fl raw = UOps ops -> In (OMkdir p) ops ->
    exists t, tree_sort (load raw) = SortOk t /\
      (p = [] \/ exists cs, p = join cs /\ cs <> [] /\ Forall clean_name cs /\ In (cs, KDir) (visit_root t)).
  Proof.
    intros HU Hin. destruct (unpack_ops_sorted order fl raw ops HU) as (t & E & _ & _ & ->).
    exists t. split; [exact E|].
    pose proof (ops_of_sorted_ok order order_perm fl t) as HO. rewrite Forall_forall in HO.
    destruct (HO _ Hin) as [[Ha|(_ & cs & k & Hi & Hc & Hn & EP & Hk)]|EP].
    - discriminate Ha.
    - right. simpl in EP, Hk. inversion EP; subst. exists cs. auto.
    - left. simpl in EP. inversion EP. reflexivity.
  Qed.

  (* the fill pass opens only names whose exclusive creation is earlier in the list *)
  Lemma fill_opens_only_created_l fl raw ops l1 p l2 :
    unpack_ops order fl raw = UOps ops -> ops = l1 ++ OOpenTrunc p :: l2 ->
    p = [] \/ In (OCreatExcl p) l1.
  Proof.
    intros HU E. destruct (unpack_ops_sorted order fl raw ops HU) as (t & _ & _ & _ & Eo).
    pose proof (ops_of_sorted_ok order order_perm fl t) as HO. rewrite <- Eo in HO.
    assert (In (OOpenTrunc p) ops) as Hin by (rewrite E; apply in_or_app; right; left; reflexivity).
    rewrite Forall_forall in HO.
    destruct (HO _ Hin) as [[Ha|(Er & cs & k & Hi & Hc & Hn & EP & Hk)]|EP];
      [discriminate Ha| |left; simpl in EP; inversion EP; reflexivity].
    right. simpl in EP, Hk. inversion EP; subst p k.
    destruct (restore_covers t cs KReg Er Hi Hc) as (tg & Ht). cbn [create_op] in Ht.
    (* the restore part has no OOpenTrunc, so it lies entirely in l1 *)
    rewrite Eo in E. unfold ops_of_sorted in E.
    pose proof (restore_all_create t) as HC.
    revert l1 E Ht HC. generalize (restore t) as A. generalize (fill order t ++ attribs fl t) as B.
    intros B A. induction A as [|a A IH]; intros l1 E Ht HC; [contradiction|].
    destruct l1 as [|x l1].
    - exfalso. cbn [app] in E. inversion E as [[Ea Er']]. inversion HC as [|? ? Hca _]; subst.
      destruct Hca as [Hca|Hca]; discriminate Hca.
    - cbn [app] in E. inversion E as [[Ea Er']]. subst x. destruct Ht as [->|Ht]; [left; reflexivity|].
      right. inversion HC; subst. eapply IH; eassumption.
  Qed.
End Main.

(* an exclusive create never goes through an existing name: whatever the
   no-follow resolution of its path finds (a symbolic link included), it fails *)
Lemma excl_create_refuses_existing_l new_meta set_meta new_data fuel W R o p pp ob :
  excl_create o = true -> op_path o = Some p ->
  resolve fuel W R p false = RFound pp ob ->
  exec_op new_meta set_meta new_data fuel W R o = None.
Proof.
  intros He EP Er. destruct o; try discriminate He; cbn in EP; inversion EP; subst; cbn.
  - destruct tgt; [reflexivity|]. unfold create_at. rewrite Er. reflexivity.
  - unfold create_at. rewrite Er. reflexivity.
  - unfold create_at. rewrite Er. reflexivity.
Qed.

(* and when it succeeds, exactly one new object appears where nothing was *)
Lemma excl_create_effect_l new_meta set_meta new_data fuel W R o p W' :
  excl_create o = true -> op_path o = Some p ->
  exec_op new_meta set_meta new_data fuel W R o = Some W' ->
  exists pp ob, resolve fuel W R p false = RMissing pp /\ W' = upd W pp ob /\
                (forall m d, ob = OFile m d -> d = 0).
Proof.
  intros He EP E. destruct o; try discriminate He; cbn in EP; inversion EP; subst; cbn in E.
  - destruct tgt; [discriminate|]. unfold create_at in E.
    destruct (resolve fuel W R p false) as [| pp |]; try discriminate. inversion E.
    eexists _, _. split; [reflexivity|]. split; [reflexivity|]. discriminate.
  - unfold create_at in E. destruct (resolve fuel W R p false) as [| pp |]; try discriminate. inversion E.
    eexists _, _. split; [reflexivity|]. split; [reflexivity|]. discriminate.
  - unfold create_at in E. destruct (resolve fuel W R p false) as [| pp |]; try discriminate. inversion E.
    eexists _, _. split; [reflexivity|]. split; [reflexivity|]. intros m d Eo. inversion Eo. reflexivity.
Qed.
