(* C06 — model of the unpack-root handling of rdsquashfs' main()
   (bin/rdsquashfs/src/rdsquashfs.c, case OP_UNPACK):

       if (tree_sort(n)) goto out;
       if (opt.unpack_root != NULL) {
           if (mkdir_p(opt.unpack_root)) goto out;
           if (chdir(opt.unpack_root)) { perror(opt.unpack_root); goto out; }
       }
       if (restore_fstree(...)) goto out;  if (fill_unpacked_files(...)) goto out;
       if (update_tree_attribs(...)) goto out;
       status = EXIT_SUCCESS;

   and of lib/util/src/mkdir_p.c (POSIX branch), over the world of FsModel.v:
   the process has a working directory (a physical path), mkdir_p issues one
   EEXIST-tolerant mkdir per '/'-terminated prefix, chdir follows symbolic
   links and needs a directory (that the process may enter: [can_enter], the
   model has no permission bits otherwise).  Definitions only.

   Also here: the two model VARIANTS that reproduce seeded bugs (they are
   models of the seeds, not of the code): [main_unpack false] ignores a
   failing chdir (seed C06-7), [creat_variant] creates regular files with
   creat() = open(O_CREAT|O_WRONLY|O_TRUNC) instead of O_EXCL (seed C06-8). *)
From Coq Require Import List NArith Bool Arith.
From SqfsV Require Import C18.CanonModel C18.CanonSpec C06.UnpackModel C06.FsModel.
Import ListNotations.
Local Open Scope N_scope.

(* ---- mkdir_p ---- *)
(* while (path[0] == '/' && path[1] == '/') ++path; *)
Fixpoint strip_lead (p : list N) : list N :=
  match p with
  | a :: ((b :: _) as r) => if N.eqb a slash && N.eqb b slash then strip_lead r else p
  | _ => p
  end.

(* for (i = 0; i < len; ++i) { if (i > 0 && (path[i] == '/' || path[i] == '\0')) mkdir(buffer[0..i)); ... }
   [pre] = path[0..i), [rest] = path[i..] *)
Fixpoint mkp_go (pre rest : list N) : list (list N) :=
  match rest with
  | [] => [pre]
  | c :: r => (if N.eqb c slash then [pre] else []) ++ mkp_go (pre ++ [c]) r
  end.

(* the arguments of the mkdir calls of mkdir_p(path), in order *)
Definition mkdir_p_calls (path : list N) : list (list N) :=
  match strip_lead (cut0 path) with
  | [] => []                                            (* *path == '\0' *)
  | c :: r =>
    match r with
    | [] => if N.eqb c slash then [] else mkp_go [c] r   (* "/" *)
    | _ => mkp_go [c] r
    end
  end.

Inductive exit_status := ExitOK | ExitFail.

Record main_out := mk_out {
  m_world : world;            (* the file system when the tool exits *)
  m_cwd : option ppath;       (* the physical directory the three passes ran in; None: no pass was started *)
  m_executed : nat;           (* number of calls of the three passes that were issued and succeeded *)
  m_status : exit_status
}.

Section Main.
  Variable new_meta : op -> meta.
  Variable set_meta : op -> meta -> meta.
  Variable new_data : op -> data.
  Variable can_enter : ppath -> bool.     (* search permission on the directory chdir reaches *)

  (* chdir(p) of a process whose working directory is S *)
  Definition chdir (fuel : nat) (W : world) (S : ppath) (p : list N) : option ppath :=
    match resolve fuel W S (cut0 p) true with
    | RFound pp (ODir _) => if can_enter pp then Some pp else None
    | _ => None
    end.

  Definition run_passes (fuel : nat) (W : world) (D : ppath) (ops : list op) : main_out :=
    let (Wf, n) := run new_meta set_meta new_data fuel W D ops in
    mk_out Wf (Some D) n (if Nat.eqb n (length ops) then ExitOK else ExitFail).

  (* the world after mkdir_p(r) called in directory S, and whether it returned 0 *)
  Definition mkdir_p_run (fuel : nat) (W : world) (S : ppath) (r : list N) : world * bool :=
    let calls := map OMkdir (mkdir_p_calls r) in
    let (W1, n1) := run new_meta set_meta new_data fuel W S calls in
    (W1, Nat.eqb n1 (length calls)).

  (* [check_chdir = true]: the code.  [false]: seed C06-7's bug (a failing chdir
     is only reported, the passes run in the start directory). *)
  Definition main_unpack (check_chdir : bool) (fuel : nat) (W : world) (S : ppath)
             (rarg : option (list N)) (u : unpack_res) : main_out :=
    match u with
    | UDup | UFuel => mk_out W None O ExitFail
    | UOps ops =>
      match rarg with
      | None => run_passes fuel W S ops
      | Some r =>
        let (W1, ok) := mkdir_p_run fuel W S r in
        if negb ok then mk_out W1 None O ExitFail
        else match chdir fuel W1 S r with
             | Some D => run_passes fuel W1 D ops
             | None => if check_chdir then mk_out W1 None O ExitFail
                       else run_passes fuel W1 S ops
             end
      end
    end.
End Main.

(* ---- seed C06-8: create_node() uses creat(name, mode) ----
   creat = open(O_CREAT|O_WRONLY|O_TRUNC): follows a final symbolic link,
   creates what is missing (also through a dangling link), truncates what
   exists - in the world model exactly the behaviour of OOpenTrunc. *)
Definition OOpenTruncCreate := OOpenTrunc.

Definition creat_variant (ops : list op) : list op :=
  map (fun o => match o with OCreatExcl p => OOpenTruncCreate p | _ => o end) ops.
