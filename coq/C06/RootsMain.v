(* C06 — theorems about the unpack-root handling (RootsModel.v). *)
From Coq Require Import List NArith Bool Arith Lia Permutation.
From SqfsV Require Import C18.CanonModel C18.CanonSpec C18.CanonProofs
     C06.UnpackModel C06.SortProofs C06.UnpackProofs C06.PathsProofs C06.FsModel C06.FsProofs
     C06.RootsModel C06.RootsNonfresh.
Import ListNotations.
Local Open Scope N_scope.

(* q is as before, or it did not exist and is a directory now *)
Definition same_or_new_dir (W W' : world) : Prop :=
  forall q, W' q = W q \/ (W q = None /\ exists m, W' q = Some (ODir m)).

Lemma same_or_new_dir_refl W : same_or_new_dir W W.
Proof. intro q. left. reflexivity. Qed.

Lemma same_or_new_dir_trans W1 W2 W3 :
  same_or_new_dir W1 W2 -> same_or_new_dir W2 W3 -> same_or_new_dir W1 W3.
Proof.
  intros H12 H23 q. destruct (H12 q) as [E|[E (m & Em)]], (H23 q) as [F|[F (m' & Fm)]].
  - left. congruence.
  - right. split; [congruence|eauto].
  - right. split; [exact E|]. exists m. congruence.
  - congruence.
Qed.

Lemma walk_missing_none fuel W : forall cur cs fl pp, walk fuel W cur cs fl = RMissing pp -> W pp = None.
Proof.
  induction fuel as [|f IH]; intros cur cs fl pp E; [discriminate|].
  cbn [walk] in E. destruct cs as [|c rest].
  - destruct (W cur); discriminate.
  - destruct (W cur) as [[m| | |]|]; try discriminate.
    destruct (negb (nonempty c) || is_dot c); [eapply IH; exact E|].
    destruct (is_dotdot c); [eapply IH; exact E|].
    destruct (W (cur ++ [c])) as [o|] eqn:EW.
    + destruct o as [m'|m' d|m' tgt|m'].
      * destruct rest; [discriminate|eapply IH; exact E].
      * destruct rest; [discriminate|eapply IH; exact E].
      * destruct rest, fl; try discriminate; (destruct tgt; [discriminate|eapply IH; exact E]).
      * destruct rest; [discriminate|eapply IH; exact E].
    + destruct rest; [|discriminate]. inversion E; subst. exact EW.
Qed.

Section RootProofs.
  Variable new_meta : op -> meta.
  Variable set_meta : op -> meta -> meta.
  Variable new_data : op -> data.
  Variable can_enter : ppath -> bool.

  Let run := run new_meta set_meta new_data.
  Let main_unpack := main_unpack new_meta set_meta new_data can_enter.
  Let mkdir_p_run := mkdir_p_run new_meta set_meta new_data.
  Let chdir := chdir can_enter.

  (* mkdir_p only makes directories where nothing was *)
  Lemma mkdirs_only_add_dirs fuel S calls : forall W,
    same_or_new_dir W (fst (run fuel W S (map OMkdir calls))).
  Proof.
    induction calls as [|p calls IH]; intro W; [apply same_or_new_dir_refl|].
    unfold run. cbn [map FsModel.run]. cbn [exec_op]. unfold create_at.
    destruct (resolve fuel W S p false) as [pp o|pp|] eqn:ER.
    - specialize (IH W). unfold run in IH.
      destruct (FsModel.run new_meta set_meta new_data fuel W S (map OMkdir calls)). exact IH.
    - assert (W pp = None) as HN.
      { unfold resolve in ER. destruct p; [discriminate|]. eapply walk_missing_none. exact ER. }
      specialize (IH (upd W pp (ODir (new_meta (OMkdir p))))). unfold run in IH.
      destruct (FsModel.run new_meta set_meta new_data fuel _ S (map OMkdir calls)) as [Wf n]. cbn [fst] in *.
      eapply same_or_new_dir_trans; [|exact IH].
      intro q. unfold upd. destruct (ppath_eqb q pp) eqn:EQ; [|left; reflexivity].
      apply ppath_eqb_eq in EQ. subst q. right. split; [exact HN|eauto].
    - apply same_or_new_dir_refl.
  Qed.

  Lemma mkdir_p_run_dirs fuel W S r : same_or_new_dir W (fst (mkdir_p_run fuel W S r)).
  Proof.
    unfold mkdir_p_run, RootsModel.mkdir_p_run.
    pose proof (mkdirs_only_add_dirs fuel S (mkdir_p_calls r) W) as H. unfold run in H.
    destruct (FsModel.run new_meta set_meta new_data fuel W S (map OMkdir (mkdir_p_calls r))). exact H.
  Qed.

  (* a refused image: nothing is touched, not even R *)
  Lemma main_refused_l cc fuel W S rarg u :
    u = UDup \/ u = UFuel -> main_unpack cc fuel W S rarg u = mk_out W None O ExitFail.
  Proof. intros [->| ->]; reflexivity. Qed.

  (* chdir(R) fails (whatever mkdir_p did): no call of the three passes is
     issued, the exit status is failure, and compared with the initial world
     only directories made by mkdir_p for R's own prefixes are new *)
  Lemma main_chdir_fails_l fuel W S r ops :
    chdir fuel (fst (mkdir_p_run fuel W S r)) S r = None ->
    let out := main_unpack true fuel W S (Some r) (UOps ops) in
    m_executed out = O /\ m_cwd out = None /\ m_status out = ExitFail /\
    m_world out = fst (mkdir_p_run fuel W S r) /\ same_or_new_dir W (m_world out).
  Proof.
    intros HC. pose proof (mkdir_p_run_dirs fuel W S r) as HD.
    unfold main_unpack, RootsModel.main_unpack. fold mkdir_p_run. fold chdir.
    destruct (mkdir_p_run fuel W S r) as [W1 ok]. cbn [fst] in *.
    destruct ok; cbn [negb]; [rewrite HC|]; cbn; auto.
  Qed.

  (* exit status 0, or any call of the passes issued, needs a successful chdir:
     the passes ran in the PHYSICAL directory D that the kernel reached from
     the start directory by resolving R with all symbolic links followed *)
  Lemma main_started_l fuel W S r ops :
    let out := main_unpack true fuel W S (Some r) (UOps ops) in
    let W1 := fst (mkdir_p_run fuel W S r) in
    (m_status out = ExitOK \/ m_executed out <> O \/ m_cwd out <> None) ->
    exists D m, resolve fuel W1 S (cut0 r) true = RFound D (ODir m) /\ can_enter D = true /\
                m_cwd out = Some D /\
                m_world out = fst (run fuel W1 D ops) /\
                m_executed out = snd (run fuel W1 D ops) /\
                (m_status out = ExitOK <-> snd (run fuel W1 D ops) = length ops).
  Proof.
    unfold main_unpack, RootsModel.main_unpack. fold mkdir_p_run. fold chdir.
    destruct (mkdir_p_run fuel W S r) as [W1 ok]. cbn [fst].
    destruct ok; cbn [negb].
    2:{ cbn. intros [H|[H|H]]; [discriminate|contradiction|contradiction]. }
    destruct (chdir fuel W1 S r) as [D|] eqn:EC.
    2:{ cbn. intros [H|[H|H]]; [discriminate|contradiction|contradiction]. }
    intros _. unfold chdir, RootsModel.chdir in EC.
    destruct (resolve fuel W1 S (cut0 r) true) as [pp o| |] eqn:ER; try discriminate.
    destruct o as [m| | |]; try discriminate. destruct (can_enter pp) eqn:EE; [|discriminate].
    inversion EC; subst pp. exists D, m. split; [reflexivity|]. split; [exact EE|].
    unfold run_passes, run. destruct (FsModel.run new_meta set_meta new_data fuel W1 D ops) as [Wf n].
    cbn. repeat split; try reflexivity.
    - destruct (Nat.eqb n (length ops)) eqn:EN; [intros _; apply Nat.eqb_eq; exact EN|discriminate].
    - intros ->. rewrite Nat.eqb_refl. reflexivity.
  Qed.
End RootProofs.

(* ---- end to end: main() and confinement ---- *)
Section EndToEnd.
  Variable order : list (list N) -> list (list N).
  Hypothesis order_perm : forall l, Permutation l (order l).
  Variable new_meta : op -> meta.
  Variable set_meta : op -> meta -> meta.
  Variable new_data : op -> data.
  Variable can_enter : ppath -> bool.

  (* main() end to end, W1 = the world after mkdir_p(R):
       - W1 is W plus new directories (R's own prefixes);
       - no pass started (refused image, mkdir_p or chdir failed): no call issued, exit failure, world W1 (or W);
       - passes started in D: D is the physical directory resolve reached for R from the start directory with
         links followed; everything not strictly beneath D is as in W1 unless a symbolic link existing in W1
         below D sits where one of the run's mkdir calls points (the witness of the characterisation) *)
  Lemma main_unpack_confined_l fl raw fuel W S r :
    let out := main_unpack new_meta set_meta new_data can_enter true fuel W S (Some r) (unpack_ops order fl raw) in
    let W1 := fst (mkdir_p_run new_meta set_meta new_data fuel W S r) in
    same_or_new_dir W W1 /\
    (m_cwd out = None ->
       m_executed out = O /\ m_status out = ExitFail /\ (m_world out = W1 \/ m_world out = W)) /\
    (forall D, m_cwd out = Some D ->
       exists ops m, unpack_ops order fl raw = UOps ops /\
         resolve fuel W1 S (cut0 r) true = RFound D (ODir m) /\
         forall q, ~ under D q ->
           (no_link_at_mkdir W1 D ops -> m_world out q = W1 q) /\
           (m_world out q <> W1 q ->
              exists p m' tgt, In (OMkdir p) ops /\ W1 (D ++ split_slash p) = Some (OLink m' tgt))).
  Proof.
    intros out W1. split; [apply mkdir_p_run_dirs|].
    destruct (unpack_ops order fl raw) as [ops| |] eqn:EU.
    - split.
      + intro EC. destruct (m_status out) eqn:ES.
        * exfalso.
          destruct (main_started_l new_meta set_meta new_data can_enter fuel W S r ops) as (D' & m & _ & _ & EC' & _);
            [left; exact ES|]. fold out in EC'. congruence.
        * destruct (m_executed out) eqn:EN.
          -- split; [reflexivity|]. split; [reflexivity|]. left.
             subst out W1. revert EC. unfold main_unpack, RootsModel.main_unpack.
             destruct (mkdir_p_run new_meta set_meta new_data fuel W S r) as [Wx ok]. cbn [fst].
             destruct ok; cbn [negb]; [|reflexivity].
             destruct (chdir can_enter fuel Wx S r) as [Dx|]; [|reflexivity].
             unfold run_passes. destruct (run new_meta set_meta new_data fuel Wx Dx ops). cbn. discriminate.
          -- exfalso.
             destruct (main_started_l new_meta set_meta new_data can_enter fuel W S r ops) as (D' & m & _ & _ & EC' & _);
               [right; left; fold out; rewrite EN; discriminate|]. fold out in EC'. congruence.
      + intros D EC.
        destruct (main_started_l new_meta set_meta new_data can_enter fuel W S r ops) as (D' & m & ER & _ & EC' & EW & _);
          [right; right; fold out; rewrite EC; discriminate|].
        fold out in EC', EW. rewrite EC in EC'. inversion EC'; subst D'. fold W1 in EW, ER.
        exists ops, m. split; [reflexivity|]. split; [exact ER|].
        intros q Hq. rewrite EW. split.
        * intro H0. apply (proj1 (unpack_nonfresh_l order order_perm new_meta set_meta new_data fl raw ops fuel W1 D EU H0)). exact Hq.
        * intro Hne. eapply (unpack_nonfresh_characterised_l order order_perm); eassumption.
    - split; [intros _; cbn; auto|]. cbn. discriminate.
    - split; [intros _; cbn; auto|]. cbn. discriminate.
  Qed.
End EndToEnd.
