(* C06 — confinement: executing the operation list in the POSIX model changes
   no object that is not strictly beneath R. *)
From Coq Require Import List NArith Bool Arith Lia Permutation.
From SqfsV Require Import C18.CanonModel C18.CanonSpec C18.CanonProofs
     C06.UnpackModel C06.SortProofs C06.UnpackProofs C06.FsModel.
Import ListNotations.
Local Open Scope N_scope.

Lemma ppath_eqb_eq a b : ppath_eqb a b = true <-> a = b.
Proof.
  revert b; induction a as [|x a IH]; intros [|y b]; simpl; split; intro H;
    try reflexivity; try discriminate.
  - apply andb_true_iff in H as [H1 H2]. apply list_N_eqb_eq in H1. apply IH in H2. congruence.
  - inversion H; subst. apply andb_true_iff. split; [apply list_N_eqb_eq; reflexivity|apply IH; reflexivity].
Qed.

Lemma upd_same W pp o : upd W pp o pp = Some o.
Proof. unfold upd. assert (ppath_eqb pp pp = true) as -> by (apply ppath_eqb_eq; reflexivity). reflexivity. Qed.

Lemma upd_other W pp o q : q <> pp -> upd W pp o q = W q.
Proof.
  intro H. unfold upd. destruct (ppath_eqb q pp) eqn:E; [|reflexivity].
  apply ppath_eqb_eq in E. contradiction.
Qed.

(* every symbolic link at or below R sits at one of the relative places LS *)
Definition links_in (W : world) (R : ppath) (LS : list (list comp)) : Prop :=
  forall s m tgt, W (R ++ s) = Some (OLink m tgt) -> In s LS.

Lemma clean_step c : clean_name c ->
  negb (nonempty c) || is_dot c = false /\ is_dotdot c = false.
Proof.
  intros [Hs Hn]. apply sane_facts in Hs as (H1 & H2 & _). rewrite H1, H2.
  destruct c; [contradiction|]. split; reflexivity.
Qed.

(* resolution of clean components below R stays physical: no link is followed *)
Lemma walk_phys W R LS fl : links_in W R LS ->
  forall rest pre fuel,
  Forall clean_name rest ->
  (forall s r, In s LS -> pre ++ rest = s ++ r -> r = [] /\ fl = false) ->
  match walk fuel W (R ++ pre) rest fl with
  | RFound pp o => pp = R ++ pre ++ rest /\ W pp = Some o
  | RMissing pp => pp = R ++ pre ++ rest /\ rest <> [] /\ W pp = None
  | RErr => True
  end.
Proof.
  intro HL. induction rest as [|c rest IH]; intros pre fuel Hc Hp.
  - destruct fuel as [|f]; cbn [walk]; [exact I|].
    destruct (W (R ++ pre)) eqn:E; [|exact I]. rewrite app_nil_r. auto.
  - destruct fuel as [|f]; cbn [walk]; [exact I|].
    destruct (W (R ++ pre)) as [[m| | |]|]; try exact I.
    inversion Hc as [|? ? Hcc Hcr]; subst.
    destruct (clean_step c Hcc) as [E1 E2]. rewrite E1, E2.
    assert (forall s r, In s LS -> (pre ++ [c]) ++ rest = s ++ r -> r = [] /\ fl = false) as Hp'.
    { intros s r Hs E. apply (Hp s r Hs). rewrite <- E, <- app_assoc. reflexivity. }
    assert (pre ++ c :: rest = (pre ++ [c]) ++ rest) as EB by (rewrite <- app_assoc; reflexivity).
    rewrite <- !app_assoc. destruct (W (R ++ pre ++ [c])) as [o|] eqn:EW.
    + destruct o as [m'|m' d|m' tgt|m'].
      * destruct rest as [|c' rest'].
        -- auto.
        -- rewrite EB. pose proof (IH (pre ++ [c]) f Hcr Hp') as HI.
           destruct (walk f W (R ++ pre ++ [c]) (c' :: rest') fl); [exact HI| |exact I].
           destruct HI as (H1 & _ & H3). split; [exact H1|]. split; [discriminate|exact H3].
      * destruct rest as [|c' rest'].
        -- auto.
        -- rewrite EB. pose proof (IH (pre ++ [c]) f Hcr Hp') as HI.
           destruct (walk f W (R ++ pre ++ [c]) (c' :: rest') fl); [exact HI| |exact I].
           destruct HI as (H1 & _ & H3). split; [exact H1|]. split; [discriminate|exact H3].
      * (* a link: it is one of LS, so nothing follows it and the call does not follow *)
        pose proof (HL _ _ _ EW) as Hin.
        destruct (Hp' (pre ++ [c]) rest Hin eq_refl) as [-> ->].
        auto.
      * destruct rest as [|c' rest'].
        -- auto.
        -- rewrite EB. pose proof (IH (pre ++ [c]) f Hcr Hp') as HI.
           destruct (walk f W (R ++ pre ++ [c]) (c' :: rest') fl); [exact HI| |exact I].
           destruct HI as (H1 & _ & H3). split; [exact H1|]. split; [discriminate|exact H3].
    + destruct rest as [|c' rest']; [|exact I].
      split; [reflexivity|]. split; [discriminate|exact EW].
Qed.

(* operations the confinement argument can deal with, relative to the places
   LS where the image puts symbolic links *)
Definition follows (o : op) : bool :=
  match o with OOpenTrunc _ | OChmod _ => true | _ => false end.

Definition op_safe (LS : list (list comp)) (o : op) : Prop :=
  match op_path o with
  | None => True
  | Some p =>
    p = [] \/
    exists cs, p = join cs /\ cs <> [] /\ Forall clean_name cs /\
               (forall s r, In s LS -> cs = s ++ r -> r = [] /\ follows o = false) /\
               (forall tgt q, o = OSymlink tgt q -> In cs LS)
  end.

Lemma join_clean_nonempty cs : Forall clean_name cs -> cs <> [] ->
  join cs <> [] /\ is_abs (join cs) = false.
Proof.
  intros H Hn. destruct cs as [|c r]; [contradiction|].
  inversion H as [|? ? [Hs Hc] _]; subst. rewrite join_cons.
  destruct c as [|x c]; [contradiction|]. split; [discriminate|].
  apply sane_facts in Hs as (_ & _ & Hs). simpl in Hs. simpl.
  destruct (N.eqb x slash); [discriminate|reflexivity].
Qed.

Lemma resolve_phys W R LS cs fuel fl :
  links_in W R LS -> cs <> [] -> Forall clean_name cs ->
  (forall s r, In s LS -> cs = s ++ r -> r = [] /\ fl = false) ->
  match resolve fuel W R (join cs) fl with
  | RFound pp ob => pp = R ++ cs /\ W pp = Some ob
  | RMissing pp => pp = R ++ cs /\ W pp = None
  | RErr => True
  end.
Proof.
  intros HL Hn Hc Hp. unfold resolve.
  destruct (join_clean_nonempty cs Hc Hn) as [Hj Ha].
  destruct (join cs) eqn:EJ; [contradiction|]. rewrite Ha. rewrite <- EJ.
  rewrite split_join; [|apply good_noslash, Forall_clean_good; exact Hc|exact Hn].
  pose proof (walk_phys W R LS fl HL cs [] fuel Hc) as HW.
  rewrite app_nil_r in HW. cbn [app] in HW. specialize (HW Hp).
  destruct (walk fuel W R cs fl); [exact HW| |exact I]. tauto.
Qed.

Lemma under_app R cs : cs <> [] -> under R (R ++ cs).
Proof. intro H. exists cs. auto. Qed.

Section ExecProofs.
  Variable new_meta : op -> meta.
  Variable set_meta : op -> meta -> meta.
  Variable new_data : op -> data.

  Let exec_op := exec_op new_meta set_meta new_data.
  Let run := run new_meta set_meta new_data.

  Definition step_inv (W W' : world) (R : ppath) (LS : list (list comp)) : Prop :=
    links_in W' R LS /\ (forall q, ~ under R q -> W' q = W q).

  Lemma upd_inv W R LS cs ob :
    links_in W R LS -> cs <> [] ->
    (forall m tgt, ob = OLink m tgt -> In cs LS) ->
    step_inv W (upd W (R ++ cs) ob) R LS.
  Proof.
    intros HL Hn Hob. split.
    - intros s m tgt E. unfold upd in E. destruct (ppath_eqb (R ++ s) (R ++ cs)) eqn:EP.
      + apply ppath_eqb_eq, app_inv_head in EP. subst s. inversion E; subst. eapply Hob. reflexivity.
      + eapply HL. exact E.
    - intros q Hq. apply upd_other. intros ->. apply Hq. apply under_app. exact Hn.
  Qed.

  Lemma exec_op_inv fuel W R LS o W' :
    links_in W R LS -> op_safe LS o -> exec_op fuel W R o = Some W' -> step_inv W W' R LS.
  Proof.
    intros HL Hs E. assert (step_inv W W R LS) as Hid by (split; [exact HL|reflexivity]).
    unfold op_safe in Hs. destruct (op_path o) as [p|] eqn:EP;
      [|destruct o; try discriminate EP; discriminate E].
    destruct Hs as [->|(cs & -> & Hn & Hc & Hpre & Hsym)].
    { (* the empty path: every call fails with ENOENT *)
      exfalso. destruct o; cbn in EP; inversion EP; subst; cbn in E; try discriminate E.
      destruct tgt; discriminate E. }
    assert (forall fl, (fl = true -> follows o = true) ->
              match resolve fuel W R (join cs) fl with
              | RFound pp ob => pp = R ++ cs /\ W pp = Some ob
              | RMissing pp => pp = R ++ cs /\ W pp = None
              | RErr => True
              end) as HR.
    { intros fl Hfl. apply (resolve_phys W R LS); try assumption.
      intros s r Hin Ecs. destruct (Hpre s r Hin Ecs) as [-> Hf]. split; [reflexivity|].
      destruct fl; [|reflexivity]. rewrite Hfl in Hf by reflexivity. discriminate. }
    assert (forall ob tol Wx, (forall m tgt, ob = OLink m tgt -> In cs LS) ->
              create_at fuel W R (join cs) ob tol = Some Wx -> step_inv W Wx R LS) as HC.
    { intros ob tol Wx Hob. unfold create_at. specialize (HR false ltac:(discriminate)).
      destruct (resolve fuel W R (join cs) false) as [pp ob'|pp|]; [| |discriminate].
      - destruct tol; [|discriminate]. intro EE; inversion EE; subst. exact Hid.
      - destruct HR as [-> _]. intro EE; inversion EE; subst. apply upd_inv; assumption. }
    assert (forall fl f Wx, (fl = true -> follows o = true) ->
              attr_at fuel W R (join cs) fl f = Some Wx -> step_inv W Wx R LS) as HA.
    { intros fl f Wx Hfl. unfold attr_at. specialize (HR fl Hfl).
      destruct (resolve fuel W R (join cs) fl) as [pp ob'|pp|]; try discriminate.
      destruct HR as [-> HW]. intro EE; inversion EE; subst. apply upd_inv; try assumption.
      intros m tgt Eo. destruct ob'; simpl in Eo; try discriminate. inversion Eo; subst.
      apply (HL cs _ _ HW). }
    destruct o; cbn in EP; inversion EP; subst; cbn [FsModel.exec_op exec_op] in E; unfold exec_op in E; cbn in E.
    - eapply HC; [|exact E]. discriminate.
    - destruct tgt; [discriminate|]. eapply HC; [|exact E]. intros m t _. eapply Hsym. reflexivity.
    - eapply HC; [|exact E]. discriminate.
    - eapply HC; [|exact E]. discriminate.
    - specialize (HR true ltac:(reflexivity)).
      destruct (resolve fuel W R (join cs) true) as [pp ob'|pp|]; [| |discriminate].
      + destruct HR as [-> HW]. destruct ob'; try discriminate.
        * inversion E; subst. apply upd_inv; try assumption. discriminate.
        * inversion E; subst. exact Hid.
      + destruct HR as [-> HW]. inversion E; subst. apply upd_inv; try assumption. discriminate.
    - eapply HA; [|exact E]. discriminate.
    - eapply HA; [|exact E]. discriminate.
    - eapply HA; [|exact E]. discriminate.
    - eapply HA; [|exact E]. reflexivity.
  Qed.

  Lemma run_inv fuel R LS ops : forall W,
    links_in W R LS -> Forall (op_safe LS) ops ->
    step_inv W (fst (run fuel W R ops)) R LS.
  Proof.
    induction ops as [|o ops IH]; intros W HL HF.
    - split; [exact HL|reflexivity].
    - inversion HF; subst. cbn [FsModel.run run]. unfold run. cbn [FsModel.run].
      destruct (FsModel.exec_op new_meta set_meta new_data fuel W R o) as [W1|] eqn:E.
      + destruct (exec_op_inv fuel W R LS o W1 HL H1 E) as [HL1 HO1].
        specialize (IH W1 HL1 H2). unfold run in IH.
        destruct (FsModel.run new_meta set_meta new_data fuel W1 R ops) as [Wf n]. cbn [fst] in *.
        destruct IH as [HLf HOf]. split; [exact HLf|].
        intros q Hq. rewrite HOf by exact Hq. apply HO1. exact Hq.
      + split; [exact HL|reflexivity].
  Qed.
End ExecProofs.

(* ---------- from the tree to safe operations ---------- *)
Definition link_places (NS : list (list comp * kind)) : list (list comp) :=
  map fst (filter (fun x => is_lnk (snd x)) NS).

Lemma link_places_In NS s : In s (link_places NS) <-> In (s, KLnk) NS.
Proof.
  unfold link_places. rewrite in_map_iff. split.
  - intros ([s' k] & <- & H). apply filter_In in H as [H Hk]. simpl in *. destruct k; try discriminate. exact H.
  - intro H. exists (s, KLnk). split; [reflexivity|]. apply filter_In. split; [exact H|reflexivity].
Qed.

Lemma op_ok_safe rn NS o : link_leaf NS -> op_ok rn NS o -> op_safe (link_places NS) o.
Proof.
  intros HLL [[->|(_ & cs & k & Hin & Hc & Hn & EP & Hk)]|EP]; unfold op_safe.
  - exact I.
  - rewrite EP. right. exists cs. repeat split; try assumption.
    + apply link_places_In in H. destruct (HLL s cs k r H Hin H0) as [Hr _]. exact Hr.
    + apply link_places_In in H. destruct (HLL s cs k r H Hin H0) as [_ ->].
      destruct o; simpl in *; try reflexivity; try discriminate; contradiction.
    + intros tgt q ->. simpl in Hk. subst k. apply link_places_In. exact Hin.
  - rewrite EP. left. reflexivity.
Qed.

Section Main.
  Variable order : list (list N) -> list (list N).
  Hypothesis order_perm : forall l, Permutation l (order l).
  Variable new_meta : op -> meta.
  Variable set_meta : op -> meta -> meta.
  Variable new_data : op -> data.

  Lemma unpack_ops_sorted fl raw ops :
    unpack_ops order fl raw = UOps ops ->
    exists t, tree_sort (load raw) = SortOk t /\ sorted_ok t /\ tperm (load raw) t /\
              ops = ops_of_sorted order fl t.
  Proof.
    unfold unpack_ops. destruct (tree_sort (load raw)) as [t| |] eqn:E; try discriminate.
    intro H; inversion H; subst. exists t. destruct (tree_sort_ok _ _ E). auto.
  Qed.

  Lemma unpack_confined_l fl raw ops fuel W R :
    unpack_ops order fl raw = UOps ops ->
    (forall s m tgt, W (R ++ s) <> Some (OLink m tgt)) ->
    forall q, ~ under R q -> fst (run new_meta set_meta new_data fuel W R ops) q = W q.
  Proof.
    intros HU HW. destruct (unpack_ops_sorted fl raw ops HU) as (t & _ & Hok & _ & ->).
    set (NS := visit_root t).
    assert (links_in W R (link_places NS)) as HL by (intros s m tgt E; exfalso; exact (HW s m tgt E)).
    assert (Forall (op_safe (link_places NS)) (ops_of_sorted order fl t)) as HF.
    { eapply Forall_impl; [|apply (ops_of_sorted_ok order order_perm fl t)].
      intros o Ho. eapply op_ok_safe; [apply visit_root_link_leaf; exact Hok|exact Ho]. }
    apply (run_inv new_meta set_meta new_data fuel R (link_places NS) _ W HL HF).
  Qed.

  Lemma unpack_never_fuel fl raw : unpack_ops order fl raw <> UFuel.
  Proof.
    unfold unpack_ops. destruct (tree_sort (load raw)) eqn:E; try discriminate.
    exfalso. exact (tree_sort_no_fuel _ E).
  Qed.

  Lemma unpack_never_assert fl raw ops : unpack_ops order fl raw = UOps ops -> ~ In OAssert ops.
  Proof.
    intro HU. destruct (unpack_ops_sorted fl raw ops HU) as (t & _ & _ & _ & ->).
    apply ops_never_assert. exact order_perm.
  Qed.
End Main.
