(* C10 — the SQFS_DIR_READER_DOT_ENTRIES mode of lib/sqfs/src/dir_reader.c.

   A reader created with that flag keeps a cache ("dcache", an rbtree of lib/util)
   from directory inode number to inode reference:
     - dcache_add            : called by sqfs_dir_reader_get_inode after every successful
                               fetch; directory inodes only; an existing key is kept
     - sqfs_dir_reader_resolve_inum : lookup
     - sqfs_dir_reader_open_dir     : looks up the directory's own number and (unless it
                               is the root) its parent's number; SQFS_ERROR_NO_ENTRY if
                               a key is missing; the two references become the "." and
                               ".." entries that sqfs_dir_reader_read synthesizes first
     - sqfs_dir_reader_resolve_path : get_inode + open_dir + read per component, so
                               "." and ".." components are resolved through the cache.

   The rbtree is NOT modelled here (lib/util is verified elsewhere): it is an abstract
   type with operations that take the key comparator as an argument, exactly like
   rbtree_init(&rd->dcache, ..., dcache_key_compare).  Its contract
   ([rbtree_contract]) is the textbook one: for every comparator that is a strict
   total order on the keys, insert-then-lookup behaves like a finite map.  What
   dir_reader.c itself must provide is such a comparator: [key_compare] below is
   the model of dcache_key_compare and [key_compare_strict_total] (DotProofs.v) the
   proof; the tie compares the C function with [key_compare] pair by pair.

   The meta readers are those of ApiModel.v (R_INODE, R_DIR); every library call
   runs its clients with nothing positioned, as in the flags = 0 model.
   Not modelled: allocation failure (rbtree_insert, mk_dummy_entry), sqfs_copy. *)
From Coq Require Import List NArith ZArith Bool.
From SqfsV Require Import Gen.Constants Base.Bytes C10.GenC10 C10.GenC10Dot C10.MetaModel C10.ClientModel
     C10.DataModel C10.ApiModel.
Import ListNotations.
Local Open Scope N_scope.

(* ------------------------------------------------------------------ *)
(* the key comparator                                                   *)
(* ------------------------------------------------------------------ *)

Definition u32m : N := 256 ^ c10d_inum_bytes.          (* keys are sqfs_u32 inode numbers *)

(* dcache_key_compare: lhs < rhs ? -1 : (lhs > rhs ? 1 : 0) on the two sqfs_u32 keys *)
Definition key_compare (l r : N) : Z :=
  if l <? r then (-1)%Z else if r <? l then 1%Z else 0%Z.

(* what the rbtree needs from a comparator (keys in range) *)
Definition strict_total (cmp : N -> N -> Z) : Prop :=
  forall a b c, a < u32m -> b < u32m -> c < u32m ->
    (cmp a b = 0%Z <-> a = b) /\
    ((cmp a b < 0)%Z <-> (cmp b a > 0)%Z) /\
    ((cmp a b < 0)%Z -> (cmp b c < 0)%Z -> (cmp a c < 0)%Z).

(* the comparator a "simplification" produces: (int)(lhs - rhs), unsigned subtraction
   reinterpreted as a signed int.  Not a total order once keys are 2^31 apart
   (DotProofs.sub_compare_not_total); kept as the counterexample of the hypothesis. *)
Definition int_of_u32 (x : N) : Z :=
  if x <? u32m / 2 then Z.of_N x else (Z.of_N x - Z.of_N u32m)%Z.
Definition sub_compare (l r : N) : Z := int_of_u32 ((l + u32m - r) mod u32m).

(* ------------------------------------------------------------------ *)
(* the rbtree, abstractly                                               *)
(* ------------------------------------------------------------------ *)

(* finite-map behaviour of (empty, lookup, insert) on keys < 2^32; insert is only ever
   called for a key that is not present (dcache_add looks it up first) *)
Definition map_laws {T : Type} (empty : T) (lookup : T -> N -> option N) (insert : T -> N -> N -> T) : Prop :=
  exists inv : T -> Prop,
    inv empty /\
    (forall k, k < u32m -> lookup empty k = None) /\
    (forall t k v, inv t -> k < u32m -> lookup t k = None ->
       inv (insert t k v) /\
       forall k', k' < u32m -> lookup (insert t k v) k' = if k' =? k then Some v else lookup t k').

(* the contract of lib/util/src/rbtree.c as far as dir_reader.c relies on it *)
Definition rbtree_contract {T : Type} (empty : T)
           (lookup : (N -> N -> Z) -> T -> N -> option N)
           (insert : (N -> N -> Z) -> T -> N -> N -> T) : Prop :=
  forall cmp, strict_total cmp -> map_laws empty (lookup cmp) (insert cmp).

(* ---- instance 1: association list searched with the comparator (the executable
        instance the extracted model uses; contract proved in DotProofs.al_contract) ---- *)
Definition al_t : Type := list (N * N).
Definition al_empty : al_t := [].
Fixpoint al_lookup (cmp : N -> N -> Z) (t : al_t) (k : N) : option N :=
  match t with
  | [] => None
  | (k', v) :: r => if (cmp k k' =? 0)%Z then Some v else al_lookup cmp r k
  end.
Definition al_insert (cmp : N -> N -> Z) (t : al_t) (k v : N) : al_t := (k, v) :: t.

(* ---- instance 2: a transcription of the left-leaning red-black tree of
        lib/util/src/rbtree.c (subtree_insert / subtree_balance / rotate_* /
        flip_colors / rbtree_lookup).  Used ONLY for the two witnesses in
        DotProofs.v that show why the comparator hypothesis matters; no theorem
        depends on it and its contract is not proved here. ---- *)
Inductive rb :=
| RbLeaf
| RbNode (red : bool) (l : rb) (k v : N) (r : rb).

Definition rb_red (n : rb) : bool := match n with RbNode true _ _ _ _ => true | _ => false end.
Definition rb_flip (n : rb) : rb :=
  match n with RbNode c l k v r => RbNode (negb c) l k v r | RbLeaf => RbLeaf end.

Definition rb_rotate_left (n : rb) : rb :=
  match n with
  | RbNode c l k v (RbNode _ xl xk xv xr) => RbNode c (RbNode true l k v xl) xk xv xr
  | _ => n
  end.
Definition rb_rotate_right (n : rb) : rb :=
  match n with
  | RbNode c (RbNode _ xl xk xv xr) k v r => RbNode c xl xk xv (RbNode true xr k v r)
  | _ => n
  end.
Definition rb_left (n : rb) : rb := match n with RbNode _ l _ _ _ => l | RbLeaf => RbLeaf end.
Definition rb_right (n : rb) : rb := match n with RbNode _ _ _ _ r => r | RbLeaf => RbLeaf end.
Definition rb_flip_colors (n : rb) : rb :=
  match n with
  | RbNode c l k v r => RbNode (negb c) (rb_flip l) k v (rb_flip r)
  | RbLeaf => RbLeaf
  end.
Definition rb_balance (n : rb) : rb :=
  let n1 := if rb_red (rb_right n) && negb (rb_red (rb_left n)) then rb_rotate_left n else n in
  let n2 := if rb_red (rb_left n1) && rb_red (rb_left (rb_left n1)) then rb_rotate_right n1 else n1 in
  if rb_red (rb_left n2) && rb_red (rb_right n2) then rb_flip_colors n2 else n2.
Fixpoint rb_subtree_insert (cmp : N -> N -> Z) (root : rb) (k v : N) : rb :=
  match root with
  | RbLeaf => RbNode true RbLeaf k v RbLeaf
  | RbNode c l rk rv r =>
    rb_balance (if (cmp k rk <? 0)%Z then RbNode c (rb_subtree_insert cmp l k v) rk rv r
                else RbNode c l rk rv (rb_subtree_insert cmp r k v))
  end.
Definition rb_insert (cmp : N -> N -> Z) (t : rb) (k v : N) : rb :=
  match rb_subtree_insert cmp t k v with
  | RbNode _ l k' v' r => RbNode false l k' v' r
  | RbLeaf => RbLeaf
  end.
Fixpoint rb_lookup (cmp : N -> N -> Z) (t : rb) (k : N) : option N :=
  match t with
  | RbLeaf => None
  | RbNode _ l nk nv r =>
    let c := cmp k nk in
    if (c =? 0)%Z then Some nv else if (c <? 0)%Z then rb_lookup cmp l k else rb_lookup cmp r k
  end.

(* ------------------------------------------------------------------ *)
(* the directory reader in DOT_ENTRIES mode                             *)
(* ------------------------------------------------------------------ *)

Record dstate := mkDs {                  (* sqfs_dir_reader_state_t *)
  ds_cursor : rdstate; ds_parent_ref : N; ds_dir_ref : N; ds_ent_ref : N; ds_state : N
}.

Definition inum_of (i : inode) : N := nth 5 (i_base i) 0 mod u32m.           (* base.inode_number *)
Definition is_dir_inode (i : inode) : bool :=
  (i_type i =? c_SQFS_INODE_DIR) || (i_type i =? c_SQFS_INODE_EXT_DIR).
(* data.dir_ext.parent_inode / data.dir.parent_inode as open_dir selects them *)
Definition parent_of (i : inode) : N :=
  (if i_type i =? c_SQFS_INODE_EXT_DIR then nth 3 (i_fields i) 0 else nth 4 (i_fields i) 0) mod u32m.

(* the synthesized entries of mk_dummy_entry: 8 header bytes (offset, inode_diff, type, size)
   and the size+1 name bytes, in the shape of ApiModel.REnt *)
Definition dummy_hdr (size : N) : list N :=
  le 2 c10d_dummy_offset ++ le 2 c10d_dummy_diff ++ le 2 c10d_dummy_type ++ le 2 size.
Definition name_dot : list N := [c10d_dot_char].
Definition name_dotdot : list N := [c10d_dot_char; c10d_dot_char].

Section Dot.
Variable uncompress : list N -> N -> uresult.
Variable file : N -> N -> rd_res.
Variable fsize : N.

Variable T : Type.                                         (* rbtree_t *)
Variable t_empty : T.                                      (* after rbtree_init *)
Variable t_lookup : (N -> N -> Z) -> T -> N -> option N.   (* rbtree_lookup, value of the node *)
Variable t_insert : (N -> N -> Z) -> T -> N -> N -> T.     (* rbtree_insert *)

Definition dc_lookup (t : T) (k : N) : option N := t_lookup key_compare t k.
Definition dc_insert (t : T) (k v : N) : T := t_insert key_compare t k v.

(* the reader object: its two meta readers, the cache, and (ghost) the list of
   (inode number, reference) of every directory inode fetched so far, in order *)
Record dreader := mkDr { dr_rs : readers; dr_t : T; dr_log : list (N * N) }.

Definition run1 {R} (c : client R) (rs : readers) : verdict R * readers :=
  run_client uncompress file fsize true c rs nothing_positioned.

(* sqfs_dir_reader_create(super, cmp, file, SQFS_DIR_READER_DOT_ENTRIES) *)
Definition dir_limit (sb : super) : N :=
  let l0 := sb_id_start sb in
  let l1 := if sb_frag_start sb <? l0 then sb_frag_start sb else l0 in
  if sb_export_start sb <? l1 then sb_export_start sb else l1.
Definition dot_create (sb : super) : dreader :=
  mkDr (fun i => match i with
                 | O => mr_create (sb_inode_start sb) (u64 (sb_dir_start sb))
                 | _ => mr_create (sb_dir_start sb) (u64 (dir_limit sb))
                 end) t_empty [].

(* dcache_add *)
Definition dcache_add (t : T) (i : inode) (ref : N) : T :=
  if is_dir_inode i then
    match dc_lookup t (inum_of i) with
    | Some _ => t
    | None => dc_insert t (inum_of i) ref
    end
  else t.

(* sqfs_dir_reader_get_inode *)
Definition dot_get_inode (sb : super) (d : dreader) (ref : N) : verdict (out inode) * dreader :=
  let '(v, rs') := run1 (inode_client sb ref) (dr_rs d) in
  match v with
  | Done (Ok i) =>
    (Done (Ok i), mkDr rs' (dcache_add (dr_t d) i ref)
                       (if is_dir_inode i then dr_log d ++ [(inum_of i, ref)] else dr_log d))
  | other => (other, mkDr rs' (dr_t d) (dr_log d))
  end.

(* sqfs_dir_reader_resolve_inum (the parameter is a sqfs_u32) *)
Definition resolve_inum (t : T) (inum : N) : out N :=
  match dc_lookup t (inum mod u32m) with
  | Some r => Ok r
  | None => Err c_SQFS_ERROR_NO_ENTRY
  end.

(* sqfs_dir_reader_open_dir on an inode the caller holds *)
Definition dot_open_dir (sb : super) (t : T) (i : inode) (flags : N) : out dstate :=
  if negb (N.ldiff flags c10d_DIR_OPEN_ALL_FLAGS =? 0) then Err c_SQFS_ERROR_UNSUPPORTED
  else
    match readdir_init sb i with
    | Ok it =>
      if N.land flags c10d_DIR_OPEN_NO_DOT_ENTRIES =? 0 then
        match resolve_inum t (inum_of i) with
        | Ok dref =>
          if dref =? sb_root_ref sb then Ok (mkDs it dref dref 0 c10d_STATE_OPENED)
          else match resolve_inum t (parent_of i) with
               | Ok p => Ok (mkDs it p dref 0 c10d_STATE_OPENED)
               | _ => Err c_SQFS_ERROR_NO_ENTRY
               end
        | Err e => Err e
        | Crash => Crash
        | Fuel => Fuel
        end
      else Ok (mkDs it 0 0 0 c10d_STATE_ENTRIES)
    | Err e => Err e
    | Crash => Crash
    | Fuel => Fuel
    end.

Definition ds_set (st : dstate) (it : rdstate) (ent_ref state : N) : dstate :=
  mkDs it (ds_parent_ref st) (ds_dir_ref st) ent_ref state.

(* sqfs_dir_reader_read: one entry *)
Definition dot_read (d : dreader) (st : dstate) : verdict rdres * dstate * dreader :=
  if ds_state st =? c10d_STATE_OPENED then
    (Done (REnt (dummy_hdr c10d_dot_size) name_dot (ds_dir_ref st)),
     ds_set st (ds_cursor st) (ds_dir_ref st) c10d_STATE_DOT, d)
  else if ds_state st =? c10d_STATE_DOT then
    (Done (REnt (dummy_hdr c10d_dotdot_size) name_dotdot (ds_parent_ref st)),
     ds_set st (ds_cursor st) (ds_parent_ref st) c10d_STATE_ENTRIES, d)
  else if ds_state st =? c10d_STATE_ENTRIES then
    let '(v, rs') := run1 (readdir_step (ds_cursor st)) (dr_rs d) in
    let d' := mkDr rs' (dr_t d) (dr_log d) in
    match v with
    | Done (REnt h n ref, it') => (Done (REnt h n ref), ds_set st it' ref (ds_state st), d')
    | Done (other, it') => (Done other, ds_set st it' (ds_ent_ref st) (ds_state st), d')
    | Unpositioned => (Unpositioned, st, d')
    end
  else (Done (RFail (Err c_SQFS_ERROR_SEQUENCE)), st, d).

(* ---- sqfs_dir_reader_resolve_path ---- *)

(* strncmp(name, path, strlen(name)) == 0 && (path[len] == '/' || path[len] == '\0')
   for the two synthesized names (no NUL inside) *)
Definition match_name (name path : list N) : bool :=
  let n := length name in
  strncmp_eq name path n && (let c := nth n path 0 in (c =? 47) || (c =? 0)).

(* the inner for(;;) loop over a directory opened with flags 0: ".", "..", then the stored entries *)
Definition dot_find (d : dreader) (st : dstate) (p : list N) : verdict (out (list N * N)) * dreader :=
  if (ds_state st =? c10d_STATE_OPENED) && match_name name_dot p then
    (Done (Ok (skipn (length name_dot) p, ds_dir_ref st)), d)
  else if (ds_state st =? c10d_STATE_OPENED) && match_name name_dotdot p then
    (Done (Ok (skipn (length name_dotdot) p, ds_parent_ref st)), d)
  else
    let '(v, rs') := run1 (find_entry scan_fuel (ds_cursor st) p) (dr_rs d) in
    (v, mkDr rs' (dr_t d) (dr_log d)).

Definition lift_out {A B} (r : out A) : out B :=
  match r with Ok _ => Crash | Err e => Err e | Crash => Crash | Fuel => Fuel end.

Fixpoint dot_resolve_loop (sb : super) (fuel : nat) (d : dreader) (path : list N) (cur : N)
         (root : option inode) : verdict (out N) * dreader :=
  match fuel with
  | O => (Done Fuel, d)
  | S f =>
    match skip_slashes path with
    | [] => (Done (Ok cur), d)
    | p =>
      let '(vo, d1) :=
        match root with
        | Some r => (Done (dot_open_dir sb (dr_t d) r 0), d)          (* is_first && root != NULL *)
        | None =>
          let '(v, d1) := dot_get_inode sb d cur in
          (match v with
           | Done (Ok i) => Done (dot_open_dir sb (dr_t d1) i 0)
           | Done e => Done (lift_out e)
           | Unpositioned => Unpositioned
           end, d1)
        end in
      match vo with
      | Done (Ok st) =>
        let '(vf, d2) := dot_find d1 st p in
        match vf with
        | Done (Ok (rest, ref)) => dot_resolve_loop sb f d2 rest ref None
        | Done e => (Done (lift_out e), d2)
        | Unpositioned => (Unpositioned, d2)
        end
      | Done e => (Done (lift_out e), d1)
      | Unpositioned => (Unpositioned, d1)
      end
    end
  end.

Definition dot_resolve_path (sb : super) (d : dreader) (root : option inode) (path : list N)
  : verdict (out N) * dreader :=
  match skip_slashes path with
  | [] =>
    match root with
    | None => (Done (Ok (sb_root_ref sb)), d)
    | Some r => (Done (resolve_inum (dr_t d) (inum_of r)), d)
    end
  | _ => dot_resolve_loop sb (S (length path)) d path (sb_root_ref sb) root
  end.

(* ---- histories ---- *)

Inductive dop :=
| OGetInode (ref : N)                                   (* sqfs_dir_reader_get_inode *)
| OOpenDir (i : inode) (flags : N)                      (* sqfs_dir_reader_open_dir, any inode value *)
| ORead (st : dstate)                                   (* sqfs_dir_reader_read on a caller-owned state *)
| OResolveInum (inum : N)                               (* sqfs_dir_reader_resolve_inum *)
| OResolvePath (root : option inode) (path : list N).   (* sqfs_dir_reader_resolve_path *)

Inductive dans :=
| AInode (v : verdict (out inode))
| AOpen (r : out dstate)
| ARead (v : verdict rdres) (st : dstate)
| AInum (r : out N)
| APath (v : verdict (out N)).

Definition dstep (sb : super) (d : dreader) (op : dop) : dans * dreader :=
  match op with
  | OGetInode ref => let '(v, d') := dot_get_inode sb d ref in (AInode v, d')
  | OOpenDir i flags => (AOpen (dot_open_dir sb (dr_t d) i flags), d)
  | ORead st => let '(v, st', d') := dot_read d st in (ARead v st', d')
  | OResolveInum inum => (AInum (resolve_inum (dr_t d) inum), d)
  | OResolvePath root path => let '(v, d') := dot_resolve_path sb d root path in (APath v, d')
  end.

Fixpoint drun (sb : super) (d : dreader) (ops : list dop) : list dans * dreader :=
  match ops with
  | [] => ([], d)
  | op :: r =>
    let '(a, d') := dstep sb d op in
    let '(l, d'') := drun sb d' r in
    (a :: l, d'')
  end.

End Dot.

Arguments dr_rs {T} _.
Arguments dr_t {T} _.
Arguments dr_log {T} _.
Arguments mkDr {T} _ _ _.

(* first binding of a key in an encounter list: what the cache must answer *)
Fixpoint first_assoc (k : N) (l : list (N * N)) : option N :=
  match l with
  | [] => None
  | (k', v) :: r => if k =? k' then Some v else first_assoc k r
  end.
