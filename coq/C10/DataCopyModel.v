(* C10 — sqfs_copy() of a data reader (lib/sqfs/src/data_reader.c, data_reader_copy), on the state of DataModel.v.

   The C code: memcpy of the object and its scratch[] tail; frag_tbl = sqfs_copy(frag_tbl) (frag_table_copy:
   array_init_copy, a deep copy of the entries); file and compressor shared by counted reference; and for each of
   the two cached blocks that is present
       copy->data_block = malloc(data->data_blk_size);  memcpy(copy->data_block, data->data_block, data->data_blk_size);
       copy->frag_block = malloc(copy->frag_blk_size);  memcpy(copy->frag_block, data->frag_block, data->frag_blk_size);
   [data_blk_size] / [frag_blk_size] is the number of VALID bytes get_block() reported (the codec's return value or the
   on-disk size of a raw block), not the size of the allocation (get_block allocates block_size bytes, zero-filled).
   That is the code AS FOUND ([fx = false]).  With props/C19/fixes/F31-data-reader-copy-block-buffer-size.patch
   ([fx = true], in /repo since session 4) both buffers of the copy are alloc_array(1, block_size): block_size zero
   bytes, then the first [valid] bytes are copied: the copy's buffer is (valid bytes ++ zeros), block_size long.  It
   equals the source's buffer exactly when the source holds zeros beyond its valid count, which is what get_block
   leaves unless the codec wrote beyond its return value ([rest] of UOk).
   As found this is NOT a full deep copy: the copy's buffers are the first [valid] bytes of the source's buffers, in
   allocations of exactly [valid] bytes; keys (current_block, current_block_word, current_frag_index) and the valid
   counts are copied unchanged.  [dr_copy] models exactly that: a buffer is a list, its length is the allocation. *)
From Coq Require Import List NArith ZArith Bool.
From SqfsV Require Import Gen.Constants Base.Bytes C10.GenC10 C10.MetaModel C10.DataModel.
Import ListNotations.
Local Open Scope N_scope.

Definition buf_copy (fx : bool) (bs : N) (b : blockbuf) : blockbuf :=
  let valid := firstn (N.to_nat (snd b)) (fst b) in
  if fx then (valid ++ zeros (bs - snd b), snd b)      (* alloc_array(1, block_size); memcpy(.., valid count) *)
  else (valid, snd b).                                  (* malloc(valid count); memcpy(.., valid count) *)

Definition dr_copy (fx : bool) (bs : N) (d : dr) : dr :=
  mkDr (d_tbl d)
       (match d_blk d with Some (l, w, b) => Some (l, w, buf_copy fx bs b) | None => None end)
       (match d_frag d with Some (i, b) => Some (i, buf_copy fx bs b) | None => None end).

(* every cached buffer is completely valid (valid count = allocation) *)
Definition buf_full (b : blockbuf) : Prop := snd b = len (fst b).
Definition dr_full (d : dr) : Prop :=
  match d_blk d with Some (_, _, b) => buf_full b | None => True end /\
  match d_frag d with Some (_, b) => buf_full b | None => True end.

(* a buffer as get_block leaves it when the codec does not write beyond its return value: block_size bytes, zeros
   beyond the valid count *)
Definition buf_clean (bs : N) (b : blockbuf) : Prop :=
  fst b = firstn (N.to_nat (snd b)) (fst b) ++ zeros (bs - snd b).
Definition dr_clean (bs : N) (d : dr) : Prop :=
  match d_blk d with Some (_, _, b) => buf_clean bs b | None => True end /\
  match d_frag d with Some (_, b) => buf_clean bs b | None => True end.
(* the valid counts fit the buffers and the block size (get_block: *out_sz <= max_size = block_size) *)
Definition buf_fits (bs : N) (b : blockbuf) : Prop := snd b <= len (fst b) /\ snd b <= bs.
Definition dr_fits (bs : N) (d : dr) : Prop :=
  match d_blk d with Some (_, _, b) => buf_fits bs b | None => True end /\
  match d_frag d with Some (_, b) => buf_fits bs b | None => True end.

(* what sqfs_data_reader_read does with the cached data block: memcpy(buffer, data_block + offset, diff);
   inside the allocation iff offset + diff <= length of the buffer *)
Definition blk_read_in_bounds (d : dr) (offset diff : N) : bool := offset + diff <=? len (blk_buf d).
