(* C10 — the fine-grained xattr reader API (XFineModel.v): the descriptor cursor and the
   key/value cursor are independent; lookups commute with every key/value call; the answers to
   the key/value calls depend only on the last successful seek_kv and the cursor calls since. *)
From Coq Require Import List NArith ZArith Bool Lia PeanoNat.
From SqfsV Require Import Gen.Constants Base.Bytes C10.GenC10 C10.MetaModel C10.MetaProofs
     C10.ClientModel C10.ClientProofs C10.DataModel C10.ApiModel C10.ApiProofs C10.DotProofs C10.XFineModel.
Import ListNotations.
Local Open Scope N_scope.

(* ------------------------------------------------------------------ *)
(* locality: a client that only ever names reader i                     *)
(* ------------------------------------------------------------------ *)

Inductive only (i : nat) {R : Type} : client R -> Prop :=
| only_ret r : only i (CRet r)
| only_seek b o k : (forall r, only i (k r)) -> only i (CSeek i b o k)
| only_read n k : (forall r, only i (k r)) -> only i (CRead i n k)
| only_pos k : (forall p, only i (k p)) -> only i (CPos i k).

Lemma upd_other {A} (f : nat -> A) i j v : j <> i -> upd f i v j = f j.
Proof. intro H. unfold upd. destruct (Nat.eqb_spec j i); [contradiction|reflexivity]. Qed.

Lemma only_c_read {R} i n (k : list N -> client (out R)) :
  (forall b, only i (k b)) -> only i (c_read i n k).
Proof. intro K. unfold c_read. constructor. intros [b|e| |]; first [apply K|constructor]. Qed.

Lemma only_c_seek {R} i b o (k : client (out R)) : only i k -> only i (c_seek i b o k).
Proof. intro K. unfold c_seek. constructor. intros [u|e| |]; first [exact K|constructor]. Qed.

Lemma only_no_create {R} i (c : client R) : only i c -> no_create c.
Proof. induction 1; cbn [no_create]; auto. Qed.

Lemma only_desc xr idx : only R_XID (xattr_desc_client xr idx).
Proof.
  unfold xattr_desc_client.
  destruct (idx =? no_frag); [constructor|].
  destruct (negb (xr_has_table xr)); [constructor|].
  destruct (xr_num_ids xr <=? idx); [constructor|].
  apply only_c_seek, only_c_read. intro d. constructor.
Qed.

Lemma only_key {R} (k : N -> list N -> client (out R)) :
  (forall t key, only R_XKV (k t key)) -> only R_XKV (xattr_key_client k).
Proof.
  intro K. unfold xattr_key_client. apply only_c_read. intro h.
  destruct (xattr_prefix (fld h 0 2)); [|constructor].
  apply only_c_read. intro key. apply K.
Qed.

Lemma only_value {R} xr t (k : list N -> client (out R)) :
  (forall v, only R_XKV (k v)) -> only R_XKV (xattr_value_client xr t k).
Proof.
  intro K. unfold xattr_value_client. apply only_c_read. intro v.
  destruct (is_ool t).
  - apply only_c_read. intro rb.
    match goal with |- only _ (if ?c then _ else _) => destruct c end; [constructor|].
    constructor. intro saved. apply only_c_seek, only_c_read. intro v2. apply only_c_read. intro value.
    apply only_c_seek, K.
  - apply only_c_read. intro value. apply K.
Qed.

Lemma only_xseek xr x count : only R_XKV (xseek_client xr x count).
Proof. unfold xseek_client. destruct (negb (xr_has_table xr)); [constructor|]. apply only_c_seek. constructor. Qed.

Lemma only_xkey xr : only R_XKV (xkey_client xr).
Proof. unfold xkey_client. destruct (negb (xr_has_table xr)); [constructor|]. apply only_key. intros; constructor. Qed.

Lemma only_xval xr t : only R_XKV (xval_client xr t).
Proof. unfold xval_client. destruct (negb (xr_has_table xr)); [constructor|]. apply only_value. intros; constructor. Qed.

Lemma only_xpair xr : only R_XKV (xpair_client xr).
Proof.
  unfold xpair_client. destruct (negb (xr_has_table xr)); [constructor|].
  apply only_key. intros t key. apply only_value. intros; constructor.
Qed.

Section XF.
Variable uncompress : list N -> N -> uresult.
Variable file : N -> N -> rd_res.
Variable fsize : N.

Notation runC := (run_client uncompress file fsize true).
Notation coh := (coherent uncompress file).
Notation fam := (fam_ok uncompress file).
Notation rsinv := (rs_inv uncompress file).
Notation runAll := (runA uncompress file fsize).

(* other readers are left alone, and nothing depends on them *)
Lemma only_frame {R} i (c : client R) : only i c ->
  forall rs det j, j <> i -> snd (runC c rs det) j = rs j.
Proof.
  induction 1 as [r|b o k K IH|n k K IH|k K IH]; intros rs det j J; cbn [run_client].
  - reflexivity.
  - destruct (seek uncompress file true (rs i) b o) as [r m']. rewrite IH by exact J. apply upd_other, J.
  - destruct (det i); [|reflexivity].
    destruct (read uncompress file fsize true (rs i) n) as [r m']. rewrite IH by exact J. apply upd_other, J.
  - destruct (det i); [|reflexivity]. apply IH, J.
Qed.

Lemma only_indep {R} i (c : client R) : only i c ->
  forall rs rs' det det', rs i = rs' i -> det i = det' i ->
  fst (runC c rs det) = fst (runC c rs' det') /\ snd (runC c rs det) i = snd (runC c rs' det') i.
Proof.
  induction 1 as [r|b o k K IH|n k K IH|k K IH]; intros rs rs' det det' E D; cbn [run_client].
  - split; [reflexivity|exact E].
  - rewrite <- E. destruct (seek uncompress file true (rs i) b o) as [r m'].
    apply IH; [rewrite !upd_same; reflexivity|].
    destruct (is_ok r); [rewrite !upd_same; reflexivity|exact D].
  - rewrite <- D, <- E. destruct (det i) eqn:DI; [|split; [reflexivity|exact E]].
    destruct (read uncompress file fsize true (rs i) n) as [r m'].
    apply IH; [rewrite !upd_same; reflexivity|congruence].
  - rewrite <- D, <- E. destruct (det i) eqn:DI; [|split; [reflexivity|exact E]].
    apply IH; [exact E|congruence].
Qed.

(* ------------------------------------------------------------------ *)
(* running with every reader marked as positioned                        *)
(* ------------------------------------------------------------------ *)

Definition allT (d : nat -> bool) : Prop := forall i, d i = true.

Lemma allT_upd d i : allT d -> allT (upd d i true).
Proof. intros H j. unfold upd. destruct (Nat.eqb j i); [reflexivity|apply H]. Qed.

Lemma allT_all : allT all_det.
Proof. intro i. reflexivity. Qed.

Lemma allT_done {R} (c : client R) : forall rs d, allT d -> fst (runC c rs d) <> Unpositioned.
Proof.
  induction c as [r|i s l k IH|i b o k IH|i n k IH|i k IH]; intros rs d A; cbn [run_client].
  - cbn. discriminate.
  - apply IH, allT_upd, A.
  - destruct (seek uncompress file true (rs i) b o) as [r m']. apply IH.
    destruct (is_ok r); [apply allT_upd, A|exact A].
  - rewrite (A i). destruct (read uncompress file fsize true (rs i) n) as [r m']. apply IH, A.
  - rewrite (A i). apply IH, A.
Qed.

Lemma fam_le rs1 rs2 d d' : le_det d d' -> fam rs1 rs2 d' -> fam rs1 rs2 d.
Proof.
  intros L F i. destruct (F i) as (W & C1 & C2 & S & Li & E).
  do 5 (split; [assumption|]). intro D. apply E, L, D.
Qed.

(* two reader families that are interchangeable on the readers in [det] (and have arbitrary,
   unrelated pasts elsewhere): a client that respects [det] gets the same answer from both and
   leaves them interchangeable on [det] *)
Lemma rel_run : forall R (c : client R) rs1 rs2 det dA,
  allT dA -> fam rs1 rs2 det -> safe det c ->
  fst (runC c rs1 dA) = fst (runC c rs2 dA) /\ fam (snd (runC c rs1 dA)) (snd (runC c rs2 dA)) det.
Proof.
  induction c as [r|i s l k IH|i b o k IH|i n k IH|i k IH]; intros rs1 rs2 det dA A F S.
  - split; [reflexivity|exact F].
  - cbn [run_client safe] in *.
    destruct (IH (upd rs1 i (mr_create s (u64 l))) (upd rs2 i (mr_create s (u64 l))) (upd det i true) (upd dA i true))
      as [E F']; [apply allT_upd, A| |exact S|].
    + intro j. unfold upd. destruct (Nat.eqb j i).
      * repeat split; try reflexivity; try apply u64_wf; try apply create_coherent.
      * apply F.
    + split; [exact E|]. eapply fam_le; [|exact F']. apply le_det_upd_r.
  - cbn [run_client safe] in *.
    destruct (F i) as (W & C1 & C2 & St & L & E).
    pose proof (wf_transfer _ _ W L) as W2.
    destruct (coherent_seek uncompress file (rs1 i) b o W C1) as (C1' & W1' & S1' & L1').
    destruct (coherent_seek uncompress file (rs2 i) b o W2 C2) as (C2' & W2' & S2' & L2').
    destruct (seek_any uncompress file (rs1 i) (rs2 i) b o W C1 C2 St L) as [Rq Eq].
    assert (Eq2 : det i = true ->
                  equiv (snd (seek uncompress file true (rs1 i) b o)) (snd (seek uncompress file true (rs2 i) b o))).
    { intro D. apply (seek_equiv uncompress file (rs1 i) (rs2 i) b o (E D)). }
    destruct (seek uncompress file true (rs1 i) b o) as [r1 m1].
    destruct (seek uncompress file true (rs2 i) b o) as [r2 m2].
    cbn [fst snd] in *. subst r2.
    destruct (IH r1 (upd rs1 i m1) (upd rs2 i m2) (if is_ok r1 then upd det i true else det)
                 (if is_ok r1 then upd dA i true else dA)) as [E' F'].
    + destruct (is_ok r1); [apply allT_upd, A|exact A].
    + intro j. unfold upd. destruct (Nat.eqb j i) eqn:J.
      * split; [assumption|]. split; [assumption|]. split; [assumption|].
        split; [congruence|]. split; [congruence|].
        destruct (is_ok r1) eqn:K.
        -- intros _. apply Eq. apply ok_unit. exact K.
        -- intro D. apply Eq2. apply Nat.eqb_eq in J. subst j. exact D.
      * destruct (F j) as (Wj & C1j & C2j & Sj & Lj & Ej).
        split; [assumption|]. split; [assumption|]. split; [assumption|].
        split; [assumption|]. split; [assumption|].
        destruct (is_ok r1); [|exact Ej].
        unfold upd. rewrite J. exact Ej.
    + apply S.
    + split; [exact E'|]. eapply fam_le; [|exact F'].
      destruct (is_ok r1); [apply le_det_upd_r|apply le_det_refl].
  - cbn [run_client safe] in *. destruct S as [D S].
    destruct (F i) as (W & C1 & C2 & St & L & E).
    rewrite (A i). specialize (E D).
    pose proof (wf_transfer _ _ W L) as W2.
    unfold read.
    destruct (read_loop_equiv uncompress file (read_fuel fsize n) (rs1 i) (rs2 i) n [] E
                              (coherent_off uncompress file _ C1)) as [Rq Eq].
    pose proof (coherent_read_loop uncompress file (read_fuel fsize n) (rs1 i) n [] W C1) as H1.
    pose proof (coherent_read_loop uncompress file (read_fuel fsize n) (rs2 i) n [] W2 C2) as H2.
    cbn zeta in H1, H2.
    destruct (read_loop uncompress file true (read_fuel fsize n) (rs1 i) n []) as [r1 m1].
    destruct (read_loop uncompress file true (read_fuel fsize n) (rs2 i) n []) as [r2 m2].
    cbn [fst snd] in *. subst r2.
    destruct H1 as (C1' & W1' & S1' & L1'). destruct H2 as (C2' & W2' & S2' & L2').
    apply IH; [exact A| |apply S]. intro j. unfold upd.
    destruct (Nat.eqb j i) eqn:J.
    + split; [assumption|]. split; [assumption|]. split; [assumption|].
      split; [congruence|]. split; [congruence|]. intros _. exact Eq.
    + apply F.
  - cbn [run_client safe] in *. destruct S as [D S].
    destruct (F i) as (W & C1 & C2 & St & L & E).
    rewrite (A i). rewrite (getpos_equiv _ _ (E D)). apply IH; [exact A|exact F|apply S].
Qed.

(* ------------------------------------------------------------------ *)
(* the two cursors are independent                                       *)
(* ------------------------------------------------------------------ *)

Variable sb : super.
Notation step := (xf_step uncompress file fsize sb).
Notation xrun := (xf_run uncompress file fsize sb).
Notation call := (xcall uncompress file fsize).

Lemma xcall_fst {R} s (c : client (out R)) : fst (call s c) = unv (fst (runAll c (xf_rs s))).
Proof. unfold xcall. destruct (runAll c (xf_rs s)) as [v rs']. reflexivity. Qed.

Lemma xcall_rs {R} s (c : client (out R)) : xf_rs (snd (call s c)) = snd (runAll c (xf_rs s)).
Proof. unfold xcall. destruct (runAll c (xf_rs s)) as [v rs']. reflexivity. Qed.

Lemma xcall_xr {R} s (c : client (out R)) : xf_xr (snd (call s c)) = xf_xr s.
Proof. unfold xcall. destruct (runAll c (xf_rs s)) as [v rs']. reflexivity. Qed.


Lemma call_frame {R} s i (c : client (out R)) : only i c ->
  xf_xr (snd (call s c)) = xf_xr s /\ forall j, j <> i -> xf_rs (snd (call s c)) j = xf_rs s j.
Proof.
  intro O. split; [apply xcall_xr|]. intros j J. rewrite xcall_rs. unfold runA. apply (only_frame i c O), J.
Qed.

Lemma call_indep {R} s s' i (c : client (out R)) : only i c -> xf_rs s' i = xf_rs s i ->
  fst (call s' c) = fst (call s c) /\ xf_rs (snd (call s' c)) i = xf_rs (snd (call s c)) i.
Proof.
  intros O E. rewrite !xcall_fst, !xcall_rs. unfold runA.
  destruct (only_indep i c O (xf_rs s') (xf_rs s) all_det all_det E eq_refl) as [A B].
  rewrite A. split; [reflexivity|exact B].
Qed.

(* two calls that work on different readers commute: same answers, same final reader *)
Lemma calls_commute {A B} s i j (ca : xreader -> client (out A)) (cb : xreader -> client (out B)) :
  i <> j -> (forall xr, only i (ca xr)) -> (forall xr, only j (cb xr)) ->
  let ta := snd (call s (ca (xf_xr s))) in
  let tb := snd (call s (cb (xf_xr s))) in
  fst (call tb (ca (xf_xr tb))) = fst (call s (ca (xf_xr s))) /\
  fst (call ta (cb (xf_xr ta))) = fst (call s (cb (xf_xr s))) /\
  xf_xr (snd (call ta (cb (xf_xr ta)))) = xf_xr (snd (call tb (ca (xf_xr tb)))) /\
  forall k, xf_rs (snd (call ta (cb (xf_xr ta)))) k = xf_rs (snd (call tb (ca (xf_xr tb)))) k.
Proof.
  intros NE OA OB ta tb.
  destruct (call_frame s i (ca (xf_xr s)) (OA _)) as [XA FA].
  destruct (call_frame s j (cb (xf_xr s)) (OB _)) as [XB FB].
  fold ta in XA, FA. fold tb in XB, FB.
  rewrite XA, XB.
  assert (Ei : xf_rs tb i = xf_rs s i) by (apply FB; exact NE).
  assert (Ej : xf_rs ta j = xf_rs s j) by (apply FA; intro H; apply NE; symmetry; exact H).
  destruct (call_indep s tb i (ca (xf_xr s)) (OA _) Ei) as [A1 A2].
  destruct (call_indep s ta j (cb (xf_xr s)) (OB _) Ej) as [B1 B2].
  destruct (call_frame ta j (cb (xf_xr s)) (OB _)) as [XA' FA'].
  destruct (call_frame tb i (ca (xf_xr s)) (OA _)) as [XB' FB'].
  split; [exact A1|]. split; [exact B1|]. split; [congruence|].
  intro k.
  destruct (Nat.eq_dec k i) as [Ki|Ki]; [subst k|destruct (Nat.eq_dec k j) as [Kj|Kj]; [subst k|]].
  - rewrite FA' by exact NE. rewrite A2. reflexivity.
  - rewrite B2. rewrite FB' by (intro H; apply NE; symmetry; exact H). reflexivity.
  - rewrite FA', FB', FA, FB by assumption. reflexivity.
Qed.

Lemma xid_ne_xkv : R_XID <> R_XKV.
Proof. discriminate. Qed.

(* sqfs_xattr_reader_get_desc leaves the key/value cursor (and everything but idrd) alone *)
Lemma get_desc_frame s idx :
  xf_xr (snd (step s (XGet idx))) = xf_xr s /\
  forall j, j <> R_XID -> xf_rs (snd (step s (XGet idx))) j = xf_rs s j.
Proof.
  cbn [xf_step].
  pose proof (call_frame s R_XID (xattr_desc_client (xf_xr s) idx) (only_desc _ _)) as H.
  destruct (call s (xattr_desc_client (xf_xr s) idx)) as [r s']. exact H.
Qed.

(* ... and its answer does not depend on the key/value cursor *)
Lemma get_desc_indep s s' idx :
  xf_xr s' = xf_xr s -> xf_rs s' R_XID = xf_rs s R_XID ->
  fst (step s' (XGet idx)) = fst (step s (XGet idx)).
Proof.
  intros X E. cbn [xf_step]. rewrite X.
  destruct (call_indep s s' R_XID (xattr_desc_client (xf_xr s) idx) (only_desc _ _) E) as [A _].
  destruct (call s (xattr_desc_client (xf_xr s) idx)) as [r1 s1].
  destruct (call s' (xattr_desc_client (xf_xr s) idx)) as [r2 s2]. cbn [fst] in *. congruence.
Qed.

(* the key/value calls leave the descriptor cursor alone and do not depend on it *)
Lemma kv_op_frame s o : is_kv_op o = true ->
  xf_xr (snd (step s o)) = xf_xr s /\ forall j, j <> R_XKV -> xf_rs (snd (step s o)) j = xf_rs s j.
Proof.
  destruct o as [idx|x count| |t| |idx| |]; cbn [is_kv_op]; intro H; try discriminate; cbn [xf_step].
  - pose proof (call_frame s R_XKV _ (only_xseek (xf_xr s) x count)) as F.
    destruct (call s (xseek_client (xf_xr s) x count)). exact F.
  - pose proof (call_frame s R_XKV _ (only_xkey (xf_xr s))) as F.
    destruct (call s (xkey_client (xf_xr s))). exact F.
  - pose proof (call_frame s R_XKV _ (only_xval (xf_xr s) t)) as F.
    destruct (call s (xval_client (xf_xr s) t)). exact F.
  - pose proof (call_frame s R_XKV _ (only_xpair (xf_xr s))) as F.
    destruct (call s (xpair_client (xf_xr s))). exact F.
Qed.

Lemma kv_op_indep s s' o : is_kv_op o = true ->
  xf_xr s' = xf_xr s -> xf_rs s' R_XKV = xf_rs s R_XKV ->
  fst (step s' o) = fst (step s o).
Proof.
  destruct o as [idx|x count| |t| |idx| |]; cbn [is_kv_op]; intros H X E; try discriminate; cbn [xf_step]; rewrite X.
  - destruct (call_indep s s' R_XKV _ (only_xseek (xf_xr s) x count) E) as [A _].
    destruct (call s (xseek_client (xf_xr s) x count)), (call s' (xseek_client (xf_xr s) x count)). cbn [fst] in *. congruence.
  - destruct (call_indep s s' R_XKV _ (only_xkey (xf_xr s)) E) as [A _].
    destruct (call s (xkey_client (xf_xr s))), (call s' (xkey_client (xf_xr s))). cbn [fst] in *. congruence.
  - destruct (call_indep s s' R_XKV _ (only_xval (xf_xr s) t) E) as [A _].
    destruct (call s (xval_client (xf_xr s) t)), (call s' (xval_client (xf_xr s) t)). cbn [fst] in *. congruence.
  - destruct (call_indep s s' R_XKV _ (only_xpair (xf_xr s)) E) as [A _].
    destruct (call s (xpair_client (xf_xr s))), (call s' (xpair_client (xf_xr s))). cbn [fst] in *. congruence.
Qed.

(* get_desc commutes with every call on the key/value cursor *)
Lemma get_desc_commutes_l s idx o : is_kv_op o = true ->
  let s1 := snd (step s (XGet idx)) in
  let s2 := snd (step s o) in
  fst (step s2 (XGet idx)) = fst (step s (XGet idx)) /\
  fst (step s1 o) = fst (step s o) /\
  xf_xr (snd (step s1 o)) = xf_xr (snd (step s2 (XGet idx))) /\
  forall k, xf_rs (snd (step s1 o)) k = xf_rs (snd (step s2 (XGet idx))) k.
Proof.
  intros K s1 s2.
  destruct (get_desc_frame s idx) as [X1 F1]. fold s1 in X1, F1.
  destruct (kv_op_frame s o K) as [X2 F2]. fold s2 in X2, F2.
  destruct (get_desc_frame s2 idx) as [X21 F21].
  destruct (kv_op_frame s1 o K) as [X12 F12].
  assert (A : fst (step s2 (XGet idx)) = fst (step s (XGet idx))).
  { apply get_desc_indep; [exact X2|apply F2, xid_ne_xkv]. }
  assert (B : fst (step s1 o) = fst (step s o)).
  { apply kv_op_indep; [exact K|exact X1|]. apply F1. intro H; apply xid_ne_xkv; symmetry; exact H. }
  split; [exact A|]. split; [exact B|]. split; [congruence|].
  intro k.
  destruct (Nat.eq_dec k R_XID) as [Ki|Ki]; [subst k|destruct (Nat.eq_dec k R_XKV) as [Kj|Kj]; [subst k|]].
  - rewrite F12 by exact xid_ne_xkv.
    (* the descriptor reader after get_desc: same from s and from s2 *)
    unfold s1. cbn [xf_step]. rewrite X2.
    assert (E : xf_rs s2 R_XID = xf_rs s R_XID) by (apply F2, xid_ne_xkv).
    destruct (call_indep s s2 R_XID (xattr_desc_client (xf_xr s) idx) (only_desc _ _) E) as [_ Q].
    destruct (call s (xattr_desc_client (xf_xr s) idx)), (call s2 (xattr_desc_client (xf_xr s) idx)).
    cbn [snd] in *. symmetry. exact Q.
  - rewrite F21 by (intro H; apply xid_ne_xkv; symmetry; exact H).
    assert (E : xf_rs s1 R_XKV = xf_rs s R_XKV) by (apply F1; intro H; apply xid_ne_xkv; symmetry; exact H).
    clear -E X1 K. unfold s2.
    destruct o as [i0|x count| |t| |i0| |]; cbn [is_kv_op] in K; try discriminate; cbn [xf_step]; rewrite X1.
    + destruct (call_indep s s1 R_XKV _ (only_xseek (xf_xr s) x count) E) as [_ Q].
      destruct (call s (xseek_client (xf_xr s) x count)), (call s1 (xseek_client (xf_xr s) x count)). exact Q.
    + destruct (call_indep s s1 R_XKV _ (only_xkey (xf_xr s)) E) as [_ Q].
      destruct (call s (xkey_client (xf_xr s))), (call s1 (xkey_client (xf_xr s))). exact Q.
    + destruct (call_indep s s1 R_XKV _ (only_xval (xf_xr s) t) E) as [_ Q].
      destruct (call s (xval_client (xf_xr s) t)), (call s1 (xval_client (xf_xr s) t)). exact Q.
    + destruct (call_indep s s1 R_XKV _ (only_xpair (xf_xr s)) E) as [_ Q].
      destruct (call s (xpair_client (xf_xr s))), (call s1 (xpair_client (xf_xr s))). exact Q.
  - rewrite F12, F21, F1, F2 by assumption. reflexivity.
Qed.


(* ------------------------------------------------------------------ *)
(* two reader objects: interchangeable key/value cursors                *)
(* ------------------------------------------------------------------ *)

(* only the key/value cursor is known to be interchangeable *)
Definition dKV : nat -> bool := fun i => Nat.eqb i R_XKV.

Definition xrel (det : nat -> bool) (s1 s2 : xstate) : Prop :=
  xf_xr s1 = xf_xr s2 /\ fam (xf_rs s1) (xf_rs s2) det.

Lemma call_rel {R} det s1 s2 (c : client (out R)) :
  xrel det s1 s2 -> safe det c ->
  fst (call s1 c) = fst (call s2 c) /\ xrel det (snd (call s1 c)) (snd (call s2 c)).
Proof.
  intros [X F] S.
  destruct (rel_run _ c (xf_rs s1) (xf_rs s2) det all_det allT_all F S) as [E F'].
  rewrite !xcall_fst. unfold xrel. rewrite !xcall_xr, !xcall_rs. unfold runA.
  rewrite E. split; [reflexivity|]. split; [exact X|exact F'].
Qed.

Lemma safe_xseek xr x count d : safe d (xseek_client xr x count).
Proof.
  unfold xseek_client. destruct (negb (xr_has_table xr)); [exact I|]. apply safe_c_seek. exact I.
Qed.

Lemma safe_xkey xr d : d R_XKV = true -> safe d (xkey_client xr).
Proof.
  intro D. unfold xkey_client. destruct (negb (xr_has_table xr)); [exact I|].
  apply safe_xattr_key_client; [exact D|]. intros; exact I.
Qed.

Lemma safe_xval xr t d : d R_XKV = true -> safe d (xval_client xr t).
Proof.
  intro D. unfold xval_client. destruct (negb (xr_has_table xr)); [exact I|].
  apply safe_xattr_value_client; [exact D|]. intros; exact I.
Qed.

Lemma safe_xpair xr d : d R_XKV = true -> safe d (xpair_client xr).
Proof.
  intro D. unfold xpair_client. destruct (negb (xr_has_table xr)); [exact I|].
  apply safe_xattr_key_client; [exact D|]. intros t key.
  apply safe_xattr_value_client; [exact D|]. intros; exact I.
Qed.

Lemma new_reader_wf : wf_limit (xf_new_reader sb).
Proof. unfold xf_new_reader, wf_limit, mr_create. cbn. apply u64_wf. Qed.

Lemma new_reader_coh : coh (xf_new_reader sb).
Proof. apply create_coherent. Qed.

Lemma fam_upd rs1 rs2 det i m :
  fam rs1 rs2 det -> wf_limit m -> coh m -> fam (upd rs1 i m) (upd rs2 i m) det.
Proof.
  intros F W C j. unfold upd. destruct (Nat.eqb j i); [|apply F].
  repeat split; try assumption; try reflexivity.
Qed.

Lemma load_rel det s1 s2 :
  xrel det s1 s2 ->
  fst (xf_load file sb s1) = fst (xf_load file sb s2) /\
  xrel det (snd (xf_load file sb s1)) (snd (xf_load file sb s2)).
Proof.
  intros [X F]. unfold xf_load.
  destruct (flag_set (sb_flags sb) c_SQFS_FLAG_NO_XATTRS); [split; [reflexivity|split; assumption]|].
  destruct (sb_xattr_start sb =? c10_meta_init_tag); [split; [reflexivity|split; assumption]|].
  destruct (sb_bytes_used sb <=? sb_xattr_start sb); [split; [reflexivity|split; assumption]|].
  destruct (xattr_load file sb) as [xr|e| |]; cbn [fst snd]; (split; [reflexivity|]);
    unfold xrel; cbn [xf_xr xf_rs]; (split; [reflexivity|]); try exact F.
  apply fam_upd; [apply fam_upd; [exact F|apply new_reader_wf|apply new_reader_coh]|apply new_reader_wf|apply new_reader_coh].
Qed.

(* every call that is not a pure lookup: same answer from both, cursors stay interchangeable *)
Lemma step_rel s1 s2 o :
  xrel dKV s1 s2 -> is_lookup o = false ->
  fst (step s1 o) = fst (step s2 o) /\ xrel dKV (snd (step s1 o)) (snd (step s2 o)).
Proof.
  intros Rl L. pose proof Rl as [X _].
  destruct o as [idx|x count| |t| |idx| |]; cbn [is_lookup] in L; try discriminate; cbn [xf_step]; rewrite <- ?X.
  - destruct (call_rel dKV s1 s2 _ Rl (safe_xseek (xf_xr s1) x count dKV)) as [E Rl'].
    destruct (call s1 (xseek_client (xf_xr s1) x count)), (call s2 (xseek_client (xf_xr s1) x count)).
    cbn [fst snd] in *. subst. split; [reflexivity|exact Rl'].
  - destruct (call_rel dKV s1 s2 _ Rl (safe_xkey (xf_xr s1) dKV eq_refl)) as [E Rl'].
    destruct (call s1 (xkey_client (xf_xr s1))), (call s2 (xkey_client (xf_xr s1))).
    cbn [fst snd] in *. subst. split; [reflexivity|exact Rl'].
  - destruct (call_rel dKV s1 s2 _ Rl (safe_xval (xf_xr s1) t dKV eq_refl)) as [E Rl'].
    destruct (call s1 (xval_client (xf_xr s1) t)), (call s2 (xval_client (xf_xr s1) t)).
    cbn [fst snd] in *. subst. split; [reflexivity|exact Rl'].
  - destruct (call_rel dKV s1 s2 _ Rl (safe_xpair (xf_xr s1) dKV eq_refl)) as [E Rl'].
    destruct (call s1 (xpair_client (xf_xr s1))), (call s2 (xpair_client (xf_xr s1))).
    cbn [fst snd] in *. subst. split; [reflexivity|exact Rl'].
  - destruct (call_rel dKV s1 s2 _ Rl (safe_xattr_all_client (xf_xr s1) idx dKV)) as [E Rl'].
    destruct (call s1 (xattr_all_client (xf_xr s1) idx)), (call s2 (xattr_all_client (xf_xr s1) idx)).
    cbn [fst snd] in *. subst. split; [reflexivity|exact Rl'].
  - destruct (load_rel dKV s1 s2 Rl) as [E Rl'].
    destruct (xf_load file sb s1), (xf_load file sb s2). cbn [fst snd] in *. subst. split; [reflexivity|exact Rl'].
Qed.

Lemma fam_self_inv rs1 rs2 det : fam rs1 rs2 det -> rsinv rs1 rs1.
Proof.
  intros F i. destruct (F i) as (W & C1 & _). repeat split; assumption.
Qed.

(* a lookup made on ONE of the two readers only *)
Lemma lookup_rel s1 s2 o :
  xrel dKV s1 s2 -> is_lookup o = true -> xrel dKV (snd (step s1 o)) s2.
Proof.
  intros [X F] L.
  destruct o as [idx|x count| |t| |idx| |]; cbn [is_lookup] in L; try discriminate; [|split; assumption].
  destruct (get_desc_frame s1 idx) as [X' Fr].
  assert (V : rsinv (xf_rs s1) (xf_rs (snd (step s1 (XGet idx))))).
  { cbn [xf_step]. pose proof (xcall_rs s1 (xattr_desc_client (xf_xr s1) idx)) as Hr.
    destruct (call s1 (xattr_desc_client (xf_xr s1) idx)) as [r s']. cbn [snd] in *. rewrite Hr. unfold runA.
    apply no_create_run; [eapply only_no_create, only_desc|eapply fam_self_inv, F]. }
  split; [congruence|]. intro j.
  destruct (Nat.eq_dec j R_XID) as [J|J].
  - subst j. destruct (V R_XID) as (W & C & St & Li). destruct (F R_XID) as (_ & _ & C2 & S2 & L2 & _).
    split; [exact W|]. split; [exact C|]. split; [exact C2|]. split; [congruence|]. split; [congruence|].
    unfold dKV. cbn. discriminate.
  - rewrite Fr by exact J. apply F.
Qed.

Lemma xrun_cons o t s :
  xrun (o :: t) s = (fst (step s o) :: fst (xrun t (snd (step s o))), snd (xrun t (snd (step s o)))).
Proof.
  cbn [xf_run]. destruct (step s o) as [a s1]. cbn [fst snd]. destruct (xrun t s1) as [l s2]. reflexivity.
Qed.

(* interposed pure lookups are irrelevant: the answers to all other calls are those of the
   history without the lookups, on a reader whose key/value cursor is interchangeable *)
Lemma lookups_irrelevant_rel : forall h s1 s2,
  xrel dKV s1 s2 ->
  cursor_answers h (fst (xrun h s1)) = fst (xrun (cursor_ops h) s2) /\
  xrel dKV (snd (xrun h s1)) (snd (xrun (cursor_ops h) s2)).
Proof.
  induction h as [|o t IH]; intros s1 s2 Rl.
  - cbn. split; [reflexivity|exact Rl].
  - rewrite xrun_cons. cbn [cursor_answers cursor_ops filter fst snd].
    destruct (is_lookup o) eqn:L; cbn [negb].
    + apply IH. apply lookup_rel; assumption.
    + rewrite xrun_cons. cbn [fst snd].
      destruct (step_rel s1 s2 o Rl L) as [E Rl'].
      destruct (IH _ _ Rl') as [E2 Rl2]. fold (cursor_ops t) in *.
      split; [rewrite E, E2; reflexivity|exact Rl2].
Qed.

Definition xgood (s : xstate) : Prop := forall i, wf_limit (xf_rs s i) /\ coh (xf_rs s i).

Lemma xrel_self s : xgood s -> xrel dKV s s.
Proof.
  intro G. split; [reflexivity|]. intro i. destruct (G i) as [W C].
  repeat split; try assumption; try reflexivity.
Qed.

Lemma lookups_irrelevant h s :
  xgood s -> cursor_answers h (fst (xrun h s)) = fst (xrun (cursor_ops h) s).
Proof. intro G. apply lookups_irrelevant_rel, xrel_self, G. Qed.

(* seek_kv on two readers with arbitrary, unrelated pasts: same status, and after a success
   the key/value cursors are interchangeable *)
Lemma seek_kv_rel s1 s2 x count :
  xrel nothing_positioned s1 s2 -> xr_has_table (xf_xr s1) = true ->
  fst (step s1 (XSeek x count)) = fst (step s2 (XSeek x count)) /\
  (fst (step s1 (XSeek x count)) = ASeek (Ok tt) ->
   xrel dKV (snd (step s1 (XSeek x count))) (snd (step s2 (XSeek x count)))).
Proof.
  intros [X F] T. cbn [xf_step]. rewrite <- X.
  unfold xcall, runA, xseek_client. rewrite T. cbn [negb c_seek run_client].
  set (b := (xr_start (xf_xr s1) + x / 65536) mod u64m). set (o := x mod 65536).
  destruct (F R_XKV) as (W & C1 & C2 & St & L & _).
  pose proof (wf_transfer _ _ W L) as W2.
  destruct (coherent_seek uncompress file (xf_rs s1 R_XKV) b o W C1) as (C1' & W1' & S1' & L1').
  destruct (coherent_seek uncompress file (xf_rs s2 R_XKV) b o W2 C2) as (C2' & W2' & S2' & L2').
  destruct (seek_any uncompress file (xf_rs s1 R_XKV) (xf_rs s2 R_XKV) b o W C1 C2 St L) as [Rq Eq].
  destruct (seek uncompress file true (xf_rs s1 R_XKV) b o) as [r1 m1].
  destruct (seek uncompress file true (xf_rs s2 R_XKV) b o) as [r2 m2].
  cbn [fst snd] in *. subst r2.
  destruct r1 as [[]|e| |]; cbn [run_client fst snd unv]; (split; [reflexivity|]); try discriminate.
  intros _. split; [exact X|]. cbn [xf_rs]. intro j. unfold upd.
  destruct (Nat.eqb j R_XKV) eqn:J.
  - split; [assumption|]. split; [assumption|]. split; [assumption|].
    split; [congruence|]. split; [congruence|]. intros _. apply Eq. reflexivity.
  - destruct (F j) as (Wj & C1j & C2j & Sj & Lj & _).
    do 5 (split; [assumption|]). unfold dKV. rewrite J. discriminate.
Qed.

(* the key/value API is history free: after a successful seek_kv the answers depend only on
   the image, the sought location and the cursor calls since -- not on what the two reader
   objects did before, not on lookups in between *)
Lemma fine_history_free_rel s1 s2 x count h :
  xrel nothing_positioned s1 s2 -> xr_has_table (xf_xr s1) = true ->
  fst (step s1 (XSeek x count)) = fst (step s2 (XSeek x count)) /\
  (fst (step s1 (XSeek x count)) = ASeek (Ok tt) ->
   cursor_answers h (fst (xrun h (snd (step s1 (XSeek x count))))) =
   fst (xrun (cursor_ops h) (snd (step s2 (XSeek x count))))).
Proof.
  intros Rl T. destruct (seek_kv_rel s1 s2 x count Rl T) as [E K].
  split; [exact E|]. intro OK. apply lookups_irrelevant_rel, K, OK.
Qed.

(* get_desc and read_all position their reader themselves: history free on their own *)
Lemma self_positioning_rel s1 s2 o :
  xrel nothing_positioned s1 s2 ->
  match o with XGet _ | XAll _ | XSeek _ _ | XLoad | XCopy => True | _ => False end ->
  fst (step s1 o) = fst (step s2 o).
Proof.
  intros Rl O. pose proof Rl as [X _].
  destruct o as [idx|x count| |t| |idx| |]; try contradiction; cbn [xf_step]; rewrite <- ?X.
  - destruct (call_rel _ s1 s2 _ Rl (safe_xattr_desc_client (xf_xr s1) idx nothing_positioned)) as [E _].
    destruct (call s1 (xattr_desc_client (xf_xr s1) idx)), (call s2 (xattr_desc_client (xf_xr s1) idx)).
    cbn [fst] in *. congruence.
  - destruct (call_rel _ s1 s2 _ Rl (safe_xseek (xf_xr s1) x count nothing_positioned)) as [E _].
    destruct (call s1 (xseek_client (xf_xr s1) x count)), (call s2 (xseek_client (xf_xr s1) x count)).
    cbn [fst] in *. congruence.
  - destruct (call_rel _ s1 s2 _ Rl (safe_xattr_all_client (xf_xr s1) idx nothing_positioned)) as [E _].
    destruct (call s1 (xattr_all_client (xf_xr s1) idx)), (call s2 (xattr_all_client (xf_xr s1) idx)).
    cbn [fst] in *. congruence.
  - destruct (load_rel _ s1 s2 Rl) as [E _].
    destruct (xf_load file sb s1), (xf_load file sb s2). cbn [fst] in *. congruence.
  - reflexivity.
Qed.

(* ------------------------------------------------------------------ *)
(* every state a reader can be in                                        *)
(* ------------------------------------------------------------------ *)

Definition xinv (xr : xreader) (s : xstate) : Prop :=
  xf_xr s = xr /\ rsinv (fun _ => xf_new_reader sb) (xf_rs s).

Lemma xinv_fresh xr : xinv xr (xf_fresh sb xr).
Proof.
  split; [reflexivity|]. intro i. cbn [xf_fresh xf_rs].
  split; [apply new_reader_wf|]. split; [apply new_reader_coh|]. split; reflexivity.
Qed.

Lemma call_inv {R} xr s (c : client (out R)) : no_create c -> xinv xr s -> xinv xr (snd (call s c)).
Proof.
  intros NC [X V]. split; [rewrite xcall_xr; exact X|]. rewrite xcall_rs. unfold runA.
  apply no_create_run; assumption.
Qed.

Lemma only_pairs xr : forall fuel count acc,
  only R_XKV (xattr_pairs (R := list (list N * list N)) xr fuel count acc (fun l => CRet (Ok l))).
Proof.
  induction fuel as [|f IHf]; intros count acc; cbn [xattr_pairs]; [constructor|].
  destruct (count =? 0); [constructor|].
  apply only_key. intros t key. apply only_value. intro v. apply IHf.
Qed.

Lemma nc_all xr idx : no_create (xattr_all_client xr idx).
Proof.
  unfold xattr_all_client. destruct (idx =? no_frag); [exact I|].
  apply no_create_cbind; [eapply only_no_create, only_desc|].
  intros [[[a c] sz]|e| |]; try exact I.
  apply nc_c_seek. eapply only_no_create, only_pairs.
Qed.

Lemma step_inv xr s o : xattr_load file sb = Ok xr -> xinv xr s -> xinv xr (snd (step s o)).
Proof.
  intros LD V.
  destruct o as [idx|x count| |t| |idx| |]; cbn [xf_step].
  - pose proof (call_inv xr s _ (only_no_create _ _ (only_desc (xf_xr s) idx)) V) as H.
    destruct (call s (xattr_desc_client (xf_xr s) idx)). exact H.
  - pose proof (call_inv xr s _ (only_no_create _ _ (only_xseek (xf_xr s) x count)) V) as H.
    destruct (call s (xseek_client (xf_xr s) x count)). exact H.
  - pose proof (call_inv xr s _ (only_no_create _ _ (only_xkey (xf_xr s))) V) as H.
    destruct (call s (xkey_client (xf_xr s))). exact H.
  - pose proof (call_inv xr s _ (only_no_create _ _ (only_xval (xf_xr s) t)) V) as H.
    destruct (call s (xval_client (xf_xr s) t)). exact H.
  - pose proof (call_inv xr s _ (only_no_create _ _ (only_xpair (xf_xr s))) V) as H.
    destruct (call s (xpair_client (xf_xr s))). exact H.
  - pose proof (call_inv xr s _ (nc_all (xf_xr s) idx) V) as H.
    destruct (call s (xattr_all_client (xf_xr s) idx)). exact H.
  - unfold xf_load. rewrite LD.
    destruct (flag_set (sb_flags sb) c_SQFS_FLAG_NO_XATTRS); [exact V|].
    destruct (sb_xattr_start sb =? c10_meta_init_tag); [exact V|].
    destruct (sb_bytes_used sb <=? sb_xattr_start sb); [exact V|].
    cbn [snd]. destruct V as [X V]. split; [reflexivity|]. cbn [xf_rs]. intro j. unfold upd.
    destruct (Nat.eqb j R_XKV); [|destruct (Nat.eqb j R_XID); [|apply V]];
      (split; [apply new_reader_wf|]; split; [apply new_reader_coh|]; split; reflexivity).
  - exact V.
Qed.

Lemma run_inv xr : xattr_load file sb = Ok xr -> forall h s, xinv xr s -> xinv xr (snd (xrun h s)).
Proof.
  intros LD. induction h as [|o t IH]; intros s V; [exact V|].
  rewrite xrun_cons. cbn [snd]. apply IH, step_inv; assumption.
Qed.

Lemma xinv_rel xr s1 s2 : xinv xr s1 -> xinv xr s2 -> xrel nothing_positioned s1 s2.
Proof.
  intros [X1 V1] [X2 V2]. split; [congruence|]. intro i.
  destruct (V1 i) as (W1 & C1 & S1 & L1). destruct (V2 i) as (W2 & C2 & S2 & L2).
  split; [exact W1|]. split; [exact C1|]. split; [exact C2|]. split; [congruence|]. split; [congruence|]. discriminate.
Qed.

Lemma xinv_good xr s : xinv xr s -> xgood s.
Proof. intros [_ V] i. destruct (V i) as (W & C & _). split; assumption. Qed.

(* the statement for reader objects as the API creates them: ANY earlier use of the reader
   (h0: lookups, seeks, reads, read_all, re-loads, copies) against a reader loaded just now *)
Lemma fine_history_free xr h0 x count h :
  xattr_load file sb = Ok xr -> xr_has_table xr = true ->
  let s1 := snd (xrun h0 (xf_fresh sb xr)) in
  let s2 := xf_fresh sb xr in
  fst (step s1 (XSeek x count)) = fst (step s2 (XSeek x count)) /\
  (fst (step s1 (XSeek x count)) = ASeek (Ok tt) ->
   cursor_answers h (fst (xrun h (snd (step s1 (XSeek x count))))) =
   fst (xrun (cursor_ops h) (snd (step s2 (XSeek x count))))).
Proof.
  intros LD T s1 s2.
  assert (V1 : xinv xr s1) by (apply run_inv; [exact LD|apply xinv_fresh]).
  apply fine_history_free_rel; [apply (xinv_rel xr); [exact V1|apply xinv_fresh]|].
  destruct V1 as [X _]. rewrite X. exact T.
Qed.

(* ... and from the state the reader is in, whatever it is: lookups never matter *)
Lemma fine_lookups_irrelevant xr h0 h :
  xattr_load file sb = Ok xr ->
  let s := snd (xrun h0 (xf_fresh sb xr)) in
  cursor_answers h (fst (xrun h s)) = fst (xrun (cursor_ops h) s).
Proof.
  intros LD s. apply lookups_irrelevant. apply (xinv_good xr). apply run_inv; [exact LD|apply xinv_fresh].
Qed.

End XF.
