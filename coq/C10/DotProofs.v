(* C10 — the DOT_ENTRIES inode-number cache of dir_reader.c: answers depend on the SET of
   directory inodes fetched through the reader, never on the order of the fetches. *)
From Coq Require Import List NArith ZArith Bool Lia PeanoNat.
From SqfsV Require Import Gen.Constants Base.Bytes C10.GenC10 C10.GenC10Dot C10.MetaModel C10.MetaProofs
     C10.ClientModel C10.ClientProofs C10.DataModel C10.ApiModel C10.ApiProofs C10.DotModel.
Import ListNotations.
Local Open Scope N_scope.

(* ------------------------------------------------------------------ *)
(* the comparator: what dir_reader.c must provide to the rbtree         *)
(* ------------------------------------------------------------------ *)

Lemma u32m_val : u32m = 4294967296.
Proof. reflexivity. Qed.

Lemma u32m_pos : u32m <> 0.
Proof. rewrite u32m_val. discriminate. Qed.

Lemma key_compare_strict_total : strict_total key_compare.
Proof.
  intros a b c _ _ _. unfold key_compare.
  destruct (N.ltb_spec a b), (N.ltb_spec b a), (N.ltb_spec b c), (N.ltb_spec c b),
           (N.ltb_spec a c), (N.ltb_spec c a);
    repeat split; intros; try lia.
Qed.

(* (int)(lhs - rhs) is not: 0 and 2^31 are each "less" than the other *)
Lemma sub_compare_not_total : ~ strict_total sub_compare.
Proof.
  intro H.
  assert (L : forall x, x = 0 \/ x = 2147483648 -> x < u32m).
  { intros x [E|E]; subst x; reflexivity. }
  destruct (H 0 2147483648 0 (L _ (or_introl eq_refl)) (L _ (or_intror eq_refl)) (L _ (or_introl eq_refl)))
    as (_ & [A _] & _).
  assert (B : (sub_compare 0 2147483648 < 0)%Z) by reflexivity.
  specialize (A B). vm_compute in A. discriminate.
Qed.

(* ------------------------------------------------------------------ *)
(* instances of the abstract rbtree                                     *)
(* ------------------------------------------------------------------ *)

(* the association list searched with the comparator meets the contract *)
Lemma al_contract : rbtree_contract al_empty al_lookup al_insert.
Proof.
  intros cmp ST. exists (fun _ => True).
  split; [exact I|]. split; [reflexivity|].
  intros t k v _ K _. split; [exact I|].
  intros k' K'. cbn [al_insert al_lookup].
  destruct (ST k' k k' K' K K') as (E & _).
  destruct (Z.eqb_spec (cmp k' k) 0) as [Z0|Z0]; destruct (N.eqb_spec k' k) as [E0|E0]; try reflexivity; exfalso.
  - apply E0, E, Z0.
  - apply Z0, E, E0.
Qed.

(* the transcription of lib/util/src/rbtree.c: with dcache_key_compare every inserted key is
   found again; with (int)(lhs - rhs) the third key is lost after the fifth insertion
   (the rotation moves it to a place where the lookup, comparing the other way round, does
   not go).  This is why [strict_total] is the hypothesis of the contract. *)
Definition rb_of (cmp : N -> N -> Z) (keys : list N) : rb :=
  fold_left (fun t k => rb_insert cmp t k (k + 1000)) keys RbLeaf.
Definition adversarial_keys : list N := [1; 2; 2147483651; 4; 5].

Lemma rb_key_compare_finds_all :
  map (rb_lookup key_compare (rb_of key_compare adversarial_keys)) adversarial_keys
  = map (fun k => Some (k + 1000)) adversarial_keys.
Proof. vm_compute. reflexivity. Qed.

Lemma rb_sub_compare_loses_key :
  In 2147483651 adversarial_keys /\
  rb_lookup sub_compare (rb_of sub_compare adversarial_keys) 2147483651 = None.
Proof. split; [simpl; tauto|vm_compute; reflexivity]. Qed.

(* ------------------------------------------------------------------ *)
(* first_assoc                                                          *)
(* ------------------------------------------------------------------ *)

Lemma first_assoc_app k l l' :
  first_assoc k (l ++ l') = match first_assoc k l with Some v => Some v | None => first_assoc k l' end.
Proof.
  induction l as [|[k0 v0] l IH]; cbn [first_assoc app]; [reflexivity|].
  destruct (k =? k0); [reflexivity|exact IH].
Qed.

Lemma first_assoc_in k l v : first_assoc k l = Some v -> In (k, v) l.
Proof.
  induction l as [|[k0 v0] l IH]; cbn [first_assoc]; [discriminate|].
  destruct (N.eqb_spec k k0) as [E|E].
  - intro H. inversion H; subst. left. reflexivity.
  - intro H. right. apply IH, H.
Qed.

Lemma first_assoc_none k l : first_assoc k l = None -> forall v, ~ In (k, v) l.
Proof.
  induction l as [|[k0 v0] l IH]; cbn [first_assoc]; [intros _ v []|].
  destruct (N.eqb_spec k k0) as [E|E]; [discriminate|].
  intros H v [X|X]; [inversion X; subst; apply E; reflexivity|exact (IH H v X)].
Qed.

Definition same_set (l1 l2 : list (N * N)) : Prop := forall p, In p l1 <-> In p l2.
Definition functional (l : list (N * N)) : Prop := forall k v v', In (k, v) l -> In (k, v') l -> v = v'.

Lemma first_assoc_set l1 l2 k :
  same_set l1 l2 -> functional l1 -> first_assoc k l1 = first_assoc k l2.
Proof.
  intros S F.
  destruct (first_assoc k l1) as [v|] eqn:A; destruct (first_assoc k l2) as [v'|] eqn:B; try reflexivity.
  - apply first_assoc_in in A. apply first_assoc_in in B. apply S in B. f_equal. exact (F k v v' A B).
  - apply first_assoc_in in A. apply S in A. exfalso. exact (first_assoc_none _ _ B v A).
  - apply first_assoc_in in B. apply S in B. exfalso. exact (first_assoc_none _ _ A v' B).
Qed.

(* ------------------------------------------------------------------ *)
(* clients on two reader families: same verdict, and the families stay   *)
(* interchangeable (ClientProofs.client_free_l with the final states)    *)
(* ------------------------------------------------------------------ *)

Section Rel.
Variable uncompress : list N -> N -> uresult.
Variable file : N -> N -> rd_res.
Variable fsize : N.

Notation runC := (run_client uncompress file fsize true).
Notation coh := (coherent uncompress file).
Notation fam := (fam_ok uncompress file).

Lemma fam_weaken rs1 rs2 det : fam rs1 rs2 det -> fam rs1 rs2 nothing_positioned.
Proof.
  intros F i. destruct (F i) as (W & C1 & C2 & S & L & _).
  repeat (split; [assumption|]). discriminate.
Qed.

Lemma client_rel : forall R (c : client R) rs1 rs2 det,
  fam rs1 rs2 det ->
  fst (runC c rs1 det) = fst (runC c rs2 det) /\
  fam (snd (runC c rs1 det)) (snd (runC c rs2 det)) nothing_positioned.
Proof.
  induction c as [r|i s l k IH|i b o k IH|i n k IH|i k IH]; intros rs1 rs2 det F.
  - split; [reflexivity|]. cbn. eapply fam_weaken, F.
  - cbn [run_client]. apply IH. intro j. unfold upd.
    destruct (Nat.eqb j i).
    + repeat split; try reflexivity; try apply u64_wf; try apply create_coherent.
    + apply F.
  - cbn [run_client].
    destruct (F i) as (W & C1 & C2 & S & L & E).
    pose proof (wf_transfer _ _ W L) as W2.
    destruct (coherent_seek uncompress file (rs1 i) b o W C1) as (C1' & W1' & S1' & L1').
    destruct (coherent_seek uncompress file (rs2 i) b o W2 C2) as (C2' & W2' & S2' & L2').
    destruct (seek_any uncompress file (rs1 i) (rs2 i) b o W C1 C2 S L) as [Rq Eq].
    assert (Eq2 : det i = true ->
                  equiv (snd (seek uncompress file true (rs1 i) b o)) (snd (seek uncompress file true (rs2 i) b o))).
    { intro D. apply (seek_equiv uncompress file (rs1 i) (rs2 i) b o (E D)). }
    destruct (seek uncompress file true (rs1 i) b o) as [r1 m1].
    destruct (seek uncompress file true (rs2 i) b o) as [r2 m2].
    cbn [fst snd] in *. subst r2.
    apply IH. intro j. unfold upd.
    destruct (Nat.eqb j i) eqn:J.
    + split; [assumption|]. split; [assumption|]. split; [assumption|].
      split; [congruence|]. split; [congruence|].
      destruct (is_ok r1) eqn:K.
      * intros _. apply Eq. apply ok_unit. exact K.
      * intro D. apply Eq2. apply Nat.eqb_eq in J. subst j. exact D.
    + destruct (F j) as (Wj & C1j & C2j & Sj & Lj & Ej).
      split; [assumption|]. split; [assumption|]. split; [assumption|].
      split; [assumption|]. split; [assumption|].
      destruct (is_ok r1); [|exact Ej].
      unfold upd. rewrite J. exact Ej.
  - cbn [run_client].
    destruct (F i) as (W & C1 & C2 & S & L & E).
    destruct (det i) eqn:D; [|split; [reflexivity|cbn; eapply fam_weaken, F]].
    specialize (E eq_refl).
    pose proof (wf_transfer _ _ W L) as W2.
    unfold read.
    destruct (read_loop_equiv uncompress file (read_fuel fsize n) (rs1 i) (rs2 i) n [] E
                              (coherent_off uncompress file _ C1)) as [Rq Eq].
    pose proof (coherent_read_loop uncompress file (read_fuel fsize n) (rs1 i) n [] W C1) as H1.
    pose proof (coherent_read_loop uncompress file (read_fuel fsize n) (rs2 i) n [] W2 C2) as H2.
    cbn zeta in H1, H2.
    destruct (read_loop uncompress file true (read_fuel fsize n) (rs1 i) n []) as [r1 m1].
    destruct (read_loop uncompress file true (read_fuel fsize n) (rs2 i) n []) as [r2 m2].
    cbn [fst snd] in *. subst r2.
    destruct H1 as (C1' & W1' & S1' & L1'). destruct H2 as (C2' & W2' & S2' & L2').
    apply IH. intro j. unfold upd.
    destruct (Nat.eqb j i) eqn:J.
    + split; [assumption|]. split; [assumption|]. split; [assumption|].
      split; [congruence|]. split; [congruence|]. intros _. exact Eq.
    + apply F.
  - cbn [run_client].
    destruct (F i) as (W & C1 & C2 & S & L & E).
    destruct (det i) eqn:D; [|split; [reflexivity|cbn; eapply fam_weaken, F]].
    rewrite (getpos_equiv _ _ (E eq_refl)). apply IH. exact F.
Qed.

(* ---- clients that create no reader keep every reader's window; with coherence
        this is the invariant of a reader family that only ever ran such clients ---- *)

Fixpoint no_create {R} (c : client R) : Prop :=
  match c with
  | CRet _ => True
  | CCreate _ _ _ _ => False
  | CSeek _ _ _ k => forall r, no_create (k r)
  | CRead _ _ k => forall r, no_create (k r)
  | CPos _ k => forall p, no_create (k p)
  end.

Definition rs_inv (rs0 rs : readers) : Prop :=
  forall i, wf_limit (rs i) /\ coh (rs i) /\ m_start (rs i) = m_start (rs0 i) /\ m_limit (rs i) = m_limit (rs0 i).

Lemma no_create_run : forall R (c : client R) rs0 rs det,
  no_create c -> rs_inv rs0 rs -> rs_inv rs0 (snd (runC c rs det)).
Proof.
  induction c as [r|i s l k IH|i b o k IH|i n k IH|i k IH]; intros rs0 rs det NC V; cbn [run_client no_create] in *.
  - exact V.
  - contradiction.
  - destruct (V i) as (W & C & S & L).
    destruct (coherent_seek uncompress file (rs i) b o W C) as (C' & W' & S' & L').
    destruct (seek uncompress file true (rs i) b o) as [r m']. cbn [snd] in *.
    apply IH; [apply NC|]. intro j. unfold upd.
    destruct (Nat.eqb_spec j i) as [E|E]; [subst j|apply V].
    repeat split; try assumption; congruence.
  - destruct (det i); [|exact V].
    destruct (V i) as (W & C & S & L).
    pose proof (coherent_read_loop uncompress file (read_fuel fsize n) (rs i) n [] W C) as H.
    cbn zeta in H. unfold read.
    destruct (read_loop uncompress file true (read_fuel fsize n) (rs i) n []) as [r m']. cbn [snd] in *.
    destruct H as (C' & W' & S' & L').
    apply IH; [apply NC|]. intro j. unfold upd.
    destruct (Nat.eqb_spec j i) as [E|E]; [subst j|apply V].
    repeat split; try assumption; congruence.
  - destruct (det i); [|exact V]. apply IH; [apply NC|exact V].
Qed.

Lemma rs_inv_fam rs0 a b : rs_inv rs0 a -> rs_inv rs0 b -> fam a b nothing_positioned.
Proof.
  intros A B i. destruct (A i) as (W & C & S & L). destruct (B i) as (W' & C' & S' & L').
  repeat (split; [first [assumption|congruence]|]). discriminate.
Qed.

End Rel.

(* the three clients the DOT model runs create no reader *)
Lemma no_create_cbind {A B} (c : client A) (f : A -> client B) :
  no_create c -> (forall a, no_create (f a)) -> no_create (cbind c f).
Proof.
  induction c as [r|i s l k IH|i b o k IH|i n k IH|i k IH]; cbn [cbind no_create]; intros NC F.
  - apply F.
  - contradiction.
  - intro r. apply IH; [apply NC|exact F].
  - intro r. apply IH; [apply NC|exact F].
  - intro p. apply IH; [apply NC|exact F].
Qed.

Lemma nc_c_read {R} i n (k : list N -> client (out R)) : (forall b, no_create (k b)) -> no_create (c_read i n k).
Proof. intros K. cbn. intros [b|e| |]; cbn; auto. Qed.

Lemma nc_c_seek {R} i b o (k : client (out R)) : no_create k -> no_create (c_seek i b o k).
Proof. intros K. cbn. intros [u|e| |]; cbn; auto. Qed.

Lemma nc_dir_index count : forall acc k, (forall p, no_create (k p)) -> no_create (dir_index count acc k).
Proof.
  induction count as [|c IH]; intros acc k K; cbn [dir_index].
  - apply K.
  - apply nc_c_read. intro ent. apply nc_c_read. intro name. apply IH. exact K.
Qed.

Lemma nc_inode_client sb ref : no_create (inode_client sb ref).
Proof.
  unfold inode_client. apply nc_c_seek. apply nc_c_read. intro b.
  destruct (mode_bits (fld b 0 2)); [|exact I].
  repeat match goal with
         | |- no_create (if ?c then _ else _) => destruct c
         | |- no_create (c_read _ _ _) => apply nc_c_read; intro
         | |- no_create (dir_index _ _ _) => apply nc_dir_index; intro
         | |- no_create (CRet _) => exact I
         end.
Qed.

Ltac nc_step :=
  match goal with
  | |- True => exact I
  | |- no_create (CRet _) => exact I
  | |- no_create (if ?c then _ else _) => destruct c
  | |- no_create (match ?r with _ => _ end) => destruct r
  | |- no_create (CSeek _ _ _ _) => cbn [no_create]; intro
  | |- no_create (CRead _ _ _) => cbn [no_create]; intro
  | |- no_create (CPos _ _) => cbn [no_create]; intro
  end.

Lemma nc_readdir_ent it : no_create (readdir_ent it).
Proof. unfold readdir_ent. repeat nc_step. Qed.

Lemma nc_readdir_step it : no_create (readdir_step it).
Proof. unfold readdir_step. repeat first [apply nc_readdir_ent | nc_step]. Qed.

Lemma nc_find_entry fuel : forall it path, no_create (find_entry fuel it path).
Proof.
  induction fuel as [|f IH]; intros it path; cbn [find_entry]; [exact I|].
  apply no_create_cbind; [apply nc_readdir_step|].
  intros [r it']. destruct r as [h name ref| |e].
  - destruct (strncmp_eq name path (length name)); [|apply IH].
    destruct (Nat.ltb (length path) (length name)); [exact I|].
    destruct ((nth (length name) path 0 =? 47) || (nth (length name) path 0 =? 0)); [exact I|apply IH].
  - exact I.
  - destruct e; exact I.
Qed.

(* ------------------------------------------------------------------ *)
(* the reader                                                           *)
(* ------------------------------------------------------------------ *)

Section DotP.
Variable uncompress : list N -> N -> uresult.
Variable file : N -> N -> rd_res.
Variable fsize : N.
Variable T : Type.
Variable t_empty : T.
Variable t_lookup : (N -> N -> Z) -> T -> N -> option N.
Variable t_insert : (N -> N -> Z) -> T -> N -> N -> T.

Notation lookupM := (dc_lookup T t_lookup).
Notation insertM := (dc_insert T t_insert).
Notation addM := (dcache_add T t_lookup t_insert).
Notation inumM := (resolve_inum T t_lookup).
Notation openM := (dot_open_dir T t_lookup).
Notation getM := (dot_get_inode uncompress file fsize T t_lookup t_insert).
Notation readM := (dot_read uncompress file fsize T).
Notation findM := (dot_find uncompress file fsize T).
Notation loopM := (dot_resolve_loop uncompress file fsize T t_lookup t_insert).
Notation pathM := (dot_resolve_path uncompress file fsize T t_lookup t_insert).
Notation stepM := (dstep uncompress file fsize T t_lookup t_insert).
Notation runM := (drun uncompress file fsize T t_lookup t_insert).
Notation createM := (dot_create T t_empty).
Notation run1M := (run1 uncompress file fsize).
Notation fam := (fam_ok uncompress file).
Notation rsinv := (rs_inv uncompress file).

(* the finite-map laws the contract yields for dcache_key_compare *)
Section Laws.
Variable inv : T -> Prop.
Hypothesis inv_empty : inv t_empty.
Hypothesis lookup_empty : forall k, k < u32m -> lookupM t_empty k = None.
Hypothesis insert_law : forall t k v, inv t -> k < u32m -> lookupM t k = None ->
  inv (insertM t k v) /\
  forall k', k' < u32m -> lookupM (insertM t k v) k' = if k' =? k then Some v else lookupM t k'.

Lemma inum_lt i : inum_of i < u32m.
Proof. unfold inum_of. apply N.mod_lt, u32m_pos. Qed.

(* ---- the cache is the first-binding map of the encounter list ---- *)

Definition dc_ok (d : dreader T) : Prop :=
  inv (dr_t d) /\ forall k, k < u32m -> lookupM (dr_t d) k = first_assoc k (dr_log d).

Lemma add_ok t log i ref :
  inv t -> (forall k, k < u32m -> lookupM t k = first_assoc k log) -> is_dir_inode i = true ->
  inv (addM t i ref) /\
  forall k, k < u32m -> lookupM (addM t i ref) k = first_assoc k (log ++ [(inum_of i, ref)]).
Proof.
  intros I L Dr. unfold dcache_add. rewrite Dr.
  pose proof (inum_lt i) as Lt.
  destruct (lookupM t (inum_of i)) as [v|] eqn:Q.
  - split; [exact I|]. intros k K. rewrite first_assoc_app, <- (L k K).
    destruct (lookupM t k) as [w|] eqn:Qk; [reflexivity|].
    cbn [first_assoc]. destruct (N.eqb_spec k (inum_of i)) as [E|E]; [|reflexivity].
    subst k. congruence.
  - destruct (insert_law t (inum_of i) ref I Lt Q) as [I' L'].
    split; [exact I'|]. intros k K. rewrite (L' k K), first_assoc_app, <- (L k K).
    cbn [first_assoc]. destruct (N.eqb_spec k (inum_of i)) as [E|E].
    + subst k. rewrite Q. reflexivity.
    + destruct (lookupM t k); reflexivity.
Qed.

Lemma get_ok sb d ref : dc_ok d -> dc_ok (snd (getM sb d ref)).
Proof.
  intros [I L]. unfold dot_get_inode.
  destruct (run1M (inode_client sb ref) (dr_rs d)) as [v rs'].
  destruct v as [[i|e| |]|]; cbn [snd]; try (split; assumption).
  unfold dc_ok. cbn [dr_t dr_log].
  destruct (is_dir_inode i) eqn:Dr.
  - apply add_ok; assumption.
  - unfold dcache_add. rewrite Dr. split; assumption.
Qed.

Lemma read_ok d st : dc_ok d -> dc_ok (snd (readM d st)).
Proof.
  intros O. unfold dot_read.
  destruct (ds_state st =? c10d_STATE_OPENED); [exact O|].
  destruct (ds_state st =? c10d_STATE_DOT); [exact O|].
  destruct (ds_state st =? c10d_STATE_ENTRIES); [|exact O].
  destruct (run1M (readdir_step (ds_cursor st)) (dr_rs d)) as [v rs'].
  destruct v as [[[h n ref| |e] it']|]; exact O.
Qed.

Lemma find_ok d st p : dc_ok d -> dc_ok (snd (findM d st p)).
Proof.
  intros O. unfold dot_find.
  destruct ((ds_state st =? c10d_STATE_OPENED) && match_name name_dot p); [exact O|].
  destruct ((ds_state st =? c10d_STATE_OPENED) && match_name name_dotdot p); [exact O|].
  destruct (run1M (find_entry scan_fuel (ds_cursor st) p) (dr_rs d)) as [v rs']. exact O.
Qed.

Lemma loop_ok sb fuel : forall d path cur root, dc_ok d -> dc_ok (snd (loopM sb fuel d path cur root)).
Proof.
  induction fuel as [|f IH]; intros d path cur root O; cbn [dot_resolve_loop]; [exact O|].
  destruct (skip_slashes path) as [|c p]; [exact O|].
  destruct root as [r|].
  - destruct (openM sb (dr_t d) r 0) as [st|e| |]; try exact O.
    pose proof (find_ok d st (c :: p) O) as O2.
    destruct (findM d st (c :: p)) as [vf d2]. cbn [snd] in O2.
    destruct vf as [[[rest ref]|e| |]|]; try exact O2. apply IH, O2.
  - pose proof (get_ok sb d cur O) as O1.
    destruct (getM sb d cur) as [v d1]. cbn [snd] in O1.
    destruct v as [[i|e| |]|]; try exact O1.
    destruct (openM sb (dr_t d1) i 0) as [st|e| |]; try exact O1.
    pose proof (find_ok d1 st (c :: p) O1) as O2.
    destruct (findM d1 st (c :: p)) as [vf d2]. cbn [snd] in O2.
    destruct vf as [[[rest ref]|e| |]|]; try exact O2. apply IH, O2.
Qed.

Lemma step_ok sb d op : dc_ok d -> dc_ok (snd (stepM sb d op)).
Proof.
  intros O. destruct op as [ref|i flags|st|inum|root path]; cbn [dstep].
  - pose proof (get_ok sb d ref O) as H. destruct (getM sb d ref). exact H.
  - exact O.
  - pose proof (read_ok d st O) as H. destruct (readM d st) as [[v st'] d']. exact H.
  - exact O.
  - unfold dot_resolve_path.
    destruct (skip_slashes path) as [|c p].
    + destruct root; exact O.
    + pose proof (loop_ok sb (S (length path)) d path (sb_root_ref sb) root O) as H.
      destruct (loopM sb (S (length path)) d path (sb_root_ref sb) root). exact H.
Qed.

Lemma run_ok sb ops : forall d, dc_ok d -> dc_ok (snd (runM sb d ops)).
Proof.
  induction ops as [|op r IH]; intros d O; cbn [drun]; [exact O|].
  pose proof (step_ok sb d op O) as O1.
  destruct (stepM sb d op) as [a d1]. cbn [snd] in O1.
  specialize (IH d1 O1). destruct (runM sb d1 r) as [l d2]. exact IH.
Qed.

Lemma create_ok sb : dc_ok (createM sb).
Proof. split; [exact inv_empty|]. intros k K. cbn. apply lookup_empty, K. Qed.

(* ---- the encounter list only grows ---- *)

Definition extends (d d' : dreader T) : Prop := exists l, dr_log d' = dr_log d ++ l.

Lemma extends_refl d : extends d d.
Proof. exists []. symmetry. apply app_nil_r. Qed.

Lemma extends_same d d' : dr_log d' = dr_log d -> extends d d'.
Proof. intro E. exists []. rewrite E. symmetry. apply app_nil_r. Qed.

Lemma extends_trans a b c : extends a b -> extends b c -> extends a c.
Proof. intros [l E] [l' E']. exists (l ++ l'). rewrite E', E, app_assoc. reflexivity. Qed.

Lemma get_ext sb d ref : extends d (snd (getM sb d ref)).
Proof.
  unfold dot_get_inode.
  destruct (run1M (inode_client sb ref) (dr_rs d)) as [v rs'].
  destruct v as [[i|e| |]|]; cbn [snd]; try (apply extends_same; reflexivity).
  destruct (is_dir_inode i) eqn:Dr.
  - eexists. cbn [dr_log]. reflexivity.
  - apply extends_same. reflexivity.
Qed.

Lemma read_ext d st : extends d (snd (readM d st)).
Proof.
  unfold dot_read.
  destruct (ds_state st =? c10d_STATE_OPENED); [apply extends_same; reflexivity|].
  destruct (ds_state st =? c10d_STATE_DOT); [apply extends_same; reflexivity|].
  destruct (ds_state st =? c10d_STATE_ENTRIES); [|apply extends_same; reflexivity].
  destruct (run1M (readdir_step (ds_cursor st)) (dr_rs d)) as [v rs'].
  destruct v as [[[h n ref| |e] it']|]; apply extends_same; reflexivity.
Qed.

Lemma find_ext d st p : extends d (snd (findM d st p)).
Proof.
  unfold dot_find.
  destruct ((ds_state st =? c10d_STATE_OPENED) && match_name name_dot p); [apply extends_same; reflexivity|].
  destruct ((ds_state st =? c10d_STATE_OPENED) && match_name name_dotdot p); [apply extends_same; reflexivity|].
  destruct (run1M (find_entry scan_fuel (ds_cursor st) p) (dr_rs d)) as [v rs']. apply extends_same; reflexivity.
Qed.

Lemma loop_ext sb fuel : forall d path cur root, extends d (snd (loopM sb fuel d path cur root)).
Proof.
  induction fuel as [|f IH]; intros d path cur root; cbn [dot_resolve_loop]; [apply extends_same; reflexivity|].
  destruct (skip_slashes path) as [|c p]; [apply extends_same; reflexivity|].
  destruct root as [r|].
  - destruct (openM sb (dr_t d) r 0) as [st|e| |]; try (apply extends_same; reflexivity).
    pose proof (find_ext d st (c :: p)) as X2.
    destruct (findM d st (c :: p)) as [vf d2]. cbn [snd] in X2.
    destruct vf as [[[rest ref]|e| |]|]; try exact X2.
    eapply extends_trans; [exact X2|apply IH].
  - pose proof (get_ext sb d cur) as X1.
    destruct (getM sb d cur) as [v d1]. cbn [snd] in X1.
    destruct v as [[i|e| |]|]; try exact X1.
    destruct (openM sb (dr_t d1) i 0) as [st|e| |]; try exact X1.
    pose proof (find_ext d1 st (c :: p)) as X2.
    destruct (findM d1 st (c :: p)) as [vf d2]. cbn [snd] in X2.
    destruct vf as [[[rest ref]|e| |]|]; try (eapply extends_trans; [exact X1|exact X2]).
    eapply extends_trans; [exact X1|]. eapply extends_trans; [exact X2|apply IH].
Qed.

Lemma step_ext sb d op : extends d (snd (stepM sb d op)).
Proof.
  destruct op as [ref|i flags|st|inum|root path]; cbn [dstep].
  - pose proof (get_ext sb d ref) as H. destruct (getM sb d ref). exact H.
  - apply extends_same; reflexivity.
  - pose proof (read_ext d st) as H. destruct (readM d st) as [[v st'] d']. exact H.
  - apply extends_same; reflexivity.
  - unfold dot_resolve_path.
    destruct (skip_slashes path) as [|c p].
    + destruct root; apply extends_same; reflexivity.
    + pose proof (loop_ext sb (S (length path)) d path (sb_root_ref sb) root) as H.
      destruct (loopM sb (S (length path)) d path (sb_root_ref sb) root). exact H.
Qed.

Lemma run_ext sb ops : forall d, extends d (snd (runM sb d ops)).
Proof.
  induction ops as [|op r IH]; intros d; cbn [drun]; [apply extends_refl|].
  pose proof (step_ext sb d op) as X1.
  destruct (stepM sb d op) as [a d1]. cbn [snd] in X1.
  specialize (IH d1). destruct (runM sb d1 r) as [l d2]. cbn [snd] in *.
  eapply extends_trans; eassumption.
Qed.

(* an answer of the cache, once given, is given for ever *)
Lemma inum_stable sb d ops k r :
  dc_ok d -> inumM (dr_t d) k = Ok r -> inumM (dr_t (snd (runM sb d ops))) k = Ok r.
Proof.
  intros O H.
  pose proof (run_ok sb ops d O) as [_ L2]. destruct O as [_ L1].
  destruct (run_ext sb ops d) as [l E].
  unfold resolve_inum in *.
  assert (K : k mod u32m < u32m) by (apply N.mod_lt, u32m_pos).
  rewrite (L1 _ K) in H. rewrite (L2 _ K), E, first_assoc_app.
  destruct (first_assoc (k mod u32m) (dr_log d)); [exact H|discriminate].
Qed.

(* a directory inode fetched through the reader resolves from then on: to the reference it
   was first fetched under *)
Lemma lookup_after_insert sb d ref i ops :
  dc_ok d -> fst (getM sb d ref) = Done (Ok i) -> is_dir_inode i = true ->
  let d1 := snd (getM sb d ref) in
  exists r, inumM (dr_t (snd (runM sb d1 ops))) (inum_of i) = Ok r /\
            In (inum_of i, r) (dr_log d1) /\
            (first_assoc (inum_of i) (dr_log d) = None -> r = ref).
Proof.
  intros O G Dr d1.
  pose proof (get_ok sb d ref O) as O1. fold d1 in O1.
  assert (Lg : dr_log d1 = dr_log d ++ [(inum_of i, ref)]).
  { subst d1. unfold dot_get_inode in *.
    destruct (run1M (inode_client sb ref) (dr_rs d)) as [v rs'].
    destruct v as [[i'|e| |]|]; cbn [fst] in G; try discriminate.
    inversion G; subst i'. cbn [snd dr_log]. rewrite Dr. reflexivity. }
  assert (K : inum_of i mod u32m = inum_of i).
  { apply N.mod_small, inum_lt. }
  destruct (first_assoc (inum_of i) (dr_log d1)) as [r|] eqn:F.
  - exists r. split; [|split].
    + apply inum_stable; [exact O1|]. unfold resolve_inum. rewrite K.
      destruct O1 as [_ L1]. rewrite (L1 _ (inum_lt i)), F. reflexivity.
    + apply first_assoc_in, F.
    + intro Nn. rewrite Lg, first_assoc_app, Nn in F. cbn [first_assoc] in F.
      rewrite N.eqb_refl in F. congruence.
  - exfalso. rewrite Lg, first_assoc_app in F.
    destruct (first_assoc (inum_of i) (dr_log d)); [discriminate|].
    cbn [first_assoc] in F. rewrite N.eqb_refl in F. discriminate.
Qed.

(* ---- two readers with the same cache contents are interchangeable ---- *)

Definition map_eq (t1 t2 : T) : Prop := forall k, k < u32m -> lookupM t1 k = lookupM t2 k.

Definition st_rel (d1 d2 : dreader T) : Prop :=
  fam (dr_rs d1) (dr_rs d2) nothing_positioned /\ inv (dr_t d1) /\ inv (dr_t d2) /\ map_eq (dr_t d1) (dr_t d2).

Lemma inum_rel t1 t2 k : map_eq t1 t2 -> inumM t1 k = inumM t2 k.
Proof.
  intro M. unfold resolve_inum. rewrite (M (k mod u32m)); [reflexivity|]. apply N.mod_lt, u32m_pos.
Qed.

Lemma open_rel sb t1 t2 i flags : map_eq t1 t2 -> openM sb t1 i flags = openM sb t2 i flags.
Proof.
  intro M. unfold dot_open_dir.
  rewrite (inum_rel t1 t2 (inum_of i) M), (inum_rel t1 t2 (parent_of i) M). reflexivity.
Qed.

Lemma add_rel t1 t2 i ref :
  inv t1 -> inv t2 -> map_eq t1 t2 ->
  inv (addM t1 i ref) /\ inv (addM t2 i ref) /\ map_eq (addM t1 i ref) (addM t2 i ref).
Proof.
  intros I1 I2 M. unfold dcache_add.
  destruct (is_dir_inode i); [|auto].
  pose proof (inum_lt i) as Lt.
  rewrite <- (M _ Lt).
  destruct (lookupM t1 (inum_of i)) as [v|] eqn:Q; [auto|].
  assert (Q2 : lookupM t2 (inum_of i) = None) by (rewrite <- (M _ Lt); exact Q).
  destruct (insert_law t1 (inum_of i) ref I1 Lt Q) as [I1' L1].
  destruct (insert_law t2 (inum_of i) ref I2 Lt Q2) as [I2' L2].
  split; [exact I1'|]. split; [exact I2'|].
  intros k K. rewrite (L1 k K), (L2 k K), (M k K). reflexivity.
Qed.

Lemma get_rel sb d1 d2 ref :
  st_rel d1 d2 -> fst (getM sb d1 ref) = fst (getM sb d2 ref) /\ st_rel (snd (getM sb d1 ref)) (snd (getM sb d2 ref)).
Proof.
  intros (F & I1 & I2 & M). unfold dot_get_inode, run1.
  destruct (client_rel uncompress file fsize _ (inode_client sb ref) _ _ _ F) as [E F'].
  destruct (run_client uncompress file fsize true (inode_client sb ref) (dr_rs d1) nothing_positioned) as [v1 r1].
  destruct (run_client uncompress file fsize true (inode_client sb ref) (dr_rs d2) nothing_positioned) as [v2 r2].
  cbn [fst snd] in E, F'. subst v2.
  destruct v1 as [[i|e| |]|]; cbn [fst snd]; (split; [reflexivity|]); unfold st_rel; cbn [dr_rs dr_t];
    try exact (conj F' (conj I1 (conj I2 M))).
  destruct (add_rel (dr_t d1) (dr_t d2) i ref I1 I2 M) as (A & B & C). exact (conj F' (conj A (conj B C))).
Qed.

Lemma read_rel d1 d2 st :
  st_rel d1 d2 ->
  fst (readM d1 st) = fst (readM d2 st) /\ st_rel (snd (readM d1 st)) (snd (readM d2 st)).
Proof.
  intros R. pose proof R as (F & I1 & I2 & M). unfold dot_read, run1.
  destruct (ds_state st =? c10d_STATE_OPENED); [split; [reflexivity|exact R]|].
  destruct (ds_state st =? c10d_STATE_DOT); [split; [reflexivity|exact R]|].
  destruct (ds_state st =? c10d_STATE_ENTRIES); [|split; [reflexivity|exact R]].
  destruct (client_rel uncompress file fsize _ (readdir_step (ds_cursor st)) _ _ _ F) as [E F'].
  destruct (run_client uncompress file fsize true (readdir_step (ds_cursor st)) (dr_rs d1) nothing_positioned) as [v1 r1].
  destruct (run_client uncompress file fsize true (readdir_step (ds_cursor st)) (dr_rs d2) nothing_positioned) as [v2 r2].
  cbn [fst snd] in E, F'. subst v2.
  destruct v1 as [[[h n ref| |e] it']|]; cbn [fst snd]; (split; [reflexivity|]); unfold st_rel; cbn [dr_rs dr_t];
    exact (conj F' (conj I1 (conj I2 M))).
Qed.

Lemma find_rel d1 d2 st p :
  st_rel d1 d2 ->
  fst (findM d1 st p) = fst (findM d2 st p) /\ st_rel (snd (findM d1 st p)) (snd (findM d2 st p)).
Proof.
  intros R. pose proof R as (F & I1 & I2 & M). unfold dot_find, run1.
  destruct ((ds_state st =? c10d_STATE_OPENED) && match_name name_dot p); [split; [reflexivity|exact R]|].
  destruct ((ds_state st =? c10d_STATE_OPENED) && match_name name_dotdot p); [split; [reflexivity|exact R]|].
  destruct (client_rel uncompress file fsize _ (find_entry scan_fuel (ds_cursor st) p) _ _ _ F) as [E F'].
  destruct (run_client uncompress file fsize true (find_entry scan_fuel (ds_cursor st) p) (dr_rs d1) nothing_positioned) as [v1 r1].
  destruct (run_client uncompress file fsize true (find_entry scan_fuel (ds_cursor st) p) (dr_rs d2) nothing_positioned) as [v2 r2].
  cbn [fst snd] in E, F'. subst v2. cbn [fst snd]. split; [reflexivity|].
  unfold st_rel; cbn [dr_rs dr_t]. exact (conj F' (conj I1 (conj I2 M))).
Qed.

Lemma loop_rel sb fuel : forall d1 d2 path cur root,
  st_rel d1 d2 ->
  fst (loopM sb fuel d1 path cur root) = fst (loopM sb fuel d2 path cur root) /\
  st_rel (snd (loopM sb fuel d1 path cur root)) (snd (loopM sb fuel d2 path cur root)).
Proof.
  induction fuel as [|f IH]; intros d1 d2 path cur root R; cbn [dot_resolve_loop].
  - split; [reflexivity|exact R].
  - destruct (skip_slashes path) as [|c p]; [split; [reflexivity|exact R]|].
    destruct root as [r|].
    + pose proof R as (_ & _ & _ & M). rewrite (open_rel sb _ _ r 0 M).
      destruct (openM sb (dr_t d2) r 0) as [st|e| |]; try (split; [reflexivity|exact R]).
      destruct (find_rel d1 d2 st (c :: p) R) as [E R2].
      destruct (findM d1 st (c :: p)) as [vf1 e1]. destruct (findM d2 st (c :: p)) as [vf2 e2].
      cbn [fst snd] in E, R2. subst vf2.
      destruct vf1 as [[[rest ref]|e| |]|]; try (split; [reflexivity|exact R2]).
      apply IH, R2.
    + destruct (get_rel sb d1 d2 cur R) as [E R1].
      destruct (getM sb d1 cur) as [v1 e1]. destruct (getM sb d2 cur) as [v2 e2].
      cbn [fst snd] in E, R1. subst v2.
      destruct v1 as [[i|e| |]|]; try (split; [reflexivity|exact R1]).
      pose proof R1 as (_ & _ & _ & M). rewrite (open_rel sb _ _ i 0 M).
      destruct (openM sb (dr_t e2) i 0) as [st|e| |]; try (split; [reflexivity|exact R1]).
      destruct (find_rel e1 e2 st (c :: p) R1) as [E R2].
      destruct (findM e1 st (c :: p)) as [vf1 g1]. destruct (findM e2 st (c :: p)) as [vf2 g2].
      cbn [fst snd] in E, R2. subst vf2.
      destruct vf1 as [[[rest ref]|e| |]|]; try (split; [reflexivity|exact R2]).
      apply IH, R2.
Qed.

Lemma step_rel sb d1 d2 op :
  st_rel d1 d2 -> fst (stepM sb d1 op) = fst (stepM sb d2 op) /\ st_rel (snd (stepM sb d1 op)) (snd (stepM sb d2 op)).
Proof.
  intros R. pose proof R as (_ & _ & _ & M).
  destruct op as [ref|i flags|st|inum|root path]; cbn [dstep].
  - destruct (get_rel sb d1 d2 ref R) as [E R'].
    destruct (getM sb d1 ref); destruct (getM sb d2 ref). cbn [fst snd] in *. subst. split; [reflexivity|exact R'].
  - cbn [fst snd]. rewrite (open_rel sb _ _ i flags M). split; [reflexivity|exact R].
  - destruct (read_rel d1 d2 st R) as [E R'].
    destruct (readM d1 st) as [[v1 s1] e1]; destruct (readM d2 st) as [[v2 s2] e2]. cbn [fst snd] in *.
    inversion E; subst. split; [reflexivity|exact R'].
  - cbn [fst snd]. rewrite (inum_rel _ _ inum M). split; [reflexivity|exact R].
  - unfold dot_resolve_path.
    destruct (skip_slashes path) as [|c p].
    + destruct root as [r|]; cbn [fst snd]; [rewrite (inum_rel _ _ (inum_of r) M)|]; (split; [reflexivity|exact R]).
    + destruct (loop_rel sb (S (length path)) d1 d2 path (sb_root_ref sb) root R) as [E R'].
      destruct (loopM sb (S (length path)) d1 path (sb_root_ref sb) root).
      destruct (loopM sb (S (length path)) d2 path (sb_root_ref sb) root). cbn [fst snd] in *. subst.
      split; [reflexivity|exact R'].
Qed.

Lemma run_rel sb ops : forall d1 d2, st_rel d1 d2 -> fst (runM sb d1 ops) = fst (runM sb d2 ops).
Proof.
  induction ops as [|op r IH]; intros d1 d2 R; cbn [drun]; [reflexivity|].
  destruct (step_rel sb d1 d2 op R) as [E R'].
  destruct (stepM sb d1 op) as [a1 e1]. destruct (stepM sb d2 op) as [a2 e2]. cbn [fst snd] in *. subst a2.
  specialize (IH e1 e2 R').
  destruct (runM sb e1 r) as [l1 g1]. destruct (runM sb e2 r) as [l2 g2]. cbn [fst] in *. congruence.
Qed.

(* ---- the meta readers of a reader object only ever ran clients that create nothing ---- *)

Definition rs_good (sb : super) (d : dreader T) : Prop := rsinv (dr_rs (createM sb)) (dr_rs d).

Lemma run1_good {R} sb (c : client R) d :
  no_create c -> rs_good sb d -> rsinv (dr_rs (createM sb)) (snd (run1M c (dr_rs d))).
Proof. intros NC G. unfold run1. apply no_create_run; assumption. Qed.

Lemma get_good sb d ref : rs_good sb d -> rs_good sb (snd (getM sb d ref)).
Proof.
  intros G. unfold dot_get_inode.
  pose proof (run1_good sb (inode_client sb ref) d (nc_inode_client sb ref) G) as H.
  destruct (run1M (inode_client sb ref) (dr_rs d)) as [v rs']. cbn [snd] in H.
  destruct v as [[i|e| |]|]; exact H.
Qed.

Lemma read_good sb d st : rs_good sb d -> rs_good sb (snd (readM d st)).
Proof.
  intros G. unfold dot_read.
  destruct (ds_state st =? c10d_STATE_OPENED); [exact G|].
  destruct (ds_state st =? c10d_STATE_DOT); [exact G|].
  destruct (ds_state st =? c10d_STATE_ENTRIES); [|exact G].
  pose proof (run1_good sb (readdir_step (ds_cursor st)) d (nc_readdir_step _) G) as H.
  destruct (run1M (readdir_step (ds_cursor st)) (dr_rs d)) as [v rs']. cbn [snd] in H.
  destruct v as [[[h n ref| |e] it']|]; exact H.
Qed.

Lemma find_good sb d st p : rs_good sb d -> rs_good sb (snd (findM d st p)).
Proof.
  intros G. unfold dot_find.
  destruct ((ds_state st =? c10d_STATE_OPENED) && match_name name_dot p); [exact G|].
  destruct ((ds_state st =? c10d_STATE_OPENED) && match_name name_dotdot p); [exact G|].
  pose proof (run1_good sb (find_entry scan_fuel (ds_cursor st) p) d (nc_find_entry _ _ _) G) as H.
  destruct (run1M (find_entry scan_fuel (ds_cursor st) p) (dr_rs d)) as [v rs']. exact H.
Qed.

Lemma loop_good sb fuel : forall d path cur root, rs_good sb d -> rs_good sb (snd (loopM sb fuel d path cur root)).
Proof.
  induction fuel as [|f IH]; intros d path cur root O; cbn [dot_resolve_loop]; [exact O|].
  destruct (skip_slashes path) as [|c p]; [exact O|].
  destruct root as [r|].
  - destruct (openM sb (dr_t d) r 0) as [st|e| |]; try exact O.
    pose proof (find_good sb d st (c :: p) O) as O2.
    destruct (findM d st (c :: p)) as [vf d2]. cbn [snd] in O2.
    destruct vf as [[[rest ref]|e| |]|]; try exact O2. apply IH, O2.
  - pose proof (get_good sb d cur O) as O1.
    destruct (getM sb d cur) as [v d1]. cbn [snd] in O1.
    destruct v as [[i|e| |]|]; try exact O1.
    destruct (openM sb (dr_t d1) i 0) as [st|e| |]; try exact O1.
    pose proof (find_good sb d1 st (c :: p) O1) as O2.
    destruct (findM d1 st (c :: p)) as [vf d2]. cbn [snd] in O2.
    destruct vf as [[[rest ref]|e| |]|]; try exact O2. apply IH, O2.
Qed.

Lemma step_good sb d op : rs_good sb d -> rs_good sb (snd (stepM sb d op)).
Proof.
  intros O. destruct op as [ref|i flags|st|inum|root path]; cbn [dstep].
  - pose proof (get_good sb d ref O) as H. destruct (getM sb d ref). exact H.
  - exact O.
  - pose proof (read_good sb d st O) as H. destruct (readM d st) as [[v st'] d']. exact H.
  - exact O.
  - unfold dot_resolve_path.
    destruct (skip_slashes path) as [|c p].
    + destruct root; exact O.
    + pose proof (loop_good sb (S (length path)) d path (sb_root_ref sb) root O) as H.
      destruct (loopM sb (S (length path)) d path (sb_root_ref sb) root). exact H.
Qed.

Lemma run_good sb ops : forall d, rs_good sb d -> rs_good sb (snd (runM sb d ops)).
Proof.
  induction ops as [|op r IH]; intros d O; cbn [drun]; [exact O|].
  pose proof (step_good sb d op O) as O1.
  destruct (stepM sb d op) as [a d1]. cbn [snd] in O1.
  specialize (IH d1 O1). destruct (runM sb d1 r) as [l d2]. exact IH.
Qed.

Lemma create_good sb : rs_good sb (createM sb).
Proof.
  intro i. cbn [dot_create dr_rs].
  destruct i; (split; [apply create_wf, u64_wf|]); (split; [apply create_coherent|]); split; reflexivity.
Qed.

(* ---- the theorem, given the laws ---- *)

Lemma order_free_laws sb h1 h2 qs :
  let d1 := snd (runM sb (createM sb) h1) in
  let d2 := snd (runM sb (createM sb) h2) in
  same_set (dr_log d1) (dr_log d2) -> functional (dr_log d1) ->
  fst (runM sb d1 qs) = fst (runM sb d2 qs).
Proof.
  intros d1 d2 S F. apply run_rel.
  pose proof (run_ok sb h1 _ (create_ok sb)) as [I1 L1]. fold d1 in I1, L1.
  pose proof (run_ok sb h2 _ (create_ok sb)) as [I2 L2]. fold d2 in I2, L2.
  pose proof (run_good sb h1 _ (create_good sb)) as G1. fold d1 in G1.
  pose proof (run_good sb h2 _ (create_good sb)) as G2. fold d2 in G2.
  split; [eapply rs_inv_fam; eassumption|]. split; [exact I1|]. split; [exact I2|].
  intros k K. rewrite (L1 k K), (L2 k K). apply first_assoc_set; assumption.
Qed.

End Laws.

(* ================= under the contract of the rbtree ================= *)

Hypothesis RB : rbtree_contract t_empty t_lookup t_insert.

(* for every two histories of a DOT_ENTRIES reader that fetched the same set of directory
   inodes (any order, any repetitions, interleaved with any other calls, successful or
   not), every later sequence of calls gets the same answers *)
Theorem dcache_order_free_l sb h1 h2 qs :
  let d1 := snd (runM sb (createM sb) h1) in
  let d2 := snd (runM sb (createM sb) h2) in
  same_set (dr_log d1) (dr_log d2) -> functional (dr_log d1) ->
  fst (runM sb d1 qs) = fst (runM sb d2 qs).
Proof.
  destruct (RB key_compare key_compare_strict_total) as (inv & I0 & L0 & LI).
  exact (order_free_laws inv I0 L0 LI sb h1 h2 qs).
Qed.

(* an inode fetched through the reader resolves, after any further history, to the reference
   of its first fetch *)
Theorem dcache_lookup_after_insert_l sb h ref i ops :
  let d := snd (runM sb (createM sb) h) in
  fst (getM sb d ref) = Done (Ok i) -> is_dir_inode i = true ->
  let d1 := snd (getM sb d ref) in
  exists r, inumM (dr_t (snd (runM sb d1 ops))) (inum_of i) = Ok r /\
            In (inum_of i, r) (dr_log d1) /\
            (first_assoc (inum_of i) (dr_log d) = None -> r = ref).
Proof.
  destruct (RB key_compare key_compare_strict_total) as (inv & I0 & L0 & LI).
  intros d G Dr. apply (lookup_after_insert inv LI sb d ref i ops); try assumption.
  apply run_ok; [exact LI|]. apply create_ok; assumption.
Qed.

(* an answer once given never changes *)
Theorem dcache_answer_stable_l sb h ops k r :
  let d := snd (runM sb (createM sb) h) in
  inumM (dr_t d) k = Ok r -> inumM (dr_t (snd (runM sb d ops))) k = Ok r.
Proof.
  destruct (RB key_compare key_compare_strict_total) as (inv & I0 & L0 & LI).
  intros d H. apply (inum_stable inv LI sb d ops k r); [|exact H].
  apply run_ok; [exact LI|]. apply create_ok; assumption.
Qed.

End DotP.
