(* C10 — model of lib/sqfs/src/data_reader.c: the data-block cache
   (precache_data_block), the fragment-block cache (precache_fragment_block),
   sqfs_data_reader_read / get_block / get_fragment, the stream reader
   (dr_stream_get_buffered_data through sqfs_istream_read) and the loading of
   the fragment table (frag_table.c + read_table.c, as a client of the meta
   reader model).

   [fx = true] follows the code with props/C10/fixes/F03-data-reader-cache-key.patch
   (cache key = location AND size word); [fx = false] the code as found (location only).

   Inodes are arguments of the calls (the caller owns them): [finode] carries
   exactly the fields data_reader.c reads.  Block buffers are lists of exactly
   [max_size] bytes (alloc_array zero-fills).  u32/u64 wrap is written out where
   the C code can reach it with arbitrary inodes. *)
From Coq Require Import List NArith ZArith Bool.
From SqfsV Require Import Gen.Constants Base.Bytes C10.GenC10 C10.MetaModel C10.ClientModel.
Import ListNotations.
Local Open Scope N_scope.

Definition u32m : N := 4294967296.
Definition u64m : N := 18446744073709551616.

Definition on_disk (w : N) : N := w mod c10_blk_size_modulus.          (* SQFS_ON_DISK_BLOCK_SIZE *)
Definition is_compressed (w : N) : bool := (w / c10_blk_uncompressed_flag) mod 2 =? 0. (* SQFS_IS_BLOCK_COMPRESSED *)
Definition is_sparse (w : N) : bool := on_disk w =? 0.                 (* SQFS_IS_SPARSE_BLOCK *)
Definition zeros (n : N) : list N := repeat 0 (N.to_nat n).

Record finode := mkFinode {
  f_size : N;            (* file_size *)
  f_start : N;           (* blocks_start *)
  f_frag_idx : N;        (* fragment index *)
  f_frag_off : N;        (* fragment offset *)
  f_blocks : list N      (* extra[0 .. payload_bytes_used/4): block size words *)
}.

(* a cached block: buffer of block_size bytes and the number of valid bytes *)
Definition blockbuf := (list N * N)%type.

Record dr := mkDr {
  d_tbl : list (N * N);                     (* fragment table: (start_offset, size word) *)
  d_blk : option (N * N * blockbuf);        (* data_block != NULL: current_block, size word it was loaded with, buffer *)
  d_frag : option (N * blockbuf)            (* frag_block != NULL: current_frag_index, buffer *)
}.
Definition dr_create : dr := mkDr [] None None.
Definition set_blk (d : dr) (b : option (N * N * blockbuf)) : dr := mkDr (d_tbl d) b (d_frag d).
Definition set_frag (d : dr) (f : option (N * blockbuf)) : dr := mkDr (d_tbl d) (d_blk d) f.

(* the stream object (data_reader_istream_t): owned by the caller *)
Record stream := mkStream {
  s_filesz : N; s_disk_off : N; s_blocks : list N;   (* blocks[blk_idx ..] *)
  s_frag_idx : N; s_frag_off : N;
  s_buf : list N;        (* buffer[0 .. buf_used) *)
  s_buf_off : N
}.

Section Data.
Variable uncompress : list N -> N -> uresult.
Variable file : N -> N -> rd_res.
Variable fsize : N.
Variable bs : N.        (* block_size the reader was created with *)
Variable fx : bool.

(* static get_block(): unpack one block into a fresh zero-filled buffer of max_size bytes *)
Definition get_block (off w max_size : N) : out blockbuf :=
  if is_sparse w then Ok (zeros max_size, max_size)
  else
    let ods := on_disk w in
    if max_size <? ods then Err c_SQFS_ERROR_OVERFLOW
    else match file off ods with
      | RdErr e _ => Err e
      | RdOk raw =>
        if is_compressed w then
          match uncompress raw max_size with
          | UErr e => Err e
          | UOk o rest =>
            if len o =? 0 then Err c_SQFS_ERROR_OVERFLOW
            else if max_size <? len o then Crash
            else Ok (overwrite (o ++ rest) (zeros max_size), len o)
          end
        else Ok (overwrite raw (zeros max_size), ods)
      end.

Definition precache_data (d : dr) (loc w : N) : out unit * dr :=
  let hit := match d_blk d with
             | Some (l, w', _) => (l =? loc) && (if fx then w' =? w else true)
             | None => false
             end in
  if hit then (Ok tt, d)
  else match get_block loc w bs with
       | Ok b => (Ok tt, set_blk d (Some (loc, w, b)))
       | Err e => (Err e, set_blk d None)
       | Crash => (Crash, set_blk d None)
       | Fuel => (Fuel, set_blk d None)
       end.

Definition len_tbl (t : list (N * N)) : N := N.of_nat (length t).

Definition precache_frag (d : dr) (idx : N) : out unit * dr :=
  let hit := match d_frag d with Some (i, _) => i =? idx | None => false end in
  if hit then (Ok tt, d)
  else if len_tbl (d_tbl d) <=? idx then (Err c_SQFS_ERROR_OUT_OF_BOUNDS, d)   (* sqfs_frag_table_lookup *)
  else match nth_error (d_tbl d) (N.to_nat idx) with
       | None => (Err c_SQFS_ERROR_OUT_OF_BOUNDS, d)
       | Some (start, w) =>
         match get_block start w bs with
         | Ok b => (Ok tt, set_frag d (Some (idx, b)))
         | Err e => (Err e, set_frag d None)
         | Crash => (Crash, set_frag d None)
         | Fuel => (Fuel, set_frag d None)
         end
       end.

Definition blk_buf (d : dr) : list N := match d_blk d with Some (_, _, (b, _)) => b | None => [] end.
Definition frag_buf (d : dr) : blockbuf := match d_frag d with Some (_, b) => b | None => ([], 0) end.

(* ---- sqfs_data_reader_get_block ---- *)
Fixpoint block_pos (blocks : list N) (index : nat) (off filesz : N) : option (N * N * N) :=
  match blocks, index with
  | w :: _, O => Some (off, filesz, w)
  | w :: rest, S i => block_pos rest i ((off + on_disk w) mod u64m) ((filesz + u64m - bs mod u64m) mod u64m)
  | [], _ => None                                              (* index >= block count *)
  end.

Definition api_get_block (f : finode) (index : N) : out (list N) :=
  if len (f_blocks f) <=? index then Err c_SQFS_ERROR_OUT_OF_BOUNDS
  else match block_pos (f_blocks f) (N.to_nat index) (f_start f) (f_size f) with
       | None => Err c_SQFS_ERROR_OUT_OF_BOUNDS
       | Some (off, filesz, w) =>
         let unpacked := if filesz <? bs then filesz else bs in
         match get_block off w unpacked with
         | Ok (b, sz) => Ok (firstn (N.to_nat sz) b)
         | Err e => Err e | Crash => Crash | Fuel => Fuel
         end
       end.

(* ---- sqfs_data_reader_get_fragment ---- *)
Definition api_get_fragment (d : dr) (f : finode) : out (list N) * dr :=
  if f_size f <=? len (f_blocks f) * bs then (Ok [], d)
  else
    let frag_sz := f_size f mod bs in
    match precache_frag d (f_frag_idx f) with
    | (Ok _, d') =>
      (* (sqfs_u64)frag_off + frag_sz > data->frag_blk_size: the sum cannot wrap, and the bound is the
         number of valid bytes of the loaded fragment block (repo fix F13; before it the 32 bit sum was
         compared with block_size and could wrap: memcpy past the block) *)
      if snd (frag_buf d') <? f_frag_off f + frag_sz then (Err c_SQFS_ERROR_OUT_OF_BOUNDS, d')
      else (Ok (slice (fst (frag_buf d')) (f_frag_off f) frag_sz), d')
    | (Err e, d') => (Err e, d') | (Crash, d') => (Crash, d') | (Fuel, d') => (Fuel, d')
    end.

(* ---- sqfs_data_reader_read ---- *)
Fixpoint skip_blocks (blocks : list N) (off offset : N) : list N * N * N :=
  match blocks with
  | w :: rest =>
    if bs <? offset then skip_blocks rest ((off + on_disk w) mod u64m) (offset - bs)
    else (blocks, off, offset)
  | [] => ([], off, offset)
  end.

Fixpoint copy_blocks (d : dr) (blocks : list N) (off offset size : N) (acc : list N)
  : out (list N * N * N) * dr :=
  match blocks with
  | [] => (Ok (acc, offset, size), d)
  | w :: rest =>
    if size =? 0 then (Ok (acc, offset, size), d)
    else
      let diff := N.min (bs - offset) size in
      if is_sparse w then copy_blocks d rest off 0 (size - diff) (acc ++ zeros diff)
      else match precache_data d off w with
           | (Ok _, d') =>
             copy_blocks d' rest ((off + on_disk w) mod u64m) 0 (size - diff) (acc ++ slice (blk_buf d') offset diff)
           | (Err e, d') => (Err e, d') | (Crash, d') => (Crash, d') | (Fuel, d') => (Fuel, d')
           end
  end.

Definition api_read (d : dr) (f : finode) (offset size : N) : out (list N) * dr :=
  let size := if 2147483647 <=? size then 2147483646 else size in
  if f_size f <=? offset then (Ok [], d)
  else
    let size := if f_size f - offset <? size then f_size f - offset else size in
    if size =? 0 then (Ok [], d)
    else
      let '(blocks, off, offset) := skip_blocks (f_blocks f) (f_start f) offset in
      match copy_blocks d blocks off offset size [] with
      | (Ok (acc, offset, size), d1) =>
        if size =? 0 then (Ok acc, d1)
        else match precache_frag d1 (f_frag_idx f) with
             | (Ok _, d2) =>
               let '(fb, fsz) := frag_buf d2 in
               let p := f_frag_off f + offset in
               if fsz <=? p then (Err c_SQFS_ERROR_OUT_OF_BOUNDS, d2)
               else if fsz - p <? size then (Err c_SQFS_ERROR_OUT_OF_BOUNDS, d2)
               else (Ok (acc ++ slice fb p size), d2)
             | (Err e, d2) => (Err e, d2) | (Crash, d2) => (Crash, d2) | (Fuel, d2) => (Fuel, d2)
             end
      | (Err e, d1) => (Err e, d1) | (Crash, d1) => (Crash, d1) | (Fuel, d1) => (Fuel, d1)
      end.

(* ---- the stream reader ---- *)
Definition stream_create (f : finode) : stream :=
  mkStream (f_size f) (f_start f) (f_blocks f) (f_frag_idx f) (f_frag_off f) [] 0.

Definition dead_stream (s : stream) : stream :=
  mkStream 0 (s_disk_off s) (s_blocks s) (s_frag_idx s) (s_frag_off s) [] 0.

(* dr_stream_get_buffered_data when the buffer is exhausted: result = status (Ok true = data, Ok false = EOF) *)
Definition stream_refill (d : dr) (s : stream) : out bool * stream * dr :=
  if s_filesz s =? 0 then (Ok false, dead_stream s, d)
  else
    let used := if s_filesz s <? bs then s_filesz s else bs in
    let fin (buf : list N) (s' : stream) (d' : dr) :=
      (Ok true, mkStream (s_filesz s - used) (s_disk_off s') (s_blocks s') (s_frag_idx s) (s_frag_off s) buf 0, d') in
    match s_blocks s with
    | w :: rest =>
      let disksz := on_disk w in
      let s' := mkStream (s_filesz s) ((s_disk_off s + disksz) mod u64m) rest (s_frag_idx s) (s_frag_off s) [] 0 in
      if disksz =? 0 then fin (zeros used) s' d
      else if bs <? disksz then (Err c_SQFS_ERROR_OVERFLOW, dead_stream s, d)   (* disksz > block_size (repo fix F12; before it: read_at past scratch[]/buffer) *)
      else match file (s_disk_off s) disksz with
        | RdErr e _ => (Err e, dead_stream s, d)
        | RdOk raw =>
          if is_compressed w then
            match uncompress raw used with
            | UErr e => (Err e, dead_stream s, d)
            | UOk o _ =>       (* memset clears whatever is left behind ret *)
              if len o =? 0 then (Err c_SQFS_ERROR_OVERFLOW, dead_stream s, d)
              else if used <? len o then (Crash, dead_stream s, d)
              else fin (o ++ zeros (used - len o)) s' d
            end
          else fin (firstn (N.to_nat used) (raw ++ zeros (used - disksz))) s' d
        end
    | [] =>
      match precache_frag d (s_frag_idx s) with
      | (Ok _, d') =>
        let '(fb, fsz) := frag_buf d' in
        if (fsz <? s_frag_off s) || (fsz - s_frag_off s <? used) then (Err c_SQFS_ERROR_CORRUPTED, dead_stream s, d')
        else fin (slice fb (s_frag_off s) used) s d'
      (* "return ret" without the fail path: the harness never touches a stream again after an error *)
      | (Err e, d') => (Err e, dead_stream s, d')
      | (Crash, d') => (Crash, dead_stream s, d') | (Fuel, d') => (Fuel, dead_stream s, d')
      end
    end.

(* sqfs_istream_read(strm, buf, n): every pass either takes buffered bytes or refills *)
Fixpoint stream_read_loop (fuel : nat) (d : dr) (s : stream) (n : N) (acc : list N)
  : out (list N) * stream * dr :=
  match fuel with
  | O => (Fuel, s, d)
  | S fl =>
    if n =? 0 then (Ok acc, s, d)
    else if s_buf_off s <? len (s_buf s) then
      let avail := len (s_buf s) - s_buf_off s in
      let diff := N.min avail n in
      stream_read_loop fl d
        (mkStream (s_filesz s) (s_disk_off s) (s_blocks s) (s_frag_idx s) (s_frag_off s) (s_buf s) (s_buf_off s + diff))
        (n - diff) (acc ++ slice (s_buf s) (s_buf_off s) diff)
    else match stream_refill d s with
         | (Ok true, s', d') => stream_read_loop fl d' s' n acc
         | (Ok false, s', d') => (Ok acc, s', d')                  (* end of file: short count *)
         | (Err e, s', d') => (Err e, s', d')
         | (Crash, s', d') => (Crash, s', d') | (Fuel, s', d') => (Fuel, s', d')
         end
  end.

Definition stream_read (d : dr) (s : stream) (n : N) : out (list N) * stream * dr :=
  let n := if 2147483647 <? n then 2147483647 else n in
  stream_read_loop (S (S (2 * N.to_nat (n / (if bs =? 0 then 1 else bs) + 4)))) d s n [].

(* ---- loading the fragment table: frag_table.c sqfs_frag_table_read + read_table.c,
   a client of the meta reader that creates its own local reader ---- *)
Record ftargs := mkFtargs {
  ft_flags : N; ft_start : N; ft_count : N; ft_bytes_used : N;
  ft_dir_start : N; ft_id_start : N; ft_export_start : N
}.

Fixpoint rd64s (k : nat) (l : list N) : list N :=
  match k with O => [] | S k' => rd64 l :: rd64s k' (skipn 8 l) end.

Fixpoint table_blocks (locs : list N) (remaining : N) (acc : list N) : client (out (list N)) :=
  match locs with
  | [] => CRet (Ok acc)
  | start :: rest =>
    if remaining =? 0 then CRet (Ok acc)
    else
      let diff := N.min c_SQFS_META_BLOCK_SIZE remaining in
      c_seek 0%nat start 0 (c_read 0%nat diff (fun b => table_blocks rest (remaining - diff) (acc ++ b)))
  end.

(* sqfs_read_table *)
Definition read_table_client (table_size location lower upper : N) : client (out (list N)) :=
  let block_count := (table_size + c_SQFS_META_BLOCK_SIZE - 1) / c_SQFS_META_BLOCK_SIZE in
  match file location (8 * block_count) with
  | RdErr e _ => CRet (Err e)
  | RdOk lb =>
    CCreate 0%nat lower upper (table_blocks (rd64s (N.to_nat block_count) lb) table_size [])
  end.

Fixpoint frag_entries (k : nat) (l : list N) : list (N * N) :=
  match k with
  | O => []
  | S k' => (rd64 l, rd32 (skipn 8 l)) :: frag_entries k' (skipn (N.to_nat sizeof_sqfs_fragment_t) l)
  end.

Definition flag_set (flags bit : N) : bool := negb ((flags / bit) mod 2 =? 0).

(* result: status and the table the object holds afterwards *)
Definition frag_table_read (a : ftargs) : out unit * list (N * N) :=
  if flag_set (ft_flags a) c_SQFS_FLAG_NO_FRAGMENTS then (Ok tt, [])
  else if ft_start a =? c10_meta_init_tag then (Ok tt, [])
  else if ft_count a =? 0 then (Ok tt, [])
  else if ft_bytes_used a <=? ft_start a then (Err c_SQFS_ERROR_OUT_OF_BOUNDS, [])
  else if ft_start a <? ft_dir_start a then (Err c_SQFS_ERROR_CORRUPTED, [])
  else if ft_id_start a <=? ft_start a then (Err c_SQFS_ERROR_CORRUPTED, [])
  else
    let upper := if ft_export_start a <? ft_id_start a then ft_export_start a else ft_id_start a in
    let size := ft_count a * sizeof_sqfs_fragment_t in
    match fst (run_client uncompress file fsize true
                 (read_table_client size (ft_start a) (ft_dir_start a) upper)
                 (fun _ => mr_create 0 0) nothing_positioned) with
    | Done (Ok raw) => (Ok tt, frag_entries (N.to_nat (ft_count a)) raw)
    | Done (Err e) => (Err e, [])
    | Done Crash => (Crash, []) | Done Fuel => (Fuel, [])
    | Unpositioned => (Crash, [])      (* unreachable: the client creates its reader first *)
    end.

(* sqfs_data_reader_load_fragment_table *)
Definition load_fragment_table (d : dr) (a : ftargs) : out unit * dr :=
  let '(r, t) := frag_table_read a in (r, mkDr t (d_blk d) None).

(* ---- histories ---- *)
Inductive dop :=
| DLoad (a : ftargs)
| DRead (f : finode) (offset size : N)
| DGetBlock (f : finode) (index : N)
| DGetFragment (f : finode)
| DStreamRead (s : stream) (n : N).       (* the stream object is an argument: the caller owns it *)

Inductive dresult :=
| RUnit (r : out unit)
| RBytes (r : out (list N))
| RStream (r : out (list N)) (s : stream).

Definition dstep (d : dr) (op : dop) : dresult * dr :=
  match op with
  | DLoad a => let '(r, d') := load_fragment_table d a in (RUnit r, d')
  | DRead f o n => let '(r, d') := api_read d f o n in (RBytes r, d')
  | DGetBlock f i => (RBytes (api_get_block f i), d)
  | DGetFragment f => let '(r, d') := api_get_fragment d f in (RBytes r, d')
  | DStreamRead s n => let '(r, s', d') := stream_read d s n in (RStream r s', d')
  end.

Fixpoint drun (d : dr) (ops : list dop) : list dresult * dr :=
  match ops with
  | [] => ([], d)
  | op :: rest =>
    let '(r, d') := dstep d op in
    let '(rs, d'') := drun d' rest in (r :: rs, d'')
  end.

(* the stateless specification: the same call on a reader with empty caches that
   holds the fragment table of the last load *)
Definition dspec (tbl : list (N * N)) (op : dop) : dresult := fst (dstep (mkDr tbl None None) op).

End Data.
