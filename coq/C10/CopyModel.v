(* C10 — sqfs_copy() of a meta reader as an operation of the history model.

   lib/sqfs/src/meta_reader.c, meta_reader_copy:
       copy = malloc(sizeof copy[0]);  memcpy(copy, m, sizeof m[0]);
       copy->cmp = sqfs_grab(copy->cmp);  copy->file = sqfs_grab(copy->file);
   i.e. every field of the object (start, limit, data_used, block_offset, next_block,
   offset, data[], scratch[]) is duplicated byte for byte into a new allocation; the file
   and the compressor are NOT duplicated: both objects hold a counted reference to the
   same sqfs_file_t / sqfs_compressor_t.  In the model the file and the decompressor are
   the functions [file] / [uncompress] shared by all objects of the family (they have no
   state in the model; a compressor object with state of its own is outside, as in
   MetaModel.v), and [mr_copy] duplicates the record field by field.

   A FAMILY of reader objects over one file: state = the list of the objects' states
   (object i = element i; objects are never destroyed, sqfs_destroy only frees);
   operations = [FOp i op] (the MetaModel step [op] on object i) and [FCopy i]
   (sqfs_copy(object i): a new object is appended).  malloc failure (copy == NULL) is not
   an answer of the reader and is not modelled.

   Definitions only; proofs are in CopyProofs.v. *)
From Coq Require Import List NArith ZArith Bool.
From SqfsV Require Import Gen.Constants Base.Bytes C10.GenC10 C10.MetaModel.
Import ListNotations.
Local Open Scope N_scope.

(* memcpy(copy, m, sizeof m[0]): field by field *)
Definition mr_copy (m : mr) : mr :=
  mkMr (m_start m) (m_limit m) (m_used m) (m_tag m) (m_next m) (m_off m) (m_data m).

Fixpoint upd {A : Type} (i : nat) (x : A) (l : list A) : list A :=
  match l, i with
  | [], _ => []
  | _ :: t, O => x :: t
  | h :: t, S k => h :: upd k x t
  end.

Inductive fop := FOp (i : nat) (op : mop) | FCopy (i : nat).
Inductive fresult :=
| FAns (r : mresult)      (* the answer of the underlying call *)
| FCopied (j : nat)       (* the new object is object j *)
| FBad.                   (* no object i (not a call a program can make) *)

Section Family.
Variable uncompress : list N -> N -> uresult.
Variable file : N -> N -> rd_res.
Variable fsize : N.
Variable fx : bool.

Definition fstep (fam : list mr) (o : fop) : fresult * list mr :=
  match o with
  | FOp i op =>
    match nth_error fam i with
    | Some m => let '(r, m') := step uncompress file fsize fx m op in (FAns r, upd i m' fam)
    | None => (FBad, fam)
    end
  | FCopy i =>
    match nth_error fam i with
    | Some m => (FCopied (length fam), fam ++ [mr_copy m])
    | None => (FBad, fam)
    end
  end.

Fixpoint frun (fam : list mr) (ops : list fop) : list fresult * list mr :=
  match ops with
  | [] => ([], fam)
  | o :: rest =>
    let '(r, fam') := fstep fam o in
    let '(rs, fam'') := frun fam' rest in (r :: rs, fam'')
  end.

(* the operation is aimed at object j *)
Definition touches (j : nat) (o : fop) : bool :=
  match o with FOp i _ => Nat.eqb i j | FCopy _ => false end.

End Family.
