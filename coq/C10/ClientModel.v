(* C10 — clients of the meta reader as interaction trees.

   Everything in libsquashfs that reads metadata (read_inode.c, readdir.c,
   dir_reader.c, xattr_reader.c, read_table.c) touches a sqfs_meta_reader_t only
   through create / seek / read / get_position.  A [client R] is an arbitrary
   deterministic program over that interface (over any number of reader objects,
   addressed by index) computing an R; its control flow may depend on everything
   it has read so far.  The history-freedom theorem (ClientProofs.v) is proved
   once for all clients; the concrete clients (InodeModel.v, ...) are instances. *)
From Coq Require Import List NArith ZArith Bool.
From SqfsV Require Import Gen.Constants Base.Bytes C10.GenC10 C10.MetaModel.
Import ListNotations.
Local Open Scope N_scope.

Inductive client (R : Type) : Type :=
| CRet (r : R)
| CCreate (rid : nat) (start limit : N) (k : client R)      (* sqfs_meta_reader_create (local reader) *)
| CSeek (rid : nat) (b o : N) (k : out unit -> client R)
| CRead (rid : nat) (n : N) (k : out (list N) -> client R)
| CPos (rid : nat) (k : N * N -> client R).
Arguments CRet {R} _.
Arguments CCreate {R} _ _ _ _.
Arguments CSeek {R} _ _ _ _.
Arguments CRead {R} _ _ _.
Arguments CPos {R} _ _.

Definition readers := nat -> mr.
Definition upd {A} (f : nat -> A) (i : nat) (v : A) : nat -> A :=
  fun j => if Nat.eqb j i then v else f j.

(* A client that reads from (or asks the position of) a reader object before it
   has positioned it itself (successful seek, or creation) is asking for the
   left-over cursor of whoever used the object before: that is the one thing a
   reader legitimately remembers, and no libsquashfs function does it.  The
   semantics makes it a distinguished outcome instead of a value. *)
Inductive verdict (R : Type) : Type := Done (r : R) | Unpositioned.
Arguments Done {R} _.
Arguments Unpositioned {R}.

Section Client.
Variable uncompress : list N -> N -> uresult.
Variable file : N -> N -> rd_res.
Variable fsize : N.
Variable fx : bool.

Definition u64 (n : N) : N := n mod (c10_meta_init_tag + 1).   (* passing a value as sqfs_u64 *)

Fixpoint run_client {R} (c : client R) (rs : readers) (det : nat -> bool) : verdict R * readers :=
  match c with
  | CRet r => (Done r, rs)
  | CCreate i s l k => run_client k (upd rs i (mr_create s (u64 l))) (upd det i true)
  | CSeek i b o k =>
    let '(r, m') := seek uncompress file fx (rs i) b o in
    run_client (k r) (upd rs i m') (if is_ok r then upd det i true else det)
  | CRead i n k =>
    if det i then
      let '(r, m') := read uncompress file fsize fx (rs i) n in
      run_client (k r) (upd rs i m') det
    else (Unpositioned, rs)
  | CPos i k =>
    if det i then run_client (k (get_position (rs i))) rs det
    else (Unpositioned, rs)
  end.

Definition nothing_positioned : nat -> bool := fun _ => false.

End Client.

(* sequencing helpers for writing clients *)
Fixpoint cbind {A B} (c : client A) (f : A -> client B) : client B :=
  match c with
  | CRet a => f a
  | CCreate i s l k => CCreate i s l (cbind k f)
  | CSeek i b o k => CSeek i b o (fun r => cbind (k r) f)
  | CRead i n k => CRead i n (fun r => cbind (k r) f)
  | CPos i k => CPos i (fun p => cbind (k p) f)
  end.

(* read n bytes or give up with the error *)
Definition c_read {R} (i : nat) (n : N) (k : list N -> client (out R)) : client (out R) :=
  CRead i n (fun r => match r with
                      | Ok b => k b
                      | Err e => CRet (Err e)
                      | Crash => CRet Crash
                      | Fuel => CRet Fuel
                      end).
Definition c_seek {R} (i : nat) (b o : N) (k : client (out R)) : client (out R) :=
  CSeek i b o (fun r => match r with
                        | Ok _ => k
                        | Err e => CRet (Err e)
                        | Crash => CRet Crash
                        | Fuel => CRet Fuel
                        end).
