(* C10 — the two block caches of lib/sqfs/src/data_reader.c with the KEY as a parameter.

   A block descriptor is what get_block() needs: (location, size word) for a data
   block; for a fragment block the table entry (start, size word) behind an index.
   precache_data_block compares (current_block, current_block_word) with the requested
   descriptor; precache_fragment_block compares current_frag_index with the requested
   index (the table is fixed between two loads, and a load drops the cached block).

   [precache_data_k kl kw] keeps [kl location] and [kw word] of the descriptor in the key,
   [precache_frag_k kf] keys the fragment cache by [kf table index].  With the identity
   projections they are DataModel.precache_data (fx = true) and DataModel.precache_frag;
   with [kw = on_disk] the key has lost the "stored uncompressed" flag (seed C10-10), with
   [kw = fun _ => 0] the whole size word (the code before fix F03), with
   [kf = start of the entry] the fragment cache is keyed by the block start. *)
From Coq Require Import List NArith ZArith Bool.
From SqfsV Require Import Gen.Constants Base.Bytes C10.GenC10 C10.MetaModel C10.ClientModel C10.DataModel.
Import ListNotations.
Local Open Scope N_scope.

Section Key.
Variable uncompress : list N -> N -> uresult.
Variable file : N -> N -> rd_res.
Variable bs : N.

Definition precache_data_k (kl kw : N -> N) (d : dr) (loc w : N) : out unit * dr :=
  let hit := match d_blk d with
             | Some (l, w', _) => (kl l =? kl loc) && (kw w' =? kw w)
             | None => false
             end in
  if hit then (Ok tt, d)
  else match get_block uncompress file loc w bs with
       | Ok b => (Ok tt, set_blk d (Some (loc, w, b)))
       | Err e => (Err e, set_blk d None)
       | Crash => (Crash, set_blk d None)
       | Fuel => (Fuel, set_blk d None)
       end.

Definition precache_frag_k (kf : list (N * N) -> N -> N) (d : dr) (idx : N) : out unit * dr :=
  let hit := match d_frag d with Some (i, _) => kf (d_tbl d) i =? kf (d_tbl d) idx | None => false end in
  if hit then (Ok tt, d)
  else if len_tbl (d_tbl d) <=? idx then (Err c_SQFS_ERROR_OUT_OF_BOUNDS, d)
  else match nth_error (d_tbl d) (N.to_nat idx) with
       | None => (Err c_SQFS_ERROR_OUT_OF_BOUNDS, d)
       | Some (start, w) =>
         match get_block uncompress file start w bs with
         | Ok b => (Ok tt, set_frag d (Some (idx, b)))
         | Err e => (Err e, set_frag d None)
         | Crash => (Crash, set_frag d None)
         | Fuel => (Fuel, set_frag d None)
         end
       end.
End Key.

Definition key_id (x : N) : N := x.
Definition key_none (_ : N) : N := 0.
Definition fkey_index (_ : list (N * N)) (i : N) : N := i.
Definition fkey_start (t : list (N * N)) (i : N) : N := fst (nth (N.to_nat i) t (0, 0)).
Definition fkey_start_size (t : list (N * N)) (i : N) : N :=
  let e := nth (N.to_nat i) t (0, 0) in fst e * c10_blk_size_modulus + on_disk (snd e).
