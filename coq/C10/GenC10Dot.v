(* GENERATED from /repo sources by props/C10/gen_c10dot.c -- do not edit *)
From Coq Require Import NArith.
Local Open Scope N_scope.
Definition c10d_DIR_READER_DOT_ENTRIES : N := 1.
Definition c10d_DIR_READER_ALL_FLAGS : N := 1.
Definition c10d_DIR_OPEN_NO_DOT_ENTRIES : N := 1.
Definition c10d_DIR_OPEN_ALL_FLAGS : N := 1.
Definition c10d_STATE_NONE : N := 0.
Definition c10d_STATE_OPENED : N := 1.
Definition c10d_STATE_DOT : N := 2.
Definition c10d_STATE_ENTRIES : N := 3.
Definition c10d_inum_bytes : N := 4.
Definition c10d_ref_bytes : N := 8.
Definition c10d_dummy_type : N := 1.
Definition c10d_dot_size : N := 0.
Definition c10d_dotdot_size : N := 1.
Definition c10d_dummy_offset : N := 0.
Definition c10d_dummy_diff : N := 0.
Definition c10d_dot_char : N := 46.
Definition c10d_dotdot_chars_same : N := 1.
