(* C10 — the API clients never read from a reader object they have not positioned
   themselves; with [client_history_free] this makes each of them history free in
   the plain sense (a value, never the verdict [Unpositioned]). *)
From Coq Require Import List NArith ZArith Bool Lia PeanoNat.
From SqfsV Require Import Gen.Constants Base.Bytes C10.GenC10 C10.MetaModel C10.MetaProofs
     C10.ClientModel C10.ClientProofs C10.DataModel C10.ApiModel.
Import ListNotations.
Local Open Scope N_scope.

(* static discipline: under the set [det] of readers positioned so far, the client
   only reads readers in the set; a successful seek or a creation adds to it *)
Fixpoint safe {R} (det : nat -> bool) (c : client R) : Prop :=
  match c with
  | CRet _ => True
  | CCreate i _ _ k => safe (upd det i true) k
  | CSeek i _ _ k => forall r, safe (if is_ok r then upd det i true else det) (k r)
  | CRead i _ k => det i = true /\ forall r, safe det (k r)
  | CPos i k => det i = true /\ forall p, safe det (k p)
  end.

Definition le_det (d d' : nat -> bool) : Prop := forall i, d i = true -> d' i = true.

Lemma le_det_refl d : le_det d d.
Proof. intros i H; exact H. Qed.

Lemma le_det_upd d d' i : le_det d d' -> le_det (upd d i true) (upd d' i true).
Proof. intros H j. unfold upd. destruct (Nat.eqb j i); [auto|apply H]. Qed.

Lemma le_det_upd_r d i : le_det d (upd d i true).
Proof. intros j H. unfold upd. destruct (Nat.eqb j i); [reflexivity|exact H]. Qed.

Lemma le_det_trans a b c : le_det a b -> le_det b c -> le_det a c.
Proof. intros H1 H2 i H. apply H2, H1, H. Qed.

Lemma safe_mono {R} (c : client R) : forall d d', le_det d d' -> safe d c -> safe d' c.
Proof.
  induction c as [r|i s l k IH|i b o k IH|i n k IH|i k IH]; intros d d' L S; cbn in *.
  - exact I.
  - eapply IH; [|exact S]. apply le_det_upd; exact L.
  - intro r. specialize (S r). destruct (is_ok r).
    + eapply IH; [|exact S]. apply le_det_upd; exact L.
    + eapply IH; [|exact S]. exact L.
  - destruct S as [D S]. split; [apply L; exact D|]. intro r. eapply IH; [exact L|apply S].
  - destruct S as [D S]. split; [apply L; exact D|]. intro p. eapply IH; [exact L|apply S].
Qed.

Lemma safe_cbind {A B} (c : client A) (f : A -> client B) : forall d,
  safe d c -> (forall a d', le_det d d' -> safe d' (f a)) -> safe d (cbind c f).
Proof.
  induction c as [r|i s l k IH|i b o k IH|i n k IH|i k IH]; intros d S F; cbn in *.
  - apply F. apply le_det_refl.
  - apply IH; [exact S|]. intros a d' L. apply F. eapply le_det_trans; [apply le_det_upd_r|exact L].
  - intro r. specialize (S r). apply IH; [exact S|].
    intros a d' L. apply F. destruct (is_ok r); [eapply le_det_trans; [apply le_det_upd_r|exact L]|exact L].
  - destruct S as [D S]. split; [exact D|]. intro r. apply IH; [apply S|exact F].
  - destruct S as [D S]. split; [exact D|]. intro p. apply IH; [apply S|exact F].
Qed.

Section Run.
Variable uncompress : list N -> N -> uresult.
Variable file : N -> N -> rd_res.
Variable fsize : N.
Variable fx : bool.

Lemma safe_run {R} (c : client R) : forall rs det,
  safe det c -> fst (run_client uncompress file fsize fx c rs det) <> Unpositioned.
Proof.
  induction c as [r|i s l k IH|i b o k IH|i n k IH|i k IH]; intros rs det S; cbn [run_client] in *.
  - cbn. discriminate.
  - apply IH. exact S.
  - destruct (seek uncompress file fx (rs i) b o) as [r m']. apply IH. apply S.
  - destruct S as [D S]. rewrite D.
    destruct (read uncompress file fsize fx (rs i) n) as [r m']. apply IH. apply S.
  - destruct S as [D S]. rewrite D. apply IH. apply S.
Qed.
End Run.

(* ---------------- helpers ---------------- *)

Lemma safe_c_read {R} d i n (k : list N -> client (out R)) :
  d i = true -> (forall b, safe d (k b)) -> safe d (c_read i n k).
Proof. intros D K. cbn. split; [exact D|]. intros [b|e| |]; cbn; auto. Qed.

Lemma safe_c_seek {R} d i b o (k : client (out R)) :
  safe (upd d i true) k -> safe d (c_seek i b o k).
Proof. intros K. cbn. intros [u|e| |]; cbn; auto. Qed.

Lemma upd_same {A} (d : nat -> A) i v : upd d i v i = v.
Proof. unfold upd. rewrite Nat.eqb_refl. reflexivity. Qed.

Ltac posd := first [reflexivity | apply upd_same | assumption].

(* ---------------- inodes ---------------- *)

Lemma safe_dir_index count : forall d acc k,
  d R_INODE = true -> (forall p, safe d (k p)) -> safe d (dir_index count acc k).
Proof.
  induction count as [|c IH]; intros d acc k D K; cbn [dir_index].
  - apply K.
  - apply safe_c_read; [exact D|]. intro ent. apply safe_c_read; [exact D|]. intro name.
    apply IH; assumption.
Qed.

Lemma safe_inode_client sb ref d : safe d (inode_client sb ref).
Proof.
  unfold inode_client. apply safe_c_seek.
  set (d1 := upd d R_INODE true).
  assert (D : d1 R_INODE = true) by apply upd_same.
  apply safe_c_read; [exact D|]. intro b.
  destruct (mode_bits (fld b 0 2)); [|exact I].
  repeat match goal with
         | |- safe _ (if ?c then _ else _) => destruct c
         | |- safe _ (c_read _ _ _) => apply safe_c_read; [exact D|intro]
         | |- safe _ (dir_index _ _ _) => apply safe_dir_index; [exact D|intro]
         | |- safe _ (CRet _) => exact I
         end.
Qed.

(* ---------------- directories ---------------- *)

Ltac safe_step :=
  match goal with
  | |- True => exact I
  | |- safe _ (CRet _) => exact I
  | |- safe _ (if ?c then _ else _) => destruct c
  | |- safe _ (match ?r with _ => _ end) => destruct r
  | |- safe _ (CSeek _ _ _ _) => cbn [safe]; intro
  | |- safe _ (CRead _ _ _) => cbn [safe]; split; [posd|intro]
  | |- safe _ (CPos _ _) => cbn [safe]; split; [posd|intro]
  | |- safe _ (c_read _ _ _) => apply safe_c_read; [posd|intro]
  | |- safe _ (c_seek _ _ _ _) => apply safe_c_seek
  end.

Lemma safe_readdir_ent it d : safe d (readdir_ent it).
Proof. unfold readdir_ent. repeat safe_step. Qed.

Lemma safe_readdir_step it d : safe d (readdir_step it).
Proof.
  unfold readdir_step.
  repeat first [apply safe_readdir_ent | safe_step].
Qed.

Lemma safe_readdir_many count : forall it acc d, safe d (readdir_many count it acc).
Proof.
  induction count as [|c IH]; intros it acc d; cbn [readdir_many]; [exact I|].
  apply safe_cbind; [apply safe_readdir_step|].
  intros [r it'] d' _. destruct r; [apply IH|exact I|exact I].
Qed.

Lemma safe_open_dir_client sb ref d : safe d (open_dir_client sb ref).
Proof.
  unfold open_dir_client. apply safe_cbind; [apply safe_inode_client|].
  intros [i|e| |] d' _; exact I.
Qed.

Lemma safe_find_entry fuel : forall it path d, safe d (find_entry fuel it path).
Proof.
  induction fuel as [|f IH]; intros it path d; cbn [find_entry]; [exact I|].
  apply safe_cbind; [apply safe_readdir_step|].
  intros [r it'] d' _. destruct r as [h name ref| |e].
  - destruct (strncmp_eq name path (length name)); [|apply IH].
    destruct (Nat.ltb (length path) (length name)); [exact I|].
    destruct ((nth (length name) path 0 =? 47) || (nth (length name) path 0 =? 0)); [exact I|apply IH].
  - exact I.
  - destruct e; exact I.
Qed.

Lemma safe_resolve_loop sb fuel : forall path cur d, safe d (resolve_loop sb fuel path cur).
Proof.
  induction fuel as [|f IH]; intros path cur d; cbn [resolve_loop]; [exact I|].
  destruct (skip_slashes path) as [|c p]; [exact I|].
  apply safe_cbind; [apply safe_open_dir_client|].
  intros [ri rs] d' _. destruct rs as [it|e| |]; try exact I.
  apply safe_cbind; [apply safe_find_entry|].
  intros [[rest ref]|e| |] d'' _; try exact I. apply IH.
Qed.

Lemma safe_resolve_path_client sb path d : safe d (resolve_path_client sb path).
Proof. apply safe_resolve_loop. Qed.

(* ---------------- xattrs ---------------- *)

Lemma safe_xattr_desc_client xr idx d : safe d (xattr_desc_client xr idx).
Proof.
  unfold xattr_desc_client.
  destruct (idx =? no_frag); [exact I|].
  destruct (negb (xr_has_table xr)); [exact I|].
  destruct (xr_num_ids xr <=? idx); [exact I|].
  apply safe_c_seek. apply safe_c_read; [posd|]. intro b. exact I.
Qed.

Lemma safe_xattr_key_client {R} d (k : N -> list N -> client (out R)) :
  d R_XKV = true -> (forall t key, safe d (k t key)) -> safe d (xattr_key_client k).
Proof.
  intros D K. unfold xattr_key_client. apply safe_c_read; [exact D|]. intro h.
  destruct (xattr_prefix (fld h 0 2)); [|exact I].
  apply safe_c_read; [exact D|]. intro key. apply K.
Qed.

Lemma safe_xattr_value_client {R} xr t d (k : list N -> client (out R)) :
  d R_XKV = true -> (forall v d', le_det d d' -> safe d' (k v)) -> safe d (xattr_value_client xr t k).
Proof.
  intros D K. unfold xattr_value_client. apply safe_c_read; [exact D|]. intro v.
  destruct (is_ool t).
  - apply safe_c_read; [exact D|]. intro rb.
    destruct ((xr_end xr <=? (xr_start xr + fld rb 0 8 / 65536) mod u64m) ||
              (c_SQFS_META_BLOCK_SIZE <=? fld rb 0 8 mod 65536)); [exact I|].
    cbn [safe]. split; [exact D|]. intro saved.
    apply safe_c_seek. apply safe_c_read; [posd|]. intro v2.
    apply safe_c_read; [posd|]. intro value.
    apply safe_c_seek. apply K.
    eapply le_det_trans; [apply le_det_upd_r|apply le_det_upd_r].
  - apply safe_c_read; [exact D|]. intro value. apply K. apply le_det_refl.
Qed.

Lemma safe_xattr_pairs {R} xr fuel : forall count acc d (k : list (list N * list N) -> client (out R)),
  d R_XKV = true -> (forall l d', le_det d d' -> safe d' (k l)) -> safe d (xattr_pairs xr fuel count acc k).
Proof.
  induction fuel as [|f IH]; intros count acc d k D K; cbn [xattr_pairs]; [exact I|].
  destruct (count =? 0); [apply K; apply le_det_refl|].
  apply safe_xattr_key_client; [exact D|]. intros t key.
  apply safe_xattr_value_client; [exact D|]. intros v d' L.
  apply IH; [apply L; exact D|]. intros l d'' L2. apply K. eapply le_det_trans; eassumption.
Qed.

Lemma safe_xattr_all_client xr idx d : safe d (xattr_all_client xr idx).
Proof.
  unfold xattr_all_client. destruct (idx =? no_frag); [exact I|].
  apply safe_cbind; [apply safe_xattr_desc_client|].
  intros [[[x count] sz]|e| |] d' _; try exact I.
  apply safe_c_seek. apply safe_xattr_pairs; [posd|]. intros l d'' _. exact I.
Qed.

Lemma safe_xattr_partial_loop xr fuel : forall i k count acc d,
  d R_XKV = true -> safe d (xattr_partial_loop xr fuel i k count acc).
Proof.
  induction fuel as [|f IH]; intros i k count acc d D; cbn [xattr_partial_loop]; [exact I|].
  destruct ((k <=? i) || (count <=? i)); [exact I|].
  apply safe_cbind.
  - apply safe_xattr_key_client; [exact D|]. intros t key. exact I.
  - intros [[t key]|e| |] d' L; try exact I.
    destruct ((i + 1 =? k) && N.odd k); [exact I|].
    apply safe_cbind.
    + apply safe_xattr_value_client; [apply L; exact D|]. intros v d'' _. exact I.
    + intros [v|e| |] d'' L2; try exact I. apply IH. apply L2, L, D.
Qed.

(* ---------------- tables ---------------- *)

Lemma safe_table_blocks locs : forall remaining acc d,
  safe d (table_blocks locs remaining acc).
Proof.
  induction locs as [|start rest IH]; intros remaining acc d; cbn [table_blocks]; [exact I|].
  destruct (remaining =? 0); [exact I|].
  apply safe_c_seek. apply safe_c_read; [posd|]. intro b. apply IH.
Qed.

Section Tables.
Variable file : N -> N -> rd_res.
Lemma safe_read_table_client size location lower upper d :
  safe d (read_table_client file size location lower upper).
Proof.
  unfold read_table_client. destruct (file location (8 * ((size + c_SQFS_META_BLOCK_SIZE - 1) / c_SQFS_META_BLOCK_SIZE))); [|exact I].
  cbn [safe]. apply safe_table_blocks.
Qed.
End Tables.

(* ---------------- the packaged statement ---------------- *)

Section Api.
Variable uncompress : list N -> N -> uresult.
Variable file : N -> N -> rd_res.
Variable fsize : N.

(* a call on reader objects with arbitrary pasts = the call on fresh objects, and it is a value *)
Lemma api_history_free {R} (c : client R) (hist : nat -> N * N * list mop) :
  safe nothing_positioned c ->
  exists r : R,
    fst (run_client uncompress file fsize true c (after_history uncompress file fsize hist) nothing_positioned) = Done r /\
    fst (run_client uncompress file fsize true c (fresh_objects hist) nothing_positioned) = Done r.
Proof.
  intro S.
  pose proof (client_history_free_l uncompress file fsize R c hist) as E.
  pose proof (safe_run uncompress file fsize true c (fresh_objects hist) nothing_positioned S) as NU.
  destruct (fst (run_client uncompress file fsize true c (fresh_objects hist) nothing_positioned)) as [r|] eqn:F.
  - exists r. split; [exact E|reflexivity].
  - contradiction.
Qed.
End Api.
