(* C10 — the fine-grained API of lib/sqfs/src/xattr/xattr_reader.c, one public call per
   operation, on ONE long-lived reader object:

     sqfs_xattr_reader_load (again, on a reader that is already loaded), sqfs_xattr_reader_get_desc,
     sqfs_xattr_reader_seek_kv, sqfs_xattr_reader_read_key, sqfs_xattr_reader_read_value (incl.
     out-of-line values: position saved and restored), sqfs_xattr_reader_read,
     sqfs_xattr_reader_read_all, sqfs_copy (xattr_reader_copy).

   The reader owns two meta readers: [idrd] (descriptor blocks) and [kvrd] (key/value area).
   They are SEPARATE pieces of state here, reader objects R_XID and R_XKV of the family
   [xf_rs]: get_desc works on the first, everything else on the second.  Unlike the
   one-shot clients of ApiModel.v (run with nothing positioned), these calls CONTINUE from
   wherever the reader's cursors are: that is the documented meaning of read_key /
   read_value / read ("advances the internal position indicator").  So they are run with
   every reader marked as positioned ([all_det]) and the state is threaded from call to call.

   Definitions only; proofs in XFineProofs.v. *)
From Coq Require Import List NArith ZArith Bool.
From SqfsV Require Import Gen.Constants Base.Bytes C10.GenC10 C10.MetaModel C10.ClientModel C10.DataModel C10.ApiModel.
Import ListNotations.
Local Open Scope N_scope.

Record xstate := mkXs {
  xf_xr : xreader;      (* xattr_start, xattr_end, num_ids, id_block_starts; has_table = (idrd, kvrd != NULL) *)
  xf_rs : readers       (* R_XID = idrd, R_XKV = kvrd *)
}.

Inductive xop :=
| XGet (idx : N)               (* sqfs_xattr_reader_get_desc *)
| XSeek (x count : N)          (* sqfs_xattr_reader_seek_kv with a descriptor {xattr = x, count} *)
| XKey                         (* sqfs_xattr_reader_read_key *)
| XVal (t : N)                 (* sqfs_xattr_reader_read_value with a key whose type word is t *)
| XPair                        (* sqfs_xattr_reader_read *)
| XAll (idx : N)               (* sqfs_xattr_reader_read_all *)
| XLoad                        (* sqfs_xattr_reader_load with the same super block, file and compressor *)
| XCopy.                       (* sqfs_copy; the history continues on the copy *)

Inductive xans :=
| AGet (r : out (N * N * N))
| ASeek (r : out unit)
| AKey (r : out (N * list N))                  (* type word, prefix ++ key *)
| AVal (r : out (list N))
| APair (r : out (list N * list N))
| AAll (r : out (list (list N * list N)))
| ALoad (r : out unit)
| ACopy.

Definition all_det : nat -> bool := fun _ => true.

(* the value of a call; [Unpositioned] cannot happen under [all_det] (XFineProofs.runA_done) *)
Definition unv {R} (v : verdict (out R)) : out R :=
  match v with Done r => r | Unpositioned => Crash end.

(* sqfs_xattr_reader_seek_kv *)
Definition xseek_client (xr : xreader) (x count : N) : client (out unit) :=
  if negb (xr_has_table xr) then
    CRet (if count =? 0 then Ok tt else Err c_SQFS_ERROR_OUT_OF_BOUNDS)   (* kvrd == NULL *)
  else c_seek R_XKV ((xr_start xr + x / 65536) mod u64m) (x mod 65536) (CRet (Ok tt)).

(* read_key / read_value / read dereference kvrd: NULL without a table *)
Definition xkey_client (xr : xreader) : client (out (N * list N)) :=
  if negb (xr_has_table xr) then CRet Crash
  else xattr_key_client (fun t key => CRet (Ok (t, key))).

Definition xval_client (xr : xreader) (t : N) : client (out (list N)) :=
  if negb (xr_has_table xr) then CRet Crash
  else xattr_value_client xr t (fun v => CRet (Ok v)).

Definition xpair_client (xr : xreader) : client (out (list N * list N)) :=
  if negb (xr_has_table xr) then CRet Crash
  else xattr_key_client (fun t key => xattr_value_client xr t (fun v => CRet (Ok (key, v)))).

(* the calls that work on the key/value cursor only *)
Definition is_kv_op (o : xop) : bool :=
  match o with XSeek _ _ | XKey | XVal _ | XPair => true | _ => false end.
(* pure lookups: documented as not touching the position indicator *)
Definition is_lookup (o : xop) : bool :=
  match o with XGet _ | XCopy => true | _ => false end.
Definition cursor_ops (h : list xop) : list xop := filter (fun o => negb (is_lookup o)) h.

Section XFine.
Variable uncompress : list N -> N -> uresult.
Variable file : N -> N -> rd_res.
Variable fsize : N.
Variable sb : super.

Definition runA {R} (c : client R) (rs : readers) : verdict R * readers :=
  run_client uncompress file fsize true c rs all_det.

Definition xcall {R} (s : xstate) (c : client (out R)) : out R * xstate :=
  let '(v, rs') := runA c (xf_rs s) in (unv v, mkXs (xf_xr s) rs').

(* the two meta readers sqfs_xattr_reader_load creates *)
Definition xf_new_reader : mr := mr_create (sb_id_start sb) (u64 (sb_bytes_used sb)).

(* sqfs_xattr_reader_load on a reader object that may already be loaded: the two early
   "nothing to do" returns and the range check come BEFORE the old readers are dropped *)
Definition xf_load (s : xstate) : out unit * xstate :=
  if flag_set (sb_flags sb) c_SQFS_FLAG_NO_XATTRS then (Ok tt, s)
  else if sb_xattr_start sb =? c10_meta_init_tag then (Ok tt, s)
  else if sb_bytes_used sb <=? sb_xattr_start sb then (Err c_SQFS_ERROR_OUT_OF_BOUNDS, s)
  else match xattr_load file sb with
       | Ok xr => (Ok tt, mkXs xr (upd (upd (xf_rs s) R_XID xf_new_reader) R_XKV xf_new_reader))
       | Err e => (Err e, mkXs xr_none (xf_rs s))          (* idrd = kvrd = NULL *)
       | Crash => (Crash, mkXs xr_none (xf_rs s))
       | Fuel => (Fuel, mkXs xr_none (xf_rs s))
       end.

(* a reader object right after sqfs_xattr_reader_create + sqfs_xattr_reader_load *)
Definition xf_fresh (xr : xreader) : xstate := mkXs xr (fun _ => xf_new_reader).

Definition xf_step (s : xstate) (o : xop) : xans * xstate :=
  match o with
  | XGet idx => let '(r, s') := xcall s (xattr_desc_client (xf_xr s) idx) in (AGet r, s')
  | XSeek x count => let '(r, s') := xcall s (xseek_client (xf_xr s) x count) in (ASeek r, s')
  | XKey => let '(r, s') := xcall s (xkey_client (xf_xr s)) in (AKey r, s')
  | XVal t => let '(r, s') := xcall s (xval_client (xf_xr s) t) in (AVal r, s')
  | XPair => let '(r, s') := xcall s (xpair_client (xf_xr s)) in (APair r, s')
  | XAll idx => let '(r, s') := xcall s (xattr_all_client (xf_xr s) idx) in (AAll r, s')
  | XLoad => let '(r, s') := xf_load s in (ALoad r, s')
  | XCopy => (ACopy, s)      (* xattr_reader_copy / meta_reader_copy: memcpy of both meta readers *)
  end.

Fixpoint xf_run (h : list xop) (s : xstate) : list xans * xstate :=
  match h with
  | [] => ([], s)
  | o :: t => let '(a, s1) := xf_step s o in
              let '(l, s2) := xf_run t s1 in (a :: l, s2)
  end.

(* the answers to the calls that are not pure lookups, in order *)
Fixpoint cursor_answers (h : list xop) (l : list xans) : list xans :=
  match h, l with
  | o :: t, a :: r => if is_lookup o then cursor_answers t r else a :: cursor_answers t r
  | _, _ => []
  end.

End XFine.
