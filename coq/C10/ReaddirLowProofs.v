(* C10 — proofs about the low-level readdir API with a reused cursor object (model: ReaddirLowModel.v). *)
From Coq Require Import List NArith ZArith Bool.
From SqfsV Require Import Gen.Constants Base.Bytes C10.GenC10 C10.MetaModel C10.MetaProofs
     C10.ClientModel C10.ClientProofs C10.DataModel C10.ApiModel C10.ApiProofs C10.ReaddirLowModel.
Import ListNotations.
Local Open Scope N_scope.

(* the whole point of the memset: what the object held before is irrelevant — for the return value
   AND for every field of the object afterwards *)
Lemma readdir_init_ignores_old_state :
  forall (o1 o2 : rdstate) (sb : super) (i : inode),
  readdir_state_init o1 sb i = readdir_state_init o2 sb i.
Proof. intros o1 o2 sb i. reflexivity. Qed.

(* ... and it is the value the high-level API starts from *)
Lemma readdir_state_init_value :
  forall (old : rdstate) (sb : super) (i : inode),
  readdir_state_init old sb i =
  match readdir_init sb i with
  | Ok it => (Ok tt, it)
  | Err e => (Err e, mkRd 0 0 0 0 0 0)
  | Crash => (Crash, mkRd 0 0 0 0 0 0)
  | Fuel => (Fuel, mkRd 0 0 0 0 0 0)
  end.
Proof.
  intros old sb i. unfold readdir_state_init, readdir_init, rd_set_pos, rd_memset.
  destruct (i_type i =? c_SQFS_INODE_DIR); [reflexivity|].
  destruct (i_type i =? c_SQFS_INODE_EXT_DIR); reflexivity.
Qed.

Lemma forgetful_init_depends_on_old_state :
  exists o1 o2 sb i, readdir_state_init_forgetful o1 sb i <> readdir_state_init_forgetful o2 sb i.
Proof.
  exists (mkRd 0 0 0 0 0 0), (mkRd 0 0 0 0 3 0),
         (mkSuper 4096 0 0 1 0 77 77 0 0 54 0 0),
         (mkInode [c_SQFS_INODE_DIR; 0; 0; 0; 0; 2] [0; 2; 24; 0; 3] []).
  vm_compute. discriminate.
Qed.

Lemma safe_readdir_low_many count : forall it acc d, safe d (readdir_low_many count it acc).
Proof.
  induction count as [|c IH]; intros it acc d; cbn [readdir_low_many]; [exact I|].
  apply safe_cbind; [apply safe_readdir_step|].
  intros [r it'] d' _. destruct r; [apply IH|exact I|exact I].
Qed.

Lemma safe_low_scan old sb i count d : safe d (low_scan old sb i count).
Proof.
  unfold low_scan. destruct (readdir_state_init old sb i) as [[[]|e| |] it]; try exact I.
  apply safe_cbind; [apply safe_readdir_low_many|]. intros; exact I.
Qed.

Section Low.
Variable uncompress : list N -> N -> uresult.
Variable file : N -> N -> rd_res.
Variable fsize : N.

(* A scan through a cursor object that is re-initialised after ANY earlier use (old = whatever an
   abandoned scan, an earlier directory, or uninitialised memory left in it) on a meta reader with ANY
   past answers what a zeroed object on a newly created meta reader answers. *)
Lemma low_scan_reused_cursor_history_free :
  forall (old : rdstate) (sb : super) (i : inode) (count : nat) (hist : nat -> N * N * list mop),
  exists r,
    fst (run_client uncompress file fsize true (low_scan old sb i count)
           (after_history uncompress file fsize hist) nothing_positioned) = Done r /\
    fst (run_client uncompress file fsize true (low_scan (mkRd 0 0 0 0 0 0) sb i count)
           (fresh_objects hist) nothing_positioned) = Done r.
Proof.
  intros old sb i count hist.
  assert (E : low_scan old sb i count = low_scan (mkRd 0 0 0 0 0 0) sb i count).
  { unfold low_scan. rewrite (readdir_init_ignores_old_state old (mkRd 0 0 0 0 0 0)). reflexivity. }
  rewrite E. apply api_history_free. apply safe_low_scan.
Qed.
End Low.
