(* C10 — a cache hit returns what a fresh read of the requested descriptor returns,
   exactly when the key keeps the complete descriptor. *)
From Coq Require Import List NArith ZArith Bool Lia.
From SqfsV Require Import Gen.Constants Base.Bytes C10.GenC10 C10.MetaModel C10.ClientModel C10.DataModel
  C10.DataProofs C10.CacheKeyModel.
Import ListNotations.
Local Open Scope N_scope.

Section KeyP.
Variable uncompress : list N -> N -> uresult.
Variable file : N -> N -> rd_res.
Variable fsize : N.
Variable bs : N.

Notation getb := (get_block uncompress file).
Notation coh := (dcoherent uncompress file bs).
Notation flook := (frag_lookup uncompress file bs).

(* the parameterised caches with the complete key ARE the model of the code *)
Lemma precache_data_k_full d loc w :
  precache_data_k uncompress file bs key_id key_id d loc w = precache_data uncompress file bs true d loc w.
Proof. reflexivity. Qed.

Lemma precache_frag_k_index d idx :
  precache_frag_k uncompress file bs fkey_index d idx = precache_frag uncompress file bs d idx.
Proof. reflexivity. Qed.

(* data-block cache: any key that determines the descriptor *)
Lemma data_key_complete_l (kl kw : N -> N) :
  (forall a b, kl a = kl b -> a = b) -> (forall a b, kw a = kw b -> a = b) ->
  forall d loc w r d', coh d ->
  precache_data_k uncompress file bs kl kw d loc w = (r, d') ->
  r = to_unit (getb loc w bs) /\ coh d' /\ d_tbl d' = d_tbl d /\
  (forall b, getb loc w bs = Ok b -> blk_buf d' = fst b).
Proof.
  intros IL IW d loc w r d' C.
  assert (MISS : pdata_miss uncompress file bs d loc w = (r, d') ->
                 r = to_unit (getb loc w bs) /\ coh d' /\ d_tbl d' = d_tbl d /\
                 (forall b, getb loc w bs = Ok b -> blk_buf d' = fst b))
    by (apply pdata_miss_char; exact C).
  unfold precache_data_k. fold (pdata_miss uncompress file bs d loc w).
  destruct (d_blk d) as [[[l w'] b0]|] eqn:E; [|exact MISS].
  destruct (N.eqb_spec (kl l) (kl loc)) as [El|El]; cbn [andb]; [|exact MISS].
  destruct (N.eqb_spec (kw w') (kw w)) as [Ew|Ew]; [|exact MISS].
  apply IL in El. apply IW in Ew. subst l w'. destruct C as [CB CF]. pose proof (CB _ _ _ E) as G.
  intro H; inversion H; subst r d'; clear H.
  rewrite G. split; [reflexivity|]. split; [split; assumption|]. split; [reflexivity|].
  intros b Hb. inversion Hb; subst b. unfold blk_buf. rewrite E. destruct b0; reflexivity.
Qed.

(* fragment-block cache: any key that determines the index (the table is part of the reader state) *)
Lemma frag_key_complete_l (kf : list (N * N) -> N -> N) :
  (forall t a b, kf t a = kf t b -> a = b) ->
  forall d idx r d', coh d ->
  precache_frag_k uncompress file bs kf d idx = (r, d') ->
  r = to_unit (flook (d_tbl d) idx) /\ coh d' /\ d_tbl d' = d_tbl d /\
  (forall b, flook (d_tbl d) idx = Ok b -> frag_buf d' = b).
Proof.
  intros IF d idx r d' C.
  assert (MISS : pfrag_miss uncompress file bs d idx = (r, d') ->
                 r = to_unit (flook (d_tbl d) idx) /\ coh d' /\ d_tbl d' = d_tbl d /\
                 (forall b, flook (d_tbl d) idx = Ok b -> frag_buf d' = b))
    by (apply pfrag_miss_char; exact C).
  unfold precache_frag_k. fold (pfrag_miss uncompress file bs d idx).
  destruct (d_frag d) as [[i b0]|] eqn:E; [|exact MISS].
  destruct (N.eqb_spec (kf (d_tbl d) i) (kf (d_tbl d) idx)) as [Ei|Ei]; [|exact MISS].
  apply IF in Ei. subst i. destruct C as [CB CF]. pose proof (CF _ _ E) as G.
  intro H; inversion H; subst r d'; clear H.
  rewrite G. split; [reflexivity|]. split; [split; assumption|]. split; [reflexivity|].
  intros b Hb. inversion Hb; subst b. unfold frag_buf. rewrite E. reflexivity.
Qed.

(* the model of the code, after ANY history of calls from creation: asking the data-block cache for the
   descriptor (loc, w) answers with the status of a fresh get_block of that descriptor and leaves that
   block's bytes in the buffer; asking the fragment cache for index idx answers like a fresh table lookup
   + get_block of that entry *)
Lemma cache_key_complete_l (ops : list dop) (loc w idx : N) :
  let d := snd (drun uncompress file fsize bs true dr_create ops) in
  (fst (precache_data uncompress file bs true d loc w) = to_unit (getb loc w bs) /\
   forall b, getb loc w bs = Ok b -> blk_buf (snd (precache_data uncompress file bs true d loc w)) = fst b) /\
  (fst (precache_frag uncompress file bs d idx) = to_unit (flook (d_tbl d) idx) /\
   forall b, flook (d_tbl d) idx = Ok b -> frag_buf (snd (precache_frag uncompress file bs d idx)) = b).
Proof.
  intro d. pose proof (data_cache_coherent_l uncompress file fsize bs ops) as C. fold d in C.
  split.
  - destruct (precache_data uncompress file bs true d loc w) as [r d'] eqn:E.
    destruct (pdata_char uncompress file bs d loc w r d' C E) as (H1 & _ & _ & H2). split; assumption.
  - destruct (precache_frag uncompress file bs d idx) as [r d'] eqn:E.
    destruct (pfrag_char uncompress file bs d idx r d' C E) as (H1 & _ & _ & H2). split; assumption.
Qed.
End KeyP.

(* ---- keys that drop a part of the descriptor: witnesses ---- *)
Definition ck_codec : list N -> N -> uresult := fun _ _ => UErr 0%Z.
Definition ck_img : list N := [10; 11; 12; 13; 14; 15].
Definition ck_flag : N := c10_blk_uncompressed_flag.

(* key without the flag (SQFS_ON_DISK_BLOCK_SIZE of the word): 2 raw bytes at 0, then the same 2 bytes as a
   compressed block: the cache says "loaded", a fresh read reports the decompressor's error *)
Lemma key_without_flag_refuted_l :
  exists img bs loc w1 w2,
    let d1 := snd (precache_data_k ck_codec (read_at img) bs key_id on_disk dr_create loc w1) in
    dcoherent ck_codec (read_at img) bs d1 /\
    fst (precache_data_k ck_codec (read_at img) bs key_id on_disk d1 loc w2)
      <> to_unit (get_block ck_codec (read_at img) loc w2 bs).
Proof.
  exists ck_img, 4, 0, (ck_flag + 2), 2. cbv zeta. split.
  - split.
    + intros l w b H. vm_compute in H. inversion H; subst. vm_compute. reflexivity.
    + intros i b H. vm_compute in H. discriminate.
  - vm_compute. discriminate.
Qed.

(* key without the on-disk size (only location and flag): 2 raw bytes, then 4 raw bytes at the same place *)
Definition key_flag_only (w : N) : N := w / c10_blk_uncompressed_flag.
Lemma key_without_size_refuted_l :
  exists img bs loc w1 w2 b,
    let d1 := snd (precache_data_k ck_codec (read_at img) bs key_id key_flag_only dr_create loc w1) in
    get_block ck_codec (read_at img) loc w2 bs = Ok b /\
    blk_buf (snd (precache_data_k ck_codec (read_at img) bs key_id key_flag_only d1 loc w2)) <> fst b.
Proof.
  exists ck_img, 4, 0, (ck_flag + 2), (ck_flag + 4), ([10; 11; 12; 13], 4). cbv zeta. split.
  - vm_compute. reflexivity.
  - vm_compute. discriminate.
Qed.

(* key without the location (size word only) *)
Lemma key_without_location_refuted_l :
  exists img bs l1 l2 w b,
    let d1 := snd (precache_data_k ck_codec (read_at img) bs key_none key_id dr_create l1 w) in
    get_block ck_codec (read_at img) l2 w bs = Ok b /\
    blk_buf (snd (precache_data_k ck_codec (read_at img) bs key_none key_id d1 l2 w)) <> fst b.
Proof.
  exists ck_img, 4, 0, 2, (ck_flag + 4), ([12; 13; 14; 15], 4). cbv zeta. split.
  - vm_compute. reflexivity.
  - vm_compute. discriminate.
Qed.

(* fragment cache keyed by the start of the entry (or by start and on-disk size): two table entries share
   a start with different size words *)
Definition ck_tbl : list (N * N) := [(0, ck_flag + 2); (0, ck_flag + 4); (0, 2)].
Lemma frag_key_start_refuted_l :
  exists img bs tbl i j b,
    let d0 := mkDr tbl None None in
    let d1 := snd (precache_frag_k ck_codec (read_at img) bs fkey_start d0 i) in
    frag_lookup ck_codec (read_at img) bs tbl j = Ok b /\
    frag_buf (snd (precache_frag_k ck_codec (read_at img) bs fkey_start d1 j)) <> b.
Proof.
  exists ck_img, 4, ck_tbl, 0, 1, ([10; 11; 12; 13], 4). cbv zeta. split.
  - vm_compute. reflexivity.
  - vm_compute. discriminate.
Qed.

Lemma frag_key_start_size_refuted_l :
  exists img bs tbl i j,
    let d0 := mkDr tbl None None in
    let d1 := snd (precache_frag_k ck_codec (read_at img) bs fkey_start_size d0 i) in
    fst (precache_frag_k ck_codec (read_at img) bs fkey_start_size d1 j)
      <> to_unit (frag_lookup ck_codec (read_at img) bs tbl j).
Proof.
  exists ck_img, 4, ck_tbl, 0, 2. cbv zeta. vm_compute. discriminate.
Qed.

(* the complete keys on the same inputs *)
Example ex_key_complete_flag :
  let d1 := snd (precache_data_k ck_codec (read_at ck_img) 4 key_id key_id dr_create 0 (ck_flag + 2)) in
  fst (precache_data_k ck_codec (read_at ck_img) 4 key_id key_id d1 0 2) = Err 0%Z /\
  blk_buf (snd (precache_data_k ck_codec (read_at ck_img) 4 key_id key_id d1 0 (ck_flag + 4))) = [10; 11; 12; 13].
Proof. vm_compute. split; reflexivity. Qed.

Example ex_frag_key_complete :
  let d1 := snd (precache_frag_k ck_codec (read_at ck_img) 4 fkey_index (mkDr ck_tbl None None) 0) in
  frag_buf d1 = ([10; 11; 0; 0], 2) /\
  frag_buf (snd (precache_frag_k ck_codec (read_at ck_img) 4 fkey_index d1 1)) = ([10; 11; 12; 13], 4) /\
  fst (precache_frag_k ck_codec (read_at ck_img) 4 fkey_index d1 2) = Err 0%Z.
Proof. vm_compute. repeat split; reflexivity. Qed.

(* the hypotheses of data_key_complete_l / frag_key_complete_l are met by the keys of the code *)
Lemma key_id_injective : forall a b, key_id a = key_id b -> a = b.
Proof. intros a b H. exact H. Qed.
Lemma fkey_index_injective : forall (t : list (N * N)) a b, fkey_index t a = fkey_index t b -> a = b.
Proof. intros t a b H. exact H. Qed.
