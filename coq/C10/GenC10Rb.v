(* GENERATED from /repo sources by props/C10/gen_c10rb.c -- do not edit *)
From Coq Require Import NArith List.
Import ListNotations.
Local Open Scope N_scope.
Definition c10rb_key_size : N := 4.
Definition c10rb_key_size_padded : N := 8.
Definition c10rb_value_size : N := 8.
Definition c10rb_root_after_init_is_null : N := 1.
Definition c10rb_sample_inum : N := 2214789633.
Definition c10rb_sample_ref : N := 1735880461161533969.
Definition c10rb_sample_value_offset : N := 8.
Definition c10rb_sample_is_red : N := 0.
Definition c10rb_sample_data : list N := [1; 2; 3; 132; 0; 0; 0; 0; 17; 18; 19; 20; 21; 22; 23; 24].
Definition c10rb_sample_resolved : N := 1735880461161533969.
