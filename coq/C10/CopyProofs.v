(* C10 — proofs about families of meta readers related by sqfs_copy (CopyModel.v),
   repaired code (fx = true): the coherence invariant of MetaProofs.v is preserved by a
   copy (the copy has the state of its source) and by steps of other objects (frame), so
   every answer of every object after every family history equals the stateless
   specification; copies are independent of their source and of each other. *)
From Coq Require Import List NArith ZArith Bool Lia PeanoNat.
From SqfsV Require Import Gen.Constants Base.Bytes C10.GenC10 C10.MetaModel C10.MetaProofs C10.CopyModel.
Import ListNotations.
Local Open Scope N_scope.

Lemma mr_copy_id m : mr_copy m = m.
Proof. destruct m; reflexivity. Qed.

(* ---- upd ---- *)
Lemma length_upd {A} (x : A) : forall l i, length (upd i x l) = length l.
Proof. induction l as [|h t IH]; intros [|k]; cbn; auto. Qed.

Lemma nth_error_upd_same {A} (x : A) : forall l i y, nth_error l i = Some y -> nth_error (upd i x l) i = Some x.
Proof. induction l as [|h t IH]; intros [|k] y; cbn; try discriminate; eauto. Qed.

Lemma nth_error_upd_other {A} (x : A) : forall l i j, i <> j -> nth_error (upd i x l) j = nth_error l j.
Proof.
  induction l as [|h t IH]; intros [|k] [|j] H; cbn; try reflexivity; try congruence.
  apply IH. congruence.
Qed.

Lemma Forall_upd {A} (P : A -> Prop) (x : A) : forall l i, Forall P l -> P x -> Forall P (upd i x l).
Proof.
  induction l as [|h t IH]; intros [|k] F Px; cbn; auto; inversion F; subst; constructor; auto.
Qed.

Lemma Forall_nth_error {A} (P : A -> Prop) : forall l i y, Forall P l -> nth_error l i = Some y -> P y.
Proof.
  induction l as [|h t IH]; intros [|k] y F H; cbn in H; try discriminate; inversion F; subst.
  - inversion H; subst; assumption.
  - eauto.
Qed.

Lemma nth_error_app_l {A} (l l' : list A) j y : nth_error l j = Some y -> nth_error (l ++ l') j = Some y.
Proof.
  intro H. rewrite nth_error_app1; [exact H|]. apply nth_error_Some. congruence.
Qed.

Section CopyP.
Variable uncompress : list N -> N -> uresult.
Variable file : N -> N -> rd_res.
Variable fsize : N.

Notation stepT := (step uncompress file fsize true).
Notation runT := (run uncompress file fsize true).
Notation fstepT := (fstep uncompress file fsize true).
Notation frunT := (frun uncompress file fsize true).

(* every object of the family is a coherent reader of the same table *)
Definition good (start limit : N) (m : mr) : Prop :=
  wf_limit m /\ coherent uncompress file m /\ m_start m = start /\ m_limit m = limit.
Definition fam_good (start limit : N) (fam : list mr) : Prop := Forall (good start limit) fam.

Lemma good_step start limit m op : good start limit m -> good start limit (snd (stepT m op)).
Proof.
  intros (W & C & S & L).
  destruct (coherent_step uncompress file fsize m op W C) as (C1 & W1 & S1 & L1).
  repeat split; try assumption; congruence.
Qed.

Lemma fam_good_step start limit fam o :
  fam_good start limit fam -> fam_good start limit (snd (fstepT fam o)).
Proof.
  intro G. destruct o as [i op|i]; cbn [fstep].
  - destruct (nth_error fam i) as [m|] eqn:E; [|exact G].
    pose proof (good_step start limit m op (Forall_nth_error _ _ _ _ G E)) as Gm.
    destruct (stepT m op) as [r m']. cbn [snd] in *. apply Forall_upd; assumption.
  - destruct (nth_error fam i) as [m|] eqn:E; [|exact G]. cbn [snd].
    apply Forall_app. split; [exact G|]. constructor; [|constructor].
    rewrite mr_copy_id. exact (Forall_nth_error _ _ _ _ G E).
Qed.

Lemma fam_good_run start limit ops : forall fam,
  fam_good start limit fam -> fam_good start limit (snd (frunT fam ops)).
Proof.
  induction ops as [|o rest IH]; intros fam G; cbn [frun]; [exact G|].
  pose proof (fam_good_step start limit fam o G) as G1.
  destruct (fstepT fam o) as [r fam1]. cbn [snd] in G1.
  pose proof (IH fam1 G1) as G2. destruct (frunT fam1 rest) as [rs fam2]. exact G2.
Qed.

Lemma fam_good_create start limit :
  limit <= c10_meta_init_tag -> fam_good start limit [mr_create start limit].
Proof.
  intro H. constructor; [|constructor].
  repeat split; [exact (create_wf start limit H)|apply create_coherent].
Qed.

(* the cache-coherence invariant holds for every object after every family history *)
Lemma meta_family_coherent_l start limit ops j m :
  limit <= c10_meta_init_tag ->
  nth_error (snd (frunT [mr_create start limit] ops)) j = Some m ->
  coherent uncompress file m /\ m_start m = start /\ m_limit m = limit.
Proof.
  intros H E.
  destruct (Forall_nth_error _ _ _ _ (fam_good_run start limit ops _ (fam_good_create start limit H)) E)
    as (W & C & S & L). auto.
Qed.

(* every answer of every object equals the stateless specification *)
Lemma meta_family_history_free_l start limit ops j m op :
  limit <= c10_meta_init_tag ->
  let fam := snd (frunT [mr_create start limit] ops) in
  nth_error fam j = Some m ->
  fst (fstepT fam (FOp j op)) = FAns (spec_step uncompress file fsize true start limit (pos_of m) op).
Proof.
  intros H fam E.
  destruct (Forall_nth_error _ _ _ _ (fam_good_run start limit ops _ (fam_good_create start limit H)) E)
    as (W & C & S & L).
  cbn [fstep]. rewrite E.
  pose proof (history_free_step uncompress file fsize m op W C) as HF.
  destruct (stepT m op) as [r m']. cbn [fst] in *. rewrite HF, S, L. reflexivity.
Qed.

(* ---- a run of calls on one object ---- *)
Lemma frun_on_one mops : forall fam i m,
  nth_error fam i = Some m ->
  frunT fam (map (FOp i) mops) = (map FAns (fst (runT m mops)), upd i (snd (runT m mops)) fam).
Proof.
  induction mops as [|op rest IH]; intros fam i m E.
  - cbn. f_equal. clear -E. revert i E. induction fam as [|h t IHf]; intros [|k] E; cbn in *; try discriminate.
    + inversion E; reflexivity.
    + f_equal. apply IHf. exact E.
  - cbn [map frun fstep run]. rewrite E.
    destruct (stepT m op) as [r m1].
    rewrite (IH (upd i m1 fam) i m1 (nth_error_upd_same m1 fam i m E)).
    destruct (runT m1 rest) as [rs m2]. cbn [fst snd map]. f_equal.
    clear. revert i. induction fam as [|h t IHf]; intros [|k]; cbn; try reflexivity. f_equal. apply IHf.
Qed.

(* a query (seek, then anything) on object j after any family history answers as on a
   freshly created reader *)
Lemma meta_family_query_fresh_l start limit ops j m x o rest :
  limit <= c10_meta_init_tag ->
  let fam := snd (frunT [mr_create start limit] ops) in
  nth_error fam j = Some m ->
  let r_fam := fst (frunT fam (map (FOp j) (MSeek x o :: rest))) in
  let r_fresh := map FAns (fst (runT (mr_create start limit) (MSeek x o :: rest))) in
  hd_error r_fam = hd_error r_fresh /\ (hd_error r_fresh = Some (FAns (RSeek (Ok tt))) -> r_fam = r_fresh).
Proof.
  intros H fam E.
  destruct (Forall_nth_error _ _ _ _ (fam_good_run start limit ops _ (fam_good_create start limit H)) E)
    as (W & C & S & L).
  cbn zeta. rewrite (frun_on_one (MSeek x o :: rest) fam j m E). cbn [fst].
  destruct (query_any uncompress file fsize m (mr_create start limit) x o rest W C
              (create_coherent uncompress file start limit) S L) as [A B]. cbn zeta in A, B.
  generalize dependent (fst (runT m (MSeek x o :: rest))).
  generalize (fst (runT (mr_create start limit) (MSeek x o :: rest))).
  intros lb la A B.
  destruct la as [|ra ta]; destruct lb as [|rb tb]; cbn [hd_error map] in *; try discriminate.
  - split; [reflexivity|discriminate].
  - inversion A; subst rb. split; [reflexivity|].
    intro F. inversion F; subst. specialize (B eq_refl). inversion B; subst. reflexivity.
Qed.

(* ---- frame: an operation that is not aimed at object j leaves its state alone ---- *)
Lemma fstep_frame fam o j m :
  nth_error fam j = Some m -> touches j o = false -> nth_error (snd (fstepT fam o)) j = Some m.
Proof.
  intros E T. destruct o as [i op|i]; cbn [fstep].
  - destruct (nth_error fam i) as [mi|]; [|exact E].
    destruct (stepT mi op) as [r m']. cbn [snd]. rewrite nth_error_upd_other; [exact E|].
    cbn in T. apply Nat.eqb_neq. exact T.
  - destruct (nth_error fam i) as [mi|]; [|exact E]. cbn [snd]. apply nth_error_app_l. exact E.
Qed.

Lemma frun_frame_l ops : forall fam j m,
  nth_error fam j = Some m -> forallb (fun o => negb (touches j o)) ops = true ->
  nth_error (snd (frunT fam ops)) j = Some m.
Proof.
  induction ops as [|o rest IH]; intros fam j m E T; cbn [frun]; [exact E|].
  cbn in T. apply andb_true_iff in T. destruct T as [T1 T2]. apply negb_true_iff in T1.
  pose proof (fstep_frame fam o j m E T1) as E1.
  destruct (fstepT fam o) as [r fam1]. cbn [snd] in E1.
  pose proof (IH fam1 j m E1 T2) as E2. destruct (frunT fam1 rest) as [rs fam2]. exact E2.
Qed.

(* the copy and its source: each answers any further calls as the source would have at the
   time of the copy, and neither is changed by calls on the other *)
Lemma copy_independent_l fam i m mops :
  nth_error fam i = Some m ->
  let fam1 := snd (fstepT fam (FCopy i)) in
  let c := length fam in
  fst (fstepT fam (FCopy i)) = FCopied c /\
  nth_error fam1 i = Some m /\ nth_error fam1 c = Some m /\
  (fst (frunT fam1 (map (FOp c) mops)) = map FAns (fst (runT m mops)) /\
   nth_error (snd (frunT fam1 (map (FOp c) mops))) i = Some m) /\
  (fst (frunT fam1 (map (FOp i) mops)) = map FAns (fst (runT m mops)) /\
   nth_error (snd (frunT fam1 (map (FOp i) mops))) c = Some m).
Proof.
  intro E. cbn zeta. cbn [fstep]. rewrite E. cbn [fst snd]. rewrite mr_copy_id.
  assert (Ei : nth_error (fam ++ [m]) i = Some m) by (apply nth_error_app_l; exact E).
  assert (Ec : nth_error (fam ++ [m]) (length fam) = Some m).
  { rewrite nth_error_app2 by lia. rewrite Nat.sub_diag. reflexivity. }
  assert (NE : i <> length fam).
  { intro X. assert (i < length fam)%nat by (apply nth_error_Some; congruence). lia. }
  repeat split; try assumption.
  - rewrite (frun_on_one mops _ _ m Ec). reflexivity.
  - rewrite (frun_on_one mops _ _ m Ec). cbn [snd]. rewrite nth_error_upd_other; [exact Ei|congruence].
  - rewrite (frun_on_one mops _ _ m Ei). reflexivity.
  - rewrite (frun_on_one mops _ _ m Ei). cbn [snd]. rewrite nth_error_upd_other; [exact Ec|exact NE].
Qed.

End CopyP.
