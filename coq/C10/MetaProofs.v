(* C10 — proofs about the meta reader model (repaired code, fx = true):
   cache coherence is an invariant of every history; answers depend only on the
   image and the (block, offset) position; a query that starts with a seek gets
   the same answers after every history as on a freshly created reader. *)
From Coq Require Import List NArith ZArith Bool Lia.
From SqfsV Require Import Gen.Constants Base.Bytes C10.GenC10 C10.MetaModel.
Import ListNotations.
Local Open Scope N_scope.

(* facts about the generated constants the proofs rely on (re-checked whenever
   the sources change: GenC10.v is regenerated from meta_reader.c) *)
Lemma init_used_0 : c10_meta_init_used = 0. Proof. reflexivity. Qed.
Lemma init_off_0 : c10_meta_init_off = 0. Proof. reflexivity. Qed.
Lemma init_next_ne_tag : c10_meta_init_next <> c10_meta_init_tag. Proof. discriminate. Qed.

Lemma firstn_overwrite new old : firstn (length new) (overwrite new old) = new.
Proof.
  unfold overwrite. rewrite firstn_app, Nat.sub_diag, firstn_all. simpl. apply app_nil_r.
Qed.

Lemma len_nat (l : list N) : N.to_nat (len l) = length l.
Proof. unfold len. apply Nat2N.id. Qed.

Lemma slice_firstn (l : list N) (k off d : N) :
  off + d <= k -> slice (firstn (N.to_nat k) l) off d = slice l off d.
Proof.
  intro H. unfold slice.
  rewrite skipn_firstn_comm, firstn_firstn.
  f_equal. lia.
Qed.

Lemma slice_equiv (a b : list N) (k off d : N) :
  firstn (N.to_nat k) a = firstn (N.to_nat k) b -> off + d <= k -> slice a off d = slice b off d.
Proof.
  intros E H. rewrite <- (slice_firstn a k off d H), <- (slice_firstn b k off d H), E. reflexivity.
Qed.

Section MetaP.
Variable uncompress : list N -> N -> uresult.
Variable file : N -> N -> rd_res.
Variable fsize : N.

Notation seekT := (seek uncompress file true).
Notation loadI := (load uncompress file).
Notation read_loopT := (read_loop uncompress file true).
Notation readT := (read uncompress file fsize true).
Notation stepT := (step uncompress file fsize true).
Notation runT := (run uncompress file fsize true).

(* ---------------- invariants ---------------- *)

Definition wf_limit (m : mr) : Prop := m_limit m <= c10_meta_init_tag.

Definition is_reset (m : mr) : Prop :=
  m_tag m = c10_meta_init_tag /\ m_used m = c10_meta_init_used /\
  m_off m = c10_meta_init_off /\ m_next m = c10_meta_init_next.

Definition holds_block (m : mr) (content : list N) (size : N) : Prop :=
  m_start m <= m_tag m /\ m_tag m < m_limit m /\
  (exists pre, loadI (m_limit m) (m_tag m) = LOk pre content size) /\
  firstn (length content) (m_data m) = content /\
  m_used m = len content /\ m_next m = m_tag m + size + 2.

(* the cache-coherence invariant: the cached block, if tagged t, holds exactly
   what a fresh load of t yields (content, data_used, next_block) *)
Definition coherent (m : mr) : Prop :=
  is_reset m \/ (exists content size, holds_block m content size /\ m_off m <= m_used m).

Definition equiv (a b : mr) : Prop :=
  m_start a = m_start b /\ m_limit a = m_limit b /\ m_used a = m_used b /\ m_tag a = m_tag b /\
  m_next a = m_next b /\ m_off a = m_off b /\
  firstn (N.to_nat (m_used a)) (m_data a) = firstn (N.to_nat (m_used a)) (m_data b).

Lemma equiv_refl a : equiv a a.
Proof. unfold equiv; repeat split; reflexivity. Qed.

Lemma equiv_sym a b : equiv a b -> equiv b a.
Proof.
  unfold equiv; intros (A & B & C & D & E & F & G). rewrite <- C.
  repeat split; try (symmetry; assumption); reflexivity.
Qed.

Lemma equiv_trans a b c : equiv a b -> equiv b c -> equiv a c.
Proof.
  unfold equiv; intros (A & B & C & D & E & F & G) (A' & B' & C' & D' & E' & F' & G').
  repeat split; congruence.
Qed.

Lemma create_coherent start limit : coherent (mr_create start limit).
Proof. left. unfold is_reset, mr_create; simpl. repeat split; reflexivity. Qed.

(* ---------------- load ---------------- *)

Lemma load_post_not_ok limit b r wr : loadI limit b = LPost r wr -> is_ok r = false.
Proof.
  unfold load. destruct (file b 2); [|discriminate].
  destruct (c10_meta_data_cap <? rd16 bytes mod 32768); [discriminate|].
  destruct (limit <? b + 2 + rd16 bytes mod 32768); [discriminate|].
  destruct (file (b + 2) (rd16 bytes mod 32768)).
  - destruct (rd16 bytes <? 32768); [|discriminate].
    destruct (uncompress bytes0 c10_meta_scratch_cap).
    + intro HH; inversion HH; reflexivity.
    + destruct (c10_meta_data_cap <? len bytes1); [|discriminate].
      intro HH; inversion HH; reflexivity.
  - intro HH; inversion HH; reflexivity.
Qed.

Lemma load_post_not_fuel limit b r wr : loadI limit b = LPost r wr -> r <> Fuel.
Proof.
  unfold load. destruct (file b 2); [|discriminate].
  destruct (c10_meta_data_cap <? rd16 bytes mod 32768); [discriminate|].
  destruct (limit <? b + 2 + rd16 bytes mod 32768); [discriminate|].
  destruct (file (b + 2) (rd16 bytes mod 32768)).
  - destruct (rd16 bytes <? 32768); [|discriminate].
    destruct (uncompress bytes0 c10_meta_scratch_cap).
    + intro HH; inversion HH; discriminate.
    + destruct (c10_meta_data_cap <? len bytes1); [|discriminate].
      intro HH; inversion HH; discriminate.
  - intro HH; inversion HH; discriminate.
Qed.

(* ---------------- seek ---------------- *)

(* the status of a seek as a function of image, limit and arguments only *)
Definition seek_status (start limit b o : N) : out unit :=
  if (b <? start) || (limit <=? b) then Err c_SQFS_ERROR_OUT_OF_BOUNDS
  else match loadI limit b with
       | LPre e => Err e
       | LPost r _ => r
       | LOk _ content _ => if len content <=? o then Err c_SQFS_ERROR_OUT_OF_BOUNDS else Ok tt
       end.

Lemma tag_in_bounds_not_init m b :
  wf_limit m -> (b <? m_start m) || (m_limit m <=? b) = false -> b <> c10_meta_init_tag.
Proof.
  unfold wf_limit. intros W H. apply orb_false_iff in H. destruct H as [_ H].
  apply N.leb_gt in H. lia.
Qed.

Lemma seek_result m b o :
  wf_limit m -> coherent m ->
  fst (seekT m b o) = seek_status (m_start m) (m_limit m) b o.
Proof.
  intros W C. unfold seek, seek_status.
  destruct ((b <? m_start m) || (m_limit m <=? b)) eqn:B; [reflexivity|].
  destruct (N.eqb_spec b (m_tag m)) as [E|E].
  - (* cache hit: the tagged block is what a load yields *)
    destruct C as [R|(content & size & (S1 & S2 & (pre & L) & D & U & Nx) & O)].
    + exfalso. destruct R as (T & _). apply (tag_in_bounds_not_init m b W B). congruence.
    + subst b. rewrite L, U. destruct (len content <=? o); reflexivity.
  - destruct (loadI (m_limit m) b) as [e|r wr|pre content size]; try reflexivity.
    destruct (len content <=? o); reflexivity.
Qed.

(* what a successful seek establishes *)
Lemma seek_ok_state m b o m' :
  wf_limit m -> coherent m -> seekT m b o = (Ok tt, m') ->
  m_start m' = m_start m /\ m_limit m' = m_limit m /\ m_tag m' = b /\ m_off m' = o /\ o < m_used m' /\
  exists content size, holds_block m' content size.
Proof.
  intros W C. unfold seek.
  destruct ((b <? m_start m) || (m_limit m <=? b)) eqn:B; [discriminate|].
  apply orb_false_iff in B. destruct B as [B1 B2]. apply N.ltb_ge in B1. apply N.leb_gt in B2.
  destruct (N.eqb_spec b (m_tag m)) as [E|E].
  - destruct (N.leb_spec (m_used m) o); [discriminate|].
    intro HH; inversion HH; subst m'; clear HH. cbn.
    repeat split; auto.
    destruct C as [R|(content & size & HB & O)].
    + exfalso. destruct R as (T & _). unfold wf_limit in W. lia.
    + exists content, size. exact HB.
  - destruct (loadI (m_limit m) b) as [e|r wr|pre content size] eqn:L; try discriminate.
    + intro HH; inversion HH; subst. apply load_post_not_ok in L. discriminate.
    + destruct (N.leb_spec (len content) o); [discriminate|].
      intro HH; inversion HH; subst m'; clear HH. cbn.
      repeat split; auto.
      exists content, size. unfold holds_block; cbn. repeat split; auto.
      * exists pre. exact L.
      * apply firstn_overwrite.
Qed.

Lemma coherent_seek m b o :
  wf_limit m -> coherent m -> coherent (snd (seekT m b o)) /\ wf_limit (snd (seekT m b o)) /\
  m_start (snd (seekT m b o)) = m_start m /\ m_limit (snd (seekT m b o)) = m_limit m.
Proof.
  intros W C.
  destruct (seekT m b o) as [r m'] eqn:S. cbn [snd].
  destruct r as [[]|e| |].
  - destruct (seek_ok_state m b o m' W C S) as (A & B & T & O & Lt & content & size & HB).
    split; [|split; [unfold wf_limit in *; rewrite B; exact W|split; assumption]].
    right. exists content, size. split; [exact HB|lia].
  - (* failed: either untouched or reset *)
    revert S. unfold seek.
    destruct ((b <? m_start m) || (m_limit m <=? b)); [intro HH; inversion HH; subst; auto|].
    destruct (b =? m_tag m).
    { destruct (m_used m <=? o); intro HH; inversion HH; subst; auto. }
    destruct (loadI (m_limit m) b) as [e'|r wr|pre content size].
    + intro HH; inversion HH; subst; auto.
    + intro HH; inversion HH; subst. split; [left; unfold is_reset; cbn; auto|auto].
    + destruct (len content <=? o); intro HH; inversion HH; subst.
      split; [left; unfold is_reset; cbn; auto|auto].
  - revert S. unfold seek.
    destruct ((b <? m_start m) || (m_limit m <=? b)); [discriminate|].
    destruct (b =? m_tag m).
    { destruct (m_used m <=? o); discriminate. }
    destruct (loadI (m_limit m) b) as [e'|r wr|pre content size]; [discriminate| |].
    + intro HH; inversion HH; subst. split; [left; unfold is_reset; cbn; auto|auto].
    + destruct (len content <=? o); discriminate.
  - revert S. unfold seek.
    destruct ((b <? m_start m) || (m_limit m <=? b)); [discriminate|].
    destruct (b =? m_tag m).
    { destruct (m_used m <=? o); discriminate. }
    destruct (loadI (m_limit m) b) as [e'|r wr|pre content size]; [discriminate| |].
    + intro HH; inversion HH; subst. split; [left; unfold is_reset; cbn; auto|auto].
    + destruct (len content <=? o); discriminate.
Qed.

Lemma seek_not_fuel m b o : fst (seekT m b o) <> Fuel.
Proof.
  unfold seek.
  destruct ((b <? m_start m) || (m_limit m <=? b)); [discriminate|].
  destruct (b =? m_tag m).
  { destruct (m_used m <=? o); discriminate. }
  destruct (loadI (m_limit m) b) as [e'|r wr|pre content size] eqn:L; [discriminate| |].
  - cbn. eapply load_post_not_fuel; eassumption.
  - destruct (len content <=? o); discriminate.
Qed.

(* two readers holding the same block at the same offset are interchangeable *)
Lemma holds_block_equiv a b ca sa cb sb :
  m_start a = m_start b -> m_limit a = m_limit b -> m_tag a = m_tag b -> m_off a = m_off b ->
  holds_block a ca sa -> holds_block b cb sb -> equiv a b.
Proof.
  intros S L T O (A1 & A2 & (pa & LA) & DA & UA & NA) (B1 & B2 & (pb & LB) & DB & UB & NB).
  rewrite L, T, LB in LA. inversion LA; subst ca sa.
  unfold equiv. repeat split; try congruence.
  rewrite UA, len_nat. congruence.
Qed.

Lemma coherent_same_pos_equiv a b :
  coherent a -> coherent b ->
  m_start a = m_start b -> m_limit a = m_limit b -> m_tag a = m_tag b -> m_off a = m_off b ->
  wf_limit a -> equiv a b.
Proof.
  intros [RA|(ca & sa & HA & OA)] [RB|(cb & sb & HB & OB)] S L T O W.
  - destruct RA as (A1 & A2 & A3 & A4), RB as (B1 & B2 & B3 & B4).
    unfold equiv. repeat split; try congruence.
    rewrite A2, init_used_0. reflexivity.
  - exfalso. destruct RA as (A1 & _). destruct HB as (_ & B2 & _). unfold wf_limit in W. lia.
  - exfalso. destruct RB as (B1 & _). destruct HA as (_ & A2 & _). unfold wf_limit in W. lia.
  - eapply holds_block_equiv; eassumption.
Qed.

(* the key lemma: whatever two coherent readers did before, a seek gets the same
   status, and if it succeeds they are interchangeable afterwards *)
Lemma seek_any a b x o :
  wf_limit a -> coherent a -> coherent b -> m_start a = m_start b -> m_limit a = m_limit b ->
  fst (seekT a x o) = fst (seekT b x o) /\
  (fst (seekT a x o) = Ok tt -> equiv (snd (seekT a x o)) (snd (seekT b x o))).
Proof.
  intros W CA CB S L.
  assert (WB : wf_limit b) by (unfold wf_limit in *; rewrite <- L; exact W).
  rewrite (seek_result a x o W CA), (seek_result b x o WB CB), S, L.
  split; [reflexivity|].
  intro OK.
  destruct (seekT a x o) as [ra a'] eqn:SA. destruct (seekT b x o) as [rb b'] eqn:SB.
  assert (RA : ra = Ok tt).
  { pose proof (seek_result a x o W CA) as H. rewrite SA in H. cbn in H. rewrite H, S, L. exact OK. }
  assert (RB : rb = Ok tt).
  { pose proof (seek_result b x o WB CB) as H. rewrite SB in H. cbn in H. rewrite H. exact OK. }
  subst ra rb. cbn [snd].
  destruct (seek_ok_state a x o a' W CA SA) as (A1 & A2 & A3 & A4 & A5 & ca & sa & HA).
  destruct (seek_ok_state b x o b' WB CB SB) as (B1 & B2 & B3 & B4 & B5 & cb & sb & HB).
  eapply holds_block_equiv; try eassumption; congruence.
Qed.

Lemma seek_equiv a b x o :
  equiv a b ->
  fst (seekT a x o) = fst (seekT b x o) /\ equiv (snd (seekT a x o)) (snd (seekT b x o)).
Proof.
  intros (S & L & U & T & Nx & O & D). unfold seek.
  rewrite <- S, <- L, <- T, <- U.
  destruct ((x <? m_start a) || (m_limit a <=? x)).
  { split; [reflexivity|]. cbn. unfold equiv; repeat split; assumption. }
  destruct (x =? m_tag a).
  { destruct (m_used a <=? o); (split; [reflexivity|]); cbn; unfold equiv; cbn; repeat split; assumption. }
  destruct (loadI (m_limit a) x) as [e|r wr|pre content size].
  - split; [reflexivity|]. cbn. unfold equiv; repeat split; assumption.
  - split; [reflexivity|]. cbn [snd]. unfold equiv, set_data, invalidate, set_pos; cbn [m_start m_limit m_used m_tag m_next m_off m_data].
    repeat split; try assumption; try reflexivity.
  - destruct (len content <=? o); (split; [reflexivity|]); cbn [snd];
      unfold equiv, set_data, invalidate, set_pos; cbn [m_start m_limit m_used m_tag m_next m_off m_data];
      repeat split; try assumption; try reflexivity.
    rewrite len_nat, !firstn_overwrite. reflexivity.
Qed.

Lemma seek_ok_off m b o m' : seekT m b o = (Ok tt, m') -> m_off m' = o /\ o < m_used m'.
Proof.
  unfold seek.
  destruct ((b <? m_start m) || (m_limit m <=? b)); [discriminate|].
  destruct (b =? m_tag m).
  { destruct (N.leb_spec (m_used m) o); [discriminate|]. intro HH; inversion HH; subst; cbn. auto. }
  destruct (loadI (m_limit m) b) as [e'|r wr|pre content size] eqn:L; [discriminate| |].
  - intro HH; inversion HH; subst. apply load_post_not_ok in L. discriminate.
  - destruct (N.leb_spec (len content) o); [discriminate|]. intro HH; inversion HH; subst; cbn. auto.
Qed.

(* ---------------- get_position / read ---------------- *)

Lemma getpos_equiv a b : equiv a b -> get_position a = get_position b.
Proof.
  intros (S & L & U & T & Nx & O & D). unfold get_position. rewrite O, U, Nx, T. reflexivity.
Qed.

Lemma equiv_set_off a b k : equiv a b -> equiv (set_off a k) (set_off b k).
Proof. intros (S & L & U & T & Nx & O & D). unfold equiv; cbn. repeat split; assumption. Qed.

Lemma sub_size_t_le a b : b <= a -> sub_size_t a b = a - b.
Proof. intro H. unfold sub_size_t. destruct (N.leb_spec b a); [reflexivity|lia]. Qed.

Lemma read_loop_equiv fuel : forall a b n acc,
  equiv a b -> m_off a <= m_used a ->
  fst (read_loopT fuel a n acc) = fst (read_loopT fuel b n acc) /\
  equiv (snd (read_loopT fuel a n acc)) (snd (read_loopT fuel b n acc)).
Proof.
  induction fuel as [|f IH]; intros a b n acc E O.
  - cbn. split; [reflexivity|exact E].
  - cbn [read_loop].
    destruct (n =? 0); [cbn; split; [reflexivity|exact E]|].
    pose proof E as (S & L & U & T & Nx & Of & D).
    rewrite <- U, <- Of, <- Nx.
    rewrite (sub_size_t_le _ _ O).
    destruct (N.eqb_spec (m_used a - m_off a) 0) as [Z|NZ].
    + destruct (seek_equiv a b (m_next a) 0 E) as [R Eq].
      destruct (seekT a (m_next a) 0) as [ra a1] eqn:SA.
      destruct (seekT b (m_next a) 0) as [rb b1] eqn:SB.
      cbn in R, Eq. subst rb.
      destruct ra as [[]|e| |]; try (cbn; split; [reflexivity|exact Eq]).
      destruct (seek_ok_off a (m_next a) 0 a1 SA) as [O1 U1].
      pose proof Eq as (S1 & L1 & U1' & T1 & Nx1 & Of1 & D1).
      rewrite <- U1', <- Of1.
      destruct (c10_meta_data_cap <? m_off a1 + N.min (m_used a1) n).
      { cbn; split; [reflexivity|exact Eq]. }
      rewrite (slice_equiv (m_data a1) (m_data b1) (m_used a1) (m_off a1) (N.min (m_used a1) n) D1) by lia.
      apply IH; [apply equiv_set_off; exact Eq|cbn; lia].
    + rewrite <- ?Of.
      destruct (c10_meta_data_cap <? m_off a + N.min (m_used a - m_off a) n).
      { cbn; split; [reflexivity|exact E]. }
      rewrite (slice_equiv (m_data a) (m_data b) (m_used a) (m_off a) (N.min (m_used a - m_off a) n) D) by lia.
      apply IH; [apply equiv_set_off; exact E|cbn; lia].
Qed.

Lemma coherent_off m : coherent m -> m_off m <= m_used m.
Proof.
  intros [(T & U & O & Nx)|(c & s & HB & O)]; [|exact O].
  rewrite U, O, init_used_0, init_off_0. lia.
Qed.

Lemma coherent_set_off m k :
  coherent m -> k <= m_used m -> (k = m_off m \/ m_tag m <> c10_meta_init_tag) -> coherent (set_off m k).
Proof.
  intros [(T & U & O & Nx)|(c & s & HB & O)] K Hk.
  - destruct Hk as [Hk|Hk]; [|contradiction]. left. unfold is_reset; cbn. subst k. auto.
  - right. exists c, s. split; [exact HB|exact K].
Qed.

Lemma coherent_read_loop fuel : forall m n acc,
  wf_limit m -> coherent m ->
  let m' := snd (read_loopT fuel m n acc) in
  coherent m' /\ wf_limit m' /\ m_start m' = m_start m /\ m_limit m' = m_limit m.
Proof.
  induction fuel as [|f IH]; intros m n acc W C; cbn zeta.
  - cbn. auto.
  - cbn [read_loop].
    destruct (n =? 0); [cbn; auto|].
    pose proof (coherent_off m C) as O.
    rewrite (sub_size_t_le _ _ O).
    destruct (N.eqb_spec (m_used m - m_off m) 0) as [Z|NZ].
    + destruct (coherent_seek m (m_next m) 0 W C) as (C1 & W1 & S1 & L1).
      destruct (seekT m (m_next m) 0) as [r m1] eqn:SK. cbn [snd] in *.
      destruct r as [[]|e| |]; try (cbn; auto).
      destruct (seek_ok_state m (m_next m) 0 m1 W C SK) as (_ & _ & T1 & O1 & U1 & c & s & HB).
      destruct (c10_meta_data_cap <? m_off m1 + N.min (m_used m1) n); [cbn; auto|].
      specialize (IH (set_off m1 (m_off m1 + N.min (m_used m1) n)) (n - N.min (m_used m1) n)
                     (acc ++ slice (m_data m1) (m_off m1) (N.min (m_used m1) n))).
      cbn zeta in IH. cbn [m_start m_limit set_off] in IH.
      rewrite <- S1, <- L1. apply IH.
      * exact W1.
      * apply coherent_set_off; [exact C1|lia|].
        right. destruct HB as (_ & HB2 & _). unfold wf_limit in W1. lia.
    + destruct (c10_meta_data_cap <? m_off m + N.min (m_used m - m_off m) n); [cbn; auto|].
      specialize (IH (set_off m (m_off m + N.min (m_used m - m_off m) n)) (n - N.min (m_used m - m_off m) n)
                     (acc ++ slice (m_data m) (m_off m) (N.min (m_used m - m_off m) n))).
      cbn zeta in IH. cbn [m_start m_limit set_off] in IH. apply IH.
      * exact W.
      * apply coherent_set_off; [exact C|lia|].
        right. destruct C as [(T & U & Of & Nx)|(c & s & (_ & HB2 & _) & _)].
        -- exfalso. rewrite U, Of, init_used_0, init_off_0 in NZ. lia.
        -- unfold wf_limit in W. lia.
Qed.

(* ---------------- steps and histories ---------------- *)

Lemma step_equiv a b op :
  equiv a b -> m_off a <= m_used a ->
  fst (stepT a op) = fst (stepT b op) /\ equiv (snd (stepT a op)) (snd (stepT b op)).
Proof.
  intros E O. destruct op as [x o|n|]; cbn [step].
  - destruct (seek_equiv a b x o E) as [R Eq].
    destruct (seekT a x o), (seekT b x o). cbn in *. split; [congruence|exact Eq].
  - unfold read. destruct (read_loop_equiv (read_fuel fsize n) a b n [] E O) as [R Eq].
    destruct (read_loopT (read_fuel fsize n) a n []), (read_loopT (read_fuel fsize n) b n []).
    cbn in *. split; [congruence|exact Eq].
  - cbn. split; [rewrite (getpos_equiv a b E); reflexivity|exact E].
Qed.

Lemma coherent_step m op :
  wf_limit m -> coherent m ->
  let m' := snd (stepT m op) in
  coherent m' /\ wf_limit m' /\ m_start m' = m_start m /\ m_limit m' = m_limit m.
Proof.
  intros W C. destruct op as [x o|n|]; cbn [step]; cbn zeta.
  - pose proof (coherent_seek m x o W C) as H. destruct (seekT m x o). exact H.
  - unfold read. pose proof (coherent_read_loop (read_fuel fsize n) m n [] W C) as H.
    cbn zeta in H. destruct (read_loopT (read_fuel fsize n) m n []). exact H.
  - cbn. auto.
Qed.

Lemma coherent_run ops : forall m,
  wf_limit m -> coherent m ->
  let m' := snd (runT m ops) in
  coherent m' /\ wf_limit m' /\ m_start m' = m_start m /\ m_limit m' = m_limit m.
Proof.
  induction ops as [|op rest IH]; intros m W C; cbn zeta.
  - cbn. auto.
  - cbn [run]. destruct (coherent_step m op W C) as (C1 & W1 & S1 & L1).
    destruct (stepT m op) as [r m1]. cbn [snd] in *.
    destruct (IH m1 W1 C1) as (C2 & W2 & S2 & L2).
    destruct (runT m1 rest) as [rs m2]. cbn [snd] in *.
    repeat split; try assumption; congruence.
Qed.

Lemma run_equiv ops : forall a b,
  wf_limit a -> coherent a -> equiv a b ->
  fst (runT a ops) = fst (runT b ops) /\ equiv (snd (runT a ops)) (snd (runT b ops)).
Proof.
  induction ops as [|op rest IH]; intros a b W C E.
  - cbn. split; [reflexivity|exact E].
  - cbn [run].
    destruct (step_equiv a b op E (coherent_off a C)) as [R Eq].
    destruct (coherent_step a op W C) as (C1 & W1 & _).
    destruct (stepT a op) as [ra a1]. destruct (stepT b op) as [rb b1]. cbn [fst snd] in *.
    destruct (IH a1 b1 W1 C1 Eq) as [R2 Eq2].
    destruct (runT a1 rest) as [rsa a2]. destruct (runT b1 rest) as [rsb b2]. cbn [fst snd] in *.
    split; [congruence|exact Eq2].
Qed.

(* ---------------- the stateless specification ---------------- *)

Lemma canon_coherent m :
  wf_limit m -> coherent m ->
  let c := canon uncompress file (m_start m) (m_limit m) (pos_of m) in
  coherent c /\ equiv m c.
Proof.
  intros W C. cbn zeta. unfold pos_of.
  destruct C as [(T & U & O & Nx)|(content & size & HB & O)].
  - rewrite T, N.eqb_refl. cbn [canon]. split; [apply create_coherent|].
    unfold equiv, mr_create; cbn. repeat split; try assumption.
    rewrite U, init_used_0. reflexivity.
  - pose proof HB as (S1 & S2 & (pre & L) & D & U & Nx).
    destruct (N.eqb_spec (m_tag m) c10_meta_init_tag) as [E|E].
    { exfalso. unfold wf_limit in W. lia. }
    cbn [canon]. rewrite L.
    assert (HC : holds_block (mkMr (m_start m) (m_limit m) (len content) (m_tag m) (m_tag m + size + 2) (m_off m)
                                   (overwrite content (repeat 0 (N.to_nat c10_meta_data_cap)))) content size).
    { unfold holds_block; cbn. repeat split; auto. exists pre; exact L. apply firstn_overwrite. }
    split.
    + right. exists content, size. split; [exact HC|cbn; lia].
    + eapply holds_block_equiv; try eassumption; reflexivity.
Qed.

(* answers depend only on the image and the position *)
Lemma history_free_step m op :
  wf_limit m -> coherent m ->
  fst (stepT m op) = spec_step uncompress file fsize true (m_start m) (m_limit m) (pos_of m) op.
Proof.
  intros W C. unfold spec_step.
  destruct (canon_coherent m W C) as [CC E].
  apply (step_equiv m _ op E (coherent_off m C)).
Qed.

Lemma create_wf start limit : limit <= c10_meta_init_tag -> wf_limit (mr_create start limit).
Proof. intro H. exact H. Qed.

Lemma meta_cache_coherent_l start limit ops :
  limit <= c10_meta_init_tag -> coherent (snd (runT (mr_create start limit) ops)).
Proof.
  intro H. apply (coherent_run ops (mr_create start limit) (create_wf start limit H) (create_coherent start limit)).
Qed.

Lemma meta_history_free_l start limit ops op :
  limit <= c10_meta_init_tag ->
  let m := snd (runT (mr_create start limit) ops) in
  fst (stepT m op) = spec_step uncompress file fsize true start limit (pos_of m) op.
Proof.
  intro H. cbn zeta.
  destruct (coherent_run ops (mr_create start limit) (create_wf start limit H) (create_coherent start limit))
    as (C & W & S & L).
  rewrite (history_free_step _ op W C), S, L. reflexivity.
Qed.

Lemma meta_same_position_l start limit ops1 ops2 op :
  limit <= c10_meta_init_tag ->
  let m1 := snd (runT (mr_create start limit) ops1) in
  let m2 := snd (runT (mr_create start limit) ops2) in
  pos_of m1 = pos_of m2 -> fst (stepT m1 op) = fst (stepT m2 op).
Proof.
  intros H m1 m2 P. unfold m1, m2.
  rewrite !meta_history_free_l by exact H. fold m1 m2. rewrite P. reflexivity.
Qed.

(* a query = a seek followed by anything; after any history it answers as on a
   freshly created reader: the status of the seek always, and every further
   answer when the seek succeeded (callers give up when it fails) *)
Lemma query_any a b x o rest :
  wf_limit a -> coherent a -> coherent b -> m_start a = m_start b -> m_limit a = m_limit b ->
  let ra := fst (runT a (MSeek x o :: rest)) in
  let rb := fst (runT b (MSeek x o :: rest)) in
  hd_error ra = hd_error rb /\ (hd_error ra = Some (RSeek (Ok tt)) -> ra = rb).
Proof.
  intros W CA CB S L. cbn zeta. cbn [run step].
  destruct (seek_any a b x o W CA CB S L) as [R Eq].
  destruct (coherent_seek a x o W CA) as (C1 & W1 & _).
  destruct (seekT a x o) as [ra a1]. destruct (seekT b x o) as [rb b1]. cbn [fst snd] in *.
  subst rb.
  destruct (runT a1 rest) as [rsa a2] eqn:RA. destruct (runT b1 rest) as [rsb b2] eqn:RB.
  cbn. split; [reflexivity|].
  intro H. inversion H; subst ra.
  specialize (Eq eq_refl).
  destruct (run_equiv rest a1 b1 W1 C1 Eq) as [R2 _]. rewrite RA, RB in R2. cbn in R2. congruence.
Qed.

Lemma meta_query_fresh_l start limit ops x o rest :
  limit <= c10_meta_init_tag ->
  let m := snd (runT (mr_create start limit) ops) in
  let r_hist := fst (runT m (MSeek x o :: rest)) in
  let r_fresh := fst (runT (mr_create start limit) (MSeek x o :: rest)) in
  hd_error r_hist = hd_error r_fresh /\ (hd_error r_fresh = Some (RSeek (Ok tt)) -> r_hist = r_fresh).
Proof.
  intro H. cbn zeta.
  destruct (coherent_run ops (mr_create start limit) (create_wf start limit H) (create_coherent start limit))
    as (C & W & S & L).
  destruct (query_any _ (mr_create start limit) x o rest W C (create_coherent start limit) S L) as [A B].
  cbn zeta in A, B. split; [exact A|]. intro F. apply B. rewrite A. exact F.
Qed.


(* ---------------- the read loop never runs out of fuel ---------------- *)

Lemma read_loop_zero f m acc : read_loopT (S f) m 0 acc = (Ok acc, m).
Proof. reflexivity. Qed.

(* (a) every pass that does not end the call delivers at least one byte *)
Lemma read_loop_no_fuel_n fuel : forall m n acc,
  wf_limit m -> coherent m -> (N.to_nat n < fuel)%nat -> fst (read_loopT fuel m n acc) <> Fuel.
Proof.
  induction fuel as [|f IH]; intros m n acc W C Nd; [lia|].
  cbn [read_loop].
  destruct (N.eqb_spec n 0) as [Zn|NZn]; [cbn; discriminate|].
  pose proof (coherent_off m C) as O.
  rewrite (sub_size_t_le _ _ O).
  destruct (N.eqb_spec (m_used m - m_off m) 0) as [Z|NZ].
  - destruct (coherent_seek m (m_next m) 0 W C) as (C1 & W1 & S1 & L1).
    pose proof (seek_not_fuel m (m_next m) 0) as NF.
    destruct (seekT m (m_next m) 0) as [r m1] eqn:SK. cbn [fst snd] in *.
    destruct r as [[]|e| |]; try (cbn; discriminate); [|contradiction].
    destruct (seek_ok_state m (m_next m) 0 m1 W C SK) as (_ & _ & T1 & O1 & U1 & c & s & HB).
    destruct HB as (_ & HB2 & _).
    destruct (c10_meta_data_cap <? m_off m1 + N.min (m_used m1) n); [cbn; discriminate|].
    apply IH.
    + exact W1.
    + apply coherent_set_off; [exact C1|lia|]. right. unfold wf_limit in W1. lia.
    + lia.
  - destruct (c10_meta_data_cap <? m_off m + N.min (m_used m - m_off m) n); [cbn; discriminate|].
    apply IH.
    + exact W.
    + apply coherent_set_off; [exact C|lia|].
      right. destruct C as [(T & U & Of & Nx)|(c & s & (_ & HB2 & _) & _)].
      * exfalso. rewrite U, Of, init_used_0, init_off_0 in NZ. lia.
      * unfold wf_limit in W. lia.
    + lia.
Qed.

(* (b) every pass but the first fetches a block header strictly further into the file *)
Section Bounded.
Hypothesis file_bounded : forall off n bytes, file off n = RdOk bytes -> n = 0 \/ off + n <= fsize.

Lemma load_ok_in_file limit b pre content size :
  loadI limit b = LOk pre content size -> b + 2 <= fsize.
Proof.
  unfold load. destruct (file b 2) as [hb|] eqn:F; [|discriminate].
  intros _. destruct (file_bounded _ _ _ F); [discriminate|assumption].
Qed.

Definition psi (m : mr) : nat := (N.to_nat fsize + 1 - N.to_nat (m_next m))%nat.
Definition need (m : mr) : nat := if m_off m <? m_used m then (psi m + 3)%nat else (psi m + 2)%nat.

Lemma read_loop_no_fuel_pos fuel : forall m n acc,
  wf_limit m -> coherent m -> (need m <= fuel)%nat -> fst (read_loopT fuel m n acc) <> Fuel.
Proof.
  induction fuel as [|f IH]; intros m n acc W C Nd.
  - exfalso. unfold need in Nd. destruct (m_off m <? m_used m); lia.
  - cbn [read_loop].
    destruct (n =? 0); [cbn; discriminate|].
    pose proof (coherent_off m C) as O.
    rewrite (sub_size_t_le _ _ O).
    destruct (N.eqb_spec (m_used m - m_off m) 0) as [Z|NZ].
    + assert (Nm : need m = (psi m + 2)%nat).
      { unfold need. destruct (N.ltb_spec (m_off m) (m_used m)); [lia|reflexivity]. }
      destruct (coherent_seek m (m_next m) 0 W C) as (C1 & W1 & S1 & L1).
      pose proof (seek_not_fuel m (m_next m) 0) as NF.
      destruct (seekT m (m_next m) 0) as [r m1] eqn:SK. cbn [fst snd] in *.
      destruct r as [[]|e| |]; try (cbn; discriminate); [|contradiction].
      destruct (seek_ok_state m (m_next m) 0 m1 W C SK) as (_ & _ & T1 & O1 & U1 & c & s & HB).
      destruct HB as (_ & HB2 & (pre & LD) & _ & _ & HN).
      apply load_ok_in_file in LD.
      destruct (c10_meta_data_cap <? m_off m1 + N.min (m_used m1) n); [cbn; discriminate|].
      apply IH.
      * exact W1.
      * apply coherent_set_off; [exact C1|lia|]. right. unfold wf_limit in W1. lia.
      * assert (P : (psi m1 + 2 <= psi m)%nat).
        { unfold psi. rewrite HN, T1. lia. }
        unfold need. cbn [set_off m_off m_used m_next]. change (psi (set_off m1 (m_off m1 + N.min (m_used m1) n))) with (psi m1).
        destruct (m_off m1 + N.min (m_used m1) n <? m_used m1); lia.
    + assert (Nm : need m = (psi m + 3)%nat).
      { unfold need. destruct (N.ltb_spec (m_off m) (m_used m)); [reflexivity|lia]. }
      destruct (c10_meta_data_cap <? m_off m + N.min (m_used m - m_off m) n); [cbn; discriminate|].
      destruct (N.ltb_spec (m_off m + N.min (m_used m - m_off m) n) (m_used m)) as [Lt|Ge].
      * assert (Hn : n - N.min (m_used m - m_off m) n = 0) by lia.
        rewrite Hn. destruct f as [|f']; [lia|]. rewrite read_loop_zero. cbn; discriminate.
      * apply IH.
        -- exact W.
        -- apply coherent_set_off; [exact C|lia|].
           right. destruct C as [(T & U & Of & Nx)|(c & s & (_ & HB2 & _) & _)].
           ++ exfalso. rewrite U, Of, init_used_0, init_off_0 in NZ. lia.
           ++ unfold wf_limit in W. lia.
        -- unfold need. cbn [set_off m_off m_used].
           change (psi (set_off m (m_off m + N.min (m_used m - m_off m) n))) with (psi m).
           destruct (N.ltb_spec (m_off m + N.min (m_used m - m_off m) n) (m_used m)); lia.
Qed.

Lemma read_no_fuel m n : wf_limit m -> coherent m -> fst (readT m n) <> Fuel.
Proof.
  intros W C. unfold read, read_fuel.
  destruct (N.le_gt_cases n fsize) as [Le|Gt].
  - apply read_loop_no_fuel_n; [exact W|exact C|]. lia.
  - apply read_loop_no_fuel_pos; [exact W|exact C|].
    unfold need, psi. destruct (m_off m <? m_used m); lia.
Qed.

Lemma meta_read_total_l start limit ops n :
  limit <= c10_meta_init_tag ->
  fst (readT (snd (runT (mr_create start limit) ops)) n) <> Fuel.
Proof.
  intro H.
  destruct (coherent_run ops (mr_create start limit) (create_wf start limit H) (create_coherent start limit))
    as (C & W & _).
  apply read_no_fuel; assumption.
Qed.

End Bounded.

End MetaP.
