(* C10 — data_reader_copy (DataCopyModel.v): code as found (fx = false): exact when the cached blocks are full; keys, table, valid counts and
   valid bytes always preserved; NOT equivalent to its source when a short block is cached (witness).
   Repaired code (fx = true, F31): the copy's buffers are block_size long (reads stay inside), the copy is the source
   state whenever the source's buffers are clean (zeros beyond the valid count). *)
From Coq Require Import List NArith ZArith Bool Lia.
From SqfsV Require Import Gen.Constants Base.Bytes C10.GenC10 C10.MetaModel C10.MetaProofs C10.DataModel C10.DataCopyModel
  C10.CacheKeyProofs.
Import ListNotations.
Local Open Scope N_scope.

Lemma buf_copy_full bs b : buf_full b -> buf_copy false bs b = b.
Proof.
  destruct b as [l n]. unfold buf_full, buf_copy; cbn. intro H. subst n.
  rewrite len_nat, firstn_all. reflexivity.
Qed.

(* code as found: a reader whose cached blocks are full-size is copied exactly *)
Lemma data_copy_exact_when_full_l bs d : dr_full d -> dr_copy false bs d = d.
Proof.
  destruct d as [t [[[l w] b]|] [[i f]|]]; unfold dr_full, dr_copy; cbn [d_blk d_frag d_tbl]; intros [H1 H2];
    try rewrite (buf_copy_full bs b H1); try rewrite (buf_copy_full bs f H2); reflexivity.
Qed.

(* code as found: table, keys, valid counts and the valid bytes are those of the source *)
Lemma data_copy_preserves_l bs d :
  d_tbl (dr_copy false bs d) = d_tbl d /\
  option_map (fun x => (fst (fst x), snd (fst x), snd (snd x))) (d_blk (dr_copy false bs d)) =
    option_map (fun x => (fst (fst x), snd (fst x), snd (snd x))) (d_blk d) /\
  option_map (fun x => (fst x, snd (snd x))) (d_frag (dr_copy false bs d)) = option_map (fun x => (fst x, snd (snd x))) (d_frag d) /\
  (forall l w b, d_blk d = Some (l, w, b) -> firstn (N.to_nat (snd b)) (blk_buf (dr_copy false bs d)) = firstn (N.to_nat (snd b)) (fst b)) /\
  (forall i b, d_frag d = Some (i, b) -> firstn (N.to_nat (snd b)) (fst (frag_buf (dr_copy false bs d))) = firstn (N.to_nat (snd b)) (fst b)).
Proof.
  destruct d as [t [[[l w] b]|] [[i f]|]]; unfold dr_copy, blk_buf, frag_buf; cbn;
    repeat split; try reflexivity; intros; try discriminate;
    match goal with H : Some _ = Some _ |- _ => inversion H; subst end; cbn.
  all: rewrite firstn_firstn, Nat.min_id; reflexivity.
Qed.

(* ---- repaired code (F31) ---- *)
Lemma buf_copy_clean bs b : buf_clean bs b -> buf_copy true bs b = b.
Proof.
  destruct b as [l n]. unfold buf_clean, buf_copy; cbn. intro H. rewrite <- H. reflexivity.
Qed.

(* the copy IS the source state when the source's buffers hold zeros beyond their valid counts *)
Lemma data_copy_exact_l bs d : dr_clean bs d -> dr_copy true bs d = d.
Proof.
  destruct d as [t [[[l w] b]|] [[i f]|]]; unfold dr_clean, dr_copy; cbn [d_blk d_frag d_tbl]; intros [H1 H2];
    try rewrite (buf_copy_clean bs b H1); try rewrite (buf_copy_clean bs f H2); reflexivity.
Qed.

Lemma len_zeros n : len (zeros n) = n.
Proof. unfold len, zeros. rewrite repeat_length. apply N2Nat.id. Qed.

Lemma buf_copy_len bs b : buf_fits bs b -> len (fst (buf_copy true bs b)) = bs /\ snd (buf_copy true bs b) = snd b /\
  firstn (N.to_nat (snd b)) (fst (buf_copy true bs b)) = firstn (N.to_nat (snd b)) (fst b).
Proof.
  destruct b as [l n]. unfold buf_fits, buf_copy; cbn. intros [H1 H2].
  assert (L : length (firstn (N.to_nat n) l) = N.to_nat n).
  { rewrite firstn_length. unfold len in H1. lia. }
  repeat split.
  - unfold len. rewrite app_length, L. fold (len (zeros (bs - n))). 
    rewrite Nat2N.inj_add, N2Nat.id. fold (len (zeros (bs - n))). rewrite len_zeros. lia.
  - rewrite firstn_app, L, Nat.sub_diag. cbn. rewrite app_nil_r, firstn_firstn, Nat.min_id. reflexivity.
Qed.

(* always (clean or not): the copy's buffers are block_size bytes long, so every read the reader code makes at
   offset + diff <= block_size stays inside; keys, table, valid counts and valid bytes are the source's *)
Lemma data_copy_in_bounds_l bs d :
  dr_fits bs d ->
  d_tbl (dr_copy true bs d) = d_tbl d /\
  (forall l w b, d_blk d = Some (l, w, b) ->
     exists b', d_blk (dr_copy true bs d) = Some (l, w, b') /\ len (fst b') = bs /\ snd b' = snd b /\
                firstn (N.to_nat (snd b)) (fst b') = firstn (N.to_nat (snd b)) (fst b)) /\
  (forall i b, d_frag d = Some (i, b) ->
     exists b', d_frag (dr_copy true bs d) = Some (i, b') /\ len (fst b') = bs /\ snd b' = snd b /\
                firstn (N.to_nat (snd b)) (fst b') = firstn (N.to_nat (snd b)) (fst b)) /\
  (forall offset diff, d_blk d <> None -> offset + diff <= bs -> blk_read_in_bounds (dr_copy true bs d) offset diff = true).
Proof.
  intros [F1 F2]. split; [reflexivity|]. split; [|split].
  - intros l w b E. rewrite E in F1. unfold dr_copy. rewrite E. cbn [d_blk].
    exists (buf_copy true bs b). split; [reflexivity|]. apply buf_copy_len; exact F1.
  - intros i b E. rewrite E in F2. unfold dr_copy. rewrite E. cbn [d_frag].
    exists (buf_copy true bs b). split; [reflexivity|]. apply buf_copy_len; exact F2.
  - intros offset diff NE LE. unfold blk_read_in_bounds, blk_buf, dr_copy. cbn [d_blk].
    destruct (d_blk d) as [[[l w] b]|]; [|congruence].
    destruct (buf_copy_len bs b F1) as [L _]. destruct (buf_copy true bs b) as [cb cn]. cbn in *. rewrite L.
    apply N.leb_le. exact LE.
Qed.

(* the witness: block size 4; a raw (uncompressed-flag) data block of on-disk size 2 at location 0 of ck_img; an
   inode that says the file is 4 bytes long in that one block (a damaged image: a raw block shorter than the file
   needs).  A fresh reader answers 10 11 0 0 (get_block's buffer is block_size bytes, zero-filled) and stays inside
   its buffer; the copy of that reader (code as found) hits its cache (same key) and copies 4 bytes out of a 2-byte
   allocation. *)
Definition dc_inode : finode := mkFinode 4 0 0 0 [ck_flag + 2].
Lemma data_copy_short_block_refuted_l :
  exists img bs f,
    let d1 := snd (api_read ck_codec (read_at img) bs true dr_create f 0 4) in
    fst (api_read ck_codec (read_at img) bs true d1 f 0 4) = Ok [10; 11; 0; 0] /\
    blk_read_in_bounds d1 0 4 = true /\
    snd (precache_data ck_codec (read_at img) bs true (dr_copy false bs d1) 0 (ck_flag + 2)) = dr_copy false bs d1 /\
    blk_read_in_bounds (dr_copy false bs d1) 0 4 = false /\
    fst (api_read ck_codec (read_at img) bs true (dr_copy false bs d1) f 0 4) <> fst (api_read ck_codec (read_at img) bs true d1 f 0 4).
Proof.
  exists ck_img, 4, dc_inode. vm_compute. repeat split; try reflexivity. discriminate.
Qed.
