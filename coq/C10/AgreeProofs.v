(* C10 — the alternative file-data APIs agree on every file laid out the way the
   library writes files: stream == positional read == blocks ++ fragment. *)
From Coq Require Import List NArith ZArith Bool Lia.
From SqfsV Require Import Gen.Constants Base.Bytes C10.GenC10 C10.MetaModel C10.ClientModel
     C10.DataModel C10.DataProofs.
Import ListNotations.
Local Open Scope N_scope.

(* ---------------- list facts ---------------- *)

Lemma len_app (a b : list N) : len (a ++ b) = len a + len b.
Proof. unfold len. rewrite app_length. lia. Qed.

Lemma len_zeros k : len (zeros k) = k.
Proof. unfold len, zeros. rewrite repeat_length. lia. Qed.

Lemma length_zeros k : length (zeros k) = N.to_nat k.
Proof. unfold zeros. apply repeat_length. Qed.

Lemma zeros_0 : zeros 0 = [].
Proof. reflexivity. Qed.

Lemma skipn_repeat (x : N) a n : skipn a (repeat x n) = repeat x (n - a).
Proof.
  revert n. induction a as [|a IH]; intro n.
  - rewrite Nat.sub_0_r. reflexivity.
  - destruct n as [|n]; [reflexivity|]. cbn [repeat skipn]. rewrite IH. reflexivity.
Qed.

Lemma skipn_zeros a k : skipn a (zeros k) = zeros (k - N.of_nat a).
Proof. unfold zeros. rewrite skipn_repeat. f_equal. lia. Qed.

Lemma overwrite_zeros o k : overwrite o (zeros k) = o ++ zeros (k - len o).
Proof. unfold overwrite. rewrite skipn_zeros. reflexivity. Qed.

Lemma slice_0_app (c z : list N) : slice (c ++ z) 0 (len c) = c.
Proof.
  unfold slice. cbn [N.to_nat skipn]. unfold len. rewrite Nat2N.id.
  rewrite firstn_app, Nat.sub_diag, firstn_all. cbn. apply app_nil_r.
Qed.

Lemma firstn_len_app (c z : list N) : firstn (N.to_nat (len c)) (c ++ z) = c.
Proof.
  unfold len. rewrite Nat2N.id, firstn_app, Nat.sub_diag, firstn_all. cbn. apply app_nil_r.
Qed.

Lemma zeros_app a b : zeros a ++ zeros b = zeros (a + b).
Proof. unfold zeros. rewrite <- repeat_app. f_equal. lia. Qed.

Section Agree.
Variable uncompress : list N -> N -> uresult.
Variable file : N -> N -> rd_res.
Variable fsize : N.
Variable bs : N.
Hypothesis bs_pos : 0 < bs.
(* a successful read_at delivers exactly the requested number of bytes *)
Hypothesis file_len : forall off n b, file off n = RdOk b -> len b = n.

Notation getb := (get_block uncompress file).

(* "the block stored at [off] with size word [w] unpacks to [c]", in terms of the file
   and the decompressor only.  For a compressed block the decompressor must deliver c
   whatever output space >= |c| it is offered (the three readers offer different sizes). *)
Inductive unpacks (off w : N) (c : list N) : Prop :=
| up_sparse : is_sparse w = true -> c = zeros (len c) -> unpacks off w c
| up_stored : is_sparse w = false -> is_compressed w = false -> on_disk w = len c ->
              file off (on_disk w) = RdOk c -> unpacks off w c
| up_packed raw : is_sparse w = false -> is_compressed w = true -> on_disk w <= len c ->
              file off (on_disk w) = RdOk raw ->
              (forall k, len c <= k -> exists rest, uncompress raw k = UOk c rest) -> unpacks off w c.

Definition usz (w : N) (c : list N) (k : N) : N := if is_sparse w then k else len c.

Lemma getb_unpacks off w c k :
  unpacks off w c -> 0 < len c -> len c <= k ->
  exists z, getb off w k = Ok (c ++ z, usz w c k).
Proof.
  intros U P K. unfold get_block, usz.
  destruct U as [S Z|S C O F|raw S C O F D]; rewrite S.
  - exists (zeros (k - len c)). f_equal. f_equal. rewrite Z at 1. rewrite zeros_app. f_equal. lia.
  - destruct (N.ltb_spec k (on_disk w)); [lia|]. rewrite F, C, O, overwrite_zeros. eauto.
  - destruct (N.ltb_spec k (on_disk w)); [lia|]. rewrite F, C.
    destruct (D k K) as [rest E]. rewrite E.
    destruct (N.eqb_spec (len c) 0); [lia|].
    destruct (N.ltb_spec k (len c)); [lia|]. rewrite overwrite_zeros, <- app_assoc. eauto.
Qed.

(* ---------------- a file as the library lays it out ---------------- *)

(* consecutive blocks from [off]: every block but possibly the last is full *)
Fixpoint layout (off : N) (ws : list N) (cs : list (list N)) : Prop :=
  match ws, cs with
  | [], [] => True
  | w :: ws', c :: cs' =>
    unpacks off w c /\ 0 < len c /\ len c <= bs /\ (cs' <> [] -> len c = bs) /\
    off + on_disk w < u64m /\ layout (off + on_disk w) ws' cs'
  | _, _ => False
  end.

Definition total (cs : list (list N)) : N := len (concat cs).

Record wf_file (tbl : list (N * N)) (f : finode) (cs : list (list N)) (tail : list N) : Prop := {
  wf_layout : layout (f_start f) (f_blocks f) cs;
  wf_size : f_size f = total cs + len tail;
  wf_small : f_size f < 2147483647;
  wf_tail : tail = [] \/
            (Forall (fun c => len c = bs) cs /\ 0 < len tail /\ len tail < bs /\
             exists fb fsz, frag_lookup uncompress file bs tbl (f_frag_idx f) = Ok (fb, fsz) /\
                            f_frag_off f + len tail <= fsz /\ fsz <= bs /\
                            slice fb (f_frag_off f) (len tail) = tail)
}.


Lemma total_cons c cs : total (c :: cs) = len c + total cs.
Proof. unfold total. cbn [concat]. apply len_app. Qed.

Lemma total_nil : total [] = 0.
Proof. reflexivity. Qed.

(* ---------------- per-block access ---------------- *)

Lemma block_pos_layout : forall ws cs off filesz t i,
  layout off ws cs -> filesz = total cs + t -> filesz < u64m ->
  (t = 0 \/ Forall (fun c => len c = bs) cs) ->
  (i < length ws)%nat ->
  exists off' fs' w c,
    block_pos bs ws i off filesz = Some (off', fs', w) /\ nth_error cs i = Some c /\
    unpacks off' w c /\ 0 < len c /\ (if fs' <? bs then fs' else bs) = len c.
Proof.
  induction ws as [|w ws IH]; intros cs off filesz t i L F B T I; [cbn in I; lia|].
  destruct cs as [|c cs]; [contradiction|].
  destruct L as (U & P & Le & Full & NoWrap & L').
  destruct i as [|i].
  - exists off, filesz, w, c. cbn [block_pos nth_error]. repeat split; auto.
    rewrite total_cons in F.
    destruct cs as [|c2 cs2].
    + rewrite total_nil in F. destruct T as [T|T].
      * subst t. replace filesz with (len c) by lia.
        destruct (N.ltb_spec (len c) bs); lia.
      * apply Forall_inv in T. destruct (N.ltb_spec filesz bs); lia.
    + assert (len c = bs) by (apply Full; discriminate).
      destruct (N.ltb_spec filesz bs); lia.
  - cbn [block_pos nth_error].
    assert (cs <> []) by (destruct cs; [destruct ws; cbn in I, L'; [lia|contradiction]|discriminate]).
    assert (E : len c = bs) by (apply Full; assumption).
    rewrite total_cons in F.
    assert (BS : bs < u64m) by lia.
    replace ((off + on_disk w) mod u64m) with (off + on_disk w) by (symmetry; apply N.mod_small; exact NoWrap).
    replace ((filesz + u64m - bs mod u64m) mod u64m) with (filesz - bs).
    2:{ rewrite (N.mod_small bs u64m BS).
        replace (filesz + u64m - bs) with ((filesz - bs) + 1 * u64m) by lia.
        rewrite N.mod_add by discriminate. symmetry. apply N.mod_small. lia. }
    apply (IH cs (off + on_disk w) (filesz - bs) t i L').
    + lia.
    + lia.
    + destruct T as [T|T]; [left; exact T|right; apply Forall_inv_tail in T; exact T].
    + cbn in I. lia.
Qed.

Lemma layout_length : forall ws cs off, layout off ws cs -> length ws = length cs.
Proof.
  induction ws as [|w ws IH]; intros [|c cs] off L; cbn in L; try contradiction; [reflexivity|].
  destruct L as (_ & _ & _ & _ & _ & L'). cbn. f_equal. eapply IH; exact L'.
Qed.

Lemma tail_cases tbl f cs tail :
  wf_file tbl f cs tail -> len tail = 0 \/ Forall (fun c => len c = bs) cs.
Proof. intros W. destruct (wf_tail _ _ _ _ W) as [E|(F & _)]; [left; subst; reflexivity|right; exact F]. Qed.

(* sqfs_data_reader_get_block(i) delivers block i *)
Lemma agree_get_block tbl f cs tail i :
  wf_file tbl f cs tail -> (i < length cs)%nat ->
  api_get_block uncompress file bs f (N.of_nat i) = Ok (nth i cs []).
Proof.
  intros W I. pose proof (wf_layout _ _ _ _ W) as L.
  pose proof (layout_length _ _ _ L) as EL.
  unfold api_get_block.
  destruct (N.leb_spec (len (f_blocks f)) (N.of_nat i)) as [Bad|_].
  { unfold len in Bad. lia. }
  rewrite Nat2N.id.
  assert (SZ : f_size f < u64m).
  { pose proof (wf_small _ _ _ _ W). unfold u64m. lia. }
  destruct (block_pos_layout (f_blocks f) cs (f_start f) (f_size f) (len tail) i L (wf_size _ _ _ _ W) SZ
              (tail_cases _ _ _ _ W) ltac:(lia))
    as (off' & fs' & w & c & BP & NE & U & P & UN).
  rewrite BP, UN.
  destruct (getb_unpacks off' w c (len c) U P ltac:(lia)) as [z G]. rewrite G.
  rewrite (nth_error_nth _ _ _ NE).
  f_equal. unfold usz. destruct (is_sparse w); apply firstn_len_app.
Qed.


(* ---------------- sizes ---------------- *)

Lemma layout_total_le : forall ws cs off, layout off ws cs -> total cs <= N.of_nat (length cs) * bs.
Proof.
  induction ws as [|w ws IH]; intros [|c cs] off L; cbn in L; try contradiction.
  - rewrite total_nil. lia.
  - destruct L as (_ & _ & Le & _ & _ & L'). rewrite total_cons. specialize (IH cs _ L').
    cbn [length]. lia.
Qed.

Lemma full_total cs : Forall (fun c => len c = bs) cs -> total cs = N.of_nat (length cs) * bs.
Proof.
  induction cs as [|c cs IH]; intro F.
  - rewrite total_nil. cbn. lia.
  - rewrite total_cons. rewrite (Forall_inv F), (IH (Forall_inv_tail F)). cbn [length]. lia.
Qed.

Lemma layout_total_ge : forall ws cs off,
  layout off ws cs -> N.of_nat (length cs) * bs <= total cs + bs.
Proof.
  induction ws as [|w ws IH]; intros [|c cs] off L; cbn in L; try contradiction.
  - rewrite total_nil. cbn. lia.
  - destruct L as (_ & P & Le & Full & _ & L'). rewrite total_cons. specialize (IH cs _ L').
    destruct cs as [|c2 cs2].
    + rewrite total_nil. cbn [length]. lia.
    + assert (len c = bs) by (apply Full; discriminate). cbn [length] in *. lia.
Qed.

Lemma layout_pos : forall ws cs off, layout off ws cs -> cs <> [] -> 0 < total cs.
Proof.
  intros [|w ws] [|c cs] off L NE; cbn in L; try contradiction; try congruence.
  destruct L as (_ & P & _). rewrite total_cons. lia.
Qed.

(* ---------------- the fragment ---------------- *)

Notation dcoh := (dcoherent uncompress file bs).

Lemma agree_get_fragment tbl f cs tail d :
  wf_file tbl f cs tail -> dcoh d -> d_tbl d = tbl ->
  fst (api_get_fragment uncompress file bs d f) = Ok tail.
Proof.
  intros W C T. pose proof (wf_layout _ _ _ _ W) as L.
  pose proof (layout_length _ _ _ L) as EL.
  pose proof (layout_total_le _ _ _ L) as TL.
  unfold api_get_fragment. unfold len at 1. rewrite EL.
  destruct (wf_tail _ _ _ _ W) as [E|(F & P & Lt & fb & fsz & FL & B1 & B2 & SL)].
  - subst tail. destruct (N.leb_spec (f_size f) (N.of_nat (length cs) * bs)) as [_|Bad]; [reflexivity|].
    rewrite (wf_size _ _ _ _ W) in Bad. cbn in Bad. lia.
  - pose proof (full_total cs F) as FT.
    destruct (N.leb_spec (f_size f) (N.of_nat (length cs) * bs)) as [Bad|_].
    { rewrite (wf_size _ _ _ _ W) in Bad. lia. }
    assert (M : f_size f mod bs = len tail).
    { rewrite (wf_size _ _ _ _ W), FT. rewrite N.add_comm, N.mod_add by lia. apply N.mod_small. exact Lt. }
    rewrite M.
    destruct (precache_frag uncompress file bs d (f_frag_idx f)) as [r d'] eqn:PF.
    destruct (pfrag_char uncompress file bs d _ r d' C PF) as (R1 & R2 & R3 & R4).
    rewrite T, FL in R1, R4. cbn in R1. subst r.
    rewrite (R4 _ eq_refl). cbn [fst snd].
    destruct (N.ltb_spec fsz (f_frag_off f + len tail)); [lia|].
    cbn. rewrite SL. reflexivity.
Qed.

(* ---------------- positional read ---------------- *)

Notation pdata := (precache_data uncompress file bs true).
Notation copyb := (copy_blocks uncompress file bs true).

Lemma sparse_on_disk w : is_sparse w = true -> on_disk w = 0.
Proof. unfold is_sparse. intro H. apply N.eqb_eq. exact H. Qed.

Lemma copy_blocks_layout : forall ws cs d off size acc t,
  dcoh d -> layout off ws cs -> size = total cs + t ->
  (t = 0 \/ Forall (fun c => len c = bs) cs) ->
  exists d', copyb d ws off 0 size acc = (Ok (acc ++ concat cs, 0, t), d') /\ dcoh d' /\ d_tbl d' = d_tbl d.
Proof.
  induction ws as [|w ws IH]; intros cs d off size acc t C L S T.
  - destruct cs; [|contradiction]. rewrite total_nil in S. cbn. exists d.
    rewrite app_nil_r. replace size with t by lia. auto.
  - destruct cs as [|c cs]; [contradiction|].
    destruct L as (U & P & Le & Full & NoWrap & L').
    rewrite total_cons in S.
    cbn [copy_blocks].
    destruct (N.eqb_spec size 0) as [Z|NZ]; [lia|].
    rewrite N.sub_0_r.
    assert (D : N.min bs size = len c).
    { destruct cs as [|c2 cs2].
      - rewrite total_nil in S. destruct T as [T|T]; [lia|]. apply Forall_inv in T. lia.
      - assert (len c = bs) by (apply Full; discriminate). lia. }
    rewrite D.
    assert (T' : t = 0 \/ Forall (fun c0 => len c0 = bs) cs).
    { destruct T as [T|T]; [left; exact T|right; apply Forall_inv_tail in T; exact T]. }
    cbn [concat]. rewrite app_assoc.
    destruct (is_sparse w) eqn:SP.
    + assert (Zc : c = zeros (len c)).
      { destruct U as [_ Z|S1 _ _ _|raw S1 _ _ _ _]; [exact Z|congruence|congruence]. }
      rewrite <- Zc.
      rewrite (sparse_on_disk w SP), N.add_0_r in L'.
      apply (IH cs d off (size - len c) (acc ++ c) t C L'); [lia|exact T'].
    + destruct (pdata d off w) as [r d1] eqn:PD.
      destruct (pdata_char uncompress file bs d off w r d1 C PD) as (R1 & R2 & R3 & R4).
      destruct (getb_unpacks off w c bs U P Le) as [z G].
      rewrite G in R1, R4. cbn in R1. subst r.
      rewrite (R4 _ eq_refl). cbn [fst].
      rewrite slice_0_app.
      replace ((off + on_disk w) mod u64m) with (off + on_disk w) by (symmetry; apply N.mod_small; exact NoWrap).
      destruct (IH cs d1 (off + on_disk w) (size - len c) (acc ++ c) t R2 L' ltac:(lia) T') as (d' & E & C' & Tb).
      exists d'. split; [exact E|]. split; [exact C'|congruence].
Qed.

Lemma agree_read tbl f cs tail d :
  wf_file tbl f cs tail -> dcoh d -> d_tbl d = tbl ->
  fst (api_read uncompress file bs true d f 0 (f_size f)) = Ok (concat cs ++ tail).
Proof.
  intros W C T. pose proof (wf_layout _ _ _ _ W) as L.
  pose proof (wf_small _ _ _ _ W) as Sm. pose proof (wf_size _ _ _ _ W) as Sz.
  unfold api_read.
  destruct (N.leb_spec 2147483647 (f_size f)); [lia|].
  destruct (N.leb_spec (f_size f) 0) as [Z|NZ].
  { (* empty file *)
    assert (total cs = 0 /\ len tail = 0) as [Tc Tt] by lia.
    destruct cs as [|c cs].
    - destruct tail; [reflexivity|unfold len in Tt; cbn in Tt; lia].
    - pose proof (layout_pos _ _ _ L ltac:(discriminate)). lia. }
  rewrite N.sub_0_r.
  destruct (N.ltb_spec (f_size f) (f_size f)); [lia|].
  destruct (N.eqb_spec (f_size f) 0); [lia|].
  assert (SK : skip_blocks bs (f_blocks f) (f_start f) 0 = (f_blocks f, f_start f, 0)).
  { destruct (f_blocks f); cbn; [reflexivity|]. destruct (N.ltb_spec bs 0); [lia|reflexivity]. }
  rewrite SK.
  destruct (copy_blocks_layout (f_blocks f) cs d (f_start f) (f_size f) [] (len tail) C L Sz (tail_cases _ _ _ _ W))
    as (d1 & E & C1 & T1).
  rewrite E. cbn [app].
  destruct (wf_tail _ _ _ _ W) as [Et|(F & P & Lt & fb & fsz & FL & B1 & B2 & SL)].
  - subst tail. cbn. rewrite app_nil_r. reflexivity.
  - destruct (N.eqb_spec (len tail) 0); [lia|].
    destruct (precache_frag uncompress file bs d1 (f_frag_idx f)) as [r d2] eqn:PF.
    destruct (pfrag_char uncompress file bs d1 _ r d2 C1 PF) as (R1 & R2 & R3 & R4).
    rewrite T1, T, FL in R1, R4. cbn in R1. subst r.
    rewrite (R4 _ eq_refl). rewrite N.add_0_r.
    destruct (N.leb_spec fsz (f_frag_off f)); [lia|].
    destruct (N.ltb_spec (fsz - f_frag_off f) (len tail)); [lia|].
    cbn. rewrite SL. reflexivity.
Qed.


(* ---------------- the stream ---------------- *)

Notation sloop := (stream_read_loop uncompress file bs).
Notation refill := (stream_refill uncompress file bs).

Lemma slice_all (c : list N) : slice c 0 (len c) = c.
Proof. rewrite <- (app_nil_r c) at 1. apply slice_0_app. Qed.

Lemma len_0_nil (l : list N) : len l = 0 -> l = [].
Proof. destruct l; [reflexivity|]. unfold len. cbn. lia. Qed.

(* refilling the stream buffer from the next block *)
Lemma refill_block d s w ws c :
  s_blocks s = w :: ws -> unpacks (s_disk_off s) w c -> 0 < len c -> len c <= bs ->
  s_filesz s <> 0 -> (if s_filesz s <? bs then s_filesz s else bs) = len c ->
  refill d s =
  (Ok true, mkStream (s_filesz s - len c) ((s_disk_off s + on_disk w) mod u64m) ws (s_frag_idx s) (s_frag_off s) c 0, d).
Proof.
  intros B U P Le NZ Used. unfold stream_refill.
  destruct (N.eqb_spec (s_filesz s) 0); [contradiction|].
  rewrite B, Used.
  destruct U as [S Z|S C O F|raw S C O F D].
  - unfold is_sparse in S. rewrite S. cbn. rewrite <- Z. reflexivity.
  - unfold is_sparse in S. rewrite S.
    destruct (N.ltb_spec bs (on_disk w)); [lia|].
    rewrite F, C. cbn. rewrite O, N.sub_diag, zeros_0, app_nil_r.
    unfold len. rewrite Nat2N.id, firstn_all. reflexivity.
  - unfold is_sparse in S. rewrite S.
    destruct (N.ltb_spec bs (on_disk w)); [lia|].
    rewrite F, C. destruct (D (len c) ltac:(lia)) as [rest E]. rewrite E.
    destruct (N.eqb_spec (len c) 0); [lia|].
    destruct (N.ltb_spec (len c) (len c)); [lia|].
    cbn. rewrite N.sub_diag, zeros_0, app_nil_r. reflexivity.
Qed.

(* what the tail of the file needs from the fragment table *)
Definition tail_ok (tbl : list (N * N)) (idx off : N) (tail : list N) : Prop :=
  tail = [] \/
  (0 < len tail /\ len tail < bs /\
   exists fb fsz, frag_lookup uncompress file bs tbl idx = Ok (fb, fsz) /\
                  off + len tail <= fsz /\ slice fb off (len tail) = tail).

Lemma stream_tail tbl fuel d s n acc tail :
  dcoh d -> d_tbl d = tbl -> s_blocks s = [] -> s_filesz s = len tail ->
  len (s_buf s) <= s_buf_off s -> tail_ok tbl (s_frag_idx s) (s_frag_off s) tail ->
  len tail <= n -> (3 <= fuel)%nat ->
  fst (fst (sloop fuel d s n acc)) = Ok (acc ++ tail).
Proof.
  intros C T B Fs Ex TO Nn Fu.
  destruct fuel as [|[|[|fuel]]]; try lia.
  cbn [stream_read_loop].
  destruct (N.eqb_spec n 0) as [Zn|NZn].
  { assert (tail = []) by (apply len_0_nil; lia). subst tail. cbn. rewrite app_nil_r. reflexivity. }
  destruct (N.ltb_spec (s_buf_off s) (len (s_buf s))); [lia|].
  destruct TO as [E|(P & Lt & fb & fsz & FL & B1 & SL)].
  - subst tail. unfold stream_refill. rewrite Fs. cbn. rewrite app_nil_r. reflexivity.
  - unfold stream_refill. rewrite Fs, B.
    destruct (N.eqb_spec (len tail) 0); [lia|].
    destruct (N.ltb_spec (len tail) bs); [|lia].
    destruct (precache_frag uncompress file bs d (s_frag_idx s)) as [r d1] eqn:PF.
    destruct (pfrag_char uncompress file bs d _ r d1 C PF) as (R1 & R2 & R3 & R4).
    rewrite T, FL in R1, R4. cbn in R1. subst r. rewrite (R4 _ eq_refl).
    destruct (N.ltb_spec fsz (s_frag_off s)); [lia|].
    destruct (N.ltb_spec (fsz - s_frag_off s) (len tail)); [lia|].
    cbn [orb]. rewrite SL, N.sub_diag.
    (* second pass: take the buffered tail *)
    cbn [stream_read_loop s_buf s_buf_off s_filesz s_disk_off s_blocks s_frag_idx s_frag_off].
    destruct (N.eqb_spec n 0); [contradiction|].
    destruct (N.ltb_spec 0 (len tail)); [|lia].
    rewrite N.sub_0_r, N.add_0_l.
    replace (N.min (len tail) n) with (len tail) by lia.
    rewrite slice_all.
    (* third pass: done, or end of file *)
    destruct (N.eqb_spec (n - len tail) 0); [reflexivity|].
    destruct (N.ltb_spec (len tail) (len tail)); [lia|].
    unfold stream_refill. cbn. reflexivity.
Qed.

Lemma stream_loop_layout tbl tail : forall ws cs fuel d s n acc,
  dcoh d -> d_tbl d = tbl ->
  s_blocks s = ws -> layout (s_disk_off s) ws cs ->
  s_filesz s = total cs + len tail -> len (s_buf s) <= s_buf_off s ->
  (len tail = 0 \/ Forall (fun c => len c = bs) cs) ->
  tail_ok tbl (s_frag_idx s) (s_frag_off s) tail ->
  total cs + len tail <= n -> (2 * length ws + 3 <= fuel)%nat ->
  fst (fst (sloop fuel d s n acc)) = Ok (acc ++ concat cs ++ tail).
Proof.
  induction ws as [|w ws IH]; intros cs fuel d s n acc C T B L Fs Ex TC TO Nn Fu.
  - destruct cs; [|contradiction]. rewrite total_nil in Fs, Nn. cbn [concat app].
    apply (stream_tail tbl); auto; cbn in Fu; lia.
  - destruct cs as [|c cs]; [contradiction|].
    destruct L as (U & P & Le & Full & NoWrap & L').
    rewrite total_cons in Fs, Nn.
    assert (Used : (if s_filesz s <? bs then s_filesz s else bs) = len c).
    { destruct cs as [|c2 cs2].
      - rewrite total_nil in Fs. destruct TC as [TC|TC].
        + replace (s_filesz s) with (len c) by lia. destruct (N.ltb_spec (len c) bs); lia.
        + apply Forall_inv in TC. destruct (N.ltb_spec (s_filesz s) bs); lia.
      - assert (len c = bs) by (apply Full; discriminate).
        destruct (N.ltb_spec (s_filesz s) bs); lia. }
    destruct fuel as [|[|fuel]]; try (cbn in Fu; lia).
    cbn [stream_read_loop].
    destruct (N.eqb_spec n 0); [lia|].
    destruct (N.ltb_spec (s_buf_off s) (len (s_buf s))); [lia|].
    rewrite (refill_block d s w ws c B U P Le ltac:(lia) Used).
    cbn [stream_read_loop s_buf s_buf_off s_filesz s_disk_off s_blocks s_frag_idx s_frag_off].
    destruct (N.eqb_spec n 0); [lia|].
    destruct (N.ltb_spec 0 (len c)); [|lia].
    rewrite N.sub_0_r, N.add_0_l.
    replace (N.min (len c) n) with (len c) by lia.
    rewrite slice_all.
    cbn [concat]. rewrite <- app_assoc, app_assoc.
    apply IH; cbn [s_buf s_buf_off s_filesz s_disk_off s_blocks s_frag_idx s_frag_off]; auto.
    + rewrite N.mod_small by exact NoWrap. exact L'.
    + lia.
    + lia.
    + destruct TC as [TC|TC]; [left; exact TC|right; apply Forall_inv_tail in TC; exact TC].
    + lia.
    + cbn [length] in Fu. lia.
Qed.

(* sqfs_istream_read on a new stream, asking for at least the whole file *)
Lemma agree_stream tbl f cs tail d n :
  wf_file tbl f cs tail -> dcoh d -> d_tbl d = tbl -> f_size f <= n ->
  fst (fst (stream_read uncompress file bs d (stream_create f) n)) = Ok (concat cs ++ tail).
Proof.
  intros W C T Nn. pose proof (wf_layout _ _ _ _ W) as L.
  pose proof (wf_small _ _ _ _ W) as Sm. pose proof (wf_size _ _ _ _ W) as Sz.
  unfold stream_read.
  set (n' := if 2147483647 <? n then 2147483647 else n).
  assert (Nn' : f_size f <= n') by (unfold n'; destruct (N.ltb_spec 2147483647 n); lia).
  destruct (N.eqb_spec bs 0); [lia|].
  change (Ok (concat cs ++ tail)) with (Ok ([] ++ concat cs ++ tail)).
  apply (stream_loop_layout tbl tail (f_blocks f) cs); cbn [stream_create s_buf s_buf_off s_filesz s_disk_off s_blocks s_frag_idx s_frag_off]; auto.
  - cbn. lia.
  - apply (tail_cases _ _ _ _ W).
  - destruct (wf_tail _ _ _ _ W) as [E|(F & P & Lt & fb & fsz & FL & B1 & B2 & SL)]; [left; exact E|].
    right. split; [exact P|]. split; [exact Lt|]. exists fb, fsz. auto.
  - lia.
  - pose proof (layout_total_ge _ _ _ L) as G. pose proof (layout_length _ _ _ L) as EL.
    assert (Q : N.of_nat (length cs) <= n' / bs + 1).
    { destruct (N.le_gt_cases (N.of_nat (length cs)) (n' / bs + 1)) as [|Gt]; [assumption|exfalso].
      assert (M : (n' / bs + 2) * bs <= N.of_nat (length cs) * bs) by (apply N.mul_le_mono_r; lia).
      rewrite N.mul_add_distr_r in M.
      pose proof (N.div_mod n' bs ltac:(lia)) as DM. rewrite (N.mul_comm bs) in DM.
      pose proof (N.mod_lt n' bs ltac:(lia)). lia. }
    rewrite EL. lia.
Qed.

End Agree.

(* every image satisfies the hypothesis on the file *)
Lemma read_at_len (img : list N) off n b : read_at img off n = RdOk b -> len b = n.
Proof.
  unfold read_at.
  destruct (N.eqb_spec n 0) as [Z|NZ]; [intro H; inversion H; subst; reflexivity|].
  destruct (off_t_limit <=? off); [discriminate|].
  destruct (N.leb_spec (off + n) (len img)) as [Le|]; [|discriminate].
  intro H; inversion H; subst b; clear H.
  unfold slice, len in *. rewrite firstn_length, skipn_length. lia.
Qed.
