(* C10 — the alternative file-data APIs agree on every file laid out the way the
   library writes files: stream == positional read == blocks ++ fragment. *)
From Coq Require Import List NArith ZArith Bool Lia.
From SqfsV Require Import Gen.Constants Base.Bytes C10.GenC10 C10.MetaModel C10.ClientModel
     C10.DataModel C10.DataProofs.
Import ListNotations.
Local Open Scope N_scope.

(* ---------------- list facts ---------------- *)

Lemma len_app (a b : list N) : len (a ++ b) = len a + len b.
Proof. unfold len. rewrite app_length. lia. Qed.

Lemma len_zeros k : len (zeros k) = k.
Proof. unfold len, zeros. rewrite repeat_length. lia. Qed.

Lemma length_zeros k : length (zeros k) = N.to_nat k.
Proof. unfold zeros. apply repeat_length. Qed.

Lemma zeros_0 : zeros 0 = [].
Proof. reflexivity. Qed.

Lemma skipn_repeat (x : N) a n : skipn a (repeat x n) = repeat x (n - a).
Proof.
  revert n. induction a as [|a IH]; intro n.
  - rewrite Nat.sub_0_r. reflexivity.
  - destruct n as [|n]; [reflexivity|]. cbn [repeat skipn]. rewrite IH. reflexivity.
Qed.

Lemma skipn_zeros a k : skipn a (zeros k) = zeros (k - N.of_nat a).
Proof. unfold zeros. rewrite skipn_repeat. f_equal. lia. Qed.

Lemma overwrite_zeros o k : overwrite o (zeros k) = o ++ zeros (k - len o).
Proof. unfold overwrite. rewrite skipn_zeros. reflexivity. Qed.

Lemma slice_0_app (c z : list N) : slice (c ++ z) 0 (len c) = c.
Proof.
  unfold slice. cbn [N.to_nat skipn]. unfold len. rewrite Nat2N.id.
  rewrite firstn_app, Nat.sub_diag, firstn_all. cbn. apply app_nil_r.
Qed.

Lemma firstn_len_app (c z : list N) : firstn (N.to_nat (len c)) (c ++ z) = c.
Proof.
  unfold len. rewrite Nat2N.id, firstn_app, Nat.sub_diag, firstn_all. cbn. apply app_nil_r.
Qed.

Lemma zeros_app a b : zeros a ++ zeros b = zeros (a + b).
Proof. unfold zeros. rewrite <- repeat_app. f_equal. lia. Qed.

Section Agree.
Variable uncompress : list N -> N -> uresult.
Variable file : N -> N -> rd_res.
Variable fsize : N.
Variable bs : N.
Hypothesis bs_pos : 0 < bs.
(* a successful read_at delivers exactly the requested number of bytes *)
Hypothesis file_len : forall off n b, file off n = RdOk b -> len b = n.

Notation getb := (get_block uncompress file).

(* "the block stored at [off] with size word [w] unpacks to [c]", in terms of the file
   and the decompressor only.  For a compressed block the decompressor must deliver c
   whatever output space >= |c| it is offered (the three readers offer different sizes). *)
Inductive unpacks (off w : N) (c : list N) : Prop :=
| up_sparse : is_sparse w = true -> c = zeros (len c) -> unpacks off w c
| up_stored : is_sparse w = false -> is_compressed w = false -> on_disk w = len c ->
              file off (on_disk w) = RdOk c -> unpacks off w c
| up_packed raw : is_sparse w = false -> is_compressed w = true -> on_disk w <= len c ->
              file off (on_disk w) = RdOk raw ->
              (forall k, len c <= k -> uncompress raw k = UOk c) -> unpacks off w c.

Definition usz (w : N) (c : list N) (k : N) : N := if is_sparse w then k else len c.

Lemma getb_unpacks off w c k :
  unpacks off w c -> 0 < len c -> len c <= k ->
  getb off w k = Ok (c ++ zeros (k - len c), usz w c k).
Proof.
  intros U P K. unfold get_block, usz.
  destruct U as [S Z|S C O F|raw S C O F D]; rewrite S.
  - f_equal. f_equal. rewrite Z at 1. rewrite zeros_app. f_equal. lia.
  - destruct (N.ltb_spec k (on_disk w)); [lia|]. rewrite F, C, O, overwrite_zeros. reflexivity.
  - destruct (N.ltb_spec k (on_disk w)); [lia|]. rewrite F, C, (D k K).
    destruct (N.eqb_spec (len c) 0); [lia|].
    destruct (N.ltb_spec k (len c)); [lia|]. rewrite overwrite_zeros. reflexivity.
Qed.

(* ---------------- a file as the library lays it out ---------------- *)

(* consecutive blocks from [off]: every block but possibly the last is full *)
Fixpoint layout (off : N) (ws : list N) (cs : list (list N)) : Prop :=
  match ws, cs with
  | [], [] => True
  | w :: ws', c :: cs' =>
    unpacks off w c /\ 0 < len c /\ len c <= bs /\ (cs' <> [] -> len c = bs) /\
    off + on_disk w < u64m /\ layout (off + on_disk w) ws' cs'
  | _, _ => False
  end.

Definition total (cs : list (list N)) : N := len (concat cs).

Record wf_file (tbl : list (N * N)) (f : finode) (cs : list (list N)) (tail : list N) : Prop := {
  wf_layout : layout (f_start f) (f_blocks f) cs;
  wf_size : f_size f = total cs + len tail;
  wf_small : f_size f < 2147483647;
  wf_tail : tail = [] \/
            (Forall (fun c => len c = bs) cs /\ 0 < len tail /\ len tail < bs /\
             exists fb fsz, frag_lookup uncompress file bs tbl (f_frag_idx f) = Ok (fb, fsz) /\
                            f_frag_off f + len tail <= fsz /\ fsz <= bs /\
                            slice fb (f_frag_off f) (len tail) = tail)
}.


Lemma total_cons c cs : total (c :: cs) = len c + total cs.
Proof. unfold total. cbn [concat]. apply len_app. Qed.

Lemma total_nil : total [] = 0.
Proof. reflexivity. Qed.

(* ---------------- per-block access ---------------- *)

Lemma block_pos_layout : forall ws cs off filesz t i,
  layout off ws cs -> filesz = total cs + t -> filesz < u64m ->
  (t = 0 \/ Forall (fun c => len c = bs) cs) ->
  (i < length ws)%nat ->
  exists off' fs' w c,
    block_pos bs ws i off filesz = Some (off', fs', w) /\ nth_error cs i = Some c /\
    unpacks off' w c /\ 0 < len c /\ (if fs' <? bs then fs' else bs) = len c.
Proof.
  induction ws as [|w ws IH]; intros cs off filesz t i L F B T I; [cbn in I; lia|].
  destruct cs as [|c cs]; [contradiction|].
  destruct L as (U & P & Le & Full & NoWrap & L').
  destruct i as [|i].
  - exists off, filesz, w, c. cbn [block_pos nth_error]. repeat split; auto.
    rewrite total_cons in F.
    destruct cs as [|c2 cs2].
    + rewrite total_nil in F. destruct T as [T|T].
      * subst t. replace filesz with (len c) by lia.
        destruct (N.ltb_spec (len c) bs); lia.
      * apply Forall_inv in T. destruct (N.ltb_spec filesz bs); lia.
    + assert (len c = bs) by (apply Full; discriminate).
      destruct (N.ltb_spec filesz bs); lia.
  - cbn [block_pos nth_error].
    assert (cs <> []) by (destruct cs; [destruct ws; cbn in I, L'; [lia|contradiction]|discriminate]).
    assert (E : len c = bs) by (apply Full; assumption).
    rewrite total_cons in F.
    assert (BS : bs < u64m) by lia.
    replace ((off + on_disk w) mod u64m) with (off + on_disk w) by (symmetry; apply N.mod_small; exact NoWrap).
    replace ((filesz + u64m - bs mod u64m) mod u64m) with (filesz - bs).
    2:{ rewrite (N.mod_small bs u64m BS).
        replace (filesz + u64m - bs) with ((filesz - bs) + 1 * u64m) by lia.
        rewrite N.mod_add by discriminate. symmetry. apply N.mod_small. lia. }
    apply (IH cs (off + on_disk w) (filesz - bs) t i L').
    + lia.
    + lia.
    + destruct T as [T|T]; [left; exact T|right; apply Forall_inv_tail in T; exact T].
    + cbn in I. lia.
Qed.

Lemma layout_length : forall ws cs off, layout off ws cs -> length ws = length cs.
Proof.
  induction ws as [|w ws IH]; intros [|c cs] off L; cbn in L; try contradiction; [reflexivity|].
  destruct L as (_ & _ & _ & _ & _ & L'). cbn. f_equal. eapply IH; exact L'.
Qed.

Lemma tail_cases tbl f cs tail :
  wf_file tbl f cs tail -> len tail = 0 \/ Forall (fun c => len c = bs) cs.
Proof. intros W. destruct (wf_tail _ _ _ _ W) as [E|(F & _)]; [left; subst; reflexivity|right; exact F]. Qed.

(* sqfs_data_reader_get_block(i) delivers block i *)
Lemma agree_get_block tbl f cs tail i :
  wf_file tbl f cs tail -> (i < length cs)%nat ->
  api_get_block uncompress file bs f (N.of_nat i) = Ok (nth i cs []).
Proof.
  intros W I. pose proof (wf_layout _ _ _ _ W) as L.
  pose proof (layout_length _ _ _ L) as EL.
  unfold api_get_block.
  destruct (N.leb_spec (len (f_blocks f)) (N.of_nat i)) as [Bad|_].
  { unfold len in Bad. lia. }
  rewrite Nat2N.id.
  assert (SZ : f_size f < u64m).
  { pose proof (wf_small _ _ _ _ W). unfold u64m. lia. }
  destruct (block_pos_layout (f_blocks f) cs (f_start f) (f_size f) (len tail) i L (wf_size _ _ _ _ W) SZ
              (tail_cases _ _ _ _ W) ltac:(lia))
    as (off' & fs' & w & c & BP & NE & U & P & UN).
  rewrite BP, UN.
  rewrite (getb_unpacks off' w c (len c) U P ltac:(lia)).
  rewrite N.sub_diag, zeros_0, app_nil_r.
  rewrite (nth_error_nth _ _ _ NE).
  f_equal. unfold usz. destruct (is_sparse w); unfold len; rewrite Nat2N.id; apply firstn_all.
Qed.

End Agree.
